"""C16 — applying a rule changes exactly its reaction centre, once per embedding.

Correspondence (model `C16.applyRule` with VF2's mappings as a parameter vs `apply_rule`) and the
executable specification `C16.specClause` applied to every implementation output.  The pool of
prescribed results inside the specification is built from the driver's OWN enumeration of the
monomorphisms, not from VF2; the same enumeration checks VF2's assumed contract on every case
(a mismatch is a broken assumption: ERROR, exit 2, never a violation).

WL hashes: the model takes `wl : ITSGraph -> Hash` as a parameter.  The harness supplies, for every
VF2 mapping, the hash that networkx (iterations=3, the property's "3-round WL") computes for the ITS
graph which the SPECIFICATION prescribes for that mapping (`spec_its`, an independent Python
construction from the property's wording, with the bond objects of g / the rule so that the label
strings networkx hashes are the ones the implementation would produce).  The driver looks a graph's
hash up modulo edge order.  An implementation that hashes with fewer rounds therefore disagrees as
soon as two results are 2-round-equal and 3-round-different, and one that hashes with MORE rounds as soon
as two results are 3-round-equal and 4-round-different (generator `wl_chain`: chains of 11-17 atoms).

Taken from the code's documented behaviour (docstring of apply_rule: "Isomorphism is checked with 3
iterations WL"; module semantics of the ITS label): the class notion of `unique` = networkx's WL hash with
node label = symbol, edge label = the [g, h] pair, 3 rounds; and "a forming rule edge over two atoms that
the reactant already joins gives [b, r] on the existing bond" (no second edge).

Same-object histories (`RulePool`): long-lived ReactionRule objects are applied to several different
reactants and to the same reactant OBJECT edited in place between calls; the specification of every call is
computed from the inputs as they are at that call; rule.rc / rule.l / rule.r must be unchanged after it.
"""
import json
import os

import networkx as nx

from common import Atom, Case, Run, call_impl, prepare, ImplError, enc_graph, dbl, sx, parse_sx

PROOFS = ["FGVerif.Proofs.C16"]
SYM, BOND = "symbol", "bond"
MAX_MATCHES = 130


# ---------------------------------------------------------------------------
# plain-data graphs  {"nodes": [[id, sym]...], "edges": [[u, v, 2*order] ...]} (rc: [u, v, 2l, 2r])
# ---------------------------------------------------------------------------
def order(b2):
    """doubled order -> the Python value the parser produces (ints for whole orders, 1.5 float)"""
    return b2 // 2 if b2 % 2 == 0 else b2 / 2


def mk_mol(d):
    g = nx.Graph()
    for n, s in d["nodes"]:
        g.add_node(n, **{SYM: s})
    for u, v, b in d["edges"]:
        g.add_edge(u, v, **{BOND: order(b)})
    return g


def mk_rc(d):
    g = nx.Graph()
    for n, s in d["nodes"]:
        g.add_node(n, **{SYM: s})
    for e in d["edges"]:
        if len(e) == 3:   # scalar label (an rc graph written without <,>): stays on both sides
            g.add_edge(e[0], e[1], **{BOND: order(e[2])})
        else:
            g.add_edge(e[0], e[1], **{BOND: (order(e[2]), order(e[3]))})
    return g


def data_of_mol(g):
    return {"nodes": [[int(n), d[SYM]] for n, d in g.nodes(data=True)],
            "edges": [[int(u), int(v), dbl(d[BOND])] for u, v, d in g.edges(data=True)]}


def data_of_rc(g):
    es = []
    for u, v, d in g.edges(data=True):
        b = d[BOND]
        if isinstance(b, (tuple, list)):
            es.append([int(u), int(v), dbl(b[0]), dbl(b[1])])
        else:
            es.append([int(u), int(v), dbl(b)])
    return {"nodes": [[int(n), d[SYM]] for n, d in g.nodes(data=True)], "edges": es}


def canon_its(g):
    # a node without a symbol travels as `_` (the driver turns it into the spec failure "nodes", with a replay)
    nodes = sorted(([int(n), d.get(SYM)] for n, d in g.nodes(data=True)), key=lambda x: x[0])
    edges = []
    for u, v, d in g.edges(data=True):
        b = d[BOND]
        if not (isinstance(b, (tuple, list)) and len(b) == 2 and all(isinstance(x, (int, float)) for x in b)):
            raise ValueError("edge label of a result is not a pair of orders: %r" % (b,))
        edges.append([min(u, v), max(u, v), dbl(b[0]), dbl(b[1])])
    edges.sort()
    return [nodes, edges]


# ---------------------------------------------------------------------------
# the specification's ITS graph in Python (only used to obtain networkx's WL hash)
# ---------------------------------------------------------------------------
def rc_pair(b):
    return (b[0], b[1]) if isinstance(b, (tuple, list)) else (b, b)


def spec_its(g, rc, m):
    """g's atoms; every bond of g keeps its order unless it lies under a rule edge (then the rule's
    product order); every rule edge over two unjoined atoms adds [0, product order]"""
    inv = {x: u for u, x in m.items()}
    its = nx.Graph()
    for n, d in g.nodes(data=True):
        its.add_node(n, **{SYM: d[SYM]})
    for u, v, d in g.edges(data=True):
        b = d[BOND]
        h = b
        if u in m and v in m and rc.has_edge(m[u], m[v]):
            h = rc_pair(rc.edges[m[u], m[v]][BOND])[1]
        its.add_edge(u, v, **{BOND: [b, h]})
    for x, y, d in rc.edges(data=True):
        r = rc_pair(d[BOND])[1]
        u, v = inv[x], inv[y]
        if not g.has_edge(u, v) and r != 0:
            its.add_edge(u, v, **{BOND: [0, r]})
    return its


def wl3(its):
    return nx.weisfeiler_lehman_graph_hash(its, edge_attr=BOND, node_attr=SYM, iterations=3)


def vf2(g, rule_l):
    matcher = nx.algorithms.isomorphism.GraphMatcher(
        g, rule_l,
        node_match=lambda d1, d2: d1[SYM] == d2[SYM],
        edge_match=lambda d1, d2: d1[BOND] == d2[BOND])
    return list(matcher.subgraph_monomorphisms_iter())


# ---------------------------------------------------------------------------
# implementation call
# ---------------------------------------------------------------------------
class ImplTimeout(Exception):
    pass


def _alarm(signum, frame):
    raise ImplTimeout("apply_rule did not return within %d s" % IMPL_TIMEOUT)


IMPL_TIMEOUT = 3


def _vmsize():
    with open("/proc/self/status") as f:
        for ln in f:
            if ln.startswith("VmSize:"):
                return int(ln.split()[1]) * 1024
    return 4 << 30
TIMEOUTS = [0]


def rule_state(rule):
    import copy
    return copy.deepcopy(rule.rc), copy.deepcopy(rule.l), copy.deepcopy(rule.r)


def rule_unchanged(rule, state):
    try:
        return all(nx.utils.graphs_equal(a, b) and list(a.nodes) == list(b.nodes)
                   for a, b in zip((rule.rc, rule.l, rule.r), state))
    except Exception:
        return False


def impl_apply(g, rule, n, unique, conn, n_matches=None):
    """-> [sorted canonical results, g after the call]; a call that does not return (e.g. a change
    that lets the matcher iterate over a graph it is mutating) is cut off and counts as a failure.
    `rule` is a ReactionRule OBJECT (fresh or long-lived); rule.rc / rule.l / rule.r must be the same after the call."""
    import signal
    from fgutils.synthesis.rule_application import apply_rule
    import copy
    import resource
    g0 = copy.deepcopy(g)   # snapshot of the caller's graph
    r0 = rule_state(rule)
    old = signal.signal(signal.SIGALRM, _alarm)
    soft, hard = resource.getrlimit(resource.RLIMIT_AS)
    cap = _vmsize() + (2 << 30)
    if hard != resource.RLIM_INFINITY:
        cap = min(cap, hard)
    resource.setrlimit(resource.RLIMIT_AS, (cap, hard))   # a runaway call gets MemoryError, not the OOM killer
    signal.alarm(IMPL_TIMEOUT)
    try:
        # how the call is written (review 3): 0 keywords, 1 positional, 2 arguments equal to the DOCUMENTED default
        # (n=None, unique=True, connected_only=False - written down here, not read from the signature) are omitted;
        # a fixed function of the arguments, so a replay makes the same call
        import zlib
        form = zlib.crc32(repr((len(g), n, unique, conn)).encode()) % 3
        if form == 1:
            res = apply_rule(g, rule, n, unique, conn)
        else:
            kw = {"n": n, "unique": unique, "connected_only": conn}
            if form == 2:
                doc = {"n": None, "unique": True, "connected_only": False}
                kw = {k: v for k, v in kw.items() if not (v is doc[k] or (v == doc[k] and type(v) is type(doc[k])))}
            res = apply_rule(g, rule, **kw)
        if n_matches is not None and len(res) > 3 * n_matches + 20:
            # cannot be right (at most one result per mapping) and too large to ship to the driver
            raise ValueError("apply_rule returned %d results for %d mappings" % (len(res), n_matches))
        items = sorted((canon_its(r.graph) for r in res), key=sx)
    finally:
        signal.alarm(0)
        signal.signal(signal.SIGALRM, old)
        resource.setrlimit(resource.RLIMIT_AS, (soft, hard))
    # the caller's graph after the call: its wire form when it still equals the snapshot (this also
    # shows a changed node/adjacency order), a marker otherwise (a modified graph may carry labels
    # that cannot be encoded)
    after = enc_graph(g) if nx.utils.graphs_equal(g, g0) else Atom("modified")
    if not rule_unchanged(rule, r0):
        after = Atom("rule_modified")     # the driver reports the clause input_untouched
    return [items, after]


def as_kind(g, kind):
    """the same reactant in another input form: a frozen graph, a sub-graph VIEW of a larger graph (what nx.freeze /
    G.subgraph hand to a caller), or with extra irrelevant node / edge / graph attributes; node order, adjacency, symbols
    and bond orders are those of g, so the specification (computed from the plain data) prescribes the same results;
    an exception is a specification failure"""
    if kind == "frozen":
        return nx.freeze(g)
    if kind == "extra_attrs":
        # attributes the rule application has no business with (they are not part of the observable either)
        for k, (v, d) in enumerate(g.nodes(data=True)):
            d["charge"] = 0
            d["hcount"] = k % 4
            d["tags"] = ["x", k]
        for k, (u, v, d) in enumerate(g.edges(data=True)):
            d["stereo"] = "E" if k % 2 else None
            d["weight"] = 2.5
        g.graph["name"] = "reactant"
        return g
    if kind == "view":
        big = g.copy()
        base = max(list(g.nodes) + [0]) + 1
        big.add_node(base, **{SYM: "C"})
        big.add_node(base + 1, **{SYM: "O"})
        big.add_edge(base, base + 1, **{BOND: 1})
        if g.number_of_nodes():
            big.add_edge(base, list(g.nodes)[0], **{BOND: 1})
        return big.subgraph(list(g.nodes))
    return g


def build_case(gd, rcd, n, unique, conn, tags=(), in_domain=True, origin="generated", g=None, rule=None, history=None,
               kind="plain"):
    """-> Case or None (too many mappings).
    g / rule: existing OBJECTS (a reactant graph that lives across calls and is edited in place, a long-lived
    ReactionRule); the specification's inputs are read off them as they are NOW (gd / rcd are then ignored)."""
    from fgutils.its import split_its
    from fgutils.synthesis.rule_application import ReactionRule
    if g is None:
        g = as_kind(mk_mol(gd), kind)
    else:
        gd = data_of_mol(g)
    if rule is None:
        rc = mk_rc(rcd)
        rule = ReactionRule(rc)
    else:
        rc = rule.rc
        rcd = data_of_rc(rc)
    rule_l, _ = split_its(rc)         # the oracle splits rc itself: independent of rule.l / anything cached on the rule
    ms = vf2(g, rule_l)
    if len(ms) > MAX_MATCHES:
        return None
    hashes = [wl3(spec_its(g, rc, m)) for m in ms]
    gw = enc_graph(g)
    req = [Atom("C16"), Atom("apply"), gw, enc_graph(rc),
           [[[int(u), int(x)] for u, x in m.items()] for m in ms], hashes, n, bool(unique), bool(conn)]
    out = call_impl(impl_apply, g, rule, n, unique, conn, len(ms))
    if isinstance(out, ImplError) and ("ImplTimeout" in out.text or "MemoryError" in out.text):
        TIMEOUTS[0] += 1
    nres = None if isinstance(out, ImplError) else len(out[0])
    extra_bond = any(g.has_edge(u, v) and not rule_l.has_edge(m[u], m[v])
                     for m in ms[:20] for u in m for v in m if u < v)
    key = None
    if ms:
        key = (sx(gw), sx(enc_graph(rc)), n, unique, conn)
    tg = list(tags) + ["unique=%d" % unique, "connected_only=%d" % conn, "n=%s" % n,
                       "matches=%s" % ("0" if not ms else "1" if len(ms) == 1 else "2-9" if len(ms) < 10 else "10+"),
                       "atoms=%d" % g.number_of_nodes(),
                       "g_connected" if nx.is_connected(g) else "g_multi_molecule",
                       "g_cyclic" if g.number_of_edges() >= g.number_of_nodes() else "g_acyclic_or_forest"]
    if extra_bond:
        tg.append("extra_bond_between_matched_atoms")
    if nres is not None and n is not None and len(ms) > n:
        tg.append("limit_bites")
    if unique and len(set(hashes)) < len(hashes):
        tg.append("unique_merges")
    for e in rcd["edges"]:
        if len(e) == 4:
            tg.append("rc_edge:" + ("formation" if e[2] == 0 else "breaking" if e[3] == 0
                                    else "context" if e[2] == e[3] else "order_change"))
        else:
            tg.append("rc_edge:scalar")
    meta = {"g": gd, "rc": rcd, "n": n, "unique": unique, "connected_only": conn, "origin": origin,
            "matches": len(ms), "reactant_kind": kind}
    tg.append("reactant_object=" + kind)
    if history is not None:
        meta["history"] = history
    return Case(req, out, in_domain=in_domain, meta=meta, nontrivial_key=key, tags=sorted(set(tg)))


# ---------------------------------------------------------------------------
# generators
# ---------------------------------------------------------------------------
SYMS = ["C", "C", "C", "C", "N", "O", "O", "H"]
BONDS = [2, 2, 2, 4, 3]


def gen_reactant(rng, lo=3, hi=10):
    n = rng.randint(lo, hi)
    style = rng.random()
    if style < 0.5:
        ids = list(range(n))
    elif style < 0.75:
        off = rng.randint(1, 7)
        ids = [i + off for i in range(n)]
    else:
        ids = rng.sample(range(0, 3 * n), n)
    few = rng.random() < 0.5
    syms = [rng.choice(["C", "C", "C", "O"] if few else SYMS) for _ in range(n)]
    ncomp = 1 if rng.random() < 0.55 else rng.randint(2, 3)
    edges = {}
    comp = [rng.randrange(ncomp) for _ in range(n)]
    for c in range(ncomp):
        members = [i for i in range(n) if comp[i] == c]
        for k in range(1, len(members)):
            a = members[k]
            b = members[rng.randrange(k)] if rng.random() < 0.6 else members[k - 1]
            edges[(min(a, b), max(a, b))] = rng.choice(BONDS)
        # ring closures
        for _ in range(rng.choice([0, 0, 1, 1, 2, 3])):
            if len(members) >= 3:
                a, b = rng.sample(members, 2)
                edges.setdefault((min(a, b), max(a, b)), rng.choice(BONDS))
    el = [[ids[a], ids[b], o] for (a, b), o in edges.items()]
    rng.shuffle(el)
    el = [[u, v, o] if rng.random() < 0.5 else [v, u, o] for u, v, o in el]
    order_nodes = list(range(n))
    if rng.random() < 0.3:
        rng.shuffle(order_nodes)
    return {"nodes": [[ids[i], syms[i]] for i in order_nodes], "edges": el}


def gen_rule_from(rng, gd):
    """a rule whose left side embeds into g: pick 2-4 atoms of g, keep a subset of the bonds among
    them as left edges (the others stay as extra bonds between matched atoms), change orders, add
    formation edges (also over atoms g already joins)"""
    nodes = gd["nodes"]
    sym = {n: s for n, s in nodes}
    adj = {}
    bond = {}
    for u, v, o in gd["edges"]:
        adj.setdefault(u, []).append(v)
        adj.setdefault(v, []).append(u)
        bond[frozenset((u, v))] = o
    k = rng.randint(2, min(4, len(nodes)))
    start = rng.choice(nodes)[0]
    chosen = [start]
    while len(chosen) < k:
        frontier = [w for c in chosen for w in adj.get(c, []) if w not in chosen]
        if frontier and rng.random() < 0.75:
            chosen.append(rng.choice(frontier))
        else:
            others = [n for n, _ in nodes if n not in chosen]
            if not others:
                break
            chosen.append(rng.choice(others))
    rid = list(range(len(chosen)))
    if rng.random() < 0.4:
        off = rng.randint(1, 30)
        rid = [i + off for i in rid]
    if rng.random() < 0.4:
        rng.shuffle(rid)
    ren = dict(zip(chosen, rid))
    pairs = [(a, b) for i, a in enumerate(chosen) for b in chosen[i + 1:]]
    rng.shuffle(pairs)
    edges = []
    for a, b in pairs:
        if len(edges) >= 4:
            break
        key = frozenset((a, b))
        if key in bond:
            o = bond[key]
            t = rng.random()
            if t < 0.25:
                continue                       # bond of g between matched atoms the rule does not mention
            elif t < 0.45:
                lab = (o, o)                   # context edge
            elif t < 0.65:
                lab = (o, 0)                   # breaking
            elif t < 0.92:
                lab = (o, rng.choice([x for x in (2, 3, 4) if x != o]))   # order change
            else:
                lab = (0, rng.choice([2, 4]))  # formation over atoms that g already joins
        else:
            if rng.random() < 0.45:
                lab = (0, rng.choice([2, 2, 4, 3]))
            else:
                continue
        e = [ren[a], ren[b], lab[0], lab[1]]
        if rng.random() < 0.5:
            e = [e[1], e[0], e[2], e[3]]
        edges.append(e)
    if not edges:
        a, b = pairs[0]
        key = frozenset((a, b))
        edges.append([ren[a], ren[b], bond.get(key, 0), 2 if bond.get(key, 0) != 2 else 4])
    rn = [[ren[c], sym[c]] for c in chosen]
    rng.shuffle(rn)
    return {"nodes": rn, "edges": edges}


def gen_rule_random(rng):
    k = rng.randint(2, 4)
    ids = list(range(k))
    nodes = [[i, rng.choice(["C", "C", "C", "O", "N", "H"])] for i in ids]
    pairs = [(a, b) for a in ids for b in ids if a < b]
    rng.shuffle(pairs)
    labs = [(2, 4), (4, 2), (0, 2), (2, 0), (2, 2), (3, 2), (2, 3), (0, 4), (4, 0), (4, 4)]
    edges = [[a, b, *rng.choice(labs)] for a, b in pairs[:rng.randint(1, min(4, len(pairs)))]]
    return {"nodes": nodes, "edges": edges}


RULE_STRINGS = ["C<1,2>C", "C<1,0>OC", "C(<0,1>N)<1,0>O", "C<2,1>C<0,1>C", "C<1,2>C<1,0>C", "C<2,1>O",
                "C<1,0>O", "C<0,1>C", "C<1,2>C<2,1>C", "C1<0,1>C<2,1>C<0,1>C1", "CO", "C<0,1>O<1,0>H",
                "C=C<0,1>C", "N<0,1>C<2,1>O", "C<2,1>C<1,2>C<2,1>C"]
REACTANT_STRINGS = ["CCCC", "C1OC1", "CC(=O)O.N", "C=C.C", "CCC", "C1CC1", "C=CC=C.C=C", "CC(=O)OC.O",
                    "c1ccccc1", "C1CCC1C", "OCC(O)C", "C=O.N", "CC=CC", "C1=CC1.C", "NCC(=O)O", "C1CC1.C1OC1"]


REACTANT_KINDS = ["plain"] * 6 + ["frozen", "view", "extra_attrs"]


def flags(rng):
    return rng.choice([None, None, 0, 1, 2, 5]), rng.random() < 0.5, rng.random() < 0.4


def wl_chain_case(rng):
    """a long chain: the results for the changed bond 3 resp. 4 bonds from the end agree on 2 rounds of WL and differ on
    3 (a hash with fewer rounds merges too much: 4 classes instead of 6); from 14 atoms on, the results for bonds 5 and 6
    bonds from the end agree on 3 rounds and differ on 4 (a hash with more rounds merges too little: 14-15 atoms give 6
    classes with 3 rounds, 7 with 4 or more; 16-17 atoms 6 resp. 8).  11-17 atoms: at most 32 mappings"""
    n = rng.choice([11, 12, 13, 14, 15, 16, 17, 14, 16, 17])
    off = rng.choice([0, 0, 1, 5])
    gd = {"nodes": [[i + off, "C"] for i in range(n)],
          "edges": [[i + off, i + 1 + off, 2] for i in range(n - 1)]}
    lab = rng.choice([(2, 4), (2, 0), (2, 3)])
    rcd = {"nodes": [[0, "C"], [1, "C"]], "edges": [[0, 1, lab[0], lab[1]]]}
    return gd, rcd


# ---------------------------------------------------------------------------
# same-object histories: long-lived ReactionRule objects, reactant objects edited in place
# ---------------------------------------------------------------------------
def apply_mol_edit(g, e):
    """in-place edit of a reactant graph; e is a plain list (recorded for the replay)"""
    k = e[0]
    if k == "set_bond":
        g.edges[e[1], e[2]][BOND] = order(e[3])
    elif k == "add_edge":
        g.add_edge(e[1], e[2], **{BOND: order(e[3])})
    elif k == "remove_edge":
        g.remove_edge(e[1], e[2])
    elif k == "add_atom":
        g.add_node(e[1], **{SYM: e[2]})
        g.add_edge(e[1], e[3], **{BOND: order(e[4])})
    elif k == "remove_atom":
        g.remove_node(e[1])
    elif k == "set_symbol":
        g.nodes[e[1]][SYM] = e[2]
    else:
        raise ValueError("unknown edit %r" % (e,))


def random_mol_edit(rng, g):
    nodes = list(g.nodes)
    edges = list(g.edges)
    for _ in range(8):
        k = rng.choice(["set_bond", "set_bond", "add_edge", "remove_edge", "add_atom", "remove_atom", "set_symbol"])
        if k == "set_bond" and edges:
            u, v = rng.choice(edges)
            b = rng.choice([x for x in (2, 4, 3) if order(x) != g.edges[u, v][BOND]])
            return ["set_bond", int(u), int(v), b]
        if k == "add_edge" and len(nodes) >= 2:
            u, v = rng.sample(nodes, 2)
            if not g.has_edge(u, v):
                return ["add_edge", int(u), int(v), rng.choice(BONDS)]
        if k == "remove_edge" and edges:
            u, v = rng.choice(edges)
            return ["remove_edge", int(u), int(v)]
        if k == "add_atom" and nodes and len(nodes) < 12:
            return ["add_atom", int(max(nodes)) + rng.choice([1, 1, 2, 5]), rng.choice(["C", "C", "O", "N"]), int(rng.choice(nodes)), rng.choice(BONDS)]
        if k == "remove_atom" and len(nodes) >= 4:
            return ["remove_atom", int(rng.choice(nodes))]
        if k == "set_symbol" and nodes:
            v = rng.choice(nodes)
            s = rng.choice([x for x in ("C", "O", "N") if x != g.nodes[v][SYM]])
            return ["set_symbol", int(v), s]
    return None


class LongLivedRule:
    """one ReactionRule object and everything that has happened to it (events, replayable):
         ["reactant", gd]        a new reactant object (built by mk_mol) becomes the current one
         ["edit", e]             the current reactant object is edited in place
         ["call", n, unique, connected_only]   apply_rule(current reactant object, THE rule object, ...)"""

    def __init__(self, rcd):
        from fgutils.synthesis.rule_application import ReactionRule
        self.rcd0 = rcd
        self.rule = ReactionRule(mk_rc(rcd))
        self.events = []
        self.calls = 0
        self.g = None

    def new_reactant(self, gd):
        self.g = mk_mol(gd)
        self.events.append(["reactant", gd])

    def edit(self, e):
        apply_mol_edit(self.g, e)
        self.events.append(["edit", list(e)])

    def call(self, n, unique, conn, tags=(), judge=True):
        self.events.append(["call", n, bool(unique), bool(conn)])
        self.calls += 1
        if not judge:
            call_impl(impl_apply, self.g, self.rule, n, unique, conn, None)
            return None
        hist = {"rc0": self.rcd0, "events": [list(x) for x in self.events]}
        return build_case(None, None, n, unique, conn, tags=tags, origin="history", g=self.g, rule=self.rule, history=hist)


def run_history(hist, tags=("replay",), judge_all=False):
    """rebuild the rule object, run the recorded events in order -> the Cases of the judged calls
    (all calls, or only the last one: the earlier ones are then merely executed)"""
    ll = LongLivedRule(hist["rc0"])
    ev = hist["events"]
    out = []
    for k, e in enumerate(ev):
        if e[0] == "reactant":
            ll.new_reactant(e[1])
        elif e[0] == "edit":
            ll.edit(e[1])
        else:
            cs = ll.call(e[1], e[2], e[3], tags=tags, judge=judge_all or k == len(ev) - 1)
            if cs is not None:
                out.append(cs)
    return out


class RulePool:
    """a few long-lived rules; each is retired after 8-14 calls (the recorded history stays short)"""
    SLOTS = 5

    def __init__(self, rng):
        self.rng = rng
        self.slots = [None] * self.SLOTS
        self.life = [0] * self.SLOTS

    def fresh_rule(self):
        from fgutils.parse import parse
        rng = self.rng
        t = rng.random()
        if t < 0.5:
            return data_of_rc(parse(rng.choice(RULE_STRINGS)))
        if t < 0.9:
            return gen_rule_from(rng, gen_reactant(rng))
        return gen_rule_random(rng)

    def step(self):
        """-> list of Cases (0-3): one slot, the next reactant (new object or the current one edited in place), one call"""
        from fgutils.parse import parse
        rng = self.rng
        k = rng.randrange(self.SLOTS)
        if self.slots[k] is None or self.slots[k].calls >= self.life[k]:
            self.slots[k] = LongLivedRule(self.fresh_rule())
            self.life[k] = rng.randint(8, 14)
        ll = self.slots[k]
        how = "new_reactant"
        if ll.g is not None and ll.g.number_of_nodes() > 0 and rng.random() < 0.5:
            how = "same_reactant_edited" if rng.random() < 0.8 else "same_reactant_unchanged"
        if how == "new_reactant":
            t = rng.random()
            if t < 0.35:
                gd = data_of_mol(parse(rng.choice(REACTANT_STRINGS)))
            elif t < 0.5:
                gd, _ = wl_chain_case(rng)
            else:
                gd = gen_reactant(rng)
                if rng.random() < 0.5:
                    # a reactant this rule certainly matches: graft the rule's left side onto it
                    gd = graft_left_side(rng, gd, ll.rcd0)
            ll.new_reactant(gd)
        elif how == "same_reactant_edited":
            for _ in range(rng.choice([1, 1, 2])):
                e = random_mol_edit(rng, ll.g)
                if e is not None:
                    ll.edit(e)
        n, u, c = flags(rng)
        cs = ll.call(n, u, c, tags=("gen:history", "history:" + how, "history:rule_call#%s" % (ll.calls if ll.calls < 4 else "4+")))
        if cs is None:
            # too many mappings for the driver: the call was not made; forget the event
            ll.events.pop()
            ll.calls -= 1
            return []
        return [cs]


def graft_left_side(rng, gd, rcd):
    """add a copy of the rule's left side (atoms + bonds with left order != 0) to the reactant, joined to it by one bond"""
    nodes = [list(x) for x in gd["nodes"]]
    edges = [list(x) for x in gd["edges"]]
    base = max([n for n, _ in nodes] + [0]) + 1
    ren = {}
    for i, (n, s) in enumerate(rcd["nodes"]):
        ren[n] = base + i
        nodes.append([base + i, s])
    for e in rcd["edges"]:
        lo = e[2]
        if lo != 0:
            edges.append([ren[e[0]], ren[e[1]], lo])
    if gd["nodes"] and rng.random() < 0.7:
        edges.append([rng.choice(gd["nodes"])[0], base, 2])
    return {"nodes": nodes, "edges": edges}


# ---------------------------------------------------------------------------
# GML glue (test): render L/C/R to text, parse it, compare with the model's toRcGraph
# ---------------------------------------------------------------------------
GML_BOND = {2: "-", 4: "=", 3: ":"}


def render_gml(rule_id, L, C, R, rng):
    ind = lambda: " " * rng.choice([1, 2, 4, 8])
    lines = ["rule [", "%sruleID \"%s\"" % (rng.choice(["", " ", "   "]), rule_id)]
    for name, gr in (("left", L), ("context", C), ("right", R)):
        lines.append("%s%s [" % (rng.choice(["", " ", "   "]), name))
        items = [("n", x) for x in gr["nodes"]] + [("e", x) for x in gr["edges"]]
        if rng.random() < 0.5:
            rng.shuffle(items)
        for kind, x in items:
            if kind == "n":
                lines.append("%snode [ id %d label \"%s\" ]" % (ind(), x[0], x[1]))
            else:
                lines.append("%sedge [ source %d target %d label \"%s\" ]" % (ind(), x[0], x[1], GML_BOND[x[2]]))
        lines.append("%s]" % rng.choice(["", " ", "   "]))
    lines.append("]")
    return "\n".join(lines)


def gen_dpo(rng):
    k = rng.randint(2, 5)
    ids = rng.sample(range(0, 12), k)
    syms = [rng.choice(["C", "N", "O", "H", "Cl", "C+", "O-"]) for _ in ids]
    C = {"nodes": [[i, s] for i, s in zip(ids, syms)], "edges": []}
    pairs = [(a, b) for a in ids for b in ids if a < b]
    rng.shuffle(pairs)
    L = {"nodes": [], "edges": []}
    R = {"nodes": [], "edges": []}
    for a, b in pairs[:rng.randint(1, min(5, len(pairs)))]:
        t = rng.random()
        u, v = (a, b) if rng.random() < 0.5 else (b, a)
        if t < 0.35:
            L["edges"].append([u, v, rng.choice([2, 4, 3])])
        elif t < 0.7:
            R["edges"].append([u, v, rng.choice([2, 4, 3])])
        else:
            L["edges"].append([u, v, rng.choice([2, 4, 3])])
            R["edges"].append([v, u, rng.choice([2, 4, 3])] if rng.random() < 0.5 else [u, v, rng.choice([2, 4, 3])])
    sym = dict(zip(ids, syms))
    ln = sorted({x for e in L["edges"] for x in e[:2]} | set(rng.sample(ids, rng.randint(0, k))))
    rn = sorted({x for e in R["edges"] for x in e[:2]} | set(rng.sample(ids, rng.randint(0, k))))
    L["nodes"] = [[i, sym[i]] for i in ln]
    R["nodes"] = [[i, sym[i]] for i in rn]
    bad = False
    if rng.random() < 0.12 and L["nodes"]:
        # a left node that is not in the context: the call must refuse with ValueError
        victim = rng.choice(L["nodes"])[0]
        C["nodes"] = [x for x in C["nodes"] if x[0] != victim]
        bad = True
    return L, C, R, bad


def impl_rcgraph(text):
    from fgutils.synthesis.rule_application import ReactionRule
    rule = ReactionRule.from_gml(text)
    return canon_its(rule.rc)


def gml_case(rng):
    L, C, R, bad = gen_dpo(rng)
    text = render_gml("r%d" % rng.randint(0, 999), L, C, R, rng)
    out = call_impl(impl_rcgraph, text)
    # right-hand nodes outside a (damaged) context are created without a symbol by add_edge: the
    # statement does not speak about that text
    ctx = {x[0] for x in C["nodes"]}
    in_dom = all(x in ctx for e in R["edges"] for x in e[:2]) and all(x[0] in ctx for x in R["nodes"])
    req = [Atom("C16"), Atom("rcgraph"), enc_graph(mk_mol(L)), enc_graph(mk_mol(C)), enc_graph(mk_mol(R))]
    return Case(req, out, in_domain=in_dom, meta={"gml": text, "origin": "gml"},
                nontrivial_key=("gml", text) if (L["edges"] and R["edges"]) else None,
                tags=("gml", "gml:left_node_outside_context" if bad else "gml:well_formed"))


# ---------------------------------------------------------------------------
# corpus
# ---------------------------------------------------------------------------
def corpus_cases():
    from fgutils.parse import parse
    cases = []
    items = [
        # the two F10 witnesses
        ("C1OC1", "C<1,0>OC", None, False, False),
        ("CCCC", "C<1,2>C", 1, False, False),
        ("CCCC", "C<1,2>C", 2, True, False),
        ("CCCC", "C<1,2>C", 0, False, False),
        # the baseline tests' inputs
        ("CC(=O)O.N", "C(<0,1>N)<1,0>O", None, False, False),
        ("C=C.C", "C<2,1>C<0,1>C", None, False, False),
        ("CCC", "C<1,2>C<1,0>C", None, False, False),
        ("C=C.C", "C<2,1>C<0,1>C", None, True, True),
        ("C=C.C.C", "C<2,1>C<0,1>C", None, False, True),
        ("C1CC1", "C<1,2>C", None, True, False),
        ("C1CC1", "C<1,0>CC", None, False, False),
        ("C1CC1.C1OC1", "C<1,0>O", 5, True, False),
    ]
    for r, ru, n, u, c in items:
        for kind in ("plain", "frozen", "view", "extra_attrs"):      # the same reactant in every input form
            cs = build_case(data_of_mol(parse(r)), data_of_rc(parse(ru)), n, u, c, tags=("corpus",), origin="corpus %s / %s" % (r, ru), kind=kind)
            if cs is not None:
                cases.append(cs)
    d = os.path.join(os.path.dirname(os.path.dirname(os.path.abspath(__file__))), "corpus", "C16")
    if os.path.isdir(d):
        for fn in sorted(os.listdir(d)):
            if fn.endswith(".json"):
                j = json.load(open(os.path.join(d, fn)))
                if "history" in j:
                    cases += run_history(j["history"], tags=("corpus", "gen:history"), judge_all=True)
                    continue
                cs = build_case(j["g"], j["rc"], j["n"], j["unique"], j["connected_only"], tags=("corpus",), origin="corpus/" + fn)
                if cs is not None:
                    cases.append(cs)
    return cases


def gen_cases(rng, count):
    from fgutils.parse import parse
    cases = []
    skipped = 0
    pool = RulePool(rng)
    while len(cases) < count:
        if TIMEOUTS[0] >= 8:
            break   # the implementation hangs: the cases collected so far already decide the verdict
        if rng.random() < 0.25:
            got = pool.step()
            if not got:
                skipped += 1
            cases += got
            continue
        t = rng.random()
        n, u, c = flags(rng)
        if t < 0.62:
            gd = gen_reactant(rng)
            rcd = gen_rule_from(rng, gd)
            tags = ("gen:rule_from_reactant",)
        elif t < 0.72:
            gd = gen_reactant(rng)
            rcd = gen_rule_random(rng)
            tags = ("gen:random_rule",)
        elif t < 0.84:
            gd = data_of_mol(parse(rng.choice(REACTANT_STRINGS)))
            rcd = data_of_rc(parse(rng.choice(RULE_STRINGS)))
            tags = ("gen:parsed_strings",)
        elif t < 0.92:
            gd, rcd = wl_chain_case(rng)
            u = True
            c = False
            n = rng.choice([None, None, 5, 20])
            tags = ("gen:wl_chain",)
        else:
            cases.append(gml_case(rng))
            continue
        cs = build_case(gd, rcd, n, u, c, tags=tags, kind=rng.choice(REACTANT_KINDS))
        if cs is None:
            skipped += 1
            continue
        cases.append(cs)
    return cases, skipped


# ---------------------------------------------------------------------------
def check_contract(r, outs):
    """VF2's assumed contract, checked by the driver's own enumerator on every apply case"""
    bad = [o for o in outs if o.ok_reply and o.case.req[1] == "apply" and len(o.extra) >= 1 and o.extra[0] == "0"]
    return bad


class _Replies:
    """stands in for the driver when the replies were computed by worker processes"""

    def __init__(self, replies):
        self.replies = replies
        self.count = 0

    def batch(self, lines):
        assert len(lines) == len(self.replies)
        self.count += len(lines)
        return self.replies

    def close(self):
        pass


def _worker(args):
    """one chunk: generate the cases (own seeded stream), run the implementation, ask an own driver"""
    import random
    from common import Driver
    chunk_seed, count = args
    rng = random.Random(chunk_seed)
    cases, skipped = gen_cases(rng, count)
    d = Driver()
    try:
        replies = d.batch([c.line() for c in cases])
    finally:
        d.close()
    return cases, replies, skipped


def run(tier, seed):
    r = Run("C16", tier, seed)
    if not prepare(r, PROOFS, "C16"):
        return 2
    rng = r.rng
    cases = corpus_cases()
    r.count("corpus_cases", len(cases))
    outs = r.evaluate(cases)
    if tier == "quick":
        gen, skipped = gen_cases(rng, 1500)
        r.count("skipped_too_many_matches", skipped)
        for k in range(0, len(gen), 500):
            outs += r.evaluate(gen[k:k + 500])
    else:
        # thorough: 100 chunks of 500 cases, each with its own seed derived from VERIF_SEED, in worker
        # processes (own driver each); results are collected in chunk order, so the run is
        # deterministic for a given seed whatever the scheduling
        import multiprocessing as mp
        chunks = [(seed * 1000003 + 17 * k + 1, 500) for k in range(100)]
        real_driver = r.driver
        with mp.get_context("fork").Pool(min(12, os.cpu_count() or 2)) as pool:
            for cs, replies, skipped in pool.imap(_worker, chunks):
                r.count("skipped_too_many_matches", skipped)
                r.driver = _Replies(replies)
                outs += r.evaluate(cs)
        r.driver = real_driver
    broken = check_contract(r, outs)
    r.notes["vf2_contract_checked_cases"] = sum(1 for o in outs if o.ok_reply and o.case.req[1] == "apply")
    r.extra_cov["vf2_contract_checked_cases"] = r.notes["vf2_contract_checked_cases"]
    r.extra_cov["vf2_contract_mismatches"] = len(broken)
    model_rejected = [o for o in outs if o.ok_reply and o.case.in_domain and o.spec_model == "0"]
    r.extra_cov["spec_rejects_model_cases"] = len(model_rejected)
    r.extra_cov["gml_text_layer"] = "test (not proved): %d rendered rules parsed by parse_gml_dpo_rule and compared with " \
                                    "the model toRcGraph / the proved-sound rcSpecB" % r.dist.get("tag:gml", 0)
    r.extra_cov["failing_clauses"] = sorted({o.extra[1] for o in r.spec_failures if len(o.extra) > 1})
    # the hypotheses of C16.specCheck_sound / C16.applyRule_spec (C16.inputsWFB, proved sound: C16.inputsWFB_sound) are
    # evaluated by the driver on every request; a generated in-domain input outside them is a harness defect (exit 2)
    outside_wf = [o for o in outs if o.ok_reply and o.case.in_domain and o.case.req[1] == "apply"
                  and (len(o.extra) < 5 or o.extra[4] != "1")]
    r.extra_cov["inputs_violating_theorem_hypotheses"] = len(outside_wf)
    r.extra_cov["same_object_history_calls"] = r.dist.get("tag:gen:history", 0)
    r.assumptions = [
        "networkx GraphMatcher.subgraph_monomorphisms_iter (VF2) enters the model as the parameter `matches`; "
        "assumed contract C16.MatchesContract (each label- and bond-preserving monomorphism of rule.l into g exactly once), "
        "checked on every case against the model's own enumerator C16.monos",
        "nx.weisfeiler_lehman_graph_hash enters as the parameter `wl`; the harness supplies networkx's 3-iteration hash of the "
        "specification's ITS graph for every mapping",
        "graphs are modelled as edge lists with unordered lookup (adjacency order is not observed by the property)",
        "ITS(its) numbers the atoms (complete_aam, property C20): the atom map is not part of C16's observable",
        "the GML text layer (six regexes) is glue: tested (rendered rules vs model toRcGraph), not proved",
        "taken from the code's documented behaviour, not derived independently: (1) the class notion of `unique` = networkx WL hash with node label = symbol, "
        "edge label = the [g, h] pair, 3 rounds (docstring of apply_rule); (2) a forming rule edge over two atoms the reactant already joins gives [b, r] on the "
        "existing bond (no second edge)",
        "the hypotheses of C16.specCheck_sound (g.nodeIds.Nodup, (mkRule rc).l.nodeIds.Nodup) and C16.applyRule_spec (InputsWF) are evaluated by the driver on every "
        "request (C16.inputsWFB, sound by C16.inputsWFB_sound); generated in-domain inputs outside them: see inputs_violating_theorem_hypotheses (must be 0)",
        "same-object histories: the model has no state; the request of every call is built from the reactant object and rule.rc as they are at the time of the call, "
        "the oracle (VF2 mappings, WL hashes of the prescribed graphs) splits rule.rc itself and never reads rule.l / rule.r or anything stored on the rule object",
    ]
    rc = r.finish(
        level="proof",
        rule="random reactants (3-10 atoms, C/N/O/H, orders 1/2/1.5, trees and rings, 1-3 molecules, sparse/shuffled ids; handed over as a plain nx.Graph, "
             "a frozen graph, a sub-graph view of a larger graph, or with extra irrelevant attributes) x rules "
             "derived from the reactant (2-4 nodes, 1-4 edges: context/breaking/order change/formation, bonds of g between matched "
             "atoms left unmentioned) + random rules + parsed strings + 11-17 atom chains (WL rounds: 2 vs 3 from 12 atoms, 3 vs 4 from 14 atoms on) x unique x "
             "connected_only x n in {None,0,1,2,5}; same-object histories (25% of the apply cases): a pool of 5 long-lived ReactionRule objects, each applied 8-14 times "
             "to new reactant objects (parsed strings, chains, random reactants, reactants with the rule's left side grafted on) and to the SAME reactant object edited "
             "in place between calls (bond order, edge added/removed, atom added/removed, symbol), rule.rc/l/r compared with a snapshot after every call; "
             "GML rendering of random L/C/R; non-trivial = at least one mapping, distinct by (g, rc, flags)",
        checker_cmd="cd lean && lake build FGVerif.Proofs.C16 && lake env lean FGVerif/Audit/C16.lean",
        explanation="theorems in lean/FGVerif/Proofs/C16.lean about Model/C16.lean; model tied to apply_rule / to_rc_graph by "
                    "differential testing; executable spec C16.specClause (own monomorphism enumeration) applied to every "
                    "implementation output. The class notion of `unique` (WL labels = symbol and [g, h] pair, 3 rounds) and 'formation over an "
                    "existing bond gives [b, r]' are taken from the code's documented behaviour. A result node without a symbol or a rule / reactant "
                    "object changed by the call is a specification failure (clauses nodes / input_untouched) with a replay, not a decode error")
    if outside_wf:
        o = outside_wf[0]
        p = r.write_replay("machinery", "inputs_outside_hypotheses", r.outcome_payload(o))
        print("ERROR property=C16 %d generated in-domain input(s) violate the hypotheses of the theorems (C16.inputsWFB = false): "
              "harness defect, not a verdict about the code; first: %s" % (len(outside_wf), p))
        return 2 if rc == 0 else rc
    if model_rejected and not broken:
        # C16.applyRule_spec says this cannot happen for well-formed inputs under the contract of VF2
        o = model_rejected[0]
        p = r.write_replay("machinery", "spec_rejects_model", r.outcome_payload(o))
        print("ERROR property=C16 the executable specification rejects the MODEL's output on %d case(s) "
              "(checker or hypotheses broken, not a verdict about the code); first: %s" % (len(model_rejected), p))
        return 2
    if broken:
        o = broken[0]
        p = r.write_replay("machinery", "vf2_contract", r.outcome_payload(o))
        print("ERROR property=C16 the assumed contract of VF2 (each monomorphism exactly once) failed on %d case(s); first: %s"
              % (len(broken), p))
        return 2
    return rc


def replay(path):
    """re-run one recorded input against the current tree and the driver"""
    j = json.load(open(path))
    meta = j.get("meta") or {}
    r = Run("C16", "replay", j.get("seed", 0))
    if not prepare(r, PROOFS, "C16"):
        return 2
    import random
    if meta.get("origin") == "gml":
        # same L/C/R as recorded (taken from the request), implementation re-run on the recorded text
        req = parse_sx(j["request_line"])[:5]
        out = call_impl(impl_rcgraph, meta["gml"])
        impl = sx([Atom("raised"), Atom(out.kind)]) if isinstance(out, ImplError) else sx(out)
        line = "(" + " ".join(sx_list(x) for x in req) + " " + impl + ")"
        reply = r.get_driver().ask(line)
        print("GML text:\n" + meta["gml"])
        print("implementation:", out)
        print("driver reply  :", sx_list(reply))
        if reply[0] == "ok" and reply[3] == "0":
            print("VIOLATION property=C16 replay=%s clause=rc_of_dpo" % path)
            return 1
        if reply[0] != "ok":
            print("ERROR driver could not answer")
            return 2
        print("replayed input satisfies the property on the current tree")
        return 0
    if meta.get("history"):
        print("same-object history of the rule: %d events, the last call is judged" % len(meta["history"]["events"]))
        cs = run_history(meta["history"])[-1]
    else:
        cs = build_case(meta["g"], meta["rc"], meta["n"], meta["unique"], meta["connected_only"], origin="replay",
                        kind=meta.get("reactant_kind", "plain"))
    outs = r.evaluate([cs])
    o = outs[0]
    print("request:", cs.line()[:2000])
    print("reply  :", sx_list(o.reply)[:2000])
    if o.spec_fail:
        print("VIOLATION property=C16 replay=%s clause=%s" % (path, o.extra[1] if len(o.extra) > 1 else "?"))
        return 1
    if not o.corr:
        print("VIOLATION property=C16 replay=%s no-failing-input-found (model/implementation disagree)" % path)
        return 1
    print("replayed input satisfies the property on the current tree")
    return 0


def sx_list(x):
    if isinstance(x, str):
        return x
    return "(" + " ".join(sx_list(y) for y in x) + ")"
