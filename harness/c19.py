"""C19 — the RDKit bridge: correspondence + executable spec on implementation outputs.

Legs
  bridge   real `mol_to_graph(graph_to_mol(g, ignore_aam))` against the Lean model `C19.bridge`
           (exact wire comparison) and against the proved-sound semantic spec `C19.BridgeSpec`
           (which the model output satisfies by theorem `C19.bridge_spec_holds`; hypotheses checked per case)
           (same atoms in order, same bonded pairs with the same orders, same map numbers);
           labelled nodes must be refused with ValueError.
  smiles   `graph_to_smiles` -> `smiles_to_graph` on neutral RDKit-valid molecules from a small
           generator: whenever RDKit re-reads the SMILES the result must be isomorphic
           (RDKit's own round trip: exercised here, not proved).
  compare  `mol_compare` under random renumbering / re-insertion order (implementation), and the
           Lean WL model against networkx through the partitions both induce on batches of graphs.
"""
import hashlib
import json

import networkx as nx

from common import Atom, Case, Run, call_impl, prepare, enc_graph, sx, ImplError, parse_sx, input_variant

PROOFS = ["FGVerif.Proofs.C19"]

ELEMENTS = ["C", "C", "C", "N", "O", "S", "P", "F", "Cl", "Br", "I", "B", "Si", "Se", "H", "Sn", "Mg", "Li",
            "c", "c", "n", "o", "s", "p", "b"]
ORDERS = [1, 1, 1, 1.5, 2, 3, 4]
NORM = {"c": "C", "n": "N", "b": "B", "o": "O", "p": "P", "s": "S"}   # hand-written


# ---------------------------------------------------------------------------
# bridge leg
# ---------------------------------------------------------------------------
def impl_bridge(g, ignore_aam):
    from fgutils.rdkit import graph_to_mol, mol_to_graph
    return mol_to_graph(graph_to_mol(g, ignore_aam=ignore_aam))


def gen_bridge_graph(rng, big=False):
    n = rng.randint(1, 24 if big else 9)
    style = rng.choice(["contiguous", "offset", "sparse", "shuffled", "negative", "permuted"])
    if style == "contiguous":
        ids = list(range(n))
    elif style == "permuted":
        # exactly the ids 0..n-1, inserted in a random order (a node id is then NOT its RDKit atom index)
        ids = rng.sample(range(n), n)
    elif style == "offset":
        o = rng.randint(1, 9)
        ids = list(range(o, o + n))
    elif style == "sparse":
        ids = sorted(rng.sample(range(0, 4 * n + 4), n))
    elif style == "shuffled":
        ids = rng.sample(range(0, 3 * n + 3), n)
    else:
        ids = rng.sample(range(-n - 2, n + 2), n)
    aam_style = rng.choice(["none", "all", "partial", "with0", "negative"])
    pool = rng.sample(range(1, 3 * n + 2), n)
    parsed_attrs = rng.random() < 0.3
    labelled = rng.random() < 0.08
    g = nx.Graph()
    for k, i in enumerate(ids):
        d = {"symbol": rng.choice(ELEMENTS)}
        if parsed_attrs:
            d["labels"] = []
            d["is_labeled"] = False
        if aam_style == "all" or (aam_style in ("partial", "with0", "negative") and rng.random() < 0.6):
            d["aam"] = pool[k]
        g.add_node(i, **d)
    if aam_style == "with0":
        g.nodes[rng.choice(ids)]["aam"] = 0
    if aam_style == "negative":
        g.nodes[rng.choice(ids)]["aam"] = -rng.randint(1, 3)
    if labelled:
        v = rng.choice(ids)
        g.nodes[v]["symbol"] = "#"
        g.nodes[v]["labels"] = rng.choice([["alkyl"], ["x", "y"], ["pattern"]])
        g.nodes[v]["is_labeled"] = True
    edges = []
    for k in range(1, n):
        if rng.random() < 0.9:
            edges.append((ids[k], ids[rng.randrange(k)]))
    for _ in range(rng.randint(0, 3)):
        if n >= 3:
            a, b = rng.sample(ids, 2)
            edges.append((a, b))
    rng.shuffle(edges)
    unsupported = rng.random() < 0.03
    for a, b in edges:
        if rng.random() < 0.5:
            a, b = b, a
        g.add_edge(a, b, bond=rng.choice(ORDERS))
    if unsupported and g.number_of_edges():
        a, b = rng.choice(list(g.edges))
        g[a][b]["bond"] = rng.choice([0, 5, 2.5])
    return g, {"ids": style, "aam": aam_style, "labelled": labelled, "unsupported": unsupported}


# graph_to_mol / graph_to_smiles / mol_compare only READ their graphs: frozen graphs, sub-graph views of a larger
# graph, irrelevant extra attributes and numpy ids / map numbers / half orders must make no difference
VARIANT_KINDS = ("frozen", "view", "extra_attrs", "numpy")
FORM_SHARE = 0.12


def as_variant(g, rng, kinds=VARIANT_KINDS):
    v, form = input_variant(g, rng, kinds)
    if sx(enc_graph(v)) != sx(enc_graph(g)):
        raise AssertionError("input_variant changed the wire form (harness defect)")
    return v, form


def canon_adj(enc):
    """adjacency rows sorted by neighbour id: the property does not speak of neighbour order"""
    multi, nodes, adj = enc
    return [multi, nodes, [[n, sorted(row, key=lambda e: e[0])] for n, row in adj]]


def bridge_case(g, ignore_aam, name, tags, form_rng=None, form_kinds=VARIANT_KINDS):
    """`form_rng`: graph_to_mol receives the graph in another FORM (common.input_variant); request and oracles are
    those of the plain graph"""
    req = [Atom("C19"), Atom("bridge"), bool(ignore_aam), enc_graph(g)]
    form = None
    g_impl = g
    if form_rng is not None:
        g_impl, form = as_variant(g, form_rng, form_kinds)
        tags = list(tags) + ["input_form", form]
    out = call_impl(impl_bridge, g_impl, ignore_aam)
    aams = [d.get("aam") for _, d in g.nodes(data=True)]
    orders = [b for _, _, b in g.edges(data="bond")]
    # self-loops are outside the domain: RDKit's AddBond(i, i) raises, the RWMol model does not reproduce that
    # (hypothesis `noSelfLoops` of C19.bridge_lossless, evaluated by the driver: extra `noloops=`)
    loops = nx.number_of_selfloops(g)
    in_domain = all(a is None or a >= 1 for a in aams) and all(o in (1, 1.5, 2, 3, 4) for o in orders) and loops == 0
    labelled = any(d.get("is_labeled") for _, d in g.nodes(data=True))
    t = list(tags) + ["ignore_aam" if ignore_aam else "with_aam"]
    if form == "variant=numpy" and not ignore_aam and any(a is not None and a >= 0 for a in aams):
        # this input form exposed a genuine defect (graph_to_mol handed numpy.int64 map numbers to RDKit's
        # Atom.SetAtomMapNum, which refuses them): repaired in /repo (5975c71); the form is in domain
        t.append("numpy_map_numbers_reach_SetAtomMapNum")
    if loops:
        t.append("self-loop(out-of-domain)")
    if labelled:
        t.append("labelled-node")
    for o in sorted(set(orders)):
        t.append("order=%s" % o)
    if any(a == 1 for a in aams):
        t.append("has-map-1")
    key = hashlib.blake2b((sx(req) + str(form)).encode(), digest_size=8).hexdigest() if g.number_of_edges() else None
    return Case(req, canon_adj(enc_graph(out)) if isinstance(out, nx.Graph) else out, in_domain=in_domain,
                meta={"name": name, "self_loops": loops, "variant": form}, nontrivial_key=key, tags=t)


def bridge_corpus():
    from fgutils.parse import parse
    out = []
    for o in (1, 1.5, 2, 3, 4):        # one cell per supported order (sparse ids, map numbers 1 and 2)
        g = nx.Graph()
        g.add_node(7, symbol="C", aam=1)
        g.add_node(3, symbol="c" if o == 1.5 else "N", aam=2)
        g.add_edge(7, 3, bond=o)
        out.append(("cell:order=%s" % o, g))
    for smi in ["CCO", "c1ccccc1", "CSi(C)(C)C", "C#N", "O=CCl", "c1ccncc1", "C$C", "CS(=O)(=O)C"]:
        try:
            out.append(("parse:" + smi, parse(smi)))
            out.append(("parse+aam:" + smi, parse(smi, init_aam=True, idx_offset=3)))
        except Exception:
            pass
    try:
        out.append(("labelled:C{alkyl}", parse("C{alkyl}")))
    except Exception:
        pass
    out.append(("empty", nx.Graph()))
    # self-loops (out of domain: graph_to_mol raises inside RDKit, the model does not)
    g = nx.Graph()
    g.add_node(0, symbol="C")
    g.add_edge(0, 0, bond=1)
    out.append(("self-loop:single-atom", g))
    g = nx.Graph()
    g.add_node(4, symbol="C", aam=1)
    g.add_node(2, symbol="O", aam=2)
    g.add_edge(4, 2, bond=2)
    g.add_edge(2, 2, bond=1)
    out.append(("self-loop:C=O(O-O loop)", g))
    return out


# ---------------------------------------------------------------------------
# SMILES leg
# ---------------------------------------------------------------------------
VAL = {"C": 4, "N": 3, "O": 2, "S": 2, "F": 1, "Cl": 1, "Br": 1, "P": 3, "B": 3}
RINGS = ["c1ccccc1", "c1ccncc1", "C1CCCCC1", "C1CCOC1", "c1ccoc1", "c1ccsc1", "C1CC1", "c1ccc2ccccc2c1", "c1cncnc1"]
# aromatic ring systems WRITTEN in Kekule form (the FGUtils parser, and any graph assembled by hand or by apply_rule, keeps
# the bonds 1/2 as written; RDKit's default reader perceives aromaticity when the SMILES written for such a graph is re-read)
KEKULE_RINGS = ["C1=CC=CC=C1", "C1=CC=CN=C1", "C1=COC=C1", "C1=CSC=C1", "C1=CC=C2C=CC=CC2=C1", "C1=CC=CC=C1O", "C1=NC=NC=C1",
                "C1=CNC=C1", "C1=CC=C(C=C1)C", "C1=CC=CC=C1Cl"]
# hypervalent groups written WITHOUT charges: RDKit's sanitisation rewrites pentavalent N (nitro, diazo, azide, N-oxide) into the
# charge-separated form (bond orders change), and leaves sulfone / sulfoxide / phosphine oxide / phosphate alone
HYPER_1 = ["N(=O)=O", "N=N#N", "S(C)(=O)=O", "S(=O)(=O)O", "P(C)(C)=O", "S(C)=O", "OP(=O)(O)O", "N(C)(C)=O", "ON(=O)=O"]   # attached by a single bond
HYPER_2 = ["N#N", "S(=O)=O", "S(C)(C)=O"]                                           # attached by a double bond (C=N#N diazo)
BOND_SYM = {1: "", 2: "=", 3: "#"}
SMILES_REREAD_FLOOR = 0.5
# witnesses of K8 (review 3, H1) and neighbours that must round-trip; each through the parser (bonds as written) in every run
SMILES_CORPUS = ["C1=CC=CC=C1", "C1=CC=CN=C1", "C1=COC=C1", "CC1=CC=CC=C1O", "C1=CC=C2C=CC=CC2=C1", "CN(=O)=O", "C=N#N", "CN=N#N",
                 "CS(C)(=O)=O", "CP(C)(C)=O", "C1=CCCCC1", "C1=CC=CC1", "c1ccccc1", "O=N(=O)C1=CC=CC=C1"]


def gen_smiles(rng, depth=0, incoming=0, budget=None):
    """a random neutral molecule as SMILES (tree of atoms with valence bookkeeping + ring fragments)"""
    if budget is None:
        budget = [rng.randint(1, 14)]
    budget[0] -= 1
    if incoming == 1 and rng.random() < 0.18:
        return rng.choice(RINGS)
    if incoming == 1 and rng.random() < 0.07:
        return rng.choice(KEKULE_RINGS)
    if incoming == 1 and rng.random() < 0.07:
        return rng.choice(HYPER_1)
    if incoming == 2 and rng.random() < 0.12:
        return rng.choice(HYPER_2)
    sym = rng.choice([e for e, v in VAL.items() if v >= max(incoming, 1)] + ["C"] * 6)
    free = VAL[sym] - incoming
    parts = []
    while free > 0 and budget[0] > 0 and depth < 6 and rng.random() < 0.65:
        o = rng.choice([1, 1, 1, 2, 3])
        if o > free:
            o = 1
        parts.append(BOND_SYM[o] + gen_smiles(rng, depth + 1, o, budget))
        free -= o
    s = sym
    for p in parts[:-1]:
        s += "(" + p + ")"
    if parts:
        s += parts[-1]
    return s


def norm_sym(s):
    return NORM.get(s, s)


def iso(g, h):
    return nx.is_isomorphic(g, h, node_match=lambda a, b: norm_sym(a["symbol"]) == norm_sym(b["symbol"]),
                            edge_match=lambda a, b: a["bond"] == b["bond"])


_RD_ORDER = None


def rdkit_alone_graph(mol):
    """the molecule RDKit holds, read with RDKit ALONE (no code of the library): symbols, bonded pairs, orders (aromatic = 1.5)"""
    global _RD_ORDER
    import rdkit.Chem as Chem
    if _RD_ORDER is None:
        _RD_ORDER = {Chem.BondType.SINGLE: 1, Chem.BondType.DOUBLE: 2, Chem.BondType.TRIPLE: 3, Chem.BondType.QUADRUPLE: 4,
                     Chem.BondType.AROMATIC: 1.5}
    g = nx.Graph()
    for a in mol.GetAtoms():
        g.add_node(a.GetIdx(), symbol=a.GetSymbol())
    for b in mol.GetBonds():
        g.add_edge(b.GetBeginAtomIdx(), b.GetEndAtomIdx(), bond=_RD_ORDER.get(b.GetBondType(), str(b.GetBondType())))
    return g


def same_graph(g, h):
    """node for node, bond for bond (same ids)"""
    return (sorted((n, norm_sym(d["symbol"])) for n, d in g.nodes(data=True)) == sorted((n, norm_sym(d["symbol"])) for n, d in h.nodes(data=True))
            and sorted((min(u, v), max(u, v), d["bond"]) for u, v, d in g.edges(data=True))
            == sorted((min(u, v), max(u, v), d["bond"]) for u, v, d in h.edges(data=True)))


def k8_scope(g, written, back):
    """scope of known finding K8, decided per case with RDKit ALONE: (1) RDKit's reading of the written SMILES WITHOUT sanitisation
    is isomorphic to the graph (graph_to_smiles wrote it faithfully); (2) the graph the library re-read is, atom for atom, RDKit's
    default (sanitised) reading of that string (smiles_to_graph added nothing of its own); (3) the two RDKit readings differ ONLY
    in bonds that sanitisation made aromatic (both atoms aromatic) or that touch an atom whose formal charge sanitisation changed
    (charge-separated normal form of nitro / diazo / azide / N-oxide).  -> (in_scope, reason)"""
    import rdkit.Chem as Chem
    raw = Chem.MolFromSmiles(written, sanitize=False)
    san = Chem.MolFromSmiles(written)
    if raw is None or san is None or raw.GetNumAtoms() != san.GetNumAtoms() or raw.GetNumBonds() != san.GetNumBonds():
        return False, "RDKit readings with / without sanitisation have different atoms or bonds"
    if any(a.GetSymbol() != b.GetSymbol() for a, b in zip(raw.GetAtoms(), san.GetAtoms())):
        return False, "RDKit readings with / without sanitisation differ in an atom symbol"
    if not iso(g, rdkit_alone_graph(raw)):
        return False, "the written SMILES, read by RDKit WITHOUT sanitisation, is not isomorphic to the graph: graph_to_smiles lost or changed something"
    if not same_graph(back, rdkit_alone_graph(san)):
        return False, "smiles_to_graph(written) is not RDKit's own default reading of that string"
    charged = {a.GetIdx() for a, b in zip(raw.GetAtoms(), san.GetAtoms()) if a.GetFormalCharge() != b.GetFormalCharge()}
    kinds = set()
    n_diff = 0
    for x, y in zip(raw.GetBonds(), san.GetBonds()):
        ends = {x.GetBeginAtomIdx(), x.GetEndAtomIdx()}
        if ends != {y.GetBeginAtomIdx(), y.GetEndAtomIdx()}:
            return False, "RDKit readings with / without sanitisation list different bonds"
        if x.GetBondType() == y.GetBondType():
            continue
        n_diff += 1
        if y.GetIsAromatic() and y.GetBeginAtom().GetIsAromatic() and y.GetEndAtom().GetIsAromatic():
            kinds.add("aromaticity_perceived")
        elif ends & charged:
            kinds.add("charge_separated_normal_form")
        else:
            return False, "a bond changed by sanitisation is neither aromatic nor at an atom whose charge changed"
    if n_diff == 0:
        return False, "sanitisation changed no bond: the difference is not RDKit's"
    return True, "+".join(sorted(kinds))


def judge_roundtrip(g, written, back):
    """-> ('ok' | 'known:K8' | 'violation', detail)"""
    if iso(g, back):
        return "ok", ""
    inside, why = k8_scope(g, written, back)
    return ("known:K8", why) if inside else ("violation", why)


def smiles_leg(r, n_cases):
    from fgutils.rdkit import graph_to_smiles, smiles_to_graph
    from fgutils.parse import parse
    from common import load_known_findings
    import rdkit.Chem as Chem
    from rdkit import RDLogger
    RDLogger.DisableLog("rdApp.*")
    rng = r.rng
    k8 = {f["id"]: f for f in load_known_findings()}.get("K8")
    fails = []
    known = []
    n_written = n_reread = 0
    for k in range(-len(SMILES_CORPUS), n_cases):
        # a fixed share of every run: aromatic rings written in Kekule form and hypervalent groups written without charges,
        # alone and as substituents (the rest: random trees in which they also occur as substituents)
        if k < 0:
            smi = SMILES_CORPUS[k]
            r.count("smiles:corpus")
        elif k % 8 == 3:
            smi = rng.choice(KEKULE_RINGS) + rng.choice(["", "", "C", "O", "N(=O)=O", "C(=O)O", "S(C)(=O)=O"])
            r.count("smiles:template=kekule_ring")
        elif k % 8 == 5:
            c = rng.random()
            smi = (rng.choice(["C", "CC", "c1ccccc1", "C1CCCCC1", "OCC"]) + rng.choice(HYPER_1)) if c < 0.6 else (
                rng.choice(["C", "CC", "CC(C)", "C1CCCCC1"]) + "=" + rng.choice(HYPER_2))
            r.count("smiles:template=hypervalent_group")
        else:
            smi = gen_smiles(rng)
        mol = Chem.MolFromSmiles(smi)
        if mol is None:
            r.count("smiles:generator-invalid")
            continue
        source = "parser" if k < 0 else ("rdkit", "parser", "rdkit", "parser", "kekulized")[k % 5]
        try:
            if source == "parser":
                g = parse(smi)          # bonds as written: Kekule rings stay 1/2, pentavalent N stays uncharged
            elif source == "kekulized":
                # RDKit's molecule with its aromatic rings kekulized (aromatic flags cleared), read with RDKit alone
                m2 = Chem.Mol(mol)
                Chem.Kekulize(m2, clearAromaticFlags=True)
                g = rdkit_alone_graph(m2)
            else:
                g = rdkit_alone_graph(mol)      # RDKit's sanitised molecule (aromatic = 1.5), read with RDKit alone
        except Exception as e:       # the FGUtils parser does not read everything RDKit reads
            r.count("smiles:source-graph-unavailable")
            continue
        r.evaluations += 1
        r.count("smiles:source=" + source)
        orders = [d["bond"] for _, _, d in g.edges(data=True)]
        ring_edges = {frozenset(e) for c_ in nx.cycle_basis(g) for e in zip(c_, c_[1:] + c_[:1])}
        if any(d["bond"] == 2 and frozenset((u, v)) in ring_edges for u, v, d in g.edges(data=True)):
            r.count("smiles:graph-has-double-bond-in-ring")
        if any(sum(d["bond"] for _, _, d in g.edges(n, data=True)) >= 5 for n in g.nodes if g.nodes[n]["symbol"] in ("N", "S", "P")):
            r.count("smiles:graph-has-hypervalent-N/S/P")
        form = None
        g_impl = g
        if rng.random() < FORM_SHARE:
            # the FORM of the input: frozen / view / extra attributes / numpy ids and half orders (these graphs carry no
            # map numbers, so the numpy form never reaches SetAtomMapNum)
            g_impl, form = as_variant(g, rng)
            r.count("smiles:input_form:" + form)
        try:
            canonical = rng.random() < 0.7
            written = graph_to_smiles(g_impl, canonical=canonical)
        except Exception as e:
            fails.append({"smiles": smi, "source": source, "variant": form, "what": "graph_to_smiles raised %r" % (e,)})
            continue
        n_written += 1
        try:
            back = smiles_to_graph(written)
        except ValueError:
            # RDKit cannot re-read what it wrote (e.g. aromatic [nH] lost): the statement is conditional
            r.count("smiles:rdkit-cannot-reread")
            continue
        n_reread += 1
        verdict, why = judge_roundtrip(g, written, back)
        if verdict == "known:K8" and not (k8 and k8.get("status") == "open"):
            verdict = "violation"
        r.count({"ok": "smiles:roundtrip-isomorphic", "known:K8": "smiles:roundtrip-NOT-isomorphic(known finding K8: %s)" % why,
                 "violation": "smiles:roundtrip-NOT-isomorphic"}[verdict])
        if g.number_of_nodes() > 2:
            r.nontrivial.add(("smiles", written))
        rec = {"smiles": smi, "source": source, "written": written, "variant": form,
               "graph": sx(enc_graph(g)), "back": sx(enc_graph(back)), "what": "re-read graph not isomorphic", "classifier": why}
        if verdict == "known:K8":
            known.append(rec)
        elif verdict == "violation":
            fails.append(rec)
    if known:
        f = min(known, key=lambda d: len(d["written"]))
        print("KNOWN-FINDING: property=C19 %s [K8; %d case(s) of this run, e.g. graph of %r (%s) written %r re-read with bonds %s: %s]" % (
            k8["what"], len(known), f["smiles"], f["source"], f["written"],
            sorted(b for _, _, b in smiles_to_graph(f["written"]).edges(data="bond")), f["classifier"]))
    r.extra_cov["known_finding_hits_smiles_leg"] = {"K8": len(known)}
    if fails:
        f = min(fails, key=lambda d: len(d["smiles"]))
        p = r.write_replay("failing-input", "smiles_roundtrip", dict(f, n_failures=len(fails),
                           spec_clause="graph_to_smiles -> smiles_to_graph must be isomorphic (symbols, bond orders)"))
        r.violation_lines.append("VIOLATION property=C19 replay=%s" % p)
    # floor on the re-read rate: the clause is conditional on RDKit re-reading the written SMILES; a leg in which
    # (almost) nothing is re-read checks nothing and must not count as a pass (machinery failure, exit 2)
    rate = (n_reread / n_written) if n_written else 0.0
    r.extra_cov["smiles_leg"] = {"written": n_written, "reread_by_rdkit": n_reread, "reread_rate": round(rate, 4),
                                 "floor": SMILES_REREAD_FLOOR}
    if n_written == 0 or rate < SMILES_REREAD_FLOOR:
        r.notes.setdefault("machinery_errors", []).append(
            "ERROR property=C19 smiles leg: RDKit re-read only %d of %d written SMILES (rate %.2f < floor %.2f): the "
            "conditional round-trip clause was not exercised" % (n_reread, n_written, rate, SMILES_REREAD_FLOOR))
    return len(fails)


# ---------------------------------------------------------------------------
# mol_compare / WL leg
# ---------------------------------------------------------------------------
def renumber(rng, g):
    """an isomorphic copy: random new ids, random node insertion order, random edge insertion order"""
    ids = list(g.nodes)
    new = rng.sample(range(-5, 3 * len(ids) + 5), len(ids))
    m = dict(zip(ids, new))
    order = ids[:]
    rng.shuffle(order)
    h = nx.Graph()
    for n in order:
        h.add_node(m[n], **g.nodes[n])
    es = list(g.edges(data=True))
    rng.shuffle(es)
    for u, v, d in es:
        if rng.random() < 0.5:
            u, v = v, u
        h.add_edge(m[u], m[v], **d)
    return h


def perturb(rng, g):
    """a near copy that is usually not isomorphic"""
    h = g.copy()
    if h.number_of_edges() and rng.random() < 0.5:
        u, v = rng.choice(list(h.edges))
        h[u][v]["bond"] = rng.choice([o for o in (1, 1.5, 2, 3) if o != h[u][v]["bond"]])
    else:
        n = rng.choice(list(h.nodes))
        h.nodes[n]["symbol"] = rng.choice([s for s in ("C", "N", "O", "S") if s != h.nodes[n]["symbol"]])
    return h


def wl_graph(rng):
    import rdkit.Chem as Chem
    from fgutils.rdkit import mol_to_graph
    while True:
        smi = gen_smiles(rng)
        mol = Chem.MolFromSmiles(smi)
        if mol is not None and mol.GetNumAtoms() >= 2:
            return mol_to_graph(mol)


def multi_fragment_graph(rng):
    """a DISCONNECTED molecule with several fragments of the SAME size that differ (a generated molecule, near copies of
    it with one symbol / bond order changed, sometimes an exact second copy and a fragment of another size), as one graph
    on ids 0..n-1 in fragment order.  `renumber` then permutes ids and the node insertion order, so the order in which
    equal-sized fragments are met changes: a comparison that depends on it is not invariant under renumbering."""
    f = wl_graph(rng)
    frags = [f, perturb(rng, f)]
    if rng.random() < 0.5:
        frags.append(perturb(rng, f))
    if rng.random() < 0.3:
        frags.append(f.copy())
    if rng.random() < 0.4:
        frags.append(wl_graph(rng))
    rng.shuffle(frags)
    g = nx.Graph()
    for fr in frags:
        off = g.number_of_nodes()
        m = {n: off + i for i, n in enumerate(fr.nodes)}
        for n, d in fr.nodes(data=True):
            g.add_node(m[n], **d)
        for u, v, d in fr.edges(data=True):
            g.add_edge(m[u], m[v], **d)
    return g


def wl_leg(r, n_batches):
    from fgutils.utils import mol_compare
    rng = r.rng
    bad_cmp = []
    for b in range(n_batches):
        base = [wl_graph(rng) for _ in range(2)] + [multi_fragment_graph(rng) for _ in range(2)]
        graphs = []
        for g in base:
            graphs += [g, renumber(rng, g), perturb(rng, g), renumber(rng, perturb(rng, g))]
        # implementation: mol_compare is invariant under renumbering
        for g in base:
            ncomp = nx.number_connected_components(g)
            for _ in range(1 if ncomp == 1 else 4):     # several renumberings of a multi-fragment molecule (fragment order permuted)
                h = renumber(rng, g)
                forms = None
                h_impl, g_cand, g_target = h, g, g
                if rng.random() < 2 * FORM_SHARE:
                    # the FORM of the input: candidates and target frozen / as views / with extra attributes / numpy
                    (h_impl, f1), (g_cand, f2), (g_target, f3) = as_variant(h, rng), as_variant(g, rng), as_variant(g, rng)
                    forms = [f1, f2, f3]
                    for f in forms:
                        r.count("compare:input_form:" + f)
                res = call_impl(mol_compare, [h_impl, g_cand], g_target)
                r.evaluations += 1
                r.count("compare:renumbered" + (":disconnected(equal-size fragments)" if ncomp > 1 else ":connected"))
                if isinstance(res, ImplError) or not (res[0] == 1 and res[1] == 1):
                    bad_cmp.append({"target": sx(enc_graph(g)), "candidate": sx(enc_graph(h)), "variant": forms,
                                    "result": res.text if isinstance(res, ImplError) else [float(x) for x in res],
                                    "fragments": ncomp, "what": "mol_compare differs on a renumbered copy"})
        # model vs networkx: same partition of the batch
        nxh = [nx.weisfeiler_lehman_graph_hash(g, edge_attr="bond", node_attr="symbol", iterations=3) for g in graphs]
        cases = [Case([Atom("C19"), Atom("wl"), 3, enc_graph(g)], None, compare_model=False,
                      meta={"batch": b}, tags=["wl"]) for g in graphs]
        outs = r.evaluate(cases)
        mh = [hashlib.blake2b(str(o.model).encode(), digest_size=16).hexdigest() if o.ok_reply else None for o in outs]
        r.nontrivial.add(("wl-batch", tuple(nxh)))
        for i in range(len(graphs)):
            for j in range(i + 1, len(graphs)):
                if mh[i] is None or mh[j] is None:
                    continue
                if (mh[i] == mh[j]) != (nxh[i] == nxh[j]):
                    r.corr_failures.append(outs[i])
                    r.notes.setdefault("wl_partition_mismatch", []).append(
                        {"a": sx(enc_graph(graphs[i])), "b": sx(enc_graph(graphs[j])),
                         "model_equal": mh[i] == mh[j], "networkx_equal": nxh[i] == nxh[j]})
        r.count("wl:batches")
        r.count("wl:distinct-classes-in-batch", len(set(nxh)))
    if bad_cmp:
        p = r.write_replay("failing-input", "mol_compare", dict(bad_cmp[0], n_failures=len(bad_cmp),
                           spec_clause="mol_compare must be invariant under atom renumbering"))
        r.violation_lines.append("VIOLATION property=C19 replay=%s" % p)


# ---------------------------------------------------------------------------
def tally(r, outs):
    """the model's own output must pass the semantic spec (proved: C19.bridge_spec_holds; re-validated here per case);
    every bridge input must satisfy the hypotheses of C19.bridge_spec_holds / bridge_lossless (extra `wf=`:
    C11.wellFormed && C11.simple — true of every simple undirected networkx graph)"""
    for o in outs:
        if o.ok_reply and "wf=0" in o.extra:
            r.count("inputs-violating-theorem-hypotheses(wf)")
            r.notes["bad_wf"] = r.notes.get("bad_wf", 0) + 1
            r.notes.setdefault("bad_wf_example", o.case.line()[:400])
        elif o.ok_reply and "wf=1" in o.extra:
            r.count("inputs-satisfying-theorem-hypotheses(wf)")
        if o.ok_reply and o.case.req[1] == "bridge":
            loops = o.case.meta.get("self_loops", 0)
            flag = "noloops=0" if loops else "noloops=1"
            if flag not in o.extra:
                # the harness's domain oracle and the driver's decidable hypothesis disagree: machinery
                r.notes.setdefault("machinery_errors", []).append(
                    "ERROR property=C19 self-loop oracle (python: %d loops) and driver hypothesis noSelfLoops (%s) disagree on %s"
                    % (loops, [x for x in o.extra if str(x).startswith("noloops")], o.case.line()[:300]))
            if loops:
                impl_raised = isinstance(o.case.impl, ImplError)
                model_raised = isinstance(o.model, list) and o.model[:1] == ["raised"]
                r.count("self-loop:impl-%s/model-%s" % ("raises" if impl_raised else "returns", "raises" if model_raised else "returns"))
            else:
                r.count("inputs-satisfying-noSelfLoops-hypothesis")
        if o.ok_reply and "closed=0" in o.extra:
            r.count("inputs-outside-edgesClosed-hypothesis")
        elif o.ok_reply and "closed=1" in o.extra:
            r.count("inputs-satisfying-edgesClosed-hypothesis")
        if o.ok_reply and o.spec_model == "0":
            r.count("spec_model=0")
            if o.case.in_domain:
                r.corr_failures.append(o)
        elif o.ok_reply and o.case.in_domain:
            r.count("spec_model=1")


def run(tier, seed):
    r = Run("C19", tier, seed)
    if not prepare(r, PROOFS, "C19"):
        return 2
    rng = r.rng
    cases = []
    from rdkit import RDLogger
    RDLogger.DisableLog("rdApp.*")     # the self-loop cases make RDKit log a pre-condition violation each
    from c12 import corpus_files
    for name, g in bridge_corpus() + corpus_files("C19", 3):
        for ia in (False, True):
            cases.append(bridge_case(g, ia, name, ["corpus"]))
    for name, g in bridge_corpus() + corpus_files("C19", 3):      # every corpus graph also in every other input form
        for j, kind in enumerate(VARIANT_KINDS):
            cases.append(bridge_case(g, j % 2 == 1, name, ["corpus"], form_rng=rng, form_kinds=(kind,)))
    proofs_broken = not r.build.proofs_ok
    n_bridge = 1500 if tier == "quick" else 40000
    if proofs_broken:
        n_bridge *= 2
        r.notes["escalated"] = "proof obligations did not build: sample widened"
    for k in range(n_bridge):
        g, info = gen_bridge_graph(rng, big=(k % 6 == 0))
        ia = rng.random() < 0.2
        if k % 67 == 13:
            # a few graphs with a self-loop (out of domain; hypothesis noSelfLoops of bridge_lossless)
            v = rng.choice(list(g.nodes))
            g.add_edge(v, v, bond=rng.choice([1, 2]))
        tags = ["random", "ids=" + info["ids"], "aam=" + info["aam"]]
        if info["unsupported"]:
            tags.append("unsupported-order")
        cases.append(bridge_case(g, ia, "random#%d" % k, tags, form_rng=rng if rng.random() < FORM_SHARE else None))
        if len(cases) >= 4000:
            tally(r, r.evaluate(cases))
            cases = []
    tally(r, r.evaluate(cases))
    smiles_leg(r, 400 if tier == "quick" else 8000)
    wl_leg(r, 12 if tier == "quick" else 150)
    if r.notes.get("wl_partition_mismatch"):
        r.extra_cov["wl_partition_mismatch"] = r.notes["wl_partition_mismatch"][:3]
    r.extra_cov["escalated"] = bool(proofs_broken)
    bad_wf = r.notes.get("bad_wf", 0)
    r.extra_cov["inputs_violating_theorem_hypotheses"] = bad_wf
    machinery = list(r.notes.get("machinery_errors", []))
    if bad_wf:
        # a defect of the harness (its generator left the theorems' domain): never a VIOLATION, never a pass -> exit 2
        machinery.append("ERROR property=C19 %d bridge inputs are not well-formed simple graphs "
                         "(hypotheses of C19.bridge_lossless; harness defect); e.g. %s"
                         % (bad_wf, r.notes.get("bad_wf_example")))
    r.assumptions = [
        "RDKit RWMol contract (assumed, exercised by every bridge case): AddAtom returns the running index, GetAtoms/GetBonds iterate in insertion order, "
        "Atom(sym).GetSymbol() = sym for element symbols, GetAtomMapNum() = the number set or 0, GetMol() without sanitisation changes nothing",
        "RDKit's SMILES writer/reader round trip is exercised (smiles leg), not proved; source graphs and the scope oracle of K8 are built with RDKit "
        "alone (rdkit_alone_graph / k8_scope), never with the bridge under test.  A re-read graph that is not isomorphic is known finding K8 only when "
        "RDKit's UNSANITISED reading of the written SMILES is isomorphic to the graph, the library's re-read graph is atom for atom RDKit's default reading, "
        "and the two readings differ only in bonds made aromatic or at atoms whose formal charge sanitisation changed; anything else is a violation",
        "networkx container semantics (add_node/add_edge/edges order) as in Model/Graph.lean; the WL model follows networkx.weisfeiler_lehman_graph_hash "
        "(undirected, node_attr+edge_attr) with the digest function abstract; blake2b collisions are not considered",
        "Python str() of bond orders: ints and 1.5 (graphs from mol_to_graph)",
        "DOMAIN: graphs with a self-loop are outside the domain (RDKit's AddBond(i, i) raises, the RWMol model does not reproduce that refusal): "
        "hypothesis noSelfLoops of C19.bridge_lossless, evaluated by the driver on every case (extra noloops=) and cross-checked against "
        "networkx.number_of_selfloops; a few self-loop graphs are generated and counted (input_distribution self-loop:*), they never decide the verdict",
        "the SMILES leg is conditional on RDKit re-reading the written SMILES; a re-read rate below 50% is a machinery failure (exit 2), "
        "coverage.smiles_leg reports written / re-read / rate",
    ]
    rc = r.finish(
        level="proof",
        rule="bridge: corpus (one cell per supported order, parsed molecules with/without atom maps, labelled node) + random element graphs "
             "(1-24 atoms, ids contiguous/offset/sparse/shuffled/negative/permuted 0..n-1, orders 1,1.5,2,3,4, maps none/all/partial/with 0/negative, ignore_aam, "
             "8% labelled nodes, 3% unsupported orders (out of domain)); 12% of the bridge / SMILES-leg graphs, 24% of the mol_compare calls and every "
             "corpus graph handed over in another FORM (nx.freeze, sub-graph view of a larger graph, extra attributes, numpy ids / map numbers / half orders; "
             "tags variant=*; a numpy map number that reaches RDKit's SetAtomMapNum is out of domain - reported finding); smiles: generated neutral molecules (random trees with ring fragments; "
             "aromatic rings also WRITTEN IN KEKULE FORM and nitro / diazo / azide / N-oxide / sulfone / sulfoxide / phosphine oxide / phosphate groups written "
             "without charges as substituents, every 8th case a Kekule-ring template and every 8th a hypervalent-group template, plus the fixed K8 witnesses) as "
             "graphs from RDKit alone (aromatic), from RDKit kekulized (aromatic flags cleared) and from the FGUtils parser (bonds as written); "
             "compare: renumbered/perturbed copies in batches of 16, half of the base molecules disconnected with several equal-size different fragments "
             "(renumberings permute the fragments); non-trivial = bridge inputs with at least one bond (distinct by request), "
             "distinct written SMILES with > 2 atoms, distinct WL batches",
        checker_cmd="cd lean && lake build FGVerif.Proofs.C19 && lake env lean FGVerif/Audit/C19.lean",
        explanation="theorems in lean/FGVerif/Proofs/C19.lean about Model/C19.lean (bridge_roundtrip, bridge_spec_holds, bridge_lossless "
                    "(hypotheses C11.wellFormed/C11.simple/noSelfLoops evaluated by the driver on every case), refuses_labels, bond_tables_inverse and sym_table on the "
                    "regenerated tables, specCheck_sound, wl_invariant); model tied to fgutils.rdkit by exact wire-level differential testing; semantic spec "
                    "C19.BridgeSpec applied to every implementation output; SMILES round trip and mol_compare exercised on the implementation")
    # exit 1 iff a VIOLATION line was printed; machinery problems are exit 2 (exit 1 if both happened)
    for ln in machinery:
        print(ln)
    if machinery and rc == 0:
        rc = 2
    return rc


# ---------------------------------------------------------------------------
# replay
# ---------------------------------------------------------------------------
def replay(path):
    """re-run the recorded failing input against the current tree and the current driver"""
    from c12 import dec_graph
    d = json.load(open(path))
    r = Run("C19", "replay", d.get("seed", 0))
    if not prepare(r, PROOFS, "C19"):
        return 2
    if not r.build.proofs_ok:
        print("REPLAY property=C19 proof obligations do not build: %s" % ", ".join(r.build.failed_modules))
    if d.get("request_line"):
        req = parse_sx(d["request_line"])
        if req[1] != "bridge":
            print("REPLAY property=C19 op=%s is not replayable on its own" % req[1])
            if not r.build.proofs_ok:
                print("VIOLATION property=C19 replay=%s no-failing-input-found" % path)
            return 0 if r.build.proofs_ok else 1
        ia, g = req[2] == "1", dec_graph(req[3])
        form = (d.get("meta") or {}).get("variant")
        if form and form != "variant=plain":
            import random
            print("REPLAY property=C19 re-applying the recorded input form: %s" % form)
            case = bridge_case(g, ia, "replay", [], form_rng=random.Random(d.get("seed", 0)), form_kinds=(form.split("=")[1],))
        else:
            case = bridge_case(g, ia, "replay", [])
        o = r.evaluate([case])[0]
        r.driver.close()
        print("REPLAY property=C19 op=bridge in_domain=%s spec_impl=%s model==impl:%s" % (case.in_domain, o.spec_impl, o.corr))
        print("  input : %s" % sx(enc_graph(g)))
        print("  impl  : %s" % (o.impl_c,))
        # exit 1 iff a VIOLATION line is printed; a driver error is machinery (exit 2)
        if o.driver_error:
            print("ERROR property=C19 the driver could not answer the replayed request")
            return 2
        if case.in_domain and (o.spec_fail or not o.corr):
            print("VIOLATION property=C19 replay=%s%s" % (path, "" if o.spec_fail else " no-failing-input-found"))
            return 1
        return 0
    if "smiles" in d:
        from fgutils.rdkit import graph_to_smiles, smiles_to_graph
        from fgutils.parse import parse
        import rdkit.Chem as Chem
        if d.get("source") == "parser":
            g = parse(d["smiles"])
        else:
            m2 = Chem.MolFromSmiles(d["smiles"])
            if d.get("source") == "kekulized":
                Chem.Kekulize(m2, clearAromaticFlags=True)
            g = rdkit_alone_graph(m2)
        try:
            written = graph_to_smiles(g)
            back = smiles_to_graph(written)
        except ValueError as e:
            print("REPLAY property=C19 smiles=%s not re-readable now (%s): the statement is conditional" % (d["smiles"], e))
            return 0
        except Exception as e:
            print("REPLAY property=C19 smiles=%s raised %r" % (d["smiles"], e))
            print("VIOLATION property=C19 replay=%s" % path)
            return 1
        verdict, why = judge_roundtrip(g, written, back)
        print("REPLAY property=C19 smiles=%s written=%s isomorphic=%s%s" % (d["smiles"], written, verdict == "ok",
              "" if verdict == "ok" else " (%s: %s)" % (verdict, why)))
        if verdict == "known:K8":
            print("KNOWN-FINDING: property=C19 the failure is inside the scope of K8 (%s)" % why)
            return 0
        if verdict != "ok":
            print("VIOLATION property=C19 replay=%s" % path)
        return 0 if verdict == "ok" else 1
    if "target" in d and "candidate" in d:
        from fgutils.utils import mol_compare
        t, c = dec_graph(parse_sx(d["target"])), dec_graph(parse_sx(d["candidate"]))
        res = call_impl(mol_compare, [c, t], t)
        if isinstance(res, ImplError):
            print("REPLAY property=C19 mol_compare raised %s" % res.text)
            print("VIOLATION property=C19 replay=%s" % path)
            return 1
        print("REPLAY property=C19 mol_compare(renumbered copy, target) = %s" % [float(x) for x in res])
        if not (res[0] == 1 and res[1] == 1):
            print("VIOLATION property=C19 replay=%s" % path)
            return 1
        return 0
    print("REPLAY property=C19 kind=%s has no request; proofs_ok=%s" % (d.get("kind"), r.build.proofs_ok))
    if not (r.build.proofs_ok and not r.audit_bad):
        print("VIOLATION property=C19 replay=%s no-failing-input-found" % path)
        return 1
    return 0
