"""C02 — the pattern parser agrees with RDKit on plain SMILES, atom index for atom index.

Three-way comparison on non-canonical RDKit writings of generated molecules:
    `fgutils.parse.parse(s)`  vs  `fgutils.rdkit.mol_smiles_to_graph(s)`  vs  Lean `smilesDenote`
(and the Lean model parser).  A disagreement between RDKit and `smilesDenote` on an in-contract
string is a broken assumption (exit 2); between the parser and `smilesDenote` a violation — or the
known finding K1 when the string has an `S` atom directly followed by an aromatic `n`.
"""
import json
import os
import re

from common import Atom, Case, Run, call_impl, prepare, ImplError, sx, load_known_findings, CORPUS_DIR
import c01
from c01 import S, enc_chain, canon_graph, read_chain, render

PROOFS = ["FGVerif.Proofs.C02"]

_SMILES_TOK = re.compile(r"(?P<A>Cl|Br|[BCNOPSFI]|[bcnops])|(?P<B>[-=#:.])|(?P<O>\()|(?P<C>\))|(?P<D>\d)")
_ALLOWED = set("BCNOPSFIlrbcnops-=#:().0123456789")

RINGS = ['c1ccccc1', 'c1ccncc1', 'c1ccoc1', 'c1ccsc1', 'c1cnccn1', 'c1ncncc1', 'c1cocn1', 'c1cscn1', 'C1CCCCC1', 'C1CC1',
         'C1CCC1', 'C1CCOC1', 'C1CCNCC1', 'c1ccc2ccccc2c1', 'c1ccc2occc2c1', 'c1ccc2sccc2c1', 'c1ccc2ncccc2c1',
         'C1CC2CCC1C2', 'C1CCC2(CC1)CCCC2', 'C1CCC2CCCCC2C1', 'C1=CCCCC1', 'c1ccc2c(c1)CCCC2', 'O=C1CCCCC1', 'C1COCCO1',
         'c1ccc2c(c1)ccc1ccccc12', 'Cn1cccc1', 'Cn1ccnc1', 'CSn1cccc1', 'C1CC2CC1C=C2', 'c1ccc(cc1)-c1ccccc1', 'C1CSSC1',
         'B1OCCO1', 'c1ccc2c(c1)oc1ccccc12', 'C1CCC2(C1)OCCO2', 'Cp1cccc1']
CHAINS = ['C', 'CC', 'CCC', 'C=C', 'C#C', 'C(=O)O', 'C(=O)N', 'C#N', 'N', 'O', 'S', 'Cl', 'Br', 'F', 'I', 'P', 'B', 'OC',
          'N(C)C', 'S(=O)(=O)C', 'C(F)(F)F', 'OP(=O)(O)O', 'C=O', 'CS', 'SC', 'CC(C)(C)C', 'N=C=O', 'C(Cl)(Cl)Cl', 'SS']

CORPUS = ['CSn1cccc1', 'C1CCCc2c1cccc2', 'c1ccccc1', 'CC(=O)O', 'C1CC1.C1CC1', 'c1ccc(cc1)-c1ccccc1', 'C1CCC2(CC1)CCCC2',
          'N#Cc1ccccc1', 'C1=CCCCC1', 'c1ccc2ccccc2c1', 'ClC(Cl)Br', 'C:C', 'c1ccccc=1', 'O=C1CCCCC1', 'C1CCCC=C1',
          'c1cc(ccc1)S(=O)(=O)C', 'C(c1ccccc1)Sn1cccc1']


def gen_mol(rng):
    from rdkit import Chem, RDLogger
    RDLogger.DisableLog('rdApp.*')
    pool = RINGS + RINGS + CHAINS
    m = Chem.MolFromSmiles(rng.choice(RINGS if rng.random() < 0.7 else CHAINS))
    for _ in range(rng.choice([0, 1, 1, 2, 2, 3, 4])):
        f = Chem.MolFromSmiles(rng.choice(pool))
        if m.GetNumAtoms() + f.GetNumAtoms() > 30:
            break
        n0 = m.GetNumAtoms()
        comb = Chem.CombineMols(m, f)
        if rng.random() < 0.15:
            m = comb          # separate component (dot)
            continue
        cand_a = [a.GetIdx() for a in m.GetAtoms() if a.GetTotalNumHs() > 0]
        cand_b = [a.GetIdx() + n0 for a in f.GetAtoms() if a.GetTotalNumHs() > 0]
        if not cand_a or not cand_b:
            m = comb
            continue
        a, b = rng.choice(cand_a), rng.choice(cand_b)
        rw = Chem.RWMol(comb)
        aa, bb = rw.GetAtomWithIdx(a), rw.GetAtomWithIdx(b)
        order = Chem.BondType.SINGLE
        if (not aa.GetIsAromatic() and not bb.GetIsAromatic() and aa.GetTotalNumHs() >= 2 and bb.GetTotalNumHs() >= 2
                and aa.GetSymbol() == 'C' and bb.GetSymbol() == 'C' and rng.random() < 0.2):
            order = Chem.BondType.DOUBLE
        rw.AddBond(a, b, order)
        try:
            m2 = rw.GetMol()
            Chem.SanitizeMol(m2)
            m = m2
        except Exception:
            pass
    return m


def writings(rng, m, k):
    from rdkit import Chem
    out = []
    n = m.GetNumAtoms()
    for _ in range(k):
        perm = list(range(n))
        rng.shuffle(perm)
        m2 = Chem.RenumberAtoms(m, perm)
        kw = {}
        r = rng.random()
        if r < 0.2:
            kw["allBondsExplicit"] = True
        elif r < 0.28:
            kw["kekuleSmiles"] = True
        try:
            if kw.get("kekuleSmiles"):
                m2 = Chem.Mol(m2)
                Chem.Kekulize(m2, clearAromaticFlags=True)
            s = Chem.MolToSmiles(m2, canonical=False, rootedAtAtom=rng.randrange(n), **kw)
        except Exception:
            continue
        out.append((s, "all_bonds_explicit" if "allBondsExplicit" in kw else "kekule" if "kekuleSmiles" in kw else "default"))
    return out


def chain_atoms(chain, out=None):
    out = [] if out is None else out
    out.append(chain[0])
    for it in chain[1]:
        if it[0] != 'r':
            chain_atoms(it[2], out)
    return out


def excluded_syntax(chain):
    """adjacent ring digits / a bond symbol before an opening ring digit (walk in textual order)"""
    open_ids = set()
    res = set()

    def walk(c):
        prev_mark = False
        for it in c[1]:
            if it[0] == 'r':
                if prev_mark and it[1] is None:
                    res.add("adjacent_ring_digits")
                if it[2] in open_ids:
                    open_ids.discard(it[2])
                else:
                    if it[1] is not None:
                        res.add("bond_before_opening_digit")
                    open_ids.add(it[2])
                prev_mark = True
            else:
                prev_mark = False
                walk(it[2])
    walk(chain)
    if open_ids:
        res.add("unclosed_ring")
    return res


def has_S_then_n(s):
    """oracle for the scope of K1: in the SMILES tokenisation an atom `S` is directly followed by an atom `n`"""
    toks = [(m.lastgroup, m.group()) for m in _SMILES_TOK.finditer(s)]
    return any(a == ('A', 'S') and b == ('A', 'n') for a, b in zip(toks, toks[1:]))


def rdkit_view(s):
    """(canonical rdkit graph, in_contract) — in_contract: every atom's aromatic flag equals its written case and
    every bond between two aromatic atoms is aromatic"""
    from rdkit import Chem
    from fgutils.rdkit import mol_smiles_to_graph
    g = mol_smiles_to_graph(s)
    mol = Chem.MolFromSmiles(s)
    return g, mol


def make_case(r, s, origin, tags=()):
    if set(s) - _ALLOWED:
        r.count("filter:rejected_chars(brackets,%,stereo,charges)")
        return None
    chain = read_chain(s, single_digit_rings=True, atom_re=_SMILES_TOK)
    if chain is None or render(chain) != s:
        r.count("filter:not_in_grammar")
        return None
    exc = excluded_syntax(chain)
    for e in exc:
        r.count("filter:excluded_syntax:" + e)
    rd = call_impl(rdkit_view, s)
    impl = call_impl(lambda: __import__("fgutils.parse", fromlist=["parse"]).parse(s))
    in_contract = False
    if isinstance(rd, ImplError):
        rd_can = rd
        r.count("filter:rdkit_rejects")
    else:
        g, mol = rd
        rd_can = canon_graph(g)
        # mol_to_graph gives nodes only a symbol
        rd_can[1] = [[n[0], n[1], None, None, None] for n in rd_can[1]]
        atoms = chain_atoms(chain)
        in_contract = mol.GetNumAtoms() == len(atoms) and all(
            a.GetIsAromatic() == atoms[a.GetIdx()][1].islower() for a in mol.GetAtoms()) and all(
            b.GetIsAromatic() for b in mol.GetBonds() if b.GetBeginAtom().GetIsAromatic() and b.GetEndAtom().GetIsAromatic())
        if not in_contract:
            r.count("filter:out_of_contract(aromaticity re-perceived or non-aromatic bond between aromatic atoms)")
    impl_can = impl if isinstance(impl, ImplError) else canon_graph(impl)
    in_domain = in_contract and not exc and not isinstance(rd, ImplError)
    req = [Atom("C02"), Atom("check"), enc_chain(chain), S(s),
           [Atom("raised"), Atom(rd_can.kind)] if isinstance(rd_can, ImplError) else rd_can]
    st = c01.chain_stats(chain)
    key = s if st['atoms'] >= 4 and (st['rings'] or st['branches']) else None
    t = list(tags) + [origin, "in_domain" if in_domain else "out_of_domain"]
    t += [k for k in ("rings", "dots", "lower", "branches") if st[k]]
    t += ["ring_closures>=2" if st['rings'] >= 4 else "ring_closures<=1",
          "atoms>=15" if st['atoms'] >= 15 else "atoms<15"]
    if has_S_then_n(s):
        t.append("S_then_n")
    return Case(req, impl_can, in_domain=in_domain, nontrivial_key=key, tags=t,
                meta={"smiles": s, "origin": origin, "in_contract": in_contract, "excluded": sorted(exc)})


def run(tier, seed):
    r = Run("C02", tier, seed)
    if not prepare(r, PROOFS, "C02"):
        return 2
    rng = r.rng
    n_strings = 1500 if tier == "quick" else 100000
    k1 = [f for f in load_known_findings() if f["id"] == "K1"][0]
    # witnesses of known findings are replayed against the real code on every run
    cfile = os.path.join(CORPUS_DIR, "C02", "witnesses.json")
    if os.path.exists(cfile):
        for w in json.load(open(cfile))["cases"]:
            if w not in CORPUS:
                CORPUS.append(w)
    for w in k1.get("witnesses", []):
        if w not in CORPUS:
            CORPUS.append(w)

    def classify_known(o):
        s = o.case.meta.get("smiles", "")
        if k1.get("status") == "open" and has_S_then_n(s):
            return k1
        return None

    broken_assumption = []
    inconsistent = 0
    pending = []
    for s in CORPUS:
        c = make_case(r, s, "corpus")
        if c is not None:
            pending.append(c)
    produced = len(pending)

    def flush():
        nonlocal inconsistent
        outs = r.evaluate(pending, classify_known=classify_known)
        for o in outs:
            if not o.ok_reply:
                continue
            rd_ok, plain, wf = o.extra[0] == "1", o.extra[1] == "1", o.extra[2] == "1"
            if o.case.meta["in_contract"] and not rd_ok and not o.case.meta["excluded"]:
                broken_assumption.append(o)
            if o.case.in_domain and not (plain and (wf or has_S_then_n(o.case.meta["smiles"]))):
                inconsistent += 1
        pending.clear()

    while produced < n_strings:
        m = gen_mol(rng)
        if m.GetNumAtoms() < 3:
            continue
        for s, how in writings(rng, m, 4):
            c = make_case(r, s, "writing:" + how)
            produced += 1
            if c is not None:
                pending.append(c)
        if len(pending) >= 4000:
            flush()
    flush()
    r.extra_cov["rdkit_vs_smilesDenote_disagreements_in_contract"] = len(broken_assumption)
    r.extra_cov["python_domain_not_in_lean_Plain_and_WF"] = inconsistent
    r.assumptions = [
        "RDKit contract (trusted, exercised on every case): on strings where sanitisation does not re-perceive aromaticity, "
        "mol_smiles_to_graph(s) = smilesDenote(s) up to c -> C; disagreements in this run: %d" % len(broken_assumption),
        "molecules are generated without stereo centres, charges or isotopes; writings containing [ ] % @ / \\ + are filtered (counted)",
        "excluded syntax (counted, out of domain): adjacent ring digits (C12 is ring '12' for FGUtils) and a bond symbol before an opening ring digit",
        "everything assumed for C01 (lexer/networkx models)",
    ]
    if (broken_assumption or inconsistent) and not (r.spec_failures or r.corr_failures):
        o = broken_assumption[0] if broken_assumption else None
        p = r.write_replay("machinery", "broken_assumption", r.outcome_payload(o) if o else {"note": "domain mismatch"})
        print("ERROR property=C02 assumption broken: RDKit and smilesDenote differ on %d in-contract strings "
              "(or python domain outside Lean Plain/WF: %d); first: %s" % (len(broken_assumption), inconsistent, p))
        r.finish(level="proof")
        return 2
    return r.finish(
        level="proof",
        rule="molecules assembled from %d ring systems (aromatic/hetero-aromatic, fused, spiro, bridged) and %d chain fragments (3-30 heavy atoms, "
             "dots), 4 non-canonical writings each (random atom order and root; 20%% all bonds explicit, 8%% Kekule), filtered to the shared "
             "sub-language; in-domain = plain, no excluded syntax, in RDKit contract; non-trivial = >=4 atoms with ring or branch, distinct strings"
             % (len(RINGS), len(CHAINS)),
        checker_cmd="cd lean && lake build FGVerif.Proofs.C02 && lake env lean FGVerif/Audit/C02.lean",
        explanation="C02.parse_eq_smiles (Lean, corollary of C01.parse_faithful) about the model parser and smilesDenote; the model is tied to "
                    "fgutils.parse by differential testing, smilesDenote to RDKit by the exercised contract; smilesDenote is compared with "
                    "every implementation output")


def replay(path):
    from common import Driver, parse_sx, sx_of
    d = json.load(open(path))
    m = d.get("meta") or {}
    s = m.get("smiles")
    if s is None:
        print("replay file has no input: %s" % d.get("theorem_or_correspondence"))
        return 1
    r = Run("C02", "replay", 0)
    c = make_case(r, s, "replay")
    if c is None:
        print("string is outside the sub-language now")
        return 1
    drv = Driver()
    rep = drv.ask(c.line())
    drv.close()
    print("smiles: %r" % s)
    print("implementation now: %s" % (sx([Atom("raised"), Atom(c.impl.kind)]) if isinstance(c.impl, ImplError) else sx(c.impl)))
    print("driver reply      : %s" % sx_of(rep)[:2000])
    bad = isinstance(rep, list) and len(rep) >= 4 and rep[0] == "ok" and rep[3] == "0"
    print("spec on implementation output: %s" % ("FAILS" if bad else "holds"))
    return 1 if bad else 0
