"""C02 — the pattern parser agrees with RDKit on plain SMILES, atom index for atom index.

Three-way comparison on non-canonical RDKit writings of generated molecules:
    `fgutils.parse.parse(s)`  vs  `fgutils.rdkit.mol_smiles_to_graph(s)`  vs  Lean `smilesDenote`
(and the Lean model parser).  A disagreement between RDKit and `smilesDenote` on an in-contract
string is a broken assumption (exit 2); between the parser and `smilesDenote` a violation — or a
known finding, classified per case:
  K1  the string has an `S` atom directly followed by an aromatic `n` (lexes as tin) AND implementation == model;
  K5  the string has a bond symbol directly before a ring-OPENING digit (`C=1CCC1`: SMILES/RDKit put the bond
      on the ring closure, FGUtils on the next atom) AND implementation == model AND the same string with
      that bond symbol moved to the closing digit satisfies the specification.
Such strings are IN the domain (plain SMILES that both toolkits accept): RDKit 2024 never writes a bond
symbol at an opening digit, so the harness moves/copies closing-digit bond symbols to the opening digit and
adds hand-written ring templates whose closure bond is double.
Out of domain (counted and reported): adjacent ring digits (`C12…`, excluded by the property statement:
"non-adjacent ring-closure digits"), strings on which RDKit re-perceives aromaticity (Kekulé forms), strings
RDKit rejects.
"""
import json
import os
import re

from common import Atom, Case, Run, call_impl, ImplError, sx, load_known_findings, CORPUS_DIR
import c01
from c01 import S, enc_chain, canon_graph, read_chain, render

PROOFS = ["FGVerif.Proofs.C02"]

_SMILES_TOK = re.compile(r"(?P<A>Cl|Br|[BCNOPSFI]|[bcnops])|(?P<B>[-=#:.])|(?P<O>\()|(?P<C>\))|(?P<D>\d)")
_ALLOWED = set("BCNOPSFIlrbcnops-=#:().0123456789")

RINGS = ['c1ccccc1', 'c1ccncc1', 'c1ccoc1', 'c1ccsc1', 'c1cnccn1', 'c1ncncc1', 'c1cocn1', 'c1cscn1', 'C1CCCCC1', 'C1CC1',
         'C1CCC1', 'C1CCOC1', 'C1CCNCC1', 'c1ccc2ccccc2c1', 'c1ccc2occc2c1', 'c1ccc2sccc2c1', 'c1ccc2ncccc2c1',
         'C1CC2CCC1C2', 'C1CCC2(CC1)CCCC2', 'C1CCC2CCCCC2C1', 'C1=CCCCC1', 'c1ccc2c(c1)CCCC2', 'O=C1CCCCC1', 'C1COCCO1',
         'c1ccc2c(c1)ccc1ccccc12', 'Cn1cccc1', 'Cn1ccnc1', 'CSn1cccc1', 'C1CC2CC1C=C2', 'c1ccc(cc1)-c1ccccc1', 'C1CSSC1',
         'B1OCCO1', 'c1ccc2c(c1)oc1ccccc12', 'C1CCC2(C1)OCCO2', 'Cp1cccc1']
CHAINS = ['C', 'CC', 'CCC', 'C=C', 'C#C', 'C(=O)O', 'C(=O)N', 'C#N', 'N', 'O', 'S', 'Cl', 'Br', 'F', 'I', 'P', 'B', 'OC',
          'N(C)C', 'S(=O)(=O)C', 'C(F)(F)F', 'OP(=O)(O)O', 'C=O', 'CS', 'SC', 'CC(C)(C)C', 'N=C=O', 'C(Cl)(Cl)Cl', 'SS']

CORPUS = ['CSn1cccc1', 'C1CCCc2c1cccc2', 'c1ccccc1', 'CC(=O)O', 'C1CC1.C1CC1', 'c1ccc(cc1)-c1ccccc1', 'C1CCC2(CC1)CCCC2',
          'N#Cc1ccccc1', 'C1=CCCCC1', 'c1ccc2ccccc2c1', 'ClC(Cl)Br', 'C:C', 'c1ccccc=1', 'O=C1CCCCC1', 'C1CCCC=C1',
          'c1cc(ccc1)S(=O)(=O)C', 'C(c1ccccc1)Sn1cccc1',
          # a bond symbol before a ring-opening digit (K5 when the symbol changes the reading; `-`/`:` agree)
          'C=1CCC1', 'C=1CCCCC1', 'C=1CCCCC=1', 'C1CCCCC=1', 'CC=1CCOCC1', 'C-1CCC1', 'c:1ccccc1', 'C-1-C=C-C1',
          'N=1CCCC1', 'C=1(C)CCC1', 'ClC=1CCCC1Br']

# ring templates whose closure bond is double / triple (RDKit itself avoids closing a ring on a multiple bond)
CLOSURE_BODIES = ['CC', 'CCC', 'CCCC', 'COC', 'CNC', 'CC(C)C', 'CSC', 'CCOC', 'C(F)C', 'CC(=O)C', 'CC(c2ccccc2)C', 'CCCCCC']
CLOSURE_PREFIX = ['', '', 'C', 'CC', 'OC', 'ClC', 'N(C)', 'O=C(O)', 'c1ccccc1', 'FC(F)(F)']
CLOSURE_SUFFIX = ['', '', 'C', 'O', 'Cl', 'CC', 'N(C)C', 'c1ccccc1']


def closure_template(rng):
    """a plain SMILES with a double bond written at the CLOSING digit of ring 9 (`…C9…C=9…`)"""
    first = rng.choice(['C', 'C', 'C', 'N'])
    pre = rng.choice(CLOSURE_PREFIX)
    suf = rng.choice(CLOSURE_SUFFIX)
    if first == 'N':
        pre = ''            # N=C closure: the nitrogen carries nothing else
    return pre + first + '9' + rng.choice(CLOSURE_BODIES) + 'C=9' + suf


def opening_bond_variants(rng, chain):
    """move (or copy) the bond symbols written at closing ring digits to the matching opening digit; returns
    a list of (chain, how) — at most one variant"""
    marks = []          # (items list, index) of ring marks in textual order

    def walk(c):
        for k, it in enumerate(c[1]):
            if it[0] == 'r':
                marks.append((c[1], k))
            else:
                walk(it[2])
    import copy
    chain = copy.deepcopy(chain)
    walk(chain)
    open_at = {}
    pairs = []
    for items, k in marks:
        rid = items[k][2]
        if rid in open_at:
            pairs.append((open_at.pop(rid), (items, k)))
        else:
            open_at[rid] = (items, k)
    cands = [(o, c) for o, c in pairs if c[0][c[1]][1] is not None and o[0][o[1]][1] is None]
    if not cands:
        return []
    how = "moved" if rng.random() < 0.7 else "copied"
    n = 0
    for (oi, ok), (ci, ck) in cands:
        if n and rng.random() < 0.5:
            continue
        n += 1
        b = ci[ck][1]
        oi[ok] = ('r', b, oi[ok][2])
        if how == "moved":
            ci[ck] = ('r', None, ci[ck][2])
    return [(chain, how)]


def normalise_opening_bonds(chain):
    """the same writing with every bond symbol at an opening ring digit moved to the closing digit (dropped when
    the closing digit carries one already) — SMILES reads both writings alike"""
    import copy
    chain = copy.deepcopy(chain)
    open_at = {}

    def walk(c):
        for k, it in enumerate(c[1]):
            if it[0] == 'r':
                rid = it[2]
                if rid in open_at:
                    items, k0 = open_at.pop(rid)
                    b = items[k0][1]
                    if b is not None:
                        items[k0] = ('r', None, rid)
                        if it[1] is None:
                            c[1][k] = ('r', b, rid)
                else:
                    open_at[rid] = (c[1], k)
            else:
                walk(it[2])
    walk(chain)
    return chain


def gen_mol(rng):
    from rdkit import Chem, RDLogger
    RDLogger.DisableLog('rdApp.*')
    pool = RINGS + RINGS + CHAINS
    m = Chem.MolFromSmiles(rng.choice(RINGS if rng.random() < 0.7 else CHAINS))
    for _ in range(rng.choice([0, 1, 1, 2, 2, 3, 4])):
        f = Chem.MolFromSmiles(rng.choice(pool))
        if m.GetNumAtoms() + f.GetNumAtoms() > 30:
            break
        n0 = m.GetNumAtoms()
        comb = Chem.CombineMols(m, f)
        if rng.random() < 0.15:
            m = comb          # separate component (dot)
            continue
        cand_a = [a.GetIdx() for a in m.GetAtoms() if a.GetTotalNumHs() > 0]
        cand_b = [a.GetIdx() + n0 for a in f.GetAtoms() if a.GetTotalNumHs() > 0]
        if not cand_a or not cand_b:
            m = comb
            continue
        a, b = rng.choice(cand_a), rng.choice(cand_b)
        rw = Chem.RWMol(comb)
        aa, bb = rw.GetAtomWithIdx(a), rw.GetAtomWithIdx(b)
        order = Chem.BondType.SINGLE
        if (not aa.GetIsAromatic() and not bb.GetIsAromatic() and aa.GetTotalNumHs() >= 2 and bb.GetTotalNumHs() >= 2
                and aa.GetSymbol() == 'C' and bb.GetSymbol() == 'C' and rng.random() < 0.2):
            order = Chem.BondType.DOUBLE
        rw.AddBond(a, b, order)
        try:
            m2 = rw.GetMol()
            Chem.SanitizeMol(m2)
            m = m2
        except Exception:
            pass
    return m


def writings(rng, m, k):
    from rdkit import Chem
    out = []
    n = m.GetNumAtoms()
    for _ in range(k):
        perm = list(range(n))
        rng.shuffle(perm)
        m2 = Chem.RenumberAtoms(m, perm)
        kw = {}
        r = rng.random()
        if r < 0.2:
            kw["allBondsExplicit"] = True
        elif r < 0.28:
            kw["kekuleSmiles"] = True
        try:
            if kw.get("kekuleSmiles"):
                m2 = Chem.Mol(m2)
                Chem.Kekulize(m2, clearAromaticFlags=True)
            s = Chem.MolToSmiles(m2, canonical=False, rootedAtAtom=rng.randrange(n), **kw)
        except Exception:
            continue
        out.append((s, "all_bonds_explicit" if "allBondsExplicit" in kw else "kekule" if "kekuleSmiles" in kw else "default"))
    return out


def chain_atoms(chain, out=None):
    out = [] if out is None else out
    out.append(chain[0])
    for it in chain[1]:
        if it[0] != 'r':
            chain_atoms(it[2], out)
    return out


def excluded_syntax(chain):
    """adjacent ring digits / a bond symbol before an opening ring digit (walk in textual order)"""
    open_ids = set()
    res = set()

    def walk(c):
        prev_mark = False
        for it in c[1]:
            if it[0] == 'r':
                if prev_mark and it[1] is None:
                    res.add("adjacent_ring_digits")
                if it[2] in open_ids:
                    open_ids.discard(it[2])
                else:
                    if it[1] is not None:
                        res.add("bond_before_opening_digit")
                    open_ids.add(it[2])
                prev_mark = True
            else:
                prev_mark = False
                walk(it[2])
    walk(chain)
    if open_ids:
        res.add("unclosed_ring")
    return res


def has_S_then_n(s):
    """oracle for the scope of K1: in the SMILES tokenisation an atom `S` is directly followed by an atom `n`"""
    toks = [(m.lastgroup, m.group()) for m in _SMILES_TOK.finditer(s)]
    return any(a == ('A', 'S') and b == ('A', 'n') for a, b in zip(toks, toks[1:]))


def rdkit_view(s):
    """(canonical rdkit graph, in_contract) — in_contract: every atom's aromatic flag equals its written case and
    every bond between two aromatic atoms is aromatic"""
    from rdkit import Chem
    from fgutils.rdkit import mol_smiles_to_graph
    g = mol_smiles_to_graph(s)
    mol = Chem.MolFromSmiles(s)
    return g, mol


def module_level_history(rng, s):
    """HISTORY scenario for the module-level `fgutils.parse.parse`: `<g,h>` patterns, rejected strings or unfinished
    patterns are parsed through the same function directly before the SMILES under test"""
    first = True
    for _ in range(rng.choice([1, 1, 2, 3])):
        pre = rng.choice(c01.HISTORY_ITS + c01.HISTORY_REJECTED + c01.HISTORY_REJECTED + c01.HISTORY_UNFINISHED + ['C(C', '1CC'])
        c01.ml_parse(pre, provocation="first" if first else "more")
        first = False
    history = c01.ml_history()
    return c01.ml_parse(s), history


def make_case(r, s, origin, tags=(), reused=None, module_history=False, replay_meta=None):
    """reused: a c01.ReusedParsers — the SMILES is parsed on a long-lived `Parser()` object (HISTORY scenario);
    module_history: the module-level parse() is first given other strings; replay_meta: re-run a recorded history"""
    if set(s) - _ALLOWED:
        r.count("filter:rejected_chars(brackets,%,stereo,charges)")
        return None
    chain = read_chain(s, single_digit_rings=True, atom_re=_SMILES_TOK)
    if chain is None or render(chain) != s:
        r.count("filter:not_in_grammar")
        return None
    exc = excluded_syntax(chain)
    opening_bond = "bond_before_opening_digit" in exc
    hard_exc = exc - {"bond_before_opening_digit"}
    for e in hard_exc:
        r.count("filter:excluded_syntax:" + e)
    rd = call_impl(rdkit_view, s)
    hist_meta = {}
    tags = list(tags)
    if replay_meta is not None and replay_meta.get("history") is not None:
        if replay_meta.get("reused_parser"):
            impl = c01.replay_history(False, False, replay_meta["history"], s, 0)
        else:
            impl = c01.ml_replay(replay_meta["history"], s)
    elif reused is not None:
        impl, history, kinds = reused.call(False, False, s, 0)
        hist_meta = {"reused_parser": True, "history": history}
        tags += ["history", "history:reused_Parser_object"] + ["history:" + k for k in kinds]
    elif module_history:
        impl, history = module_level_history(r.rng, s)
        hist_meta = {"reused_parser": False, "history": history}
        tags += ["history", "history:module_level_parse"]
        if any(h["result"].startswith("raised") for h in history):
            tags.append("history:after_rejected")
    else:
        # a plain call of the module-level parse(); what that function was given before is recorded all the same
        plain_history = c01.ml_history()
        impl = c01.ml_parse(s)
    if hist_meta:
        fresh = call_impl(lambda: __import__("fgutils.parse", fromlist=["Parser"]).Parser().parse(s))
        same = (isinstance(impl, ImplError) and isinstance(fresh, ImplError) and impl.kind == fresh.kind) or (
            not isinstance(impl, ImplError) and not isinstance(fresh, ImplError) and canon_graph(impl) == canon_graph(fresh))
        hist_meta["history_result_equals_fresh_object"] = same
        if not same:
            tags.append("history:differs_from_fresh_object")
    in_contract = False
    if isinstance(rd, ImplError):
        rd_can = rd
        r.count("filter:rdkit_rejects")
    else:
        g, mol = rd
        rd_can = canon_graph(g)
        # mol_to_graph gives nodes only a symbol
        rd_can[1] = [[n[0], n[1], None, None, None] for n in rd_can[1]]
        atoms = chain_atoms(chain)
        in_contract = mol.GetNumAtoms() == len(atoms) and all(
            a.GetIsAromatic() == atoms[a.GetIdx()][1].islower() for a in mol.GetAtoms()) and all(
            b.GetIsAromatic() for b in mol.GetBonds() if b.GetBeginAtom().GetIsAromatic() and b.GetEndAtom().GetIsAromatic())
        if not in_contract:
            r.count("filter:out_of_contract(aromaticity re-perceived or non-aromatic bond between aromatic atoms)")
    impl_can = impl if isinstance(impl, ImplError) else canon_graph(impl)
    in_domain = in_contract and not hard_exc and not isinstance(rd, ImplError)
    req = [Atom("C02"), Atom("check"), enc_chain(chain), S(s),
           [Atom("raised"), Atom(rd_can.kind)] if isinstance(rd_can, ImplError) else rd_can]
    st = c01.chain_stats(chain)
    key = s if st['atoms'] >= 4 and (st['rings'] or st['branches']) else None
    t = list(tags) + [origin, "in_domain" if in_domain else "out_of_domain"]
    t += [k for k in ("rings", "dots", "lower", "branches") if st[k]]
    t += ["ring_closures>=2" if st['rings'] >= 4 else "ring_closures<=1",
          "atoms>=15" if st['atoms'] >= 15 else "atoms<15"]
    if has_S_then_n(s):
        t.append("S_then_n")
    if opening_bond:
        t.append("bond_before_opening_digit")
        if in_domain:
            t.append("bond_before_opening_digit:in_domain")
    meta = {"smiles": s, "origin": origin, "in_contract": in_contract, "excluded": sorted(hard_exc),
            "opening_bond": opening_bond}
    meta.update(hist_meta)
    if not hist_meta and replay_meta is None and reused is None and not module_history:
        meta.update({"reused_parser": False, "history": plain_history})
    return Case(req, impl_can, in_domain=in_domain, nontrivial_key=key, tags=t, meta=meta)


def run(tier, seed):
    r = Run("C02", tier, seed)
    if not c01.prepare_tolerant(r, PROOFS, "C02"):
        return 2
    rng = r.rng
    n_strings = 1500 if tier == "quick" else 100000
    known = {f["id"]: f for f in load_known_findings()}
    k1, k5 = known["K1"], known["K5"]
    # witnesses of known findings are replayed against the real code on every run
    cfile = os.path.join(CORPUS_DIR, "C02", "witnesses.json")
    if os.path.exists(cfile):
        for w in json.load(open(cfile))["cases"]:
            if w not in CORPUS:
                CORPUS.append(w)
    for f in (k1, k5):
        for w in f.get("witnesses", []):
            if w not in CORPUS:
                CORPUS.append(w)

    normalised_ok = {}       # original string -> does the writing with the opening bonds moved to the closing digits satisfy the spec?
    hits = {"K1": 0, "K5": 0}

    def classify_known(o):
        """a failing in-domain case is a known finding only inside the finding's scope, decided per case, and only
        when the implementation does what the model does (a failure the model does not share is new)"""
        if not o.corr:
            return None
        s = o.case.meta.get("smiles", "")
        if k1.get("status") == "open" and has_S_then_n(s):
            hits["K1"] += 1
            return k1
        if k5.get("status") == "open" and o.case.meta.get("opening_bond") and normalised_ok.get(s) is True:
            hits["K5"] += 1
            return k5
        return None

    broken_assumption = []
    inconsistent = 0
    pending = []
    opening_in_domain = [0, 0]        # cases, failing cases
    seen_strings = set()

    reused = c01.ReusedParsers(rng)
    n_added = [0, 0]

    def add(s, origin, tags=()):
        if s in seen_strings:
            return None
        seen_strings.add(s)
        # HISTORY scenarios: a fixed fraction (every 5th string): alternately a long-lived `Parser()` object reused
        # across the batch and the module-level parse() after other (ITS / rejected / unfinished) strings
        n_added[0] += 1
        hist = n_added[0] % 5 == 0
        if hist:
            n_added[1] += 1
        c = make_case(r, s, origin, tags, reused=reused if hist and n_added[1] % 2 == 0 else None,
                      module_history=hist and n_added[1] % 2 == 1)
        if c is not None:
            pending.append(c)
        return c

    for s in CORPUS:
        add(s, "corpus")
    produced = len(pending)

    def flush():
        nonlocal inconsistent
        # companions of the opening-bond writings first: the same writing with the bond symbol at the closing digit
        comp = []
        for c in pending:
            if c.meta["opening_bond"] and c.in_domain:
                s = c.meta["smiles"]
                chain = read_chain(s, single_digit_rings=True, atom_re=_SMILES_TOK)
                s2 = render(normalise_opening_bonds(chain))
                c2 = make_case(r, s2, "normalised_opening_bond")
                if c2 is not None and c2.in_domain and not c2.meta["opening_bond"]:
                    comp.append((s, c2))
        outs2 = r.evaluate([c2 for _, c2 in comp], classify_known=classify_known)
        for (s, _), o in zip(comp, outs2):
            normalised_ok[s] = bool(o.ok_reply and o.spec_impl == "1" and o.corr)
        outs = r.evaluate(pending, classify_known=classify_known)
        for o in outs + outs2:
            if not o.ok_reply:
                continue
            rd_ok, plain, wf = o.extra[0] == "1", o.extra[1] == "1", o.extra[2] == "1"
            meta = o.case.meta
            if meta["in_contract"] and not rd_ok and not meta["excluded"]:
                broken_assumption.append(o)
            if o.case.in_domain and not (plain and (wf or has_S_then_n(meta["smiles"]) or meta["opening_bond"])):
                inconsistent += 1
            if o.case.in_domain and meta["opening_bond"]:
                opening_in_domain[0] += 1
                opening_in_domain[1] += o.spec_impl == "0"
        pending.clear()

    while produced < n_strings:
        if rng.random() < 0.12:
            s = closure_template(rng)
            c = add(s, "closure_template")
            produced += 1
            cands = [(s, c)]
        else:
            m = gen_mol(rng)
            if m.GetNumAtoms() < 3:
                continue
            cands = []
            for s, how in writings(rng, m, 4):
                c = add(s, "writing:" + how)
                produced += 1
                cands.append((s, c))
        for s, c in cands:
            # RDKit writes ring-closure bond symbols at the closing digit only: move / copy them to the opening digit
            if c is None or not c.in_domain or rng.random() >= (0.9 if "=9" in s else 0.35):
                continue
            chain = read_chain(s, single_digit_rings=True, atom_re=_SMILES_TOK)
            for ch2, how in opening_bond_variants(rng, chain):
                add(render(ch2), "opening_bond:" + how)
                produced += 1
        if len(pending) >= 4000:
            flush()
    flush()
    dist = r.dist
    r.extra_cov["rdkit_vs_smilesDenote_disagreements_in_contract"] = len(broken_assumption)
    r.extra_cov["python_domain_not_in_lean_Plain_and_WFRef"] = inconsistent
    r.extra_cov["known_finding_hits_by_id"] = dict(hits)
    r.extra_cov["history_cases(reused Parser object / module-level parse after other strings)"] = dist.get("tag:history", 0)
    r.extra_cov["history_cases_differing_from_fresh_object"] = dist.get("tag:history:differs_from_fresh_object", 0)
    r.extra_cov["bond_before_opening_digit_in_domain_cases"] = opening_in_domain[0]
    r.extra_cov["bond_before_opening_digit_in_domain_cases_failing_spec"] = opening_in_domain[1]
    r.extra_cov["out_of_domain_counts"] = {
        "adjacent_ring_digits (excluded by the property statement)": dist.get("filter:excluded_syntax:adjacent_ring_digits", 0),
        "unclosed_ring": dist.get("filter:excluded_syntax:unclosed_ring", 0),
        "aromaticity_re-perceived_or_Kekule (outside the RDKit contract)":
            dist.get("filter:out_of_contract(aromaticity re-perceived or non-aromatic bond between aromatic atoms)", 0),
        "rdkit_rejects": dist.get("filter:rdkit_rejects", 0),
        "not_in_shared_sub-language (brackets, %, stereo, charges; never sent)":
            dist.get("filter:rejected_chars(brackets,%,stereo,charges)", 0) + dist.get("filter:not_in_grammar", 0),
    }
    r.assumptions = r.assumptions + [
        "RDKit contract (trusted, exercised on every case): on strings where sanitisation does not re-perceive aromaticity, "
        "mol_smiles_to_graph(s) = smilesDenote(s) up to c -> C; disagreements in this run: %d" % len(broken_assumption),
        "molecules are generated without stereo centres, charges or isotopes; writings containing [ ] % @ / \\ + are filtered (counted)",
        "out of domain (counted in out_of_domain_counts): adjacent ring digits (C12 is ring '12' for FGUtils; excluded by the property statement), "
        "strings on which RDKit re-perceives aromaticity (Kekule forms), strings RDKit rejects",
        "a bond symbol before a ring-OPENING digit is IN the domain: a failing case there is known finding K5 only if implementation == model and "
        "the writing with the symbol moved to the closing digit satisfies the specification; anything else is a violation",
        "everything assumed for C01 (lexer/networkx models)",
    ]
    if (broken_assumption or inconsistent) and not (r.spec_failures or r.corr_failures):
        o = broken_assumption[0] if broken_assumption else None
        p = r.write_replay("machinery", "broken_assumption", r.outcome_payload(o) if o else {"note": "domain mismatch"})
        print("ERROR property=C02 assumption broken: RDKit and smilesDenote differ on %d in-contract strings "
              "(or python domain outside Lean Plain/WFRef: %d); first: %s" % (len(broken_assumption), inconsistent, p))
        r.finish(level="proof")
        return 2
    return r.finish(
        level="proof",
        rule="molecules assembled from %d ring systems (aromatic/hetero-aromatic, fused, spiro, bridged) and %d chain fragments (3-30 heavy atoms, "
             "dots), 4 non-canonical writings each (random atom order and root; 20%% all bonds explicit, 8%% Kekule); 12%% ring templates closed on a "
             "double bond; closing-digit bond symbols moved/copied to the opening digit (35%% / 90%% of the eligible writings); filtered to the shared "
             "sub-language; HISTORY: every 5th string is parsed on a long-lived Parser() object (sessions of 2-40 strings with <g,h> patterns, rejected "
             "strings such as '1CC', 'CC(C!)C' and unfinished patterns such as 'C(C' in between) or through the module-level parse() directly after such "
             "strings; the replay records the preceding calls; in-domain = plain, no adjacent ring digits, in RDKit contract (bond symbols before opening digits included); non-trivial = "
             ">=4 atoms with ring or branch, distinct strings"
             % (len(RINGS), len(CHAINS)),
        checker_cmd="cd lean && lake build FGVerif.Proofs.C02 && lake env lean FGVerif/Audit/C02.lean",
        explanation="C02.parse_eq_smiles (Lean, corollary of C01.parse_faithful) about the model parser and smilesDenote; the model is tied to "
                    "fgutils.parse by differential testing, smilesDenote to RDKit by the exercised contract; smilesDenote is compared with "
                    "every implementation output; C02.opening_bond_differs proves the K5 divergence for the model")


def replay(path):
    from common import Driver, parse_sx, sx_of
    d = json.load(open(path))
    m = d.get("meta") or {}
    s = m.get("smiles")
    if s is None:
        print("replay file has no input: %s" % d.get("theorem_or_correspondence"))
        return 1
    r = Run("C02", "replay", 0)
    if m.get("history") is not None:
        print("HISTORY scenario (%s), preceding calls:" % ("reused Parser() object" if m.get("reused_parser") else "module-level parse()"))
        for h in m["history"][-12:]:
            print("    parse(%r) -> %s" % (h["pattern"], h.get("result")))
    c = make_case(r, s, "replay", replay_meta=m)
    if c is None:
        print("string is outside the sub-language now")
        return 1
    drv = Driver()
    rep = drv.ask(c.line())
    drv.close()
    print("smiles: %r" % s)
    print("implementation now: %s" % (sx([Atom("raised"), Atom(c.impl.kind)]) if isinstance(c.impl, ImplError) else sx(c.impl)))
    print("driver reply      : %s" % sx_of(rep)[:2000])
    bad = isinstance(rep, list) and len(rep) >= 4 and rep[0] == "ok" and rep[3] == "0"
    print("spec on implementation output: %s" % ("FAILS" if bad else "holds"))
    return 1 if bad else 0
