"""C02 — the pattern parser agrees with RDKit on plain SMILES, atom index for atom index.

Three-way comparison on non-canonical RDKit writings of generated molecules:
    `fgutils.parse.parse(s)`  vs  the molecule RDKit builds from s, read with RDKit alone  vs  Lean `smilesDenote`
(and the Lean model parser).  `fgutils.rdkit.mol_smiles_to_graph(s)` (the property's second observation point) must
equal the RDKit-alone reading: a difference is a VIOLATION with the string as replay (a defect of `mol_to_graph`
makes parse(s) and mol_smiles_to_graph(s) disagree for every user).  A disagreement between RDKit alone and
`smilesDenote` on an in-contract string is a broken assumption (exit 2); between the parser and `smilesDenote` a violation — or a
known finding, classified per case:
  K1  the string has an `S` atom directly followed by an aromatic `n` (lexes as tin) AND implementation == model;
  K5  the string has a bond symbol directly before a ring-OPENING digit (`C=1CCC1`: SMILES/RDKit put the bond
      on the ring closure, FGUtils on the next atom) AND implementation == model AND the same string with
      that bond symbol moved to the closing digit satisfies the specification.
  K11 RDKit's sanitisation REWROTE the written molecule - aromaticity perceived on a Kekule-written ring (`C1=CC=CC=C1`: RDKit has
      six 1.5 bonds, the parser keeps 1,2) and / or charges normalised on pentavalent N written without charges (nitro `CN(=O)=O`,
      diazo `C=N#N`, azide `CN=N#N`, N-oxide) - AND the parser's graph is, atom for atom, the molecule RDKit builds from the string
      WITHOUT sanitisation AND the two RDKit readings differ only in bonds made aromatic (both end atoms aromatic after sanitisation)
      or at atoms whose formal charge changed AND implementation == model.  These strings are inside the statement's sub-language
      (upper-case organic-subset atoms, single/double/triple bonds, ring digits, branches; both toolkits accept them; the exclusion
      clause speaks only of a non-aromatic bond between two AROMATIC, i.e. lower-case, atoms), so the disagreement is recorded as a
      finding, not defined away.  8% of RDKit's writings are Kekule forms; RDKit never writes the uncharged N forms, the harness
      does (HYPER templates).
Such strings are IN the domain (plain SMILES that both toolkits accept): RDKit 2024 never writes a bond
symbol at an opening digit, so the harness moves/copies closing-digit bond symbols to the opening digit and
adds hand-written ring templates whose closure bond is double.
INPUT FORMS (tags ring_label:*, ring_bond:*, own_writer*, entry:*): RDKit's writer never writes ring label 0 and, being depth-first,
never closes a ring between a branch atom and its sibling.  So a fixed share of the strings of every run are (a) RDKit writings with
their ring labels renumbered (any digit 0-9, re-used after closing) and (b) writings of the harness's own writer `write_graph` (any
spanning tree; a ring bond between textually consecutive atoms `CC(C1)C1`; a chain bond as ring closure across a dot `C1.C1`; ring
digits after branches); 30% of the plain cases reach the parser through `Parser().parse` / `Parser()()` instead of `parse()`.
Out of domain (counted and reported): adjacent ring digits (`C12…`, excluded by the property statement:
"non-adjacent ring-closure digits"), two lower-case atoms joined by a bond that is not aromatic (the statement's own exclusion),
strings RDKit rejects; and, counted separately as not judged, K1 / K5 syntax on a string that sanitisation also rewrites.
"""
import json
import os
import re

from common import Atom, Case, Run, call_impl, ImplError, sx, load_known_findings, CORPUS_DIR
import c01
from c01 import S, enc_chain, canon_graph, read_chain, render

PROOFS = ["FGVerif.Proofs.C02"]

_SMILES_TOK = re.compile(r"(?P<A>Cl|Br|[BCNOPSFI]|[bcnops])|(?P<B>[-=#:.])|(?P<O>\()|(?P<C>\))|(?P<D>\d)")
_ALLOWED = set("BCNOPSFIlrbcnops-=#:().0123456789")

RINGS = ['c1ccccc1', 'c1ccncc1', 'c1ccoc1', 'c1ccsc1', 'c1cnccn1', 'c1ncncc1', 'c1cocn1', 'c1cscn1', 'C1CCCCC1', 'C1CC1',
         'C1CCC1', 'C1CCOC1', 'C1CCNCC1', 'c1ccc2ccccc2c1', 'c1ccc2occc2c1', 'c1ccc2sccc2c1', 'c1ccc2ncccc2c1',
         'C1CC2CCC1C2', 'C1CCC2(CC1)CCCC2', 'C1CCC2CCCCC2C1', 'C1=CCCCC1', 'c1ccc2c(c1)CCCC2', 'O=C1CCCCC1', 'C1COCCO1',
         'c1ccc2c(c1)ccc1ccccc12', 'Cn1cccc1', 'Cn1ccnc1', 'CSn1cccc1', 'C1CC2CC1C=C2', 'c1ccc(cc1)-c1ccccc1', 'C1CSSC1',
         'B1OCCO1', 'c1ccc2c(c1)oc1ccccc12', 'C1CCC2(C1)OCCO2', 'Cp1cccc1']
CHAINS = ['C', 'CC', 'CCC', 'C=C', 'C#C', 'C(=O)O', 'C(=O)N', 'C#N', 'N', 'O', 'S', 'Cl', 'Br', 'F', 'I', 'P', 'B', 'OC',
          'N(C)C', 'S(=O)(=O)C', 'C(F)(F)F', 'OP(=O)(O)O', 'C=O', 'CS', 'SC', 'CC(C)(C)C', 'N=C=O', 'C(Cl)(Cl)Cl', 'SS']

CORPUS = ['CSn1cccc1', 'C1CCCc2c1cccc2', 'c1ccccc1', 'CC(=O)O', 'C1CC1.C1CC1', 'c1ccc(cc1)-c1ccccc1', 'C1CCC2(CC1)CCCC2',
          'N#Cc1ccccc1', 'C1=CCCCC1', 'c1ccc2ccccc2c1', 'ClC(Cl)Br', 'C:C', 'c1ccccc=1', 'O=C1CCCCC1', 'C1CCCC=C1',
          'c1cc(ccc1)S(=O)(=O)C', 'C(c1ccccc1)Sn1cccc1',
          # a bond symbol before a ring-opening digit (K5 when the symbol changes the reading; `-`/`:` agree)
          'C=1CCC1', 'C=1CCCCC1', 'C=1CCCCC=1', 'C1CCCCC=1', 'CC=1CCOCC1', 'C-1CCC1', 'c:1ccccc1', 'C-1-C=C-C1',
          'N=1CCCC1', 'C=1(C)CCC1', 'ClC=1CCCC1Br',
          # FORMS RDKit's writer never produces: ring label 0, a label taken again, ring digits after a branch, a ring bond between
          # textually consecutive atoms (opened on the last atom of a branch, closed on the first atom after it), a ring closure across a dot
          'C0CC0', 'c0ccccc0', 'C1CC1C0CC0', 'C0CC0C0CC0', 'C0CCC=0', 'Cc0ccc(cc0)C1CCNCC1', 'Clc0ccc1c(c0)CCO1', 'C(C)1CC1',
          'CC(C1)C1', 'CC(C)(C1)C1', 'OC(C1)C1', 'C(=C1)C1', 'C(CCCC1)C1', 'c(c1)cccn1', 'C(=C1)CC1', 'C(C1)(C1)',
          'C1.C1', 'CC1.C1', 'c1ccccc1C2.C2', 'C1.C=1', 'C1CC2.C12']

# ring templates whose closure bond is double / triple (RDKit itself avoids closing a ring on a multiple bond)
CLOSURE_BODIES = ['CC', 'CCC', 'CCCC', 'COC', 'CNC', 'CC(C)C', 'CSC', 'CCOC', 'C(F)C', 'CC(=O)C', 'CC(c2ccccc2)C', 'CCCCCC']
CLOSURE_PREFIX = ['', '', 'C', 'CC', 'OC', 'ClC', 'N(C)', 'O=C(O)', 'c1ccccc1', 'FC(F)(F)']
CLOSURE_SUFFIX = ['', '', 'C', 'O', 'Cl', 'CC', 'N(C)C', 'c1ccccc1']


# pentavalent N written WITHOUT charges (RDKit's sanitisation rewrites it into the charge-separated form and changes bond orders:
# known finding K11) and S / P groups written the same way (RDKit leaves those alone: both toolkits must agree).  RDKit's writer
# never produces the uncharged N forms, so these strings come from templates.
HYPER_R = ['C', 'CC', 'CC(C)', 'OCC', 'C1CCCCC1', 'c1ccccc1', 'Clc1ccc(cc1)', 'C1CC1', 'N#CC', 'CC(=O)C', 'c1ccncc1', 'CS(=O)(=O)C', 'CCC', 'CCCC',
           'C=CC', 'FC(F)(F)C', 'c1ccc2ccccc2c1', 'c1ccsc1', 'C1CCOC1', 'BrCC', 'NCC', 'SCC', 'C(C)(C)(C)', 'Cc1ccccc1', 'C1CCC1C', 'O=C(O)C', 'IC', 'c1cc(C)ccc1']
HYPER_TAIL = ['N(=O)=O', 'N(=O)=O', 'N=N#N', 'ON(=O)=O', 'N(C)(C)=O', 'S(=O)(=O)C', 'S(C)=O', 'P(=O)(C)C', 'OP(=O)(O)O', 'S(=O)(=O)N(=O)=O']
HYPER_HEAD = ['O=N(=O)', 'N#N=N', 'O=N(C)(C)', 'O=S(C)(=O)', 'O=P(C)(C)']
HYPER_DIAZO = ['C=N#N', 'CC=N#N', 'CC(C)=N#N', 'N#N=C', 'N#N=CC', 'C1CCCCC1=N#N', 'N#N=C1CCCC1', 'CC(=N#N)C', 'O=C(C)C=N#N', 'C(=N#N)c1ccccc1',
               'C#N=O', 'CC#N=O', 'O=N#CC']


def hyper_template(rng):
    c = rng.random()
    if c < 0.5:
        return rng.choice(HYPER_R) + rng.choice(HYPER_TAIL)
    if c < 0.7:
        return rng.choice(HYPER_HEAD) + rng.choice(HYPER_R)
    if c < 0.8:
        return rng.choice(HYPER_HEAD) + rng.choice(['C', 'CC', 'c1ccc(cc1)', 'C1CCC(CC1)']) + rng.choice(HYPER_TAIL)
    return rng.choice(HYPER_DIAZO)


def sanitisation_view(s):
    """RDKit ALONE: (kinds of rewriting RDKit's sanitisation did to the molecule it built from s: subset of {'aromaticity_perceived',
    'charges_normalised'}; canonical graph of the molecule RDKit builds WITHOUT sanitisation; do the sanitised and the unsanitised
    molecule differ ONLY in bonds made aromatic (both end atoms aromatic after sanitisation) or at atoms whose formal charge changed?)"""
    from rdkit import Chem
    raw = Chem.MolFromSmiles(s, sanitize=False)
    san = Chem.MolFromSmiles(s)
    if raw is None or san is None or raw.GetNumAtoms() != san.GetNumAtoms() or raw.GetNumBonds() != san.GetNumBonds():
        return set(), None, False
    charged = {a.GetIdx() for a, b in zip(raw.GetAtoms(), san.GetAtoms()) if a.GetFormalCharge() != b.GetFormalCharge()}
    kinds = {"charges_normalised"} if charged else set()
    only_there = True
    for x, y in zip(raw.GetBonds(), san.GetBonds()):
        ends = {x.GetBeginAtomIdx(), x.GetEndAtomIdx()}
        if ends != {y.GetBeginAtomIdx(), y.GetEndAtomIdx()}:
            only_there = False
        elif x.GetBondType() != y.GetBondType():
            if y.GetIsAromatic() and y.GetBeginAtom().GetIsAromatic() and y.GetEndAtom().GetIsAromatic():
                kinds.add("aromaticity_perceived")
            elif not (ends & charged):
                kinds.add("other")
                only_there = False
    raw_can = canon_graph(rdkit_direct_graph(raw))
    raw_can[1] = [[n[0], n[1], None, None, None] for n in raw_can[1]]
    return kinds, raw_can, only_there


def closure_template(rng):
    """a plain SMILES with a double bond written at the CLOSING digit of ring 9 (`…C9…C=9…`)"""
    first = rng.choice(['C', 'C', 'C', 'N'])
    pre = rng.choice(CLOSURE_PREFIX)
    suf = rng.choice(CLOSURE_SUFFIX)
    if first == 'N':
        pre = ''            # N=C closure: the nitrogen carries nothing else
    return pre + first + '9' + rng.choice(CLOSURE_BODIES) + 'C=9' + suf


def opening_bond_variants(rng, chain):
    """move (or copy) the bond symbols written at closing ring digits to the matching opening digit; returns
    a list of (chain, how) — at most one variant"""
    marks = []          # (items list, index) of ring marks in textual order

    def walk(c):
        for k, it in enumerate(c[1]):
            if it[0] == 'r':
                marks.append((c[1], k))
            else:
                walk(it[2])
    import copy
    chain = copy.deepcopy(chain)
    walk(chain)
    open_at = {}
    pairs = []
    for items, k in marks:
        rid = items[k][2]
        if rid in open_at:
            pairs.append((open_at.pop(rid), (items, k)))
        else:
            open_at[rid] = (items, k)
    cands = [(o, c) for o, c in pairs if c[0][c[1]][1] is not None and o[0][o[1]][1] is None]
    if not cands:
        return []
    how = "moved" if rng.random() < 0.7 else "copied"
    n = 0
    for (oi, ok), (ci, ck) in cands:
        if n and rng.random() < 0.5:
            continue
        n += 1
        b = ci[ck][1]
        oi[ok] = ('r', b, oi[ok][2])
        if how == "moved":
            ci[ck] = ('r', None, ci[ck][2])
    return [(chain, how)]


def normalise_opening_bonds(chain):
    """the same writing with every bond symbol at an opening ring digit moved to the closing digit (dropped when
    the closing digit carries one already) — SMILES reads both writings alike"""
    import copy
    chain = copy.deepcopy(chain)
    open_at = {}

    def walk(c):
        for k, it in enumerate(c[1]):
            if it[0] == 'r':
                rid = it[2]
                if rid in open_at:
                    items, k0 = open_at.pop(rid)
                    b = items[k0][1]
                    if b is not None:
                        items[k0] = ('r', None, rid)
                        if it[1] is None:
                            c[1][k] = ('r', b, rid)
                else:
                    open_at[rid] = (c[1], k)
            else:
                walk(it[2])
    walk(chain)
    return chain


# ---------------------------------------------------------------------------
# other FORMS of the same string: ring-closure labels (RDKit's writer starts at 1 and never writes 0) and writings
# no depth-first writer produces (ring bond between textually consecutive atoms, ring closure across a dot)
# ---------------------------------------------------------------------------
DIGITS = list("0123456789")


def renumber_rings(rng, chain):
    """the same writing with other ring-closure labels: every opening digit takes a digit 0-9 (0 included) that is not
    open at that point, so a label is used again after its ring was closed; None when there is no ring / no free digit"""
    open_ids = {}
    order = rng.sample(DIGITS, 10)
    first_free = rng.random() < 0.5          # True: always the first free digit of a random order (maximal re-use)
    n = [0]

    def walk(c):
        items = []
        for it in c[1]:
            if it[0] == 'r':
                n[0] += 1
                if it[2] in open_ids:
                    items.append(('r', it[1], open_ids.pop(it[2])))
                else:
                    free = [d for d in order if d not in open_ids.values()]
                    if not free:
                        raise OverflowError
                    d = free[0] if first_free else rng.choice(free)
                    open_ids[it[2]] = d
                    items.append(('r', it[1], d))
            else:
                items.append((it[0], it[1], walk(it[2])))
        return (c[0], items)
    try:
        out = walk(chain)
    except OverflowError:
        return None
    return out if n[0] else None


def chain_graph(chain):
    """what a plain-SMILES writing denotes, read off the syntax tree: (atoms in textual order, [(u, v, written bond)])
    without the `.` pairs; the bond of a ring closure is the one written at the closing digit"""
    atoms, bonds, _marks, _rc, _open = c01.py_events(chain)
    return atoms, [(u, v, b) for u, v, b in bonds if b != ('s', '.') and u != v]


def _components(nodes, adj):
    seen, comps = set(), []
    for s0 in nodes:
        if s0 in seen:
            continue
        comp, stack = [], [s0]
        seen.add(s0)
        while stack:
            u = stack.pop()
            comp.append(u)
            for v in adj[u]:
                if v not in seen:
                    seen.add(v)
                    stack.append(v)
        comps.append(comp)
    return comps


def _spanning_tree(rng, nodes, adj, kind):
    """tree edges (frozensets) of the connected graph induced on `nodes`: a randomised depth-first tree or ANY
    spanning tree (random Kruskal) — with the latter, ring closures join atoms that are not ancestor/descendant"""
    nodes = list(nodes)
    inside = set(nodes)
    tree = set()
    if kind == 'dfs':
        seen = set()

        def dfs(u):
            seen.add(u)
            nb = [v for v in adj[u] if v in inside]
            rng.shuffle(nb)
            for v in nb:
                if v not in seen:
                    tree.add(frozenset((u, v)))
                    dfs(v)
        dfs(rng.choice(nodes))
        return tree
    comp = {u: u for u in nodes}

    def find(x):
        while comp[x] != x:
            comp[x] = comp[comp[x]]
            x = comp[x]
        return x
    edges = sorted({tuple(sorted((u, v))) for u in nodes for v in adj[u] if v in inside})
    rng.shuffle(edges)
    for u, v in edges:
        if find(u) != find(v):
            comp[find(u)] = find(v)
            tree.add(frozenset((u, v)))
    return tree


def _tree_path(tadj, a, b):
    prev = {a: None}
    stack = [a]
    while stack:
        u = stack.pop()
        for v in tadj[u]:
            if v not in prev:
                prev[v] = u
                stack.append(v)
    path = [b]
    while path[-1] != a:
        path.append(prev[path[-1]])
    return path[::-1]


def _force_consecutive(rng, comp, adj):
    """a spanning tree, a root and child-order constraints under which some ring bond (L, F) joins textually
    consecutive atoms: L is a leaf of the tree and the last atom of the branch written directly before F.
    returns (tree edges, root, {node: child that must come last}, (X, A, F)) or None (component without a ring)"""
    inside = set(comp)
    cands = []
    for L in comp:
        nb = [v for v in adj[L] if v in inside]
        if len(nb) < 2:
            continue
        rest = [u for u in comp if u != L]
        radj = {u: [v for v in adj[u] if v in inside and v != L] for u in rest}
        if len(_components(rest, radj)) == 1:
            cands.append(L)
    if not cands:
        return None
    L = rng.choice(cands)
    nb = [v for v in adj[L] if v in inside]
    F, p1 = rng.sample(nb, 2)
    rest = [u for u in comp if u != L]
    radj = {u: [v for v in adj[u] if v in inside and v != L] for u in rest}
    tree = _spanning_tree(rng, rest, radj, rng.choice(['dfs', 'any']))
    tree.add(frozenset((L, p1)))
    tadj = {u: [] for u in comp}
    for e in tree:
        u, v = tuple(e)
        tadj[u].append(v)
        tadj[v].append(u)
    path = _tree_path(tadj, L, F)            # L = p0, p1, ..., X, F
    X = path[-2]
    A = path[-3] if len(path) >= 3 else L    # first atom of the branch that ends with L (A = L for a 3-ring `X(L1)F1`)
    # the root: X, or any node of a sub-tree hanging off X other than the ones of A and F
    roots = [X]
    for c in tadj[X]:
        if c in (A, F):
            continue
        stack, seen = [c], {X, c}
        while stack:
            u = stack.pop()
            roots.append(u)
            for v in tadj[u]:
                if v not in seen:
                    seen.add(v)
                    stack.append(v)
    last = {}
    for i in range(1, len(path) - 2):        # p1 .. A: the path child comes last
        last[path[i]] = path[i - 1]
    return tree, rng.choice(roots), last, (X, A, F)


def write_graph(rng, atoms, bonds, mode):
    """own SMILES writer.  mode: 'dfs' (randomised depth-first tree), 'any' (ANY spanning tree), 'consecutive' (a ring
    bond between textually consecutive atoms is forced where the graph has a ring), 'dot_ring' (a chain bond of the top
    level is written as a ring closure across a dot: `C1.C1`); ring digits 0-9 taken at random and re-used.
    Dots only at the top level (RDKit refuses a dot inside a branch).  returns (chain, order, forms) — `order[k]` = the
    atom of the input graph written k-th — or None"""
    n = len(atoms)
    adj = {u: [] for u in range(n)}
    bsym = {}
    for u, v, b in bonds:
        if frozenset((u, v)) in bsym or u == v:
            return None
        adj[u].append(v)
        adj[v].append(u)
        bsym[frozenset((u, v))] = b
    comps = _components(range(n), adj)
    rng.shuffle(comps)
    items = {u: [] for u in range(n)}
    forms = set()
    roots = []
    for comp in comps:
        forced = _force_consecutive(rng, comp, adj) if mode == 'consecutive' else None
        if forced is not None:
            tree, root, last, (X, A, F) = forced
            forms.add("forced_consecutive_ring_bond")
        else:
            tree, root, last, X = _spanning_tree(rng, comp, adj, 'dfs' if mode == 'dfs' else 'any'), rng.choice(comp), {}, None
        tadj = {u: [] for u in comp}
        for e in tree:
            u, v = tuple(e)
            tadj[u].append(v)
            tadj[v].append(u)
        roots.append(root)
        stack = [(root, None)]
        while stack:
            u, par = stack.pop()
            kids = [v for v in tadj[u] if v != par]
            rng.shuffle(kids)
            if u in last and last[u] in kids:
                kids.remove(last[u])
                kids.append(last[u])
            if forced is not None and u == X:
                kids.remove(A)
                kids.insert(kids.index(F), A)
            marks = [['r', None, None, frozenset((u, v))] for v in adj[u] if frozenset((u, v)) not in tree]
            rng.shuffle(marks)
            branch_last = bool(kids) and u not in last and not (forced is not None and u == X) and rng.random() < 0.08
            its = [['b' if (k < len(kids) - 1 or branch_last) else 'n', bsym[frozenset((u, v))], v] for k, v in enumerate(kids)]
            if branch_last:
                forms.add("last_child_in_parentheses")
            if marks and its and rng.random() < 0.25:
                # ring digits between / after the branches (`C(C)1CC1`) instead of directly after the atom
                hi = len(its) - (1 if its[-1][0] == 'n' else 0)
                for m in marks:
                    its.insert(rng.randint(0, hi), m)
                    hi += 1
                forms.add("ring_digit_after_branch")
            else:
                its = marks + its
            items[u] = its
            for v in kids:
                stack.append((v, u))

    def main_end(u):
        while items[u] and items[u][-1][0] == 'n':
            u = items[u][-1][2]
        return u
    for a, b in zip(roots, roots[1:]):
        items[main_end(a)].append(['n', ('s', '.'), b])
    if mode == 'dot_ring':
        # top-level chain bonds X -> F; prefer those where F directly follows X in the text
        top = []
        u = roots[0]
        while items[u] and items[u][-1][0] == 'n':
            if items[u][-1][1] != ('s', '.'):
                top.append(u)
            u = items[u][-1][2]
        if top:
            nxt = lambda u: items[u][-1][2]
            direct = [u for u in top if all(it[0] == 'r' for it in items[u][:-1])]
            clean = [u for u in direct if len(items[u]) == 1 and not (items[nxt(u)] and items[nxt(u)][0][0] == 'r')]
            pool = clean if clean and rng.random() < 0.8 else direct if direct and rng.random() < 0.7 else top
            for u in [rng.choice(pool)]:
                it = items[u][-1]
                f = it[2]
                e = ('dot', u, f)
                bsym[e] = it[1]
                it[1] = ('s', '.')
                items[u].insert(len(items[u]) - 1, ['r', None, None, e])
                items[f].insert(0, ['r', None, None, e])
                forms.add("ring_closure_across_dot")
    # textual order, ring labels, bond symbols at the closing digits
    order = []
    open_ids = {}
    lower = lambda u: atoms[u][1].islower()

    def number(u):
        order.append(u)
        prev_mark = False
        for it in items[u]:
            if it[0] == 'r':
                e = it[3]
                if e in open_ids:
                    d, opener = open_ids.pop(e)
                    it[2] = d
                    it[1] = bsym[e]
                    if prev_mark and it[1] is None:
                        # two ring digits in a row would read as ONE ring number for FGUtils (excluded by the property):
                        # write the bond of the closing digit out
                        it[1] = ('s', ':' if lower(u) and lower(opener) else '-')
                else:
                    free = [d for d in DIGITS if d not in {x[0] for x in open_ids.values()}]
                    if not free:
                        raise OverflowError
                    d = rng.choice(free)
                    open_ids[e] = (d, u)
                    it[2] = d
                prev_mark = True
            else:
                prev_mark = False
                number(it[2])
    try:
        number(roots[0])
    except OverflowError:
        return None
    if len(order) != n or open_ids:
        raise RuntimeError("own SMILES writer lost atoms or left a ring open")

    def freeze(u):
        return (atoms[u], [('r', it[1], it[2]) if it[0] == 'r' else (it[0], it[1], freeze(it[2])) for it in items[u]])
    chain = freeze(roots[0])
    # self-check of the writer (machinery): the new writing bonds the same pairs with the same orders
    pos = {u: k for k, u in enumerate(order)}
    atoms2, bonds2 = chain_graph(chain)

    def order_of(b, u, v):
        if b is None:
            return ':' if lower(u) and lower(v) else '-'
        return b[1]
    want = sorted((min(pos[u], pos[v]), max(pos[u], pos[v]), order_of(b, u, v)) for u, v, b in bonds)
    got = sorted((min(u, v), max(u, v), order_of(b, order[u], order[v])) for u, v, b in bonds2)
    if atoms2 != [atoms[u] for u in order] or want != got:
        raise RuntimeError("own SMILES writer changed the molecule: %r" % render(chain))
    return chain, order, sorted(forms)


def gen_mol(rng):
    from rdkit import Chem, RDLogger
    RDLogger.DisableLog('rdApp.*')
    pool = RINGS + RINGS + CHAINS
    m = Chem.MolFromSmiles(rng.choice(RINGS if rng.random() < 0.7 else CHAINS))
    for _ in range(rng.choice([0, 1, 1, 2, 2, 3, 4])):
        f = Chem.MolFromSmiles(rng.choice(pool))
        if m.GetNumAtoms() + f.GetNumAtoms() > 30:
            break
        n0 = m.GetNumAtoms()
        comb = Chem.CombineMols(m, f)
        if rng.random() < 0.15:
            m = comb          # separate component (dot)
            continue
        cand_a = [a.GetIdx() for a in m.GetAtoms() if a.GetTotalNumHs() > 0]
        cand_b = [a.GetIdx() + n0 for a in f.GetAtoms() if a.GetTotalNumHs() > 0]
        if not cand_a or not cand_b:
            m = comb
            continue
        a, b = rng.choice(cand_a), rng.choice(cand_b)
        rw = Chem.RWMol(comb)
        aa, bb = rw.GetAtomWithIdx(a), rw.GetAtomWithIdx(b)
        order = Chem.BondType.SINGLE
        if (not aa.GetIsAromatic() and not bb.GetIsAromatic() and aa.GetTotalNumHs() >= 2 and bb.GetTotalNumHs() >= 2
                and aa.GetSymbol() == 'C' and bb.GetSymbol() == 'C' and rng.random() < 0.2):
            order = Chem.BondType.DOUBLE
        rw.AddBond(a, b, order)
        try:
            m2 = rw.GetMol()
            Chem.SanitizeMol(m2)
            m = m2
        except Exception:
            pass
    return m


def writings(rng, m, k):
    from rdkit import Chem
    out = []
    n = m.GetNumAtoms()
    for _ in range(k):
        perm = list(range(n))
        rng.shuffle(perm)
        m2 = Chem.RenumberAtoms(m, perm)
        kw = {}
        r = rng.random()
        if r < 0.2:
            kw["allBondsExplicit"] = True
        elif r < 0.28:
            kw["kekuleSmiles"] = True
        try:
            if kw.get("kekuleSmiles"):
                m2 = Chem.Mol(m2)
                Chem.Kekulize(m2, clearAromaticFlags=True)
            s = Chem.MolToSmiles(m2, canonical=False, rootedAtAtom=rng.randrange(n), **kw)
        except Exception:
            continue
        out.append((s, "all_bonds_explicit" if "allBondsExplicit" in kw else "kekule" if "kekuleSmiles" in kw else "default"))
    return out


def chain_atoms(chain, out=None):
    out = [] if out is None else out
    out.append(chain[0])
    for it in chain[1]:
        if it[0] != 'r':
            chain_atoms(it[2], out)
    return out


def excluded_syntax(chain):
    """adjacent ring digits / a bond symbol before an opening ring digit (walk in textual order)"""
    open_ids = set()
    res = set()

    def walk(c):
        prev_mark = False
        for it in c[1]:
            if it[0] == 'r':
                if prev_mark and it[1] is None:
                    res.add("adjacent_ring_digits")
                if it[2] in open_ids:
                    open_ids.discard(it[2])
                else:
                    if it[1] is not None:
                        res.add("bond_before_opening_digit")
                    open_ids.add(it[2])
                prev_mark = True
            else:
                prev_mark = False
                walk(it[2])
    walk(chain)
    if open_ids:
        res.add("unclosed_ring")
    return res


def has_S_then_n(s):
    """oracle for the scope of K1: in the SMILES tokenisation an atom `S` is directly followed by an atom `n`"""
    toks = [(m.lastgroup, m.group()) for m in _SMILES_TOK.finditer(s)]
    return any(a == ('A', 'S') and b == ('A', 'n') for a, b in zip(toks, toks[1:]))


def rdkit_view(s):
    """(canonical rdkit graph, in_contract) — in_contract: every atom's aromatic flag equals its written case and
    every bond between two aromatic atoms is aromatic"""
    from rdkit import Chem
    from fgutils.rdkit import mol_smiles_to_graph
    g = mol_smiles_to_graph(s)
    mol = Chem.MolFromSmiles(s)
    return g, mol, rdkit_direct_graph(mol)


def rdkit_direct_graph(mol):
    """the molecule RDKit built, read with RDKit alone (no code of the library): the reference of the property.
    `fgutils.rdkit.mol_smiles_to_graph` - the property's second observation point and the reader every user of
    the library compares with - must give the same graph; a difference there is reported as a violation with
    the string as replay (ORACLE_SIDE), not as a broken assumption of the machinery."""
    import networkx as nx
    from rdkit import Chem
    order = {Chem.BondType.SINGLE: 1, Chem.BondType.DOUBLE: 2, Chem.BondType.TRIPLE: 3, Chem.BondType.AROMATIC: 1.5}
    g = nx.Graph()
    for a in mol.GetAtoms():
        g.add_node(a.GetIdx(), symbol=a.GetSymbol())
    for b in mol.GetBonds():
        g.add_edge(b.GetBeginAtomIdx(), b.GetEndAtomIdx(), bond=order[b.GetBondType()])
    return g


ORACLE_SIDE = []   # (smiles, mol_smiles_to_graph view, RDKit-alone view) where the two differ on an in-domain string


def module_level_history(rng, s):
    """HISTORY scenario for the module-level `fgutils.parse.parse`: `<g,h>` patterns, rejected strings or unfinished
    patterns are parsed through the same function directly before the SMILES under test"""
    first = True
    for _ in range(rng.choice([1, 1, 2, 3])):
        pre = rng.choice(c01.HISTORY_ITS + c01.HISTORY_REJECTED + c01.HISTORY_REJECTED + c01.HISTORY_UNFINISHED + ['C(C', '1CC'])
        c01.ml_parse(pre, provocation="first" if first else "more")
        first = False
    history = c01.ml_history()
    return c01.ml_parse(s), history


ENTRIES = ["parse()"] * 7 + ["Parser().parse"] * 1 + ["Parser()()"] * 1 + ["Parser.parse(s,0)"] * 1


def fresh_parser_call(s, entry):
    import fgutils.parse as P
    if entry == "Parser()()":
        return P.Parser()(s)
    if entry == "Parser.parse(s,0)":
        return P.Parser(use_multigraph=False, init_aam=False).parse(s, 0)
    return P.Parser().parse(s)


def make_case(r, s, origin, tags=(), reused=None, module_history=False, replay_meta=None, entry=None):
    """reused: a c01.ReusedParsers — the SMILES is parsed on a long-lived `Parser()` object (HISTORY scenario);
    module_history: the module-level parse() is first given other strings; replay_meta: re-run a recorded history"""
    if set(s) - _ALLOWED:
        r.count("filter:rejected_chars(brackets,%,stereo,charges)")
        return None
    chain = read_chain(s, single_digit_rings=True, atom_re=_SMILES_TOK)
    if chain is None or render(chain) != s:
        r.count("filter:not_in_grammar")
        return None
    exc = excluded_syntax(chain)
    opening_bond = "bond_before_opening_digit" in exc
    hard_exc = exc - {"bond_before_opening_digit"}
    for e in hard_exc:
        r.count("filter:excluded_syntax:" + e)
    rd = call_impl(rdkit_view, s)
    hist_meta = {}
    tags = list(tags)
    if replay_meta is not None and replay_meta.get("history") is not None:
        if replay_meta.get("reused_parser"):
            impl = c01.replay_history(False, False, replay_meta["history"], s, 0)
        else:
            impl = c01.ml_replay(replay_meta["history"], s)
    elif reused is not None:
        impl, history, kinds = reused.call(False, False, s, 0)
        hist_meta = {"reused_parser": True, "history": history}
        tags += ["history", "history:reused_Parser_object"] + ["history:" + k for k in kinds]
    elif module_history:
        impl, history = module_level_history(r.rng, s)
        hist_meta = {"reused_parser": False, "history": history}
        tags += ["history", "history:module_level_parse"]
        if any(h["result"].startswith("raised") for h in history):
            tags.append("history:after_rejected")
    elif (entry or (replay_meta or {}).get("entry") or "parse()") != "parse()":
        # a new Parser object: the method, or the object called
        entry = entry or replay_meta.get("entry")
        plain_history = None
        impl = call_impl(fresh_parser_call, s, entry)
    else:
        # a plain call of the module-level parse(); what that function was given before is recorded all the same
        plain_history = c01.ml_history()
        impl = c01.ml_parse(s)
    if hist_meta:
        fresh = call_impl(lambda: __import__("fgutils.parse", fromlist=["Parser"]).Parser().parse(s))
        same = (isinstance(impl, ImplError) and isinstance(fresh, ImplError) and impl.kind == fresh.kind) or (
            not isinstance(impl, ImplError) and not isinstance(fresh, ImplError) and canon_graph(impl) == canon_graph(fresh))
        hist_meta["history_result_equals_fresh_object"] = same
        if not same:
            tags.append("history:differs_from_fresh_object")
    in_contract = False
    if isinstance(rd, ImplError):
        rd_can = rd
        r.count("filter:rdkit_rejects")
    else:
        g, mol, g_direct = rd
        lib_can = canon_graph(g)
        # mol_to_graph gives nodes only a symbol
        lib_can[1] = [[n[0], n[1], None, None, None] for n in lib_can[1]]
        rd_can = canon_graph(g_direct)
        rd_can[1] = [[n[0], n[1], None, None, None] for n in rd_can[1]]
        atoms = chain_atoms(chain)
        lower = lambda a_: atoms[a_.GetIdx()][1].islower()
        atoms_ok = mol.GetNumAtoms() == len(atoms)
        # the statement's own exclusion: two AROMATIC (lower-case written) atoms joined by a bond that is not aromatic
        stmt_excluded = atoms_ok and any(not b.GetIsAromatic() for b in mol.GetBonds() if lower(b.GetBeginAtom()) and lower(b.GetEndAtom()))
        lower_not_aromatic = atoms_ok and any(lower(a) and not a.GetIsAromatic() for a in mol.GetAtoms())
        in_contract = atoms_ok and not stmt_excluded and not lower_not_aromatic
        if stmt_excluded:
            r.count("filter:out_of_contract(non-aromatic bond between two lower-case atoms: excluded by the statement)")
        elif not in_contract:
            r.count("filter:out_of_contract(atom count differs or a lower-case atom is not aromatic for RDKit)")
    kinds, raw_can, only_there = (set(), None, False) if isinstance(rd, ImplError) else sanitisation_view(s)
    rewrote = bool(kinds)
    if rewrote and in_contract and (opening_bond or has_S_then_n(s)):
        # K5 / K1 strings that sanitisation ALSO rewrites: the two divergences cannot be told apart per case; counted, not judged
        in_contract = False
        r.count("filter:not_judged(K1/K5 syntax on a string whose molecule RDKit's sanitisation rewrites)")
    impl_can = impl if isinstance(impl, ImplError) else canon_graph(impl)
    in_domain = in_contract and not hard_exc and not isinstance(rd, ImplError)
    if in_domain and lib_can != rd_can:
        ORACLE_SIDE.append((s, lib_can, rd_can))
    req = [Atom("C02"), Atom("check"), enc_chain(chain), S(s),
           [Atom("raised"), Atom(rd_can.kind)] if isinstance(rd_can, ImplError) else rd_can]
    st = c01.chain_stats(chain)
    key = s if st['atoms'] >= 4 and (st['rings'] or st['branches']) else None
    t = list(tags) + [origin, "in_domain" if in_domain else "out_of_domain"]
    forms = c01.ring_form_tags(chain)
    t += forms + ([f + ":in_domain" for f in forms] if in_domain else [])
    t += [k for k in ("rings", "dots", "lower", "branches") if st[k]]
    t += ["ring_closures>=2" if st['rings'] >= 4 else "ring_closures<=1",
          "atoms>=15" if st['atoms'] >= 15 else "atoms<15"]
    if has_S_then_n(s):
        t.append("S_then_n")
    if rewrote:
        t.append("sanitisation_rewrote")
        for kd in sorted(kinds):
            t.append("sanitisation_rewrote:" + kd)
        if in_domain:
            t.append("sanitisation_rewrote:in_domain")
            t.append("sanitisation_rewrote:in_domain:" + "+".join(sorted(kinds)))
    if opening_bond:
        t.append("bond_before_opening_digit")
        if in_domain:
            t.append("bond_before_opening_digit:in_domain")
    meta = {"smiles": s, "origin": origin, "in_contract": in_contract, "excluded": sorted(hard_exc),
            "opening_bond": opening_bond, "sanitisation_rewrote": rewrote}
    if rewrote:
        # scope of K11, decided with RDKit alone: the parser's graph (symbols up to c -> C) is, atom for atom, the molecule RDKit
        # builds WITHOUT sanitisation, and sanitisation changed only bonds it made aromatic (both end atoms aromatic) or bonds at
        # atoms whose formal charge it changed
        same_as_raw = (not isinstance(impl_can, ImplError)) and raw_can is not None and impl_can[2] == raw_can[2] and [
            [n[0], (n[1] or "").capitalize() if (n[1] or "").islower() else n[1]] for n in impl_can[1]] == [[n[0], n[1]] for n in raw_can[1]]
        meta["k11_scope"] = bool(same_as_raw and only_there)
        meta["sanitisation_kinds"] = sorted(kinds)
    meta.update(hist_meta)
    meta["entry"] = "reused_Parser_object.parse" if meta.get("reused_parser") else (entry or "parse()") if not hist_meta else "parse()"
    t.append("entry:" + meta["entry"])
    if not hist_meta and replay_meta is None and reused is None and not module_history:
        meta.update({"reused_parser": False, "history": plain_history})
    return Case(req, impl_can, in_domain=in_domain, nontrivial_key=key, tags=t, meta=meta)


def run(tier, seed):
    r = Run("C02", tier, seed)
    if not c01.prepare_tolerant(r, PROOFS, "C02"):
        return 2
    rng = r.rng
    n_strings = 2200 if tier == "quick" else 140000
    known = {f["id"]: f for f in load_known_findings()}
    k1, k5 = known["K1"], known["K5"]
    k11 = known.get("K11", {"status": "absent"})
    # witnesses of known findings are replayed against the real code on every run
    cfile = os.path.join(CORPUS_DIR, "C02", "witnesses.json")
    if os.path.exists(cfile):
        for w in json.load(open(cfile))["cases"]:
            if w not in CORPUS:
                CORPUS.append(w)
    for f in (k1, k5, k11):
        for w in f.get("witnesses", []):
            if w not in CORPUS:
                CORPUS.append(w)

    normalised_ok = {}       # original string -> does the writing with the opening bonds moved to the closing digits satisfy the spec?
    hits = {"K1": 0, "K5": 0, "K11": 0}
    k11_kinds = {}

    def classify_known(o):
        """a failing in-domain case is a known finding only inside the finding's scope, decided per case, and only
        when the implementation does what the model does (a failure the model does not share is new)"""
        # when the proof/table obligations of this run did not build, the model itself may be degraded
        # (tables unreadable): then a failure inside a finding's scope is judged by the scope predicate
        # alone, otherwise implementation == model is required
        model_trustworthy = r.build is not None and r.build.proofs_ok and not r.audit_bad
        if model_trustworthy and not o.corr:
            return None
        s = o.case.meta.get("smiles", "")
        if k1.get("status") == "open" and has_S_then_n(s):
            hits["K1"] += 1
            return k1
        if k5.get("status") == "open" and o.case.meta.get("opening_bond") and normalised_ok.get(s) is True:
            hits["K5"] += 1
            return k5
        return None

    broken_assumption = []
    inconsistent = 0
    pending = []
    opening_in_domain = [0, 0]        # cases, failing cases
    seen_strings = set()

    reused = c01.ReusedParsers(rng)
    n_added = [0, 0]

    def add(s, origin, tags=()):
        if s in seen_strings:
            return None
        seen_strings.add(s)
        # HISTORY scenarios: a fixed fraction (every 5th string): alternately a long-lived `Parser()` object reused
        # across the batch and the module-level parse() after other (ITS / rejected / unfinished) strings
        n_added[0] += 1
        hist = n_added[0] % 5 == 0
        if hist:
            n_added[1] += 1
        c = make_case(r, s, origin, tags, reused=reused if hist and n_added[1] % 2 == 0 else None,
                      module_history=hist and n_added[1] % 2 == 1, entry=None if hist else rng.choice(ENTRIES))
        if c is not None:
            pending.append(c)
        return c

    for s in CORPUS:
        add(s, "corpus")
    produced = len(pending)

    def flush():
        nonlocal inconsistent
        # companions of the opening-bond writings first: the same writing with the bond symbol at the closing digit
        comp = []
        for c in pending:
            if c.meta["opening_bond"] and c.in_domain:
                s = c.meta["smiles"]
                chain = read_chain(s, single_digit_rings=True, atom_re=_SMILES_TOK)
                s2 = render(normalise_opening_bonds(chain))
                c2 = make_case(r, s2, "normalised_opening_bond")
                if c2 is not None and c2.in_domain and not c2.meta["opening_bond"]:
                    comp.append((s, c2))
        outs2 = r.evaluate([c2 for _, c2 in comp], classify_known=classify_known)
        for (s, _), o in zip(comp, outs2):
            normalised_ok[s] = bool(o.ok_reply and o.spec_impl == "1" and (o.corr or not (r.build.proofs_ok and not r.audit_bad)))
        outs = r.evaluate(pending, classify_known=classify_known)
        for o in outs + outs2:
            if not o.ok_reply:
                continue
            rd_ok, plain, wf = o.extra[0] == "1", o.extra[1] == "1", o.extra[2] == "1"
            meta = o.case.meta
            if meta["in_contract"] and not rd_ok and not meta["excluded"]:
                if (meta.get("sanitisation_rewrote") and meta.get("k11_scope") and k11.get("status") == "open" and o.case.in_domain
                        and o.spec_impl == "1" and (o.corr or not (r.build.proofs_ok and not r.audit_bad))
                        and not meta["opening_bond"] and not has_S_then_n(meta["smiles"])):
                    # the parser's graph is smilesDenote(s) and, atom for atom, RDKit's UNSANITISED molecule, but not the molecule RDKit
                    # builds (sanitisation perceived aromaticity on a Kekule-written ring and / or normalised charges): known finding K11
                    hits["K11"] += 1
                    kd = "+".join(meta.get("sanitisation_kinds", []))
                    k11_kinds[kd] = k11_kinds.get(kd, 0) + 1
                    r.known_hits.append((k11, o))
                else:
                    broken_assumption.append(o)
            if o.case.in_domain and not (plain and (wf or has_S_then_n(meta["smiles"]) or meta["opening_bond"])):
                inconsistent += 1
            if o.case.in_domain and meta["opening_bond"]:
                opening_in_domain[0] += 1
                opening_in_domain[1] += o.spec_impl == "0"
        pending.clear()

    while produced < n_strings:
        c_kind = rng.random()
        if c_kind < 0.12:
            s = closure_template(rng)
            c = add(s, "closure_template")
            produced += 1
            cands = [(s, c)]
        elif c_kind < 0.22:
            # hypervalent N / S / P groups written without charges (RDKit never writes the N forms)
            cands = []
            for _ in range(4):
                s = hyper_template(rng)
                c = add(s, "hyper_template")
                produced += 1
                if c is not None and not c.meta.get("sanitisation_rewrote"):
                    cands.append((s, c))
        else:
            m = gen_mol(rng)
            if m.GetNumAtoms() < 3:
                continue
            cands = []
            for s, how in writings(rng, m, 4):
                c = add(s, "writing:" + how)
                produced += 1
                cands.append((s, c))
        # other FORMS of the same molecules (a fixed fraction of the strings of every run): the ring labels of RDKit's
        # writings renumbered (any digit 0-9, 0 included, labels re-used after closing), and the molecule written again
        # by the harness's own writer (any spanning tree instead of a depth-first one; a ring bond between textually
        # consecutive atoms `CC(C1)C1`; a chain bond as a ring closure across a dot `C1.C1`; digits after branches)
        src = [(s, c) for s, c in cands if c is not None and c.in_domain and not c.meta["opening_bond"] and not c.meta.get("sanitisation_rewrote")]
        for s, c in src:
            if rng.random() < 0.3:
                ch2 = renumber_rings(rng, read_chain(s, single_digit_rings=True, atom_re=_SMILES_TOK))
                if ch2 is not None:
                    cands.append((render(ch2), add(render(ch2), "ring_labels_renumbered")))
                    produced += 1
        if src:
            s0, _c0 = rng.choice(src)
            g_atoms, g_bonds = chain_graph(read_chain(s0, single_digit_rings=True, atom_re=_SMILES_TOK))
            for mode in rng.choice([['consecutive', 'dot_ring'], ['consecutive', 'any'], ['dot_ring', 'dfs'], ['consecutive'], ['any']]):
                w = write_graph(rng, g_atoms, g_bonds, mode)
                if w is None:
                    r.count("own_writer:gave_up")
                    continue
                s2 = render(w[0])
                cands.append((s2, add(s2, "own_writer:" + mode, tags=["own_writer"] + ["own_writer_form:" + f for f in w[2]])))
                produced += 1
        for s, c in cands:
            # RDKit writes ring-closure bond symbols at the closing digit only: move / copy them to the opening digit
            if c is None or not c.in_domain or c.meta.get("sanitisation_rewrote") or rng.random() >= (0.9 if "=9" in s else 0.35):
                continue
            chain = read_chain(s, single_digit_rings=True, atom_re=_SMILES_TOK)
            for ch2, how in opening_bond_variants(rng, chain):
                add(render(ch2), "opening_bond:" + how)
                produced += 1
        if len(pending) >= 4000:
            flush()
    flush()
    dist = r.dist
    r.extra_cov["rdkit_vs_smilesDenote_disagreements_in_contract"] = len(broken_assumption)
    r.extra_cov["python_domain_not_in_lean_Plain_and_WFRef"] = inconsistent
    r.extra_cov["known_finding_hits_by_id"] = dict(hits)
    r.extra_cov["history_cases(reused Parser object / module-level parse after other strings)"] = dist.get("tag:history", 0)
    r.extra_cov["history_cases_differing_from_fresh_object"] = dist.get("tag:history:differs_from_fresh_object", 0)
    r.extra_cov["sanitisation_rewrote_in_domain_cases(Kekule-written aromatic rings; nitro/diazo/azide/N-oxide without charges)"] = {
        k[len("tag:sanitisation_rewrote:in_domain:"):]: v for k, v in sorted(dist.items()) if k.startswith("tag:sanitisation_rewrote:in_domain:")}
    r.extra_cov["known_finding_K11_hits_by_kind"] = dict(sorted(k11_kinds.items()))
    r.extra_cov["bond_before_opening_digit_in_domain_cases"] = opening_in_domain[0]
    r.extra_cov["bond_before_opening_digit_in_domain_cases_failing_spec"] = opening_in_domain[1]
    r.extra_cov["input_forms_in_domain(ring labels, writings no depth-first writer produces)"] = {
        k: dist.get("tag:" + k + ":in_domain", 0) for k in ("ring_label:0", "ring_label:reused_after_closing",
                                                            "ring_bond:consecutive_atoms", "ring_bond:across_dot")}
    r.extra_cov["strings_by_origin"] = {k[4:]: v for k, v in dist.items() if k.startswith(("tag:writing:", "tag:own_writer:", "tag:ring_labels_renumbered",
                                                                                          "tag:closure_template", "tag:hyper_template", "tag:opening_bond:", "tag:corpus"))}
    r.extra_cov["cases_by_entry_point"] = {k[len("tag:entry:"):]: v for k, v in sorted(dist.items()) if k.startswith("tag:entry:")}
    r.extra_cov["out_of_domain_counts"] = {
        "adjacent_ring_digits (excluded by the property statement)": dist.get("filter:excluded_syntax:adjacent_ring_digits", 0),
        "unclosed_ring": dist.get("filter:excluded_syntax:unclosed_ring", 0),
        "non-aromatic bond between two lower-case (aromatic) atoms (excluded by the property statement)":
            dist.get("filter:out_of_contract(non-aromatic bond between two lower-case atoms: excluded by the statement)", 0),
        "atom count differs / lower-case atom not aromatic for RDKit":
            dist.get("filter:out_of_contract(atom count differs or a lower-case atom is not aromatic for RDKit)", 0),
        "K1/K5 syntax on a string sanitisation rewrites (two divergences at once: counted, not judged)":
            dist.get("filter:not_judged(K1/K5 syntax on a string whose molecule RDKit's sanitisation rewrites)", 0),
        "rdkit_rejects": dist.get("filter:rdkit_rejects", 0),
        "not_in_shared_sub-language (brackets, %, stereo, charges; never sent)":
            dist.get("filter:rejected_chars(brackets,%,stereo,charges)", 0) + dist.get("filter:not_in_grammar", 0),
    }
    r.assumptions = r.assumptions + [
        "RDKit contract (trusted, exercised on every case): on strings whose molecule RDKit's sanitisation does not rewrite (no aromaticity "
        "perceived on upper-case atoms, no formal charge changed), the molecule RDKit builds from s, read with RDKit alone (harness/c02.py: rdkit_direct_graph, no library code) = smilesDenote(s) up to c -> C; "
        "disagreements in this run: %d; fgutils.rdkit.mol_smiles_to_graph(s) is compared with that reading on every in-domain string "
        "(differences in this run: %d, each a violation)" % (len(broken_assumption), len(ORACLE_SIDE)),
        "molecules are generated without stereo centres, charges or isotopes; writings containing [ ] % @ / \\ + are filtered (counted)",
        "out of domain (counted in out_of_domain_counts): adjacent ring digits (C12 is ring '12' for FGUtils; excluded by the property statement), "
        "two lower-case atoms joined by a bond that is not aromatic (the statement's own exclusion), strings RDKit rejects; K1/K5 syntax on a string "
        "that sanitisation also rewrites is counted as not judged",
        "a bond symbol before a ring-OPENING digit is IN the domain: a failing case there is known finding K5 only if implementation == model and "
        "the writing with the symbol moved to the closing digit satisfies the specification; anything else is a violation",
        "strings whose molecule RDKit's sanitisation REWRITES - aromaticity perceived on a Kekule-written ring ('C1=CC=CC=C1'), charges normalised on "
        "pentavalent N written without charges - are IN the domain (the statement's sub-language does not exclude them): RDKit's molecule is then "
        "not smilesDenote(s) by construction (not a broken assumption); such a case is known finding K11 only if the parser's graph is atom for atom "
        "the molecule RDKit builds WITHOUT sanitisation, the two RDKit readings differ only in bonds made aromatic (both end atoms aromatic after "
        "sanitisation) or at atoms whose charge changed, and implementation == model == smilesDenote; anything else is a violation or a broken assumption",
        "everything assumed for C01 (lexer/networkx models)",
    ]
    r.extra_cov["mol_smiles_to_graph_vs_rdkit_alone_differences"] = len(ORACLE_SIDE)
    if ORACLE_SIDE:
        report_oracle_side(r)
    if (broken_assumption or inconsistent) and not (r.spec_failures or r.corr_failures):
        o = broken_assumption[0] if broken_assumption else None
        p = r.write_replay("machinery", "broken_assumption", r.outcome_payload(o) if o else {"note": "domain mismatch"})
        print("ERROR property=C02 assumption broken: RDKit and smilesDenote differ on %d in-contract strings "
              "(or python domain outside Lean Plain/WFRef: %d); first: %s" % (len(broken_assumption), inconsistent, p))
        r.finish(level="proof")
        return 2
    return r.finish(
        level="proof",
        rule="molecules assembled from %d ring systems (aromatic/hetero-aromatic, fused, spiro, bridged) and %d chain fragments (3-30 heavy atoms, "
             "dots), 4 non-canonical writings each (random atom order and root; 20%% all bonds explicit, 8%% Kekule); 12%% ring templates closed on a "
             "double bond; 6%% templates with hypervalent N/S/P groups written without charges (nitro, diazo, azide, N-oxide, nitrate, sulfone, sulfoxide, "
             "phosphine oxide, phosphate on chains and rings: RDKit never writes the N forms); closing-digit bond symbols moved/copied to the opening digit (35%% / 90%% of the eligible writings); INPUT FORMS: 30%% of the writings "
             "again with renumbered ring labels (digits 0-9 incl. 0, labels re-used after closing), and per molecule 1-2 writings of the harness's own writer "
             "(any spanning tree, ring bond between textually consecutive atoms `CC(C1)C1`, chain bond as ring closure across a dot `C1.C1`, ring digits after "
             "branches, last child in parentheses; tags ring_label:* / ring_bond:* are decided by an oracle on the syntax tree of every string); filtered to the shared "
             "sub-language; HISTORY: every 5th string is parsed on a long-lived Parser() object (sessions of 2-40 strings with <g,h> patterns, rejected "
             "strings such as '1CC', 'CC(C!)C' and unfinished patterns such as 'C(C' in between) or through the module-level parse() directly after such "
             "strings; the replay records the preceding calls; in-domain = plain, no adjacent ring digits, RDKit accepts, no non-aromatic bond between lower-case atoms (bond symbols before opening digits, Kekule-written aromatic rings and uncharged pentavalent N included); non-trivial = "
             ">=4 atoms with ring or branch, distinct strings"
             % (len(RINGS), len(CHAINS)),
        checker_cmd="cd lean && lake build FGVerif.Proofs.C02 && lake env lean FGVerif/Audit/C02.lean",
        explanation="C02.parse_eq_smiles (Lean, corollary of C01.parse_faithful) about the model parser and smilesDenote; the model is tied to "
                    "fgutils.parse by differential testing, smilesDenote to RDKit by the exercised contract; smilesDenote is compared with "
                    "every implementation output; C02.opening_bond_differs proves the K5 divergence for the model")


def report_oracle_side(r):
    s, lib_can, rd_can = min(ORACLE_SIDE, key=lambda t: len(t[0]))
    p = r.write_replay("failing-input", "oracle_side", {
        "meta": {"smiles": s, "oracle_side": True},
        "what": "fgutils.rdkit.mol_smiles_to_graph(s) is not the molecule RDKit builds from s (atoms in order, bonded pairs, orders; "
                "aromatic = 1.5), so parse(s) and mol_smiles_to_graph(s) cannot both agree with RDKit",
        "mol_smiles_to_graph": lib_can, "rdkit_alone": rd_can, "strings_affected_in_this_run": len(ORACLE_SIDE),
        "reproduce": "python -c \"from fgutils.rdkit import mol_smiles_to_graph as f; g=f(%r); print(g.nodes(data=True), g.edges(data=True))\"" % s})
    r.violation_lines.append("VIOLATION property=C02 replay=%s" % p)


def replay(path):
    from common import Driver, parse_sx, sx_of
    d = json.load(open(path))
    m = d.get("meta") or {}
    s = m.get("smiles")
    if m.get("oracle_side"):
        g, mol, g_direct = rdkit_view(s)
        a, b = canon_graph(g), canon_graph(g_direct)
        a[1] = [[n[0], n[1]] for n in a[1]]; b[1] = [[n[0], n[1]] for n in b[1]]
        print("smiles: %r\nmol_smiles_to_graph: %s\nRDKit alone        : %s" % (s, a, b))
        print("mol_smiles_to_graph vs RDKit: %s" % ("DIFFERS" if a != b else "equal"))
        return 1 if a != b else 0
    if s is None:
        print("replay file has no input: %s" % d.get("theorem_or_correspondence"))
        return 1
    r = Run("C02", "replay", 0)
    if m.get("history") is not None:
        print("HISTORY scenario (%s), preceding calls:" % ("reused Parser() object" if m.get("reused_parser") else "module-level parse()"))
        for h in m["history"][-12:]:
            print("    parse(%r) -> %s" % (h["pattern"], h.get("result")))
    c = make_case(r, s, "replay", replay_meta=m)
    if c is None:
        print("string is outside the sub-language now")
        return 1
    drv = Driver()
    rep = drv.ask(c.line())
    drv.close()
    print("smiles: %r" % s)
    print("implementation now: %s" % (sx([Atom("raised"), Atom(c.impl.kind)]) if isinstance(c.impl, ImplError) else sx(c.impl)))
    print("driver reply      : %s" % sx_of(rep)[:2000])
    bad = isinstance(rep, list) and len(rep) >= 4 and rep[0] == "ok" and rep[3] == "0"
    print("spec on implementation output: %s" % ("FAILS" if bad else "holds"))
    return 1 if bad else 0
