import FGVerif.Wire
import FGVerif.Driver.C01
import FGVerif.Driver.C02
import FGVerif.Driver.C03
import FGVerif.Driver.C04
import FGVerif.Driver.C05
import FGVerif.Driver.C06
import FGVerif.Driver.C07
import FGVerif.Driver.C08
import FGVerif.Driver.C09
import FGVerif.Driver.C10
import FGVerif.Driver.C11
import FGVerif.Driver.C12
import FGVerif.Driver.C13
import FGVerif.Driver.C14
import FGVerif.Driver.C15
import FGVerif.Driver.C16
import FGVerif.Driver.C17
import FGVerif.Driver.C18
import FGVerif.Driver.C19
import FGVerif.Driver.C20
/-!
  Line-protocol driver.  One request per line: `(<property> <op> args…)`.
  One reply per line: `(ok <model output> <spec_model 0|1> <spec_impl 0|1|_> …)` or `(err <why>)`.
-/
open SExp

def dispatch (req : SExp) : SExp :=
  match req with
  | .list (.atom prop :: args) =>
    let r : Option SExp :=
      match prop with
      | "C01" => C01.handle args
      | "C02" => C02.handle args
      | "C03" => C03.handle args
      | "C04" => C04.handle args
      | "C05" => C05.handle args
      | "C06" => C06.handle args
      | "C07" => C07.handle args
      | "C08" => C08.handle args
      | "C09" => C09.handle args
      | "C10" => C10.handle args
      | "C11" => C11.handle args
      | "C12" => C12.handle args
      | "C13" => C13.handle args
      | "C14" => C14.handle args
      | "C15" => C15.handle args
      | "C16" => C16.handle args
      | "C17" => C17.handle args
      | "C18" => C18.handle args
      | "C19" => C19.handle args
      | "C20" => C20.handle args
      | _ => some (.list [.atom "err", .atom "unknown-property"])
    match r with
    | some x => x
    | none => .list [.atom "err", .atom "decode"]
  | _ => .list [.atom "err", .atom "malformed"]

partial def loop (h : IO.FS.Stream) (out : IO.FS.Stream) : IO Unit := do
  let line ← h.getLine
  if line.isEmpty then return ()
  let reply :=
    match SExp.parse line with
    | some req => dispatch req
    | none => .list [.atom "err", .atom "parse"]
  out.putStrLn (toString reply)
  out.flush
  loop h out

def main : IO Unit := do
  loop (← IO.getStdin) (← IO.getStdout)
