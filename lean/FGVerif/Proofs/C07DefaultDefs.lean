import FGVerif.Model.C07
import FGVerif.Generated.C07
/-! C07 — definitions shared by the kernel-decided table obligations of the default list -/
namespace C07
open Gen.C07

/-- Boolean table lookup -/
def tabB (t : List (List Bool)) (i j : Nat) : Bool := ((t[i]?).bind (·[j]?)).getD false

/-- rows of the matcher MODEL's table for the configs `cs`: column `j` answers "the pattern of the
    row's config is found in pattern j" -/
def embRows (cs : List FGConfig) : List (List Bool) :=
  cs.map fun a => configs.map fun b => Sub.mapSubgraphToGraph b.pattern a.pattern mapper

def embModel : List (List Bool) := embRows configs

def antiModel : List (List Bool) :=
  configs.map fun a => configs.map fun b => a.antiPatterns.any fun ap => Sub.mapSubgraphToGraph b.pattern ap mapper

/-- the rows are decided in four independent modules (built in parallel) -/
def chunk : Nat := 8

end C07
