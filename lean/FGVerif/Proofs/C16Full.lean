import FGVerif.Proofs.C16Norm
namespace C16

theorem getM_funext (a b : Match) (ha : MatchInj a) (hb : MatchInj b) (hs : SameMap a b) : getM a = getM b :=
  funext (getM_congr a b ha hb hs)

theorem invM_funext (a b : Match) (ha : MatchInj a) (hb : MatchInj b) (hs : SameMap a b) : invM a = invM b :=
  funext (invM_congr a b ha hb hs)

/-- the prescribed graph depends on the mapping as a function only -/
theorem expectedIts_congr (g : MolGraph) (rc : ITSGraph) (a b : Match) (ha : MatchInj a) (hb : MatchInj b)
    (hs : SameMap a b) : expectedIts g rc a = expectedIts g rc b := by
  have h1 : expKept rc a = expKept rc b := by
    funext e; unfold expKept rcLabelAt; rw [getM_funext a b ha hb hs]
  have h2 : expAdded g a = expAdded g b := by
    funext e; unfold expAdded; rw [invM_funext a b ha hb hs]
  unfold expectedIts
  rw [h1, h2]

theorem adjacent_eq_isSome {α : Type} (es : List (E α)) (a b : Int) : adjacent es a b = (lookupE es a b).isSome := by
  unfold adjacent
  induction es with
  | nil => rfl
  | cons e es ih =>
    rw [List.any_cons, lookupE_cons, ih]
    by_cases h : hit e.1 e.2.1 a b = true <;> simp [h]

theorem Reach.congr {α β : Type} {es : List (E α)} {fs : List (E β)}
    (h : ∀ a b, adjacent es a b = adjacent fs a b) {x y : Int} (hr : Reach es x y) : Reach fs x y := by
  induction hr with
  | refl => exact Reach.refl _
  | step _ hadj ih => exact Reach.step ih (by rw [← h]; exact hadj)

theorem Connected.of_equiv {a b : ITSGraph} (he : ItsEquiv a b) (h : Connected a) : Connected b := by
  have hn : a.nodeIds = b.nodeIds := by unfold ITSGraph.nodeIds; rw [he.nodes]
  have hadj : ∀ x y, adjacent a.edges x y = adjacent b.edges x y := by
    intro x y
    rw [adjacent_eq_isSome, adjacent_eq_isSome]
    have := he.labels x y
    unfold ITSGraph.label? at this
    rw [this]
  refine ⟨by rw [← hn]; exact h.1, ?_⟩
  intro x hx y hy
  exact (h.2 x (by rw [hn]; exact hx) y (by rw [hn]; exact hy)).congr hadj

theorem ItsEquiv.symm {a b : ITSGraph} (h : ItsEquiv a b) : ItsEquiv b a :=
  ⟨h.nodes.symm, fun u v => (h.labels u v).symm⟩

theorem ends_overlayEdge (S : List Int) (es : List (E (Int × Int))) (a b d : Int) (ha : a ∈ S) (hb : b ∈ S)
    (h : ∀ e ∈ es, e.1 ∈ S ∧ e.2.1 ∈ S) : ∀ e ∈ overlayEdge es a b d, e.1 ∈ S ∧ e.2.1 ∈ S := by
  unfold overlayEdge
  split
  · intro e he
    obtain ⟨f, hf, rfl⟩ := List.mem_map.mp he
    have := h f hf
    split <;> exact this
  · intro e he
    rcases List.mem_append.mp he with h1 | h1
    · exact h e h1
    · rw [List.mem_singleton] at h1; subst h1; exact ⟨ha, hb⟩

theorem applyMatch_nodesWF (g : MolGraph) (rule : Rule) (m : Match) (hg1 : g.nodeIds.Nodup)
    (hg2 : ∀ e ∈ g.edges, e.1 ∈ g.nodeIds ∧ e.2.1 ∈ g.nodeIds) (hm : ∀ p ∈ m, p.1 ∈ g.nodeIds) :
    NodesWF (applyMatch g rule m) := by
  refine ⟨hg1, ?_⟩
  show ∀ e ∈ (applyMatch g rule m).edges, e.1 ∈ g.nodeIds ∧ e.2.1 ∈ g.nodeIds
  unfold applyMatch
  simp only
  have h0 : ∀ e ∈ firstLoop g rule m, e.1 ∈ g.nodeIds ∧ e.2.1 ∈ g.nodeIds := by
    intro e he
    unfold firstLoop at he
    obtain ⟨f, hf, rfl⟩ := List.mem_map.mp he
    exact hg2 f hf
  generalize firstLoop g rule m = es at h0
  induction rule.r.edges generalizing es with
  | nil => exact h0
  | cons re rs ih =>
    rw [List.foldl_cons]
    apply ih
    unfold overlay
    cases h1 : invM m re.1 with
    | none => exact h0
    | some u =>
      cases h2 : invM m re.2.1 with
      | none => exact h0
      | some v =>
        exact ends_overlayEdge g.nodeIds es u v _ (hm _ (invM_some_mem m u _ h1))
          (hm _ (invM_some_mem m v _ h2)) h0

theorem expectedIts_nodesWF (g : MolGraph) (rc : ITSGraph) (m : Match) (hg1 : g.nodeIds.Nodup)
    (hg2 : ∀ e ∈ g.edges, e.1 ∈ g.nodeIds ∧ e.2.1 ∈ g.nodeIds) (hm : ∀ p ∈ m, p.1 ∈ g.nodeIds) :
    NodesWF (expectedIts g rc m) := by
  refine ⟨hg1, ?_⟩
  show ∀ e ∈ (expectedIts g rc m).edges, e.1 ∈ g.nodeIds ∧ e.2.1 ∈ g.nodeIds
  intro e he
  unfold expectedIts at he
  simp only at he
  rcases List.mem_append.mp he with h | h
  · obtain ⟨f, hf, rfl⟩ := List.mem_map.mp h
    exact hg2 f hf
  · obtain ⟨f, _, i1, i2, _, _, _⟩ := (mem_added g m rc.edges e).mp h
    exact ⟨hm _ (invM_some_mem m _ _ i1), hm _ (invM_some_mem m _ _ i2)⟩

/-- the model's graph is connected exactly when the prescribed one is -/
theorem isConnected_applyMatch_eq (g : MolGraph) (rc : ITSGraph) (m : Match) (hm : MatchInj m) (hrc : RcWF rc)
    (hg1 : g.nodeIds.Nodup) (hg2 : ∀ e ∈ g.edges, e.1 ∈ g.nodeIds ∧ e.2.1 ∈ g.nodeIds)
    (hmk : ∀ p ∈ m, p.1 ∈ g.nodeIds) :
    isConnected (applyMatch g (mkRule rc) m) = isConnected (expectedIts g rc m) := by
  have he := applyMatch_equiv_expectedIts g rc m hm hrc
  have w1 := applyMatch_nodesWF g (mkRule rc) m hg1 hg2 hmk
  have w2 := expectedIts_nodesWF g rc m hg1 hg2 hmk
  rw [Bool.eq_iff_iff, isConnected_iff _ w1, isConnected_iff _ w2]
  exact ⟨Connected.of_equiv he, Connected.of_equiv he.symm⟩


theorem expLabel_congr (g : MolGraph) (rc : ITSGraph) (a b : Match) (ha : MatchInj a) (hb : MatchInj b)
    (hs : SameMap a b) (u v : Int) : expLabel g rc a u v = expLabel g rc b u v := by
  unfold expLabel rcLabelAt
  rw [getM_congr a b ha hb hs u, getM_congr a b ha hb hs v]

theorem IsExpected.of_sameMap {g : MolGraph} {rc : ITSGraph} {a b : Match} {its : ITSGraph}
    (h : IsExpected g rc a its) (ha : MatchInj a) (hb : MatchInj b) (hs : SameMap a b) : IsExpected g rc b its :=
  ⟨h.nodes, fun u v => by rw [h.labels, expLabel_congr g rc a b ha hb hs]⟩

theorem takeOpt_length {α : Type} (n : Option Nat) (l : List α) : (takeOpt n l).length = capLen n l.length := by
  cases n with
  | none => rfl
  | some k => simp [takeOpt, capLen, List.length_take]

theorem takeOpt_map {α β : Type} (f : α → β) (n : Option Nat) (l : List α) :
    takeOpt n (l.map f) = (takeOpt n l).map f := by
  cases n with
  | none => rfl
  | some k => simp [takeOpt, List.map_take]

theorem forall2_map_map {α β γ : Type} (R : β → γ → Prop) (a : α → β) (b : α → γ) (M : List α)
    (h : ∀ m ∈ M, R (a m) (b m)) : Forall2 R (M.map a) (M.map b) := by
  induction M with
  | nil => exact Forall2.nil
  | cons m M ih => exact Forall2.cons (h m (by simp)) (ih fun x hx => h x (List.mem_cons_of_mem _ hx))

theorem dedupHashes_eq (hs seen : List Hash) : dedupHashes hs seen = dedupFirst id seen hs := by
  induction hs generalizing seen with
  | nil => rfl
  | cons h hs ih =>
    rw [dedupHashes, dedupFirst]
    simp only [id]
    split
    · exact ih seen
    · rw [ih]

theorem dedupFirst_mem_iff {α : Type} (key : α → Hash) (xs : List α) (h : Hash) :
    h ∈ (dedupFirst key [] xs).map key ↔ h ∈ xs.map key := by
  constructor
  · intro hm
    exact (List.Sublist.map key (dedupFirst_sublist key [] xs)).subset hm
  · intro hm
    obtain ⟨x, hx, rfl⟩ := List.mem_map.mp hm
    rcases dedupFirst_covers key [] xs x hx with h' | h'
    · simp at h'
    · exact h'

/-- hypotheses on the inputs that every call coming from networkx objects satisfies -/
structure InputsWF (g : MolGraph) (rc : ITSGraph) : Prop where
  mol : MolWF g
  ids : g.nodeIds.Nodup
  ends : ∀ e ∈ g.edges, e.1 ∈ g.nodeIds ∧ e.2.1 ∈ g.nodeIds
  rcwf : RcWF rc
  ruleIds : (mkRule rc).l.nodeIds.Nodup

theorem mono_keys_in (g l : MolGraph) (m : Match) (h : IsMono g l m) : ∀ p ∈ m, p.1 ∈ g.nodeIds := by
  intro p hp
  obtain ⟨s, hs, _⟩ := h.sym p hp
  exact List.mem_map.mpr ⟨(p.1, s), hs, rfl⟩

/-- **the model meets the whole order-free statement** `Spec`, for every reactant graph, rule and
    flags, provided VF2 keeps its contract and the hash does not depend on how the edges of a graph
    are stored -/
theorem applyRule_spec (wl : ITSGraph → Hash) (g : MolGraph) (rc : ITSGraph) (ms : List Match)
    (n : Option Nat) (unique conn : Bool) (hw : InputsWF g rc)
    (hc : MatchesContract g (mkRule rc).l ms) (hwl : ∀ a b, ItsEquiv a b → wl a = wl b) :
    Spec wl g rc n unique conn (applyRule wl g (mkRule rc) ms n unique conn) := by
  have hinj : ∀ m ∈ ms, MatchInj m := fun m hm => (hc.sound m hm).inj
  have hkeys : ∀ m ∈ ms, ∀ p ∈ m, p.1 ∈ g.nodeIds := fun m hm => mono_keys_in g _ m (hc.sound m hm)
  have hnorm := fun m hm => normOf_props g (mkRule rc).l hw.ruleIds m (hc.sound m hm)
  -- the connectivity filter on the model's graph = the filter of the pool on the normal form
  have hA : ∀ m ∈ ms, keep conn (applyMatch g (mkRule rc) m)
      = (!conn || isConnected (expectedIts g rc (normOf (mkRule rc).l m))) := by
    intro m hm
    unfold keep
    rw [isConnected_applyMatch_eq g rc m (hinj m hm) hw.rcwf hw.ids hw.ends (hkeys m hm),
      expectedIts_congr g rc m _ (hinj m hm) (hnorm m hm).2.1 (hnorm m hm).1]
  have hwlm : ∀ m ∈ ms, wl (applyMatch g (mkRule rc) m) = wl (expectedIts g rc (normOf (mkRule rc).l m)) := by
    intro m hm
    rw [← expectedIts_congr g rc m _ (hinj m hm) (hnorm m hm).2.1 (hnorm m hm).1]
    exact hwl _ _ (applyMatch_equiv_expectedIts g rc m (hinj m hm) hw.rcwf)
  have hperm := norms_perm_monos g (mkRule rc).l hw.ids hw.ruleIds ms hc
  have hfilter : ms.filter ((fun x => !conn || isConnected (expectedIts g rc x)) ∘ normOf (mkRule rc).l)
      = ms.filter (keep conn ∘ applyMatch g (mkRule rc)) := by
    apply List.filter_congr
    intro m hm
    simp only [Function.comp]
    exact (hA m hm).symm
  have hpoolLen : (pool g rc conn).length = (ms.filter (keep conn ∘ applyMatch g (mkRule rc))).length := by
    unfold pool
    rw [← (hperm.filter _).length_eq, List.filter_map, List.length_map, hfilter]
  have heach : ∀ r ∈ applyRule wl g (mkRule rc) ms n unique conn,
      ∃ m, IsMono g (mkRule rc).l m ∧ IsExpected g rc m r := by
    intro r hr
    obtain ⟨m, hm, rfl⟩ := results_from_matches wl g (mkRule rc) ms n unique conn r hr
    exact ⟨m, hc.sound m hm, applyMatch_isExpected g rc m (hinj m hm) hw.rcwf⟩
  have hreact : ∀ r ∈ applyRule wl g (mkRule rc) ms n unique conn, MolEquiv (splitIts r).1 g := by
    intro r hr
    rw [reactant_side wl g (mkRule rc) ms hw.mol n unique conn r hr]
    exact ⟨rfl, fun _ _ => rfl⟩
  have hconn : conn = true → ∀ r ∈ applyRule wl g (mkRule rc) ms n unique conn, isConnected r = true := by
    intro h; subst h; exact connected_only_all wl g (mkRule rc) ms n unique
  cases unique with
  | false =>
    have hres : applyRule wl g (mkRule rc) ms n false conn
        = (takeOpt n (ms.filter (keep conn ∘ applyMatch g (mkRule rc)))).map (applyMatch g (mkRule rc)) := by
      rw [applyRule_eq]
      simp only [Bool.false_eq_true, if_false, candidates]
      rw [List.filter_map, takeOpt_map]
    refine ⟨heach, hreact, hconn, fun _ => ?_, fun _ => ?_, fun h => by simp at h, fun h => by simp at h⟩
    · rw [hres]
      have hsub : (takeOpt n (ms.filter (keep conn ∘ applyMatch g (mkRule rc)))).Sublist ms :=
        (takeOpt_sublist n _).trans List.filter_sublist
      refine ⟨(takeOpt n (ms.filter (keep conn ∘ applyMatch g (mkRule rc)))).map (normOf (mkRule rc).l),
        ?_, ?_, ?_⟩
      · apply forall2_map_map
        intro m hm
        have hm' := hsub.subset hm
        exact (applyMatch_isExpected g rc m (hinj m hm') hw.rcwf).of_sameMap (hinj m hm') (hnorm m hm').2.1
          (hnorm m hm').1
      · unfold List.Nodup
        rw [List.pairwise_map]
        refine (List.Pairwise.sublist hsub hc.once).imp_of_mem ?_
        intro a b ha hb hab heq
        exact hab (normOf_injective g _ a b (hc.sound a (hsub.subset ha)) (hc.sound b (hsub.subset hb)) heq)
      · intro x hx
        obtain ⟨m, hm, rfl⟩ := List.mem_map.mp hx
        have hmf := (takeOpt_sublist n _).subset hm
        have hm' := (List.mem_filter.mp hmf).1
        unfold pool
        refine List.mem_filter.mpr ⟨(hnorm m hm').2.2.2, ?_⟩
        rw [← hA m hm']
        exact (List.mem_filter.mp hmf).2
    · rw [hres, List.length_map, takeOpt_length, hpoolLen]
  | true =>
    have hres : applyRule wl g (mkRule rc) ms n true conn
        = takeOpt n (dedupFirst wl [] (candidates g (mkRule rc) ms conn)) := by
      rw [applyRule_eq]; simp
    refine ⟨heach, hreact, hconn, fun h => by simp at h, fun h => by simp at h, fun _ => ?_, fun _ => ?_⟩
    · rw [hres]
      exact List.Sublist.nodup (List.Sublist.map wl (takeOpt_sublist n _)) (dedupFirst_nodup wl [] _)
    · rw [hres, takeOpt_length]
      congr 1
      rw [dedupHashes_eq]
      have e1 : (dedupFirst wl [] (candidates g (mkRule rc) ms conn)).length
          = ((dedupFirst wl [] (candidates g (mkRule rc) ms conn)).map wl).length := by simp
      have e2 : (dedupFirst id [] ((pool g rc conn).map fun m => wl (expectedIts g rc m))).length
          = ((dedupFirst id [] ((pool g rc conn).map fun m => wl (expectedIts g rc m))).map id).length := by simp
      rw [e1, e2]
      apply List.Perm.length_eq
      apply nodup_same_mem_length _ _ (dedupFirst_nodup wl [] _) (dedupFirst_nodup id [] _)
      intro h
      rw [dedupFirst_mem_iff, dedupFirst_mem_iff, List.map_id]
      unfold candidates pool
      simp only [List.mem_map, List.mem_filter]
      constructor
      · rintro ⟨r, ⟨⟨m, hm, rfl⟩, hk⟩, rfl⟩
        refine ⟨normOf (mkRule rc).l m, ⟨(hnorm m hm).2.2.2, ?_⟩, (hwlm m hm).symm⟩
        rw [← hA m hm]; exact hk
      · rintro ⟨x, ⟨hx, hp⟩, rfl⟩
        have : x ∈ ms.map (normOf (mkRule rc).l) := hperm.mem_iff.mpr hx
        obtain ⟨m, hm, rfl⟩ := List.mem_map.mp this
        refine ⟨applyMatch g (mkRule rc) m, ⟨⟨m, hm, rfl⟩, ?_⟩, hwlm m hm⟩
        rw [hA m hm]; exact hp

end C16
