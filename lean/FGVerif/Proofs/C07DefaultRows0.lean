import FGVerif.Proofs.C07DefaultDefs
/-! C07 — kernel-checked correspondence of the matcher model with the code on rows 0…7 of the default table -/
namespace C07
open Gen.C07
theorem default_emb_rows0 : embRows ((configs.drop (0 * chunk)).take chunk) = (embImpl.drop (0 * chunk)).take chunk := by
  decide +kernel
end C07
