import FGVerif.Proofs.C05
import FGVerif.Proofs.C03
import FGVerif.Proofs.C03Oracle
import FGVerif.Proofs.C04
/-!
  C05 ↔ C03/C04 — the matcher hypotheses of `C05.bridge_acyclic` are DISCHARGED here.

  `Proofs/C05.lean` proves the property C05 (`SpecStar`: the statement with TRUE embeddings) for the
  model of `FGQuery.get` *relative to* two hypotheses about the matcher, `MatcherComplete` (C03) and
  `MatcherSound` (C04 on forests), packaged in `ExactOn`.  `Proofs/C03.lean` / `Proofs/C04.lean` prove
  those facts about the very same matcher model (`Sub.mapAnchored`), but with the embedding notions
  of `Model/C03Spec.lean`.  This file connects the two developments:

  1. adapters between the embedding notions
       `admits_eq_c03`, `hasEdge_iff_mem_neighbors`, `isEmbedding_iff_c03`      (functions)
       `isEmbedding_of_pairs`, `pairs_of_isEmbedding`                            (pair lists)
       `existsEmbAt_iff`, `existsEmbAt_iff_anchored`, `existsEmbAt_iff_mapAnchored_forest`
                                                                                 (C05's executable oracle)
  2. `C05.matcherComplete_model`     `MatcherComplete (model matcher)` for every host and every well-formed
                                     pattern (from `C03.anchored_complete_on`) — cyclic or not
  3. `C05.matcherSoundAt_model_forest`  on well-formed forest hosts and connected forest patterns a reported
                                     match at a host NODE is the graph of a true embedding, listed without
                                     repetition (from `C04.anchored_sound_partial/_connected` plus
                                     `fit_mapping_nodup`, new here)
     `C05.matcherSound_model_forest` the literal `MatcherSound` of `Proofs/C05.lean` (which also quantifies over
                                     anchors that are NOT nodes of the host) under the extra decidable
                                     hypothesis `NoGhostAnchor`; `matcherSound_ghost_witness` shows that the
                                     extra hypothesis cannot be dropped.  On cyclic graphs both are false (K2/K3).
  4. `C05.spec_acyclic` / `C05.spec_acyclic_dec`   the capstone: C05 verbatim (true embeddings) for the MODEL
                                     output of `getFunctionalGroups` on the acyclic sub-domain, with
                                     `MatcherComplete`/`MatcherSound` discharged
     `C05.spec_mixed_dec`            the same when some patterns are NOT forests (e.g. `epoxid` in the default
                                     hierarchy): for those the exactness of the matcher on the given molecule
                                     is decided by evaluation (`exactOnHostB`)
  5. non-vacuity examples on acetic acid / methyl acetate with the GENERATED default hierarchy.

  Remaining hypotheses of the capstone are listed at `spec_acyclic`.
-/
namespace C05
open Perm Sub

/-! ## 1. Adapters between the embedding notions of C05 and C03/C04 -/

/-- both developments read the symbol of a node in the same way -/
theorem symOf_eq_sym (g : Graph) (n : Int) : symOf g n = C03.sym g n := rfl

/-- C05's symbol admission is the closed form `admit1` of C03 -/
theorem admits_eq_admit1 (m : Mapper) (ps hs : String) : admits m ps hs = C03.admit1 m ps hs := by
  simp only [admits, C03.admit1, C03.lowerOf]
  congr 1
  rw [Bool.eq_iff_iff]
  simp only [beq_iff_eq]
  exact eq_comm

/-- C05's symbol admission is the question the matcher asks the mapper (`permute([ps],[hs]) == [[(0,0)]]`),
    for mappers that cannot map to nothing -/
theorem admits_eq_c03 (m : Mapper) (hcm : m.canMapToNothing = []) (ps hs : String) :
    admits m ps hs = C03.admits m ps hs := by
  rw [admits_eq_admit1, C03.admits_eq_admit1 m hcm]

/-- `has_edge(u, v)` is membership in the neighbour list (both read the adjacency row of `u`) -/
theorem hasEdge_iff_mem_neighbors {g : Graph} {u v : Int} : g.hasEdge u v = true ↔ v ∈ g.neighbors u := by
  simp only [Graph.hasEdge, Graph.neighbors, List.any_eq_true, List.mem_map, beq_iff_eq]

/-- a true embedding in the sense of `Proofs/C05.lean` is one in the sense of `Model/C03Spec.lean` -/
theorem isEmbedding_to_c03 {m : Mapper} {P H : Graph} {f : Int → Int} (hcm : m.canMapToNothing = [])
    (hP : C03.NbrsAreNodes P) (hf : IsEmbedding m P H f) : C03.IsEmbedding m P H f := by
  refine ⟨fun p q hp hq h => hf.inj p hp q hq h, fun p hp => hf.nodes p hp, fun p hp => ?_, fun p q hp hq => ?_⟩
  · rw [← admits_eq_c03 m hcm]; exact hf.syms p hp
  · have := hf.bonds p hp q (hP p q hq) (hasEdge_iff_mem_neighbors.mpr hq)
    exact ⟨hasEdge_iff_mem_neighbors.mp this.1, this.2⟩

/-- and conversely -/
theorem isEmbedding_of_c03 {m : Mapper} {P H : Graph} {f : Int → Int} (hcm : m.canMapToNothing = [])
    (hf : C03.IsEmbedding m P H f) : IsEmbedding m P H f := by
  refine ⟨fun p hp => hf.range p hp, fun p hp => ?_, fun p hp q hq h => hf.inj p q hp hq h, fun p hp q _ he => ?_⟩
  · rw [admits_eq_c03 m hcm]; exact hf.admitted p hp
  · have := hf.bond p q hp (hasEdge_iff_mem_neighbors.mp he)
    exact ⟨hasEdge_iff_mem_neighbors.mpr this.1, this.2⟩

theorem isEmbedding_iff_c03 {m : Mapper} {P H : Graph} {f : Int → Int} (hcm : m.canMapToNothing = [])
    (hP : C03.NbrsAreNodes P) : IsEmbedding m P H f ↔ C03.IsEmbedding m P H f :=
  ⟨isEmbedding_to_c03 hcm hP, isEmbedding_of_c03 hcm⟩

theorem nbrsAreNodes_of_wf {P : Graph} (hP : C03.WF P) : C03.NbrsAreNodes P :=
  fun u v h => (hP.nbrNode u v h).2

/-- connected: every node is reachable from every node -/
def Connected (P : Graph) : Prop := ∀ p ∈ P.nodeIds, ∀ q ∈ P.nodeIds, C03.Reach P [] p q

def connectedB (P : Graph) : Bool :=
  P.nodeIds.all fun p => P.nodeIds.all fun q => (C03.reachList P [] p).contains q

theorem connectedB_sound {P : Graph} (h : connectedB P = true) : Connected P := by
  intro p hp q hq
  simp only [connectedB, List.all_eq_true, List.contains_eq_mem, decide_eq_true_eq] at h
  exact C03.reachList_sound P [] p (by simp) q (h p hp q hq)

/-- a pair list in the sense of C04 (`IsEmbeddingPairs`, what `anchored_sound_partial` concludes) in which
    every pattern node occurs is the graph of a true embedding in the sense of C05 -/
theorem isEmbedding_of_pairs_total {m : Mapper} {P H : Graph} {pa a : Int} {M : List (Int × Int)}
    (hcm : m.canMapToNothing = []) (htot : ∀ q ∈ P.nodeIds, ∃ x ∈ M, x.2 = q)
    (h : C03.IsEmbeddingPairs m P H pa a M) :
    ∃ f, IsEmbedding m P H f ∧ f pa = a ∧ (∀ q ∈ P.nodeIds, (f q, q) ∈ M) ∧
      ∀ x ∈ M, x.2 ∈ P.nodeIds ∧ x.1 = f x.2 := by
  have hpair : ∀ q ∈ P.nodeIds, ∃ x ∈ M, x.2 = q ∧ C03.funOf M q = x.1 := by
    intro q hq
    obtain ⟨x, hx, rfl⟩ := htot q hq
    exact ⟨x, hx, rfl, C03.funOf_eq h x hx⟩
  refine ⟨C03.funOf M, ⟨?_, ?_, ?_, ?_⟩, C03.funOf_eq h (a, pa) h.anchor, ?_, ?_⟩
  · intro p hp
    obtain ⟨x, hx, rfl, hfx⟩ := hpair p hp
    rw [hfx]; exact (h.nodes x hx).1
  · intro p hp
    obtain ⟨x, hx, rfl, hfx⟩ := hpair p hp
    rw [hfx, admits_eq_c03 m hcm]; exact h.admitted x hx
  · intro p hp q hq hpq
    obtain ⟨x, hx, rfl, hfx⟩ := hpair p hp
    obtain ⟨y, hy, rfl, hfy⟩ := hpair q hq
    rw [hfx, hfy] at hpq
    exact h.injective x hx y hy hpq
  · intro p hp q _ he
    obtain ⟨x, hx, rfl, hfx⟩ := hpair p hp
    obtain ⟨y, hy, hy1, hy2, hy3⟩ := h.bond x hx q (hasEdge_iff_mem_neighbors.mp he)
    have hfy : C03.funOf M q = y.1 := by rw [← hy1]; exact C03.funOf_eq h y hy
    rw [hfx, hfy]
    exact ⟨hasEdge_iff_mem_neighbors.mpr hy2, hy3⟩
  · intro q hq
    obtain ⟨x, hx, rfl, hfx⟩ := hpair q hq
    rw [hfx]; exact hx
  · intro x hx
    exact ⟨(h.nodes x hx).2, (C03.funOf_eq h x hx).symm⟩

/-- the same for a pattern that is connected from the anchor (totality is then part of `IsEmbeddingPairs`) -/
theorem isEmbedding_of_pairs {m : Mapper} {P H : Graph} {pa a : Int} {M : List (Int × Int)}
    (hcm : m.canMapToNothing = []) (hconn : ∀ q ∈ P.nodeIds, C03.Reach P [] pa q)
    (h : C03.IsEmbeddingPairs m P H pa a M) :
    ∃ f, IsEmbedding m P H f ∧ f pa = a ∧ (∀ q ∈ P.nodeIds, (f q, q) ∈ M) ∧
      ∀ x ∈ M, x.2 ∈ P.nodeIds ∧ x.1 = f x.2 :=
  isEmbedding_of_pairs_total hcm
    (fun q hq => C03.embeddingPairs_total h (hconn q hq) ⟨(a, pa), h.anchor, rfl⟩) h

/-- conversely the graph of a true embedding (C05) is a pair list in the sense of C04 -/
theorem pairs_of_isEmbedding {m : Mapper} {P H : Graph} {f : Int → Int} {pa : Int} (hcm : m.canMapToNothing = [])
    (hP : C03.NbrsAreNodes P) (hpa : pa ∈ P.nodeIds) (hf : IsEmbedding m P H f) :
    C03.IsEmbeddingPairs m P H pa (f pa) (P.nodeIds.map fun p => (f p, p)) := by
  have hc := isEmbedding_to_c03 hcm hP hf
  refine ⟨List.mem_map.mpr ⟨pa, hpa, rfl⟩, ?_, ?_, ?_, ?_, ?_⟩
  · intro x hx
    obtain ⟨p, hp, rfl⟩ := List.mem_map.mp hx
    exact ⟨hf.nodes p hp, hp⟩
  · intro x hx
    obtain ⟨p, hp, rfl⟩ := List.mem_map.mp hx
    exact hc.admitted p hp
  · intro x hx y hy hxy
    obtain ⟨p, _, rfl⟩ := List.mem_map.mp hx
    obtain ⟨q, _, rfl⟩ := List.mem_map.mp hy
    simp only at hxy ⊢
    rw [hxy]
  · intro x hx y hy hxy
    obtain ⟨p, hp, rfl⟩ := List.mem_map.mp hx
    obtain ⟨q, hq, rfl⟩ := List.mem_map.mp hy
    exact hf.inj p hp q hq hxy
  · intro x hx q hq
    obtain ⟨p, hp, rfl⟩ := List.mem_map.mp hx
    have := hc.bond p q hp hq
    exact ⟨(f q, q), List.mem_map.mpr ⟨q, hP p q hq, rfl⟩, rfl, this.1, this.2⟩

/-- what C05's executable oracle decides, as a statement about functions -/
theorem existsEmbAt_iff (m : Mapper) (P H : Graph) (p0 a : Int) :
    existsEmbAt m P H p0 a (fun _ => true) = true ↔ ∃ f, IsEmbedding m P H f ∧ f p0 = a ∧ p0 ∈ P.nodeIds := by
  constructor
  · intro h
    obtain ⟨fl, hok, _, hl, hp0⟩ := existsEmbAt_sound m P H h
    exact ⟨toFun fl, embOK_sound m P H hok, by simp [toFun, hl], hp0⟩
  · rintro ⟨f, hf, rfl, hp0⟩
    exact existsEmbAt_complete m P H hf hp0

/-- C05's oracle (`existsEmbAt`) and C03's notion of anchored embedding agree on connected well-formed
    patterns -/
theorem existsEmbAt_iff_anchored (m : Mapper) (P H : Graph) (p0 a : Int) (hcm : m.canMapToNothing = [])
    (hP : C03.WF P) (hp0 : p0 ∈ P.nodeIds) (hconn : ∀ q ∈ P.nodeIds, C03.Reach P [] p0 q) :
    existsEmbAt m P H p0 a (fun _ => true) = true ↔ ∃ f, C03.IsAnchoredEmbedding m P H p0 a f := by
  rw [existsEmbAt_iff]
  constructor
  · rintro ⟨f, hf, hfa, _⟩
    have hc := isEmbedding_to_c03 hcm (nbrsAreNodes_of_wf hP) hf
    have hn : ∀ q, C03.Reach P [] p0 q → q ∈ P.nodeIds := fun q hq => hq.mem_nodes (nbrsAreNodes_of_wf hP) hp0
    exact ⟨f, ⟨fun p q hp hq => hc.inj p q (hn p hp) (hn q hq), fun p hp => hc.range p (hn p hp),
      fun p hp => hc.admitted p (hn p hp), fun p q hp hq => hc.bond p q (hn p hp) hq⟩, hfa⟩
  · rintro ⟨f, ⟨hi, hr, hadm, hb⟩, hfa⟩
    refine ⟨f, isEmbedding_of_c03 hcm ?_, hfa, hp0⟩
    exact ⟨fun p q hp hq => hi p q (hconn p hp) (hconn q hq), fun p hp => hr p (hconn p hp),
      fun p hp => hadm p (hconn p hp), fun p q hp hq => hb p q (hconn p hp) hq⟩

/-- **on the acyclic sub-domain the flag of the matcher IS C05's true-embedding oracle** (C03 + C04) -/
theorem existsEmbAt_iff_mapAnchored_forest (m : Mapper) (P H : Graph) (p0 a : Int) (hcm : m.canMapToNothing = [])
    (hH : C03.WF H) (hP : C03.WF P) (hHf : C03.IsForest H) (hPf : C03.IsForest P)
    (ha : a ∈ H.nodeIds) (hp0 : p0 ∈ P.nodeIds) (hconn : ∀ q ∈ P.nodeIds, C03.Reach P [] p0 q) :
    existsEmbAt m P H p0 a (fun _ => true) = (mapAnchored H a P p0 m).ok := by
  rw [Bool.eq_iff_iff, existsEmbAt_iff_anchored m P H p0 a hcm hP hp0 hconn,
    C04.anchored_exact_acyclic m P H p0 a hcm hH hP hHf hPf ha hp0]

/-! ## 2. `MatcherComplete` for the model matcher (C03) -/

/-- **C05.matcherComplete_model** — the model matcher never misses a true embedding: for every host `H`
    (cyclic or not, no well-formedness needed) and every well-formed pattern `P`, every mapper with
    `canMapToNothing = []` (a functional-group query never sets it).  From `C03.anchored_complete_on`
    (the general form of `C03.anchored_complete`) through `isEmbedding_to_c03`. -/
theorem matcherComplete_model (m : Mapper) (H P : Graph) (hcm : m.canMapToNothing = []) (hP : C03.WF P) :
    MatcherComplete m H P := by
  intro f p0 hf hp0
  exact C03.anchored_complete_on m P H (· ∈ P.nodeIds) f p0 hcm
    (isEmbedding_to_c03 hcm (nbrsAreNodes_of_wf hP) hf) (fun _ h => h)
    (fun q q' _ h => (hP.nbrNode q q' h).2) hP.nbrNodup hp0

/-- the same through the statement of C03 as published (`C03.anchored_complete`, host well-formed) -/
theorem matcherComplete_model_wf (m : Mapper) (H P : Graph) (hcm : m.canMapToNothing = [])
    (hH : C03.WF H) (hP : C03.WF P) : MatcherComplete m H P := by
  intro f p0 hf hp0
  exact C03.anchored_complete m P H f p0 hH hP hcm (isEmbedding_to_c03 hcm (nbrsAreNodes_of_wf hP) hf) hp0

/-! ## 3. `MatcherSound` for the model matcher on forests (C04_partial)

  `MatcherSound` asks for more than C04 states: the reported mapping has to be a PERMUTATION of the graph of
  the embedding (the query code counts/sorts the listed ids).  `C04.anchored_sound_partial` gives the set of
  pairs; that no pair is listed twice is proved here (`fit_mapping_nodup`). -/

/-- the mappings of the recursive calls of one assignment, concatenated in the order of the loop -/
def subMappings (rec : Int → Int → FitResult) (pairs : List (Int × Option Int)) : List (Int × Int) :=
  pairs.flatMap fun pr =>
    match pr.2 with
    | none => []
    | some n => (rec n pr.1).mapping

theorem mem_subMappings {rec : Int → Int → FitResult} {pairs : List (Int × Option Int)} {x : Int × Int} :
    x ∈ subMappings rec pairs ↔ ∃ q n, (q, some n) ∈ pairs ∧ x ∈ (rec n q).mapping := by
  simp only [subMappings, List.mem_flatMap]
  constructor
  · rintro ⟨⟨q, o⟩, hpr, hx⟩
    cases o with
    | none => simp at hx
    | some n => exact ⟨q, n, hpr, hx⟩
  · rintro ⟨q, n, hpr, hx⟩
    exact ⟨(q, some n), hpr, hx⟩

/-- list form of the loop `for pnn_i, nn_i in n_mapping`: on success the accumulated mapping is extended
    by the mappings of the recursive calls, in order, and every recursive call succeeded -/
theorem tryPairs_mapping (g p : Graph) (idx pidx : Int) (rec : Int → Int → FitResult) :
    ∀ (pairs : List (Int × Option Int)) (acc res : List (Int × Int) × List Int × List Int),
      tryPairs g p idx pidx rec pairs acc = some res →
      res.1 = acc.1 ++ subMappings rec pairs ∧ ∀ q n, (q, some n) ∈ pairs → (rec n q).ok = true := by
  intro pairs
  induction pairs with
  | nil =>
    intro acc res h
    simp only [tryPairs, Option.some.injEq] at h
    subst h
    simp [subMappings]
  | cons pr rest ih =>
    intro acc res h
    obtain ⟨q, o⟩ := pr
    obtain ⟨mp, vn, vpn⟩ := acc
    cases o with
    | none =>
      simp only [tryPairs] at h
      obtain ⟨h1, h2⟩ := ih _ _ h
      refine ⟨by simpa [subMappings] using h1, ?_⟩
      intro q' n hm
      rcases List.mem_cons.mp hm with hm | hm
      · cases hm
      · exact h2 q' n hm
    | some nn =>
      simp only [tryPairs] at h
      split at h
      · split at h
        · rename_i hr
          obtain ⟨h1, h2⟩ := ih _ _ h
          refine ⟨?_, ?_⟩
          · rw [h1]
            simp [subMappings, List.append_assoc]
          · intro q' n hm
            rcases List.mem_cons.mp hm with hm | hm
            · cases hm; exact hr
            · exact h2 q' n hm
        · cases h
      · cases h

theorem pairwise_zip_fst {α β} : ∀ (l₁ : List α) (l₂ : List β), l₁.Nodup →
    (l₁.zip l₂).Pairwise (fun x y => x.1 ≠ y.1)
  | [], _, _ => by simp
  | _ :: _, [], _ => by simp
  | x :: xs, y :: ys, h => by
    rw [List.nodup_cons] at h
    rw [List.zip_cons_cons, List.pairwise_cons]
    refine ⟨?_, pairwise_zip_fst xs ys h.2⟩
    intro z hz heq
    have hz1 : z.1 ∈ xs := (List.of_mem_zip (a := z.1) (b := z.2) hz).1
    have hxz : x = z.1 := heq
    exact h.1 (hxz ▸ hz1)

/-- one level of a successful `fit`, list form: the mapping is the pair `(idx, pidx)` followed by the
    mappings of the recursive calls on the chosen `(pattern neighbour, host neighbour)` pairs, which use
    distinct unvisited pattern neighbours and unvisited host neighbours -/
theorem fit_mapping_eq (m : Mapper) (P H : Graph) (fuel : Nat) (idx pidx : Int) (vis pvis : List Int)
    (hPnd : (P.neighbors pidx).Nodup)
    (h : (fit H P m (fuel + 1) idx pidx vis pvis).ok = true) :
    ∃ pairs : List (Int × Option Int),
      (fit H P m (fuel + 1) idx pidx vis pvis).mapping =
        (idx, pidx) :: subMappings (fun i pi => fit H P m fuel i pi (addSet idx vis) (addSet pidx pvis)) pairs ∧
      pairs.Pairwise (fun x y => x.1 ≠ y.1) ∧
      ∀ q n, (q, some n) ∈ pairs →
        q ∈ C03.freeNbrs P pidx (addSet pidx pvis) ∧ n ∈ C03.freeNbrs H idx (addSet idx vis) ∧
        (fit H P m fuel n q (addSet idx vis) (addSet pidx pvis)).ok = true := by
  rw [C03.fit_succ] at h ⊢
  split at h
  · rename_i hemp
    refine ⟨[], ?_, List.Pairwise.nil, by simp⟩
    simp [hemp, subMappings]
  · rename_i hne
    rw [if_neg hne]
    split at h
    · rename_i mp vn vpn hfind
      obtain ⟨a, _, hatt⟩ := List.exists_of_findSome?_eq_some hfind
      unfold C03.attempt at hatt
      obtain ⟨h1, h2⟩ := tryPairs_mapping H P idx pidx _ _ _ _ hatt
      refine ⟨(List.map (fun x => x.fst) (nbrs P pidx (addSet pidx pvis))).zip
        (List.map (fun si => if si < 0 then none else
          Option.map (fun x => x.fst) (nbrs H idx (addSet idx vis))[si.toNat]?) a), ?_, ?_, ?_⟩
      · have h1' : mp = subMappings (fun i pi => fit H P m fuel i pi (addSet idx vis) (addSet pidx pvis)) _ := h1
        show (idx, pidx) :: mp = _
        rw [h1']
      · rw [C03.nbrs_fst]
        exact pairwise_zip_fst _ _ (hPnd.filter _)
      · intro q n hm
        have hz := List.of_mem_zip hm
        refine ⟨?_, ?_, h2 q n hm⟩
        · rw [← C03.nbrs_fst]; exact hz.1
        · obtain ⟨si, _, hsi⟩ := List.mem_map.mp hz.2
          split at hsi
          · cases hsi
          · rw [← C03.nbrs_fst, ← List.getElem?_map] at *
            exact List.mem_of_getElem? hsi
    · simp at h

/-- **on forests the reported mapping lists no pair twice** (loop invariant of `_fit`): the sub-mappings
    of different chosen pattern neighbours live in different branches of the pattern below `pidx` -/
theorem fit_mapping_nodup (m : Mapper) (P H : Graph) (hcm : m.canMapToNothing = [])
    (hH : C03.WF H) (hP : C03.WF P) (hHf : C03.IsForest H) (hPf : C03.IsForest P) :
    ∀ (fuel : Nat) (idx pidx : Int) (vis pvis : List Int),
      (fit H P m fuel idx pidx vis pvis).ok = true → idx ∉ vis → pidx ∉ pvis →
      (fit H P m fuel idx pidx vis pvis).mapping.Nodup := by
  intro fuel
  induction fuel with
  | zero => intro idx pidx vis pvis h; simp [fit] at h
  | succ k ih =>
    intro idx pidx vis pvis hok hidx hpidx
    obtain ⟨pairs, hmap, hpw, hpairs⟩ := fit_mapping_eq m P H k idx pidx vis pvis (hP.nbrNodup pidx) hok
    rw [hmap]
    -- facts about a chosen pair and the pairs of its sub-mapping
    have hfree : ∀ q n, (q, some n) ∈ pairs →
        q ∈ P.neighbors pidx ∧ q ∉ addSet pidx pvis ∧ n ∉ addSet idx vis := by
      intro q n hm
      obtain ⟨h1, h2, _⟩ := hpairs q n hm
      rw [C03.mem_freeNbrs] at h1 h2
      exact ⟨h1.1, h1.2, h2.2⟩
    have hreach : ∀ q n, (q, some n) ∈ pairs →
        ∀ x ∈ (fit H P m k n q (addSet idx vis) (addSet pidx pvis)).mapping,
          C03.Reach P (addSet pidx pvis) q x.2 := by
      intro q n hm x hx
      exact ((C04.fit_forest m P H hcm hH hP hHf hPf k n q _ _ (hpairs q n hm).2.2
        (hfree q n hm).2.2 (hfree q n hm).2.1).1 x hx).1
    have hmono : ∀ {a b}, C03.Reach P (addSet pidx pvis) a b → C03.Reach P [pidx] a b :=
      fun h => h.mono (fun x hx => by rw [C03.mem_addSet]; exact Or.inl (by simpa using hx))
    rw [List.nodup_cons]
    refine ⟨?_, ?_⟩
    · intro hin
      obtain ⟨q, n, hm, hx⟩ := mem_subMappings.mp hin
      have := (hreach q n hm _ hx).tail_not_avoid
      exact this ((C03.mem_addSet _ _ _).mpr (Or.inl rfl))
    · -- the concatenation: each part without repetition (induction hypothesis), parts disjoint (forest)
      have key : ∀ (l : List (Int × Option Int)), (∀ x ∈ l, x ∈ pairs) → l.Pairwise (fun x y => x.1 ≠ y.1) →
          (subMappings (fun i pi => fit H P m k i pi (addSet idx vis) (addSet pidx pvis)) l).Nodup := by
        intro l
        induction l with
        | nil => intro _ _; simp [subMappings]
        | cons pr rest ihl =>
          intro hsub hpw'
          obtain ⟨q, o⟩ := pr
          rw [List.pairwise_cons] at hpw'
          have hrest := ihl (fun x hx => hsub x (List.mem_cons_of_mem _ hx)) hpw'.2
          cases o with
          | none => simpa [subMappings] using hrest
          | some n =>
            have hm : (q, some n) ∈ pairs := hsub _ List.mem_cons_self
            have : subMappings (fun i pi => fit H P m k i pi (addSet idx vis) (addSet pidx pvis)) ((q, some n) :: rest) =
                (fit H P m k n q (addSet idx vis) (addSet pidx pvis)).mapping ++
                  subMappings (fun i pi => fit H P m k i pi (addSet idx vis) (addSet pidx pvis)) rest := by
              simp [subMappings]
            rw [this, List.nodup_append]
            refine ⟨ih n q _ _ (hpairs q n hm).2.2 (hfree q n hm).2.2 (hfree q n hm).2.1, hrest, ?_⟩
            intro x hx y hy hxy
            subst hxy
            obtain ⟨q', n', hm', hx'⟩ := mem_subMappings.mp hy
            have hne : q ≠ q' := hpw'.1 (q', some n') hm'
            have hm'' : (q', some n') ∈ pairs := hsub _ (List.mem_cons_of_mem _ hm')
            exact hPf pidx q q' x.2 (hfree q n hm).1 (hfree q' n' hm'').1 hne
              (hmono (hreach q n hm x hx)) (hmono (hreach q' n' hm'' x hx'))
      exact key pairs (fun _ h => h) hpw

theorem mapAnchored_mapping_nodup (m : Mapper) (P H : Graph) (pa a : Int) (hcm : m.canMapToNothing = [])
    (hH : C03.WF H) (hP : C03.WF P) (hHf : C03.IsForest H) (hPf : C03.IsForest P)
    (h : (mapAnchored H a P pa m).ok = true) : (mapAnchored H a P pa m).mapping.Nodup := by
  obtain ⟨_, heq⟩ := C04.mapAnchored_ok m P H pa a h
  rw [heq] at h ⊢
  exact fit_mapping_nodup m P H hcm hH hP hHf hPf _ a pa [] [] h (by simp) (by simp)

/-- `MatcherSound` at one anchor `a` of the host (`MatcherSound m H P ↔ ∀ a, MatcherSoundAt m H P a`) -/
def MatcherSoundAt (m : Mapper) (H P : Graph) (a : Int) : Prop :=
  ∀ p0 : Int, p0 ∈ P.nodeIds → (mapAnchored H a P p0 m).ok = true →
    ∃ f, IsEmbedding m P H f ∧ f p0 = a ∧
      (mapAnchored H a P p0 m).mapping.Perm (P.nodeIds.map fun p => (f p, p))

theorem matcherSound_iff_at (m : Mapper) (H P : Graph) : MatcherSound m H P ↔ ∀ a, MatcherSoundAt m H P a :=
  ⟨fun h a p0 hp0 hok => h a p0 hp0 hok, fun h a p0 hp0 hok => h a p0 hp0 hok⟩

/-- a duplicate-free pair list that consists of the pairs `(f q, q)` for all pattern nodes `q` is a
    permutation of the graph of `f` in the order of the pattern's node list -/
theorem perm_graph_of_pairs {P : Graph} {M : List (Int × Int)} {f : Int → Int} (hndM : M.Nodup)
    (hndP : P.nodeIds.Nodup) (hall : ∀ q ∈ P.nodeIds, (f q, q) ∈ M)
    (hsub : ∀ x ∈ M, x.2 ∈ P.nodeIds ∧ x.1 = f x.2) : M.Perm (P.nodeIds.map fun p => (f p, p)) := by
  have hnd' : (P.nodeIds.map fun p => (f p, p)).Nodup := by
    rw [List.Nodup, List.pairwise_map]
    exact List.Pairwise.imp (fun hne heq => hne (Prod.mk.inj heq).2) hndP
  rw [List.perm_ext_iff_of_nodup hndM hnd']
  intro x
  constructor
  · intro hx
    obtain ⟨h1, h2⟩ := hsub x hx
    exact List.mem_map.mpr ⟨x.2, h1, by rw [← h2]⟩
  · intro hx
    obtain ⟨p, hp, rfl⟩ := List.mem_map.mp hx
    exact hall p hp

/-- **C05.matcherSoundAt_model_forest** — C04 in the form C05 needs it: host and pattern well-formed
    forests, pattern connected, anchor a NODE of the host.  A reported match is then a permutation of the
    graph of a true embedding of the whole pattern.  (False on cyclic graphs: K2.) -/
theorem matcherSoundAt_model_forest (m : Mapper) (H P : Graph) (hcm : m.canMapToNothing = [])
    (hH : C03.WF H) (hP : C03.WF P) (hHf : C03.IsForest H) (hPf : C03.IsForest P) (hconn : Connected P)
    {a : Int} (ha : a ∈ H.nodeIds) : MatcherSoundAt m H P a := by
  intro p0 hp0 hok
  have hpairs := C04.anchored_sound_partial m P H p0 a hcm hH hP hHf hPf ha hp0 hok
  obtain ⟨f, hf, hfa, hall, hsub⟩ := isEmbedding_of_pairs hcm (hconn p0 hp0) hpairs
  exact ⟨f, hf, hfa, perm_graph_of_pairs (mapAnchored_mapping_nodup m P H p0 a hcm hH hP hHf hPf hok)
    hP.nodup hall hsub⟩

/-! ### the literal `MatcherSound` (anchors that are not host nodes included) -/

/-- no pattern atom can be matched by an anchor that is NOT a node of the host: it has a neighbour, or its
    symbol is not satisfied by the empty symbol (which is what the model reads at a non-node; Python
    raises `KeyError` there).  Decidable (`noGhostAnchorB`). -/
def NoGhostAnchor (m : Mapper) (P : Graph) : Prop :=
  ∀ p ∈ P.nodeIds, P.neighbors p ≠ [] ∨ admits m (symOf P p) "" = false

def noGhostAnchorB (m : Mapper) (P : Graph) : Bool :=
  P.nodeIds.all fun p => !(P.neighbors p).isEmpty || !admits m (symOf P p) ""

theorem noGhostAnchorB_sound {m : Mapper} {P : Graph} (h : noGhostAnchorB m P = true) : NoGhostAnchor m P := by
  intro p hp
  have := List.all_eq_true.mp h p hp
  simp only [Bool.or_eq_true, Bool.not_eq_true', List.isEmpty_eq_false_iff] at this
  exact this

theorem sym_of_not_node {H : Graph} {a : Int} (ha : a ∉ H.nodeIds) : C03.sym H a = "" := by
  have : H.nodes.find? (·.1 == a) = none := by
    rw [List.find?_eq_none]
    intro x hx hxa
    exact ha (List.mem_map.mpr ⟨x, hx, by simpa using hxa⟩)
  simp [C03.sym, Graph.symbol?, Graph.attr?, this]

/-- under `NoGhostAnchor` a successful anchored match is anchored at a node of the host -/
theorem anchor_is_node (m : Mapper) (H P : Graph) (hcm : m.canMapToNothing = []) (hH : C03.WF H) (hP : C03.WF P)
    (hg : NoGhostAnchor m P) {a p0 : Int} (hp0 : p0 ∈ P.nodeIds) (hok : (mapAnchored H a P p0 m).ok = true) :
    a ∈ H.nodeIds := by
  apply Classical.byContradiction
  intro ha
  obtain ⟨hadm, heq⟩ := C04.mapAnchored_ok m P H p0 a hok
  rw [sym_of_not_node ha, ← admits_eq_c03 m hcm] at hadm
  rcases hg p0 hp0 with hnb | hno
  · rw [heq] at hok
    obtain ⟨l, hl1, hl2, _, _, _⟩ := C04.fit_ok_cases m P H hcm _ a p0 [] [] hok
    have hHn : H.neighbors a = [] := by
      cases hn : H.neighbors a with
      | nil => rfl
      | cons v vs => exact absurd (hH.nbrNode a v (by rw [hn]; exact List.mem_cons_self)).1 ha
    have hl : l = [] := by
      cases l with
      | nil => rfl
      | cons e es =>
        have := hl2 e List.mem_cons_self
        rw [C03.mem_freeNbrs, hHn] at this
        simp at this
    rw [hl] at hl1
    cases hn : P.neighbors p0 with
    | nil => exact hnb hn
    | cons q qs =>
      have hq : q ∈ P.neighbors p0 := by rw [hn]; exact List.mem_cons_self
      have hqne : q ≠ p0 := fun h => hP.noLoop p0 (h ▸ hq)
      have : q ∈ C03.freeNbrs P p0 (addSet p0 []) := by
        rw [C03.mem_freeNbrs, C03.mem_addSet]
        exact ⟨hq, by simp [hqne]⟩
      rw [← hl1] at this
      simp at this
  · rw [symOf_eq_sym, hadm] at hno
    cases hno

/-- **C05.matcherSound_model_forest** — the hypothesis `MatcherSound` of `C05.bridge_sound` /
    `bridge_complete` / `ExactOn`, literally, for the model matcher on well-formed forest hosts and
    connected forest patterns (from `C04.anchored_sound_partial`).  `NoGhostAnchor` is needed because
    `MatcherSound` quantifies over ALL integers `a`, also those that are not nodes of the host
    (`matcherSound_ghost_witness`); the capstone below avoids it by using `MatcherSoundAt` at nodes only. -/
theorem matcherSound_model_forest (m : Mapper) (H P : Graph) (hcm : m.canMapToNothing = [])
    (hH : C03.WF H) (hP : C03.WF P) (hHf : C03.IsForest H) (hPf : C03.IsForest P) (hconn : Connected P)
    (hg : NoGhostAnchor m P) : MatcherSound m H P := by
  intro a p0 hp0 hok
  exact matcherSoundAt_model_forest m H P hcm hH hP hHf hPf hconn
    (anchor_is_node m H P hcm hH hP hg hp0 hok) p0 hp0 hok

/-- single wildcard atom `R` -/
def ghostPattern : Graph := { nodes := [(0, { symbol := some "R" })], adj := [(0, [])] }
/-- single carbon atom -/
def ghostHost : Graph := { nodes := [(0, { symbol := some "C" })], adj := [(0, [])] }

/-- **`NoGhostAnchor` cannot be dropped from `matcherSound_model_forest`**: for the one-atom wildcard
    pattern the model matcher "matches" at the integer 7, which is not a node of the (well-formed, acyclic)
    host — the model reads the empty symbol there, Python raises `KeyError`.  `MatcherSound` as stated in
    `Proofs/C05.lean` is therefore false for this pattern; no input of the query reaches this case (the
    anchors of a query are atoms of the molecule), which is why the capstone uses `MatcherSoundAt`. -/
theorem matcherSound_ghost_witness :
    C03.WF ghostHost ∧ C03.IsForest ghostHost ∧ C03.WF ghostPattern ∧ C03.IsForest ghostPattern ∧
    Connected ghostPattern ∧ ¬ MatcherSound { wildcard := some "R" } ghostHost ghostPattern := by
  refine ⟨C03.wfB_sound _ (by decide), C03.isForestB_sound _ (by decide), C03.wfB_sound _ (by decide),
    C03.isForestB_sound _ (by decide), connectedB_sound (by decide), ?_⟩
  intro h
  obtain ⟨f, hf, hfa, _⟩ := h 7 0 (by decide) (by decide)
  have := hf.nodes 0 (by decide)
  rw [hfa] at this
  revert this
  decide

/-! ## 4. The capstone: C05 verbatim on the acyclic sub-domain, matcher hypotheses discharged

  `bridge_sound` / `bridge_complete` / `bridge_acyclic` of `Proofs/C05.lean` are re-stated with the soundness
  hypothesis restricted to anchors that are NODES of the host (`MatcherSoundAt`): every anchor the query
  ever uses is an atom of the molecule, and every anchor of a true embedding is a host node. -/

section bridgeAt
variable {m : Mapper} {cfg : FGConfig} {H : Graph} {maxId a : Int}

/-- `bridge_sound` with C04 needed at the anchor `a` only -/
theorem bridge_sound_at (hnd : cfg.pattern.nodeIds.Nodup) (hpne : cfg.pattern.nodes.isEmpty = false)
    (hane : ∀ ap ∈ cfg.antiPatterns, ap.nodes.isEmpty = false)
    (hC04 : MatcherSoundAt m H cfg.pattern a) (hC03a : ∀ ap ∈ cfg.antiPatterns, MatcherComplete m H ap)
    {atoms : List Int} (h : Witnessed (modelMatcher m) cfg H maxId a atoms) :
    WitnessedStar m cfg H maxId a atoms := by
  obtain ⟨⟨r, hr, hok, hat, hin⟩, hanti⟩ := h
  obtain ⟨pidx, hpidx, rfl⟩ := (mem_mapSubgraph hpne).mp hr
  obtain ⟨f, hf, _, hperm⟩ := hC04 pidx hpidx hok
  have hatoms : atoms = groupImage cfg maxId f := by rw [hat]; exact groupIds_of_perm hnd hperm
  have hin' : a ∈ groupImage cfg maxId f := hatoms ▸ hin
  simp only [groupImage] at hin'
  have hin'' := mem_sortInts.mp hin'
  simp only [List.mem_filter, List.mem_map, decide_eq_true_eq] at hin''
  obtain ⟨⟨p0, ⟨hp0, hga⟩, hfp⟩, hle⟩ := hin''
  refine ⟨hle, ⟨f, hf, ⟨p0, hp0, by simpa using hga, hfp⟩, hatoms⟩, ?_⟩
  intro ap hap ⟨f', hf', p, hp, hfa⟩
  have hok' := hC03a ap hap f' p hf' hp
  rw [hfa] at hok'
  have hmem : ((mapAnchored H a ap p m).ok, (mapAnchored H a ap p m).mapping) ∈ modelMatcher m H a ap :=
    (mem_mapSubgraph (hane ap hap)).mpr ⟨p, hp, rfl⟩
  have := hanti ap hap _ hmem
  simp only at this
  rw [hok'] at this
  cases this

/-- `bridge_complete` with C04 needed at the anchor `a` only -/
theorem bridge_complete_at (hnd : cfg.pattern.nodeIds.Nodup) (hpne : cfg.pattern.nodes.isEmpty = false)
    (hane : ∀ ap ∈ cfg.antiPatterns, ap.nodes.isEmpty = false)
    (hC03 : MatcherComplete m H cfg.pattern) (hC04 : MatcherSoundAt m H cfg.pattern a)
    (hC04a : ∀ ap ∈ cfg.antiPatterns, MatcherSoundAt m H ap a)
    {atoms : List Int} (h : WitnessedStar m cfg H maxId a atoms) :
    ∃ atoms', Witnessed (modelMatcher m) cfg H maxId a atoms' := by
  obtain ⟨hle, ⟨f, hf, ⟨p0, hp0, hga, hfa⟩, _⟩, hanti⟩ := h
  have hok := hC03 f p0 hf hp0
  rw [hfa] at hok
  obtain ⟨f', hf', hfa', hperm⟩ := hC04 p0 hp0 hok
  refine ⟨groupImage cfg maxId f', ⟨⟨_, (mem_mapSubgraph hpne).mpr ⟨p0, hp0, rfl⟩, hok,
    (groupIds_of_perm hnd hperm).symm, ?_⟩, ?_⟩⟩
  · simp only [groupImage]
    rw [mem_sortInts]
    simp only [List.mem_filter, List.mem_map, decide_eq_true_eq]
    exact ⟨⟨p0, ⟨hp0, by simpa using hga⟩, hfa'⟩, hle⟩
  · intro ap hap r hr
    obtain ⟨pidx, hpidx, rfl⟩ := (mem_mapSubgraph (hane ap hap)).mp hr
    cases hokr : (mapAnchored H a ap pidx m).ok with
    | false => rfl
    | true =>
      exfalso
      obtain ⟨g, hg, hga', _⟩ := hC04a ap hap pidx hpidx hokr
      exact hanti ap hap ⟨g, hg, pidx, hpidx, hga'⟩

end bridgeAt

/-- `ExactOn` with soundness at host nodes only -/
structure ExactOnNodes (m : Mapper) (t : Tree) (H : Graph) : Prop where
  nodup : ∀ nd ∈ t.nodes, nd.cfg.pattern.nodeIds.Nodup
  pne : ∀ nd ∈ t.nodes, nd.cfg.pattern.nodes.isEmpty = false
  ane : ∀ nd ∈ t.nodes, ∀ ap ∈ nd.cfg.antiPatterns, ap.nodes.isEmpty = false
  c03 : ∀ nd ∈ t.nodes, MatcherComplete m H nd.cfg.pattern
  c04 : ∀ nd ∈ t.nodes, ∀ a ∈ H.nodeIds, MatcherSoundAt m H nd.cfg.pattern a
  c03a : ∀ nd ∈ t.nodes, ∀ ap ∈ nd.cfg.antiPatterns, MatcherComplete m H ap
  c04a : ∀ nd ∈ t.nodes, ∀ ap ∈ nd.cfg.antiPatterns, ∀ a ∈ H.nodeIds, MatcherSoundAt m H ap a

theorem exactOnNodes_of_exactOn {m : Mapper} {t : Tree} {H : Graph} (h : ExactOn m t H) : ExactOnNodes m t H :=
  ⟨h.nodup, h.pne, h.ane, h.c03, fun nd hnd a _ => (matcherSound_iff_at _ _ _).mp (h.c04 nd hnd) a, h.c03a,
    fun nd hnd ap hap a _ => (matcherSound_iff_at _ _ _).mp (h.c04a nd hnd ap hap) a⟩

theorem witnessedAt_of_star_nodes {m : Mapper} {t : Tree} {H : Graph} {mx a : Int} (hex : ExactOnNodes m t H)
    {i : Nat} (h : WitnessedStarAt m t H mx a i) : WitnessedAt (modelMatcher m) t H mx a i := by
  obtain ⟨nd, hnd, atoms, hw⟩ := h
  have hmem : nd ∈ t.nodes := List.mem_of_getElem? hnd
  have ha : a ∈ H.nodeIds := by
    obtain ⟨_, ⟨f, hf, ⟨p0, hp0, _, hfa⟩, _⟩, _⟩ := hw
    exact hfa ▸ hf.nodes p0 hp0
  exact ⟨nd, hnd, bridge_complete_at (hex.nodup nd hmem) (hex.pne nd hmem) (hex.ane nd hmem)
    (hex.c03 nd hmem) (hex.c04 nd hmem a ha) (fun ap hap => hex.c04a nd hmem ap hap a ha) hw⟩

theorem mem_queryH_of_mem {g : Graph} {requireH : Bool} {n : Int} (h : n ∈ g.nodeIds) :
    n ∈ (queryH g requireH).nodeIds := by
  cases requireH
  · simpa [queryH, queryGraph] using h
  · simpa [queryH, queryGraph] using completion_keeps_nodes g n h

/-- `bridge_acyclic` with the matcher's exactness needed at host nodes only -/
theorem bridge_acyclic_nodes (t : Tree) (g : Graph) (mapper : Mapper) (requireH : Bool)
    (ht : t.topo = true) (hc : Closed g) (hex : ExactOnNodes mapper t (queryH g requireH))
    (hcl : ∀ a ∈ candidates g, WitnessPathClosed (modelMatcher mapper) t (queryH g requireH) g.maxId a) :
    SpecStar mapper t g requireH (getFunctionalGroups t g mapper requireH) := by
  refine ⟨?_, ?_⟩
  · intro e he
    obtain ⟨ni, nd, hnd, hname, a, hae, hac, hw, hdesc⟩ :=
      most_specific (modelMatcher mapper) t g requireH ht hcl e he
    obtain ⟨_, _, _, _, hsorted, _⟩ := justified (modelMatcher mapper) t g requireH e he
    have hmem : nd ∈ t.nodes := List.mem_of_getElem? hnd
    have ha : a ∈ (queryH g requireH).nodeIds := mem_queryH_of_mem (candidates_sub g a hac)
    refine ⟨ni, nd, hnd, hname.symm, hsorted, ids_are_input_atoms_model t g mapper requireH hc e he, a, hae,
      bridge_sound_at (hex.nodup nd hmem) (hex.pne nd hmem) (hex.ane nd hmem) (hex.c04 nd hmem a ha)
        (hex.c03a nd hmem) hw, ?_⟩
    intro d hd hwd
    exact hdesc d hd (witnessedAt_of_star_nodes hex hwd)
  · intro x hx ⟨r, hr, hwr⟩
    exact covering (modelMatcher mapper) t g requireH x hx ⟨r, hr, witnessedAt_of_star_nodes hex hwr⟩

/-! ### hypotheses on the hierarchy -/

/-- a pattern (or anti-pattern) of the acyclic sub-domain: non-empty, a well-formed simple graph
    (`C03.WF`, what networkx hands over), acyclic (`C03.IsForest`), connected -/
structure PatternOK (P : Graph) : Prop where
  ne : P.nodes.isEmpty = false
  wf : C03.WF P
  forest : C03.IsForest P
  conn : Connected P

def patternOKB (P : Graph) : Bool := !P.nodes.isEmpty && C03.wfB P && C03.isForestB P && connectedB P

theorem patternOKB_sound {P : Graph} (h : patternOKB P = true) : PatternOK P := by
  simp only [patternOKB, Bool.and_eq_true, Bool.not_eq_true'] at h
  exact ⟨h.1.1.1, C03.wfB_sound _ h.1.1.2, C03.isForestB_sound _ h.1.2, connectedB_sound h.2⟩

/-- every pattern and every anti-pattern of the hierarchy is a connected forest -/
def TreeAcyclic (t : Tree) : Prop :=
  ∀ nd ∈ t.nodes, PatternOK nd.cfg.pattern ∧ ∀ ap ∈ nd.cfg.antiPatterns, PatternOK ap

def treeAcyclicB (t : Tree) : Bool :=
  t.nodes.all fun nd => patternOKB nd.cfg.pattern && nd.cfg.antiPatterns.all patternOKB

theorem treeAcyclicB_sound {t : Tree} (h : treeAcyclicB t = true) : TreeAcyclic t := by
  intro nd hnd
  have := List.all_eq_true.mp h nd hnd
  simp only [Bool.and_eq_true, List.all_eq_true] at this
  exact ⟨patternOKB_sound this.1, fun ap hap => patternOKB_sound (this.2 ap hap)⟩

/-- **C03 + C04_partial give `ExactOnNodes`** on a well-formed forest host for a hierarchy of connected
    forest patterns — the hypotheses `MatcherComplete` / `MatcherSound` of `Proofs/C05.lean`, discharged -/
theorem exactOnNodes_model_forest (m : Mapper) (t : Tree) (H : Graph) (hcm : m.canMapToNothing = [])
    (hH : C03.WF H) (hHf : C03.IsForest H) (hT : TreeAcyclic t) : ExactOnNodes m t H where
  nodup nd hnd := (hT nd hnd).1.wf.nodup
  pne nd hnd := (hT nd hnd).1.ne
  ane nd hnd ap hap := ((hT nd hnd).2 ap hap).ne
  c03 nd hnd := matcherComplete_model m H _ hcm (hT nd hnd).1.wf
  c04 nd hnd _ ha :=
    matcherSoundAt_model_forest m H _ hcm hH (hT nd hnd).1.wf hHf (hT nd hnd).1.forest (hT nd hnd).1.conn ha
  c03a nd hnd ap hap := matcherComplete_model m H _ hcm ((hT nd hnd).2 ap hap).wf
  c04a nd hnd ap hap _ ha :=
    matcherSoundAt_model_forest m H _ hcm hH ((hT nd hnd).2 ap hap).wf hHf ((hT nd hnd).2 ap hap).forest
      ((hT nd hnd).2 ap hap).conn ha

/-- the literal `ExactOn` of `Proofs/C05.lean` (so that `C05.bridge_acyclic` itself applies), under
    `NoGhostAnchor` for every pattern and anti-pattern -/
theorem exactOn_model_forest (m : Mapper) (t : Tree) (H : Graph) (hcm : m.canMapToNothing = [])
    (hH : C03.WF H) (hHf : C03.IsForest H) (hT : TreeAcyclic t)
    (hG : ∀ nd ∈ t.nodes, NoGhostAnchor m nd.cfg.pattern ∧ ∀ ap ∈ nd.cfg.antiPatterns, NoGhostAnchor m ap) :
    ExactOn m t H where
  nodup nd hnd := (hT nd hnd).1.wf.nodup
  pne nd hnd := (hT nd hnd).1.ne
  ane nd hnd ap hap := ((hT nd hnd).2 ap hap).ne
  c03 nd hnd := matcherComplete_model m H _ hcm (hT nd hnd).1.wf
  c04 nd hnd :=
    matcherSound_model_forest m H _ hcm hH (hT nd hnd).1.wf hHf (hT nd hnd).1.forest (hT nd hnd).1.conn (hG nd hnd).1
  c03a nd hnd ap hap := matcherComplete_model m H _ hcm ((hT nd hnd).2 ap hap).wf
  c04a nd hnd ap hap :=
    matcherSound_model_forest m H _ hcm hH ((hT nd hnd).2 ap hap).wf hHf ((hT nd hnd).2 ap hap).forest
      ((hT nd hnd).2 ap hap).conn ((hG nd hnd).2 ap hap)

/-! ### the path-closure hypothesis, decided by the function the harness evaluates -/

/-- is node `i` of the hierarchy witnessed at atom `a` (relative to the matcher `M`)? -/
def witnessedB (M : Matcher) (t : Tree) (H : Graph) (mx a : Int) (i : Nat) : Bool :=
  ((t.cfg? i).map fun c => (isFunctionalGroupM M H a c (some mx)).1).getD false

theorem witnessedB_iff {M : Matcher} {t : Tree} {H : Graph} {mx a : Int} {i : Nat} :
    witnessedB M t H mx a i = true ↔ WitnessedAt M t H mx a i := by
  constructor
  · intro h
    unfold witnessedB at h
    cases hc : t.cfg? i with
    | none => rw [hc] at h; cases h
    | some c =>
      rw [hc] at h
      obtain ⟨nd, hnd, rfl⟩ := cfg?_eq hc
      have h1 : (isFunctionalGroupM M H a nd.cfg (some mx)).1 = true := h
      have hfg : isFunctionalGroupM M H a nd.cfg (some mx) = (true, (isFunctionalGroupM M H a nd.cfg (some mx)).2) :=
        Prod.ext h1 rfl
      exact ⟨nd, hnd, _, isFG_sound hfg⟩
  · rintro ⟨nd, hnd, atoms, hw⟩
    have hc : t.cfg? i = some nd.cfg := by simp [Tree.cfg?, hnd]
    unfold witnessedB
    rw [hc]
    exact isFG_complete (mx := some mx) hw

/-- the `match` of `Model.pathClosedViolations` in closed form -/
theorem pcv_match_eq (o : Option FGConfig) (F : FGConfig → Bool) :
    pathClosedViolations.match_1 (fun _ => Bool) o (fun c => F c) (fun _ => false) = (o.map F).getD false := by
  cases o <;> rfl

theorem lt_of_witnessedAt {M : Matcher} {t : Tree} {H : Graph} {mx a : Int} {i : Nat}
    (h : WitnessedAt M t H mx a i) : i < t.nodes.length := by
  obtain ⟨nd, hnd, _⟩ := h
  rcases Nat.lt_or_ge i t.nodes.length with h | h
  · exact h
  · rw [List.getElem?_eq_none h] at hnd; cases hnd

theorem getD_map_range (f : Nat → Bool) (n p : Nat) :
    ((List.range n).map f).getD p false = (decide (p < n) && f p) := by
  by_cases h : p < n
  · simp [List.getD_eq_getElem?_getD, h]
  · simp [List.getD_eq_getElem?_getD, h]

/-- the traversal `Tree.descendantsOf` is closed under children at every node (checked, not trusted) -/
def descOKB (t : Tree) : Bool :=
  (List.range t.nodes.length).all fun p => descClosed t p (t.descendantsOf p)

/-- **the harness's evidence is the hypothesis**: if `Model.pathClosedViolations` (the function the harness
    evaluates on every query it generates) reports no violation for the atoms `atoms`, then
    `WitnessPathClosed` holds at each of them.  So the hypothesis of `most_specific` is decidable, and
    "0 failing instances" in the evidence is exactly this premise. -/
theorem pathClosedViolations_nil_sound {M : Matcher} {t : Tree} {H : Graph} {mx : Int} {atoms : List Int}
    (hD : descOKB t = true)
    (h : pathClosedViolations M t H mx atoms t.descendantsOf = []) :
    ∀ a ∈ atoms, WitnessPathClosed M t H mx a := by
  intro a ha p d hd hwp hwd
  have hp := lt_of_witnessedAt hwp
  have hdl := lt_of_witnessedAt hwd
  have hfold : ∀ i, (Option.map (fun c => (isFunctionalGroupM M H a c (some mx)).1) (t.cfg? i)).getD false =
      witnessedB M t H mx a i := fun _ => rfl
  simp only [pathClosedViolations, List.flatMap_eq_nil_iff, List.filterMap_eq_nil_iff, List.mem_range] at h
  have hp' := h a ha p hp
  simp only [getD_map_range, pcv_match_eq, hfold] at hp'
  by_cases hch : ((t.children p).any fun c => decide (c < t.nodes.length) && witnessedB M t H mx a c) = true
  · obtain ⟨c, hc, hcw⟩ := List.any_eq_true.mp hch
    simp only [Bool.and_eq_true] at hcw
    exact ⟨c, hc, witnessedB_iff.mp hcw.2⟩
  · exfalso
    have hpw : witnessedB M t H mx a p = true := witnessedB_iff.mpr hwp
    simp only [hp, decide_true, hpw, Bool.and_self, hch, Bool.not_false, ite_true, Option.map_eq_none_iff,
      List.find?_eq_none] at hp'
    have hdD : d ∈ t.descendantsOf p :=
      desc_mem_of_closed (List.all_eq_true.mp hD p (List.mem_range.mpr hp)) p d (Or.inl rfl) hd
    have := hp' d hdD
    simp [hdl, witnessedB_iff.mpr hwd] at this

/-! ### the capstone -/

/-- **C05.spec_acyclic** — PROPERTY C05 VERBATIM (true embeddings: `SpecStar`) for the MODEL of
    `FGQuery(mapper, config, require_implicit_hydrogen).get(mol)` on the acyclic sub-domain, with the matcher
    hypotheses `MatcherComplete` (C03) and `MatcherSound` (C04_partial) discharged.

    Remaining hypotheses, each explicit and decidable (Boolean forms in `spec_acyclic_dec`):
    * `ht`   the hierarchy is numbered topologically — how the harness numbers every extracted hierarchy;
             proved for the generated default one (`defaultTree_topo`);
    * `hcm`  the mapper cannot map to nothing — a functional-group query never sets `can_map_to_nothing`
             (C03 and C04 are stated for such mappers);
    * `hg`   the adjacency of the input molecule mentions nodes only (any networkx graph);
    * `hH`, `hHf`  the graph the query searches in (the hydrogen-completed copy, or the input itself) is a
             well-formed simple graph and ACYCLIC.  Without acyclicity the statement is false: K2/K3
             (`known_finding_K3_thf`).  (Stated about the completed graph here; that completion preserves
             both is proved in `Proofs/C12Forest.lean`, and `C05.spec_acyclic_input` in `Proofs/C05Input.lean`
             restates this theorem with `C03.WF g`, `C03.IsForest g` of the INPUT, which also give `hg`.)
    * `hT`   every pattern and anti-pattern of the hierarchy is a non-empty connected well-formed forest.
             False for `epoxid` in the default hierarchy, and the hypothesis cannot be dropped even for
             acyclic molecules: diethyl ether is reported as `epoxid` (`known_finding_K3_acyclic_molecule`);
             see `spec_mixed_dec` for a version that admits such patterns where an evaluation passes.
    * `hcl`  `WitnessPathClosed` at every candidate atom: a witnessed group with a witnessed strict
             descendant has a witnessed child.  NOT a consequence of the other hypotheses and false for some
             user hierarchies (finding K4, `most_specific_false_witness`, acyclic molecule and patterns);
             decidable per query (`pathClosedViolations_nil_sound`), evaluated by the harness on every query
             (0 failing instances with the default hierarchy).  Only the most-specific clause needs it. -/
theorem spec_acyclic (t : Tree) (g : Graph) (mapper : Mapper) (requireH : Bool)
    (ht : t.topo = true) (hcm : mapper.canMapToNothing = []) (hg : Closed g)
    (hH : C03.WF (queryH g requireH)) (hHf : C03.IsForest (queryH g requireH))
    (hT : TreeAcyclic t)
    (hcl : ∀ a ∈ candidates g, WitnessPathClosed (modelMatcher mapper) t (queryH g requireH) g.maxId a) :
    SpecStar mapper t g requireH (getFunctionalGroups t g mapper requireH) :=
  bridge_acyclic_nodes t g mapper requireH ht hg
    (exactOnNodes_model_forest mapper t (queryH g requireH) hcm hH hHf hT) hcl

/-- **C05.spec_acyclic_dec** — the capstone with every hypothesis a Boolean computation on the inputs -/
theorem spec_acyclic_dec (t : Tree) (g : Graph) (mapper : Mapper) (requireH : Bool)
    (ht : t.topo = true) (hcm : mapper.canMapToNothing = []) (hg : closedB g = true)
    (hH : C03.wfB (queryH g requireH) = true) (hHf : C03.isForestB (queryH g requireH) = true)
    (hT : treeAcyclicB t = true) (hD : descOKB t = true)
    (hcl : pathClosedViolations (modelMatcher mapper) t (queryH g requireH) g.maxId (candidates g)
      t.descendantsOf = []) :
    SpecStar mapper t g requireH (getFunctionalGroups t g mapper requireH) :=
  spec_acyclic t g mapper requireH ht hcm (closed_of_closedB hg) (C03.wfB_sound _ hH) (C03.isForestB_sound _ hHf)
    (treeAcyclicB_sound hT) (pathClosedViolations_nil_sound hD hcl)

/-- the same through the literal `C05.bridge_acyclic` / `ExactOn` (needs `NoGhostAnchor` in addition) -/
theorem spec_acyclic_via_exactOn (t : Tree) (g : Graph) (mapper : Mapper) (requireH : Bool)
    (ht : t.topo = true) (hcm : mapper.canMapToNothing = []) (hg : Closed g)
    (hH : C03.WF (queryH g requireH)) (hHf : C03.IsForest (queryH g requireH))
    (hT : TreeAcyclic t)
    (hG : ∀ nd ∈ t.nodes, NoGhostAnchor mapper nd.cfg.pattern ∧ ∀ ap ∈ nd.cfg.antiPatterns, NoGhostAnchor mapper ap)
    (hcl : ∀ a ∈ candidates g, WitnessPathClosed (modelMatcher mapper) t (queryH g requireH) g.maxId a) :
    SpecStar mapper t g requireH (getFunctionalGroups t g mapper requireH) :=
  bridge_acyclic t g mapper requireH ht hg
    (exactOn_model_forest mapper t (queryH g requireH) hcm hH hHf hT hG) hcl

/-! ### patterns outside the acyclic sub-domain: exactness of the matcher decided by evaluation

  For a pattern that is not a forest (`epoxid` in the default hierarchy) — or a molecule that is not —
  C04 is not available (and false in general: K2).  Whether the matcher is sound for ONE pattern on ONE
  host is decidable; where the check passes, the capstone still applies. -/

def nodupPairsB : List (Int × Int) → Bool
  | [] => true
  | x :: xs => !xs.contains x && nodupPairsB xs

theorem nodupPairsB_sound : ∀ l : List (Int × Int), nodupPairsB l = true → l.Nodup
  | [], _ => List.nodup_nil
  | x :: xs, h => by
    simp only [nodupPairsB, Bool.and_eq_true, Bool.not_eq_eq_eq_not, Bool.not_true,
      List.contains_eq_mem, decide_eq_false_iff_not] at h
    exact List.nodup_cons.mpr ⟨h.1, nodupPairsB_sound xs h.2⟩

/-- evaluation of C04 for one pattern on one host: every successful anchored match at a host node is an
    embedding (checked by the proved-sound `C03.isEmbedding`) that mentions every pattern node and lists no
    pair twice -/
def soundOnHostB (m : Mapper) (H P : Graph) : Bool :=
  H.nodeIds.all fun a => P.nodeIds.all fun p0 =>
    !(mapAnchored H a P p0 m).ok ||
      (C03.isEmbedding m P H p0 a (mapAnchored H a P p0 m).mapping &&
        nodupPairsB (mapAnchored H a P p0 m).mapping &&
        P.nodeIds.all fun q => (mapAnchored H a P p0 m).mapping.any (·.2 == q))

theorem soundOnHostB_sound {m : Mapper} {H P : Graph} (hcm : m.canMapToNothing = []) (hnd : P.nodeIds.Nodup)
    (h : soundOnHostB m H P = true) : ∀ a ∈ H.nodeIds, MatcherSoundAt m H P a := by
  intro a ha p0 hp0 hok
  have := List.all_eq_true.mp (List.all_eq_true.mp h a ha) p0 hp0
  simp only [hok, Bool.not_true, Bool.false_or, Bool.and_eq_true, List.all_eq_true, List.any_eq_true,
    beq_iff_eq] at this
  obtain ⟨⟨hemb, hndM⟩, htot⟩ := this
  have hpairs := (C03.isEmbedding_iff m P H p0 a _).mp hemb
  obtain ⟨f, hf, hfa, hall, hsub⟩ := isEmbedding_of_pairs_total hcm htot hpairs
  exact ⟨f, hf, hfa, perm_graph_of_pairs (nodupPairsB_sound _ hndM) hnd hall hsub⟩

/-- a pattern for which the matcher is exact on host `H`: non-empty and well-formed, and EITHER host and
    pattern are forests and the pattern is connected (C04_partial applies) OR the evaluation passes -/
structure PatternOKOn (m : Mapper) (H P : Graph) : Prop where
  ne : P.nodes.isEmpty = false
  wf : C03.WF P
  sound : (C03.WF H ∧ C03.IsForest H ∧ C03.IsForest P ∧ Connected P) ∨ soundOnHostB m H P = true

def patternOKOnB (m : Mapper) (H : Graph) (hostForest : Bool) (P : Graph) : Bool :=
  !P.nodes.isEmpty && C03.wfB P && ((hostForest && C03.isForestB P && connectedB P) || soundOnHostB m H P)

def treeOKOnB (m : Mapper) (H : Graph) (t : Tree) : Bool :=
  let hostForest := C03.wfB H && C03.isForestB H
  t.nodes.all fun nd => patternOKOnB m H hostForest nd.cfg.pattern &&
    nd.cfg.antiPatterns.all (patternOKOnB m H hostForest)

theorem patternOKOnB_sound {m : Mapper} {H P : Graph}
    (h : patternOKOnB m H (C03.wfB H && C03.isForestB H) P = true) : PatternOKOn m H P := by
  simp only [patternOKOnB, Bool.and_eq_true, Bool.or_eq_true, Bool.not_eq_true'] at h
  refine ⟨h.1.1, C03.wfB_sound _ h.1.2, ?_⟩
  rcases h.2 with h' | h'
  · exact Or.inl ⟨C03.wfB_sound _ h'.1.1.1, C03.isForestB_sound _ h'.1.1.2, C03.isForestB_sound _ h'.1.2,
      connectedB_sound h'.2⟩
  · exact Or.inr h'

theorem matcherSoundAt_of_patternOKOn {m : Mapper} {H P : Graph} (hcm : m.canMapToNothing = [])
    (h : PatternOKOn m H P) : ∀ a ∈ H.nodeIds, MatcherSoundAt m H P a := by
  rcases h.sound with ⟨hH, hHf, hPf, hconn⟩ | hs
  · exact fun a ha => matcherSoundAt_model_forest m H P hcm hH h.wf hHf hPf hconn ha
  · exact soundOnHostB_sound hcm h.wf.nodup hs

theorem exactOnNodes_model_mixed (m : Mapper) (t : Tree) (H : Graph) (hcm : m.canMapToNothing = [])
    (hT : ∀ nd ∈ t.nodes, PatternOKOn m H nd.cfg.pattern ∧ ∀ ap ∈ nd.cfg.antiPatterns, PatternOKOn m H ap) :
    ExactOnNodes m t H where
  nodup nd hnd := (hT nd hnd).1.wf.nodup
  pne nd hnd := (hT nd hnd).1.ne
  ane nd hnd ap hap := ((hT nd hnd).2 ap hap).ne
  c03 nd hnd := matcherComplete_model m H _ hcm (hT nd hnd).1.wf
  c04 nd hnd := matcherSoundAt_of_patternOKOn hcm (hT nd hnd).1
  c03a nd hnd ap hap := matcherComplete_model m H _ hcm ((hT nd hnd).2 ap hap).wf
  c04a nd hnd ap hap := matcherSoundAt_of_patternOKOn hcm ((hT nd hnd).2 ap hap)

/-- **C05.spec_mixed_dec** — the capstone for hierarchies with non-forest patterns (and for molecules that
    are not forests): C03 is used for every pattern (it holds on all graphs); C04 is used where host and
    pattern are forests and is replaced by the evaluation `soundOnHostB` elsewhere.  All hypotheses are
    Boolean computations on the inputs; where they hold the MODEL output satisfies C05 verbatim. -/
theorem spec_mixed_dec (t : Tree) (g : Graph) (mapper : Mapper) (requireH : Bool)
    (ht : t.topo = true) (hcm : mapper.canMapToNothing = []) (hg : closedB g = true)
    (hT : treeOKOnB mapper (queryH g requireH) t = true) (hD : descOKB t = true)
    (hcl : pathClosedViolations (modelMatcher mapper) t (queryH g requireH) g.maxId (candidates g)
      t.descendantsOf = []) :
    SpecStar mapper t g requireH (getFunctionalGroups t g mapper requireH) := by
  refine bridge_acyclic_nodes t g mapper requireH ht (closed_of_closedB hg)
    (exactOnNodes_model_mixed mapper t _ hcm ?_) (pathClosedViolations_nil_sound hD hcl)
  intro nd hnd
  have := List.all_eq_true.mp hT nd hnd
  simp only [Bool.and_eq_true, List.all_eq_true] at this
  exact ⟨patternOKOnB_sound this.1, fun ap hap => patternOKOnB_sound (this.2 ap hap)⟩

/-! ## 5. Non-vacuity: the capstone instantiated (tests, by kernel evaluation of the decidable hypotheses) -/

/-- drop the nodes `i` with `keep i = false` from a hierarchy (and from the root list and every children
    list), renumbering the rest; only used to build a concrete test hierarchy, nothing is proved about it -/
def Tree.prune (t : Tree) (keep : Nat → Bool) : Tree :=
  let newIdx := fun (i : Nat) => ((List.range i).filter keep).length
  let fix := fun (l : List Nat) => (l.filter keep).map newIdx
  { nodes := ((List.range t.nodes.length).zip t.nodes).filterMap fun x =>
      if keep x.1 then some { x.2 with children := fix x.2.children } else none,
    roots := fix t.roots }

/-- the GENERATED default hierarchy restricted to the acyclic sub-domain: the groups whose pattern or an
    anti-pattern is not a connected forest are dropped (that is `epoxid` only, see the test below) -/
def acyclicDefaultTree : Tree :=
  defaultTree.prune fun i => (defaultTree.cfg? i).any fun c => patternOKB c.pattern && c.antiPatterns.all patternOKB

-- test: exactly one group of the default hierarchy is outside the acyclic sub-domain
example : (defaultTree.nodes.filter fun nd =>
    !(patternOKB nd.cfg.pattern && nd.cfg.antiPatterns.all patternOKB)).map (·.cfg.name) = ["epoxid"] := by
  decide +kernel
example : defaultTree.nodes.length = 31 ∧ acyclicDefaultTree.nodes.length = 30 ∧
    acyclicDefaultTree.roots.length = defaultTree.roots.length := by decide +kernel

/-- the hypotheses of `spec_acyclic_dec` that concern the hierarchy only, for the default hierarchy without `epoxid` -/
theorem acyclicDefaultTree_ok :
    acyclicDefaultTree.topo = true ∧ treeAcyclicB acyclicDefaultTree = true ∧ descOKB acyclicDefaultTree = true := by
  decide +kernel

/-- test (non-vacuity of `spec_acyclic`): ALL hypotheses of the capstone hold for acetic acid with the default
    hierarchy minus `epoxid`, hydrogen completion on; so the model's output satisfies C05 verbatim … -/
example : SpecStar defaultMapper acyclicDefaultTree aceticAcid true
    (getFunctionalGroups acyclicDefaultTree aceticAcid defaultMapper true) :=
  spec_acyclic_dec _ _ _ _ acyclicDefaultTree_ok.1 rfl (by decide +kernel) (by decide +kernel) (by decide +kernel)
    acyclicDefaultTree_ok.2.1 acyclicDefaultTree_ok.2.2 (by decide +kernel)
-- … and that output is the expected one
example : getFunctionalGroups acyclicDefaultTree aceticAcid defaultMapper true = [("carboxylic_acid", [1, 2, 3])] := by
  decide +kernel

/-- test: the same for methyl acetate, without hydrogen completion of the query graph -/
example : SpecStar defaultMapper acyclicDefaultTree methylAcetate false
    (getFunctionalGroups acyclicDefaultTree methylAcetate defaultMapper false) :=
  spec_acyclic_dec _ _ _ _ acyclicDefaultTree_ok.1 rfl (by decide +kernel) (by decide +kernel) (by decide +kernel)
    acyclicDefaultTree_ok.2.1 acyclicDefaultTree_ok.2.2 (by decide +kernel)
example : getFunctionalGroups acyclicDefaultTree methylAcetate defaultMapper false = [("ester", [1, 2, 4])] := by
  decide +kernel

/-- the hierarchy-only hypotheses of `spec_mixed_dec` for the FULL generated default hierarchy -/
theorem defaultTree_descOK : descOKB defaultTree = true := by decide +kernel

/-- test (non-vacuity of `spec_mixed_dec`): the FULL generated default hierarchy (with the ring pattern
    `epoxid`) on acetic acid: 30 patterns are covered by C03 + C04_partial, `epoxid` by evaluation -/
example : SpecStar defaultMapper defaultTree aceticAcid true
    (getFunctionalGroups defaultTree aceticAcid defaultMapper true) :=
  spec_mixed_dec _ _ _ _ defaultTree_topo rfl (by decide +kernel) (by decide +kernel) defaultTree_descOK
    (by decide +kernel)

/-- test: the hypotheses are not vacuous the other way either — on tetrahydrofuran (K3) the evaluation of
    the matcher's soundness FAILS, so neither capstone applies there (and the conclusion is false:
    `known_finding_K3_thf`) -/
example : treeOKOnB defaultMapper (queryH thf true) defaultTree = false ∧
    C03.isForestB (queryH thf true) = false := by decide +kernel

/-- diethyl ether `CCOCC` as RDKit numbers it -/
def diethylEther : Graph := mkMol ["C", "C", "O", "C", "C"] [(0, 1, 2), (1, 2, 2), (2, 3, 2), (3, 4, 2)]

/-- **the hypothesis `hT` (forest PATTERNS) cannot be dropped, not even for acyclic molecules** — K3 is not
    confined to ring molecules: with the full default hierarchy the model (and the code:
    `FGQuery().get("CCOCC")` returns `[('epoxid', [0, 1, 2, 3, 4])]`) reports diethyl ether, an ACYCLIC
    molecule whose completed graph is a well-formed forest, as `epoxid`; the statement with true embeddings
    rejects that output, and the evaluation `treeOKOnB` of the matcher's exactness fails (for the ring
    pattern `epoxid`: K2 with an acyclic host, cf. `C04.unsound_witness_pattern_cycle`).  Without `epoxid`
    the capstone applies (next test) and the answer is `ether`.  Scope of K3 as recorded in
    `known_findings.json`: "molecule or pattern cyclic". -/
theorem known_finding_K3_acyclic_molecule :
    C03.wfB (queryH diethylEther true) = true ∧ C03.isForestB (queryH diethylEther true) = true ∧
    getFunctionalGroups defaultTree diethylEther defaultMapper true = [("epoxid", [0, 1, 2, 3, 4])] ∧
    specCheck defaultMapper defaultTree diethylEther true [("epoxid", [0, 1, 2, 3, 4])] = false ∧
    treeOKOnB defaultMapper (queryH diethylEther true) defaultTree = false ∧
    getFunctionalGroups acyclicDefaultTree diethylEther defaultMapper true = [("ether", [2])] := by
  decide +kernel

/-- test: diethyl ether with the default hierarchy minus `epoxid` is inside the acyclic sub-domain -/
example : SpecStar defaultMapper acyclicDefaultTree diethylEther true
    (getFunctionalGroups acyclicDefaultTree diethylEther defaultMapper true) :=
  spec_acyclic_dec _ _ _ _ acyclicDefaultTree_ok.1 rfl (by decide +kernel) (by decide +kernel) (by decide +kernel)
    acyclicDefaultTree_ok.2.1 acyclicDefaultTree_ok.2.2 (by decide +kernel)

end C05
