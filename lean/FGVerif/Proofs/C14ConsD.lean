import FGVerif.Proofs.C14ConsC
/-!
  C14 conservation, part D: one replacement conserves the bond labels.

  For `inDomain g x sub anchors` and `r := replaceNode g x sub anchors`:
    bondLabelsOf r ++ (if sub is empty then the labels of the bonds of x else []) ~ bondLabelsOf g ++ bondLabelsOf sub.

  Route: `C13.E.Dom.labels` describes the labels of `r` between any two names; the triple list
  `TA ++ TB ++ TC` (parent bonds not touching `x`, renamed; sub-pattern bonds, shifted; the re-attached
  bonds) has the same labels between any two names, so `perm_of_selL` applies.  The bonds of `g` that
  touch `x` carry the labels of `g.edgesOf x` and of the incident list after the composition step.
-/
set_option linter.unusedSimpArgs false
namespace C14.Q
open C13 C14 C13.E

variable {g : Graph} {x : Int} {sub : Graph} {anchors : List Nat}

/-- parent bonds that do not touch `x`, under the renumbering -/
def TA (g : Graph) (x : Int) : List Triple :=
  ((tri g.edges).filter (notx x)).map fun t => (ren x t.1, ren x t.2.1, t.2.2)

/-- sub-pattern bonds at their new names -/
def TB (g sub : Graph) : List Triple :=
  (tri sub.edges).map fun t => (t.1 + ((g.nodes.length : Int) - 1), t.2.1 + ((g.nodes.length : Int) - 1), t.2.2)

/-- the re-attached bonds: the k-th incident bond goes to `anchor[min k (|anchor| - 1)]` -/
def TCof (inc : List (Int × Label)) (g : Graph) (x : Int) (anchors : List Nat) : List Triple :=
  inc.zipIdx.map fun q => (ren x q.1.1, ((g.nodes.length : Int) - 1) + ((anchorAt anchors q.2 : Nat) : Int), q.1.2)

def TC (g : Graph) (x : Int) (sub : Graph) (anchors : List Nat) : List Triple :=
  if sub.nodes.isEmpty then [] else TCof (incOfCompose g x sub) g x anchors

theorem ren_iff {x u : Int} (h : u ≠ x) (c : Int) : ren x u = c ↔ u = unren x c := by
  unfold ren unren
  by_cases h1 : u < x <;> by_cases h2 : c < x <;> simp only [h1, h2, if_true, if_false] <;> omega

theorem selL_TA (w : WF g) (x a b : Int) : selL a b (TA g x) = labelsBetween g (unren x a) (unren x b) := by
  unfold TA
  rw [selL_map (ren x) (unren x), selL_filter_notx, selL_tri_edges w]
  · have h1 := unren_ne x a
    have h2 := unren_ne x b
    simp [h1, h2]
  · intro t ht c
    have := (List.mem_filter.mp ht).2
    simp only [notx, Bool.and_eq_true, bne_iff_ne, ne_eq] at this
    exact ⟨ren_iff this.1 c, ren_iff this.2 c⟩

theorem selL_TB (w : WF sub) (g : Graph) (a b : Int) :
    selL a b (TB g sub)
      = labelsBetween sub (a - ((g.nodes.length : Int) - 1)) (b - ((g.nodes.length : Int) - 1)) := by
  unfold TB
  rw [selL_map (· + ((g.nodes.length : Int) - 1)) (· - ((g.nodes.length : Int) - 1)), selL_tri_edges w]
  intro t _ c
  constructor <;> constructor <;> intro h <;> omega

/-- what the entries of an incident list must satisfy: parent nodes other than `x` -/
def IncOk (g : Graph) (x : Int) (inc : List (Int × Label)) : Prop :=
  ∀ q ∈ inc, q.1 ≠ x ∧ 0 ≤ q.1 ∧ q.1 < (g.nodes.length : Int)

theorem selL_TCof_eq (inc : List (Int × Label)) (g : Graph) (x : Int) (anchors : List Nat) (a b : Int) :
    selL a b (TCof inc g x anchors)
      = inc.zipIdx.filterMap fun q =>
          if (ren x q.1.1 = a ∧ ((g.nodes.length : Int) - 1) + ((anchorAt anchors q.2 : Nat) : Int) = b)
              ∨ (ren x q.1.1 = b ∧ ((g.nodes.length : Int) - 1) + ((anchorAt anchors q.2 : Nat) : Int) = a)
          then some q.1.2 else none := by
  unfold selL TCof
  rw [List.filterMap_map]
  rfl

theorem ren_lt {g : Graph} {x v : Int} (hx : x < (g.nodes.length : Int)) (hv : v < (g.nodes.length : Int))
    (_hne : v ≠ x) : ren x v < (g.nodes.length : Int) - 1 := by
  unfold ren; split <;> omega

/-- a parent name `a` and any `b`: the re-attached bonds between them -/
theorem selL_TCof_cross {inc : List (Int × Label)} (hi : IncOk g x inc)
    (anchors : List Nat) (a b : Int) (ha : a < (g.nodes.length : Int) - 1) :
    selL a b (TCof inc g x anchors)
      = crossLabelsOf inc anchors (unren x a) (b - ((g.nodes.length : Int) - 1)) := by
  rw [selL_TCof_eq]
  unfold crossLabelsOf
  apply filterMap_congr'
  intro q hq
  have hq1 := hi q.1 (List.fst_mem_of_mem_zipIdx hq)
  have hr := ren_iff hq1.1 a
  have h2 : ¬ (((g.nodes.length : Int) - 1) + ((anchorAt anchors q.2 : Nat) : Int) = a) := by omega
  by_cases h1 : q.1.1 = unren x a
  · by_cases h3 : ((anchorAt anchors q.2 : Nat) : Int) = b - ((g.nodes.length : Int) - 1)
    · have e1 : (q.1.1 == unren x a) = true := by rw [beq_iff_eq]; exact h1
      have e2 : (((anchorAt anchors q.2 : Nat) : Int) == b - ((g.nodes.length : Int) - 1)) = true := by
        rw [beq_iff_eq]; exact h3
      rw [if_pos (Or.inl ⟨hr.mpr h1, by omega⟩), e1, e2]; rfl
    · have h3' : ¬ (((g.nodes.length : Int) - 1) + ((anchorAt anchors q.2 : Nat) : Int) = b) := by omega
      simp [h1, h2, h3, h3']
  · have h1' : ¬ ren x q.1.1 = a := fun e => h1 (hr.mp e)
    simp [h1, h1', h2]

theorem selL_swap' (a b : Int) (T : List Triple) : selL a b T = selL b a T := selL_swap a b T

/-- two sub-pattern names: no re-attached bond -/
theorem selL_TCof_above {inc : List (Int × Label)} (hi : IncOk g x inc) (hx : x < (g.nodes.length : Int))
    (anchors : List Nat) (a b : Int) (ha : (g.nodes.length : Int) - 1 ≤ a) (hb : (g.nodes.length : Int) - 1 ≤ b) :
    selL a b (TCof inc g x anchors) = [] := by
  rw [selL_TCof_eq]
  apply List.filterMap_eq_nil_iff.mpr
  intro q hq
  have hq1 := hi q.1 (List.fst_mem_of_mem_zipIdx hq)
  have := ren_lt hx hq1.2.2 hq1.1
  have h1 : ¬ ren x q.1.1 = a := by omega
  have h2 : ¬ ren x q.1.1 = b := by omega
  simp [h1, h2]

/-- two parent names: no re-attached bond -/
theorem selL_TCof_below (inc : List (Int × Label)) (g : Graph) (x : Int)
    (anchors : List Nat) (a b : Int) (ha : a < (g.nodes.length : Int) - 1) (hb : b < (g.nodes.length : Int) - 1) :
    selL a b (TCof inc g x anchors) = [] := by
  rw [selL_TCof_eq]
  apply List.filterMap_eq_nil_iff.mpr
  intro q _
  have h1 : ¬ (((g.nodes.length : Int) - 1) + ((anchorAt anchors q.2 : Nat) : Int) = a) := by omega
  have h2 : ¬ (((g.nodes.length : Int) - 1) + ((anchorAt anchors q.2 : Nat) : Int) = b) := by omega
  simp [h1, h2]

/-! ### the incident list after the composition step -/

theorem dom_inc_edge (d : Dom g x sub anchors) {e : Edge} (he : e ∈ incEdges g x sub) :
    g.edgeData x e.2.1 ≠ [] := by
  rw [incEdges_eq] at he
  obtain ⟨_, r, hr, h2, _⟩ := mem_expand he
  have hnb : e.2.1 ∈ (G1 g sub).neighbors x := by
    rw [neighbors_row, h2]; exact mem_ids_of_mem hr
  have hne := d.w1.nonempty _ _ hnb
  rw [d.G1_edgeData] at hne
  have hs : sub.edgeData (x - (g.nodes.length : Int)) (e.2.1 - (g.nodes.length : Int)) = [] :=
    d.s_nil (Or.inl (by have := d.x_range; omega))
  rw [hs, List.append_nil] at hne
  exact hne

theorem dom_incOk (d : Dom g x sub anchors) : IncOk g x (incOfCompose g x sub) := by
  intro q hq
  rw [incOfCompose_eq] at hq
  obtain ⟨e, he, rfl⟩ := List.mem_map.mp hq
  have hne := dom_inc_edge d he
  have hr := d.inc_range he
  refine ⟨?_, hr.1, hr.2⟩
  intro e0
  simp only at e0
  apply d.noloop
  have := mem_neighbors_of_edgeData hne
  rwa [e0] at this

/-! ### the labels of the result between any two names -/

theorem labelsBetween_nil {g : Graph} {a b : Int} (h : g.edgeData a b = []) : labelsBetween g a b = [] := by
  unfold labelsBetween; rw [h]; rfl

theorem selL_result (d : Dom g x sub anchors) (a b : Int) :
    selL a b (tri (replaceNode g x sub anchors).edges) = selL a b (TA g x ++ TB g sub ++ TC g x sub anchors) := by
  rw [replaceNode_eq_len_of_dom0 d.toDom0, selL_tri_edges d.w4, d.labels, selL_append, selL_append, selL_TA d.wg, selL_TB d.ws]
  have hx := d.x_range
  have hi := dom_incOk d
  unfold specLabelsOf
  simp only
  by_cases ha : a < (g.nodes.length : Int) - 1
  · by_cases hb : b < (g.nodes.length : Int) - 1
    · have h2 : labelsBetween sub (a - ((g.nodes.length : Int) - 1)) (b - ((g.nodes.length : Int) - 1)) = [] :=
        labelsBetween_nil (d.s_nil (Or.inl (by omega)))
      have h3 : selL a b (TC g x sub anchors) = [] := by
        unfold TC; split
        · rfl
        · exact selL_TCof_below _ g x anchors a b ha hb
      rw [if_pos ⟨ha, hb⟩, h2, h3]; simp
    · have hub : unren x b = b + 1 := by unfold unren; split <;> omega
      have h1 : labelsBetween g (unren x a) (unren x b) = [] :=
        labelsBetween_nil (d.g_nil (by omega))
      have h2 : labelsBetween sub (a - ((g.nodes.length : Int) - 1)) (b - ((g.nodes.length : Int) - 1)) = [] :=
        labelsBetween_nil (d.s_nil (Or.inl (by omega)))
      rw [if_neg (fun h => hb h.2), if_neg (fun h => by omega), h1, h2]
      unfold TC
      by_cases he : sub.nodes.isEmpty = true
      · simp [he, selL_nil]
      · simp only [he, if_false, Bool.false_eq_true, if_pos ha, List.nil_append]
        exact (selL_TCof_cross hi anchors a b ha).symm
  · by_cases hb : b < (g.nodes.length : Int) - 1
    · have hua : unren x a = a + 1 := by unfold unren; split <;> omega
      have h1 : labelsBetween g (unren x a) (unren x b) = [] :=
        labelsBetween_nil (d.g_nil (by omega))
      have h2 : labelsBetween sub (a - ((g.nodes.length : Int) - 1)) (b - ((g.nodes.length : Int) - 1)) = [] :=
        labelsBetween_nil (d.s_nil (by omega))
      rw [if_neg (fun h => ha h.1), if_neg (fun h => by omega), h1, h2]
      unfold TC
      by_cases he : sub.nodes.isEmpty = true
      · simp [he, selL_nil]
      · simp only [he, if_false, Bool.false_eq_true, if_neg ha, List.nil_append]
        rw [selL_swap]
        exact (selL_TCof_cross hi anchors b a hb).symm
    · have hua : unren x a = a + 1 := by unfold unren; split <;> omega
      have h1 : labelsBetween g (unren x a) (unren x b) = [] :=
        labelsBetween_nil (d.g_nil (by omega))
      have h3 : selL a b (TC g x sub anchors) = [] := by
        unfold TC; split
        · rfl
        · exact selL_TCof_above hi hx.2 anchors a b (by omega) (by omega)
      rw [if_neg (fun h => ha h.1), if_pos ⟨by omega, by omega⟩, h1, h3]; simp

/-! ### the bonds that touch `x` -/

/-- the bonds of `g` that touch `x` carry the labels of any row that agrees with the key dicts of `x` -/
theorem lbl_touch (w : WF g) (x : Int) (row : Row) (hn : (ids row).Nodup)
    (hrow : ∀ b, lk row b = g.edgeData x b) :
    (((tri g.edges).filter fun t => !notx x t).map lbl).Perm ((expand x row).map (·.2.2.2)) := by
  rw [← tri_lbl (expand x row)]
  apply perm_of_selL
  intro a b
  rw [selL_filter_x, selL_tri_edges w, selL_tri, sel_expand a b x row hn, hrow, hrow]
  apply List.Perm.of_eq
  by_cases ha : x = a
  · subst ha; simp [labelsBetween]
  · by_cases hb : x = b
    · subst hb
      have ha' : ¬ a = x := fun e => ha e.symm
      simp only [ha', false_or, if_true, ha, if_false, labelsBetween]
      rw [w.symm]
    · have ha' : ¬ a = x := fun e => ha e.symm
      have hb' : ¬ b = x := fun e => hb e.symm
      simp [ha, hb, ha', hb']

theorem lbl_touch_edgesOf (w : WF g) (x : Int) :
    (((tri g.edges).filter fun t => !notx x t).map lbl).Perm ((g.edgesOf x).map (·.2.2.2)) :=
  lbl_touch w x (g.adjRow x) (w.nbrNodup x) (fun b => (edgeData_row g x b).symm)

theorem dom_lbl_touch_inc (d : Dom g x sub anchors) :
    (((tri g.edges).filter fun t => !notx x t).map lbl).Perm ((incOfCompose g x sub).map (·.2)) := by
  have h := lbl_touch d.wg x ((G1 g sub).adjRow x) (d.w1.nbrNodup x) (fun b => by
    rw [← edgeData_row, d.G1_edgeData,
      d.s_nil (Or.inl (by have := d.x_range; omega)), List.append_nil])
  have e : (incOfCompose g x sub).map (·.2) = (expand x ((G1 g sub).adjRow x)).map (·.2.2.2) := by
    rw [incOfCompose_eq, incEdges_eq]
    simp [incOf, Function.comp_def]
  rw [e]; exact h

/-! ### the labels of the three parts -/

theorem TA_lbl (g : Graph) (x : Int) : (TA g x).map lbl = ((tri g.edges).filter (notx x)).map lbl := by
  unfold TA; rw [List.map_map]; rfl

theorem TB_lbl (g sub : Graph) : (TB g sub).map lbl = bondLabelsOf sub := by
  unfold TB; rw [List.map_map]
  exact tri_lbl sub.edges

theorem TCof_lbl (inc : List (Int × Label)) (g : Graph) (x : Int) (anchors : List Nat) :
    (TCof inc g x anchors).map lbl = inc.map (·.2) := by
  unfold TCof
  rw [List.map_map]
  have : inc.map (·.2) = (inc.zipIdx.map Prod.fst).map (·.2) := by rw [List.zipIdx_map_fst]
  rw [this, List.map_map]
  rfl

/-- one replacement conserves the bond labels; an empty pattern drops the bonds of the node -/
theorem bond_step (hd : inDomain g x sub anchors = true) :
    (bondLabelsOf (replaceNode g x sub anchors)
        ++ (if sub.nodes.isEmpty then (g.edgesOf x).map (·.2.2.2) else [])).Perm
      (bondLabelsOf g ++ bondLabelsOf sub) := by
  have d := dom_of_inDomain hd
  -- the result
  have hR : (bondLabelsOf (replaceNode g x sub anchors)).Perm
      (((tri g.edges).filter (notx x)).map lbl ++ bondLabelsOf sub ++ (TC g x sub anchors).map lbl) := by
    have h := perm_of_selL (fun a b => List.Perm.of_eq (selL_result d a b))
    rw [tri_lbl, List.map_append, List.map_append, TA_lbl, TB_lbl] at h
    exact h
  -- the parent
  have hG : (bondLabelsOf g).Perm
      (((tri g.edges).filter (notx x)).map lbl ++ ((tri g.edges).filter fun t => !notx x t).map lbl) := by
    have := lbl_split x (tri g.edges)
    rw [tri_lbl] at this
    exact this
  refine List.Perm.trans ?_ (List.Perm.append_right _ hG.symm)
  by_cases he : sub.nodes.isEmpty = true
  · have hC : (TC g x sub anchors).map lbl = [] := by unfold TC; simp [he]
    rw [hC, List.append_nil] at hR
    simp only [he, if_true]
    refine (List.Perm.append hR (lbl_touch_edgesOf d.wg x).symm).trans ?_
    simp only [List.append_assoc]
    exact List.Perm.append_left _ List.perm_append_comm
  · have hC : (TC g x sub anchors).map lbl = (incOfCompose g x sub).map (·.2) := by
      unfold TC; simp only [he, if_false, Bool.false_eq_true]; exact TCof_lbl _ g x anchors
    rw [hC] at hR
    simp only [he, if_false, Bool.false_eq_true, List.append_nil]
    refine (hR.trans (List.Perm.append_left _ (dom_lbl_touch_inc d).symm)).trans ?_
    simp only [List.append_assoc]
    exact List.Perm.append_left _ List.perm_append_comm

end C14.Q
