import FGVerif.Proofs.C03Perm
/-!
  C03 — anchored subgraph matching never misses an embedding.

  Property theorems (about `Model/Subgraph.lean`, for every host, pattern, anchor pair and every
  mapper with `canMapToNothing = []`; cyclic and acyclic graphs alike, no bound on sizes):

  * `C03.fit_fuel_irrelevant`     the fuel of `Sub.fit` is irrelevant above `unvisited + 1`
  * `C03.fit_complete`            the loop invariant: if `f` embeds the part `D` of the pattern
                                  and the visited host path is disjoint from the `f`-image of the
                                  unvisited pattern nodes, `fit` at `(f pidx, pidx)` succeeds
  * `C03.anchored_complete`       `IsEmbedding m P H f → pa ∈ P.nodes → (mapAnchored H (f pa) P pa m).ok`
  * `C03.anchored_complete_component`  the same from an embedding of the anchor's component only
  * `C03.unanchored_complete`     hosts with ids `0..n-1`: an embedding exists → `mapSubgraphToGraph`
-/
namespace C03
open Perm Sub

/-! ### unfolding `fit` -/

/-- the body of the `for n_mapping in mapper.permute(...)` loop for one assignment -/
def attempt (g p : Graph) (m : Mapper) (fuel : Nat) (idx pidx : Int) (vis pvis : List Int)
    (nn pnn : List (Int × String)) (a : List Int) : Option (List (Int × Int) × List Int × List Int) :=
  tryPairs g p idx pidx (fun i pi => fit g p m fuel i pi vis pvis)
    ((pnn.map (·.1)).zip (a.map fun si => if si < 0 then none else (nn[si.toNat]?).map (·.1))) ([], [], [])

theorem fit_succ (g p : Graph) (m : Mapper) (fuel : Nat) (idx pidx : Int) (vis pvis : List Int) :
    fit g p m (fuel + 1) idx pidx vis pvis =
      if (nbrs p pidx (addSet pidx pvis)).isEmpty then ⟨true, [(idx, pidx)], addSet idx vis, addSet pidx pvis⟩
      else
        match (m.permute ((nbrs p pidx (addSet pidx pvis)).map (·.2)) ((nbrs g idx (addSet idx vis)).map (·.2))).findSome?
            (attempt g p m fuel idx pidx (addSet idx vis) (addSet pidx pvis) (nbrs g idx (addSet idx vis)) (nbrs p pidx (addSet pidx pvis))) with
        | some (mp, vn, vpn) => ⟨true, (idx, pidx) :: mp, unionSet (addSet idx vis) vn, unionSet (addSet pidx pvis) vpn⟩
        | none => ⟨false, [(idx, pidx)], addSet idx vis, addSet pidx pvis⟩ := by
  rfl

theorem mem_addSet (x y : Int) (s : List Int) : y ∈ addSet x s ↔ y = x ∨ y ∈ s := by
  unfold addSet
  split
  · rename_i h
    have : x ∈ s := by simpa using h
    constructor
    · exact Or.inr
    · rintro (rfl | h) <;> assumption
  · simp [List.mem_append, or_comm]

/-- unvisited neighbour ids -/
def freeNbrs (g : Graph) (idx : Int) (excluded : List Int) : List Int :=
  (g.neighbors idx).filter fun n => !excluded.contains n

theorem nbrs_eq (g : Graph) (idx : Int) (ex : List Int) :
    nbrs g idx ex = (freeNbrs g idx ex).map fun n => (n, sym g n) := rfl

theorem nbrs_fst (g : Graph) (idx : Int) (ex : List Int) :
    (nbrs g idx ex).map (·.1) = freeNbrs g idx ex := by
  simp [nbrs_eq, List.map_map, Function.comp_def]

theorem nbrs_snd (g : Graph) (idx : Int) (ex : List Int) :
    (nbrs g idx ex).map (·.2) = (freeNbrs g idx ex).map (sym g) := by
  simp [nbrs_eq, List.map_map, Function.comp_def]

theorem mem_freeNbrs (g : Graph) (idx : Int) (ex : List Int) (n : Int) :
    n ∈ freeNbrs g idx ex ↔ n ∈ g.neighbors idx ∧ n ∉ ex := by
  simp [freeNbrs, List.mem_filter]

/-- number of pattern nodes not yet on the visited path -/
def unvisited (p : Graph) (pvis : List Int) : Nat :=
  (p.nodeIds.filter fun q => !pvis.contains q).length

theorem filter_length_le_of_imp {α} (pr qr : α → Bool) (himp : ∀ y, qr y = true → pr y = true) :
    ∀ l : List α, (l.filter qr).length ≤ (l.filter pr).length
  | [] => by simp
  | z :: zs => by
    have ih := filter_length_le_of_imp pr qr himp zs
    cases hq : qr z <;> cases hp : pr z
    · simp [hq, hp, ih]
    · simp [hq, hp]; omega
    · have := himp z hq; simp [hp] at this
    · simp [hq, hp, ih]

theorem filter_length_lt {α} (pr qr : α → Bool) (himp : ∀ y, qr y = true → pr y = true) :
    ∀ (l : List α) (x : α), x ∈ l → pr x = true → qr x = false →
      (l.filter qr).length < (l.filter pr).length
  | [], _, h, _, _ => by simp at h
  | y :: ys, x, h, hp, hq => by
    have hle := filter_length_le_of_imp pr qr himp ys
    rcases List.mem_cons.mp h with rfl | h
    · simp [hp, hq]; omega
    · have ih := filter_length_lt pr qr himp ys x h hp hq
      cases hqy : qr y <;> cases hpy : pr y
      · simp [hqy, hpy, ih]
      · simp [hqy, hpy]; omega
      · have := himp y hqy; simp [hpy] at this
      · simp [hqy, hpy, ih]

theorem unvisited_addSet_lt (p : Graph) (pvis : List Int) (q : Int) (hq : q ∈ p.nodeIds) (hv : q ∉ pvis) :
    unvisited p (addSet q pvis) < unvisited p pvis := by
  unfold unvisited
  refine filter_length_lt _ _ ?_ _ q hq (by simpa using hv) (by simp [mem_addSet])
  intro y hy
  simp only [Bool.not_eq_eq_eq_not, Bool.not_true, List.contains_eq_mem, decide_eq_false_iff_not,
    mem_addSet, not_or] at hy ⊢
  exact hy.2

theorem unvisited_le (p : Graph) (pvis : List Int) : unvisited p pvis ≤ p.numberOfNodes := by
  unfold unvisited Graph.numberOfNodes Graph.nodeIds
  exact Nat.le_trans (List.length_filter_le _ _) (by simp)

/-! ### `tryPairs` -/

theorem tryPairs_congr (g p : Graph) (idx pidx : Int) (r1 r2 : Int → Int → FitResult) :
    ∀ (pairs : List (Int × Option Int)) (acc : List (Int × Int) × List Int × List Int),
      (∀ q n, (q, some n) ∈ pairs → r1 n q = r2 n q) →
      tryPairs g p idx pidx r1 pairs acc = tryPairs g p idx pidx r2 pairs acc
  | [], acc, _ => rfl
  | (q, none) :: rest, (mp, vn, vpn), h => by
    simp only [tryPairs]
    exact tryPairs_congr g p idx pidx r1 r2 rest _ (fun q' n hm => h q' n (List.mem_cons_of_mem _ hm))
  | (q, some n) :: rest, (mp, vn, vpn), h => by
    simp only [tryPairs]
    rw [h q n (by simp)]
    split
    · split
      · exact tryPairs_congr g p idx pidx r1 r2 rest _ (fun q' n' hm => h q' n' (List.mem_cons_of_mem _ hm))
      · rfl
    · rfl

/-- an assignment all of whose pairs pass the bond test and the recursive call is accepted -/
theorem tryPairs_isSome (g p : Graph) (idx pidx : Int) (rec : Int → Int → FitResult) (f : Int → Int) :
    ∀ (l : List Int) (acc : List (Int × Int) × List Int × List Int),
      (∀ q ∈ l, g.bond? idx (f q) = p.bond? pidx q ∧ (rec (f q) q).ok = true) →
      (tryPairs g p idx pidx rec (l.map fun q => (q, some (f q))) acc).isSome = true
  | [], acc, _ => by simp [tryPairs]
  | q :: rest, (mp, vn, vpn), h => by
    obtain ⟨hb, hr⟩ := h q (by simp)
    simp only [List.map_cons, tryPairs, hb, beq_self_eq_true, ↓reduceIte, hr]
    exact tryPairs_isSome g p idx pidx rec f rest _ (fun q' hq' => h q' (List.mem_cons_of_mem _ hq'))

/-! ### fuel -/

theorem findSome?_congr' {α β} (f g : α → Option β) (l : List α) (h : ∀ x ∈ l, f x = g x) :
    l.findSome? f = l.findSome? g := by
  induction l with
  | nil => rfl
  | cons x xs ih =>
    simp only [List.findSome?_cons]
    rw [h x (by simp), ih (fun y hy => h y (List.mem_cons_of_mem _ hy))]

/-- pattern neighbours are pattern nodes (a part of `WF`) -/
def NbrsAreNodes (p : Graph) : Prop := ∀ u v, v ∈ p.neighbors u → v ∈ p.nodeIds

/-- **the fuel of `fit` is irrelevant** once it exceeds the number of pattern nodes that are not
    yet visited (the visited pattern set grows by one node per level) -/
theorem fit_fuel_irrelevant (g p : Graph) (m : Mapper) (hp : NbrsAreNodes p) :
    ∀ (fuel : Nat) (idx pidx : Int) (vis pvis : List Int),
      unvisited p (addSet pidx pvis) + 1 ≤ fuel →
      fit g p m fuel idx pidx vis pvis = fit g p m (fuel + 1) idx pidx vis pvis := by
  intro fuel
  induction fuel with
  | zero => intro idx pidx vis pvis h; omega
  | succ k ih =>
    intro idx pidx vis pvis hk
    rw [fit_succ g p m k, fit_succ g p m (k + 1)]
    split
    · rfl
    · have hcong : ∀ a ∈ m.permute ((nbrs p pidx (addSet pidx pvis)).map (·.2)) ((nbrs g idx (addSet idx vis)).map (·.2)),
          attempt g p m k idx pidx (addSet idx vis) (addSet pidx pvis) (nbrs g idx (addSet idx vis)) (nbrs p pidx (addSet pidx pvis)) a =
          attempt g p m (k + 1) idx pidx (addSet idx vis) (addSet pidx pvis) (nbrs g idx (addSet idx vis)) (nbrs p pidx (addSet pidx pvis)) a := by
        intro a _
        unfold attempt
        apply tryPairs_congr
        intro q n hm
        have hq : q ∈ (nbrs p pidx (addSet pidx pvis)).map (·.1) := (List.of_mem_zip hm).1
        rw [nbrs_fst, mem_freeNbrs] at hq
        have hlt := unvisited_addSet_lt p (addSet pidx pvis) q (hp _ _ hq.1) hq.2
        exact ih n q _ _ (by omega)
      rw [findSome?_congr' _ _ _ hcong]

/-- `fuelFor` is enough: more fuel never changes the answer of `map_anchored_subgraph`'s call -/
theorem fit_fuelFor_enough (g p : Graph) (m : Mapper) (hp : NbrsAreNodes p) (idx pidx : Int) (vis pvis : List Int) :
    ∀ k, fit g p m (fuelFor p + k) idx pidx vis pvis = fit g p m (fuelFor p) idx pidx vis pvis
  | 0 => rfl
  | k + 1 => by
    rw [← fit_fuelFor_enough g p m hp idx pidx vis pvis k]
    refine (fit_fuel_irrelevant g p m hp (fuelFor p + k) idx pidx vis pvis ?_).symm
    have := unvisited_le p (addSet pidx pvis)
    unfold fuelFor
    omega

/-! ### completeness of `fit` -/

section complete
variable (m : Mapper) (P H : Graph) (D : Int → Prop) (f : Int → Int)

/-- the assignment that `f` induces on the unvisited pattern neighbours: positions in the list of
    unvisited host neighbours -/
def inducedAssignment (hq pq : List Int) : List Nat := pq.map fun q => hq.idxOf (f q)

theorem induced_admissible (hcm : m.canMapToNothing = []) (hE : IsEmbeddingOn m P H D f)
    (hclosed : ∀ q q', D q → q' ∈ P.neighbors q → D q')
    (hnd : ∀ u, (P.neighbors u).Nodup)
    (pidx : Int) (vis pvis : List Int) (hD : D pidx)
    (hinv : ∀ q, D q → q ∉ pvis → f q ∉ vis) :
    Admissible m ((nbrs P pidx pvis).map (·.2)) ((nbrs H (f pidx) vis).map (·.2))
      (inducedAssignment f (freeNbrs H (f pidx) vis) (freeNbrs P pidx pvis)) := by
  have hmem : ∀ q ∈ freeNbrs P pidx pvis, D q ∧ f q ∈ freeNbrs H (f pidx) vis := by
    intro q hq
    rw [mem_freeNbrs] at hq
    have hDq := hclosed _ _ hD hq.1
    refine ⟨hDq, ?_⟩
    rw [mem_freeNbrs]
    exact ⟨(hE.bond pidx q hD hq.1).1, hinv q hDq hq.2⟩
  refine ⟨by simp [inducedAssignment, nbrs_snd], ?_, ?_, ?_⟩
  · unfold inducedAssignment
    refine nodup_map_on ?_ ((hnd pidx).filter _)
    intro x hx y hy hxy
    obtain ⟨hDx, hfx⟩ := hmem x hx
    obtain ⟨hDy, hfy⟩ := hmem y hy
    have h1 := List.getElem_idxOf (List.idxOf_lt_length_iff.mpr hfx)
    have h2 := List.getElem_idxOf (List.idxOf_lt_length_iff.mpr hfy)
    have : f x = f y := by
      rw [← h1, ← h2]
      simp only [hxy]
    exact hE.inj x y hDx hDy this
  · intro i hi
    simp only [inducedAssignment, List.mem_map] at hi
    obtain ⟨q, hq, rfl⟩ := hi
    rw [nbrs_snd, List.length_map]
    exact List.idxOf_lt_length_iff.mpr (hmem q hq).2
  · intro x hx
    rw [nbrs_snd, inducedAssignment, List.zip_map', List.mem_map] at hx
    obtain ⟨q, hq, rfl⟩ := hx
    obtain ⟨hDq, hfq⟩ := hmem q hq
    refine ⟨sym H (f q), ?_, ?_⟩
    · rw [nbrs_snd, List.getElem?_map]
      have hlt := List.idxOf_lt_length_iff.mpr hfq
      simp only [hlt, List.getElem?_eq_getElem, Option.map_some, List.getElem_idxOf]
    · rw [← admits_eq_admit1 m hcm]
      exact hE.admitted q hDq

theorem zip_self_map {α β} (g : α → β) : ∀ l : List α, l.zip (l.map g) = l.map fun x => (x, g x)
  | [] => rfl
  | x :: xs => by simp [zip_self_map g xs]

/-- the pairs the model builds from the induced assignment are `(q, some (f q))` -/
theorem induced_pairs (hq pq : List Int) (hmem : ∀ q ∈ pq, f q ∈ hq) (nn : List (Int × String))
    (hnn : nn.map (·.1) = hq) :
    pq.zip ((toInts (inducedAssignment f hq pq)).map fun si => if si < 0 then none else (nn[si.toNat]?).map (·.1)) =
      pq.map fun q => (q, some (f q)) := by
  have hmap : (toInts (inducedAssignment f hq pq)).map
      (fun si : Int => if si < 0 then none else (nn[si.toNat]?).map (·.1)) = pq.map fun q => some (f q) := by
    unfold toInts inducedAssignment
    rw [List.map_map, List.map_map]
    apply List.map_congr_left
    intro q hqm
    have hlt := List.idxOf_lt_length_iff.mpr (hmem q hqm)
    simp only [Function.comp, Int.toNat_natCast]
    have hneg : ¬ ((List.idxOf (f q) hq : Nat) : Int) < 0 := by omega
    rw [if_neg hneg]
    have : (nn[List.idxOf (f q) hq]?).map (·.1) = (nn.map (·.1))[List.idxOf (f q) hq]? := by
      rw [List.getElem?_map]
    rw [this, hnn]
    simp only [hlt, List.getElem?_eq_getElem, List.getElem_idxOf]
  rw [hmap]
  exact zip_self_map _ pq

/-- **loop invariant of C03**: `f` embeds the part `D` of the pattern (closed under pattern
    neighbours), the pattern node `pidx` is unvisited, and no unvisited pattern node of `D` has its
    image on the visited host path.  Then `fit` at the pair `(f pidx, pidx)` succeeds. -/
theorem fit_complete (hcm : m.canMapToNothing = []) (hE : IsEmbeddingOn m P H D f)
    (hnodes : ∀ q, D q → q ∈ P.nodeIds)
    (hclosed : ∀ q q', D q → q' ∈ P.neighbors q → D q')
    (hnd : ∀ u, (P.neighbors u).Nodup) :
    ∀ (fuel : Nat) (pidx : Int) (vis pvis : List Int), D pidx → pidx ∉ pvis →
      (∀ q, D q → q ∉ pvis → f q ∉ vis) → unvisited P pvis ≤ fuel →
      (fit H P m fuel (f pidx) pidx vis pvis).ok = true := by
  intro fuel
  induction fuel with
  | zero =>
    intro pidx vis pvis hD hpv _ hfuel
    have := unvisited_addSet_lt P pvis pidx (hnodes _ hD) hpv
    omega
  | succ k ih =>
    intro pidx vis pvis hD hpv hinv hfuel
    rw [fit_succ]
    split
    · rfl
    · rename_i hne
      have hinv' : ∀ q, D q → q ∉ addSet pidx pvis → f q ∉ addSet (f pidx) vis := by
        intro q hDq hq
        rw [mem_addSet, not_or] at hq
        rw [mem_addSet, not_or]
        exact ⟨fun h => hq.1 (hE.inj q pidx hDq hD h), hinv q hDq hq.2⟩
      have hmem : ∀ q ∈ freeNbrs P pidx (addSet pidx pvis),
          D q ∧ q ∉ addSet pidx pvis ∧ f q ∈ freeNbrs H (f pidx) (addSet (f pidx) vis) := by
        intro q hq
        rw [mem_freeNbrs] at hq
        have hDq := hclosed _ _ hD hq.1
        refine ⟨hDq, hq.2, ?_⟩
        rw [mem_freeNbrs]
        exact ⟨(hE.bond pidx q hD hq.1).1, hinv' q hDq hq.2⟩
      have hadm := induced_admissible m P H D f hcm hE hclosed hnd pidx (addSet (f pidx) vis) (addSet pidx pvis) hD hinv'
      have hlisted := permute_complete m hcm _ _ _ (by
        intro h
        rw [List.map_eq_nil_iff] at h
        simp [h] at hne) hadm
      have hlt := unvisited_addSet_lt P pvis pidx (hnodes _ hD) hpv
      have hsome : (attempt H P m k (f pidx) pidx (addSet (f pidx) vis) (addSet pidx pvis)
          (nbrs H (f pidx) (addSet (f pidx) vis)) (nbrs P pidx (addSet pidx pvis))
          (toInts (inducedAssignment f (freeNbrs H (f pidx) (addSet (f pidx) vis)) (freeNbrs P pidx (addSet pidx pvis))))).isSome = true := by
        unfold attempt
        rw [nbrs_fst, induced_pairs f _ _ (fun q hq => (hmem q hq).2.2) _ (nbrs_fst _ _ _)]
        apply tryPairs_isSome
        intro q hq
        obtain ⟨hDq, hqv, _⟩ := hmem q hq
        refine ⟨(hE.bond pidx q hD ((mem_freeNbrs _ _ _ _).mp hq).1).2, ?_⟩
        exact ih q _ _ hDq hqv hinv' (by omega)
      split
      · rfl
      · rename_i hnone
        have := (List.findSome?_eq_none_iff.mp hnone) _ hlisted
        rw [this] at hsome
        simp at hsome

end complete

/-! ### reachability -/

theorem Reach.snoc {g : Graph} {avoid : List Int} {a b c : Int} (h : Reach g avoid a b)
    (hbc : c ∈ g.neighbors b) (hc : c ∉ avoid) : Reach g avoid a c := by
  induction h with
  | refl ha => exact .step ha hbc (.refl hc)
  | step ha hab _ ih => exact .step ha hab (ih hbc)

theorem Reach.mem_nodes {g : Graph} (hg : NbrsAreNodes g) {avoid : List Int} {a b : Int}
    (h : Reach g avoid a b) (ha : a ∈ g.nodeIds) : b ∈ g.nodeIds := by
  induction h with
  | refl _ => exact ha
  | step _ hab _ ih => exact ih (hg _ _ hab)

/-! ### the property theorems -/

/-- general form: an embedding of a neighbour-closed part `D ∋ pa` of the pattern suffices -/
theorem anchored_complete_on (m : Mapper) (P H : Graph) (D : Int → Prop) (f : Int → Int) (pa : Int)
    (hcm : m.canMapToNothing = []) (hE : IsEmbeddingOn m P H D f)
    (hnodes : ∀ q, D q → q ∈ P.nodeIds) (hclosed : ∀ q q', D q → q' ∈ P.neighbors q → D q')
    (hnd : ∀ u, (P.neighbors u).Nodup) (hpa : D pa) :
    (mapAnchored H (f pa) P pa m).ok = true := by
  unfold mapAnchored
  have hadm : admits m (sym P pa) (sym H (f pa)) = true := hE.admitted pa hpa
  unfold admits sym at hadm
  simp only [hadm, ↓reduceIte]
  apply fit_complete m P H D f hcm hE hnodes hclosed hnd
  · exact hpa
  · simp
  · intro q _ _; simp
  · have := unvisited_le P []
    unfold fuelFor
    omega

/-- **C03 (anchored)**: for well-formed pattern `P`, any host `H`, any mapper that cannot map to
    nothing: if `f` is an embedding of `P` into `H` then anchored matching at `(f pa, pa)`
    reports success — for cyclic and acyclic graphs alike. -/
theorem anchored_complete (m : Mapper) (P H : Graph) (f : Int → Int) (pa : Int)
    (_hH : WF H) (hP : WF P) (hcm : m.canMapToNothing = []) (hE : IsEmbedding m P H f)
    (hpa : pa ∈ P.nodeIds) :
    (mapAnchored H (f pa) P pa m).ok = true :=
  anchored_complete_on m P H (· ∈ P.nodeIds) f pa hcm hE (fun _ h => h)
    (fun q q' _ h => (hP.nbrNode q q' h).2) hP.nbrNodup hpa

/-- the same from an embedding of the anchor's connected component only (this is the statement
    the oracle `existsEmbedding` decides) -/
theorem anchored_complete_component (m : Mapper) (P H : Graph) (f : Int → Int) (pa a : Int)
    (hP : WF P) (hcm : m.canMapToNothing = []) (hE : IsAnchoredEmbedding m P H pa a f)
    (hpa : pa ∈ P.nodeIds) :
    (mapAnchored H a P pa m).ok = true := by
  obtain ⟨hE, rfl⟩ := hE
  exact anchored_complete_on m P H (Reach P [] pa) f pa hcm hE
    (fun q h => h.mem_nodes (fun u v h => (hP.nbrNode u v h).2) hpa)
    (fun q q' h hq => h.snoc hq (by simp)) hP.nbrNodup (.refl (by simp))

/-- **C03 (un-anchored)**: on hosts whose node ids are `0..n-1` (what `map_subgraph_to_graph`
    iterates), a non-empty well-formed pattern that embeds at all is reported. -/
theorem unanchored_complete (m : Mapper) (P H : Graph)
    (hids : ∀ h ∈ H.nodeIds, 0 ≤ h ∧ h < (H.numberOfNodes : Int)) (hne : P.nodes ≠ [])
    (hH : WF H) (hP : WF P) (hcm : m.canMapToNothing = [])
    (hex : ∃ f, IsEmbedding m P H f) :
    mapSubgraphToGraph H P m = true := by
  obtain ⟨f, hE⟩ := hex
  obtain ⟨pa, hpa⟩ : ∃ pa, pa ∈ P.nodeIds := by
    cases hn : P.nodes with
    | nil => exact absurd hn hne
    | cons x xs => exact ⟨x.1, by simp [Graph.nodeIds, hn]⟩
  have hok := anchored_complete m P H f pa hH hP hcm hE hpa
  have hrange := hE.range pa hpa
  obtain ⟨h0, h1⟩ := hids _ hrange
  unfold mapSubgraphToGraph
  rw [List.any_eq_true]
  refine ⟨(f pa).toNat, by simp only [List.mem_range]; omega, ?_⟩
  have hcast : (((f pa).toNat : Nat) : Int) = f pa := by omega
  unfold mapSubgraph
  have : P.nodes.isEmpty = false := by cases hn : P.nodes <;> simp_all
  simp only [this, Bool.false_eq_true, ↓reduceIte, hcast, List.any_map, List.any_eq_true, Function.comp]
  exact ⟨pa, hpa, hok⟩

/-! ### non-vacuity (tests on concrete inputs, labelled as such) -/

/-- `parse('CC1CC1O')`: a cyclic host -/
def exHost : Graph :=
  { nodes := [(0, {symbol := some "C"}), (1, {symbol := some "C"}), (2, {symbol := some "C"}), (3, {symbol := some "C"}), (4, {symbol := some "O"})],
    adj := [(0, [(1, [(0, .s 2)])]), (1, [(0, [(0, .s 2)]), (2, [(0, .s 2)]), (3, [(0, .s 2)])]), (2, [(1, [(0, .s 2)]), (3, [(0, .s 2)])]), (3, [(2, [(0, .s 2)]), (1, [(0, .s 2)]), (4, [(0, .s 2)])]), (4, [(3, [(0, .s 2)])])] }

/-- `parse('RCO')` -/
def exPattern : Graph :=
  { nodes := [(0, {symbol := some "R"}), (1, {symbol := some "C"}), (2, {symbol := some "O"})],
    adj := [(0, [(1, [(0, .s 2)])]), (1, [(0, [(0, .s 2)]), (2, [(0, .s 2)])]), (2, [(1, [(0, .s 2)])])] }

def exMapper : Mapper := { wildcard := some "R" }

/-- test: the hypotheses of `anchored_complete_component` hold for the embedding
    `0 ↦ 1, 1 ↦ 3, 2 ↦ 4` of `RCO` into the cyclic host `CC1CC1O` (checked by the proved-sound
    `isEmbedding`), so the theorem yields success of the matcher at anchor pair (3, 1) -/
example : (mapAnchored exHost 3 exPattern 1 exMapper).ok = true :=
  anchored_complete_component exMapper exPattern exHost _ 1 3 (wfB_sound _ (by decide)) rfl
    (isEmbedding_sound exMapper exPattern exHost 1 3 [(1, 0), (3, 1), (4, 2)] (by decide)).1 (by decide)

/-- test: the conclusion agrees with running the model -/
example : (mapAnchored exHost 3 exPattern 1 exMapper).ok = true := by decide

/-- test: `fit` with one more unit of fuel gives the same result -/
example : fit exHost exPattern exMapper 4 3 1 [] [] = fit exHost exPattern exMapper 5 3 1 [] [] :=
  fit_fuel_irrelevant exHost exPattern exMapper (fun u v h => ((wfB_sound exPattern (by decide)).nbrNode u v h).2) 4 3 1 [] []
    (by decide)

end C03
