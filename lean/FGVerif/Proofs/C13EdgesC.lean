import FGVerif.Proofs.C13EdgesB
/-!
  C13 (edge level), part C: the edge enumeration `Graph.edges` and the fold `addEdgesFrom`.

  * `sel_edges`   the entries of `g.edges` between `a` and `b` are exactly `g.edgeData a b`
  * `edgeData_addEdgesFrom`   adding edges with fresh keys appends them to the key dict
-/
set_option linter.unusedSimpArgs false
namespace C13.E
open Graph

/-- `(key, label)` of the edges of the list that join `a` and `b` (in either direction) -/
def sel (a b : Int) (es : List Edge) : KeyDict :=
  es.filterMap fun e =>
    if (e.1 = a ∧ e.2.1 = b) ∨ (e.1 = b ∧ e.2.1 = a) then some (e.2.2.1, e.2.2.2) else none

@[simp] theorem sel_nil (a b : Int) : sel a b [] = [] := rfl

theorem sel_cons (a b : Int) (e : Edge) (E : List Edge) :
    sel a b (e :: E)
      = (if (e.1 = a ∧ e.2.1 = b) ∨ (e.1 = b ∧ e.2.1 = a) then [(e.2.2.1, e.2.2.2)] else []) ++ sel a b E := by
  unfold sel
  rw [List.filterMap_cons]
  split <;> rename_i h
  · split at h <;> simp_all
  · split at h <;> simp_all

theorem sel_append (a b : Int) (E1 E2 : List Edge) : sel a b (E1 ++ E2) = sel a b E1 ++ sel a b E2 := by
  unfold sel; exact List.filterMap_append

/-- the edges a row contributes -/
def expand (u : Int) (row : Row) : List Edge :=
  row.flatMap fun r => r.2.map fun kd => (u, r.1, kd.1, kd.2)

theorem expand_cons (u : Int) (r : Int × KeyDict) (row : Row) :
    expand u (r :: row) = (r.2.map fun kd => (u, r.1, kd.1, kd.2)) ++ expand u row := by
  simp [expand]

theorem sel_entry (a b u v : Int) (kd : KeyDict) :
    sel a b (kd.map fun e => (u, v, e.1, e.2))
      = if (u = a ∧ v = b) ∨ (u = b ∧ v = a) then kd else [] := by
  induction kd with
  | nil => simp
  | cons e kd ih =>
    rw [List.map_cons, sel_cons, ih]
    by_cases h : (u = a ∧ v = b) ∨ (u = b ∧ v = a) <;> simp [h]

theorem sel_expand (a b u : Int) (row : Row) (hn : (ids row).Nodup) :
    sel a b (expand u row) = if u = a then lk row b else if u = b then lk row a else [] := by
  induction row with
  | nil => simp [expand]
  | cons r row ih =>
    simp only [ids_cons, List.nodup_cons] at hn
    rw [expand_cons, sel_append, sel_entry, ih hn.2, lk_cons, lk_cons]
    have e1 : r.1 = b → lk row b = [] := fun e => lk_eq_nil (e ▸ hn.1)
    have e2 : r.1 = a → lk row a = [] := fun e => lk_eq_nil (e ▸ hn.1)
    by_cases h1 : u = a <;> by_cases h3 : u = b <;> by_cases h2 : r.1 = b <;> by_cases h4 : r.1 = a <;>
      simp_all

theorem go_cons (u : Int) (row : Row) (rest : List (Int × Row)) (seen : List Int) :
    Graph.edges.go ((u, row) :: rest) seen
      = expand u (row.filter fun r => !seen.contains r.1) ++ Graph.edges.go rest (u :: seen) := rfl

theorem go_nil (seen : List Int) : Graph.edges.go [] seen = [] := rfl

/-- the key dict found in the first row whose id is `a` or `b` -/
def firstRow : List (Int × Row) → Int → Int → KeyDict
  | [], _, _ => []
  | (u, row) :: rest, a, b => if u = a then lk row b else if u = b then lk row a else firstRow rest a b

theorem nodup_ids_filter {row : Row} (hn : (ids row).Nodup) (p : Int → Bool) :
    (ids (row.filter fun r => p r.1)).Nodup := by
  rw [ids_filter]; exact hn.sublist List.filter_sublist

theorem sel_go (rows : List (Int × Row)) (seen : List Int) (hn : (ids rows).Nodup)
    (hd : ∀ u ∈ ids rows, u ∉ seen) (hrow : ∀ r ∈ rows, (ids r.2).Nodup) (a b : Int) :
    sel a b (Graph.edges.go rows seen) = if a ∈ seen ∨ b ∈ seen then [] else firstRow rows a b := by
  induction rows generalizing seen with
  | nil => simp [go_nil, firstRow]
  | cons r rest ih =>
    obtain ⟨u, row⟩ := r
    simp only [ids_cons, List.nodup_cons] at hn
    have hu : u ∉ seen := hd u (by simp)
    have hd' : ∀ w ∈ ids rest, w ∉ u :: seen := by
      intro w hw
      simp only [List.mem_cons, not_or]
      exact ⟨fun e => hn.1 (e ▸ hw), hd w (by simp [hw])⟩
    have hrn := hrow (u, row) List.mem_cons_self
    rw [go_cons, sel_append,
      sel_expand a b u _ (nodup_ids_filter hrn (fun i => !seen.contains i)),
      lk_filter row (fun i => !seen.contains i), lk_filter row (fun i => !seen.contains i),
      ih (u :: seen) hn.2 hd' (fun r hr => hrow r (List.mem_cons_of_mem _ hr))]
    simp only [firstRow, List.mem_cons, List.contains_eq_mem, Bool.not_eq_true', decide_eq_false_iff_not]
    by_cases h1 : u = a
    · subst h1
      by_cases hb : b ∈ seen <;> simp [hb, hu]
    · by_cases h2 : u = b
      · subst h2
        by_cases ha : a ∈ seen <;> simp [ha, hu, h1]
      · have h1' : ¬ a = u := fun e => h1 e.symm
        have h2' : ¬ b = u := fun e => h2 e.symm
        simp [h1, h2, h1', h2']

theorem firstRow_eq (rows : List (Int × Row)) (a b : Int) (hs : lk (lk rows b) a = lk (lk rows a) b) :
    firstRow rows a b = lk (lk rows a) b := by
  induction rows with
  | nil => simp [firstRow]
  | cons r rest ih =>
    obtain ⟨u, row⟩ := r
    simp only [firstRow]
    by_cases h1 : u = a
    · simp [h1, lk_cons]
    · by_cases h2 : u = b
      · subst h2
        simp only [h1, if_true, if_false]
        simp only [lk_cons, if_true, h1, if_false] at hs ⊢
        exact hs
      · simp only [h1, h2, if_false]
        simp only [lk_cons, h1, h2, if_false] at hs ⊢
        exact ih hs

theorem WF.adj_nodup {g : Graph} (w : WF g) : (ids g.adj).Nodup := by rw [w.rows]; exact w.nodup

theorem WF.row_eq {g : Graph} (w : WF g) {r : Int × Row} (hr : r ∈ g.adj) : g.adjRow r.1 = r.2 := by
  rw [adjRow_eq]; exact lk_of_mem_nodup w.adj_nodup hr

theorem WF.row_nodup {g : Graph} (w : WF g) {r : Int × Row} (hr : r ∈ g.adj) : (ids r.2).Nodup := by
  rw [← w.row_eq hr]; exact w.nbrNodup r.1

/-- B (L'): the edges enumerated between `a` and `b` are exactly the key dict of the pair -/
theorem sel_edges {g : Graph} (w : WF g) (a b : Int) : sel a b g.edges = g.edgeData a b := by
  have h := sel_go g.adj [] w.adj_nodup (fun _ _ => by simp) (fun r hr => w.row_nodup hr) a b
  have e : g.edges = Graph.edges.go g.adj [] := rfl
  rw [e, h]
  simp only [List.not_mem_nil, or_self, if_false]
  rw [firstRow_eq, edgeData_eq]
  rw [← edgeData_eq, ← edgeData_eq]; exact w.symm b a

theorem mem_expand {u : Int} {row : Row} {e : Edge} (h : e ∈ expand u row) :
    e.1 = u ∧ ∃ x ∈ row, e.2.1 = x.1 ∧ (e.2.2.1, e.2.2.2) ∈ x.2 := by
  simp only [expand, List.mem_flatMap, List.mem_map] at h
  obtain ⟨x, hx, kd, hkd, rfl⟩ := h
  exact ⟨rfl, x, hx, rfl, hkd⟩

theorem mem_go {rows : List (Int × Row)} {seen : List Int} {e : Edge} (h : e ∈ Graph.edges.go rows seen) :
    ∃ r ∈ rows, e.1 = r.1 ∧ ∃ x ∈ r.2, e.2.1 = x.1 ∧ (e.2.2.1, e.2.2.2) ∈ x.2 := by
  induction rows generalizing seen with
  | nil => simp [go_nil] at h
  | cons r rest ih =>
    obtain ⟨u, row⟩ := r
    rw [go_cons, List.mem_append] at h
    rcases h with h | h
    · obtain ⟨h1, x, hx, h2, h3⟩ := mem_expand h
      exact ⟨(u, row), List.mem_cons_self, h1, x, (List.mem_filter.mp hx).1, h2, h3⟩
    · obtain ⟨r, hr, h'⟩ := ih h
      exact ⟨r, List.mem_cons_of_mem _ hr, h'⟩

/-- every enumerated edge is an entry of the key dict of its end points -/
theorem mem_edges {g : Graph} (w : WF g) {e : Edge} (h : e ∈ g.edges) :
    (e.2.2.1, e.2.2.2) ∈ g.edgeData e.1 e.2.1 := by
  obtain ⟨r, hr, h1, x, hx, h2, h3⟩ := mem_go h
  have : g.edgeData e.1 e.2.1 = x.2 := by
    rw [edgeData_row, h1, w.row_eq hr, h2]
    exact lk_of_mem_nodup (w.row_nodup hr) hx
  rw [this]; exact h3

theorem edges_endsIn {g : Graph} (w : WF g) : EndsIn g.nodeIds g.edges := by
  intro e he
  have h := mem_edges w he
  have hne : g.edgeData e.1 e.2.1 ≠ [] := fun e0 => by rw [e0] at h; simp at h
  exact ⟨w.left_mem hne, w.right_mem hne⟩

theorem edges_key_zero {g : Graph} (w : WF g) (hm : g.multi = false) : ∀ e ∈ g.edges, e.2.2.1 = 0 := by
  intro e he
  have h := mem_edges w he
  have hne : g.edgeData e.1 e.2.1 ≠ [] := fun e0 => by rw [e0] at h; simp at h
  have hk := w.simple hm _ _ hne
  have : e.2.2.1 ∈ keys (g.edgeData e.1 e.2.1) := by
    simp only [keys, List.mem_map]; exact ⟨_, h, rfl⟩
  rw [hk] at this; simpa using this

/-! ### C: the fold -/

theorem keys_append (k1 k2 : KeyDict) : keys (k1 ++ k2) = keys k1 ++ keys k2 := by simp [keys]

theorem edgeData_addEdgesFrom {g : Graph} (hr : Rows g) {E : List Edge} (h : EndsIn g.nodeIds E) (a b : Int)
    (hf : (keys (g.edgeData a b ++ sel a b E)).Nodup) :
    (addEdgesFrom g E).edgeData a b = g.edgeData a b ++ sel a b E := by
  induction E generalizing g with
  | nil => simp [addEdgesFrom]
  | cons e E ih =>
    have he := h e List.mem_cons_self
    have hE := edgeData_addEdgeKey hr he.1 he.2 e.2.2.1 e.2.2.2 a b
    have hc : ((a = e.1 ∧ b = e.2.1) ∨ (a = e.2.1 ∧ b = e.1)) ↔ ((e.1 = a ∧ e.2.1 = b) ∨ (e.1 = b ∧ e.2.1 = a)) := by
      constructor <;> rintro (⟨h1, h2⟩ | ⟨h1, h2⟩)
      · exact Or.inl ⟨h1.symm, h2.symm⟩
      · exact Or.inr ⟨h2.symm, h1.symm⟩
      · exact Or.inl ⟨h1.symm, h2.symm⟩
      · exact Or.inr ⟨h2.symm, h1.symm⟩
    simp only [hc] at hE
    rw [sel_cons] at hf ⊢
    rw [addEdgesFrom_cons, ih (addEdgeKey_rows hr he.1 he.2 _ _)
      (by rw [addEdgeKey_nodeIds he.1 he.2]; exact h.tail)]
    · rw [hE]
      by_cases hm : (e.1 = a ∧ e.2.1 = b) ∨ (e.1 = b ∧ e.2.1 = a)
      · simp only [hm, if_true] at hf ⊢
        have hfresh : e.2.2.1 ∉ keys (g.edgeData a b) := by
          intro hin
          simp only [keys_append, List.nodup_append] at hf
          exact hf.2.2 _ hin _ (by simp [keys]) rfl
        rw [setKey_fresh hfresh]; simp
      · simp [hm]
    · rw [hE]
      by_cases hm : (e.1 = a ∧ e.2.1 = b) ∨ (e.1 = b ∧ e.2.1 = a)
      · simp only [hm, if_true] at hf ⊢
        have hfresh : e.2.2.1 ∉ keys (g.edgeData a b) := by
          intro hin
          simp only [keys_append, List.nodup_append] at hf
          exact hf.2.2 _ hin _ (by simp [keys]) rfl
        rw [setKey_fresh hfresh]; simpa using hf
      · simpa [hm] using hf

/-- renaming the end points of an edge list by a map that is inverted by `inv` on them -/
theorem sel_map (ρ inv : Int → Int) (E : List Edge)
    (h : ∀ e ∈ E, ∀ c, (ρ e.1 = c ↔ e.1 = inv c) ∧ (ρ e.2.1 = c ↔ e.2.1 = inv c)) (a b : Int) :
    sel a b (E.map fun e => (ρ e.1, ρ e.2.1, e.2.2.1, e.2.2.2)) = sel (inv a) (inv b) E := by
  induction E with
  | nil => rfl
  | cons e E ih =>
    rw [List.map_cons, sel_cons, sel_cons, ih (fun x hx => h x (List.mem_cons_of_mem _ hx))]
    have he := h e List.mem_cons_self
    simp only [(he a).1, (he a).2, (he b).1, (he b).2]

end C13.E
