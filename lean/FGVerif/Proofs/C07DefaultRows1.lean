import FGVerif.Proofs.C07DefaultDefs
/-! C07 — kernel-checked correspondence of the matcher model with the code on rows 8…15 of the default table -/
namespace C07
open Gen.C07
theorem default_emb_rows1 : embRows ((configs.drop (1 * chunk)).take chunk) = (embImpl.drop (1 * chunk)).take chunk := by
  decide +kernel
end C07
