import FGVerif.Model.C06Full
/-!
  C06 — the answer of the query algorithm (C05) does not depend on how the nodes of the hierarchy
  are NUMBERED: renumbering the tree by a permutation of its node indices (`C06.relabel`) leaves
  `C05.getFunctionalGroups` unchanged.  (The harness numbers the nodes of the real hierarchy
  topologically, the adapter of `Model/C06Full.lean` by position in the sorted list.)  Core Lean only.

  * `C06.getFunctionalGroups_relabel`
-/
namespace C06
open C05

section
variable (σ : List Nat) (t : Tree)

/-- the node the renumbered tree holds at the new index of old node `i` -/
theorem relabel_node (hσ : σ.Perm (List.range t.nodes.length)) (i : Nat) :
    (relabel σ t).nodes[σ.idxOf i]? =
      (t.nodes[i]?).map fun nd => { cfg := nd.cfg, children := nd.children.map fun c => σ.idxOf c } := by
  by_cases hi : i < t.nodes.length
  · have hmem : i ∈ σ := hσ.mem_iff.mpr (List.mem_range.mpr hi)
    have hlt : σ.idxOf i < σ.length := List.idxOf_lt_length_of_mem hmem
    simp only [relabel, List.getElem?_map, List.getElem?_eq_getElem hlt, List.getElem_idxOf hlt,
      Option.map_some, List.getElem?_eq_getElem hi]
  · have hnm : i ∉ σ := fun h => hi (List.mem_range.mp (hσ.mem_iff.mp h))
    have hlen : σ.idxOf i = σ.length := List.idxOf_eq_length hnm
    simp only [relabel, List.getElem?_map, hlen, List.getElem?_eq_none (Nat.le_refl _), Option.map_none,
      List.getElem?_eq_none (Nat.le_of_not_lt hi)]

theorem relabel_name (hσ : σ.Perm (List.range t.nodes.length)) (i : Nat) :
    (relabel σ t).name (σ.idxOf i) = t.name i := by
  unfold Tree.name
  rw [relabel_node σ t hσ i]
  cases t.nodes[i]? <;> rfl

theorem relabel_fuel (hσ : σ.Perm (List.range t.nodes.length)) : (relabel σ t).fuel = t.fuel := by
  have := hσ.length_eq
  simp only [List.length_range] at this
  simp [Tree.fuel, relabel, this]

/-- new index of the returned node, same atom list -/
def reIdx (x : Nat × List Int) : Nat × List Int := (σ.idxOf x.1, x.2)

theorem bestStep_relabel (M : Matcher) (hσ : σ.Perm (List.range t.nodes.length)) (g : Graph) (idx : Int)
    (maxId : Option Int) (rec rec' : List Nat → Option (Nat × List Int))
    (hrec : ∀ L, rec' (L.map fun c => σ.idxOf c) = (rec L).map (reIdx σ))
    (best : Option (Nat × List Int)) (ni : Nat) :
    bestStep M (relabel σ t) g idx maxId rec' (best.map (reIdx σ)) (σ.idxOf ni) =
      (bestStep M t g idx maxId rec best ni).map (reIdx σ) := by
  unfold bestStep
  rw [relabel_node σ t hσ ni]
  cases t.nodes[ni]? with
  | none => rfl
  | some nd =>
    simp only [Option.map_some]
    cases (isFunctionalGroupM M g idx nd.cfg maxId).1 with
    | false => rfl
    | true =>
      simp only [if_true]
      rw [hrec nd.children]
      cases rec nd.children <;> rfl

theorem foldl_bestStep_relabel (M : Matcher) (hσ : σ.Perm (List.range t.nodes.length)) (g : Graph) (idx : Int)
    (maxId : Option Int) (rec rec' : List Nat → Option (Nat × List Int))
    (hrec : ∀ L, rec' (L.map fun c => σ.idxOf c) = (rec L).map (reIdx σ)) :
    ∀ (L : List Nat) (best : Option (Nat × List Int)),
      (L.map fun c => σ.idxOf c).foldl (bestStep M (relabel σ t) g idx maxId rec') (best.map (reIdx σ)) =
        (L.foldl (bestStep M t g idx maxId rec) best).map (reIdx σ) := by
  intro L
  induction L with
  | nil => intro best; rfl
  | cons x xs ih =>
    intro best
    simp only [List.map_cons, List.foldl_cons]
    rw [bestStep_relabel σ t M hσ g idx maxId rec rec' hrec best x]
    exact ih _

/-- `__find_best_node_rec` on the renumbered tree returns the renumbered node -/
theorem findBest_relabel (M : Matcher) (hσ : σ.Perm (List.range t.nodes.length)) (g : Graph) (idx : Int)
    (maxId : Option Int) :
    ∀ (fuel : Nat) (L : List Nat),
      findBestNodeRecM M (relabel σ t) g idx maxId fuel (L.map fun c => σ.idxOf c) =
        (findBestNodeRecM M t g idx maxId fuel L).map (reIdx σ) := by
  intro fuel
  induction fuel with
  | zero => intro L; rfl
  | succ fuel ih =>
    intro L
    simp only [findBestNodeRecM]
    exact foldl_bestStep_relabel σ t M hσ g idx maxId _ _ ih L none

end

theorem worklist_relabel (σ : List Nat) (find find' : Int → Option (Nat × List Int)) (name name' : Nat → String)
    (hf : ∀ a, find' a = (find a).map (reIdx σ)) (hn : ∀ i, name' (σ.idxOf i) = name i) :
    ∀ (fuel : Nat) (cands unid : List Int) (groups : List (String × List Int)),
      worklist find' name' fuel cands unid groups = worklist find name fuel cands unid groups := by
  intro fuel
  induction fuel with
  | zero => intro _ _ _; rfl
  | succ fuel ih =>
    intro cands unid groups
    cases cands with
    | nil => rfl
    | cons a cands =>
      simp only [worklist]
      rw [hf a]
      cases find a with
      | none => exact ih _ _ _
      | some x =>
        obtain ⟨ni, ids⟩ := x
        simp only [Option.map_some, reIdx, hn ni]
        exact ih _ _ _

/-- **C06.getFunctionalGroups_relabel** — renumbering the nodes of the hierarchy by a permutation
    of its indices does not change the answer of the query. -/
theorem getFunctionalGroups_relabel (σ : List Nat) (t : Tree) (hσ : σ.Perm (List.range t.nodes.length))
    (g : Graph) (m : Perm.Mapper) (requireH : Bool) :
    getFunctionalGroups (relabel σ t) g m requireH = getFunctionalGroups t g m requireH := by
  unfold getFunctionalGroups getFunctionalGroupsM
  apply worklist_relabel σ
  · intro a
    rw [relabel_fuel σ t hσ]
    exact findBest_relabel σ t (modelMatcher m) hσ _ a _ t.fuel t.roots
  · exact relabel_name σ t hσ

/-- the executable check implies the hypothesis -/
theorem perm_of_isPermOfRange (σ : List Nat) (n : Nat) (h : isPermOfRange σ n = true) :
    σ.Perm (List.range n) := List.isPerm_iff.mp h

end C06
