import FGVerif.Proofs.C15SplitA
/-!
  C15 (split / superposition), part B: `copyGraph` and the loop of `split_its` at the level of
  `edgeData`; both halves of the reaction are well-formed graphs on the nodes of the pattern whose
  key dicts are obtained from those of the pattern by `stepG` / `stepH`.
-/
set_option linter.unusedSimpArgs false
namespace C15.P
open Graph C13 C13.E

/-! ### `copyGraph` -/

theorem copyGraph_eq_stage (x : Graph) : copyGraph x = stage { multi := x.multi } x := rfl

theorem copy_stageOk {x : Graph} (w : WF x) : StageOk { multi := x.multi } x :=
  ⟨WF_empty _, w, fun _ _ => by simp [Graph.nodeIds]⟩

theorem WF_copyGraph {x : Graph} (w : WF x) : WF (copyGraph x) := WF_stage (copy_stageOk w) rfl

theorem copyGraph_nodes' {x : Graph} (w : WF x) : (copyGraph x).nodes = x.nodes := by
  rw [copyGraph_eq_stage, stage_nodes (copy_stageOk w)]; rfl

theorem copyGraph_multi {x : Graph} (w : WF x) : (copyGraph x).multi = x.multi := by
  rw [copyGraph_eq_stage, stage_multi (copy_stageOk w)]

theorem copyGraph_edgeData {x : Graph} (w : WF x) (a b : Int) : (copyGraph x).edgeData a b = x.edgeData a b := by
  rw [copyGraph_eq_stage, stage_edgeData (copy_stageOk w)]
  have : Graph.edgeData ({ multi := x.multi } : Graph) a b = [] := rfl
  rw [this]; rfl

/-! ### the loop of `split_its` -/

/-- what one pattern bond with label `l` does to the key dict of its pair in the reactant half -/
def stepG (l : Label) (kd : KeyDict) : KeyDict :=
  match l with
  | .p a _ => rcData a kd
  | _ => kd

/-- … and in the product half -/
def stepH (l : Label) (kd : KeyDict) : KeyDict :=
  match l with
  | .p _ b => rcData b kd
  | _ => kd

theorem splitStep_edgeData (gh : Graph × Graph) (e : Edge) (a b : Int) :
    (splitStep gh e).1.edgeData a b
        = (if (e.1 = a ∧ e.2.1 = b) ∨ (e.1 = b ∧ e.2.1 = a) then stepG e.2.2.2 (gh.1.edgeData a b)
           else gh.1.edgeData a b) ∧
    (splitStep gh e).2.edgeData a b
        = (if (e.1 = a ∧ e.2.1 = b) ∨ (e.1 = b ∧ e.2.1 = a) then stepH e.2.2.2 (gh.2.edgeData a b)
           else gh.2.edgeData a b) := by
  obtain ⟨u, v, k, l⟩ := e
  have hc : ((a = u ∧ b = v) ∨ (a = v ∧ b = u)) ↔ ((u = a ∧ v = b) ∨ (u = b ∧ v = a)) := by
    constructor <;> rintro (⟨h1, h2⟩ | ⟨h1, h2⟩)
    · exact Or.inl ⟨h1.symm, h2.symm⟩
    · exact Or.inr ⟨h2.symm, h1.symm⟩
    · exact Or.inl ⟨h1.symm, h2.symm⟩
    · exact Or.inr ⟨h2.symm, h1.symm⟩
  cases l with
  | p g h => simp only [splitStep, stepG, stepH, setRcEdge_edgeData, hc, and_self]
  | s o => simp [splitStep, stepG, stepH]
  | nil => simp [splitStep, stepG, stepH]

theorem WF_splitStep {gh : Graph × Graph} (w : WF gh.1 ∧ WF gh.2) (e : Edge) :
    WF (splitStep gh e).1 ∧ WF (splitStep gh e).2 := by
  unfold splitStep
  split
  · exact ⟨WF_setRcEdge w.1 _ _ _, WF_setRcEdge w.2 _ _ _⟩
  · exact w

theorem WF_splitFold (E : List Edge) : ∀ {gh : Graph × Graph}, WF gh.1 ∧ WF gh.2 →
    WF (splitFold gh E).1 ∧ WF (splitFold gh E).2 := by
  induction E with
  | nil => intro gh w; exact w
  | cons e E ih => intro gh w; rw [splitFold_cons]; exact ih (WF_splitStep w e)

theorem splitStep_multi (gh : Graph × Graph) (e : Edge) :
    (splitStep gh e).1.multi = gh.1.multi ∧ (splitStep gh e).2.multi = gh.2.multi := by
  unfold splitStep
  split
  · exact ⟨setRcEdge_multi _ _ _ _, setRcEdge_multi _ _ _ _⟩
  · exact ⟨rfl, rfl⟩

theorem splitFold_multi (E : List Edge) : ∀ gh : Graph × Graph,
    (splitFold gh E).1.multi = gh.1.multi ∧ (splitFold gh E).2.multi = gh.2.multi := by
  induction E with
  | nil => intro gh; exact ⟨rfl, rfl⟩
  | cons e E ih =>
    intro gh
    rw [splitFold_cons]
    have h1 := ih (splitStep gh e)
    have h2 := splitStep_multi gh e
    exact ⟨h1.1.trans h2.1, h1.2.trans h2.2⟩

/-- the key dict of a pair after the loop: every enumerated bond of the pair acts once, in order -/
theorem splitFold_edgeData (E : List Edge) (a b : Int) : ∀ gh : Graph × Graph,
    (splitFold gh E).1.edgeData a b = (sel a b E).foldl (fun kd kl => stepG kl.2 kd) (gh.1.edgeData a b) ∧
    (splitFold gh E).2.edgeData a b = (sel a b E).foldl (fun kd kl => stepH kl.2 kd) (gh.2.edgeData a b) := by
  induction E with
  | nil => intro gh; exact ⟨rfl, rfl⟩
  | cons e E ih =>
    intro gh
    rw [splitFold_cons, sel_cons]
    have h1 := ih (splitStep gh e)
    have h2 := splitStep_edgeData gh e a b
    rw [h1.1, h1.2, h2.1, h2.2]
    by_cases hm : (e.1 = a ∧ e.2.1 = b) ∨ (e.1 = b ∧ e.2.1 = a)
    · simp [hm]
    · simp [hm]

/-! ### the halves of the reaction of a well-formed pattern -/

theorem WF_reaction {x : Graph} (w : WF x) : WF (reaction x).1 ∧ WF (reaction x).2 :=
  WF_splitFold x.edges (gh := (copyGraph x, copyGraph x)) ⟨WF_copyGraph w, WF_copyGraph w⟩

theorem reaction_nodes' {x : Graph} (w : WF x) : (reaction x).1.nodes = x.nodes ∧ (reaction x).2.nodes = x.nodes := by
  have h := splitFold_nodes x.edges (copyGraph x, copyGraph x)
  have hn := copyGraph_nodes' w
  exact ⟨h.1.trans hn, h.2.trans hn⟩

theorem reaction_multi {x : Graph} (w : WF x) :
    (reaction x).1.multi = x.multi ∧ (reaction x).2.multi = x.multi := by
  have h := splitFold_multi x.edges (copyGraph x, copyGraph x)
  have hn := copyGraph_multi w
  exact ⟨h.1.trans hn, h.2.trans hn⟩

/-- every bond of the pair acts on the key dict of the pair -/
theorem reaction_edgeData {x : Graph} (w : WF x) (a b : Int) :
    (reaction x).1.edgeData a b = (x.edgeData a b).foldl (fun kd kl => stepG kl.2 kd) (x.edgeData a b) ∧
    (reaction x).2.edgeData a b = (x.edgeData a b).foldl (fun kd kl => stepH kl.2 kd) (x.edgeData a b) := by
  have h := splitFold_edgeData x.edges a b (copyGraph x, copyGraph x)
  rw [sel_edges w a b] at h
  simp only [copyGraph_edgeData w] at h
  exact h

/-- on a simple graph a pair has no bond or exactly the one with key 0 -/
theorem simple_edgeData {x : Graph} (w : WF x) (hs : x.multi = false) (a b : Int) :
    x.edgeData a b = [] ∨ ∃ l, x.edgeData a b = [(0, l)] := by
  by_cases h : x.edgeData a b = []
  · exact Or.inl h
  · right
    have hk := w.simple hs a b h
    unfold keys at hk
    match hd : x.edgeData a b, hk with
    | [e], hk =>
      simp only [List.map_cons, List.map_nil, List.cons.injEq, and_true] at hk
      exact ⟨e.2, by rw [← hk]⟩
    | [], hk => simp at hk
    | _ :: _ :: _, hk => simp at hk

/-- the halves on a simple pattern: the pair's only label acts once -/
theorem reaction_edgeData_simple {x : Graph} (w : WF x) {a b : Int} {l : Label} (h : x.edgeData a b = [(0, l)]) :
    (reaction x).1.edgeData a b = stepG l [(0, l)] ∧ (reaction x).2.edgeData a b = stepH l [(0, l)] := by
  have := reaction_edgeData w a b
  rw [h] at this
  exact this

theorem reaction_edgeData_nil {x : Graph} (w : WF x) {a b : Int} (h : x.edgeData a b = []) :
    (reaction x).1.edgeData a b = [] ∧ (reaction x).2.edgeData a b = [] := by
  have := reaction_edgeData w a b
  rw [h] at this
  exact this

/-- the label of a bond of the pattern is the label of one of its enumerated edges -/
theorem label_mem_edges {x : Graph} (w : WF x) {a b : Int} {k : Nat} {l : Label} (h : (k, l) ∈ x.edgeData a b) :
    ∃ e ∈ x.edges, e.2.2.2 = l := by
  rw [← sel_edges w a b] at h
  unfold sel at h
  rcases List.mem_filterMap.mp h with ⟨e, he, hx⟩
  split at hx
  · simp only [Option.some.injEq, Prod.mk.injEq] at hx; exact ⟨e, he, hx.2⟩
  · simp at hx

end C15.P
