import FGVerif.Proofs.C13EdgesF
/-!
  C13 (edge level), part G: the stages of `replace_node` under the domain hypothesis, and T2.
-/
set_option linter.unusedSimpArgs false

namespace C13
open Graph

/-- the incident bonds of `x` as `(neighbour, label)`, in the order networkx reports them after the
    composition step -/
def incOfCompose (g : Graph) (x : Int) (sub : Graph) : List (Int × Label) :=
  ((compose g (shiftGraph sub g.nodes.length)).edgesOf x).map fun e => (e.2.1, e.2.2.2)

/-- `specLabels` relative to a given incident order -/
def specLabelsOf (inc : List (Int × Label)) (g : Graph) (x : Int) (sub : Graph) (anchors : List Nat)
    (a b : Int) : List Label :=
  let n1 : Int := (g.nodes.length : Int) - 1
  if a < n1 ∧ b < n1 then labelsBetween g (unren x a) (unren x b)
  else if n1 ≤ a ∧ n1 ≤ b then labelsBetween sub (a - n1) (b - n1)
  else if sub.nodes.isEmpty then []
  else if a < n1 then crossLabelsOf inc anchors (unren x a) (b - n1)
  else crossLabelsOf inc anchors (unren x b) (a - n1)

theorem specLabels_eq (g : Graph) (x : Int) (sub : Graph) (anchors : List Nat) (a b : Int) :
    specLabels g x sub anchors a b = specLabelsOf (incSpec g x) g x sub anchors a b := rfl

end C13

namespace C13.E
open Graph

/-- the part of the domain the composition step needs: the ids of the parent are `0..n-1` and those of
    the sub-pattern `0..m-1`, in ANY node order -/
structure Dom0 (g : Graph) (x : Int) (sub : Graph) : Prop where
  wg : WF g
  cg : g.nodeIds.Perm (upto g.nodes.length)
  hx : x ∈ g.nodeIds
  ws : WF sub
  cs : sub.nodeIds.Perm (upto sub.nodes.length)

/-- the domain of the property, in `Prop` form -/
structure Dom (g : Graph) (x : Int) (sub : Graph) (anchors : List Nat) : Prop extends Dom0 g x sub where
  noloop : x ∉ g.neighbors x
  anc : sub.nodes.length > 0 → ∀ i, anchorAt anchors i < sub.nodes.length
  multi : sub.multi = g.multi

theorem anchorAt_lt {anchors : List Nat} {m : Nat} (hne : anchors ≠ []) (hall : ∀ a ∈ anchors, a < m) (i : Nat) :
    anchorAt anchors i < m := by
  unfold anchorAt
  have hlen : 0 < anchors.length := List.length_pos_iff.mpr hne
  have hidx : (if anchors.length ≤ i then anchors.length - 1 else i) < anchors.length := by
    split <;> omega
  rw [List.getD_eq_getElem?_getD, List.getElem?_eq_getElem hidx]
  exact hall _ (List.getElem_mem hidx)

theorem dom_of_inDomain {g : Graph} {x : Int} {sub : Graph} {anchors : List Nat}
    (h : inDomain g x sub anchors = true) : Dom g x sub anchors := by
  unfold inDomain at h
  simp only [Bool.and_eq_true, Bool.not_eq_true', beq_iff_eq] at h
  obtain ⟨⟨⟨⟨⟨⟨⟨h1, h2⟩, h3⟩, h4⟩, h5⟩, h6⟩, h7⟩, h8⟩ := h
  refine ⟨⟨WF_of_wf h1, ?_, (hasNode_iff g x).mp h3, WF_of_wf h5, ?_⟩, ?_, ?_, h8⟩
  · unfold contiguous at h2; exact List.Perm.of_eq (beq_iff_eq.mp h2)
  · unfold contiguous at h6; exact List.Perm.of_eq (beq_iff_eq.mp h6)
  · intro hm
    have := (hasEdge_iff g x x).mpr hm
    rw [this] at h4; cases h4
  · intro hm i
    unfold anchorsOk at h7
    simp only [Bool.or_eq_true, Bool.and_eq_true, Bool.not_eq_true', List.all_eq_true, decide_eq_true_eq,
      List.isEmpty_iff] at h7
    rcases h7 with h7 | h7
    · rw [h7] at hm; simp at hm
    · apply anchorAt_lt _ h7.2
      intro e; rw [e] at h7; simp at h7

variable {g : Graph} {x : Int} {sub : Graph} {anchors : List Nat}

/-- the sub-pattern parsed at offset `n` -/
def hOf (g sub : Graph) : Graph := shiftGraph sub (g.nodes.length : Int)

/-- after the composition step -/
def G1 (g sub : Graph) : Graph := compose g (hOf g sub)

theorem Dom0.x_range (d : Dom0 g x sub) : 0 ≤ x ∧ x < (g.nodes.length : Int) := by
  exact mem_upto.mp (d.cg.mem_iff.mp d.hx)

theorem Dom0.g_mem (d : Dom0 g x sub) {a : Int} : a ∈ g.nodeIds ↔ 0 ≤ a ∧ a < (g.nodes.length : Int) :=
  d.cg.mem_iff.trans mem_upto

theorem Dom0.s_mem (d : Dom0 g x sub) {a : Int} :
    a ∈ sub.nodeIds ↔ 0 ≤ a ∧ a < (sub.nodes.length : Int) := by
  exact d.cs.mem_iff.trans mem_upto

theorem Dom0.h_nodeIds (d : Dom0 g x sub) :
    (hOf g sub).nodeIds.Perm ((upto sub.nodes.length).map (· + (g.nodes.length : Int))) := by
  unfold hOf; rw [shift_nodeIds]; exact d.cs.map _

theorem Dom0.composeOk (d : Dom0 g x sub) : ComposeOk g (hOf g sub) := by
  refine ⟨d.wg, WF_shift d.ws _, ?_⟩
  intro a ha
  rw [d.h_nodeIds.mem_iff, mem_map_add, mem_upto] at ha
  rw [d.g_mem]; omega

theorem Dom.w1 (d : Dom g x sub anchors) : WF (G1 g sub) := WF_compose d.composeOk d.multi

theorem Dom0.G1_nodeIds (d : Dom0 g x sub) :
    (G1 g sub).nodeIds.Perm (upto (g.nodes.length + sub.nodes.length)) := by
  unfold G1; rw [compose_nodeIds d.composeOk, upto_add]; exact d.cg.append d.h_nodeIds

theorem Dom0.G1_mem (d : Dom0 g x sub) {a : Int} :
    a ∈ (G1 g sub).nodeIds ↔ 0 ≤ a ∧ a < (g.nodes.length : Int) + (sub.nodes.length : Int) := by
  rw [d.G1_nodeIds.mem_iff, mem_upto]; simp only [Int.natCast_add]

theorem Dom0.G1_multi (d : Dom0 g x sub) : (G1 g sub).multi = g.multi := compose_multi d.composeOk

theorem Dom0.G1_edgeData (d : Dom0 g x sub) (a b : Int) :
    (G1 g sub).edgeData a b
      = g.edgeData a b ++ sub.edgeData (a - (g.nodes.length : Int)) (b - (g.nodes.length : Int)) := by
  unfold G1; rw [compose_edgeData d.composeOk]; unfold hOf; rw [shift_edgeData]

theorem Dom0.g_nil (d : Dom0 g x sub) {a b : Int}
    (h : a < 0 ∨ (g.nodes.length : Int) ≤ a ∨ b < 0 ∨ (g.nodes.length : Int) ≤ b) : g.edgeData a b = [] := by
  apply edgeData_nil_of_not_node d.wg
  rw [d.g_mem, d.g_mem]; omega

theorem Dom0.s_nil (d : Dom0 g x sub) {a b : Int}
    (h : a < 0 ∨ (sub.nodes.length : Int) ≤ a ∨ b < 0 ∨ (sub.nodes.length : Int) ≤ b) :
    sub.edgeData a b = [] := by
  apply edgeData_nil_of_not_node d.ws
  rw [d.s_mem, d.s_mem]; omega

/-- the incident edges of `x` after the composition step -/
def incEdges (g : Graph) (x : Int) (sub : Graph) : List Edge := (G1 g sub).edgesOf x

theorem incEdges_eq (g : Graph) (x : Int) (sub : Graph) :
    incEdges g x sub = expand x ((G1 g sub).adjRow x) := rfl

theorem incOfCompose_eq (g : Graph) (x : Int) (sub : Graph) :
    incOfCompose g x sub = incOf (incEdges g x sub) := rfl

/-- neighbours of `x` after the composition are parent nodes -/
theorem Dom.inc_range (d : Dom g x sub anchors) {e : Edge} (he : e ∈ incEdges g x sub) :
    0 ≤ e.2.1 ∧ e.2.1 < (g.nodes.length : Int) := by
  rw [incEdges_eq] at he
  obtain ⟨_, r, hr, h2, _⟩ := mem_expand he
  have hnb : e.2.1 ∈ (G1 g sub).neighbors x := by
    rw [neighbors_row, h2]; exact mem_ids_of_mem hr
  have hne := d.w1.nonempty _ _ hnb
  rw [d.G1_edgeData] at hne
  have hs : sub.edgeData (x - (g.nodes.length : Int)) (e.2.1 - (g.nodes.length : Int)) = [] :=
    d.s_nil (Or.inl (by have := d.x_range; omega))
  rw [hs, List.append_nil] at hne
  exact d.g_mem.mp (d.wg.right_mem hne)

/-- the triples of the loop (none when the sub-pattern is empty) -/
def TT (g : Graph) (x : Int) (sub : Graph) (anchors : List Nat) : List Triple :=
  if sub.nodes.length > 0 then triples (g.nodes.length : Int) anchors (incEdges g x sub).zipIdx else []

/-- after the re-attachment loop -/
def G2 (g : Graph) (x : Int) (sub : Graph) (anchors : List Nat) : Graph :=
  addNewFrom (G1 g sub) (TT g x sub anchors)

theorem replaceNodeLen_eq (g : Graph) (x : Int) (sub : Graph) (anchors : List Nat) :
    replaceNodeLen g x sub anchors = relabelGraph ((G2 g x sub anchors).removeNode x) 0 := by
  unfold replaceNodeLen replaceNodeAt G2 TT
  simp only [shift_nodes_length]
  by_cases hm : sub.nodes.length > 0
  · simp only [hm, if_true, reattach_eq]; rfl
  · simp only [hm, if_false]; rfl

theorem Dom.TT_ends (d : Dom g x sub anchors) : EndsInT (G1 g sub).nodeIds (TT g x sub anchors) := by
  unfold TT
  by_cases hm : sub.nodes.length > 0
  · simp only [hm, if_true]
    intro t ht
    obtain ⟨q, hq, rfl⟩ := List.mem_map.mp ht
    have h1 := d.anc hm q.2
    have h2 := d.inc_range (List.fst_mem_of_mem_zipIdx hq)
    rw [d.G1_mem, d.G1_mem]
    constructor
    · constructor <;> simp only <;> omega
    · constructor <;> simp only <;> omega
  · simp only [hm, if_false]; intro t ht; simp at ht

theorem TT_below (g : Graph) (x : Int) (sub : Graph) (anchors : List Nat) {a b : Int}
    (ha : a < (g.nodes.length : Int)) (hb : b < (g.nodes.length : Int)) : selL a b (TT g x sub anchors) = [] := by
  unfold TT; split
  · exact selL_below _ _ _ a b ha hb
  · rfl

theorem Dom.TT_above (d : Dom g x sub anchors) {a b : Int}
    (ha : (g.nodes.length : Int) ≤ a) (hb : (g.nodes.length : Int) ≤ b) : selL a b (TT g x sub anchors) = [] := by
  unfold TT; split
  · apply selL_above _ _ _ a b _ ha hb
    intro q hq
    exact (d.inc_range (List.fst_mem_of_mem_zipIdx hq)).2
  · rfl

theorem TT_cross (g : Graph) (x : Int) (sub : Graph) (anchors : List Nat) {a : Int} (b : Int)
    (hm : sub.nodes.length > 0) (ha : a < (g.nodes.length : Int)) :
    selL a b (TT g x sub anchors)
      = crossLabelsOf (incOfCompose g x sub) anchors a (b - (g.nodes.length : Int)) := by
  unfold TT; simp only [hm, if_true]
  rw [incOfCompose_eq]; exact selL_cross _ anchors _ a b ha

/-! ### the simple-graph side condition of the loop -/

theorem filterMap_none_of_fst {α : Type} (l : List ((Int × α) × Nat)) (p : Int) (c : Nat → Bool)
    (h : ∀ q ∈ l, q.1.1 ≠ p) :
    l.filterMap (fun e => if e.1.1 == p && c e.2 then some e.1.2 else none) = [] := by
  apply List.filterMap_eq_nil_iff.mpr
  intro q hq
  have : (q.1.1 == p) = false := by
    simp only [beq_eq_false_iff_ne, ne_eq]; exact h q hq
  simp [this]

theorem cross_length_aux {α : Type} (l : List (Int × α)) (p : Int) (c : Nat → Bool) (s : Nat)
    (hn : (l.map (·.1)).Nodup) :
    ((l.zipIdx s).filterMap (fun e => if e.1.1 == p && c e.2 then some e.1.2 else none)).length ≤ 1 := by
  induction l generalizing s with
  | nil => simp
  | cons y ys ih =>
    rw [List.map_cons, List.nodup_cons] at hn
    rw [List.zipIdx_cons, List.filterMap_cons]
    by_cases hy : y.1 = p
    · have hrest : (ys.zipIdx (s + 1)).filterMap
          (fun e => if e.1.1 == p && c e.2 then some e.1.2 else none) = [] := by
        apply filterMap_none_of_fst
        intro q hq e
        have := List.fst_mem_of_mem_zipIdx hq
        apply hn.1
        rw [hy, ← e]
        exact List.mem_map_of_mem this
      rw [hrest]
      split <;> simp
    · have : (y.1 == p) = false := by simp only [beq_eq_false_iff_ne, ne_eq]; exact hy
      simp only [this, Bool.false_and, Bool.false_eq_true, if_false]
      exact ih (s + 1) hn.2

theorem crossLabelsOf_length_le_one (inc : List (Int × Label)) (anchors : List Nat) (p j : Int)
    (hn : (inc.map (·.1)).Nodup) : (crossLabelsOf inc anchors p j).length ≤ 1 := by
  unfold crossLabelsOf
  exact cross_length_aux inc p (fun i => ((anchorAt anchors i : Nat) : Int) == j) 0 hn

theorem incOf_expand_fst (x : Int) (row : Row) (h : ∀ r ∈ row, r.2.length = 1) :
    (incOf (expand x row)).map (·.1) = ids row := by
  induction row with
  | nil => rfl
  | cons r row ih =>
    have h1 := h r List.mem_cons_self
    obtain ⟨v, kd⟩ := r
    match kd, h1 with
    | [e], _ =>
      rw [expand_cons]
      simp only [incOf, List.map_append, List.map_cons, List.map_nil, ids_cons] at ih ⊢
      rw [ih (fun r hr => h r (List.mem_cons_of_mem _ hr))]
      rfl

/-- on a simple graph the neighbours in the incident list are pairwise distinct -/
theorem Dom.inc_nodup (d : Dom g x sub anchors) (hm : g.multi = false) :
    ((incOfCompose g x sub).map (·.1)).Nodup := by
  rw [incOfCompose_eq, incEdges_eq, incOf_expand_fst]
  · exact d.w1.nbrNodup x
  · intro r hr
    have hnd : (ids ((G1 g sub).adjRow x)).Nodup := d.w1.nbrNodup x
    have hed : (G1 g sub).edgeData x r.1 = r.2 := by
      rw [edgeData_row]; exact lk_of_mem_nodup hnd hr
    have hne : (G1 g sub).edgeData x r.1 ≠ [] :=
      d.w1.nonempty _ _ (by rw [neighbors_row]; exact mem_ids_of_mem hr)
    have hk := d.w1.simple (by rw [d.G1_multi]; exact hm) _ _ hne
    rw [hed] at hk
    have := congrArg List.length hk
    simpa [keys] using this

theorem Dom.loop_ok (d : Dom g x sub anchors) (a b : Int) :
    (G1 g sub).multi = false → selL a b (TT g x sub anchors) ≠ [] →
      (G1 g sub).edgeData a b = [] ∧ (selL a b (TT g x sub anchors)).length ≤ 1 := by
  intro hmu hne
  rw [d.G1_multi] at hmu
  have hm : sub.nodes.length > 0 := by
    apply Classical.byContradiction
    intro h; apply hne; unfold TT; simp [h, selL]
  by_cases ha : a < (g.nodes.length : Int)
  · by_cases hb : b < (g.nodes.length : Int)
    · exact absurd (TT_below g x sub anchors ha hb) hne
    · constructor
      · rw [d.G1_edgeData, d.g_nil (by omega), d.s_nil (Or.inl (by omega))]; rfl
      · rw [TT_cross g x sub anchors b hm ha]
        exact crossLabelsOf_length_le_one _ _ _ _ (d.inc_nodup hmu)
  · by_cases hb : b < (g.nodes.length : Int)
    · constructor
      · rw [d.G1_edgeData, d.g_nil (by omega), d.s_nil (by omega)]; rfl
      · rw [selL_swap, TT_cross g x sub anchors a hm hb]
        exact crossLabelsOf_length_le_one _ _ _ _ (d.inc_nodup hmu)
    · exact absurd (d.TT_above (by omega) (by omega)) hne

/-! ### the stages -/

theorem Dom.w2 (d : Dom g x sub anchors) : WF (G2 g x sub anchors) := WF_addNewFrom d.w1 d.TT_ends

theorem Dom.G2_nodeIds (d : Dom g x sub anchors) :
    (G2 g x sub anchors).nodeIds.Perm (upto (g.nodes.length + sub.nodes.length)) := by
  unfold G2 Graph.nodeIds; rw [addNewFrom_nodes d.TT_ends]; exact d.G1_nodeIds

theorem Dom.G2_labels (d : Dom g x sub anchors) (a b : Int) :
    labelsBetween (G2 g x sub anchors) a b
      = labelsBetween g a b ++ labelsBetween sub (a - (g.nodes.length : Int)) (b - (g.nodes.length : Int))
          ++ selL a b (TT g x sub anchors) := by
  unfold G2
  rw [labels_addNewFrom d.w1 d.TT_ends a b (d.loop_ok a b)]
  simp only [labelsBetween, d.G1_edgeData, List.map_append]

theorem Dom.w3 (d : Dom g x sub anchors) : WF ((G2 g x sub anchors).removeNode x) := WF_removeNode d.w2 x

theorem Dom.G3_nodeIds (d : Dom g x sub anchors) :
    ((G2 g x sub anchors).removeNode x).nodeIds.Perm
      ((upto (g.nodes.length + sub.nodes.length)).filter (· != x)) := by
  rw [removeNode_nodeIds]; exact d.G2_nodeIds.filter _

theorem Dom.inverts (d : Dom g x sub anchors) :
    Inverts ((G2 g x sub anchors).removeNode x)
      (mapId (relabelMapping ((G2 g x sub anchors).removeNode x) 0)) (unren x) := by
  apply relabel_inverts d.x_range.1 _ d.G3_nodeIds
  have := d.x_range.2
  simp only [Int.natCast_add]; omega

theorem unren_ne (x a : Int) : unren x a ≠ x := by
  unfold unren; split <;> omega

/-- the bonds of the result are those of the graph before the renumbering, at the old names -/
theorem Dom.result_labels (d : Dom g x sub anchors) (a b : Int) :
    labelsBetween (replaceNodeLen g x sub anchors) a b
      = labelsBetween (G2 g x sub anchors) (unren x a) (unren x b) := by
  rw [replaceNodeLen_eq]
  unfold relabelGraph labelsBetween
  rw [relabelCopy_edgeData d.w3 d.inverts, removeNode_edgeData]
  simp [unren_ne]

theorem Dom.w4 (d : Dom g x sub anchors) : WF (replaceNodeLen g x sub anchors) := by
  rw [replaceNodeLen_eq]; exact WF_relabelCopy d.w3 d.inverts

/-- T2 under `Dom` -/
theorem Dom.labels (d : Dom g x sub anchors) (a b : Int) :
    labelsBetween (replaceNodeLen g x sub anchors) a b
      = specLabelsOf (incOfCompose g x sub) g x sub anchors a b := by
  rw [d.result_labels, d.G2_labels]
  have hx := d.x_range
  unfold specLabelsOf
  simp only
  by_cases ha : a < (g.nodes.length : Int) - 1
  · have hua : unren x a < (g.nodes.length : Int) := by unfold unren; split <;> omega
    by_cases hb : b < (g.nodes.length : Int) - 1
    · have hub : unren x b < (g.nodes.length : Int) := by unfold unren; split <;> omega
      rw [if_pos ⟨ha, hb⟩, TT_below g x sub anchors hua hub]
      have : sub.edgeData (unren x a - (g.nodes.length : Int)) (unren x b - (g.nodes.length : Int)) = [] :=
        d.s_nil (Or.inl (by omega))
      simp [labelsBetween, this]
    · have hub : unren x b = b + 1 := by unfold unren; split <;> omega
      rw [if_neg (fun h => hb h.2), if_neg (fun h => by omega)]
      have h1 : g.edgeData (unren x a) (unren x b) = [] := d.g_nil (by omega)
      have h2 : sub.edgeData (unren x a - (g.nodes.length : Int)) (unren x b - (g.nodes.length : Int)) = [] :=
        d.s_nil (Or.inl (by omega))
      by_cases hm : sub.nodes.length > 0
      · have he : sub.nodes.isEmpty = false := by
          cases hs : sub.nodes with
          | nil => rw [hs] at hm; simp at hm
          | cons _ _ => rfl
        rw [he, TT_cross g x sub anchors (unren x b) hm hua, if_pos ha]
        have e : unren x b - (g.nodes.length : Int) = b - ((g.nodes.length : Int) - 1) := by omega
        simp only [labelsBetween, h1, h2, List.map_nil, List.nil_append, List.append_nil]
        rw [e]; simp
      · have he : sub.nodes.isEmpty = true := by
          cases hs : sub.nodes with
          | nil => rfl
          | cons _ _ => rw [hs] at hm; simp at hm
        have hT : TT g x sub anchors = [] := by unfold TT; simp [hm]
        simp [labelsBetween, h1, h2, he, hT, selL]
  · have hua : unren x a = a + 1 := by unfold unren; split <;> omega
    by_cases hb : b < (g.nodes.length : Int) - 1
    · have hub : unren x b < (g.nodes.length : Int) := by unfold unren; split <;> omega
      rw [if_neg (fun h => ha h.1), if_neg (fun h => by omega)]
      have h1 : g.edgeData (unren x a) (unren x b) = [] := d.g_nil (by omega)
      have h2 : sub.edgeData (unren x a - (g.nodes.length : Int)) (unren x b - (g.nodes.length : Int)) = [] :=
        d.s_nil (by omega)
      by_cases hm : sub.nodes.length > 0
      · have he : sub.nodes.isEmpty = false := by
          cases hs : sub.nodes with
          | nil => rw [hs] at hm; simp at hm
          | cons _ _ => rfl
        rw [he, selL_swap, TT_cross g x sub anchors (unren x a) hm hub, if_neg ha]
        have e : unren x a - (g.nodes.length : Int) = a - ((g.nodes.length : Int) - 1) := by omega
        simp only [labelsBetween, h1, h2, List.map_nil, List.nil_append, List.append_nil]
        rw [e]; simp
      · have he : sub.nodes.isEmpty = true := by
          cases hs : sub.nodes with
          | nil => rfl
          | cons _ _ => rw [hs] at hm; simp at hm
        have hT : TT g x sub anchors = [] := by unfold TT; simp [hm]
        simp [labelsBetween, h1, h2, he, hT, selL]
    · have hub : unren x b = b + 1 := by unfold unren; split <;> omega
      rw [if_neg (fun h => ha h.1), if_pos ⟨by omega, by omega⟩, d.TT_above (by omega) (by omega)]
      have h1 : g.edgeData (unren x a) (unren x b) = [] := d.g_nil (by omega)
      have e1 : unren x a - (g.nodes.length : Int) = a - ((g.nodes.length : Int) - 1) := by omega
      have e2 : unren x b - (g.nodes.length : Int) = b - ((g.nodes.length : Int) - 1) := by omega
      simp [labelsBetween, h1, e1, e2]

end C13.E
