import FGVerif.Model.C01Spec
/-!
  C01, layer 2 — the ring table is the declarative pairing (pure list lemma).

  `tableEvs` / `tableEnd` fold an open/close table over the event list exactly as
  `Parser.__process_token_ring` does (`value in self.rings` → close and delete, else open).
  `ring_table_pairs : tableEvs [] evs = resolve evs`: the table yields exactly the pairs
  "2m−1-th with 2m-th occurrence of the same ring id".
-/
namespace C01

abbrev Table := List (Str × Nat × Bool)

def tableEvs (T : Table) : List Ev → List REv
  | [] => []
  | .node i a :: r => .node i a :: tableEvs T r
  | .link u v low b :: r => .edge u v low b :: tableEvs T r
  | .mark u lowU b id :: r =>
    match T.lookup id with
    | some (p, lowP) => .edge u p (lowU && lowP) b :: tableEvs (T.filter fun e => e.1 != id) r
    | none => tableEvs (T ++ [(id, u, lowU)]) r

def tableEnd (T : Table) : List Ev → Table
  | [] => T
  | .node _ _ :: r => tableEnd T r
  | .link _ _ _ _ :: r => tableEnd T r
  | .mark u lowU _ id :: r =>
    match T.lookup id with
    | some _ => tableEnd (T.filter fun e => e.1 != id) r
    | none => tableEnd (T ++ [(id, u, lowU)]) r

/-- a bonded ring mark finds its ring open -/
def marksGood (T : Table) : List Ev → Bool
  | [] => true
  | .mark u lowU b id :: r =>
    match T.lookup id with
    | some _ => marksGood (T.filter fun e => e.1 != id) r
    | none => b.isNone && marksGood (T ++ [(id, u, lowU)]) r
  | _ :: r => marksGood T r

/-- what the table holds, said declaratively: the ring id is open iff an odd number of marks with
    that id precede, and then the entry is the most recent of them -/
def openEntry (id : Str) (seen : Table) : Option (Nat × Bool) :=
  match occurrences id seen with
  | (p, lowP) :: rest => if rest.length % 2 = 0 then some (p, lowP) else none
  | [] => none

def TableInv (seen T : Table) : Prop := ∀ id, T.lookup id = openEntry id seen

theorem lookup_filter_ne (T : Table) (id id' : Str) (h : id' ≠ id) :
    (T.filter fun e => e.1 != id).lookup id' = T.lookup id' := by
  induction T with
  | nil => rfl
  | cons e T ih =>
    obtain ⟨k, v⟩ := e
    by_cases hk : k = id
    · subst hk
      have : (id' == k) = false := by simpa using h
      simp [List.filter, List.lookup, this, ih]
    · have hk' : (k != id) = true := by simpa using hk
      simp only [List.filter, hk', List.lookup]
      split <;> simp_all

theorem lookup_filter_self (T : Table) (id : Str) :
    (T.filter fun e => e.1 != id).lookup id = none := by
  induction T with
  | nil => rfl
  | cons e T ih =>
    obtain ⟨k, v⟩ := e
    by_cases hk : k = id
    · subst hk; simp [List.filter, ih]
    · have hk' : (k != id) = true := by simpa using hk
      have : (id == k) = false := by simpa using (Ne.symm hk)
      simp [List.filter, hk', List.lookup, this, ih]

theorem lookup_append_none (T : Table) (id id' : Str) (v : Nat × Bool) (h : T.lookup id = none) :
    (T ++ [(id, v)]).lookup id' = if id' = id then some v else T.lookup id' := by
  induction T with
  | nil =>
    by_cases e : id' = id
    · simp [List.lookup, e]
    · have : (id' == id) = false := by simpa using e
      simp [List.lookup, e, this]
  | cons e T ih =>
    obtain ⟨k, w⟩ := e
    simp only [List.lookup] at h
    split at h
    · simp at h
    · rename_i hne
      have ih := ih h
      simp only [List.cons_append, List.lookup]
      split
      · rename_i heq
        have e1 : id' = k := by simpa using heq
        have e2 : ¬ id = k := by simpa using hne
        have : ¬ id' = id := by intro e; exact e2 (e ▸ e1)
        simp [this]
      · exact ih

theorem occurrences_cons (id id' : Str) (u : Nat) (l : Bool) (seen : Table) :
    occurrences id' ((id, u, l) :: seen) =
      if id = id' then (u, l) :: occurrences id' seen else occurrences id' seen := by
  by_cases h : id = id'
  · simp [occurrences, List.filter, h]
  · have : (id == id') = false := by simpa using h
    simp [occurrences, List.filter, h, this]

theorem TableInv.close {seen T : Table} {id : Str} {u : Nat} {lowU : Bool} (h : TableInv seen T)
    {p : Nat × Bool} (hl : T.lookup id = some p) :
    TableInv ((id, u, lowU) :: seen) (T.filter fun e => e.1 != id) := by
  intro id'
  by_cases e : id' = id
  · subst e
    rw [lookup_filter_self]
    have := h id'
    rw [hl] at this
    simp only [openEntry, occurrences_cons, if_true]
    simp only [openEntry] at this
    split at this
    · rename_i q lq rest heq
      split at this
      · simp only [heq, List.length_cons]
        rw [if_neg (by omega)]
      · simp at this
    · simp at this
  · rw [lookup_filter_ne _ _ _ e, h id']
    simp [openEntry, occurrences_cons, Ne.symm e]

theorem TableInv.open {seen T : Table} {id : Str} {u : Nat} {lowU : Bool} (h : TableInv seen T)
    (hl : T.lookup id = none) :
    TableInv ((id, u, lowU) :: seen) (T ++ [(id, u, lowU)]) := by
  intro id'
  rw [lookup_append_none _ _ _ _ hl]
  by_cases e : id' = id
  · subst e
    have := h id'
    rw [hl] at this
    simp only [openEntry, occurrences_cons, if_true]
    simp only [openEntry] at this
    split at this
    · rename_i q lq rest heq
      split at this
      · simp at this
      · simp only [heq, List.length_cons]
        rw [if_pos (by omega)]
    · rename_i heq
      simp [heq]
  · simp only [e, if_false]
    rw [h id']
    simp [openEntry, occurrences_cons, Ne.symm e]

theorem tableEvs_eq_resolveFrom (evs : List Ev) : ∀ (seen T : Table), TableInv seen T →
    tableEvs T evs = resolveFrom seen evs := by
  induction evs with
  | nil => intros; rfl
  | cons e evs ih =>
    intro seen T h
    cases e with
    | node i a => simp [tableEvs, resolveFrom, ih seen T h]
    | link u v low b => simp [tableEvs, resolveFrom, ih seen T h]
    | mark u lowU b id =>
      simp only [tableEvs, resolveFrom]
      have hid := h id
      cases hl : T.lookup id with
      | none =>
        simp only []
        rw [ih _ _ (h.open (u := u) (lowU := lowU) hl)]
        rw [hl] at hid
        simp only [openEntry] at hid
        split at hid
        · rename_i q lq rest heq
          split at hid
          · simp at hid
          · rename_i hodd; simp [heq, hodd]
        · rename_i heq; simp [heq]
      | some pl =>
        obtain ⟨p, lowP⟩ := pl
        simp only []
        rw [ih _ _ (h.close (u := u) (lowU := lowU) hl)]
        rw [hl] at hid
        simp only [openEntry] at hid
        split at hid
        · rename_i q lq rest heq
          split at hid
          · rename_i hev
            simp only [Option.some.injEq, Prod.mk.injEq] at hid
            obtain ⟨rfl, rfl⟩ := hid
            simp [heq, hev]
          · simp at hid
        · simp at hid

theorem tableInv_nil : TableInv [] [] := by intro id; rfl

/-- **the open/close table computes the declarative pairing** -/
theorem ring_table_pairs (evs : List Ev) : tableEvs [] evs = resolve evs :=
  tableEvs_eq_resolveFrom evs [] [] tableInv_nil

theorem marksGood_of_marksOKFrom (evs : List Ev) : ∀ (seen T : Table), TableInv seen T →
    marksOKFrom seen evs = true → marksGood T evs = true := by
  induction evs with
  | nil => intros; rfl
  | cons e evs ih =>
    intro seen T h hm
    cases e with
    | node i a => exact ih seen T h (by simpa [marksOKFrom] using hm)
    | link u v low b => exact ih seen T h (by simpa [marksOKFrom] using hm)
    | mark u lowU b id =>
      simp only [marksOKFrom, Bool.and_eq_true] at hm
      simp only [marksGood]
      have hid := h id
      cases hl : T.lookup id with
      | some pl => simpa using ih _ _ (h.close (u := u) (lowU := lowU) hl) hm.2
      | none =>
        simp only [Bool.and_eq_true]
        refine ⟨?_, ih _ _ (h.open (u := u) (lowU := lowU) hl) hm.2⟩
        rw [hl] at hid
        simp only [openEntry] at hid
        rcases Bool.or_eq_true _ _ |>.mp hm.1 with hb | hodd
        · exact hb
        · exfalso
          simp only [decide_eq_true_eq] at hodd
          split at hid
          · rename_i q lq rest heq
            split at hid
            · simp at hid
            · rename_i hne
              rw [heq] at hodd; simp at hodd; omega
          · rename_i heq; rw [heq] at hodd; simp at hodd

theorem marksGood_of_marksOK (evs : List Ev) (h : marksOKFrom [] evs = true) : marksGood [] evs = true :=
  marksGood_of_marksOKFrom evs [] [] tableInv_nil h

end C01
