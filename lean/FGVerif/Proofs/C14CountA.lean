import FGVerif.Model.C14
import FGVerif.Proofs.C13Offset
/-!
  C14 counting, part A (reference-configuration level, no graphs):

  * arithmetic of `prod` / `List.sum` / `maxL`
  * `iter Φ rc d` — the depth-bounded recursion scheme of which `groupExp` (and the weight used for
    the fuel bound) are instances; for a configuration with an acyclicity certificate
    (`acyclicWith ranks rc`) the recursion is stable from depth `rank + 1` on, hence at depth
    `rc.length + 1` it satisfies its fixpoint equation (`iter_fix`)
  * `groupExp_fix`, `weight_fix`
-/
namespace C14.P
open C13 C14

/-! ### arithmetic -/

theorem prod_append (a b : List Nat) : prod (a ++ b) = prod a * prod b := by
  induction a with
  | nil => simp [prod]
  | cons x xs ih => simp only [List.cons_append, prod, ih, Nat.mul_assoc]

theorem sum_map_mul_left {α : Type} (c : Nat) (f : α → Nat) (l : List α) :
    (l.map fun x => c * f x).sum = c * (l.map f).sum := by
  induction l with
  | nil => simp
  | cons x xs ih => simp only [List.map_cons, List.sum_cons, ih, Nat.mul_add]

theorem sum_map_congr {α : Type} (f g : α → Nat) (l : List α) (h : ∀ x ∈ l, f x = g x) :
    (l.map f).sum = (l.map g).sum := by
  rw [List.map_congr_left h]

def sumL : List Nat → Nat
  | [] => 0
  | x :: xs => x + sumL xs

def maxL : List Nat → Nat
  | [] => 0
  | x :: xs => max x (maxL xs)

theorem sumL_append (a b : List Nat) : sumL (a ++ b) = sumL a + sumL b := by
  induction a with
  | nil => simp [sumL]
  | cons x xs ih => simp only [List.cons_append, sumL, ih, Nat.add_assoc]

theorem le_maxL (l : List Nat) : ∀ x ∈ l, x ≤ maxL l := by
  induction l with
  | nil => intro x hx; cases hx
  | cons y ys ih =>
    intro x hx
    rcases List.mem_cons.mp hx with rfl | h
    · exact Nat.le_max_left _ _
    · exact Nat.le_trans (ih x h) (Nat.le_max_right _ _)

/-! ### `oneLabel` only looks at the labels of the node -/

theorem oneLabel_congr (f f' : String → Nat) (ls : List String) (h : ∀ l ∈ ls, f l = f' l) :
    oneLabel f ls = oneLabel f' ls := by
  match ls, h with
  | [], _ => rfl
  | [l], h => exact h l (List.mem_singleton.mpr rfl)
  | _ :: _ :: _, _ => rfl

/-! ### the acyclicity certificate, unfolded -/

theorem acyclicWith_spec {ranks : List (String × Nat)} {rc : RefConfig} (h : acyclicWith ranks rc = true) :
    ∀ grp ∈ rc, rankFn ranks grp.1 < rc.length ∧
      ∀ rg ∈ grp.2, ∀ ls ∈ rg, ∀ l ∈ ls, rankFn ranks l < rankFn ranks grp.1 := by
  simp only [acyclicWith, List.all_eq_true, Bool.and_eq_true, decide_eq_true_eq] at h
  exact h

/-! ### depth-bounded recursion over a reference configuration -/

/-- the recursion scheme of `groupExp`: `Φ f grp` computes the value of a group from the values `f`
    of the labels -/
def iter (Φ : (String → Nat) → (String × List RefGraph) → Nat) (rc : RefConfig) : Nat → String → Nat
  | 0, _ => 0
  | d + 1, name =>
    match rc.find? (·.1 == name) with
    | none => 0
    | some grp => Φ (iter Φ rc d) grp

/-- `Φ f grp` depends on `f` only through the labels referenced by `grp` -/
def Local (Φ : (String → Nat) → (String × List RefGraph) → Nat) : Prop :=
  ∀ f f' grp, (∀ rg ∈ grp.2, ∀ ls ∈ rg, ∀ l ∈ ls, f l = f' l) → Φ f grp = Φ f' grp

theorem iter_succ_some {Φ : (String → Nat) → (String × List RefGraph) → Nat} {rc : RefConfig} {name : String}
    {grp : String × List RefGraph} (d : Nat) (hf : rc.find? (·.1 == name) = some grp) :
    iter Φ rc (d + 1) name = Φ (iter Φ rc d) grp := by
  simp only [iter, hf]

theorem iter_none {Φ : (String → Nat) → (String × List RefGraph) → Nat} {rc : RefConfig} {name : String}
    (d : Nat) (hf : rc.find? (·.1 == name) = none) : iter Φ rc d name = 0 := by
  cases d with
  | zero => rfl
  | succ d => simp only [iter, hf]

theorem iter_stable {Φ : (String → Nat) → (String × List RefGraph) → Nat} (hΦ : Local Φ)
    {ranks : List (String × Nat)} {rc : RefConfig} (hac : acyclicWith ranks rc = true) :
    ∀ d l, rankFn ranks l + 1 ≤ d → iter Φ rc d l = iter Φ rc (d + 1) l := by
  intro d
  induction d with
  | zero => intro l h; omega
  | succ d ih =>
    intro l hl
    cases hf : rc.find? (·.1 == l) with
    | none => rw [iter_none _ hf, iter_none _ hf]
    | some grp =>
      rw [iter_succ_some d hf, iter_succ_some (d + 1) hf]
      apply hΦ
      intro rg hrg ls hls l' hl'
      apply ih
      have h1 := ((acyclicWith_spec hac) grp (List.mem_of_find?_eq_some hf)).2 rg hrg ls hls l' hl'
      have h2 : grp.1 = l := by simpa using List.find?_some hf
      rw [h2] at h1
      omega

/-- at depth `rc.length + 1` the recursion satisfies its defining equation -/
theorem iter_fix {Φ : (String → Nat) → (String × List RefGraph) → Nat} (hΦ : Local Φ)
    {ranks : List (String × Nat)} {rc : RefConfig} (hac : acyclicWith ranks rc = true)
    {name : String} {grp : String × List RefGraph} (hf : rc.find? (·.1 == name) = some grp) :
    iter Φ rc (rc.length + 1) name = Φ (iter Φ rc (rc.length + 1)) grp := by
  rw [iter_succ_some _ hf]
  apply hΦ
  intro rg hrg ls hls l' hl'
  apply iter_stable hΦ hac
  have h0 := (acyclicWith_spec hac) grp (List.mem_of_find?_eq_some hf)
  have h1 := h0.2 rg hrg ls hls l' hl'
  omega

/-! ### instance 1: `groupExp` -/

def ΦE (f : String → Nat) (grp : String × List RefGraph) : Nat :=
  (grp.2.map fun rg => prod (rg.map (oneLabel f))).sum

theorem map_oneLabel_congr (f f' : String → Nat) (rg : RefGraph) (h : ∀ ls ∈ rg, ∀ l ∈ ls, f l = f' l) :
    rg.map (oneLabel f) = rg.map (oneLabel f') :=
  List.map_congr_left fun ls hls => oneLabel_congr f f' ls (h ls hls)

theorem local_ΦE : Local ΦE := by
  intro f f' grp h
  unfold ΦE
  apply sum_map_congr
  intro rg hrg
  rw [map_oneLabel_congr f f' rg (h rg hrg)]

theorem groupExp_eq_iter (rc : RefConfig) : ∀ d name, groupExp rc d name = iter ΦE rc d name := by
  intro d
  induction d with
  | zero => intro name; rfl
  | succ d ih =>
    intro name
    have e : groupExp rc d = iter ΦE rc d := funext ih
    simp only [groupExp, iter, e]
    cases rc.find? (·.1 == name) <;> rfl

/-- fixpoint equation of `groupExp` at the depth `numExp` uses -/
theorem groupExp_fix {ranks : List (String × Nat)} {rc : RefConfig} (hac : acyclicWith ranks rc = true)
    {name : String} {grp : String × List RefGraph} (hf : rc.find? (·.1 == name) = some grp) :
    groupExp rc (depthOf rc) name
      = (grp.2.map fun rg => prod (rg.map (oneLabel (groupExp rc (depthOf rc))))).sum := by
  have e : groupExp rc (depthOf rc) = iter ΦE rc (rc.length + 1) := funext (groupExp_eq_iter rc _)
  rw [e, iter_fix local_ΦE hac hf]
  rfl

/-! ### instance 2: the weight of a group (number of loop rounds its expansion can take) -/

def ΦW (f : String → Nat) (grp : String × List RefGraph) : Nat :=
  1 + maxL (grp.2.map fun rg => sumL (rg.map (oneLabel f)))

theorem local_ΦW : Local ΦW := by
  intro f f' grp h
  unfold ΦW
  have : (grp.2.map fun rg => sumL (rg.map (oneLabel f))) = (grp.2.map fun rg => sumL (rg.map (oneLabel f'))) :=
    List.map_congr_left fun rg hrg => by rw [map_oneLabel_congr f f' rg (h rg hrg)]
  rw [this]

/-- weight of a group label: one round for its own replacement plus the heaviest of its patterns -/
def weight (rc : RefConfig) (name : String) : Nat := iter ΦW rc (rc.length + 1) name

/-- weight of a reference graph: the sum over its group nodes -/
def refWeight (rc : RefConfig) (rg : RefGraph) : Nat := sumL (rg.map (oneLabel (weight rc)))

theorem weight_fix {ranks : List (String × Nat)} {rc : RefConfig} (hac : acyclicWith ranks rc = true)
    {name : String} {grp : String × List RefGraph} (hf : rc.find? (·.1 == name) = some grp) :
    weight rc name = 1 + maxL (grp.2.map (refWeight rc)) := by
  unfold weight
  rw [iter_fix local_ΦW hac hf]
  rfl

theorem refWeight_lt_weight {ranks : List (String × Nat)} {rc : RefConfig} (hac : acyclicWith ranks rc = true)
    {name : String} {grp : String × List RefGraph} (hf : rc.find? (·.1 == name) = some grp) :
    ∀ rg ∈ grp.2, refWeight rc rg < weight rc name := by
  intro rg hrg
  rw [weight_fix hac hf]
  have := le_maxL (grp.2.map (refWeight rc)) (refWeight rc rg) (List.mem_map.mpr ⟨rg, hrg, rfl⟩)
  omega

end C14.P
