import FGVerif.Proofs.GenParsedBase
import FGVerif.Generated.Parsed
/-!
  GenParsed, C14 part: the parser model returns the graph of the REAL parser on every distinct shipped
  proxy pattern (string-free evaluation; lifted to strings in Proofs/GenParsed.lean).
-/
namespace GenParsed
open C01 (Str)

theorem proxy_patterns_fast :
    ∀ sg ∈ Gen.Parsed.proxyPatternsC, fastParse proxyCfg sg.1 = some sg.2 := by decide +kernel

theorem proxy_patterns_cover_fast :
    (∀ s ∈ patternsOfC Gen.Parsed.daPosC Gen.Parsed.daPosCoresC ++
        patternsOfC Gen.Parsed.daNegC Gen.Parsed.daNegCoresC ++ patternsOfC Gen.Parsed.commonC [],
      s ∈ Gen.Parsed.proxyPatternsC.map (·.1)) ∧ Gen.Parsed.proxyUnparsed = [] := by decide +kernel

end GenParsed
