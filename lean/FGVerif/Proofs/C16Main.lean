import FGVerif.Proofs.C16Sides
import FGVerif.Proofs.C16Loop
namespace C16

variable (wl : ITSGraph → Hash) (g : MolGraph) (rule : Rule) (rc : ITSGraph) (ms : List Match)

theorem takeOpt_sublist {α : Type} (n : Option Nat) (l : List α) : (takeOpt n l).Sublist l := by
  cases n with
  | none => exact List.Sublist.refl _
  | some k => exact List.take_sublist k l

/-- every returned graph is the graph built for one of the mappings, in mapping order -/
theorem results_sublist (n : Option Nat) (unique conn : Bool) :
    (applyRule wl g rule ms n unique conn).Sublist (ms.map (applyMatch g rule)) := by
  rw [applyRule_eq]
  refine (takeOpt_sublist n _).trans ?_
  have hc : (candidates g rule ms conn).Sublist (ms.map (applyMatch g rule)) := List.filter_sublist
  cases unique with
  | true => exact (dedupFirst_sublist wl [] _).trans hc
  | false => exact hc

theorem results_from_matches (n : Option Nat) (unique conn : Bool) :
    ∀ its ∈ applyRule wl g rule ms n unique conn, ∃ m ∈ ms, its = applyMatch g rule m := by
  intro its h
  have := (results_sublist wl g rule ms n unique conn).subset h
  obtain ⟨m, hm, rfl⟩ := List.mem_map.mp this
  exact ⟨m, hm, rfl⟩

/-- **C16.reactant_side** — `split_its(its)[0]` of every returned ITS graph is the reactant graph,
    unchanged: for every rule, every list of mappings, every flag. -/
theorem reactant_side (hg : MolWF g) (n : Option Nat) (unique conn : Bool) :
    ∀ its ∈ applyRule wl g rule ms n unique conn, (splitIts its).1 = g := by
  intro its h
  obtain ⟨m, _, rfl⟩ := results_from_matches wl g rule ms n unique conn its h
  exact applyMatch_reactant g rule m hg.nonzero

/-- **C16.product_side** — on the product side every returned ITS graph differs from the reactant
    graph exactly on the pairs of matched atoms joined by a rule edge, where it carries the rule's
    product order (no bond when that order is 0): between any two atoms the product bond is
    `expProduct`. -/
theorem product_side (hg : MolWF g) (hrc : RcWF rc) (hms : ∀ m ∈ ms, MatchInj m)
    (n : Option Nat) (unique conn : Bool) :
    ∀ its ∈ applyRule wl g (mkRule rc) ms n unique conn, ∃ m ∈ ms,
      its = applyMatch g (mkRule rc) m ∧ ∀ u v, (splitIts its).2.bond? u v = expProduct g rc m u v := by
  intro its h
  obtain ⟨m, hm, rfl⟩ := results_from_matches wl g (mkRule rc) ms n unique conn its h
  refine ⟨m, hm, rfl, fun u v => ?_⟩
  exact product_of_isExpected g rc m _ hg.nonzero (nodupPairs_applyMatch g _ m hg.nodup)
    (applyMatch_isExpected g rc m (hms m hm) hrc) u v

/-- outside the image of the reaction centre the product side is `g` -/
theorem product_outside_centre (m : Match) (u v : Int) (h : rcLabelAt rc m u v = none) :
    expProduct g rc m u v = g.bond? u v := by
  unfold expProduct; rw [h]

/-- on the image of a rule edge `[l, r]` the product side carries `r` (absent when 0) -/
theorem product_on_centre (m : Match) (u v : Int) (lr : Int × Int) (h : rcLabelAt rc m u v = some lr) :
    expProduct g rc m u v = if lr.2 = 0 then none else some lr.2 := by
  unfold expProduct; rw [h]

/-- **C16.one_per_match** — with `unique=False`, no limit and no connectivity filter the result
    is exactly one ITS graph per mapping, in the order of the mappings … -/
theorem one_per_match_eq :
    applyRule wl g rule ms none false false = ms.map (applyMatch g rule) := by
  rw [applyRule_eq]
  simp only [takeOpt, Bool.false_eq_true, if_false, candidates]
  rw [List.filter_eq_self]
  intro x _; rfl

/-- the two lists have the same length and are related position by position -/
inductive Forall2 {α β : Type} (R : α → β → Prop) : List α → List β → Prop
  | nil : Forall2 R [] []
  | cons {a b as bs} : R a b → Forall2 R as bs → Forall2 R (a :: as) (b :: bs)

theorem forall2_map_right {α β : Type} (R : α → β → Prop) (f : α → β) (l : List α) (h : ∀ a ∈ l, R a (f a)) :
    Forall2 R l (l.map f) := by
  induction l with
  | nil => exact Forall2.nil
  | cons a l ih =>
    exact Forall2.cons (h a (by simp)) (ih fun b hb => h b (List.mem_cons_of_mem _ hb))

theorem Forall2.length_eq {α β : Type} {R : α → β → Prop} {l₁ : List α} {l₂ : List β} (h : Forall2 R l₁ l₂) :
    l₁.length = l₂.length := by
  induction h with
  | nil => rfl
  | cons _ _ ih => simp [ih]

/-- … and the graph returned for a mapping is the one the specification prescribes for it. -/
theorem one_per_match (hrc : RcWF rc) (hms : ∀ m ∈ ms, MatchInj m) :
    Forall2 (IsExpected g rc) ms (applyRule wl g (mkRule rc) ms none false false) := by
  rw [one_per_match_eq]
  exact forall2_map_right _ _ ms fun m hm => applyMatch_isExpected g rc m (hms m hm) hrc

/-- **C16.connected_only** — the filter keeps exactly the connected ITS graphs -/
theorem connected_only :
    applyRule wl g rule ms none false true = (ms.map (applyMatch g rule)).filter isConnected := by
  rw [applyRule_eq]
  simp only [takeOpt, Bool.false_eq_true, if_false, candidates]
  congr 1

theorem connected_only_all (n : Option Nat) (unique : Bool) :
    ∀ its ∈ applyRule wl g rule ms n unique true, isConnected its = true := by
  intro its h
  rw [applyRule_eq] at h
  have h1 := (takeOpt_sublist n _).subset h
  have h2 : its ∈ candidates g rule ms true := by
    cases unique with
    | true => exact (dedupFirst_sublist wl [] _).subset h1
    | false => exact h1
  unfold candidates at h2
  have := (List.mem_filter.mp h2).2
  simpa [keep] using this

/-- **C16.limit** — at most `n` results … -/
theorem limit (k : Nat) (unique conn : Bool) :
    (applyRule wl g rule ms (some k) unique conn).length ≤ k := by
  rw [applyRule_eq]; simp [takeOpt, List.length_take]; omega

/-- … namely the first `n` of the unlimited result (so exactly `min n total`). -/
theorem limit_prefix (k : Nat) (unique conn : Bool) :
    applyRule wl g rule ms (some k) unique conn = (applyRule wl g rule ms none unique conn).take k := by
  rw [applyRule_eq, applyRule_eq]; rfl

theorem limit_length (k : Nat) (unique conn : Bool) :
    (applyRule wl g rule ms (some k) unique conn).length
      = min k (applyRule wl g rule ms none unique conn).length := by
  rw [limit_prefix, List.length_take]

/-- **C16.unique_classes** (relative to the hash function `wl`) — with `unique=True` and no limit:
    no two results share a hash, every candidate's hash is represented, and the representative
    of a class is the first candidate of that class in mapping order. -/
theorem unique_classes (conn : Bool) :
    let res := applyRule wl g rule ms none true conn
    let cands := candidates g rule ms conn
    (res.map wl).Nodup ∧ res.Sublist cands ∧ (∀ c ∈ cands, wl c ∈ res.map wl) ∧
      ∀ r ∈ res, cands.find? (fun c => wl c == wl r) = some r := by
  simp only
  rw [applyRule_eq]
  simp only [takeOpt, if_true]
  refine ⟨dedupFirst_nodup wl [] _, dedupFirst_sublist wl [] _, ?_, dedupFirst_first wl [] _⟩
  intro c hc
  rcases dedupFirst_covers wl [] _ c hc with h | h
  · simp at h
  · exact h

/-- the caller's graph next to the result: `apply_rule` works on `g.copy()` -/
def applyRuleWithInput (n : Option Nat) (unique conn : Bool) : List ITSGraph × MolGraph :=
  (applyRule wl g rule ms n unique conn, g)

/-- **C16.input_untouched** (by construction: the model has no way to write to `g`; the harness
    snapshots the real graph around the call) -/
theorem input_untouched (n : Option Nat) (unique conn : Bool) :
    (applyRuleWithInput wl g rule ms n unique conn).2 = g := rfl

end C16
