import FGVerif.Model.C19
import FGVerif.Proofs.GraphEdges
/-!
  C19 — theorems about the model of the RDKit bridge and of the Weisfeiler-Lehman hash
  (Model/C19.lean).  RDKit itself is an assumed contract (see the model's header); the SMILES
  writer/reader round trip is exercised by the harness, not proved.

  Proved: `bridge_roundtrip` (bridge = `normalise`), `normalise_semantics` / `bridge_roundtrip_semantics`
  (the normal form described by its nodes and its bond function in terms of `g.edges`),
  `bridge_spec_holds` (`BridgeSpec ia g (normalise ia g)` for every well-formed simple graph: the
  adjacency entries of the normal form are exactly the renumbered adjacency entries of `g`; rests on
  the facts about networkx's seen-set edge view in Proofs/GraphEdges.lean, which reuses the C11
  lemmas `mem_edges_go`, `edges_good`, `bond_in_edges`), the headline `bridge_lossless` (the
  property clause for the model: same atoms in the same order with normalised symbols, same
  bonded pairs with the same orders, same atom-map numbers, nothing else), `refuses_labels`, the
  table obligations, `specCheck_sound`, `wl_invariant` (+ digest / relabel / `mol_compare`
  corollaries).

  Nothing is left unproved for the bridge part.  The hypotheses of `bridge_spec_holds` /
  `bridge_lossless` on the input graph are the decidable predicates `C11.wellFormed g` and
  `C11.simple g` (Model/C11.lean: distinct node ids, one adjacency row per node in node order,
  distinct neighbours per row, neighbours are nodes, symmetric edge data, exactly key 0 on every
  bond) — true of every simple undirected networkx graph; the driver evaluates them on every case
  (`wf=`) and the harness fails if a generated input violates them.  `edgesClosed` follows from them.
  Still exercised only (not proved): RDKit's own SMILES writer/reader round trip, and the RWMol
  contract the model assumes.
-/
namespace C19

/-! ### table obligations (re-checked by `decide` against the tables generated from the source) -/

/-- on the supported orders {1, 1.5, 2, 3, 4} (doubled) the two generated bond tables are inverse:
    the way out names a bond type and the way back returns the same order -/
theorem bond_tables_inverse :
    ∀ o ∈ supportedOrders, (dictGet Gen.graphToMolBond o).bind (dictGet Gen.molToGraphBond) = some o := by
  decide

/-- the generated `sym_map` is the lower-case aromatic map of the specification -/
theorem sym_table : Gen.rdkitSymMap = refSymMap := by decide

theorem symNorm_eq (s : String) : symNorm s = refNorm s := by
  unfold symNorm refNorm
  rw [sym_table]

/-! ### the way out: `graph_to_mol` -/

/-- the bond type name `graph_to_mol` chooses for a label -/
def typeOf : Label → String
  | .s o => (dictGet Gen.graphToMolBond o).getD ""
  | _ => ""

theorem atomsLoop_ok (ia : Bool) : ∀ (nodes : List (Int × NodeAttr)),
    (∀ x ∈ nodes, x.2.symbol.isSome = true ∧ (x.2.isLabeled == some true) = false) →
    atomsLoop ia nodes = .ok (nodes.map fun x =>
      (symNorm (x.2.symbol.getD ""), if ia then none else x.2.aam.filter (fun a => decide (a ≥ 0))))
  | [], _ => rfl
  | (n, d) :: rest, h => by
    have hd := h (n, d) List.mem_cons_self
    have ih := atomsLoop_ok ia rest (fun x hx => h x (List.mem_cons_of_mem _ hx))
    unfold atomsLoop
    cases hs : d.symbol with
    | none => simp [hs] at hd
    | some s =>
      simp only [hd.2, Bool.false_eq_true, if_false, ih, List.map_cons, Option.getD_some, hs]

/-- **labelled placeholder nodes are refused**: when every node carries a symbol (so that
    `d[SYMBOL_KEY]` cannot fail first) and some node is labelled, `graph_to_mol` raises ValueError -/
theorem atomsLoop_refuses (ia : Bool) : ∀ (nodes : List (Int × NodeAttr)),
    (∀ x ∈ nodes, x.2.symbol.isSome = true) → (∃ x ∈ nodes, (x.2.isLabeled == some true) = true) →
    atomsLoop ia nodes = .error .valueError
  | [], _, h => by simp at h
  | (n, d) :: rest, hsym, hlab => by
    have hd := hsym (n, d) List.mem_cons_self
    unfold atomsLoop
    cases hs : d.symbol with
    | none => simp [hs] at hd
    | some s =>
      by_cases hl : (d.isLabeled == some true) = true
      · simp only [hl, if_true]
      · simp only [hl, if_false, Bool.false_eq_true]
        have : ∃ x ∈ rest, (x.2.isLabeled == some true) = true := by
          obtain ⟨x, hx, hxl⟩ := hlab
          rcases List.mem_cons.1 hx with rfl | hx
          · exact absurd hxl hl
          · exact ⟨x, hx, hxl⟩
        rw [atomsLoop_refuses ia rest (fun x hx => hsym x (List.mem_cons_of_mem _ hx)) this]

theorem refuses_labels (ia : Bool) (g : Graph) (hs : allSymbols g = true) (hl : noLabelNodes g = false) :
    bridge ia g = .error .valueError := by
  have h1 : ∀ x ∈ g.nodes, x.2.symbol.isSome = true := by
    simpa [allSymbols, List.all_eq_true] using hs
  have h2 : ∃ x ∈ g.nodes, (x.2.isLabeled == some true) = true := by
    simpa [noLabelNodes, List.all_eq_false] using hl
  unfold bridge graphToMol
  rw [atomsLoop_refuses ia g.nodes h1 h2]

theorem supported_type {o : Int} (h : supportedOrders.contains o = true) :
    ∃ t, dictGet Gen.graphToMolBond o = some t ∧ dictGet Gen.molToGraphBond t = some o := by
  have hm : o ∈ supportedOrders := by simpa using h
  have := bond_tables_inverse o hm
  cases ht : dictGet Gen.graphToMolBond o with
  | none => simp [ht] at this
  | some t => exact ⟨t, rfl, by simpa [ht] using this⟩

theorem bondsLoop_ok (ids : List Int) : ∀ (es : List (Int × Int × Nat × Label)),
    (∀ e ∈ es, supportedLabel e.2.2.2 = true) →
    bondsLoop ids es = .ok (es.map fun e => (idxOf ids e.1, idxOf ids e.2.1, typeOf e.2.2.2))
  | [], _ => rfl
  | (u, v, k, l) :: rest, h => by
    have hd := h (u, v, k, l) List.mem_cons_self
    have ih := bondsLoop_ok ids rest (fun e he => h e (List.mem_cons_of_mem _ he))
    unfold bondsLoop
    cases l with
    | s o =>
      obtain ⟨t, ht, _⟩ := supported_type (o := o) (by simpa [supportedLabel] using hd)
      simp only [ht, ih, List.map_cons, typeOf, Option.getD_some]
    | p a b => simp [supportedLabel] at hd
    | nil => simp [supportedLabel] at hd

theorem orderOfType_typeOf {l : Label} (h : supportedLabel l = true) : Label.s (orderOfType (typeOf l)) = l := by
  cases l with
  | s o =>
    obtain ⟨t, ht, hb⟩ := supported_type (o := o) (by simpa [supportedLabel] using h)
    simp [typeOf, orderOfType, ht, hb]
  | p a b => simp [supportedLabel] at h
  | nil => simp [supportedLabel] at h

/-! ### round trip -/

/-- **the bridge is lossless** (model level): for a graph whose nodes all carry a symbol, none of
    them labelled, and whose bonds all have a supported order, `mol_to_graph(graph_to_mol(g))`
    is the normal form of `g`: atoms renumbered `0..n-1` in insertion order with the lower-case
    aromatic symbols upper-cased and the atom-map numbers `≥ 1` kept (none with `ignore_aam`), and
    the bonds of `g` (as `g.edges` lists them) re-added between the renumbered atoms with the
    same orders.  `normalise` is built with the reference symbol map and without the bond tables. -/
theorem bridge_roundtrip (ia : Bool) (g : Graph) (hs : allSymbols g = true) (hl : noLabelNodes g = true)
    (hb : supported g = true) : bridge ia g = .ok (normalise ia g) := by
  have h1 : ∀ x ∈ g.nodes, x.2.symbol.isSome = true ∧ (x.2.isLabeled == some true) = false := by
    intro x hx
    have a := (List.all_eq_true.1 hs) x hx
    have b := (List.all_eq_true.1 hl) x hx
    exact ⟨a, by simpa using b⟩
  have h2 : ∀ e ∈ g.edges, supportedLabel e.2.2.2 = true := fun e he => (List.all_eq_true.1 hb) e he
  unfold bridge graphToMol
  rw [atomsLoop_ok ia g.nodes h1, bondsLoop_ok g.nodeIds g.edges h2]
  simp only [molToGraph, normalise, normNodes]
  congr 2
  · rw [List.zipIdx_map, List.map_map]
    apply List.map_congr_left
    intro x hx
    have hx' : x.1 ∈ g.nodes := by
      have : x.1 ∈ (g.nodes.zipIdx).map Prod.fst := List.mem_map.2 ⟨x, hx, rfl⟩
      rwa [List.zipIdx_map_fst] at this
    obtain ⟨hsym, _⟩ := h1 x.1 hx'
    cases hsy : x.1.2.symbol with
    | none => simp [hsy] at hsym
    | some s =>
      cases ia with
      | true => simp [hsy, symNorm_eq]
      | false =>
        simp only [Function.comp, Prod.map, id, hsy, Option.getD_some, symNorm_eq, Option.map_some,
          Bool.false_eq_true, if_false]
        congr 2
        cases x.1.2.aam with
        | none => rfl
        | some k =>
          simp only [Option.filter_some]
          by_cases hk : k ≥ 1
          · have : k ≥ 0 := by omega
            have h3 : k > 0 := by omega
            simp [hk, this, h3]
          · by_cases hk0 : k ≥ 0
            · have h3 : k ≤ 0 := by omega
              simp [hk, hk0, h3]
            · simp [hk, hk0]
  · rw [List.map_map]
    apply List.map_congr_left
    intro e he
    simp only [Function.comp, orderOfType_typeOf (h2 e he)]

/-! ### what the normal form is (semantics of `fromLists` / `normalise` without reference to `add_edge`) -/


abbrev Entry := Int × List (Nat × Label)
abbrev Row := List Entry

def dataIn (row : Row) (b : Int) : List (Nat × Label) :=
  match row.find? (fun (r : Entry) => r.1 == b) with
  | some r => r.2
  | none => []

/-- the label of the entry for neighbour `b` in a row -/
def labIn (row : Row) (b : Int) : Option Label := (dataIn row b).head?.map (·.2)

theorem bond?_eq (g : Graph) (a b : Int) : g.bond? a b = labIn (g.adjRow a) b := by
  unfold Graph.bond? Graph.edgeData labIn dataIn
  rfl

theorem find?_key_map {β : Type} (f : Int × β → Int × β) (hf : ∀ x, (f x).1 = x.1) (l : List (Int × β)) (a : Int) :
    (l.map f).find? (fun x => x.1 == a) = (l.find? (fun x => x.1 == a)).map f := by
  rw [List.find?_map]
  have : ((fun (x : Int × β) => x.1 == a) ∘ f) = fun x => x.1 == a := by
    funext x
    simp [Function.comp, hf x]
  rw [this]

theorem dataIn_addHalfEdge (row : Row) (v : Int) (l : Label) (b : Int) :
    dataIn (Graph.addHalfEdge false row v 0 l) b = if b = v then [(0, l)] else dataIn row b := by
  unfold dataIn Graph.addHalfEdge
  by_cases hany : row.any (fun r => r.1 == v) = true
  · simp only [hany, if_true, Bool.false_eq_true, if_false]
    rw [find?_key_map (fun (r : Entry) => if r.1 == v then (r.1, [(0, l)]) else r) (by intro x; split <;> rfl)]
    by_cases hb : b = v
    · subst hb
      obtain ⟨r, hr, hk⟩ := List.any_eq_true.1 hany
      cases hf : row.find? (fun (r : Entry) => r.1 == b) with
      | none => have := List.find?_eq_none.1 hf r hr; simp_all
      | some r' =>
        have := List.find?_some hf
        simp only [beq_iff_eq] at this
        simp [this]
    · simp only [hb, if_false]
      cases hf : row.find? (fun (r : Entry) => r.1 == b) with
      | none => rfl
      | some r' =>
        have hk := List.find?_some hf
        have : ¬ r'.1 = v := by
          simp only [beq_iff_eq] at hk
          omega
        simp [this]
  · simp only [hany, if_false, Bool.false_eq_true]
    rw [List.find?_append]
    have hnone : ∀ r ∈ row, (r.1 == v) = false := by
      intro r hr
      have := hany
      simp only [List.any_eq_true, not_exists, not_and] at this
      simpa using this r hr
    by_cases hb : b = v
    · subst hb
      have : row.find? (fun (r : Entry) => r.1 == b) = none :=
        List.find?_eq_none.2 (fun r hr => by simp [hnone r hr])
      simp [this]
    · have : (v == b) = false := by simp; omega
      simp only [hb, if_false, List.find?_cons, this, List.find?_nil, Option.or_none]

abbrev AdjT := List (Int × Row)

def rowOf (adj : AdjT) (a : Int) : Row :=
  match adj.find? (fun (r : Int × Row) => r.1 == a) with
  | some r => r.2
  | none => []

theorem adjRow_eq (g : Graph) (a : Int) : g.adjRow a = rowOf g.adj a := rfl

theorem rowOf_map (adj : AdjT) (u : Int) (h : Row → Row) (a : Int) (hu : u ∈ adj.map (·.1)) :
    rowOf (adj.map fun (r : Int × Row) => if r.1 == u then (r.1, h r.2) else r) a =
      if a = u then h (rowOf adj a) else rowOf adj a := by
  unfold rowOf
  rw [find?_key_map (fun (r : Int × Row) => if r.1 == u then (r.1, h r.2) else r) (by intro x; split <;> rfl)]
  cases hf : adj.find? (fun (r : Int × Row) => r.1 == a) with
  | some r =>
    have hk := List.find?_some hf
    simp only [beq_iff_eq] at hk
    by_cases hau : a = u
    · simp [hau, hk ▸ hau]
    · have : ¬ r.1 = u := by omega
      simp [hau, this]
  | none =>
    have : a ≠ u := by
      intro hau
      obtain ⟨r, hr, hk⟩ := List.mem_map.1 hu
      have := List.find?_eq_none.1 hf r hr
      simp [hk, hau] at this
    simp [this]

theorem keys_map (adj : AdjT) (u : Int) (h : Row → Row) :
    (adj.map fun (r : Int × Row) => if r.1 == u then (r.1, h r.2) else r).map (·.1) = adj.map (·.1) := by
  rw [List.map_map]
  apply List.map_congr_left
  intro r _
  simp only [Function.comp]
  split <;> rfl

/-- what `add_node`/`add_edge` keep on a simple graph -/
structure Simple (g : Graph) : Prop where
  multi : g.multi = false
  rows : g.adj.map (·.1) = g.nodeIds

theorem hasNode_iff (g : Graph) (n : Int) : g.hasNode n = true ↔ n ∈ g.nodeIds := by
  simp [Graph.hasNode, Graph.nodeIds]

/-- `add_edge(u, v, bond=l)` between two existing nodes of a simple graph: nodes unchanged, the
    bond between `u` and `v` (both directions) is `l`, every other bond is unchanged -/
theorem addEdge_simple {g : Graph} (hs : Simple g) {u v : Int} (hu : u ∈ g.nodeIds) (hv : v ∈ g.nodeIds) (l : Label) :
    Simple (g.addEdge u v l) ∧ (g.addEdge u v l).nodes = g.nodes ∧
    ∀ a b, (g.addEdge u v l).bond? a b =
      if (a = u ∧ b = v) ∨ (a = v ∧ b = u) then some l else g.bond? a b := by
  have hu' := (hasNode_iff g u).2 hu
  have hv' := (hasNode_iff g v).2 hv
  have huk : u ∈ g.adj.map (·.1) := by rw [hs.rows]; exact hu
  have hvk : v ∈ g.adj.map (·.1) := by rw [hs.rows]; exact hv
  by_cases huv : u = v
  · subst huv
    have e : g.addEdge u u l = { g with adj := g.adj.map fun (r : Int × Row) =>
        if r.1 == u then (r.1, Graph.addHalfEdge false r.2 u 0 l) else r } := by
      unfold Graph.addEdge
      simp [hu', hs.multi]
    rw [e]
    refine ⟨⟨hs.multi, ?_⟩, rfl, ?_⟩
    · show List.map (fun (x : Int × Row) => x.1) (List.map _ _) = g.nodeIds
      rw [keys_map g.adj u (fun row => Graph.addHalfEdge false row u 0 l), hs.rows]
    · intro a b
      rw [bond?_eq, bond?_eq, adjRow_eq, adjRow_eq]
      show labIn (rowOf (g.adj.map _) a) b = _
      rw [rowOf_map g.adj u (fun row => Graph.addHalfEdge false row u 0 l) a huk]
      by_cases hau : a = u
      · simp only [hau, if_true, labIn, dataIn_addHalfEdge]
        by_cases hbu : b = u <;> simp [hbu]
      · simp [hau]
  · have hne : (u == v) = false := by simp [huv]
    have e : g.addEdge u v l = { g with adj := (g.adj.map fun (r : Int × Row) =>
        if r.1 == u then (r.1, Graph.addHalfEdge false r.2 v 0 l) else r).map fun (r : Int × Row) =>
        if r.1 == v then (r.1, Graph.addHalfEdge false r.2 u 0 l) else r } := by
      unfold Graph.addEdge
      simp [hu', hv', hs.multi, hne]
    rw [e]
    refine ⟨⟨hs.multi, ?_⟩, rfl, ?_⟩
    · show List.map (fun (x : Int × Row) => x.1) (List.map _ (List.map _ _)) = g.nodeIds
      rw [keys_map _ v (fun row => Graph.addHalfEdge false row u 0 l),
        keys_map g.adj u (fun row => Graph.addHalfEdge false row v 0 l), hs.rows]
    · intro a b
      rw [bond?_eq, bond?_eq, adjRow_eq, adjRow_eq]
      show labIn (rowOf ((g.adj.map _).map _) a) b = _
      rw [rowOf_map _ v (fun row => Graph.addHalfEdge false row u 0 l) a (by rw [keys_map g.adj u (fun row => Graph.addHalfEdge false row v 0 l)]; exact hvk),
        rowOf_map g.adj u (fun row => Graph.addHalfEdge false row v 0 l) a huk]
      by_cases hav : a = v
      · have hau : ¬ a = u := by omega
        simp only [hav, if_true, labIn, dataIn_addHalfEdge]
        have : ¬ v = u := by omega
        by_cases hbu : b = u <;> simp [hbu, this]
      · by_cases hau : a = u
        · subst hau
          simp only [hav, if_false, if_true, labIn, dataIn_addHalfEdge]
          by_cases hbv : b = v <;> simp [hbv]
        · simp [hav, hau]

/-- the bond the list of `add_edge` calls leaves between `a` and `b`: the label of the last call on
    that (unordered) pair -/
def lastLabel (E : List (Int × Int × Label)) (a b : Int) (init : Option Label := none) : Option Label :=
  E.foldl (fun acc e => if (a = e.1 ∧ b = e.2.1) ∨ (a = e.2.1 ∧ b = e.1) then some e.2.2 else acc) init

theorem foldl_addEdge : ∀ (E : List (Int × Int × Label)) (g : Graph), Simple g →
    (∀ e ∈ E, e.1 ∈ g.nodeIds ∧ e.2.1 ∈ g.nodeIds) →
    Simple (E.foldl (fun g e => g.addEdge e.1 e.2.1 e.2.2) g) ∧
    (E.foldl (fun g e => g.addEdge e.1 e.2.1 e.2.2) g).nodes = g.nodes ∧
    ∀ a b, (E.foldl (fun g e => g.addEdge e.1 e.2.1 e.2.2) g).bond? a b = lastLabel E a b (g.bond? a b)
  | [], g, hs, _ => ⟨hs, rfl, fun _ _ => rfl⟩
  | e :: E, g, hs, hE => by
    obtain ⟨hs1, hn1, hb1⟩ := addEdge_simple hs (hE e List.mem_cons_self).1 (hE e List.mem_cons_self).2 e.2.2
    have hids : (g.addEdge e.1 e.2.1 e.2.2).nodeIds = g.nodeIds := by simp [Graph.nodeIds, hn1]
    obtain ⟨hs2, hn2, hb2⟩ := foldl_addEdge E (g.addEdge e.1 e.2.1 e.2.2) hs1
      (fun e' he' => by rw [hids]; exact hE e' (List.mem_cons_of_mem _ he'))
    refine ⟨hs2, hn2.trans hn1, ?_⟩
    intro a b
    simp only [List.foldl_cons]
    rw [hb2 a b, hb1 a b]
    rfl

theorem foldl_addNode : ∀ (N : List (Int × NodeAttr)) (g : Graph),
    (∀ x ∈ N, x.1 ∉ g.nodeIds) → (N.map (·.1)).Nodup →
    N.foldl (fun g x => g.addNode x.1 x.2) g =
      { g with nodes := g.nodes ++ N, adj := g.adj ++ N.map fun x => (x.1, []) }
  | [], g, _, _ => by simp
  | x :: N, g, hf, hnd => by
    simp only [List.map_cons, List.nodup_cons] at hnd
    have hx : g.hasNode x.1 = false := by
      have := hf x List.mem_cons_self
      rw [← hasNode_iff] at this
      simpa using this
    have e : g.addNode x.1 x.2 = { g with nodes := g.nodes ++ [x], adj := g.adj ++ [(x.1, [])] } := by
      simp [Graph.addNode, hx]
    simp only [List.foldl_cons, e]
    rw [foldl_addNode N _ ?_ hnd.2]
    · simp
    · intro y hy
      simp only [Graph.nodeIds, List.map_append, List.map_cons, List.map_nil, List.mem_append, List.mem_singleton,
        not_or]
      refine ⟨hf y (List.mem_cons_of_mem _ hy), ?_⟩
      intro he
      exact hnd.1 (he ▸ List.mem_map.2 ⟨y, hy, rfl⟩)

/-- the graph after the `add_node` calls -/
def baseGraph (N : List (Int × NodeAttr)) : Graph := { nodes := N, adj := N.map fun x => (x.1, []) }

theorem baseGraph_bond (N : List (Int × NodeAttr)) (a b : Int) : (baseGraph N).bond? a b = none := by
  rw [bond?_eq, adjRow_eq]
  unfold rowOf baseGraph
  simp only
  rw [List.find?_map]
  cases N.find? ((fun (r : Int × Row) => r.1 == a) ∘ fun x => (x.1, [])) <;> rfl

/-- **what `fromLists` builds**: a simple graph with exactly the given nodes (in order), one
    adjacency row per node, and between any two nodes the label of the last listed edge on that pair -/
theorem fromLists_spec (N : List (Int × NodeAttr)) (E : List (Int × Int × Label))
    (hN : (N.map (·.1)).Nodup) (hE : ∀ e ∈ E, e.1 ∈ N.map (·.1) ∧ e.2.1 ∈ N.map (·.1)) :
    (fromLists N E).multi = false ∧ (fromLists N E).nodes = N ∧
    (fromLists N E).adj.map (·.1) = N.map (·.1) ∧
    ∀ a b, (fromLists N E).bond? a b = lastLabel E a b := by
  have hbase : N.foldl (fun g x => g.addNode x.1 x.2) {} = baseGraph N := by
    rw [foldl_addNode N {} (by simp [Graph.nodeIds]) hN]
    simp [baseGraph]
  have hs0 : Simple (baseGraph N) := ⟨rfl, by simp [baseGraph, Graph.nodeIds, Function.comp_def]⟩
  unfold fromLists
  rw [hbase]
  obtain ⟨hs, hn, hb⟩ := foldl_addEdge E (baseGraph N) hs0 (by simpa [Graph.nodeIds, baseGraph] using hE)
  refine ⟨hs.multi, hn, ?_, ?_⟩
  · rw [hs.rows, Graph.nodeIds, hn]; rfl
  · intro a b
    rw [hb a b, baseGraph_bond]

theorem normNodes_ids (ia : Bool) (g : Graph) :
    (normNodes ia g).map (·.1) = (List.range' 0 g.nodes.length).map fun (i : Nat) => (i : Int) := by
  unfold normNodes
  rw [List.map_map, ← List.zipIdx_map_snd 0 g.nodes, List.map_map]
  rfl

theorem idxOf_lt {ids : List Int} {u : Int} (h : u ∈ ids) : idxOf ids u < ids.length := by
  unfold idxOf
  cases hf : ids.findIdx? (· == u) with
  | none =>
    have := List.findIdx?_eq_none_iff.1 hf u h
    simp at this
  | some i =>
    obtain ⟨hi, _⟩ := List.findIdx?_eq_some_iff_getElem.1 hf
    simpa using hi

/-- the side conditions of `fromLists_spec` for the normal form: the new ids are distinct and every
    listed bond joins two of them -/
theorem normalise_side (ia : Bool) (g : Graph) (hc : edgesClosed g = true) :
    ((normNodes ia g).map (·.1)).Nodup ∧
    ∀ e ∈ (g.edges.map fun e => ((idxOf g.nodeIds e.1 : Int), (idxOf g.nodeIds e.2.1 : Int), e.2.2.2)),
      e.1 ∈ (normNodes ia g).map (·.1) ∧ e.2.1 ∈ (normNodes ia g).map (·.1) := by
  constructor
  · rw [normNodes_ids]
    exact List.Pairwise.map _ (fun a b hab => by omega) (List.nodup_range' (s := 0) (n := g.nodes.length))
  · intro e he
    obtain ⟨e0, he0, rfl⟩ := List.mem_map.1 he
    have := (List.all_eq_true.1 hc) e0 he0
    simp only [Bool.and_eq_true, List.contains_iff_mem] at this
    rw [normNodes_ids]
    have hlen : g.nodeIds.length = g.nodes.length := by simp [Graph.nodeIds]
    constructor
    · exact List.mem_map.2 ⟨idxOf g.nodeIds e0.1, by
        simp only [List.mem_range'_1]; have := idxOf_lt this.1; omega, rfl⟩
    · exact List.mem_map.2 ⟨idxOf g.nodeIds e0.2.1, by
        simp only [List.mem_range'_1]; have := idxOf_lt this.2; omega, rfl⟩

/-- **what the normal form is**, without reference to `add_edge`: a simple graph whose nodes are
    exactly the renumbered, normalised atoms, with one adjacency row per atom, and in which the
    bond between two atoms is the label of the (last) edge of `g.edges` between the corresponding
    atoms of `g` — and no bond where `g.edges` has none -/
theorem normalise_semantics (ia : Bool) (g : Graph) (hc : edgesClosed g = true) :
    (normalise ia g).multi = false ∧ (normalise ia g).nodes = normNodes ia g ∧
    (normalise ia g).adj.map (·.1) = (normNodes ia g).map (·.1) ∧
    ∀ a b, (normalise ia g).bond? a b =
      lastLabel (g.edges.map fun e => ((idxOf g.nodeIds e.1 : Int), (idxOf g.nodeIds e.2.1 : Int), e.2.2.2)) a b := by
  unfold normalise
  exact fromLists_spec _ _ (normalise_side ia g hc).1 (normalise_side ia g hc).2


/-- the round trip in semantic form: the bridge returns a simple graph with exactly the normalised
    atoms in order and, between any two of them, the bond `g.edges` lists for the corresponding atoms -/
theorem bridge_roundtrip_semantics (ia : Bool) (g : Graph) (hs : allSymbols g = true) (hl : noLabelNodes g = true)
    (hb : supported g = true) (hc : edgesClosed g = true) :
    ∃ o, bridge ia g = .ok o ∧ o.multi = false ∧ o.nodes = normNodes ia g ∧
      o.adj.map (·.1) = (normNodes ia g).map (·.1) ∧
      ∀ a b, o.bond? a b =
        lastLabel (g.edges.map fun e => ((idxOf g.nodeIds e.1 : Int), (idxOf g.nodeIds e.2.1 : Int), e.2.2.2)) a b :=
  ⟨normalise ia g, bridge_roundtrip ia g hs hl hb, normalise_semantics ia g hc⟩

/-- what the driver evaluates on implementation outputs implies the declarative statement -/
theorem specCheck_sound (ia : Bool) (g : Graph) (out : Except Err Graph) (h : specCheck ia g out = true)
    (hs : allSymbols g = true) :
    (noLabelNodes g = false → out = .error .valueError) ∧
    (noLabelNodes g = true → supported g = true → ∃ o, out = .ok o ∧ BridgeSpec ia g o) := by
  unfold specCheck at h
  simp only [hs, Bool.not_true, Bool.false_eq_true, if_false] at h
  constructor
  · intro hl
    simp only [hl, Bool.not_false, if_true] at h
    cases out with
    | ok o => simp at h
    | error e => cases e <;> simp at h ⊢
  · intro hl hb
    simp only [hl, hb, Bool.not_true, Bool.false_eq_true, if_false] at h
    cases out with
    | ok o => exact ⟨o, rfl, by simpa using h⟩
    | error e => simp at h

/-! ### the adjacency entries of the normal form are exactly the renumbered entries of `g`
    (`BridgeSpec ia g (normalise ia g)`), through Proofs/GraphEdges.lean -/

theorem mem_adjTriples (g : Graph) (a b : Int) (l : Label) :
    (a, b, l) ∈ adjTriples g ↔ Graph.HasEntry g a b l := by
  unfold adjTriples Graph.HasEntry
  simp only [List.mem_flatMap, List.mem_map, Prod.mk.injEq]
  constructor
  · rintro ⟨r, hr, e, he, kd, hkd, h1, h2, h3⟩
    exact ⟨r, hr, h1, e, he, h2, kd, hkd, h3⟩
  · rintro ⟨r, hr, h1, e, he, h2, kd, hkd, h3⟩
    exact ⟨r, hr, e, he, kd, hkd, h1, h2, h3⟩

/-- `e` is a call `add_edge` on the unordered pair `{a, b}` -/
def OnE (a b : Int) (e : Int × Int × Label) : Prop := (a = e.1 ∧ b = e.2.1) ∨ (a = e.2.1 ∧ b = e.1)

instance (a b : Int) (e : Int × Int × Label) : Decidable (OnE a b e) := by unfold OnE; infer_instance

theorem lastLabel_cons (e : Int × Int × Label) (E : List (Int × Int × Label)) (a b : Int) (init : Option Label) :
    lastLabel (e :: E) a b init = lastLabel E a b (if OnE a b e then some e.2.2 else init) := rfl

/-- a bond of the result comes from a listed edge on that pair (or was there before) -/
theorem lastLabel_mem : ∀ (E : List (Int × Int × Label)) (a b : Int) (init : Option Label) (l : Label),
    lastLabel E a b init = some l → init = some l ∨ ∃ e ∈ E, OnE a b e ∧ e.2.2 = l
  | [], _, _, _, _, h => .inl h
  | e :: E, a, b, init, l, h => by
    rw [lastLabel_cons] at h
    rcases lastLabel_mem E a b _ l h with h1 | ⟨e', he', hM, hl⟩
    · by_cases hM : OnE a b e
      · rw [if_pos hM] at h1
        exact .inr ⟨e, List.mem_cons_self, hM, Option.some.inj h1⟩
      · rw [if_neg hM] at h1
        exact .inl h1
    · exact .inr ⟨e', List.mem_cons_of_mem _ he', hM, hl⟩

theorem lastLabel_const_init : ∀ (E : List (Int × Int × Label)) (a b : Int) (l : Label),
    (∀ e ∈ E, OnE a b e → e.2.2 = l) → lastLabel E a b (some l) = some l
  | [], _, _, _, _ => rfl
  | e :: E, a, b, l, h => by
    rw [lastLabel_cons]
    have ih := lastLabel_const_init E a b l (fun e' he' => h e' (List.mem_cons_of_mem _ he'))
    by_cases hM : OnE a b e
    · rw [if_pos hM, h e List.mem_cons_self hM]; exact ih
    · rw [if_neg hM]; exact ih

/-- when every listed edge on the pair carries `l` and one is listed, the resulting bond is `l` -/
theorem lastLabel_const : ∀ (E : List (Int × Int × Label)) (a b : Int) (init : Option Label) (l : Label),
    (∀ e ∈ E, OnE a b e → e.2.2 = l) → (∃ e ∈ E, OnE a b e) → lastLabel E a b init = some l
  | [], _, _, _, _, _, h => by obtain ⟨e, he, _⟩ := h; simp at he
  | e :: E, a, b, init, l, h, hex => by
    rw [lastLabel_cons]
    have h' : ∀ e' ∈ E, OnE a b e' → e'.2.2 = l := fun e' he' => h e' (List.mem_cons_of_mem _ he')
    by_cases hM : OnE a b e
    · rw [if_pos hM, h e List.mem_cons_self hM]
      exact lastLabel_const_init E a b l h'
    · rw [if_neg hM]
      apply lastLabel_const E a b init l h'
      obtain ⟨e', he', hM'⟩ := hex
      rcases List.mem_cons.1 he' with rfl | he'
      · exact absurd hM' hM
      · exact ⟨e', he', hM'⟩

/-- the atom at position `idx_map[u]` is `u` -/
theorem idxOf_get? {ids : List Int} {u : Int} (h : u ∈ ids) : ids[idxOf ids u]? = some u := by
  unfold idxOf
  cases hf : ids.findIdx? (· == u) with
  | none =>
    have := List.findIdx?_eq_none_iff.1 hf u h
    simp at this
  | some i =>
    obtain ⟨hi, hp, _⟩ := List.findIdx?_eq_some_iff_getElem.1 hf
    simp only [Option.getD_some]
    rw [List.getElem?_eq_getElem hi]
    simpa using hp

/-- `idx_map` is injective on the nodes -/
theorem idxOf_inj {ids : List Int} {u v : Int} (hu : u ∈ ids) (hv : v ∈ ids) (h : idxOf ids u = idxOf ids v) :
    u = v := by
  have a := idxOf_get? hu
  have b := idxOf_get? hv
  rw [h, b] at a
  exact (Option.some.inj a).symm

/-- with distinct ids, `idx_map` of the `i`-th node is `i` -/
theorem idxOf_getElem {ids : List Int} (hnd : ids.Nodup) (i : Nat) (h : i < ids.length) : idxOf ids ids[i] = i := by
  have hm : ids[i] ∈ ids := List.getElem_mem h
  have hlt := idxOf_lt hm
  have hg := idxOf_get? hm
  rw [List.getElem?_eq_getElem hlt] at hg
  have hg' : ids[idxOf ids ids[i]] = ids[i] := Option.some.inj hg
  apply Classical.byContradiction
  intro hne
  have hp := List.pairwise_iff_getElem.1 hnd
  rcases Nat.lt_or_gt_of_ne hne with hlt' | hgt
  · exact hp _ _ hlt h hlt' hg'
  · exact hp _ _ h hlt hgt hg'.symm

theorem edgesClosed_of_wf (g : Graph) (hw : C11.WF g) (hs : C11.Simple g) : edgesClosed g = true := by
  unfold edgesClosed
  rw [List.all_eq_true]
  intro e he
  obtain ⟨a, b, k, l⟩ := e
  obtain ⟨-, ha, hb, -⟩ := Graph.mem_edges_entry g hw hs he
  simp [ha, hb]

theorem foldl_addEdge_tidy : ∀ (E : List (Int × Int × Label)) (g : Graph), Simple g → Graph.Tidy g →
    (∀ e ∈ E, e.1 ∈ g.nodeIds ∧ e.2.1 ∈ g.nodeIds) →
    Graph.Tidy (E.foldl (fun g e => g.addEdge e.1 e.2.1 e.2.2) g)
  | [], _, _, ht, _ => ht
  | e :: E, g, hs, ht, hE => by
    have he := hE e List.mem_cons_self
    obtain ⟨hs1, hn1, -⟩ := addEdge_simple hs he.1 he.2 e.2.2
    have hids : (g.addEdge e.1 e.2.1 e.2.2).nodeIds = g.nodeIds := by simp [Graph.nodeIds, hn1]
    exact foldl_addEdge_tidy E (g.addEdge e.1 e.2.1 e.2.2) hs1
      (Graph.addEdge_tidy g e.1 e.2.1 e.2.2 he.1 he.2 hs.multi ht)
      (fun e' he' => by rw [hids]; exact hE e' (List.mem_cons_of_mem _ he'))

/-- `fromLists` builds a tidy adjacency: distinct row keys, distinct neighbours per row, one key
    per neighbour -/
theorem fromLists_tidy (N : List (Int × NodeAttr)) (E : List (Int × Int × Label))
    (hN : (N.map (·.1)).Nodup) (hE : ∀ e ∈ E, e.1 ∈ N.map (·.1) ∧ e.2.1 ∈ N.map (·.1)) :
    Graph.Tidy (fromLists N E) := by
  have hbase : N.foldl (fun g x => g.addNode x.1 x.2) {} = baseGraph N := by
    rw [foldl_addNode N {} (by simp [Graph.nodeIds]) hN]
    simp [baseGraph]
  have hs0 : Simple (baseGraph N) := ⟨rfl, by simp [baseGraph, Graph.nodeIds, Function.comp_def]⟩
  have ht0 : Graph.Tidy (baseGraph N) := by
    refine ⟨?_, ?_⟩
    · simpa [baseGraph, Function.comp_def] using hN
    · intro r hr
      simp only [baseGraph, List.mem_map] at hr
      obtain ⟨x, -, rfl⟩ := hr
      simp
  unfold fromLists
  rw [hbase]
  exact foldl_addEdge_tidy E (baseGraph N) hs0 ht0 (by simpa [Graph.nodeIds, baseGraph] using hE)

theorem normalise_tidy (ia : Bool) (g : Graph) (hc : edgesClosed g = true) : Graph.Tidy (normalise ia g) := by
  unfold normalise
  exact fromLists_tidy _ _ (normalise_side ia g hc).1 (normalise_side ia g hc).2

/-- what `C11.wellFormed` / `C11.simple` say, for the reader of this file: these are the
    hypotheses of `bridge_spec_holds` and `bridge_lossless` -/
theorem inputHyp_unfold (g : Graph) :
    (C11.wellFormed g && C11.simple g) =
      (decide g.nodeIds.Nodup && g.adj.map (·.1) == g.nodeIds &&
        g.adj.all (fun r => decide (r.2.map (·.1)).Nodup &&
          r.2.all fun x => g.nodeIds.contains x.1 && g.edgeData x.1 r.1 == x.2) &&
       (!g.multi && g.adj.all fun r => r.2.all fun x => x.2.map (·.1) == [0])) := rfl

/-- **the normal form satisfies the semantic specification**: for every well-formed simple
    undirected graph `g` (the two decidable predicates every simple networkx graph satisfies),
    the adjacency entries of `normalise ia g` are exactly the adjacency entries of `g`, renumbered,
    with the same labels, one entry per ordered adjacent pair; the atoms are the normalised atoms of
    `g` in order.  This closes the step from "the bonds `g.edges` lists" (seen-set iteration) to
    "the adjacency entries of `g`". -/
theorem bridge_spec_holds (ia : Bool) (g : Graph) (hwf : C11.wellFormed g = true) (hsi : C11.simple g = true) :
    BridgeSpec ia g (normalise ia g) := by
  have hw := C11.wf_of_wellFormed g hwf
  have hs := C11.simple_of_simple g hw hsi
  have hc := edgesClosed_of_wf g hw hs
  obtain ⟨hm, hn, hrows, hbond⟩ := normalise_semantics ia g hc
  have hto := normalise_tidy ia g hc
  have htg := Graph.tidy_of_wf g hw hs
  refine ⟨hm, hn, by rw [hrows, hn], ?_, ?_, hto.rows⟩
  · -- every entry of the result is a renumbered entry of `g`
    intro t ht
    obtain ⟨a, b, l⟩ := t
    have hb := Graph.bond?_of_hasEntry _ hto ((mem_adjTriples _ a b l).1 ht)
    rw [hbond] at hb
    rcases lastLabel_mem _ a b none l hb with h | ⟨e, he, hM, hl⟩
    · cases h
    · obtain ⟨e0, he0, rfl⟩ := List.mem_map.1 he
      obtain ⟨u, v, k, l0⟩ := e0
      obtain ⟨-, -, -, -, huv, hvu⟩ := Graph.mem_edges_entry g hw hs he0
      simp only at hl
      subst hl
      rcases hM with ⟨h1, h2⟩ | ⟨h1, h2⟩
      · simp only at h1 h2
        subst h1 h2
        exact ⟨(u, v, l0), (mem_adjTriples g u v l0).2 (Graph.hasEntry_of_bond? g huv), rfl⟩
      · simp only at h1 h2
        subst h1 h2
        exact ⟨(v, u, l0), (mem_adjTriples g v u l0).2 (Graph.hasEntry_of_bond? g hvu), rfl⟩
  · -- every entry of `g` is, renumbered, an entry of the result
    intro s hs'
    obtain ⟨u, v, l⟩ := s
    have hent := (mem_adjTriples g u v l).1 hs'
    have hb := Graph.bond?_of_hasEntry g htg hent
    obtain ⟨hu, hv⟩ := Graph.hasEntry_nodes g hw hent
    apply (mem_adjTriples _ _ _ _).2
    apply Graph.hasEntry_of_bond?
    show (normalise ia g).bond? (idxOf g.nodeIds u : Int) (idxOf g.nodeIds v : Int) = some l
    rw [hbond]
    apply lastLabel_const
    · -- every listed edge on this pair of positions is on the pair {u, v}: it carries `l`
      intro e he hM
      obtain ⟨e0, he0, rfl⟩ := List.mem_map.1 he
      obtain ⟨a, b, k, l0⟩ := e0
      obtain ⟨-, ha, hb', -, hab, hba⟩ := Graph.mem_edges_entry g hw hs he0
      show l0 = l
      rcases hM with ⟨h1, h2⟩ | ⟨h1, h2⟩
      · simp only at h1 h2
        have e1 := idxOf_inj hu ha (by omega)
        have e2 := idxOf_inj hv hb' (by omega)
        subst e1 e2
        rw [hab] at hb
        exact Option.some.inj hb
      · simp only at h1 h2
        have e1 := idxOf_inj hu hb' (by omega)
        have e2 := idxOf_inj hv ha (by omega)
        subst e1 e2
        rw [hba] at hb
        exact Option.some.inj hb
    · obtain ⟨e, he, hp, -⟩ := Graph.exists_onPair g hw hs hb
      refine ⟨_, List.mem_map.2 ⟨e, he, rfl⟩, ?_⟩
      rcases (Graph.onPair_iff u v e).1 hp with ⟨h1, h2⟩ | ⟨h1, h2⟩
      · exact .inl ⟨by simp [h1], by simp [h2]⟩
      · exact .inr ⟨by simp [h2], by simp [h1]⟩

/-- all atom-map numbers of the input are `≥ 1` (the property's quantifier) -/
def mapsPositive (g : Graph) : Bool := g.nodes.all fun x => x.2.aam.all fun k => decide (k ≥ 1)

theorem zipIdx_map_fst' {α β : Type} (l : List α) (f : α → β) : (l.zipIdx.map fun x => f x.1) = l.map f := by
  have : (l.zipIdx.map fun x => f x.1) = (l.zipIdx.map Prod.fst).map f := by
    rw [List.map_map]; rfl
  rw [this, List.zipIdx_map_fst]

/-- **the RDKit bridge is lossless** (the property clause, for the model).  For every well-formed
    simple undirected graph `g` without self-loops (`noSelfLoops`: RDKit refuses a bond from an atom to
    itself, which the RWMol model does not reproduce — such graphs are outside the domain) whose nodes all carry a symbol, none of them a labelled placeholder,
    and whose bonds all have a supported order (1, 1.5, 2, 3, 4), the round trip
    `mol_to_graph(graph_to_mol(g, ignore_aam))` returns a simple graph `o` with
    * the same atoms in the same order: ids `0 … n-1`, the `i`-th atom of `o` is the `i`-th atom
      of `g` (`idxOf g.nodeIds` is the position of an atom of `g`), its symbol the symbol of `g`
      with the lower-case aromatic symbols normalised to the element;
    * the same atom-map numbers: those `≥ 1` are kept, `0`/negative ones are dropped (RDKit's
      "no map"), none with `ignore_aam`; in particular all of them when all are `≥ 1`;
    * the same bonded pairs with the same orders: the bond between the atoms at the positions of
      `u` and `v` is the bond of `g` between `u` and `v` (none where `g` has none), every bond of `o`
      is such a bond and has a supported order; one adjacency row per atom;
    * and `BridgeSpec` (the same statement on the adjacency entries, applied by the driver to
      every implementation output). -/
theorem bridge_lossless (ia : Bool) (g : Graph) (hwf : C11.wellFormed g = true) (hsi : C11.simple g = true)
    (hnl : noSelfLoops g = true)
    (hsym : allSymbols g = true) (hlab : noLabelNodes g = true) (hsup : supported g = true) :
    ∃ o, bridge ia g = .ok o ∧
      o.multi = false ∧ o.adj.map (·.1) = o.nodeIds ∧
      -- atoms, in order
      o.nodeIds = (List.range g.nodes.length).map (fun (i : Nat) => (i : Int)) ∧
      (∀ (i : Nat) (h : i < g.nodeIds.length), idxOf g.nodeIds g.nodeIds[i] = i) ∧
      o.nodes.map (·.2.symbol) = g.nodes.map (fun x => x.2.symbol.map refNorm) ∧
      -- atom-map numbers
      o.nodes.map (·.2.aam) =
        g.nodes.map (fun x => if ia then none else x.2.aam.filter (fun k => decide (k ≥ 1))) ∧
      (ia = false → mapsPositive g = true → o.nodes.map (·.2.aam) = g.nodes.map (·.2.aam)) ∧
      -- bonds
      (∀ u ∈ g.nodeIds, ∀ v ∈ g.nodeIds,
        o.bond? (idxOf g.nodeIds u : Int) (idxOf g.nodeIds v : Int) = g.bond? u v) ∧
      (∀ a b l, o.bond? a b = some l → supportedLabel l = true ∧
        ∃ u ∈ g.nodeIds, ∃ v ∈ g.nodeIds,
          a = (idxOf g.nodeIds u : Int) ∧ b = (idxOf g.nodeIds v : Int) ∧ g.bond? u v = some l) ∧
      BridgeSpec ia g o ∧
      -- no atom is bonded to itself (as in the input: `noSelfLoops g`)
      (∀ a, o.bond? a a = none) := by
  have hw := C11.wf_of_wellFormed g hwf
  have hs := C11.simple_of_simple g hw hsi
  have hc := edgesClosed_of_wf g hw hs
  have hspec := bridge_spec_holds ia g hwf hsi
  have hto := normalise_tidy ia g hc
  have htg := Graph.tidy_of_wf g hw hs
  have hnodes := hspec.nodes
  -- entries of the result, in terms of `bond?`
  have hback : ∀ a b l, (normalise ia g).bond? a b = some l →
      ∃ u ∈ g.nodeIds, ∃ v ∈ g.nodeIds,
        a = (idxOf g.nodeIds u : Int) ∧ b = (idxOf g.nodeIds v : Int) ∧ g.bond? u v = some l := by
    intro a b l h
    obtain ⟨s, hs', ht⟩ := hspec.bonds_sound (a, b, l)
      ((mem_adjTriples _ a b l).2 (Graph.hasEntry_of_bond? _ h))
    obtain ⟨u, v, l'⟩ := s
    simp only [Prod.mk.injEq] at ht
    obtain ⟨rfl, rfl, rfl⟩ := ht
    have hent := (mem_adjTriples g u v l).1 hs'
    obtain ⟨hu, hv⟩ := Graph.hasEntry_nodes g hw hent
    exact ⟨u, hu, v, hv, rfl, rfl, Graph.bond?_of_hasEntry g htg hent⟩
  refine ⟨normalise ia g, bridge_roundtrip ia g hsym hlab hsup, hspec.simple, hspec.rows, ?_,
    fun i h => idxOf_getElem hw.nodup i h, ?_, ?_, ?_, ?_, ?_, hspec, ?_⟩
  · rw [Graph.nodeIds, hnodes, normNodes_ids, List.range_eq_range']
  · rw [hnodes]; unfold normNodes
    rw [List.map_map]
    exact zipIdx_map_fst' g.nodes (fun x => x.2.symbol.map refNorm)
  · rw [hnodes]; unfold normNodes
    rw [List.map_map]
    exact zipIdx_map_fst' g.nodes (fun x => if ia then none else x.2.aam.filter (fun k => decide (k ≥ 1)))
  · intro hia hpos
    subst hia
    rw [hnodes]; unfold normNodes
    rw [List.map_map]
    have h2 : g.nodes.map (fun x => x.2.aam.filter (fun k => decide (k ≥ 1))) = g.nodes.map (·.2.aam) := by
      apply List.map_congr_left
      intro x hx
      have := (List.all_eq_true.1 hpos) x hx
      cases hx' : x.2.aam with
      | none => rfl
      | some k => simpa [hx'] using this
    rw [← h2]
    exact zipIdx_map_fst' g.nodes (fun x => x.2.aam.filter (fun k => decide (k ≥ 1)))
  · intro u hu v hv
    cases hb : g.bond? u v with
    | some l =>
      have := hspec.bonds_complete (u, v, l) ((mem_adjTriples g u v l).2 (Graph.hasEntry_of_bond? g hb))
      exact Graph.bond?_of_hasEntry _ hto ((mem_adjTriples _ _ _ _).1 this)
    | none =>
      cases ho : (normalise ia g).bond? (idxOf g.nodeIds u : Int) (idxOf g.nodeIds v : Int) with
      | none => rfl
      | some l =>
        obtain ⟨u', hu', v', hv', h1, h2, hb'⟩ := hback _ _ l ho
        have e1 := idxOf_inj hu hu' (by omega)
        have e2 := idxOf_inj hv hv' (by omega)
        subst e1 e2
        rw [hb] at hb'; cases hb'
  · intro a b l h
    obtain ⟨u, hu, v, hv, h1, h2, hb⟩ := hback a b l h
    refine ⟨?_, u, hu, v, hv, h1, h2, hb⟩
    obtain ⟨e, he, -, hl⟩ := Graph.exists_onPair g hw hs hb
    have := (List.all_eq_true.1 hsup) e he
    rw [hl] at this
    exact this
  · intro a
    cases ho : (normalise ia g).bond? a a with
    | none => rfl
    | some l =>
      obtain ⟨u, hu, v, hv, h1, h2, hb⟩ := hback a a l ho
      have e := idxOf_inj hu hv (by omega)
      subst e
      have := (List.all_eq_true.1 hnl) u hu
      rw [hb] at this
      simp at this


/-! ### non-vacuity (tests) -/

/-- `[C:1]` (id 7) aromatic-bonded to `c` with map 2 (id 3), plus an unmapped oxygen (id 5) -/
def exG : Graph :=
  { nodes := [(7, { symbol := some "C", aam := some 1 }), (3, { symbol := some "c", aam := some 2 }),
              (5, { symbol := some "O" })],
    adj := [(7, [(3, [(0, .s 3)])]), (3, [(7, [(0, .s 3)]), (5, [(0, .s 8)])]), (5, [(3, [(0, .s 8)])])] }

example : allSymbols exG = true ∧ noLabelNodes exG = true ∧ supported exG = true := by decide
example : (normalise false exG).nodes =
    [(0, { symbol := some "C", aam := some 1 }), (1, { symbol := some "C", aam := some 2 }), (2, { symbol := some "O" })] := by
  decide
example : (normalise false exG).adj =
    [(0, [(1, [(0, .s 3)])]), (1, [(0, [(0, .s 3)]), (2, [(0, .s 8)])]), (2, [(1, [(0, .s 8)])])] := by decide
example : specCheck false exG (bridge false exG) = true := by decide
example : edgesClosed exG = true := by decide
example : (normalise false exG).bond? 1 2 = some (.s 8) ∧ (normalise false exG).bond? 2 1 = some (.s 8) ∧
    (normalise false exG).bond? 0 2 = none := by decide
/-- a quadruple bond coming back as a triple bond is rejected by the specification -/
def exBad : Graph :=
  { nodes := [(0, { symbol := some "C", aam := some 1 }), (1, { symbol := some "C", aam := some 2 }), (2, { symbol := some "O" })],
    adj := [(0, [(1, [(0, .s 3)])]), (1, [(0, [(0, .s 3)]), (2, [(0, .s 6)])]), (2, [(1, [(0, .s 6)])])] }
example : specCheck false exG (.ok exBad) = false := by decide
/-- a labelled node is refused -/
example : (match bridge false { nodes := [(0, { symbol := some "#", labels := some ["alkyl"], isLabeled := some true })] } with
    | .error .valueError => true | _ => false) = true := by decide

/-! non-vacuity of `bridge_spec_holds` / `bridge_lossless` (tests): a five-atom graph with sparse
    shuffled ids (12, 4, 9, 30, 7), a ring 12–4–9–30 with an aromatic (1.5), a quadruple, a single
    and a double bond, an isolated atom, atom maps 3, 1, 2 on three atoms; adjacency orders differ
    from node order -/
def exH : Graph :=
  { nodes := [(12, { symbol := some "C", aam := some 3 }), (4, { symbol := some "c", aam := some 1 }),
              (9, { symbol := some "N" }), (30, { symbol := some "O", aam := some 2 }), (7, { symbol := some "Cl" })],
    adj := [(12, [(4, [(0, .s 3)]), (30, [(0, .s 4)])]), (4, [(9, [(0, .s 8)]), (12, [(0, .s 3)])]),
            (9, [(4, [(0, .s 8)]), (30, [(0, .s 2)])]), (30, [(9, [(0, .s 2)]), (12, [(0, .s 4)])]), (7, [])] }

/-- the hypotheses hold on `exH` (and on `exG`) -/
example : C11.wellFormed exH = true ∧ C11.simple exH = true ∧ allSymbols exH = true ∧ noLabelNodes exH = true ∧
    supported exH = true ∧ mapsPositive exH = true := by decide
example : C11.wellFormed exG = true ∧ C11.simple exG = true := by decide
/-- the seen-set edge view lists each of the four bonds once, two of them from their second end -/
example : exH.edges = [(12, 4, 0, .s 3), (12, 30, 0, .s 4), (4, 9, 0, .s 8), (9, 30, 0, .s 2)] := by decide
example : exH.edges.countP (Graph.onPair 30 9) = 1 :=
  Graph.edges_count_pair exH (C11.wf_of_wellFormed exH (by decide))
    (C11.simple_of_simple exH (C11.wf_of_wellFormed exH (by decide)) (by decide)) (by decide)
example : exH.edges.countP (Graph.onPair 30 9) = 1 ∧ exH.edges.countP (Graph.onPair 12 9) = 0 := by decide
/-- the theorem instantiated, and the same fact re-evaluated by the kernel -/
example : BridgeSpec false exH (normalise false exH) := bridge_spec_holds false exH (by decide) (by decide)
example : BridgeSpec true exG (normalise true exG) := bridge_spec_holds true exG (by decide) (by decide)
example : decide (BridgeSpec false exH (normalise false exH)) = true := by decide
/-- what `bridge_lossless` yields on `exH`: the quadruple bond 4–9 sits between positions 1 and 2,
    the aromatic bond 12–4 between 0 and 1, no bond between 12 and 9, the maps are 3, 1, –, 2, – and
    the aromatic `c` came back as `C` -/
example : ∃ o, bridge false exH = .ok o ∧ o.bond? 1 2 = some (.s 8) ∧ o.bond? 1 0 = some (.s 3) ∧ o.bond? 0 2 = none ∧
    o.nodes.map (·.2.aam) = [some 3, some 1, none, some 2, none] ∧
    o.nodes.map (·.2.symbol) = [some "C", some "C", some "N", some "O", some "Cl"] ∧
    o.nodeIds = [0, 1, 2, 3, 4] := by
  obtain ⟨o, hb, -, -, hids, -, hsy, -, haam, hbond, -, -, -⟩ :=
    bridge_lossless false exH (by decide) (by decide) (by decide) (by decide) (by decide) (by decide)
  refine ⟨o, hb, ?_, ?_, ?_, ?_, ?_, ?_⟩
  · exact hbond 4 (by decide) 9 (by decide)
  · exact hbond 4 (by decide) 12 (by decide)
  · exact hbond 12 (by decide) 9 (by decide)
  · rw [haam rfl (by decide)]; decide
  · rw [hsy]; decide
  · rw [hids]; decide
/-- the model output on `exH`, evaluated -/
example : (normalise false exH).adj =
    [(0, [(1, [(0, .s 3)]), (3, [(0, .s 4)])]), (1, [(0, [(0, .s 3)]), (2, [(0, .s 8)])]),
     (2, [(1, [(0, .s 8)]), (3, [(0, .s 2)])]), (3, [(0, [(0, .s 4)]), (2, [(0, .s 2)])]), (4, [])] := by decide

/-! ### Weisfeiler-Lehman hash: invariance under renumbering -/

section WL
variable {L : Type}

/-- the order used for `sorted(...)` is a linear order -/
structure LinearLe (le : L → L → Bool) : Prop where
  total : ∀ a b, (le a b || le b a) = true
  trans : ∀ a b c, le a b = true → le b c = true → le a c = true
  antisymm : ∀ a b, le a b = true → le b a = true → a = b

theorem insSorted_perm (le : L → L → Bool) (a : L) : ∀ l : List L, (insSorted le a l).Perm (a :: l)
  | [] => List.Perm.refl _
  | b :: l => by
    unfold insSorted
    split
    · exact List.Perm.refl _
    · exact ((insSorted_perm le a l).cons b).trans (List.Perm.swap a b l)

theorem sort_perm (le : L → L → Bool) : ∀ l : List L, (sort le l).Perm l
  | [] => List.Perm.refl _
  | a :: l => by
    show (insSorted le a (sort le l)).Perm (a :: l)
    exact (insSorted_perm le a _).trans ((sort_perm le l).cons a)

theorem insSorted_pairwise {le : L → L → Bool} (h : LinearLe le) (a : L) :
    ∀ l : List L, l.Pairwise (fun x y => le x y = true) → (insSorted le a l).Pairwise (fun x y => le x y = true)
  | [], _ => by simp [insSorted]
  | b :: l, hp => by
    unfold insSorted
    have hb := List.pairwise_cons.1 hp
    split
    · next hab =>
      refine List.pairwise_cons.2 ⟨?_, hp⟩
      intro c hc
      rcases List.mem_cons.1 hc with rfl | hc
      · exact hab
      · exact h.trans a b c hab (hb.1 c hc)
    · next hab =>
      have hba : le b a = true := by
        have := h.total a b
        simp only [Bool.or_eq_true] at this
        rcases this with h1 | h1
        · exact absurd h1 hab
        · exact h1
      refine List.pairwise_cons.2 ⟨?_, insSorted_pairwise h a l hb.2⟩
      intro c hc
      have := (insSorted_perm le a l).subset hc
      rcases List.mem_cons.1 this with rfl | hc
      · exact hba
      · exact hb.1 c hc

theorem sort_pairwise {le : L → L → Bool} (h : LinearLe le) : ∀ l : List L,
    (sort le l).Pairwise (fun x y => le x y = true)
  | [] => List.Pairwise.nil
  | a :: l => insSorted_pairwise h a _ (sort_pairwise h l)

/-- `sorted` only depends on the multiset of its argument -/
theorem sort_congr {le : L → L → Bool} (h : LinearLe le) {l l' : List L} (hp : l.Perm l') :
    sort le l = sort le l' :=
  List.Perm.eq_of_pairwise (le := fun x y => le x y = true) (fun a b _ _ => h.antisymm a b)
    (sort_pairwise h l) (sort_pairwise h l')
    ((sort_perm le l).trans (hp.trans (sort_perm le l').symm))

/-- the bond label the hash reads for an adjacency entry -/
def bondOf (e : Int × List (Nat × Label)) : Label := (e.2.head?.map (·.2)).getD .nil

/-- `g'` is `g` renumbered by `π`, in any node order and any adjacency order: the same atoms
    (as a multiset of renamed ids) with the same symbols, and for every atom the same multiset of
    (renamed neighbour, bond) entries -/
structure Renumbering (π : Int → Int) (g g' : Graph) : Prop where
  nodes : g'.nodeIds.Perm (g.nodeIds.map π)
  symbols : ∀ n ∈ g.nodeIds, g'.symbol? (π n) = g.symbol? n
  rows : ∀ n ∈ g.nodeIds,
    ((g'.adjRow (π n)).map fun e => (e.1, bondOf e)).Perm ((g.adjRow n).map fun e => (π e.1, bondOf e))
  closed : ∀ n ∈ g.nodeIds, ∀ e ∈ g.adjRow n, e.1 ∈ g.nodeIds

theorem wlLabel_renumber (P : WLParams L) (hle : LinearLe P.le) {π : Int → Int} {g g' : Graph}
    (h : Renumbering π g g') : ∀ (k : Nat), ∀ n ∈ g.nodeIds, wlLabel P g' k (π n) = wlLabel P g k n
  | 0, n, hn => by simp only [wlLabel, h.symbols n hn]
  | k + 1, n, hn => by
    have ih := wlLabel_renumber P hle h k
    simp only [wlLabel]
    rw [ih n hn]
    congr 1
    apply sort_congr hle
    have e1 : (g'.adjRow (π n)).map (fun e => P.edge ((e.2.head?.map (·.2)).getD .nil) (wlLabel P g' k e.1)) =
        ((g'.adjRow (π n)).map fun e => (e.1, bondOf e)).map fun q => P.edge q.2 (wlLabel P g' k q.1) := by
      rw [List.map_map]; rfl
    have e2 : (g.adjRow n).map (fun e => P.edge ((e.2.head?.map (·.2)).getD .nil) (wlLabel P g k e.1)) =
        ((g.adjRow n).map fun e => (π e.1, bondOf e)).map fun q => P.edge q.2 (wlLabel P g' k q.1) := by
      rw [List.map_map]
      apply List.map_congr_left
      intro e he
      simp only [Function.comp, bondOf, ih e.1 (h.closed n hn e he)]
    rw [e1, e2]
    exact (h.rows n hn).map _

theorem wlItems_renumber [DecidableEq L] (P : WLParams L) (hle : LinearLe P.le) {π : Int → Int} {g g' : Graph}
    (h : Renumbering π g g') (k : Nat) : wlItems P g' k = wlItems P g k := by
  unfold wlItems
  congr 1
  apply sort_congr hle
  have : g.nodeIds.map (wlLabel P g k) = (g.nodeIds.map π).map (wlLabel P g' k) := by
    rw [List.map_map]
    apply List.map_congr_left
    intro n hn
    exact (wlLabel_renumber P hle h k n hn).symm
  rw [this]
  exact h.nodes.map _

/-- **WL invariance**, for every label algebra (in particular every digest function), every
    number of iterations and every renumbering `π` (with any change of node and adjacency order):
    the hash is unchanged -/
theorem wl_invariant [DecidableEq L] (P : WLParams L) (hle : LinearLe P.le) {π : Int → Int} {g g' : Graph}
    (h : Renumbering π g g') (iterations : Nat) : wlHash P iterations g' = wlHash P iterations g := by
  unfold wlHash
  have : (fun k => wlItems P g' (k + 1)) = fun k => wlItems P g (k + 1) :=
    funext fun k => wlItems_renumber P hle h (k + 1)
  rw [this]

end WL

/-- the order Python uses for `sorted` on strings is a linear order -/
theorem string_le_linear : LinearLe (fun a b : String => decide (a ≤ b)) where
  total a b := by
    rcases String.le_total a b with h | h <;> simp [h]
  trans a b c h1 h2 := by
    simp only [decide_eq_true_eq] at *
    exact String.le_trans h1 h2
  antisymm a b h1 h2 := by
    simp only [decide_eq_true_eq] at *
    exact String.le_antisymm h1 h2

/-- the networkx hash, for **every digest function**: unchanged by renumbering -/
theorem wl_invariant_digest (digest : String → String) {π : Int → Int} {g g' : Graph}
    (h : Renumbering π g g') (iterations : Nat) :
    wlHash (wlString digest) iterations g' = wlHash (wlString digest) iterations g :=
  wl_invariant (wlString digest) string_le_linear h iterations

/-- hence `mol_compare` gives the same answer for a candidate and for any renumbering of it
    (and likewise in the target argument) -/
theorem mol_compare_invariant (digest : String → String) {π : Int → Int} {g g' : Graph}
    (h : Renumbering π g g') (target : Graph) :
    molCompare digest g' target = molCompare digest g target ∧
    molCompare digest target g' = molCompare digest target g := by
  unfold molCompare
  rw [wl_invariant_digest digest h 3]
  exact ⟨rfl, rfl⟩

/-! the hypothesis `Renumbering` is satisfiable: relabelling with an injective map -/

/-- `nx.relabel_nodes(g, π)` keeping all orders -/
def relabel (π : Int → Int) (g : Graph) : Graph :=
  { g with nodes := g.nodes.map fun x => (π x.1, x.2)
           adj := g.adj.map fun r => (π r.1, r.2.map fun e => (π e.1, e.2)) }

theorem find?_map_inj {β : Type} (π : Int → Int) (hπ : ∀ a b, π a = π b → a = b) (f : Int × β → Int × β)
    (hf : ∀ x, (f x).1 = π x.1) (l : List (Int × β)) (n : Int) :
    (l.map f).find? (·.1 == π n) = (l.find? (·.1 == n)).map f := by
  induction l with
  | nil => rfl
  | cons x l ih =>
    simp only [List.map_cons, List.find?_cons, hf x]
    by_cases h : x.1 = n
    · simp [h]
    · have h1 : (π x.1 == π n) = false := by
        simp only [beq_eq_false_iff_ne, ne_eq]
        exact fun he => h (hπ _ _ he)
      have h2 : (x.1 == n) = false := by simp [h]
      simp only [h1, h2, ih]

theorem renumbering_relabel (π : Int → Int) (hπ : ∀ a b, π a = π b → a = b) (g : Graph)
    (hc : ∀ n ∈ g.nodeIds, ∀ e ∈ g.adjRow n, e.1 ∈ g.nodeIds) : Renumbering π g (relabel π g) := by
  refine ⟨?_, ?_, ?_, hc⟩
  · simp [relabel, Graph.nodeIds, Function.comp_def]
  · intro n _
    unfold Graph.symbol? Graph.attr?
    simp only [relabel]
    rw [find?_map_inj π hπ (fun x => (π x.1, x.2)) (fun _ => rfl)]
    cases g.nodes.find? (·.1 == n) <;> rfl
  · intro n _
    unfold Graph.adjRow
    simp only [relabel]
    rw [find?_map_inj π hπ (fun (r : Int × List (Int × List (Nat × Label))) => (π r.1, r.2.map fun e => (π e.1, e.2)))
      (fun _ => rfl)]
    cases g.adj.find? (·.1 == n) with
    | none => exact List.Perm.refl _
    | some r =>
      simp only [Option.map_some, List.map_map]
      exact List.Perm.refl _

/-- renumbering by any injective map leaves the hash unchanged -/
theorem wl_invariant_relabel (digest : String → String) (π : Int → Int) (hπ : ∀ a b, π a = π b → a = b)
    (g : Graph) (hc : ∀ n ∈ g.nodeIds, ∀ e ∈ g.adjRow n, e.1 ∈ g.nodeIds) (iterations : Nat) :
    wlHash (wlString digest) iterations (relabel π g) = wlHash (wlString digest) iterations g :=
  wl_invariant_digest digest (renumbering_relabel π hπ g hc) iterations

/-! non-vacuity (tests): a cheap label algebra over `Nat`, kernel-evaluated -/

def exP : WLParams Nat :=
  { init := fun s => match s with | some "C" => 6 | some "O" => 8 | some "N" => 7 | _ => 0
    edge := fun l x => (match l with | .s o => o.toNat | _ => 0) * 1000 + x
    agg := fun own ls => (ls.foldl (fun acc x => (acc * 31 + x) % 1000003) own) % 1000003
    le := fun a b => Nat.ble a b
    fin := fun items => items.foldl (fun acc x => (acc * 131 + x.1 * 7 + x.2) % 1000003) 1 }

/-- ethanol `CCO` with ids 0,1,2 -/
def exE1 : Graph :=
  { nodes := [(0, { symbol := some "C" }), (1, { symbol := some "C" }), (2, { symbol := some "O" })],
    adj := [(0, [(1, [(0, .s 2)])]), (1, [(0, [(0, .s 2)]), (2, [(0, .s 2)])]), (2, [(1, [(0, .s 2)])])] }
/-- the same molecule with ids 9,4,7, nodes and adjacency in a different order -/
def exE2 : Graph :=
  { nodes := [(7, { symbol := some "O" }), (9, { symbol := some "C" }), (4, { symbol := some "C" })],
    adj := [(7, [(4, [(0, .s 2)])]), (9, [(4, [(0, .s 2)])]), (4, [(7, [(0, .s 2)]), (9, [(0, .s 2)])])] }
/-- dimethyl ether `COC` -/
def exE3 : Graph :=
  { nodes := [(0, { symbol := some "C" }), (1, { symbol := some "O" }), (2, { symbol := some "C" })],
    adj := [(0, [(1, [(0, .s 2)])]), (1, [(0, [(0, .s 2)]), (2, [(0, .s 2)])]), (2, [(1, [(0, .s 2)])])] }

example : wlHash exP 3 exE2 = wlHash exP 3 exE1 := by decide
example : wlHash exP 3 exE3 ≠ wlHash exP 3 exE1 := by decide
example : wlItems exP exE1 1 ≠ [] := by decide

end C19
