import FGVerif.Model.C13
/-!
  C13 (edge level), part A: association-list lookups, `halfEdge`/`updRow`/`addEdgeKey` formulas.
  Helper lemmas live in namespace `C13.E`.
-/
set_option linter.unusedSimpArgs false
namespace C13.E
open Graph

variable {γ δ : Type}

/-- first components of an association list -/
def ids {β : Type} (l : List (Int × β)) : List Int := l.map (·.1)

@[simp] theorem ids_nil {β : Type} : ids ([] : List (Int × β)) = [] := rfl
@[simp] theorem ids_cons {β : Type} (x : Int × β) (l : List (Int × β)) : ids (x :: l) = x.1 :: ids l := rfl
@[simp] theorem ids_append {β : Type} (l1 l2 : List (Int × β)) : ids (l1 ++ l2) = ids l1 ++ ids l2 := by
  simp [ids]
theorem mem_ids {β : Type} {l : List (Int × β)} {a : Int} : a ∈ ids l ↔ ∃ x ∈ l, x.1 = a := by
  simp [ids]
theorem mem_ids_of_mem {β : Type} {l : List (Int × β)} {x : Int × β} (h : x ∈ l) : x.1 ∈ ids l :=
  mem_ids.mpr ⟨x, h, rfl⟩

/-- lookup with default `[]` (first entry with the given id) -/
def lk (l : List (Int × List γ)) (a : Int) : List γ :=
  match l.find? (·.1 == a) with
  | some r => r.2
  | none => []

@[simp] theorem lk_nil (a : Int) : lk ([] : List (Int × List γ)) a = [] := rfl

theorem lk_cons (x : Int × List γ) (l : List (Int × List γ)) (a : Int) :
    lk (x :: l) a = if x.1 = a then x.2 else lk l a := by
  by_cases h : x.1 = a <;> simp [lk, List.find?_cons, h]

theorem lk_eq_nil {l : List (Int × List γ)} {a : Int} (h : a ∉ ids l) : lk l a = [] := by
  induction l with
  | nil => rfl
  | cons x l ih =>
    simp only [ids_cons, List.mem_cons, not_or] at h
    rw [lk_cons, if_neg (fun e => h.1 e.symm), ih h.2]

theorem mem_ids_of_lk_ne_nil {l : List (Int × List γ)} {a : Int} (h : lk l a ≠ []) : a ∈ ids l :=
  Classical.byContradiction fun hn => h (lk_eq_nil hn)

theorem lk_append (l1 l2 : List (Int × List γ)) (a : Int) :
    lk (l1 ++ l2) a = if a ∈ ids l1 then lk l1 a else lk l2 a := by
  induction l1 with
  | nil => simp
  | cons x l ih =>
    simp only [List.cons_append, lk_cons, ids_cons, List.mem_cons, ih]
    by_cases h : x.1 = a
    · simp [h]
    · have : ¬ a = x.1 := fun e => h e.symm
      simp [h, this]

/-- the entry found for `a`, as a membership fact -/
theorem lk_mem {l : List (Int × List γ)} {a : Int} (h : a ∈ ids l) : (a, lk l a) ∈ l := by
  induction l with
  | nil => simp at h
  | cons x l ih =>
    rw [lk_cons]
    by_cases e : x.1 = a
    · simp only [e, if_true]; subst e; exact List.mem_cons_self
    · simp only [e, if_false]
      simp only [ids_cons, List.mem_cons] at h
      rcases h with h | h
      · exact absurd h.symm e
      · exact List.mem_cons_of_mem _ (ih h)

theorem lk_of_mem_nodup {l : List (Int × List γ)} (hn : (ids l).Nodup) {x : Int × List γ} (h : x ∈ l) :
    lk l x.1 = x.2 := by
  induction l with
  | nil => simp at h
  | cons y l ih =>
    simp only [ids_cons, List.nodup_cons] at hn
    rw [lk_cons]
    rcases List.mem_cons.mp h with rfl | h
    · simp
    · have : y.1 ≠ x.1 := fun e => hn.1 (e ▸ mem_ids_of_mem h)
      simp only [this, if_false]
      exact ih hn.2 h

theorem ids_map_upd (l : List (Int × List γ)) (u : Int) (f : List γ → List γ) :
    ids (l.map fun r => if r.1 == u then (r.1, f r.2) else r) = ids l := by
  induction l with
  | nil => rfl
  | cons x l ih =>
    simp only [List.map_cons, ids_cons, ih]
    by_cases h : x.1 = u <;> simp [h]

theorem lk_map_upd (l : List (Int × List γ)) (u : Int) (f : List γ → List γ) (a : Int) :
    lk (l.map fun r => if r.1 == u then (r.1, f r.2) else r) a
      = if a = u ∧ a ∈ ids l then f (lk l a) else lk l a := by
  induction l with
  | nil => simp
  | cons x l ih =>
    simp only [List.map_cons, lk_cons, ids_cons, List.mem_cons, ih]
    by_cases h : x.1 = u <;> by_cases h2 : x.1 = a <;> grind

theorem lk_filter (l : List (Int × List γ)) (p : Int → Bool) (a : Int) :
    lk (l.filter fun r => p r.1) a = if p a then lk l a else [] := by
  induction l with
  | nil => simp
  | cons x l ih =>
    simp only [List.filter_cons]
    by_cases hp : p x.1 = true
    · simp only [hp, if_true, lk_cons, ih]; grind
    · simp only [hp, lk_cons, ih]; grind

theorem ids_filter {β : Type} (l : List (Int × β)) (p : Int → Bool) :
    ids (l.filter fun r => p r.1) = (ids l).filter p := by
  simp [ids, List.filter_map, Function.comp_def]

theorem ids_map_val {β β' : Type} (l : List (Int × β)) (f : β → β') :
    ids (l.map fun r => (r.1, f r.2)) = ids l := by
  simp [ids, Function.comp_def]

theorem lk_map_val (l : List (Int × List γ)) (f : List γ → List δ) (a : Int) :
    lk (l.map fun r => (r.1, f r.2)) a = if a ∈ ids l then f (lk l a) else [] := by
  induction l with
  | nil => simp
  | cons x l ih =>
    simp only [List.map_cons, lk_cons, ids_cons, List.mem_cons, ih]
    grind

/-- lookup after shifting all ids by `k` -/
theorem lk_shift (l : List (Int × List γ)) (f : List γ → List δ) (k a : Int) :
    lk (l.map fun r => (r.1 + k, f r.2)) a = if a - k ∈ ids l then f (lk l (a - k)) else [] := by
  induction l with
  | nil => simp
  | cons x l ih =>
    simp only [List.map_cons, lk_cons, ids_cons, List.mem_cons, ih]
    by_cases h : x.1 + k = a
    · have : x.1 = a - k := by omega
      simp [h, this]
    · have h1 : ¬ x.1 = a - k := by omega
      have h2 : ¬ a - k = x.1 := by omega
      simp [h, h1, h2]

theorem ids_shift {β β' : Type} (l : List (Int × β)) (f : β → β') (k : Int) :
    ids (l.map fun r => (r.1 + k, f r.2)) = (ids l).map (· + k) := by
  simp [ids, Function.comp_def]

/-! ### `setKey`, `halfEdge`, `updRow` -/

/-- keys of a key dict -/
def keys (kd : KeyDict) : List Nat := kd.map (·.1)

theorem any_key_iff (kd : KeyDict) (k : Nat) : kd.any (·.1 == k) = true ↔ k ∈ keys kd := by
  simp only [keys, List.any_eq_true, List.mem_map, beq_iff_eq]

theorem setKey_fresh {kd : KeyDict} {k : Nat} (h : k ∉ keys kd) (l : Label) :
    setKey kd k l = kd ++ [(k, l)] := by
  unfold setKey
  have : ¬ (kd.any (·.1 == k) = true) := fun e => h ((any_key_iff kd k).mp e)
  simp only [this]; rfl

theorem keys_setKey (kd : KeyDict) (k : Nat) (l : Label) :
    keys (setKey kd k l) = if k ∈ keys kd then keys kd else keys kd ++ [k] := by
  unfold setKey
  by_cases h : k ∈ keys kd
  · have : kd.any (·.1 == k) = true := (any_key_iff kd k).mpr h
    simp only [this, if_true, h]
    simp only [keys, List.map_map]
    apply List.map_congr_left
    intro e _; by_cases he : e.1 = k <;> simp [he]
  · have : (kd.any (·.1 == k)) = false := by
      cases e : kd.any (·.1 == k) with
      | false => rfl
      | true => exact absurd ((any_key_iff kd k).mp e) h
    simp only [this, h, if_false, Bool.false_eq_true]
    simp [keys]

theorem setKey_ne_nil (kd : KeyDict) (k : Nat) (l : Label) : setKey kd k l ≠ [] := by
  intro h
  have := congrArg keys h
  rw [keys_setKey] at this
  by_cases hk : k ∈ keys kd
  · simp only [hk, if_true] at this
    rw [this] at hk; simp [keys] at hk
  · simp only [hk, if_false] at this
    simp [keys] at this

theorem any_id_iff {β : Type} (row : List (Int × β)) (v : Int) : row.any (·.1 == v) = true ↔ v ∈ ids row := by
  simp only [ids, List.any_eq_true, List.mem_map, beq_iff_eq]

/-- neighbour list after `add_edge`: appended when new -/
def addNbr (l : List Int) (v : Int) : List Int := if v ∈ l then l else l ++ [v]

theorem ids_halfEdge (row : Row) (v : Int) (k : Nat) (l : Label) :
    ids (halfEdge row v k l) = addNbr (ids row) v := by
  unfold halfEdge addNbr
  by_cases h : v ∈ ids row
  · have : row.any (·.1 == v) = true := (any_id_iff row v).mpr h
    simp only [this, if_true, h]
    exact ids_map_upd row v (fun kd => setKey kd k l)
  · have : ¬ (row.any (·.1 == v) = true) := fun e => h ((any_id_iff row v).mp e)
    simp [this, h]

theorem lk_halfEdge (row : Row) (v : Int) (k : Nat) (l : Label) (b : Int) :
    lk (halfEdge row v k l) b = if b = v then setKey (lk row v) k l else lk row b := by
  unfold halfEdge
  by_cases h : v ∈ ids row
  · have : row.any (·.1 == v) = true := (any_id_iff row v).mpr h
    simp only [this, if_true]
    rw [lk_map_upd row v (fun kd => setKey kd k l) b]
    by_cases hb : b = v
    · subst hb; simp [h]
    · simp [hb]
  · have : ¬ (row.any (·.1 == v) = true) := fun e => h ((any_id_iff row v).mp e)
    simp only [this, Bool.false_eq_true, if_false]
    rw [lk_append]
    by_cases hb : b = v
    · subst hb; simp [h, lk_cons, lk_eq_nil h, setKey]
    · have : ¬ v = b := fun e => hb e.symm
      by_cases hm : b ∈ ids row
      · simp [hm, hb]
      · simp [hm, hb, lk_cons, this, lk_eq_nil hm]

theorem ids_updRow (adj : List (Int × Row)) (u v : Int) (k : Nat) (l : Label) :
    ids (updRow adj u v k l) = ids adj :=
  ids_map_upd adj u (fun row => halfEdge row v k l)

theorem lk_updRow (adj : List (Int × Row)) (u v : Int) (k : Nat) (l : Label) (a : Int) :
    lk (updRow adj u v k l) a = if a = u ∧ a ∈ ids adj then halfEdge (lk adj a) v k l else lk adj a :=
  lk_map_upd adj u (fun row => halfEdge row v k l) a


/-! ### graph-level accessors in terms of `lk` -/

theorem adjRow_eq (g : Graph) (u : Int) : g.adjRow u = lk g.adj u := by
  unfold Graph.adjRow lk; cases g.adj.find? (·.1 == u) <;> rfl
theorem edgeData_row (g : Graph) (u v : Int) : g.edgeData u v = lk (g.adjRow u) v := by
  unfold Graph.edgeData lk; cases (g.adjRow u).find? (·.1 == v) <;> rfl
theorem edgeData_eq (g : Graph) (u v : Int) : g.edgeData u v = lk (lk g.adj u) v := by
  rw [edgeData_row, adjRow_eq]
theorem neighbors_row (g : Graph) (u : Int) : g.neighbors u = ids (g.adjRow u) := rfl
theorem neighbors_eq (g : Graph) (u : Int) : g.neighbors u = ids (lk g.adj u) := by
  rw [neighbors_row, adjRow_eq]
theorem nodeIds_eq (g : Graph) : g.nodeIds = ids g.nodes := rfl

theorem hasNode_iff (g : Graph) (u : Int) : g.hasNode u = true ↔ u ∈ g.nodeIds := by
  unfold Graph.hasNode; rw [any_id_iff]; rfl

theorem hasEdge_iff (g : Graph) (u v : Int) : g.hasEdge u v = true ↔ v ∈ g.neighbors u := by
  unfold Graph.hasEdge; rw [any_id_iff]; rfl

theorem ensureNode_of_mem {g : Graph} {u : Int} (h : u ∈ g.nodeIds) : ensureNode g u = g := by
  unfold ensureNode; rw [(hasNode_iff g u).mpr h]; rfl

/-- one adjacency row per node, in node order -/
def Rows (g : Graph) : Prop := ids g.adj = g.nodeIds

theorem addEdgeKey_adj {g : Graph} {u v : Int} (hu : u ∈ g.nodeIds) (hv : v ∈ g.nodeIds) (k : Nat) (l : Label) :
    (addEdgeKey g u v k l).adj
      = if u = v then updRow g.adj u v k l else updRow (updRow g.adj u v k l) v u k l := by
  unfold addEdgeKey
  simp only [ensureNode_of_mem hu, ensureNode_of_mem hv]
  by_cases h : u = v <;> simp [h]

theorem addEdgeKey_nodes {g : Graph} {u v : Int} (hu : u ∈ g.nodeIds) (hv : v ∈ g.nodeIds) (k : Nat) (l : Label) :
    (addEdgeKey g u v k l).nodes = g.nodes := by
  unfold addEdgeKey
  simp only [ensureNode_of_mem hu, ensureNode_of_mem hv]

theorem addEdgeKey_nodeIds {g : Graph} {u v : Int} (hu : u ∈ g.nodeIds) (hv : v ∈ g.nodeIds) (k : Nat) (l : Label) :
    (addEdgeKey g u v k l).nodeIds = g.nodeIds := by
  unfold Graph.nodeIds; rw [addEdgeKey_nodes hu hv]

theorem addEdgeKey_multi {g : Graph} {u v : Int} (hu : u ∈ g.nodeIds) (hv : v ∈ g.nodeIds) (k : Nat) (l : Label) :
    (addEdgeKey g u v k l).multi = g.multi := by
  unfold addEdgeKey
  simp only [ensureNode_of_mem hu, ensureNode_of_mem hv]

theorem addEdgeKey_rows {g : Graph} (hr : Rows g) {u v : Int} (hu : u ∈ g.nodeIds) (hv : v ∈ g.nodeIds)
    (k : Nat) (l : Label) : Rows (addEdgeKey g u v k l) := by
  unfold Rows
  rw [addEdgeKey_adj hu hv, addEdgeKey_nodeIds hu hv]
  have hr' : ids g.adj = g.nodeIds := hr
  by_cases h : u = v <;> simp [h, ids_updRow, hr']

/-- the adjacency row of `a` after `add_edge(u, v, key=k)` -/
theorem adjRow_addEdgeKey {g : Graph} (hr : Rows g) {u v : Int} (hu : u ∈ g.nodeIds) (hv : v ∈ g.nodeIds)
    (k : Nat) (l : Label) (a : Int) :
    (addEdgeKey g u v k l).adjRow a
      = if a = u then halfEdge (g.adjRow a) v k l
        else if a = v then halfEdge (g.adjRow a) u k l else g.adjRow a := by
  have hu' : u ∈ ids g.adj := hr ▸ hu
  have hv' : v ∈ ids g.adj := hr ▸ hv
  simp only [adjRow_eq, addEdgeKey_adj hu hv]
  by_cases h : u = v
  · subst h
    simp only [if_true, lk_updRow]
    by_cases ha : a = u
    · subst ha; simp [hu']
    · simp [ha]
  · simp only [h, if_false, lk_updRow, ids_updRow]
    by_cases ha : a = u
    · subst ha
      simp [h, hu']
    · by_cases hb : a = v
      · subst hb; simp [ha, hv']
      · simp [ha, hb]

/-- A: key dict of the pair `a`,`b` after `add_edge(u, v, key=k, bond=l)` -/
theorem edgeData_addEdgeKey {g : Graph} (hr : Rows g) {u v : Int} (hu : u ∈ g.nodeIds) (hv : v ∈ g.nodeIds)
    (k : Nat) (l : Label) (a b : Int) :
    (addEdgeKey g u v k l).edgeData a b
      = if (a = u ∧ b = v) ∨ (a = v ∧ b = u) then setKey (g.edgeData a b) k l else g.edgeData a b := by
  rw [edgeData_row, adjRow_addEdgeKey hr hu hv, edgeData_row]
  by_cases ha : a = u
  · subst ha
    simp only [if_true, lk_halfEdge]
    by_cases hb : b = v
    · subst hb; simp
    · by_cases hab : a = v
      · subst hab; simp [hb]
      · simp [hb, hab]
  · simp only [ha, if_false]
    by_cases hav : a = v
    · subst hav
      simp only [if_true, lk_halfEdge]
      by_cases hb : b = u
      · subst hb; simp
      · simp [hb]
    · simp [hav]

/-- neighbour order after `add_edge(u, v, key=k)` -/
theorem neighbors_addEdgeKey {g : Graph} (hr : Rows g) {u v : Int} (hu : u ∈ g.nodeIds) (hv : v ∈ g.nodeIds)
    (k : Nat) (l : Label) (a : Int) :
    (addEdgeKey g u v k l).neighbors a
      = if a = u then addNbr (g.neighbors a) v
        else if a = v then addNbr (g.neighbors a) u else g.neighbors a := by
  have h1 : (addEdgeKey g u v k l).neighbors a = ids ((addEdgeKey g u v k l).adjRow a) := rfl
  have h2 : g.neighbors a = ids (g.adjRow a) := rfl
  rw [h1, adjRow_addEdgeKey hr hu hv, h2]
  by_cases ha : a = u
  · simp [ha, ids_halfEdge]
  · by_cases hav : a = v
    · subst hav; simp [ha, ids_halfEdge]
    · simp [ha, hav]

end C13.E
