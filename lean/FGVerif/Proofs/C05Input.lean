import FGVerif.Proofs.C05Bridge
import FGVerif.Proofs.C12Forest
/-!
  C05 — the capstone `C05.spec_acyclic` with its graph hypotheses stated about the INPUT molecule only.

  `C05.spec_acyclic` (Proofs/C05Bridge.lean) assumes `C03.WF` and `C03.IsForest` of the graph the query
  searches in, `queryH g requireH` — the hydrogen-COMPLETED copy when `require_implicit_hydrogen` is set —
  and, separately, `Closed g`.  `Proofs/C12Forest.lean` proves that completion preserves (and reflects)
  both predicates, and `Proofs/GraphWF.lean` that `C03.WF g` contains `Closed g`.  Hence:

  * `closed_of_wf03`                `C03.WF g → Closed g`
  * `queryH_wf03`, `queryH_forest`  the query graph of a well-formed acyclic molecule is one, for both
                                    values of `requireH`; `queryH_forest_iff`: the query graph is acyclic
                                    EXACTLY when the input is (so the acyclic sub-domain is a property of
                                    the input, and a ring molecule is outside it whatever `requireH` is)
  * **`spec_acyclic_input`**        C05 verbatim (`SpecStar`, true embeddings) for the model output, graph
                                    hypotheses on the input: `C03.WF g`, `C03.IsForest g`
  * **`spec_acyclic_input_dec`**    all hypotheses Boolean computations
  * non-vacuity: methyl acetate numbered from 1, `requireH = true` and `false`.

  Remaining hypotheses (unchanged from `spec_acyclic`): `t.topo`, `mapper.canMapToNothing = []`,
  `TreeAcyclic t` (every pattern / anti-pattern a non-empty connected well-formed forest) and
  `WitnessPathClosed` at every candidate atom (K4; decidable per query, stated about the query graph because
  it speaks of what the matcher finds there).
-/
namespace C05
open Perm Sub

/-- the closedness hypothesis of the C05 theorems is part of `C03.WF` -/
theorem closed_of_wf03 {g : Graph} (h : C03.WF g) : Closed g := GraphWF.closed_of_c03 h

theorem queryH_false (g : Graph) : queryH g false = g := rfl
theorem queryH_true (g : Graph) : queryH g true = C12.addImplicitHydrogens g := rfl

/-- the graph the query searches in is well-formed when the input is -/
theorem queryH_wf03 {g : Graph} (requireH : Bool) (h : C03.WF g) : C03.WF (queryH g requireH) := by
  cases requireH
  · exact h
  · exact C12.addImplicitHydrogens_wf03 h

/-- … and acyclic when the input is -/
theorem queryH_forest {g : Graph} (requireH : Bool) (h : C03.WF g) (hF : C03.IsForest g) :
    C03.IsForest (queryH g requireH) := by
  cases requireH
  · exact hF
  · exact C12.addImplicitHydrogens_forest h hF

/-- the query graph is acyclic exactly when the input molecule is -/
theorem queryH_forest_iff {g : Graph} (requireH : Bool) (h : C12.WF g) :
    C03.IsForest (queryH g requireH) ↔ C03.IsForest g := by
  cases requireH
  · exact Iff.rfl
  · exact C12.addImplicitHydrogens_forest_iff h

/-- **C05.spec_acyclic_input** — PROPERTY C05 VERBATIM (true embeddings: `SpecStar`) for the MODEL of
    `FGQuery(mapper, config, require_implicit_hydrogen).get(mol)`, for both values of
    `require_implicit_hydrogen`, with every hypothesis about graphs stated about the INPUT molecule:

    * `hW`  `mol` is a well-formed simple graph (`C03.WF`, what networkx hands over; contains `Closed mol`);
    * `hF`  `mol` is acyclic (without it the statement is false: K2/K3).

    That the hydrogen-completed copy is again a well-formed forest is now PROVED
    (`C12.addImplicitHydrogens_wf03`, `C12.addImplicitHydrogens_forest`).  The other hypotheses are those
    of `C05.spec_acyclic`: `ht`, `hcm`, `hT` concern hierarchy and mapper only; `hcl` (K4) is the
    path-closure of the witnessed groups at the candidate atoms, decidable per query. -/
theorem spec_acyclic_input (t : Tree) (g : Graph) (mapper : Mapper) (requireH : Bool)
    (ht : t.topo = true) (hcm : mapper.canMapToNothing = [])
    (hW : C03.WF g) (hF : C03.IsForest g) (hT : TreeAcyclic t)
    (hcl : ∀ a ∈ candidates g, WitnessPathClosed (modelMatcher mapper) t (queryH g requireH) g.maxId a) :
    SpecStar mapper t g requireH (getFunctionalGroups t g mapper requireH) :=
  spec_acyclic t g mapper requireH ht hcm (closed_of_wf03 hW) (queryH_wf03 requireH hW)
    (queryH_forest requireH hW hF) hT hcl

/-- **C05.spec_acyclic_input_dec** — the same with every hypothesis a Boolean computation; the graph
    checkers `wfB`, `isForestB` run on the input molecule (no completed graph is built for them) -/
theorem spec_acyclic_input_dec (t : Tree) (g : Graph) (mapper : Mapper) (requireH : Bool)
    (ht : t.topo = true) (hcm : mapper.canMapToNothing = [])
    (hW : C03.wfB g = true) (hF : C03.isForestB g = true)
    (hT : treeAcyclicB t = true) (hD : descOKB t = true)
    (hcl : pathClosedViolations (modelMatcher mapper) t (queryH g requireH) g.maxId (candidates g)
      t.descendantsOf = []) :
    SpecStar mapper t g requireH (getFunctionalGroups t g mapper requireH) :=
  spec_acyclic_input t g mapper requireH ht hcm (C03.wfB_sound _ hW) (C03.isForestB_sound _ hF)
    (treeAcyclicB_sound hT) (pathClosedViolations_nil_sound hD hcl)

/-- the hypotheses of `spec_acyclic_dec` about the query graph follow from those of
    `spec_acyclic_input_dec` about the input (so the former theorem is subsumed) -/
theorem queryH_checkers {g : Graph} (requireH : Bool) (hW : C03.wfB g = true) (hF : C03.isForestB g = true) :
    closedB g = true ∧ C03.WF (queryH g requireH) ∧ C03.IsForest (queryH g requireH) := by
  have h := C03.wfB_sound _ hW
  refine ⟨?_, queryH_wf03 requireH h, queryH_forest requireH h (C03.isForestB_sound _ hF)⟩
  simp only [closedB, List.all_eq_true]
  intro row hrow nb hnb
  exact (C12.hasNode_iff g nb.1).mpr (closed_of_wf03 h row hrow nb hnb)

/-! ### non-vacuity (tests, kernel evaluation of the decidable hypotheses) -/

/-- a molecule with ids `base, base+1, …` -/
def mkMolFrom (base : Int) (syms : List String) (bonds : List (Int × Int × Int)) : Graph :=
  bonds.foldl (fun g b => g.addEdge (base + b.1) (base + b.2.1) (.s b.2.2))
    ((List.range syms.length).zip syms |>.foldl
      (fun g x => g.addNode (base + (x.1 : Int)) { symbol := some x.2 }) {})

/-- methyl acetate `COC(C)=O` numbered from 1 -/
def methylAcetate1 : Graph :=
  mkMolFrom 1 ["C", "O", "C", "C", "O"] [(0, 1, 2), (1, 2, 2), (2, 3, 2), (2, 4, 4)]

-- test: the input-level graph hypotheses hold of it
example : methylAcetate1.nodeIds = [1, 2, 3, 4, 5] ∧ C03.wfB methylAcetate1 = true ∧
    C03.isForestB methylAcetate1 = true := by decide +kernel

/-- test (non-vacuity of `spec_acyclic_input`, `requireH = true`): ALL hypotheses hold for methyl acetate
    numbered from 1 with the generated default hierarchy minus `epoxid`; the well-formedness and
    acyclicity of the completed graph (6 hydrogens on ids 6…11) come from the theorems, not from evaluation -/
example : SpecStar defaultMapper acyclicDefaultTree methylAcetate1 true
    (getFunctionalGroups acyclicDefaultTree methylAcetate1 defaultMapper true) :=
  spec_acyclic_input_dec _ _ _ _ acyclicDefaultTree_ok.1 rfl (by decide +kernel) (by decide +kernel)
    acyclicDefaultTree_ok.2.1 acyclicDefaultTree_ok.2.2 (by decide +kernel)
-- … and the output is the expected one, on input ids
example : getFunctionalGroups acyclicDefaultTree methylAcetate1 defaultMapper true = [("ester", [2, 3, 5])] := by
  decide +kernel
example : (queryH methylAcetate1 true).nodeIds = [1, 2, 3, 4, 5, 6, 7, 8, 9, 10, 11] := by
  decide +kernel

/-- test: the same with `requireH = false` -/
example : SpecStar defaultMapper acyclicDefaultTree methylAcetate1 false
    (getFunctionalGroups acyclicDefaultTree methylAcetate1 defaultMapper false) :=
  spec_acyclic_input_dec _ _ _ _ acyclicDefaultTree_ok.1 rfl (by decide +kernel) (by decide +kernel)
    acyclicDefaultTree_ok.2.1 acyclicDefaultTree_ok.2.2 (by decide +kernel)
example : getFunctionalGroups acyclicDefaultTree methylAcetate1 defaultMapper false = [("ester", [2, 3, 5])] := by
  decide +kernel

/-- test: the Prop-level theorem, hypotheses discharged one by one -/
example : SpecStar defaultMapper acyclicDefaultTree aceticAcid true
    (getFunctionalGroups acyclicDefaultTree aceticAcid defaultMapper true) :=
  spec_acyclic_input _ _ _ _ acyclicDefaultTree_ok.1 rfl (C03.wfB_sound _ (by decide +kernel))
    (C03.isForestB_sound _ (by decide +kernel)) (treeAcyclicB_sound acyclicDefaultTree_ok.2.1)
    (pathClosedViolations_nil_sound acyclicDefaultTree_ok.2.2 (by decide +kernel))

/-- test (the hypothesis `hF` is about the input and excludes K3): tetrahydrofuran is well-formed but not
    acyclic, and by `queryH_forest_iff` neither is its query graph, with or without hydrogens -/
example : C03.wfB thf = true ∧ C03.isForestB thf = false := by decide +kernel
example (requireH : Bool) (h : ¬ C03.IsForest thf) : ¬ C03.IsForest (queryH thf requireH) :=
  fun hq => h ((queryH_forest_iff requireH (GraphWF.c12_of_c03 (C03.wfB_sound _ (by decide +kernel)))).mp hq)

end C05
