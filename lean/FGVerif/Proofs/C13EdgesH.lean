import FGVerif.Proofs.C13EdgesG
/-!
  C13 (edge level), part H: the neighbour order of `x` after `compose` (T3).

  `compose` re-adds the edges in `G.edges` order; the row of `x` in the result lists the
  neighbours in the order in which `x` is first "touched" by an edge.
-/
set_option linter.unusedSimpArgs false
namespace C13.E
open Graph

/-! ### the touch sequence and the neighbour order under `addEdgesFrom` -/

/-- the other end points of the edges of the list at `x`, in order -/
def touch (x : Int) (E : List Edge) : List Int :=
  E.filterMap fun e => if e.1 = x then some e.2.1 else if e.2.1 = x then some e.1 else none

/-- neighbour list after seeing the touch sequence -/
def dd (acc L : List Int) : List Int := L.foldl addNbr acc

@[simp] theorem touch_nil (x : Int) : touch x [] = [] := rfl

theorem touch_cons (x : Int) (e : Edge) (E : List Edge) :
    touch x (e :: E)
      = (if e.1 = x then [e.2.1] else if e.2.1 = x then [e.1] else []) ++ touch x E := by
  unfold touch
  rw [List.filterMap_cons]
  by_cases h1 : e.1 = x
  · simp [h1]
  · by_cases h2 : e.2.1 = x <;> simp [h1, h2]

theorem touch_append (x : Int) (E1 E2 : List Edge) : touch x (E1 ++ E2) = touch x E1 ++ touch x E2 := by
  unfold touch; exact List.filterMap_append

theorem dd_nil (acc : List Int) : dd acc [] = acc := rfl
theorem dd_cons (acc : List Int) (v : Int) (L : List Int) : dd acc (v :: L) = dd (addNbr acc v) L := rfl
theorem dd_append (acc L1 L2 : List Int) : dd acc (L1 ++ L2) = dd (dd acc L1) L2 := by
  unfold dd; exact List.foldl_append

theorem neighbors_addEdgesFrom {g : Graph} (hr : Rows g) {E : List Edge} (h : EndsIn g.nodeIds E) (x : Int) :
    (addEdgesFrom g E).neighbors x = dd (g.neighbors x) (touch x E) := by
  induction E generalizing g with
  | nil => rfl
  | cons e E ih =>
    have he := h e List.mem_cons_self
    rw [addEdgesFrom_cons, ih (addEdgeKey_rows hr he.1 he.2 _ _)
      (by rw [addEdgeKey_nodeIds he.1 he.2]; exact h.tail),
      neighbors_addEdgeKey hr he.1 he.2, touch_cons, dd_append]
    congr 1
    by_cases h1 : e.1 = x
    · rw [if_pos h1.symm, if_pos h1]; rfl
    · have h1' : ¬ x = e.1 := fun e' => h1 e'.symm
      by_cases h2 : e.2.1 = x
      · rw [if_neg h1', if_neg h1, if_pos h2.symm, if_pos h2]; rfl
      · have h2' : ¬ x = e.2.1 := fun e' => h2 e'.symm
        rw [if_neg h1', if_neg h1, if_neg h2', if_neg h2]; rfl

/-! ### the touch sequence of `Graph.edges` -/

/-- a row read as blocks: each neighbour once per key -/
def bl (row : Row) : List Int := row.flatMap fun r => r.2.map fun _ => r.1

theorem bl_cons (r : Int × KeyDict) (row : Row) : bl (r :: row) = (r.2.map fun _ => r.1) ++ bl row := by
  simp [bl]

theorem bl_append (r1 r2 : Row) : bl (r1 ++ r2) = bl r1 ++ bl r2 := by
  simp [bl]

theorem touch_entry_self (x v : Int) (kd : KeyDict) :
    touch x (kd.map fun e => (x, v, e.1, e.2)) = kd.map fun _ => v := by
  induction kd with
  | nil => rfl
  | cons e kd ih => rw [List.map_cons, touch_cons, ih]; simp

theorem touch_entry_other (x u v : Int) (hu : u ≠ x) (kd : KeyDict) :
    touch x (kd.map fun e => (u, v, e.1, e.2)) = if v = x then kd.map fun _ => u else [] := by
  induction kd with
  | nil => simp
  | cons e kd ih =>
    rw [List.map_cons, touch_cons, ih]
    by_cases hv : v = x <;> simp [hu, hv]

theorem touch_expand_self (x : Int) (row : Row) : touch x (expand x row) = bl row := by
  induction row with
  | nil => rfl
  | cons r row ih => rw [expand_cons, touch_append, touch_entry_self, ih, bl_cons]

theorem touch_expand_other (x u : Int) (hu : u ≠ x) (row : Row) (hn : (ids row).Nodup) :
    touch x (expand u row) = (lk row x).map fun _ => u := by
  induction row with
  | nil => rfl
  | cons r row ih =>
    simp only [ids_cons, List.nodup_cons] at hn
    rw [expand_cons, touch_append, touch_entry_other x u r.1 hu, ih hn.2, lk_cons]
    by_cases hv : r.1 = x
    · have : lk row x = [] := lk_eq_nil (hv ▸ hn.1)
      simp [hv, this]
    · simp [hv]

theorem touch_go_seen (x : Int) (rows : List (Int × Row)) (seen : List Int) (hx : x ∈ seen)
    (hnx : x ∉ ids rows) (hrow : ∀ r ∈ rows, (ids r.2).Nodup) :
    touch x (Graph.edges.go rows seen) = [] := by
  induction rows generalizing seen with
  | nil => rfl
  | cons r rest ih =>
    obtain ⟨u, row⟩ := r
    simp only [ids_cons, List.mem_cons, not_or] at hnx
    have hu : u ≠ x := fun e => hnx.1 e.symm
    have hrn := hrow (u, row) List.mem_cons_self
    rw [go_cons, touch_append,
      touch_expand_other x u hu _ (nodup_ids_filter hrn (fun i => !seen.contains i)),
      lk_filter row (fun i => !seen.contains i),
      ih (u :: seen) (List.mem_cons_of_mem _ hx) hnx.2 (fun r hr => hrow r (List.mem_cons_of_mem _ hr))]
    simp [hx]

/-- the rows before the row of `x` -/
def rowsBefore (x : Int) (rows : List (Int × Row)) : List (Int × Row) := rows.takeWhile (·.1 != x)

theorem touch_go (x : Int) (rows : List (Int × Row)) (seen : List Int) (hn : (ids rows).Nodup)
    (hrow : ∀ r ∈ rows, (ids r.2).Nodup) (hx : x ∉ seen) :
    touch x (Graph.edges.go rows seen)
      = bl ((rowsBefore x rows).map fun r => (r.1, lk r.2 x))
        ++ bl ((lk rows x).filter fun r =>
            !(seen.contains r.1) && !((ids (rowsBefore x rows)).contains r.1)) := by
  induction rows generalizing seen with
  | nil => rfl
  | cons r rest ih =>
    obtain ⟨u, row⟩ := r
    simp only [ids_cons, List.nodup_cons] at hn
    have hrn := hrow (u, row) List.mem_cons_self
    have hrest : ∀ r ∈ rest, (ids r.2).Nodup := fun r hr => hrow r (List.mem_cons_of_mem _ hr)
    rw [go_cons, touch_append]
    by_cases hu : u = x
    · subst hu
      have htw : rowsBefore u ((u, row) :: rest) = [] := by simp [rowsBefore, List.takeWhile_cons]
      rw [touch_expand_self, touch_go_seen u rest (u :: seen) List.mem_cons_self hn.1 hrest, htw, lk_cons]
      simp [bl]
    · have htw : rowsBefore x ((u, row) :: rest) = (u, row) :: rowsBefore x rest := by
        simp [rowsBefore, List.takeWhile_cons, hu]
      have hx' : x ∉ u :: seen := by
        simp only [List.mem_cons, not_or]; exact ⟨fun e => hu e.symm, hx⟩
      rw [touch_expand_other x u hu _ (nodup_ids_filter hrn (fun i => !seen.contains i)),
        lk_filter row (fun i => !seen.contains i), ih (u :: seen) hn.2 hrest hx', htw, lk_cons]
      have hc : (!seen.contains x) = true := by simpa using hx
      simp only [hc, if_true, hu, if_false, List.map_cons, bl_cons, ids_cons, List.append_assoc]
      congr 2
      apply congrArg bl
      apply List.filter_congr
      intro r _
      simp only [List.contains_cons]
      cases (r.1 == u) <;> cases (seen.contains r.1) <;> cases ((ids (rowsBefore x rest)).contains r.1) <;> rfl

/-! ### dedup of a block sequence -/

theorem addNbr_of_mem {acc : List Int} {v : Int} (h : v ∈ acc) : addNbr acc v = acc := by
  unfold addNbr; simp [h]

theorem addNbr_of_not_mem {acc : List Int} {v : Int} (h : v ∉ acc) : addNbr acc v = acc ++ [v] := by
  unfold addNbr; simp [h]

theorem dd_const_mem {α : Type} (kd : List α) {acc : List Int} {v : Int} (h : v ∈ acc) :
    dd acc (kd.map fun _ => v) = acc := by
  induction kd with
  | nil => rfl
  | cons e kd ih => rw [List.map_cons, dd_cons, addNbr_of_mem h, ih]

theorem dd_const {α : Type} (kd : List α) (acc : List Int) {v : Int} (h : v ∉ acc) :
    dd acc (kd.map fun _ => v) = if kd = [] then acc else acc ++ [v] := by
  cases kd with
  | nil => rfl
  | cons e kd =>
    rw [List.map_cons, dd_cons, addNbr_of_not_mem h, dd_const_mem kd (by simp)]
    simp

/-- the entries with a non-empty key dict -/
def ne (row : Row) : Row := row.filter fun r => !r.2.isEmpty

theorem ids_ne_sublist (row : Row) : (ids (ne row)).Sublist (ids row) :=
  List.Sublist.map _ List.filter_sublist

theorem dd_bl (row : Row) (acc : List Int) (hn : (acc ++ ids row).Nodup) :
    dd acc (bl row) = acc ++ ids (ne row) := by
  induction row generalizing acc with
  | nil => simp [bl, ne, dd_nil]
  | cons r row ih =>
    have hr : r.1 ∉ acc := by
      intro hm
      rw [List.nodup_append] at hn
      exact hn.2.2 _ hm _ (by simp) rfl
    rw [bl_cons, dd_append, dd_const r.2 acc hr]
    cases hk : r.2 with
    | nil =>
      have : ne (r :: row) = ne row := by simp [ne, List.filter_cons, hk]
      rw [this]
      simp only [if_true]
      apply ih
      rw [List.nodup_append] at hn ⊢
      simp only [ids_cons, List.nodup_cons, List.mem_cons] at hn
      exact ⟨hn.1, hn.2.1.2, fun a ha b hb => hn.2.2 a ha b (Or.inr hb)⟩
    | cons e kd =>
      have : ne (r :: row) = r :: ne row := by simp [ne, List.filter_cons, hk]
      rw [this]
      simp only [reduceCtorEq, if_false, ids_cons]
      rw [ih (acc ++ [r.1])]
      · simp
      · simpa [ids_cons] using hn


/-! ### the row of `x` after `compose` -/

theorem touch_nil_of_not_end {x : Int} {E : List Edge} (h : ∀ e ∈ E, e.1 ≠ x ∧ e.2.1 ≠ x) : touch x E = [] := by
  apply List.filterMap_eq_nil_iff.mpr
  intro e he
  simp [(h e he).1, (h e he).2]

theorem stage_neighbors {r g : Graph} (s : StageOk r g) (x : Int) :
    (stage r g).neighbors x = dd (r.neighbors x) (touch x g.edges) := by
  rw [stage_eq s, neighbors_addEdgesFrom (WF_withNodes s).rows (stage_endsIn s),
    neighbors_congr (withNodes_adjRow r g x)]

theorem compose_neighbors {g h : Graph} (c : ComposeOk g h) {x : Int} (hx : x ∉ h.nodeIds) :
    (compose g h).neighbors x = dd [] (touch x g.edges) := by
  rw [compose_eq, stage_neighbors c.s2, stage_neighbors c.s1]
  have h0 : ({ multi := g.multi } : Graph).neighbors x = [] := by rw [neighbors_eq]; rfl
  have h1 : touch x h.edges = [] := by
    apply touch_nil_of_not_end
    intro e he
    have := edges_endsIn c.wh e he
    exact ⟨fun e1 => hx (e1 ▸ this.1), fun e2 => hx (e2 ▸ this.2)⟩
  rw [h0, h1]; rfl

/-- bonds to the nodes that precede `x`, keyed by that node -/
def R1 (g : Graph) (x : Int) : Row := (before g x).map fun m => (m, g.edgeData m x)
/-- the remaining entries of the row of `x` -/
def R2 (g : Graph) (x : Int) : Row := (g.adjRow x).filter fun r => !(before g x).contains r.1

theorem before_eq {g : Graph} (w : WF g) (x : Int) : before g x = ids (rowsBefore x g.adj) := by
  unfold before rowsBefore
  rw [← w.rows]
  unfold ids
  rw [List.takeWhile_map]
  rfl

theorem R1_eq {g : Graph} (w : WF g) (x : Int) :
    (rowsBefore x g.adj).map (fun r => (r.1, lk r.2 x)) = R1 g x := by
  unfold R1
  rw [before_eq w x]
  unfold ids
  rw [List.map_map]
  apply List.map_congr_left
  intro r hr
  have hmem : r ∈ g.adj := (List.takeWhile_sublist _).subset hr
  simp only [Function.comp]
  rw [edgeData_row, w.row_eq hmem]

theorem touch_edges {g : Graph} (w : WF g) (x : Int) : touch x g.edges = bl (R1 g x ++ R2 g x) := by
  have h := touch_go x g.adj [] w.adj_nodup (fun r hr => w.row_nodup hr) (by simp)
  have e : g.edges = Graph.edges.go g.adj [] := rfl
  rw [e, h, bl_append, R1_eq w x]
  congr 1
  apply congrArg bl
  unfold R2
  rw [adjRow_eq, before_eq w x]
  apply List.filter_congr
  intro r _
  simp

theorem ids_R1 (g : Graph) (x : Int) : ids (R1 g x) = before g x := by
  simp [R1, ids, Function.comp_def]

theorem ids_R2 (g : Graph) (x : Int) : ids (R2 g x) = (g.neighbors x).filter fun v => !(before g x).contains v := by
  unfold R2; rw [neighbors_row]
  exact ids_filter (g.adjRow x) (fun v => !(before g x).contains v)

theorem ids_R_nodup {g : Graph} (w : WF g) (x : Int) : (ids (R1 g x ++ R2 g x)).Nodup := by
  rw [ids_append, List.nodup_append, ids_R1, ids_R2]
  refine ⟨?_, (w.nbrNodup x).sublist List.filter_sublist, ?_⟩
  · exact w.nodup.sublist (List.takeWhile_sublist _)
  · intro a ha b hb e
    subst e
    simp only [List.mem_filter, List.contains_eq_mem, Bool.not_eq_true', decide_eq_false_iff_not] at hb
    exact hb.2 ha

theorem R_lookup {g : Graph} (w : WF g) (x : Int) : ∀ r ∈ R1 g x ++ R2 g x, g.edgeData x r.1 = r.2 := by
  intro r hr
  rcases List.mem_append.mp hr with h | h
  · unfold R1 at h
    obtain ⟨m, _, rfl⟩ := List.mem_map.mp h
    exact w.symm x m
  · unfold R2 at h
    have hm := (List.mem_filter.mp h).1
    rw [edgeData_row]
    exact lk_of_mem_nodup (w.nbrNodup x) hm

theorem row_eq_map_lk (row : Row) (hn : (ids row).Nodup) : row = (ids row).map fun v => (v, lk row v) := by
  unfold ids
  rw [List.map_map]
  conv => lhs; rw [← List.map_id row]
  apply List.map_congr_left
  intro r hr
  simp only [Function.comp, id]
  rw [lk_of_mem_nodup hn hr]

theorem row_ext {r1 r2 : Row} (hi : ids r1 = ids r2) (hn : (ids r1).Nodup)
    (hl : ∀ v ∈ ids r1, lk r1 v = lk r2 v) : r1 = r2 := by
  rw [row_eq_map_lk r1 hn, row_eq_map_lk r2 (hi ▸ hn), ← hi]
  apply List.map_congr_left
  intro v hv
  rw [hl v hv]

/-- bonds of a row as `(neighbour, label)` -/
def incRow (row : Row) : List (Int × Label) := row.flatMap fun r => r.2.map fun kd => (r.1, kd.2)

theorem incOf_expand (x : Int) (row : Row) : incOf (expand x row) = incRow row := by
  unfold incOf expand incRow
  rw [List.map_flatMap]
  congr 1
  funext r
  rw [List.map_map]
  rfl

theorem incRow_append (r1 r2 : Row) : incRow (r1 ++ r2) = incRow r1 ++ incRow r2 := by
  simp [incRow]

theorem incRow_ne (row : Row) : incRow (ne row) = incRow row := by
  induction row with
  | nil => rfl
  | cons r row ih =>
    cases hk : r.2 with
    | nil =>
      have : ne (r :: row) = ne row := by simp [ne, List.filter_cons, hk]
      rw [this, ih]; simp [incRow, hk]
    | cons e kd =>
      have : ne (r :: row) = r :: ne row := by simp [ne, List.filter_cons, hk]
      rw [this]
      simp only [incRow, List.flatMap_cons] at ih ⊢
      rw [ih]

theorem incSpec_eq (g : Graph) (x : Int) : incSpec g x = incRow (R1 g x ++ R2 g x) := by
  rw [incRow_append]
  unfold incSpec incRow R1 R2
  rw [List.flatMap_map]

variable {g : Graph} {x : Int} {sub : Graph} {anchors : List Nat}

theorem Dom0.x_not_h (d : Dom0 g x sub) : x ∉ (hOf g sub).nodeIds := by
  rw [d.h_nodeIds.mem_iff, mem_map_add, mem_upto]
  have := d.x_range; omega

/-- the row of `x` after the composition step -/
theorem Dom0.G1_row (d : Dom0 g x sub) : (G1 g sub).adjRow x = ne (R1 g x ++ R2 g x) := by
  have hnb : (G1 g sub).neighbors x = ids (ne (R1 g x ++ R2 g x)) := by
    unfold G1
    rw [compose_neighbors d.composeOk d.x_not_h, touch_edges d.wg x, dd_bl _ [] (by simpa using ids_R_nodup d.wg x)]
    simp
  have hnd : (ids (ne (R1 g x ++ R2 g x))).Nodup := (ids_R_nodup d.wg x).sublist (ids_ne_sublist _)
  apply row_ext
  · rw [← neighbors_row]; exact hnb
  · rw [← neighbors_row, hnb]; exact hnd
  · intro v hv
    rw [← neighbors_row, hnb] at hv
    obtain ⟨r, hr, rfl⟩ := mem_ids.mp hv
    rw [lk_of_mem_nodup hnd hr, ← edgeData_row, d.G1_edgeData]
    have hs : sub.edgeData (x - (g.nodes.length : Int)) (r.1 - (g.nodes.length : Int)) = [] :=
      d.s_nil (Or.inl (by have := d.x_range; omega))
    rw [hs, List.append_nil]
    exact R_lookup d.wg x r (List.mem_filter.mp hr).1

/-- T3 under `Dom0` -/
theorem Dom0.incident_order (d : Dom0 g x sub) : incOfCompose g x sub = incSpec g x := by
  rw [incOfCompose_eq, incEdges_eq, incOf_expand, d.G1_row, incRow_ne, incSpec_eq]

end C13.E
