import FGVerif.Model.C11
/-!
  Lemmas about the networkx model `Model/Graph.lean` used by the C11 proofs: how `addNode`,
  `addEdge` (simple graph, both ends present) and `removeNode` act on the observations
  `nodeIds`, `attr?`, `adjRow` (hence `neighbors`, `edgeData`).  Core Lean only.
-/
namespace Graph

abbrev Row := List (Int × List (Nat × Label))

/-- the ids that have an adjacency row -/
def keys (g : Graph) : List Int := g.adj.map (·.1)

/-- association-list lookup (first match, `[]` if absent): adjacency row of a node, or edge data
    of a neighbour inside a row -/
def rowOf {β : Type} (adj : List (Int × List β)) (x : Int) : List β :=
  match adj.find? (·.1 == x) with
  | some r => r.2
  | none => []

/-- apply `f key row` to every row -/
def mapRows {β : Type} (f : Int → List β → List β) (adj : List (Int × List β)) : List (Int × List β) :=
  adj.map fun r => (r.1, f r.1 r.2)

theorem adjRow_eq (g : Graph) (x : Int) : g.adjRow x = rowOf g.adj x := by
  unfold adjRow rowOf
  generalize g.adj.find? _ = o
  cases o <;> rfl
theorem edgeData_eq (g : Graph) (u v : Int) : g.edgeData u v = rowOf (g.adjRow u) v := by
  unfold edgeData rowOf
  generalize (g.adjRow u).find? _ = o
  cases o <;> rfl

theorem find?_congr' {α : Type} {p q : α → Bool} (l : List α) (h : ∀ x, x ∈ l → p x = q x) :
    l.find? p = l.find? q := by
  induction l with
  | nil => rfl
  | cons a l ih =>
    simp only [List.find?_cons, h a (List.mem_cons_self)]
    rw [ih (fun x hx => h x (List.mem_cons_of_mem _ hx))]
theorem neighbors_eq (g : Graph) (u : Int) : g.neighbors u = (g.adjRow u).map (·.1) := rfl

theorem hasNode_iff (g : Graph) (n : Int) : g.hasNode n = true ↔ n ∈ g.nodeIds := by
  simp only [hasNode, nodeIds, List.any_eq_true, beq_iff_eq, List.mem_map]

/-! ### `rowOf` -/
section RowOf
variable {β : Type}

@[simp] theorem rowOf_nil (x : Int) : rowOf ([] : List (Int × List β)) x = [] := rfl

theorem rowOf_cons (k : Int) (r : List β) (adj : List (Int × List β)) (x : Int) :
    rowOf ((k, r) :: adj) x = if k = x then r else rowOf adj x := by
  simp only [rowOf, List.find?_cons]
  by_cases h : k = x
  · simp [h]
  · have : (k == x) = false := by simpa using h
    simp [this, h]

theorem rowOf_of_not_mem (adj : List (Int × List β)) (x : Int) (h : x ∉ adj.map (·.1)) : rowOf adj x = [] := by
  induction adj with
  | nil => rfl
  | cons a adj ih =>
    obtain ⟨k, r⟩ := a
    simp only [List.map_cons, List.mem_cons, not_or] at h
    rw [rowOf_cons, if_neg (fun e => h.1 e.symm), ih h.2]

theorem rowOf_append (a b : List (Int × List β)) (x : Int) :
    rowOf (a ++ b) x = if x ∈ a.map (·.1) then rowOf a x else rowOf b x := by
  induction a with
  | nil => simp
  | cons c a ih =>
    obtain ⟨k, r⟩ := c
    simp only [List.cons_append, rowOf_cons, List.map_cons, List.mem_cons]
    by_cases h : k = x
    · simp [h]
    · have h' : ¬ x = k := fun e => h e.symm
      simp only [h, h', if_false, false_or]
      exact ih

theorem keys_mapRows (f : Int → List β → List β) (adj : List (Int × List β)) :
    (mapRows f adj).map (·.1) = adj.map (·.1) := by
  simp [mapRows, List.map_map, Function.comp]

/-- updating every row by a function of its key -/
theorem rowOf_mapRows (f : Int → List β → List β) (adj : List (Int × List β)) (x : Int) :
    rowOf (mapRows f adj) x = if x ∈ adj.map (·.1) then f x (rowOf adj x) else [] := by
  induction adj with
  | nil => simp [mapRows]
  | cons c adj ih =>
    obtain ⟨k, r⟩ := c
    simp only [mapRows, List.map_cons, rowOf_cons, List.mem_cons] at ih ⊢
    by_cases h : k = x
    · subst h; simp
    · have h' : ¬ x = k := fun e => h e.symm
      simp only [h, h', if_false, false_or]
      exact ih

theorem rowOf_filter_ne (adj : List (Int × List β)) (n x : Int) :
    rowOf (adj.filter (·.1 != n)) x = if x = n then [] else rowOf adj x := by
  induction adj with
  | nil => simp
  | cons c adj ih =>
    obtain ⟨k, r⟩ := c
    by_cases hk : k = n
    · subst hk
      have : ((k, r).1 != k) = false := by simp
      rw [List.filter_cons, this]
      simp only [Bool.false_eq_true, if_false, rowOf_cons, ih]
      by_cases hx : x = k
      · simp [hx]
      · have : ¬ k = x := fun e => hx e.symm
        simp [hx, this]
    · have : ((k, r).1 != n) = true := by simpa using hk
      rw [List.filter_cons, this]
      simp only [if_true, rowOf_cons, ih]
      by_cases hx : k = x
      · subst hx; simp [hk]
      · simp [hx]

theorem rowOf_of_mem (adj : List (Int × List β)) (hnd : (adj.map (·.1)).Nodup) (x : Int) (row : List β)
    (h : (x, row) ∈ adj) : rowOf adj x = row := by
  induction adj with
  | nil => simp at h
  | cons c adj ih =>
    obtain ⟨k, r⟩ := c
    simp only [List.map_cons, List.nodup_cons] at hnd
    rw [rowOf_cons]
    rcases List.mem_cons.mp h with e | h'
    · cases e; simp
    · have : k ≠ x := fun e => hnd.1 (e ▸ List.mem_map.mpr ⟨(x, row), h', rfl⟩)
      rw [if_neg this]; exact ih hnd.2 h'

theorem rowOf_mem_of_key (adj : List (Int × List β)) (x : Int) (h : x ∈ adj.map (·.1)) :
    (x, rowOf adj x) ∈ adj := by
  induction adj with
  | nil => simp at h
  | cons c adj ih =>
    obtain ⟨k, r⟩ := c
    rw [rowOf_cons]
    by_cases hk : k = x
    · subst hk; simp
    · simp only [hk, if_false]
      simp only [List.map_cons, List.mem_cons] at h
      rcases h with e | h
      · exact absurd e.symm hk
      · exact List.mem_cons_of_mem _ (ih h)

end RowOf

/-! ### `addHalfEdge` on a simple graph -/

theorem addHalfEdge_old (row : Row) (v : Int) (l : Label) (h : v ∈ row.map (·.1)) :
    addHalfEdge false row v 0 l = mapRows (fun k d => if k = v then [(0, l)] else d) row := by
  unfold addHalfEdge
  have : row.any (·.1 == v) = true := by
    obtain ⟨r, hr, e⟩ := List.mem_map.mp h
    exact List.any_eq_true.mpr ⟨r, hr, by simpa using e⟩
  rw [if_pos this]
  unfold mapRows
  apply List.map_congr_left
  intro r _
  by_cases h : r.1 = v <;> simp [h]

theorem addHalfEdge_new (row : Row) (v : Int) (l : Label) (h : v ∉ row.map (·.1)) :
    addHalfEdge false row v 0 l = row ++ [(v, [(0, l)])] := by
  unfold addHalfEdge
  have : ¬ row.any (·.1 == v) = true := by
    intro ha
    obtain ⟨r, hr, e⟩ := List.any_eq_true.mp ha
    exact h (List.mem_map.mpr ⟨r, hr, by simpa using e⟩)
  rw [if_neg this]

/-- the entry for `v` becomes `[(0, l)]`, nothing else changes -/
theorem rowOf_addHalfEdge (row : Row) (v : Int) (l : Label) (y : Int) :
    rowOf (addHalfEdge false row v 0 l) y = if y = v then [(0, l)] else rowOf row y := by
  by_cases hmem : v ∈ row.map (·.1)
  · rw [addHalfEdge_old row v l hmem, rowOf_mapRows]
    by_cases hy : y = v
    · subst hy; simp [hmem]
    · simp only [hy, if_false]
      by_cases hm : y ∈ row.map (·.1)
      · simp [hm]
      · rw [if_neg hm, rowOf_of_not_mem row y hm]
  · rw [addHalfEdge_new row v l hmem, rowOf_append]
    by_cases hy : y = v
    · subst hy; simp [hmem, rowOf_cons]
    · simp only [hy, if_false]
      by_cases hm : y ∈ row.map (·.1)
      · simp [hm]
      · have : ¬ v = y := fun e => hy e.symm
        simp [hm, rowOf_cons, this, rowOf_of_not_mem row y hm]

/-- the neighbours after `addHalfEdge`: `v` is appended if it was not there -/
theorem keys_addHalfEdge (row : Row) (v : Int) (l : Label) :
    (addHalfEdge false row v 0 l).map (·.1) = if v ∈ row.map (·.1) then row.map (·.1) else row.map (·.1) ++ [v] := by
  by_cases hmem : v ∈ row.map (·.1)
  · rw [addHalfEdge_old row v l hmem, keys_mapRows, if_pos hmem]
  · rw [addHalfEdge_new row v l hmem, if_neg hmem]; simp

/-! ### `addNode` -/

theorem nodeIds_addNode_new (g : Graph) (n : Int) (a : NodeAttr) (h : n ∉ g.nodeIds) :
    (g.addNode n a).nodeIds = g.nodeIds ++ [n] := by
  have : ¬ g.hasNode n = true := fun e => h ((hasNode_iff g n).mp e)
  simp [addNode, this, nodeIds]

theorem keys_addNode_new (g : Graph) (n : Int) (a : NodeAttr) (h : n ∉ g.nodeIds) :
    (g.addNode n a).keys = g.keys ++ [n] := by
  have : ¬ g.hasNode n = true := fun e => h ((hasNode_iff g n).mp e)
  simp [addNode, this, keys]

theorem multi_addNode (g : Graph) (n : Int) (a : NodeAttr) : (g.addNode n a).multi = g.multi := by
  unfold addNode; split <;> rfl

theorem adjRow_addNode_new (g : Graph) (n : Int) (a : NodeAttr) (h : n ∉ g.nodeIds) (x : Int) :
    (g.addNode n a).adjRow x = g.adjRow x := by
  have : ¬ g.hasNode n = true := fun e => h ((hasNode_iff g n).mp e)
  simp only [addNode, this, adjRow_eq, if_false, Bool.false_eq_true]
  rw [rowOf_append]
  by_cases hx : x ∈ g.adj.map (·.1)
  · simp [hx]
  · rw [if_neg hx, rowOf_of_not_mem _ _ hx, rowOf_cons]
    split <;> rfl

theorem find?_key_map {α : Type} (f : Int × α → Int × α) (hf : ∀ x, (f x).1 = x.1) (ns : List (Int × α)) (m : Int) :
    (ns.map f).find? (·.1 == m) = (ns.find? (·.1 == m)).map f := by
  rw [List.find?_map]
  congr 1
  apply find?_congr' _
  intro x _
  simp [Function.comp, hf]

theorem attr?_addNode_new (g : Graph) (n : Int) (a : NodeAttr) (h : n ∉ g.nodeIds) (m : Int) :
    (g.addNode n a).attr? m = if m = n then some a else g.attr? m := by
  have hn : ¬ g.hasNode n = true := fun e => h ((hasNode_iff g n).mp e)
  simp only [addNode, hn, attr?, if_false, Bool.false_eq_true, List.find?_append]
  by_cases hm : m = n
  · subst hm
    have : g.nodes.find? (fun x => x.1 == m) = none := by
      rw [List.find?_eq_none]
      intro x hx hxe
      exact h (List.mem_map.mpr ⟨x, hx, by simpa using hxe⟩)
    simp [this]
  · simp only [hm, if_false]
    have : ¬ n = m := fun e => hm e.symm
    cases hf : g.nodes.find? (fun x => x.1 == m) <;> simp [this]

theorem nodeIds_addNode_old (g : Graph) (n : Int) (a : NodeAttr) (h : n ∈ g.nodeIds) :
    (g.addNode n a).nodeIds = g.nodeIds := by
  have : g.hasNode n = true := (hasNode_iff g n).mpr h
  simp only [addNode, this, if_true, nodeIds, List.map_map]
  apply List.map_congr_left
  intro x _
  simp only [Function.comp]
  split <;> rfl

theorem adj_addNode_old (g : Graph) (n : Int) (a : NodeAttr) (h : n ∈ g.nodeIds) :
    (g.addNode n a).adj = g.adj := by
  have : g.hasNode n = true := (hasNode_iff g n).mpr h
  simp [addNode, this]

theorem attr?_addNode_old (g : Graph) (n : Int) (a : NodeAttr) (h : n ∈ g.nodeIds) (m : Int) :
    (g.addNode n a).attr? m = if m = n then (g.attr? n).map (fun o => mergeAttr o a) else g.attr? m := by
  have hn : g.hasNode n = true := (hasNode_iff g n).mpr h
  simp only [addNode, hn, if_true, attr?]
  rw [find?_key_map _ (by intro x; split <;> rfl)]
  cases hf : g.nodes.find? (fun x => x.1 == m) with
  | none => by_cases hm : m = n <;> simp [hm] <;> (subst hm; simp [hf])
  | some x =>
    have hx : x.1 = m := by simpa using List.find?_some hf
    by_cases hm : m = n
    · subst hm; simp [hx, hf]
    · have : ¬ x.1 = n := fun e => hm (hx ▸ e)
      simp [hm, this]

/-! ### `addEdge` on a simple graph whose end nodes exist -/

theorem addEdge_eq (g : Graph) (u v : Int) (l : Label) (hu : u ∈ g.nodeIds) (hv : v ∈ g.nodeIds)
    (hm : g.multi = false) :
    g.addEdge u v l =
      { g with adj :=
          if u = v then mapRows (fun k d => if k = u then addHalfEdge false d v 0 l else d) g.adj
          else mapRows (fun k d => if k = v then addHalfEdge false d u 0 l else d)
                (mapRows (fun k d => if k = u then addHalfEdge false d v 0 l else d) g.adj) } := by
  have h1 : g.hasNode u = true := (hasNode_iff g u).mpr hu
  have h2 : g.hasNode v = true := (hasNode_iff g v).mpr hv
  simp only [addEdge, h1, h2, if_true, hm, Bool.false_eq_true, if_false]
  congr 1
  have e1 : ∀ (w x : Int) (adj : List (Int × Row)),
      (adj.map fun r => if r.1 == w then (r.1, addHalfEdge false r.2 x 0 l) else r)
        = mapRows (fun k d => if k = w then addHalfEdge false d x 0 l else d) adj := by
    intro w x adj
    unfold mapRows
    apply List.map_congr_left
    intro r _
    by_cases h : r.1 = w <;> simp [h]
  rw [e1 u v]
  by_cases huv : u = v
  · simp [huv]
  · have : (u == v) = false := by simpa using huv
    simp only [this, Bool.false_eq_true, if_false, huv]
    rw [e1 v u]

theorem nodeIds_addEdge (g : Graph) (u v : Int) (l : Label) (hu : u ∈ g.nodeIds) (hv : v ∈ g.nodeIds)
    (hm : g.multi = false) : (g.addEdge u v l).nodeIds = g.nodeIds := by
  rw [addEdge_eq g u v l hu hv hm]; rfl

theorem attr?_addEdge (g : Graph) (u v : Int) (l : Label) (hu : u ∈ g.nodeIds) (hv : v ∈ g.nodeIds)
    (hm : g.multi = false) (m : Int) : (g.addEdge u v l).attr? m = g.attr? m := by
  rw [addEdge_eq g u v l hu hv hm]; rfl

theorem multi_addEdge (g : Graph) (u v : Int) (l : Label) (hu : u ∈ g.nodeIds) (hv : v ∈ g.nodeIds)
    (hm : g.multi = false) : (g.addEdge u v l).multi = false := by
  rw [addEdge_eq g u v l hu hv hm]; exact hm

theorem keys_addEdge (g : Graph) (u v : Int) (l : Label) (hu : u ∈ g.nodeIds) (hv : v ∈ g.nodeIds)
    (hm : g.multi = false) : (g.addEdge u v l).keys = g.keys := by
  rw [addEdge_eq g u v l hu hv hm]
  simp only [keys]
  split <;> simp [keys_mapRows]

theorem adjRow_addEdge (g : Graph) (u v : Int) (l : Label) (hu : u ∈ g.nodeIds) (hv : v ∈ g.nodeIds)
    (hm : g.multi = false) (hku : u ∈ g.keys) (hkv : v ∈ g.keys) (x : Int) :
    (g.addEdge u v l).adjRow x =
      if u = v then (if x = u then addHalfEdge false (g.adjRow u) u 0 l else g.adjRow x)
      else if x = u then addHalfEdge false (g.adjRow u) v 0 l
      else if x = v then addHalfEdge false (g.adjRow v) u 0 l
      else g.adjRow x := by
  rw [addEdge_eq g u v l hu hv hm]
  simp only [adjRow_eq]
  by_cases huv : u = v
  · subst huv
    simp only [if_true]
    rw [rowOf_mapRows]
    by_cases hx : x = u
    · subst hx; simp [show x ∈ g.adj.map (·.1) from hku]
    · simp only [hx, if_false]
      by_cases hxk : x ∈ g.adj.map (·.1)
      · simp [hxk]
      · simp [hxk, rowOf_of_not_mem _ _ hxk]
  · simp only [huv, if_false]
    rw [rowOf_mapRows, keys_mapRows, rowOf_mapRows]
    by_cases hxk : x ∈ g.adj.map (·.1)
    · simp only [hxk, if_true]
      by_cases hxu : x = u
      · subst hxu
        simp [huv]
      · by_cases hxv : x = v
        · subst hxv; simp [hxu]
        · simp [hxu, hxv]
    · have hxu : x ≠ u := fun e => hxk (e ▸ hku)
      have hxv : x ≠ v := fun e => hxk (e ▸ hkv)
      simp [hxk, hxu, hxv, rowOf_of_not_mem _ _ hxk]

/-- on a simple graph `add_edge(u, v, bond=l)` sets the data of `u–v` (both directions) to `[(0, l)]`
    and changes nothing else -/
theorem edgeData_addEdge (g : Graph) (u v : Int) (l : Label) (hu : u ∈ g.nodeIds) (hv : v ∈ g.nodeIds)
    (hm : g.multi = false) (hku : u ∈ g.keys) (hkv : v ∈ g.keys) (x y : Int) :
    (g.addEdge u v l).edgeData x y =
      if (x = u ∧ y = v) ∨ (x = v ∧ y = u) then [(0, l)] else g.edgeData x y := by
  rw [edgeData_eq, adjRow_addEdge g u v l hu hv hm hku hkv, edgeData_eq]
  by_cases huv : u = v
  · subst huv
    simp only [if_true]
    by_cases hx : x = u
    · subst hx
      simp only [if_true, rowOf_addHalfEdge]
      by_cases hy : y = x <;> simp [hy]
    · simp [hx]
  · simp only [huv, if_false]
    by_cases hxu : x = u
    · subst hxu
      simp only [if_true, rowOf_addHalfEdge]
      by_cases hy : y = v
      · simp [hy]
      · have : ¬ (x = v ∧ y = x) := fun h => huv h.1
        simp [hy, this]
    · simp only [hxu, if_false, false_and, false_or]
      by_cases hxv : x = v
      · subst hxv
        simp only [if_true, rowOf_addHalfEdge, true_and]
      · simp [hxv]

/-! ### `addNode`, whether or not the node exists -/

theorem mem_nodeIds_addNode (g : Graph) (n : Int) (a : NodeAttr) (m : Int) :
    m ∈ (g.addNode n a).nodeIds ↔ m = n ∨ m ∈ g.nodeIds := by
  by_cases h : n ∈ g.nodeIds
  · rw [nodeIds_addNode_old g n a h]
    constructor
    · exact .inr
    · rintro (rfl | h') <;> assumption
  · rw [nodeIds_addNode_new g n a h]
    simp [or_comm]

theorem keys_addNode (g : Graph) (n : Int) (a : NodeAttr) (hk : g.keys = g.nodeIds) :
    (g.addNode n a).keys = (g.addNode n a).nodeIds := by
  by_cases h : n ∈ g.nodeIds
  · rw [nodeIds_addNode_old g n a h, keys, adj_addNode_old g n a h]; exact hk
  · rw [nodeIds_addNode_new g n a h, keys_addNode_new g n a h, hk]

theorem adjRow_addNode (g : Graph) (n : Int) (a : NodeAttr) (x : Int) :
    (g.addNode n a).adjRow x = g.adjRow x := by
  by_cases h : n ∈ g.nodeIds
  · rw [adjRow_eq, adj_addNode_old g n a h, adjRow_eq]
  · exact adjRow_addNode_new g n a h x

theorem attr?_isSome_of_mem (g : Graph) (n : Int) (h : n ∈ g.nodeIds) : ∃ o, g.attr? n = some o := by
  obtain ⟨x, hx, e⟩ := List.mem_map.mp h
  simp only [attr?]
  cases hf : g.nodes.find? (fun y => y.1 == n) with
  | none =>
    rw [List.find?_eq_none] at hf
    exact absurd (by simpa using e) (hf x hx)
  | some y => exact ⟨y.2, rfl⟩

/-- `add_node(n, symbol=s)`: the symbol of `n` becomes `s` (if `s` is given; otherwise kept) -/
theorem symbol?_addNode (g : Graph) (n : Int) (s : Option String) (m : Int) :
    (g.addNode n { symbol := s }).symbol? m =
      if m = n then (if n ∈ g.nodeIds then s.orElse (fun _ => g.symbol? n) else s) else g.symbol? m := by
  simp only [symbol?]
  by_cases h : n ∈ g.nodeIds
  · rw [attr?_addNode_old g n _ h]
    by_cases hm : m = n
    · subst hm
      obtain ⟨o, ho⟩ := attr?_isSome_of_mem g m h
      simp [h, ho, mergeAttr]
    · simp [hm]
  · rw [attr?_addNode_new g n _ h]
    by_cases hm : m = n <;> simp [hm, h]

/-! ### `removeNode` -/

theorem nodeIds_removeNode (g : Graph) (n : Int) : (g.removeNode n).nodeIds = g.nodeIds.filter (· != n) := by
  simp only [removeNode, nodeIds, List.filter_map]
  rfl

theorem keys_removeNode (g : Graph) (n : Int) : (g.removeNode n).keys = g.keys.filter (· != n) := by
  simp only [removeNode, keys, List.map_map, List.filter_map]
  rfl

theorem multi_removeNode (g : Graph) (n : Int) : (g.removeNode n).multi = g.multi := rfl

theorem attr?_removeNode (g : Graph) (n m : Int) :
    (g.removeNode n).attr? m = if m = n then none else g.attr? m := by
  simp only [removeNode, attr?, List.find?_filter]
  by_cases hm : m = n
  · subst hm
    simp
  · simp only [hm, if_false]
    congr 1
    apply find?_congr' _
    intro x _
    by_cases hx : x.1 = m
    · have : ¬ x.1 = n := fun e => hm (hx ▸ e)
      simp [hx, hm]
    · simp [hx]

theorem adjRow_removeNode (g : Graph) (n x : Int) :
    (g.removeNode n).adjRow x = if x = n then [] else (g.adjRow x).filter (·.1 != n) := by
  simp only [removeNode, adjRow_eq]
  have e : ((g.adj.filter (·.1 != n)).map fun r => (r.1, r.2.filter (·.1 != n)))
      = mapRows (fun _ d => d.filter (·.1 != n)) (g.adj.filter (·.1 != n)) := rfl
  rw [e, rowOf_mapRows, rowOf_filter_ne]
  by_cases hx : x = n
  · subst hx
    simp
  · simp only [hx, if_false]
    by_cases hk : x ∈ g.adj.map (·.1)
    · have : x ∈ (g.adj.filter (·.1 != n)).map (·.1) := by
        obtain ⟨r, hr, e⟩ := List.mem_map.mp hk
        exact List.mem_map.mpr ⟨r, List.mem_filter.mpr ⟨hr, by simpa [e] using hx⟩, e⟩
      simp [this]
    · have : x ∉ (g.adj.filter (·.1 != n)).map (·.1) := by
        intro h
        obtain ⟨r, hr, e⟩ := List.mem_map.mp h
        exact hk (List.mem_map.mpr ⟨r, (List.mem_filter.mp hr).1, e⟩)
      simp [this, rowOf_of_not_mem _ _ hk]

end Graph
