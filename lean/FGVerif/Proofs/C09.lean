import FGVerif.Proofs.C09Lemmas
/-!
  C09 — the ITS graph superimposes reactant and product bond-for-bond.

  Property theorems (about `Model/C09.lean`; for all graphs, no bound on sizes, ids, orders):

  * `C09.its_exact`        `Dom G → Dom H → view (getIts G H) = itsSpec G H`
                           (`view` = node set + set of undirected labelled edges; `itsSpec` speaks
                           about map numbers only, see `itsSpec_node`, `itsSpec_edge`)
  * `C09.getIts_closed`    the four loops in closed form (what each node / edge contributes);
                           `getIts_simple`, `getIts_ids`: the result is a simple graph with distinct ids
  * `C09.specCheck_iff` / `specCheck_sound`  the executable checker the driver applies to
                           *implementation* outputs decides the specification
  * `C09.renumbering_invariant` (`itsSpec_renamed`)  renaming the node ids of either side by any
                           injective map, listing nodes and edges in any order and orientation,
                           leaves the result unchanged (hypothesis `Renamed`, only membership)
  * `C09.no_ghost_nodes`, `C09.one_sided_atoms_contribute_nothing`
  * `C09.Unrepaired.noGuard_violates`, `skip_violates`  the two halves of defect F7 (models of the
                           code before abbd97b) refuted on their witnesses by `decide`

  Domain (`Dom`, implied by the decidable `domOk`): node ids distinct, present map numbers `≥ 1`
  and pairwise distinct (injective, possibly partial map), simple graph, bond orders `≠ 0`.
  Map number 0 (RDKit's "unmapped") and negative numbers are outside the statement.
  Nothing is partial here; what is *not* covered: non-injective maps, and `ITS.from_smiles`'s RDKit
  parsing (the graphs it hands to `get_its` are taken as given).
-/
namespace C09

/-! ### domain of the statement -/

/-- what a molecular graph with an injective atom map is: node ids distinct (it is a graph),
    present map numbers `≥ 1` and pairwise distinct, at most one edge per unordered pair of nodes
    (it is a simple graph), bond orders not 0 -/
structure Dom (G : Mol) : Prop where
  ids : G.nodes.Pairwise (fun x y => x.1 ≠ y.1)
  pos : ∀ a ∈ mapNums G, 1 ≤ a
  inj : (mapNums G).Pairwise (fun a b => a ≠ b)
  simple : G.edges.Pairwise (fun e f => ¬ samePair e.1 e.2.1 f.1 f.2.1 = true)
  nz : ∀ e ∈ G.edges, e.2.2 ≠ 0

/-- the decidable predicate the harness/driver evaluates implies the domain -/
theorem dom_of_domOk {G : Mol} (h : domOk G = true) : Dom G := by
  simp only [domOk, Bool.and_eq_true, pairwiseB_iff, List.all_eq_true] at h
  obtain ⟨⟨⟨⟨h1, h2⟩, h3⟩, h4⟩, h5⟩ := h
  refine ⟨h1.imp ?_, ?_, h3.imp ?_, h4.imp ?_, ?_⟩
  · intro a b hab; simpa using hab
  · intro a ha; simpa using h2 a ha
  · intro a b hab; simpa using hab
  · intro a b hab; simpa using hab
  · intro e he
    have := h5 e he
    simp only [bne_iff_ne, ne_eq] at this
    exact this.2

/-- node `n` of `G` carries map number `a` -/
def HasAam (G : Mol) (n a : Int) : Prop := ∃ s, (n, s, some a) ∈ G.nodes

section nodes
variable {G : Mol}

theorem node_unique_id (hG : Dom G) {x y : Int × String × Option Int} (hx : x ∈ G.nodes)
    (hy : y ∈ G.nodes) (h : x.1 = y.1) : x = y :=
  eq_of_pairwise_not (P := fun x y => x.1 = y.1) (fun _ _ h => h.symm) hG.ids hx hy h

theorem node_unique_aam (hG : Dom G) {x y : Int × String × Option Int} {a : Int} (hx : x ∈ G.nodes)
    (hy : y ∈ G.nodes) (h1 : x.2.2 = some a) (h2 : y.2.2 = some a) : x = y := by
  have hp : G.nodes.Pairwise (fun x y => ¬ ∃ a, x.2.2 = some a ∧ y.2.2 = some a) := by
    have := hG.inj
    unfold mapNums at this
    rw [List.pairwise_filterMap] at this
    refine this.imp ?_
    intro x y hxy ⟨a, h1, h2⟩
    exact hxy a h1 a h2 rfl
  exact eq_of_pairwise_not (P := fun x y => ∃ a, x.2.2 = some a ∧ y.2.2 = some a)
    (fun _ _ ⟨a, h1, h2⟩ => ⟨a, h2, h1⟩) hp hx hy ⟨a, h1, h2⟩

theorem mem_mapNums {a : Int} : a ∈ mapNums G ↔ ∃ n, HasAam G n a := by
  unfold mapNums HasAam
  rw [List.mem_filterMap]
  constructor
  · rintro ⟨⟨n, s, a'⟩, hx, h⟩
    simp only at h; subst h
    exact ⟨n, s, hx⟩
  · rintro ⟨n, s, hx⟩
    exact ⟨(n, s, some a), hx, rfl⟩

theorem aamOf_of_mem (hG : Dom G) {x : Int × String × Option Int} (hx : x ∈ G.nodes) :
    aamOf G x.1 = x.2.2 := by
  unfold aamOf
  rw [find?_unique (x := x) hx (by simp)]
  · rfl
  · intro y hy hp
    exact node_unique_id hG hy hx (by simpa using hp)

theorem aamOf_some_iff (hG : Dom G) {n a : Int} : aamOf G n = some a ↔ HasAam G n a := by
  constructor
  · intro h
    unfold aamOf at h
    cases hf : G.nodes.find? (fun x => x.1 == n) with
    | none => rw [hf] at h; simp at h
    | some x =>
      rw [hf] at h
      have hm := List.mem_of_find?_eq_some hf
      have hp := List.find?_some hf
      obtain ⟨n', s, a'⟩ := x
      simp only [beq_iff_eq] at hp
      simp only [Option.bind_some] at h
      subst hp; subst h
      exact ⟨s, hm⟩
  · rintro ⟨s, hx⟩
    exact aamOf_of_mem hG hx

theorem symOf_of_mem (hG : Dom G) {x : Int × String × Option Int} {a : Int} (hx : x ∈ G.nodes)
    (ha : x.2.2 = some a) : symOf G a = some x.2.1 := by
  unfold symOf
  rw [find?_unique (x := x) hx (by simp [ha])]
  · rfl
  · intro y hy hp
    exact node_unique_aam hG hy hx (by simpa using hp) ha

/-- the forward dictionary holds exactly the map numbers -/
theorem get_etaFwd (hG : Dom G) (n : Int) : get (etaFwd G) (some n) = aamOf G n := by
  apply Option.ext
  intro a
  rw [aamOf_some_iff hG]
  simp only [get, Option.bind_some, etaFwd]
  rw [lookup_iff, List.mem_reverse, List.mem_filterMap]
  · constructor
    · rintro ⟨⟨n', s, a'⟩, hx, h⟩
      cases a' with
      | none => simp at h
      | some b =>
        simp only [Option.bind_some] at h
        split at h
        · simp only [Option.some.injEq, Prod.mk.injEq] at h
          obtain ⟨rfl, rfl⟩ := h
          exact ⟨s, hx⟩
        · simp at h
    · rintro ⟨s, hx⟩
      refine ⟨(n, s, some a), hx, ?_⟩
      have : 1 ≤ a := hG.pos a (mem_mapNums.mpr ⟨n, s, hx⟩)
      simp only [Option.bind_some]
      rw [if_pos (by omega)]
  · rw [List.pairwise_reverse, List.pairwise_filterMap]
    refine hG.ids.imp ?_
    intro x y hxy p hp q hq
    obtain ⟨n1, s1, a1⟩ := x
    obtain ⟨n2, s2, a2⟩ := y
    cases a1 with
    | none => simp at hp
    | some b1 =>
      cases a2 with
      | none => simp at hq
      | some b2 =>
        simp only [Option.bind_some] at hp hq
        split at hp <;> split at hq <;> simp only [Option.some.injEq, reduceCtorEq] at hp hq
        subst hp; subst hq
        exact fun h => hxy h.symm

/-- the inverse dictionary sends a map number to the node that carries it -/
theorem get_etaInv (hG : Dom G) {a n : Int} : get (etaInv G) (some a) = some n ↔ HasAam G n a := by
  simp only [get, Option.bind_some, etaInv]
  rw [lookup_iff, List.mem_reverse, List.mem_filterMap]
  · constructor
    · rintro ⟨⟨n', s, a'⟩, hx, h⟩
      cases a' with
      | none => simp at h
      | some b =>
        simp only [Option.bind_some] at h
        split at h
        · simp only [Option.some.injEq, Prod.mk.injEq] at h
          obtain ⟨rfl, rfl⟩ := h
          exact ⟨s, hx⟩
        · simp at h
    · rintro ⟨s, hx⟩
      refine ⟨(n, s, some a), hx, ?_⟩
      have : 1 ≤ a := hG.pos a (mem_mapNums.mpr ⟨n, s, hx⟩)
      simp only [Option.bind_some]
      rw [if_pos (by omega)]
  · rw [List.pairwise_reverse, List.pairwise_filterMap]
    have := hG.inj
    unfold mapNums at this
    rw [List.pairwise_filterMap] at this
    refine this.imp ?_
    intro x y hxy p hp q hq
    obtain ⟨n1, s1, a1⟩ := x
    obtain ⟨n2, s2, a2⟩ := y
    cases a1 with
    | none => simp at hp
    | some b1 =>
      cases a2 with
      | none => simp at hq
      | some b2 =>
        simp only [Option.bind_some] at hp hq
        split at hp <;> split at hq <;> simp only [Option.some.injEq, reduceCtorEq] at hp hq
        subst hp; subst hq
        exact fun h => hxy b1 rfl b2 rfl h.symm

theorem get_etaInv_none (hG : Dom G) {a : Int} : get (etaInv G) (some a) = none ↔ a ∉ mapNums G := by
  rw [mem_mapNums]
  constructor
  · intro h ⟨n, hn⟩
    rw [(get_etaInv hG).mpr hn] at h; cases h
  · intro h
    cases hg : get (etaInv G) (some a) with
    | none => rfl
    | some n => exact absurd ⟨n, (get_etaInv hG).mp hg⟩ h

theorem hasAam_inj (hG : Dom G) {u v a : Int} (h1 : HasAam G u a) (h2 : HasAam G v a) : u = v := by
  obtain ⟨s1, m1⟩ := h1
  obtain ⟨s2, m2⟩ := h2
  have := node_unique_aam hG m1 m2 rfl rfl
  simp only [Prod.mk.injEq] at this
  exact this.1

theorem aamOf_beq (hG : Dom G) {g a : Int} (h : HasAam G g a) (u : Int) :
    (aamOf G u == some a) = (u == g) := by
  rw [Bool.eq_iff_iff]
  simp only [beq_iff_eq]
  constructor
  · intro h'
    exact hasAam_inj hG ((aamOf_some_iff hG).mp h') h
  · rintro rfl
    exact (aamOf_some_iff hG).mpr h

end nodes

/-! ### edges -/
section edges
variable {G : Mol}

theorem joins_comm (G : Mol) (a b : Int) (e : Int × Int × Int) : joins G a b e = joins G b a e := by
  unfold joins; exact Bool.or_comm _ _

theorem ordOf_comm (G : Mol) (a b : Int) : ordOf G a b = ordOf G b a := by
  unfold ordOf
  rw [find?_congr (q := joins G b a) (fun e _ => joins_comm G a b e)]

theorem joins_eq_samePair (hG : Dom G) {g1 g2 a b : Int} (h1 : HasAam G g1 a) (h2 : HasAam G g2 b)
    (e : Int × Int × Int) : joins G a b e = samePair e.1 e.2.1 g1 g2 := by
  unfold joins samePair
  rw [aamOf_beq hG h1, aamOf_beq hG h2, aamOf_beq hG h1, aamOf_beq hG h2]

theorem edge_unique (hG : Dom G) {e f : Int × Int × Int} (he : e ∈ G.edges) (hf : f ∈ G.edges)
    (h : samePair e.1 e.2.1 f.1 f.2.1 = true) : e = f :=
  eq_of_pairwise_not (P := fun e f => samePair e.1 e.2.1 f.1 f.2.1 = true)
    (fun x y h => by rw [samePair_symm]; exact h) hG.simple he hf h

/-- two pairs of mapped atoms with the same pair of map numbers are the same pair of atoms -/
theorem aam_pair_inj (hG : Dom G) {u v u' v' a b a' b' : Int} (h1 : aamOf G u = some a)
    (h2 : aamOf G v = some b) (h3 : aamOf G u' = some a') (h4 : aamOf G v' = some b')
    (h : samePair a b a' b' = true) : samePair u v u' v' = true := by
  rw [aamOf_some_iff hG] at h1 h2 h3 h4
  rw [samePair_iff] at h ⊢
  rcases h with ⟨rfl, rfl⟩ | ⟨rfl, rfl⟩
  · exact Or.inl ⟨hasAam_inj hG h1 h3, hasAam_inj hG h2 h4⟩
  · exact Or.inr ⟨hasAam_inj hG h1 h4, hasAam_inj hG h2 h3⟩

theorem joins_of_aams {e : Int × Int × Int} {a b : Int} (h1 : aamOf G e.1 = some a)
    (h2 : aamOf G e.2.1 = some b) : joins G a b e = true := by
  simp [joins, h1, h2]

/-- an edge between the atoms numbered `a` and `b` determines `ordOf` -/
theorem ordOf_of_edge (hG : Dom G) {e : Int × Int × Int} {a b : Int} (he : e ∈ G.edges)
    (h1 : aamOf G e.1 = some a) (h2 : aamOf G e.2.1 = some b) : ordOf G a b = e.2.2 := by
  unfold ordOf
  rw [find?_unique (x := e) he (joins_of_aams h1 h2)]
  intro f hf hj
  have h1' := (aamOf_some_iff hG).mp h1
  have h2' := (aamOf_some_iff hG).mp h2
  rw [joins_eq_samePair hG h1' h2'] at hj
  apply edge_unique hG hf he
  rw [samePair_symm] at hj
  rw [samePair_symm]; exact hj

theorem ordOf_zero_of_not_bonded {a b : Int} (h : G.edges.any (joins G a b) = false) : ordOf G a b = 0 := by
  unfold ordOf
  have : G.edges.find? (joins G a b) = none := by
    rw [List.find?_eq_none]; exact List.any_eq_false.mp h
  rw [this]

theorem not_bonded_of_ordOf_zero (hG : Dom G) {a b : Int} (h : ordOf G a b = 0) :
    G.edges.any (joins G a b) = false := by
  unfold ordOf at h
  cases hf : G.edges.find? (joins G a b) with
  | none => rw [List.find?_eq_none] at hf; exact List.any_eq_false.mpr hf
  | some e =>
    rw [hf] at h
    exact absurd h (hG.nz e (List.mem_of_find?_eq_some hf))

/-- the reactant loop's `e_H`: the product's bond between the partner atoms -/
theorem bond_eq_ordOf (hG : Dom G) {g1 g2 a b : Int} (h1 : HasAam G g1 a) (h2 : HasAam G g2 b) :
    (if hasEdge G g1 g2 then bond G g1 g2 else 0) = ordOf G a b := by
  have hc : G.edges.find? (fun e => samePair e.1 e.2.1 g1 g2) = G.edges.find? (joins G a b) :=
    find?_congr fun e _ => (joins_eq_samePair hG h1 h2 e).symm
  unfold hasEdge bond ordOf
  rw [← hc]
  cases hf : G.edges.find? (fun e => samePair e.1 e.2.1 g1 g2) with
  | none => simp
  | some e =>
    have : G.edges.any (fun e => samePair e.1 e.2.1 g1 g2) = true :=
      List.any_eq_true.mpr ⟨e, List.mem_of_find?_eq_some hf,
        List.find?_some (p := fun (e : Int × Int × Int) => samePair e.1 e.2.1 g1 g2) hf⟩
    simp [this]

theorem hasEdge_eq_bonded (hG : Dom G) {g1 g2 a b : Int} (h1 : HasAam G g1 a) (h2 : HasAam G g2 b) :
    hasEdge G g1 g2 = G.edges.any (joins G a b) := by
  unfold hasEdge
  exact any_congr' fun e _ => (joins_eq_samePair hG h1 h2 e).symm

end edges

/-! ### the loops in closed form -/

/-- what the reactant node loop contributes for node `x` -/
def nodeF (G H : Mol) (x : Int × String × Option Int) : Option INode :=
  match aamOf G x.1 with
  | some a => if a ∈ mapNums H then some (a, some x.2.1, some a) else none
  | none => none

/-- what the reactant edge loop contributes for edge `e` -/
def edgeFG (G H : Mol) (e : Int × Int × Int) : Option IEdge :=
  match aamOf G e.1, aamOf G e.2.1 with
  | some a, some b =>
    if a ∈ mapNums H ∧ b ∈ mapNums H then some (a, b, (e.2.2, ordOf H a b)) else none
  | _, _ => none

/-- what the product edge loop contributes for edge `e` -/
def edgeFH (G H : Mol) (e : Int × Int × Int) : Option IEdge :=
  match aamOf H e.1, aamOf H e.2.1 with
  | some a, some b =>
    if a ∈ mapNums G ∧ b ∈ mapNums G ∧ G.edges.any (joins G a b) = false then some (a, b, (0, e.2.2))
    else none
  | _, _ => none

theorem hasNode_mk (N : List INode) (E : List IEdge) (a : Int) :
    hasNode (⟨N, E⟩ : Its) a = N.any fun x => x.1 == a := rfl

theorem hasEdge_mk (N : List INode) (E : List IEdge) (a b : Int) :
    hasEdge (⟨N, E⟩ : Its) a b = E.any fun e => samePair e.1 e.2.1 a b := rfl

theorem addNode_fresh {N : List INode} {E : List IEdge} {n : Int} {s : Option String} {a : Option Int}
    (h : hasNode (⟨N, E⟩ : Its) n = false) : addNode ⟨N, E⟩ n s a = ⟨N ++ [(n, s, a)], E⟩ := by
  unfold addNode; rw [h]; rfl

theorem addEdge_fresh {N : List INode} {E : List IEdge} {a b : Int} {l : Int × Int}
    (ha : hasNode (⟨N, E⟩ : Its) a = true) (hb : hasNode (⟨N, E⟩ : Its) b = true)
    (h : hasEdge (⟨N, E⟩ : Its) a b = false) : addEdge ⟨N, E⟩ a b l = ⟨N, E ++ [(a, b, l)]⟩ := by
  unfold addEdge; simp only [ha, hb, h, if_true]; rfl

/-- a loop that appends the nodes `F x` (all fresh, pairwise distinct ids) -/
theorem foldl_addNodes {α} (F : α → Option INode) (step : Its → α → Its)
    (hstep : ∀ (N : List INode) (E : List IEdge) (x : α),
      (∀ y, F x = some y → hasNode (⟨N, E⟩ : Its) y.1 = false) →
      step ⟨N, E⟩ x = match F x with | some y => ⟨N ++ [y], E⟩ | none => ⟨N, E⟩) :
    ∀ (L : List α) (N : List INode) (E : List IEdge),
      (∀ x ∈ L, ∀ y, F x = some y → hasNode (⟨N, E⟩ : Its) y.1 = false) →
      L.Pairwise (fun x x' => ∀ y y', F x = some y → F x' = some y' → y.1 ≠ y'.1) →
      L.foldl step ⟨N, E⟩ = ⟨N ++ L.filterMap F, E⟩ := by
  intro L
  induction L with
  | nil => intro N E _ _; simp
  | cons x xs ih =>
    intro N E hfresh hpw
    rw [List.pairwise_cons] at hpw
    rw [List.foldl_cons, hstep N E x (hfresh x List.mem_cons_self), List.filterMap_cons]
    cases hF : F x with
    | none =>
      simp only
      exact ih N E (fun z hz => hfresh z (List.mem_cons_of_mem _ hz)) hpw.2
    | some y =>
      simp only
      rw [ih (N ++ [y]) E ?_ hpw.2]
      · simp
      · intro z hz y' hy'
        have h1 := hfresh z (List.mem_cons_of_mem _ hz) y' hy'
        have h2 := hpw.1 z hz y y' hF hy'
        rw [hasNode_mk] at h1 ⊢
        rw [List.any_append, h1]
        simp [h2]

/-- a loop that appends the edges `F e` (end nodes present, pairs fresh and pairwise distinct) -/
theorem foldl_addEdges {α} (F : α → Option IEdge) (step : Its → α → Its)
    (hstep : ∀ (N : List INode) (E : List IEdge) (e : α),
      (∀ y, F e = some y → hasNode (⟨N, E⟩ : Its) y.1 = true ∧ hasNode (⟨N, E⟩ : Its) y.2.1 = true ∧
        hasEdge (⟨N, E⟩ : Its) y.1 y.2.1 = false) →
      step ⟨N, E⟩ e = match F e with | some y => ⟨N, E ++ [y]⟩ | none => ⟨N, E⟩) :
    ∀ (L : List α) (N : List INode) (E : List IEdge),
      (∀ e ∈ L, ∀ y, F e = some y → hasNode (⟨N, E⟩ : Its) y.1 = true ∧ hasNode (⟨N, E⟩ : Its) y.2.1 = true) →
      (∀ e ∈ L, ∀ y, F e = some y → hasEdge (⟨N, E⟩ : Its) y.1 y.2.1 = false) →
      L.Pairwise (fun e f => ∀ y z, F e = some y → F f = some z → samePair y.1 y.2.1 z.1 z.2.1 = false) →
      L.foldl step ⟨N, E⟩ = ⟨N, E ++ L.filterMap F⟩ := by
  intro L
  induction L with
  | nil => intro N E _ _ _; simp
  | cons x xs ih =>
    intro N E hnodes hfresh hpw
    rw [List.pairwise_cons] at hpw
    have hx := hstep N E x (fun y hy =>
      ⟨(hnodes x List.mem_cons_self y hy).1, (hnodes x List.mem_cons_self y hy).2,
        hfresh x List.mem_cons_self y hy⟩)
    rw [List.foldl_cons, hx, List.filterMap_cons]
    cases hF : F x with
    | none =>
      simp only
      exact ih N E (fun z hz => hnodes z (List.mem_cons_of_mem _ hz))
        (fun z hz => hfresh z (List.mem_cons_of_mem _ hz)) hpw.2
    | some y =>
      simp only
      rw [ih N (E ++ [y]) (fun z hz => hnodes z (List.mem_cons_of_mem _ hz)) ?_ hpw.2]
      · simp
      · intro z hz y' hy'
        have h1 := hfresh z (List.mem_cons_of_mem _ hz) y' hy'
        have h2 := hpw.1 z hz y y' hF hy'
        rw [hasEdge_mk] at h1 ⊢
        rw [List.any_append, h1]
        simp [h2]

section steps
variable {G H : Mol}

theorem nodeStepG_eq (hG : Dom G) (hH : Dom H) (N : List INode) (E : List IEdge)
    (x : Int × String × Option Int)
    (hfresh : ∀ y, nodeF G H x = some y → hasNode (⟨N, E⟩ : Its) y.1 = false) :
    nodeStepG G H ⟨N, E⟩ x = match nodeF G H x with | some y => ⟨N ++ [y], E⟩ | none => ⟨N, E⟩ := by
  unfold nodeStepG nodeF at *
  simp only [get_etaFwd hG]
  cases ha : aamOf G x.1 with
  | none => simp
  | some a =>
    by_cases hm : a ∈ mapNums H
    · obtain ⟨h, hh⟩ := mem_mapNums.mp hm
      rw [(get_etaInv hH).mpr hh]
      simp only [hm, if_true]
      apply addNode_fresh
      have := hfresh (a, some x.2.1, some a)
      simp only [ha, hm, if_true, forall_const] at this
      exact this
    · rw [(get_etaInv_none hH).mpr hm]
      simp [hm]

theorem nodeStepH_eq (hG : Dom G) (hH : Dom H) (I : Its)
    (hI : ∀ a, a ∈ mapNums G → a ∈ mapNums H → hasNode I a = true)
    (x : Int × String × Option Int) : nodeStepH G H I x = I := by
  unfold nodeStepH
  simp only [get_etaFwd hH]
  cases ha : aamOf H x.1 with
  | none => simp
  | some a =>
    by_cases hm : a ∈ mapNums G
    · obtain ⟨g, hg⟩ := mem_mapNums.mp hm
      rw [(get_etaInv hG).mpr hg]
      have : a ∈ mapNums H := mem_mapNums.mpr ⟨x.1, (aamOf_some_iff hH).mp ha⟩
      simp [hI a hm this]
    · rw [(get_etaInv_none hG).mpr hm]

theorem edgeStepG_eq (hG : Dom G) (hH : Dom H) (N : List INode) (E : List IEdge)
    (e : Int × Int × Int)
    (hy : ∀ y, edgeFG G H e = some y → hasNode (⟨N, E⟩ : Its) y.1 = true ∧
      hasNode (⟨N, E⟩ : Its) y.2.1 = true ∧ hasEdge (⟨N, E⟩ : Its) y.1 y.2.1 = false) :
    edgeStepG G H ⟨N, E⟩ e = match edgeFG G H e with | some y => ⟨N, E ++ [y]⟩ | none => ⟨N, E⟩ := by
  unfold edgeStepG edgeFG at *
  simp only [get_etaFwd hG]
  cases ha : aamOf G e.1 with
  | none => simp [get]
  | some a =>
    cases hb : aamOf G e.2.1 with
    | none =>
      simp only [get, Option.bind_none]
      split <;> rfl
    | some b =>
      by_cases hma : a ∈ mapNums H
      · by_cases hmb : b ∈ mapNums H
        · obtain ⟨h1, hh1⟩ := mem_mapNums.mp hma
          obtain ⟨h2, hh2⟩ := mem_mapNums.mp hmb
          rw [(get_etaInv hH).mpr hh1, (get_etaInv hH).mpr hh2]
          have hpa : 1 ≤ a := hG.pos a (mem_mapNums.mpr ⟨e.1, (aamOf_some_iff hG).mp ha⟩)
          have hpb : 1 ≤ b := hG.pos b (mem_mapNums.mpr ⟨e.2.1, (aamOf_some_iff hG).mp hb⟩)
          have := hy (a, b, (e.2.2, ordOf H a b))
          simp only [ha, hb, hma, hmb, and_self, if_true, forall_const] at this
          obtain ⟨n1, n2, n3⟩ := this
          simp only [bond_eq_ordOf hH hh1 hh2, n3, hma, hmb, and_self, if_true]
          have d1 : decide (a > 0) = true := by simp; omega
          have d2 : decide (b > 0) = true := by simp; omega
          simp only [d1, d2, Bool.not_false, Bool.and_self, if_true]
          exact addEdge_fresh n1 n2 n3
        · rw [(get_etaInv_none hH).mpr hmb]
          simp only [hmb, and_false, if_false]
          split
          · rename_i h; cases h
          · rfl
      · rw [(get_etaInv_none hH).mpr hma]
        simp [hma]

theorem edgeStepH_eq (hG : Dom G) (hH : Dom H) (N : List INode) (E : List IEdge)
    (e : Int × Int × Int)
    (hy : ∀ y, edgeFH G H e = some y → hasNode (⟨N, E⟩ : Its) y.1 = true ∧
      hasNode (⟨N, E⟩ : Its) y.2.1 = true ∧ hasEdge (⟨N, E⟩ : Its) y.1 y.2.1 = false) :
    edgeStepH G H ⟨N, E⟩ e = match edgeFH G H e with | some y => ⟨N, E ++ [y]⟩ | none => ⟨N, E⟩ := by
  unfold edgeStepH edgeFH at *
  simp only [get_etaFwd hH]
  cases ha : aamOf H e.1 with
  | none => simp [get]
  | some a =>
    cases hb : aamOf H e.2.1 with
    | none =>
      simp only [get, Option.bind_none]
      split <;> rfl
    | some b =>
      by_cases hma : a ∈ mapNums G
      · by_cases hmb : b ∈ mapNums G
        · obtain ⟨g1, hg1⟩ := mem_mapNums.mp hma
          obtain ⟨g2, hg2⟩ := mem_mapNums.mp hmb
          rw [(get_etaInv hG).mpr hg1, (get_etaInv hG).mpr hg2]
          have hpa : 1 ≤ a := hH.pos a (mem_mapNums.mpr ⟨e.1, (aamOf_some_iff hH).mp ha⟩)
          have hpb : 1 ≤ b := hH.pos b (mem_mapNums.mpr ⟨e.2.1, (aamOf_some_iff hH).mp hb⟩)
          have d1 : decide (a > 0) = true := by simp; omega
          have d2 : decide (b > 0) = true := by simp; omega
          simp only [hasEdge_eq_bonded hG hg1 hg2, d1, d2, Bool.and_true, hma, hmb, true_and]
          cases hbd : G.edges.any (joins G a b) with
          | true => simp
          | false =>
            have := hy (a, b, (0, e.2.2))
            simp only [ha, hb, hma, hmb, hbd, and_self, if_true, forall_const] at this
            obtain ⟨n1, n2, n3⟩ := this
            simp only [Bool.not_false, if_true]
            exact addEdge_fresh n1 n2 n3
        · rw [(get_etaInv_none hG).mpr hmb]
          simp only [hmb, false_and, and_false, if_false]
          split
          · rename_i h; cases h
          · rfl
      · rw [(get_etaInv_none hG).mpr hma]
        simp [hma]

theorem nodeF_some {x : Int × String × Option Int} {y : INode} (h : nodeF G H x = some y) :
    ∃ a, aamOf G x.1 = some a ∧ a ∈ mapNums H ∧ y = (a, some x.2.1, some a) := by
  unfold nodeF at h
  cases ha : aamOf G x.1 with
  | none => rw [ha] at h; cases h
  | some a =>
    rw [ha] at h
    simp only at h
    by_cases hm : a ∈ mapNums H
    · rw [if_pos hm] at h; cases h; exact ⟨a, rfl, hm, rfl⟩
    · rw [if_neg hm] at h; cases h

theorem edgeFG_some {e : Int × Int × Int} {y : IEdge} (h : edgeFG G H e = some y) :
    ∃ a b, aamOf G e.1 = some a ∧ aamOf G e.2.1 = some b ∧ a ∈ mapNums H ∧ b ∈ mapNums H ∧
      y = (a, b, (e.2.2, ordOf H a b)) := by
  unfold edgeFG at h
  cases ha : aamOf G e.1 with
  | none => rw [ha] at h; cases h
  | some a =>
    cases hb : aamOf G e.2.1 with
    | none => rw [ha, hb] at h; cases h
    | some b =>
      rw [ha, hb] at h
      simp only at h
      by_cases hm : a ∈ mapNums H ∧ b ∈ mapNums H
      · rw [if_pos hm] at h; cases h; exact ⟨a, b, rfl, rfl, hm.1, hm.2, rfl⟩
      · rw [if_neg hm] at h; cases h

theorem edgeFH_some {e : Int × Int × Int} {y : IEdge} (h : edgeFH G H e = some y) :
    ∃ a b, aamOf H e.1 = some a ∧ aamOf H e.2.1 = some b ∧ a ∈ mapNums G ∧ b ∈ mapNums G ∧
      G.edges.any (joins G a b) = false ∧ y = (a, b, (0, e.2.2)) := by
  unfold edgeFH at h
  cases ha : aamOf H e.1 with
  | none => rw [ha] at h; cases h
  | some a =>
    cases hb : aamOf H e.2.1 with
    | none => rw [ha, hb] at h; cases h
    | some b =>
      rw [ha, hb] at h
      simp only at h
      by_cases hm : a ∈ mapNums G ∧ b ∈ mapNums G ∧ G.edges.any (joins G a b) = false
      · rw [if_pos hm] at h; cases h; exact ⟨a, b, rfl, rfl, hm.1, hm.2.1, hm.2.2, rfl⟩
      · rw [if_neg hm] at h; cases h

theorem nodes_present (hG : Dom G) {a : Int} (ha : a ∈ mapNums G) (hb : a ∈ mapNums H) (E : List IEdge) :
    hasNode (⟨G.nodes.filterMap (nodeF G H), E⟩ : Its) a = true := by
  obtain ⟨n, s, hx⟩ := mem_mapNums.mp ha
  rw [hasNode_mk, List.any_eq_true]
  refine ⟨(a, some s, some a), ?_, by simp⟩
  rw [List.mem_filterMap]
  refine ⟨(n, s, some a), hx, ?_⟩
  unfold nodeF
  rw [aamOf_of_mem hG hx]
  simp [hb]

theorem foldl_const {α β} (step : β → α → β) (I : β) (h : ∀ x, step I x = I) (L : List α) :
    L.foldl step I = I := by
  induction L with
  | nil => rfl
  | cons x xs ih => rw [List.foldl_cons, h, ih]

/-- **the loops in closed form**: nodes from the reactant's node list, edges from the reactant's
    edge list followed by the product-only edges -/
theorem getIts_closed (hG : Dom G) (hH : Dom H) :
    getIts G H = ⟨G.nodes.filterMap (nodeF G H),
      G.edges.filterMap (edgeFG G H) ++ H.edges.filterMap (edgeFH G H)⟩ := by
  unfold getIts addItsEdges addItsNodes
  have h1 : G.nodes.foldl (nodeStepG G H) ({} : Its) = ⟨G.nodes.filterMap (nodeF G H), []⟩ := by
    have := foldl_addNodes (nodeF G H) (nodeStepG G H) (nodeStepG_eq hG hH) G.nodes [] []
      (fun _ _ _ _ => rfl) ?_
    · simpa using this
    · refine hG.ids.imp ?_
      intro x x' hne y y' hy hy' heq
      obtain ⟨a, ha, _, rfl⟩ := nodeF_some hy
      obtain ⟨a', ha', _, rfl⟩ := nodeF_some hy'
      simp only at heq
      subst heq
      exact hne (hasAam_inj hG ((aamOf_some_iff hG).mp ha) ((aamOf_some_iff hG).mp ha'))
  rw [h1]
  rw [foldl_const _ _ (nodeStepH_eq hG hH _ (fun a ha hb => nodes_present hG ha hb []))]
  have h2 := foldl_addEdges (edgeFG G H) (edgeStepG G H) (edgeStepG_eq hG hH) G.edges
    (G.nodes.filterMap (nodeF G H)) [] ?_ (fun _ _ _ _ => rfl) ?_
  · rw [h2, List.nil_append]
    have h3 := foldl_addEdges (edgeFH G H) (edgeStepH G H) (edgeStepH_eq hG hH) H.edges
      (G.nodes.filterMap (nodeF G H)) (G.edges.filterMap (edgeFG G H)) ?_ ?_ ?_
    · exact h3
    · intro e _ y hy
      obtain ⟨a, b, ha, hb, hma, hmb, _, rfl⟩ := edgeFH_some hy
      exact ⟨nodes_present hG hma (mem_mapNums.mpr ⟨_, (aamOf_some_iff hH).mp ha⟩) _,
        nodes_present hG hmb (mem_mapNums.mpr ⟨_, (aamOf_some_iff hH).mp hb⟩) _⟩
    · intro e _ y hy
      obtain ⟨a, b, ha, hb, hma, hmb, hnb, rfl⟩ := edgeFH_some hy
      rw [hasEdge_mk, List.any_eq_false]
      intro x hx hsp
      rw [List.mem_filterMap] at hx
      obtain ⟨f, hf, hfx⟩ := hx
      obtain ⟨a', b', ha', hb', _, _, rfl⟩ := edgeFG_some hfx
      simp only at hsp
      -- `f` joins the atoms numbered `a`, `b` in `G`: contradiction with "not bonded"
      have hj : joins G a b f = true := by
        rw [samePair_iff] at hsp
        rcases hsp with ⟨rfl, rfl⟩ | ⟨rfl, rfl⟩
        · exact joins_of_aams ha' hb'
        · rw [joins_comm]; exact joins_of_aams ha' hb'
      exact (List.any_eq_false.mp hnb f hf) hj
    · refine hH.simple.imp ?_
      intro e f hne y z hy hz
      obtain ⟨a, b, ha, hb, _, _, _, rfl⟩ := edgeFH_some hy
      obtain ⟨a', b', ha', hb', _, _, _, rfl⟩ := edgeFH_some hz
      simp only
      cases hsp : samePair a b a' b' with
      | false => rfl
      | true => exact absurd (aam_pair_inj hH ha hb ha' hb' hsp) hne
  · intro e _ y hy
    obtain ⟨a, b, ha, hb, hma, hmb, rfl⟩ := edgeFG_some hy
    exact ⟨nodes_present hG (mem_mapNums.mpr ⟨_, (aamOf_some_iff hG).mp ha⟩) hma _,
      nodes_present hG (mem_mapNums.mpr ⟨_, (aamOf_some_iff hG).mp hb⟩) hmb _⟩
  · refine hG.simple.imp ?_
    intro e f hne y z hy hz
    obtain ⟨a, b, ha, hb, _, _, rfl⟩ := edgeFG_some hy
    obtain ⟨a', b', ha', hb', _, _, rfl⟩ := edgeFG_some hz
    simp only
    cases hsp : samePair a b a' b' with
    | false => rfl
    | true => exact absurd (aam_pair_inj hG ha hb ha' hb' hsp) hne

/-- the ITS graph is a simple graph: at most one edge per unordered pair of nodes -/
theorem getIts_simple (hG : Dom G) (hH : Dom H) :
    (getIts G H).edges.Pairwise (fun e f => ¬ samePair e.1 e.2.1 f.1 f.2.1 = true) := by
  rw [getIts_closed hG hH]
  simp only
  rw [List.pairwise_append]
  refine ⟨?_, ?_, ?_⟩
  · rw [List.pairwise_filterMap]
    refine hG.simple.imp ?_
    intro e f hne y hy z hz hsp
    obtain ⟨a, b, ha, hb, _, _, rfl⟩ := edgeFG_some hy
    obtain ⟨a', b', ha', hb', _, _, rfl⟩ := edgeFG_some hz
    exact hne (aam_pair_inj hG ha hb ha' hb' hsp)
  · rw [List.pairwise_filterMap]
    refine hH.simple.imp ?_
    intro e f hne y hy z hz hsp
    obtain ⟨a, b, ha, hb, _, _, _, rfl⟩ := edgeFH_some hy
    obtain ⟨a', b', ha', hb', _, _, _, rfl⟩ := edgeFH_some hz
    exact hne (aam_pair_inj hH ha hb ha' hb' hsp)
  · intro x hx y hy hsp
    rw [List.mem_filterMap] at hx hy
    obtain ⟨f, hf, hfx⟩ := hx
    obtain ⟨e, _, hey⟩ := hy
    obtain ⟨a', b', ha', hb', _, _, rfl⟩ := edgeFG_some hfx
    obtain ⟨a, b, _, _, _, _, hnb, rfl⟩ := edgeFH_some hey
    simp only at hsp
    have hj : joins G a b f = true := by
      rw [samePair_iff] at hsp
      rcases hsp with ⟨rfl, rfl⟩ | ⟨rfl, rfl⟩
      · exact joins_of_aams ha' hb'
      · rw [joins_comm]; exact joins_of_aams ha' hb'
    exact (List.any_eq_false.mp hnb f hf) hj

/-- the ITS graph's node ids are pairwise distinct -/
theorem getIts_ids (hG : Dom G) (hH : Dom H) :
    (getIts G H).nodes.Pairwise (fun x y => x.1 ≠ y.1) := by
  rw [getIts_closed hG hH]
  simp only
  rw [List.pairwise_filterMap]
  refine hG.ids.imp ?_
  intro x x' hne y hy y' hy' heq
  obtain ⟨a, ha, _, rfl⟩ := nodeF_some hy
  obtain ⟨a', ha', _, rfl⟩ := nodeF_some hy'
  simp only at heq
  subst heq
  exact hne (hasAam_inj hG ((aamOf_some_iff hG).mp ha) ((aamOf_some_iff hG).mp ha'))

end steps

/-! ### the abstract view and the specification -/

/-- abstract (order- and orientation-free) view of a graph: its node set (id, attributes, map
    number) and its set of undirected labelled edges -/
structure Abs (σ β : Type) where
  node : Int × σ × Option Int → Prop
  edge : Int → Int → β → Prop

/-- `(a, b, l)` is an undirected edge of the edge list `E` -/
def UE {β} (E : List (Int × Int × β)) (a b : Int) (l : β) : Prop := (a, b, l) ∈ E ∨ (b, a, l) ∈ E

def view {σ β} (I : Gr σ β) : Abs σ β := ⟨fun x => x ∈ I.nodes, fun a b l => UE I.edges a b l⟩

theorem UE_symm {β} {E : List (Int × Int × β)} {a b : Int} {l : β} : UE E a b l ↔ UE E b a l := Or.comm

theorem view_eq_iff {σ β} (I J : Gr σ β) :
    view I = view J ↔ (∀ x, x ∈ I.nodes ↔ x ∈ J.nodes) ∧ (∀ a b l, UE I.edges a b l ↔ UE J.edges a b l) := by
  constructor
  · intro h
    simp only [view, Abs.mk.injEq] at h
    exact ⟨fun x => by rw [← eq_iff_iff]; exact congrFun h.1 x,
      fun a b l => by rw [← eq_iff_iff]; exact congrFun (congrFun (congrFun h.2 a) b) l⟩
  · rintro ⟨h1, h2⟩
    simp only [view, Abs.mk.injEq]
    exact ⟨funext fun x => propext (h1 x), funext fun a => funext fun b => funext fun l => propext (h2 a b l)⟩

/-- **the specification**, on atom-map numbers only: one node per map number `≥ 1` present on both
    sides, carrying `G`'s symbol and that number; for every pair of such numbers the label
    `(ord_G, ord_H)` (0 = not bonded), the edge being present iff not both are 0.  Neither node
    ids nor any order occur (see `specNodes`, `specEdges`, `symOf`, `ordOf` in Model/C09.lean and
    the characterisations `itsSpec_node`, `itsSpec_edge` below). -/
def itsSpec (G H : Mol) : Abs (Option String) (Int × Int) :=
  view (⟨specNodes G H, specEdges G H⟩ : Its)

section spec
variable {G H : Mol}

theorem mem_specNums {a : Int} : a ∈ specNums G H ↔ a ∈ mapNums G ∧ 1 ≤ a ∧ a ∈ mapNums H := by
  simp [specNums, List.mem_filter]

theorem mem_specNodes {x : INode} :
    x ∈ specNodes G H ↔ ∃ a, a ∈ specNums G H ∧ x = (a, symOf G a, some a) := by
  simp only [specNodes, List.mem_map]
  constructor
  · rintro ⟨a, ha, rfl⟩; exact ⟨a, ha, rfl⟩
  · rintro ⟨a, ha, rfl⟩; exact ⟨a, ha, rfl⟩

theorem mem_specEdges {a b : Int} {l : Int × Int} :
    (a, b, l) ∈ specEdges G H ↔ a ∈ specNums G H ∧ b ∈ specNums G H ∧
      l = (ordOf G a b, ordOf H a b) ∧ ¬ (ordOf G a b = 0 ∧ ordOf H a b = 0) := by
  simp only [specEdges, List.mem_flatMap, List.mem_filterMap]
  constructor
  · rintro ⟨a', ha', b', hb', h⟩
    by_cases hz : ordOf G a' b' = 0 ∧ ordOf H a' b' = 0
    · rw [if_pos hz] at h; cases h
    · rw [if_neg hz] at h
      simp only [Option.some.injEq, Prod.mk.injEq] at h
      obtain ⟨rfl, rfl, rfl⟩ := h
      exact ⟨ha', hb', rfl, hz⟩
  · rintro ⟨ha, hb, rfl, hz⟩
    exact ⟨a, ha, b, hb, by rw [if_neg hz]⟩

/-- the specification's node set, spelled out -/
theorem itsSpec_node (x : INode) :
    (itsSpec G H).node x ↔ ∃ a, a ∈ mapNums G ∧ 1 ≤ a ∧ a ∈ mapNums H ∧ x = (a, symOf G a, some a) := by
  show x ∈ specNodes G H ↔ _
  rw [mem_specNodes]
  constructor
  · rintro ⟨a, ha, rfl⟩
    obtain ⟨h1, h2, h3⟩ := mem_specNums.mp ha
    exact ⟨a, h1, h2, h3, rfl⟩
  · rintro ⟨a, h1, h2, h3, rfl⟩
    exact ⟨a, mem_specNums.mpr ⟨h1, h2, h3⟩, rfl⟩

theorem specEdges_symm {a b : Int} {l : Int × Int} (h : (a, b, l) ∈ specEdges G H) :
    (b, a, l) ∈ specEdges G H := by
  rw [mem_specEdges] at h ⊢
  obtain ⟨ha, hb, rfl, hz⟩ := h
  rw [ordOf_comm G b a, ordOf_comm H b a]
  exact ⟨hb, ha, rfl, hz⟩

/-- the specification's edge set, spelled out -/
theorem itsSpec_edge (a b : Int) (l : Int × Int) :
    (itsSpec G H).edge a b l ↔ a ∈ specNums G H ∧ b ∈ specNums G H ∧
      l = (ordOf G a b, ordOf H a b) ∧ ¬ (ordOf G a b = 0 ∧ ordOf H a b = 0) := by
  show UE (specEdges G H) a b l ↔ _
  rw [← mem_specEdges]
  exact ⟨fun h => h.elim id specEdges_symm, Or.inl⟩

theorem joins_iff {a b : Int} {e : Int × Int × Int} :
    joins G a b e = true ↔ (aamOf G e.1 = some a ∧ aamOf G e.2.1 = some b) ∨
      (aamOf G e.1 = some b ∧ aamOf G e.2.1 = some a) := by
  simp [joins]

theorem ordOf_ne_zero {a b : Int} (h : ordOf G a b ≠ 0) :
    ∃ e ∈ G.edges, joins G a b e = true ∧ ordOf G a b = e.2.2 := by
  unfold ordOf at h ⊢
  cases hf : G.edges.find? (joins G a b) with
  | none => rw [hf] at h; exact absurd rfl h
  | some e => exact ⟨e, List.mem_of_find?_eq_some hf, List.find?_some hf, rfl⟩

theorem not_bonded_comm {a b : Int} (h : G.edges.any (joins G a b) = false) :
    G.edges.any (joins G b a) = false := by
  rw [← h]; exact any_congr' fun e _ => joins_comm G b a e

/-- every edge the loops produce is an edge of the specification -/
theorem closed_sub_spec (hG : Dom G) (hH : Dom H) {a b : Int} {l : Int × Int}
    (h : (a, b, l) ∈ G.edges.filterMap (edgeFG G H) ++ H.edges.filterMap (edgeFH G H)) :
    (a, b, l) ∈ specEdges G H := by
  rw [List.mem_append, List.mem_filterMap, List.mem_filterMap] at h
  rw [mem_specEdges]
  rcases h with ⟨e, he, hF⟩ | ⟨e, he, hF⟩
  · obtain ⟨a', b', ha, hb, hma, hmb, heq⟩ := edgeFG_some hF
    simp only [Prod.mk.injEq] at heq
    obtain ⟨rfl, rfl, rfl⟩ := heq
    have ha' := mem_mapNums.mpr ⟨_, (aamOf_some_iff hG).mp ha⟩
    have hb' := mem_mapNums.mpr ⟨_, (aamOf_some_iff hG).mp hb⟩
    have ho := ordOf_of_edge hG he ha hb
    refine ⟨mem_specNums.mpr ⟨ha', hG.pos _ ha', hma⟩, mem_specNums.mpr ⟨hb', hG.pos _ hb', hmb⟩, ?_, ?_⟩
    · rw [ho]
    · rw [ho]; exact fun h => hG.nz e he h.1
  · obtain ⟨a', b', ha, hb, hma, hmb, hnb, heq⟩ := edgeFH_some hF
    simp only [Prod.mk.injEq] at heq
    obtain ⟨rfl, rfl, rfl⟩ := heq
    have ha' := mem_mapNums.mpr ⟨_, (aamOf_some_iff hH).mp ha⟩
    have hb' := mem_mapNums.mpr ⟨_, (aamOf_some_iff hH).mp hb⟩
    have ho := ordOf_of_edge hH he ha hb
    have hz := ordOf_zero_of_not_bonded hnb
    refine ⟨mem_specNums.mpr ⟨hma, hH.pos _ ha', ha'⟩, mem_specNums.mpr ⟨hmb, hH.pos _ hb', hb'⟩, ?_, ?_⟩
    · rw [ho, hz]
    · rw [ho]; exact fun h => hH.nz e he h.2

/-- every edge of the specification is produced by the loops, in one of the two orientations -/
theorem spec_sub_closed (hG : Dom G) {a b : Int} {l : Int × Int}
    (h : (a, b, l) ∈ specEdges G H) :
    UE (G.edges.filterMap (edgeFG G H) ++ H.edges.filterMap (edgeFH G H)) a b l := by
  rw [mem_specEdges] at h
  obtain ⟨ha, hb, rfl, hz⟩ := h
  obtain ⟨hGa, _, hHa⟩ := mem_specNums.mp ha
  obtain ⟨hGb, _, hHb⟩ := mem_specNums.mp hb
  unfold UE
  simp only [List.mem_append, List.mem_filterMap]
  by_cases hg : ordOf G a b = 0
  · have hh : ordOf H a b ≠ 0 := fun h => hz ⟨hg, h⟩
    have hnb := not_bonded_of_ordOf_zero hG hg
    obtain ⟨e, he, hj, ho⟩ := ordOf_ne_zero hh
    rcases joins_iff.mp hj with ⟨h1, h2⟩ | ⟨h1, h2⟩
    · refine Or.inl (Or.inr ⟨e, he, ?_⟩)
      unfold edgeFH
      rw [h1, h2]
      simp only [hGa, hGb, hnb, and_self, if_true, hg, ho]
    · refine Or.inr (Or.inr ⟨e, he, ?_⟩)
      unfold edgeFH
      rw [h1, h2]
      simp only [hGa, hGb, not_bonded_comm hnb, and_self, if_true, hg, ho]
  · obtain ⟨e, he, hj, ho⟩ := ordOf_ne_zero hg
    rcases joins_iff.mp hj with ⟨h1, h2⟩ | ⟨h1, h2⟩
    · refine Or.inl (Or.inl ⟨e, he, ?_⟩)
      unfold edgeFG
      rw [h1, h2]
      simp only [hHa, hHb, and_self, if_true, ho]
    · refine Or.inr (Or.inl ⟨e, he, ?_⟩)
      unfold edgeFG
      rw [h1, h2]
      simp only [hHa, hHb, and_self, if_true, ho, ordOf_comm H b a]

/-- **C09, main theorem.**  For reactant and product graphs with injective atom maps the ITS
    graph built by `get_its` is, as a set of nodes and undirected labelled edges, exactly the
    specification — whatever node ids, node order, edge order and edge orientation the two
    graphs use. -/
theorem its_exact (hG : Dom G) (hH : Dom H) : view (getIts G H) = itsSpec G H := by
  unfold itsSpec
  rw [view_eq_iff, getIts_closed hG hH]
  constructor
  · intro x
    simp only
    rw [List.mem_filterMap, mem_specNodes]
    constructor
    · rintro ⟨x0, hx0, hF⟩
      obtain ⟨a, ha, hm, rfl⟩ := nodeF_some hF
      have hx : x0.2.2 = some a := by rw [← aamOf_of_mem hG hx0]; exact ha
      have hmG := mem_mapNums.mpr ⟨_, (aamOf_some_iff hG).mp ha⟩
      exact ⟨a, mem_specNums.mpr ⟨hmG, hG.pos _ hmG, hm⟩, by rw [symOf_of_mem hG hx0 hx]⟩
    · rintro ⟨a, ha, rfl⟩
      obtain ⟨hmG, _, hmH⟩ := mem_specNums.mp ha
      obtain ⟨n, s, hx⟩ := mem_mapNums.mp hmG
      refine ⟨(n, s, some a), hx, ?_⟩
      unfold nodeF
      rw [aamOf_of_mem hG hx, symOf_of_mem hG hx rfl]
      simp [hmH]
  · intro a b l
    simp only
    constructor
    · rintro (h | h)
      · exact Or.inl (closed_sub_spec hG hH h)
      · exact Or.inr (closed_sub_spec hG hH h)
    · rintro (h | h)
      · exact spec_sub_closed hG h
      · exact UE_symm.mp (spec_sub_closed hG h)

/-! ### the executable checker is sound and complete -/

theorem sameSet_iff {α} [DecidableEq α] (A B : List α) :
    sameSet A B = true ↔ ∀ x, x ∈ A ↔ x ∈ B := by
  simp only [sameSet, Bool.and_eq_true, List.all_eq_true, decide_eq_true_eq]
  exact ⟨fun h x => ⟨h.1 x, h.2 x⟩, fun h => ⟨fun x => (h x).mp, fun x => (h x).mpr⟩⟩

theorem uedgeIn_iff {β} [DecidableEq β] (E : List (Int × Int × β)) (e : Int × Int × β) :
    uedgeIn E e = true ↔ UE E e.1 e.2.1 e.2.2 := by
  simp [uedgeIn, UE]

theorem sameEdges_iff {β} [DecidableEq β] (A B : List (Int × Int × β)) :
    sameEdges A B = true ↔ ∀ a b l, UE A a b l ↔ UE B a b l := by
  simp only [sameEdges, Bool.and_eq_true, List.all_eq_true, uedgeIn_iff]
  constructor
  · rintro ⟨h1, h2⟩ a b l
    constructor
    · rintro (h | h)
      · exact h1 _ h
      · exact UE_symm.mp (h1 _ h)
    · rintro (h | h)
      · exact h2 _ h
      · exact UE_symm.mp (h2 _ h)
  · intro h
    exact ⟨fun e he => (h _ _ _).mp (Or.inl he), fun e he => (h _ _ _).mpr (Or.inl he)⟩

/-- the checker the driver applies to implementation outputs decides the specification -/
theorem specCheck_iff (G H : Mol) (I : Its) : specCheck G H I = true ↔ view I = itsSpec G H := by
  unfold specCheck itsSpec
  rw [Bool.and_eq_true, sameSet_iff, sameEdges_iff, view_eq_iff]

theorem specCheck_sound {G H : Mol} {I : Its} (h : specCheck G H I = true) : view I = itsSpec G H :=
  (specCheck_iff G H I).mp h

/-- the model's output passes the checker -/
theorem specCheck_getIts (hG : Dom G) (hH : Dom H) : specCheck G H (getIts G H) = true :=
  (specCheck_iff G H _).mpr (its_exact hG hH)

/-! ### corollaries -/

/-- **no ghost nodes**: every node of the ITS has a symbol and a map number, is named by that
    number, and the number is present on both sides -/
theorem no_ghost_nodes (hG : Dom G) (hH : Dom H) :
    ∀ x ∈ (getIts G H).nodes, ∃ a s, x = (a, some s, some a) ∧ 1 ≤ a ∧ a ∈ mapNums G ∧ a ∈ mapNums H ∧
      symOf G a = some s := by
  intro x hx
  have h := its_exact hG hH
  unfold itsSpec at h
  rw [view_eq_iff] at h
  obtain ⟨a, ha, rfl⟩ := mem_specNodes.mp ((h.1 x).mp hx)
  obtain ⟨h1, h2, h3⟩ := mem_specNums.mp ha
  obtain ⟨n, s, hn⟩ := mem_mapNums.mp h1
  have hs := symOf_of_mem hG hn rfl
  exact ⟨a, s, by rw [hs], h2, h1, h3, hs⟩

/-- **atoms mapped on one side only contribute nothing**: a number that is missing on one side
    names no node and is no end point of an edge -/
theorem one_sided_atoms_contribute_nothing (hG : Dom G) (hH : Dom H) {a : Int}
    (ha : a ∉ mapNums G ∨ a ∉ mapNums H) :
    (∀ x ∈ (getIts G H).nodes, x.1 ≠ a) ∧ (∀ e ∈ (getIts G H).edges, e.1 ≠ a ∧ e.2.1 ≠ a) := by
  have h := its_exact hG hH
  unfold itsSpec at h
  rw [view_eq_iff] at h
  have hn : a ∉ specNums G H := fun hm => by
    obtain ⟨h1, _, h3⟩ := mem_specNums.mp hm
    exact ha.elim (fun h => h h1) (fun h => h h3)
  constructor
  · intro x hx hxa
    obtain ⟨a', ha', rfl⟩ := mem_specNodes.mp ((h.1 x).mp hx)
    exact hn (hxa ▸ ha')
  · intro e he
    have := (h.2 e.1 e.2.1 e.2.2).mp (Or.inl he)
    have h' : (e.1, e.2.1, e.2.2) ∈ specEdges G H := this.elim id specEdges_symm
    obtain ⟨h1, h2, _⟩ := mem_specEdges.mp h'
    exact ⟨fun hq => hn (hq ▸ h1), fun hq => hn (hq ▸ h2)⟩

end spec

/-! ### renumbering invariance -/

/-- `G'` is `G` with its node ids renamed by the injective `π`, its node list and its edge list
    in any order, every edge in any orientation (only *membership* is related) -/
structure Renamed (π : Int → Int) (G G' : Mol) : Prop where
  inj : ∀ x y, π x = π y → x = y
  nodes : ∀ n s a, (n, s, a) ∈ G'.nodes ↔ ∃ m, (m, s, a) ∈ G.nodes ∧ n = π m
  edges : ∀ u v l, UE G'.edges u v l ↔ ∃ u0 v0, UE G.edges u0 v0 l ∧ u = π u0 ∧ v = π v0

section ren
variable {G G' : Mol} {π : Int → Int}

theorem ordOf_eq_iff (hG : Dom G) {a b l : Int} (hl : l ≠ 0) :
    ordOf G a b = l ↔ ∃ u v, UE G.edges u v l ∧ aamOf G u = some a ∧ aamOf G v = some b := by
  constructor
  · intro h
    obtain ⟨e, he, hj, ho⟩ := ordOf_ne_zero (h ▸ hl)
    rw [h] at ho
    rcases joins_iff.mp hj with ⟨h1, h2⟩ | ⟨h1, h2⟩
    · exact ⟨e.1, e.2.1, Or.inl (by rw [ho]; exact he), h1, h2⟩
    · exact ⟨e.2.1, e.1, Or.inr (by rw [ho]; exact he), h2, h1⟩
  · rintro ⟨u, v, hu | hu, h1, h2⟩
    · exact ordOf_of_edge hG hu h1 h2
    · rw [ordOf_comm]; exact ordOf_of_edge hG hu h2 h1

theorem Renamed.hasAam_iff (r : Renamed π G G') {n a : Int} :
    HasAam G' n a ↔ ∃ m, HasAam G m a ∧ n = π m := by
  unfold HasAam
  constructor
  · rintro ⟨s, hs⟩
    obtain ⟨m, hm, rfl⟩ := (r.nodes n s (some a)).mp hs
    exact ⟨m, ⟨s, hm⟩, rfl⟩
  · rintro ⟨m, ⟨s, hm⟩, rfl⟩
    exact ⟨s, (r.nodes _ s (some a)).mpr ⟨m, hm, rfl⟩⟩

theorem Renamed.mapNums_iff (r : Renamed π G G') {a : Int} : a ∈ mapNums G' ↔ a ∈ mapNums G := by
  rw [mem_mapNums, mem_mapNums]
  constructor
  · rintro ⟨n, hn⟩
    obtain ⟨m, hm, _⟩ := r.hasAam_iff.mp hn
    exact ⟨m, hm⟩
  · rintro ⟨m, hm⟩
    exact ⟨π m, r.hasAam_iff.mpr ⟨m, hm, rfl⟩⟩

theorem Renamed.symOf_eq (r : Renamed π G G') (hG : Dom G) (hG' : Dom G') {a : Int} (ha : a ∈ mapNums G) :
    symOf G' a = symOf G a := by
  obtain ⟨n, s, hn⟩ := mem_mapNums.mp ha
  rw [symOf_of_mem hG hn rfl, symOf_of_mem hG' ((r.nodes (π n) s (some a)).mpr ⟨n, hn, rfl⟩) rfl]

theorem Renamed.aamOf_eq (r : Renamed π G G') (hG : Dom G) (hG' : Dom G') (m : Int) :
    aamOf G' (π m) = aamOf G m := by
  apply Option.ext
  intro a
  rw [aamOf_some_iff hG', aamOf_some_iff hG, r.hasAam_iff]
  constructor
  · rintro ⟨m', hm', he⟩
    rw [r.inj _ _ he]; exact hm'
  · intro h; exact ⟨m, h, rfl⟩

theorem Renamed.ordRel (r : Renamed π G G') (hG : Dom G) (hG' : Dom G') {a b l : Int} :
    (∃ u v, UE G'.edges u v l ∧ aamOf G' u = some a ∧ aamOf G' v = some b) ↔
    (∃ u v, UE G.edges u v l ∧ aamOf G u = some a ∧ aamOf G v = some b) := by
  constructor
  · rintro ⟨u, v, hu, h1, h2⟩
    obtain ⟨u0, v0, h0, rfl, rfl⟩ := (r.edges u v l).mp hu
    rw [r.aamOf_eq hG hG'] at h1 h2
    exact ⟨u0, v0, h0, h1, h2⟩
  · rintro ⟨u0, v0, h0, h1, h2⟩
    refine ⟨π u0, π v0, (r.edges _ _ l).mpr ⟨u0, v0, h0, rfl, rfl⟩, ?_, ?_⟩
    · rw [r.aamOf_eq hG hG']; exact h1
    · rw [r.aamOf_eq hG hG']; exact h2

theorem Renamed.ordOf_eq (r : Renamed π G G') (hG : Dom G) (hG' : Dom G') (a b : Int) :
    ordOf G' a b = ordOf G a b := by
  by_cases h : ordOf G a b = 0
  · rw [h]
    apply Classical.byContradiction
    intro h'
    have := (r.ordRel hG hG').mp ((ordOf_eq_iff hG' h').mp rfl)
    exact h' (((ordOf_eq_iff hG h').mpr this) ▸ h)
  · exact (ordOf_eq_iff hG' h).mpr ((r.ordRel hG hG').mpr ((ordOf_eq_iff hG h).mp rfl))

/-- the specification does not see node ids, list orders or edge orientations -/
theorem itsSpec_renamed {H H' : Mol} {ρ : Int → Int} (hG : Dom G) (hH : Dom H) (hG' : Dom G')
    (hH' : Dom H') (rG : Renamed π G G') (rH : Renamed ρ H H') : itsSpec G' H' = itsSpec G H := by
  have hnums : ∀ a, a ∈ specNums G' H' ↔ a ∈ specNums G H := fun a => by
    rw [mem_specNums, mem_specNums, rG.mapNums_iff, rH.mapNums_iff]
  unfold itsSpec
  rw [view_eq_iff]
  constructor
  · intro x
    simp only
    rw [mem_specNodes, mem_specNodes]
    constructor
    · rintro ⟨a, ha, rfl⟩
      have ha' := (hnums a).mp ha
      exact ⟨a, ha', by rw [rG.symOf_eq hG hG' (mem_specNums.mp ha').1]⟩
    · rintro ⟨a, ha, rfl⟩
      exact ⟨a, (hnums a).mpr ha, by rw [rG.symOf_eq hG hG' (mem_specNums.mp ha).1]⟩
  · intro a b l
    have key : (a, b, l) ∈ specEdges G' H' ↔ (a, b, l) ∈ specEdges G H := by
      rw [mem_specEdges, mem_specEdges, hnums, hnums, rG.ordOf_eq hG hG', rH.ordOf_eq hH hH']
    have key' : (b, a, l) ∈ specEdges G' H' ↔ (b, a, l) ∈ specEdges G H := by
      rw [mem_specEdges, mem_specEdges, hnums, hnums, rG.ordOf_eq hG hG', rH.ordOf_eq hH hH']
    simp only [UE, key, key']

/-- **renumbering invariance.**  Renaming the node ids of either side by any injective map and
    listing nodes and edges in any order and orientation leaves the ITS graph (as a set of nodes
    named by map number and of undirected labelled edges) unchanged. -/
theorem renumbering_invariant {H H' : Mol} {ρ : Int → Int} (hG : Dom G) (hH : Dom H) (hG' : Dom G')
    (hH' : Dom H') (rG : Renamed π G G') (rH : Renamed ρ H H') :
    view (getIts G' H') = view (getIts G H) := by
  rw [its_exact hG' hH', its_exact hG hH, itsSpec_renamed hG hH hG' hH' rG rH]

/-- a renaming that really renames, reverses both lists and flips every edge -/
def renameFlip (π : Int → Int) (G : Mol) : Mol :=
  ⟨(G.nodes.map fun x => (π x.1, x.2.1, x.2.2)).reverse,
   (G.edges.map fun e => (π e.2.1, π e.1, e.2.2)).reverse⟩

theorem renamed_renameFlip (hπ : ∀ x y, π x = π y → x = y) (G : Mol) : Renamed π G (renameFlip π G) := by
  refine ⟨hπ, ?_, ?_⟩
  · intro n s a
    simp only [renameFlip, List.mem_reverse, List.mem_map]
    constructor
    · rintro ⟨⟨m, s', a'⟩, hm, h⟩
      simp only [Prod.mk.injEq] at h
      obtain ⟨rfl, rfl, rfl⟩ := h
      exact ⟨m, hm, rfl⟩
    · rintro ⟨m, hm, rfl⟩
      exact ⟨(m, s, a), hm, rfl⟩
  · intro u v l
    simp only [renameFlip, UE, List.mem_reverse, List.mem_map]
    constructor
    · rintro (⟨⟨u0, v0, l0⟩, he, h⟩ | ⟨⟨u0, v0, l0⟩, he, h⟩)
      · simp only [Prod.mk.injEq] at h
        obtain ⟨rfl, rfl, rfl⟩ := h
        exact ⟨v0, u0, Or.inr he, rfl, rfl⟩
      · simp only [Prod.mk.injEq] at h
        obtain ⟨rfl, rfl, rfl⟩ := h
        exact ⟨u0, v0, Or.inl he, rfl, rfl⟩
    · rintro ⟨u0, v0, he | he, rfl, rfl⟩
      · exact Or.inr ⟨(u0, v0, l), he, rfl⟩
      · exact Or.inl ⟨(v0, u0, l), he, rfl⟩

end ren

/-! ### non-vacuity (tests on a concrete reaction; not part of the proofs)

  Reactant: ids 5,3,1,8 inserted in that order, map numbers 2,1,3,9, networkx-style edge list
  with the larger id first; product: other ids, atom 9 missing (one-sided), an unmapped N. -/

def G1 : Mol := ⟨[(5, "C", some 2), (3, "O", some 1), (1, "C", some 3), (8, "Cl", some 9)],
  [(5, 3, 2), (5, 1, 4), (8, 1, 2)]⟩
def H1 : Mol := ⟨[(0, "O", some 1), (1, "C", some 2), (2, "C", some 3), (7, "N", none)],
  [(1, 0, 2), (2, 0, 2), (7, 2, 2)]⟩

example : Dom G1 ∧ Dom H1 := ⟨dom_of_domOk (by decide), dom_of_domOk (by decide)⟩
example : view (getIts G1 H1) = itsSpec G1 H1 := its_exact (dom_of_domOk (by decide)) (dom_of_domOk (by decide))
example : (canonIts (getIts G1 H1)).nodes = [(1, some "O", some 1), (2, some "C", some 2), (3, some "C", some 3)] := by decide
example : (canonIts (getIts G1 H1)).edges = [(1, 2, (2, 2)), (1, 3, (0, 2)), (2, 3, (4, 0))] := by decide
example : specCheck G1 H1 (getIts G1 H1) = true := by decide
-- a wrong answer is rejected by the checker: the dropped edge of defect F7b, the ghost node of F7a
example : specCheck G1 H1 ⟨(getIts G1 H1).nodes, [(2, 1, (2, 2)), (1, 3, (0, 2))]⟩ = false := by decide
example : specCheck G1 H1 ⟨(getIts G1 H1).nodes ++ [(9, none, none)], (getIts G1 H1).edges ++ [(9, 3, (2, 0))]⟩ = false := by decide
example : view (getIts (renameFlip (· + 10) G1) (renameFlip (fun n => 2 * n + 1) H1)) = view (getIts G1 H1) :=
  renumbering_invariant (dom_of_domOk (by decide)) (dom_of_domOk (by decide)) (dom_of_domOk (by decide))
    (dom_of_domOk (by decide)) (renamed_renameFlip (by intro x y h; omega) G1)
    (renamed_renameFlip (by intro x y h; omega) H1)
example : (∀ x ∈ (getIts G1 H1).nodes, x.1 ≠ 9) ∧ (∀ e ∈ (getIts G1 H1).edges, e.1 ≠ 9 ∧ e.2.1 ≠ 9) :=
  one_sided_atoms_contribute_nothing (dom_of_domOk (by decide)) (dom_of_domOk (by decide)) (Or.inr (by decide))

/-! ### the two halves of defect F7 (repaired by abbd97b), as models, refuted on their witnesses

  `skip`: the `if n1 > n2: continue` at the head of both edge loops; `noGuard`: the reactant
  loop without `if n_H1 is None or n_H2 is None: continue`. -/
namespace Unrepaired

def edgeStepG0 (skip noGuard : Bool) (G H : Mol) (I : Its) (e : Int × Int × Int) : Its :=
  if skip && decide (e.1 > e.2.1) then I else
  let nITS1 := get (etaFwd G) (some e.1)
  let nITS2 := get (etaFwd G) (some e.2.1)
  let nH1 := get (etaInv H) nITS1
  let nH2 := get (etaInv H) nITS2
  if !noGuard && (nH1.isNone || nH2.isNone) then I else
  let eH := match nH1, nH2 with
    | some h1, some h2 => if hasEdge H h1 h2 then bond H h1 h2 else 0
    | _, _ => 0                     -- `H.has_edge(None, x)` is `False`
  match nITS1, nITS2 with
  | some a, some b =>
    if !hasEdge I a b && decide (a > 0) && decide (b > 0) then addEdge I a b (e.2.2, eH) else I
  | _, _ => I

def edgeStepH0 (skip : Bool) (G H : Mol) (I : Its) (e : Int × Int × Int) : Its :=
  if skip && decide (e.1 > e.2.1) then I else edgeStepH G H I e

def getIts0 (skip noGuard : Bool) (G H : Mol) : Its :=
  H.edges.foldl (edgeStepH0 skip G H) (G.edges.foldl (edgeStepG0 skip noGuard G H) (addItsNodes {} G H))

/-- `[C:1][O:2][C:3]>>[C:1][O:2]` -/
def Ga : Mol := ⟨[(0, "C", some 1), (1, "O", some 2), (2, "C", some 3)], [(0, 1, 2), (1, 2, 2)]⟩
def Ha : Mol := ⟨[(0, "C", some 1), (1, "O", some 2)], [(0, 1, 2)]⟩
/-- insertion order not ascending: networkx reports `(5,3)`, `(5,1)` -/
def Gb : Mol := ⟨[(5, "C", some 2), (3, "O", some 1), (1, "C", some 3)], [(5, 3, 2), (5, 1, 4)]⟩
def Hb : Mol := ⟨[(5, "C", some 2), (3, "O", some 1), (1, "C", some 3)], [(5, 3, 2), (3, 1, 2)]⟩

-- with both repairs the variant is the model (tests)
example : (getIts0 false false Ga Ha).nodes = (getIts Ga Ha).nodes ∧ (getIts0 false false Ga Ha).edges = (getIts Ga Ha).edges := by decide
example : (getIts0 false false Gb Hb).edges = (getIts Gb Hb).edges := by decide
example : domOk Ga && domOk Ha && domOk Gb && domOk Hb = true := by decide
/-- F7a: without the guard the ITS of the witness has the symbol-less node 3 … -/
theorem ghost_node_witness : (3, none, none) ∈ (getIts0 false true Ga Ha).nodes := by decide
/-- … so the property is false for that model, although the inputs are in the domain -/
theorem noGuard_violates : specCheck Ga Ha (getIts0 false true Ga Ha) = false := by decide
/-- F7b: with the order test both bonds of the witness are dropped -/
theorem skip_drops_edges : (getIts0 true false Gb Hb).edges = [] := by decide
theorem skip_violates : specCheck Gb Hb (getIts0 true false Gb Hb) = false := by decide
-- the repaired model is right on both witnesses
example : specCheck Ga Ha (getIts Ga Ha) = true ∧ specCheck Gb Hb (getIts Gb Hb) = true := by decide

end Unrepaired

end C09
