import FGVerif.Proofs.C18Lemmas
import FGVerif.Proofs.C18Induced
import FGVerif.Proofs.C18Prune
import FGVerif.Proofs.C18Batch
/-!
  C18 — tensor conversion round-trips; tensor graph operators match their graph meaning.

  Property theorems (about `Model/C18.lean`, for every ITS graph / tensor graph, no size bound):

  * `C18.periodic_table`   generated `atomic_sym2num` = the reference table of 118 elements; `num2sym ∘ sym2num = id`
  * `C18.roundtrip`        `fromTorch (toTorch I)` is `I` with node order preserved and bonds under id ↦ position
  * `C18.rtCheck_sound`    the executable round-trip check implies the declarative `RoundTrip`
  * `C18.batch`            the list branch converts like its members, with the same transforms
  * `C18.node_induced`, `C18.edge_induced`   tensor subgraph = tensor form of the induced subgraph
  * `C18.prune_exact`, `C18.prune_rc_exact`, `C18.pruneCheck_sound`   (in `Proofs/C18Prune.lean`, radius lemma
    `C18.Reach.powsum_pos_iff_walk` in `Proofs/C18Reach.lean`): kept rows = rows within `r` steps of the starts
  * `C18.batch_inverse`    (in `Proofs/C18Batch.lean`) `fromTorchBatch` inverts `batchOf`
-/
namespace C18

/-! ### periodic table -/

/-- **table obligation**: the generated `atomic_sym2num` is the reference table of the 118 elements
    (as a set of pairs, keys distinct), and `atomic_num2sym` inverts it. -/
theorem periodic_table :
    (∀ p ∈ Gen.atomicSym2Num, p ∈ refTable) ∧ (∀ p ∈ refTable, p ∈ Gen.atomicSym2Num) ∧
    (Gen.atomicSym2Num.map (·.1)).Nodup ∧ refTable.length = 118 ∧
    (∀ p ∈ Gen.atomicSym2Num, num2sym p.2 = some p.1) := by
  decide +kernel

theorem lookup_mem {α β} [BEq α] [LawfulBEq α] : ∀ (l : List (α × β)) (a : α) (b : β),
    l.lookup a = some b → (a, b) ∈ l := by
  intro l
  induction l with
  | nil => intro a b h; simp at h
  | cons kv l ih =>
    obtain ⟨k, v⟩ := kv
    intro a b h
    rw [List.lookup_cons] at h
    split at h
    · rename_i hak
      have : a = k := by simpa using hak
      subst this
      simp only [Option.some.injEq] at h
      subst h
      exact List.mem_cons_self
    · exact List.mem_cons_of_mem _ (ih a b h)

/-- `atomic_num2sym[atomic_sym2num[s]] = s` for every symbol of the (generated) table -/
theorem num2sym_sym2num (s : String) (z : Nat) (h : sym2num s = some z) : num2sym z = some s :=
  periodic_table.2.2.2.2 (s, z) (lookup_mem _ _ _ h)

/-- the generated numbers are the reference numbers -/
theorem sym2num_ref (s : String) (z : Nat) (h : sym2num s = some z) : (s, z) ∈ refTable :=
  periodic_table.1 (s, z) (lookup_mem _ _ _ h)

theorem nftDefault_nfDefault (s : String) (h : (sym2num s).isSome = true) :
    nftDefault (nfDefault sym2num s) = s := by
  obtain ⟨z, hz⟩ := Option.isSome_iff_exists.mp h
  simp [nftDefault, nfDefault, hz, num2sym_sym2num s z hz]

/-! ### the declarative round-trip specification -/

/-- `G` is `I` up to the renumbering id ↦ position: node `k` of `G` is `k` and carries the symbol
    of the `k`-th node of `I` (`expectedNodes_getElem?`), and the bonds of `G`, read as undirected
    edges, are exactly the bonds of `I` under id ↦ position with the attribute `ef g h`
    (as multisets: nothing lost, nothing invented, nothing doubled). -/
structure RoundTrip (ef : EF) (I : ITS) (G : NxG) : Prop where
  nodes : G.nodes = expectedNodes I
  bonds : (G.edges.map canonE).Perm ((expectedEdges ef I).map canonE)

theorem numbered_getElem? : ∀ (l : List String) (k i : Nat),
    (numbered k l)[i]? = l[i]?.map fun s => (((k + i : Nat) : Int), some s) := by
  intro l
  induction l with
  | nil => intro k i; simp [numbered]
  | cons s l ih =>
    intro k i
    cases i with
    | zero => simp [numbered]
    | succ i =>
      simp only [numbered, List.getElem?_cons_succ, ih]
      have : k + 1 + i = k + (i + 1) := by omega
      rw [this]

/-- node `k` of the expected graph is `(k, symbol of the k-th node of I)` -/
theorem expectedNodes_getElem? (I : ITS) (k : Nat) :
    (expectedNodes I)[k]? = I.nodes[k]?.map fun n => ((k : Int), some n.2) := by
  simp [expectedNodes, numbered_getElem?, List.getElem?_map, Option.map_map, Function.comp_def]

/-- **soundness of the executable round-trip check** (applied to implementation outputs) -/
theorem rtCheck_sound (ef : EF) (I : ITS) (G : NxG) (h : rtCheck ef I G = true) : RoundTrip ef I G := by
  simp only [rtCheck, Bool.and_eq_true, beq_iff_eq] at h
  refine ⟨h.1, ?_⟩
  have h2 : sortE (G.edges.map canonE) = sortE ((expectedEdges ef I).map canonE) := h.2
  exact (sortE_perm _).symm.trans (h2 ▸ sortE_perm _)

theorem rtCheck_complete (ef : EF) (I : ITS) : rtCheck ef I ⟨expectedNodes I, expectedEdges ef I⟩ = true := by
  simp [rtCheck]

/-- consequences of `RoundTrip` in plain words: every bond of `I` is a bond of `G` … -/
theorem RoundTrip.bond_kept {ef : EF} {I : ITS} {G : NxG} (h : RoundTrip ef I G) :
    ∀ e ∈ I.edges, ∃ e' ∈ G.edges, canonE e' = canonE ((I.pos e.u : Int), (I.pos e.v : Int), ef e.g e.h) := by
  intro e he
  have : canonE ((I.pos e.u : Int), (I.pos e.v : Int), ef e.g e.h) ∈ (expectedEdges ef I).map canonE :=
    List.mem_map.mpr ⟨_, List.mem_map.mpr ⟨e, he, rfl⟩, rfl⟩
  obtain ⟨e', he', h'⟩ := List.mem_map.mp (h.bonds.mem_iff.mpr this)
  exact ⟨e', he', h'⟩

/-- … and every bond of `G` is a bond of `I`; the numbers of bonds agree -/
theorem RoundTrip.bond_from {ef : EF} {I : ITS} {G : NxG} (h : RoundTrip ef I G) :
    (∀ e' ∈ G.edges, ∃ e ∈ I.edges,
      canonE e' = canonE ((I.pos e.u : Int), (I.pos e.v : Int), ef e.g e.h)) ∧
    G.edges.length = I.edges.length := by
  refine ⟨?_, ?_⟩
  · intro e' he'
    have : canonE e' ∈ G.edges.map canonE := List.mem_map.mpr ⟨e', he', rfl⟩
    obtain ⟨x, hx, h'⟩ := List.mem_map.mp (h.bonds.mem_iff.mp this)
    obtain ⟨e, he, rfl⟩ := List.mem_map.mp hx
    exact ⟨e, he, h'.symm⟩
  · have := h.bonds.length_eq
    simpa [expectedEdges] using this

/-! ### `_build_its` on the columns of `_its_to_torch` -/

theorem sameEdge_comm (a b : Int) (e : Int × Int × List Int) : sameEdge a b e = sameEdge b a e := by
  simp only [sameEdge]
  rw [Bool.or_comm]

theorem hasNode_numbered : ∀ (l : List String) (k i : Nat), k ≤ i → i < k + l.length →
    (numbered k l).any (·.1 == (i : Int)) = true := by
  intro l
  induction l with
  | nil => intro k i h1 h2; simp at h2; omega
  | cons s l ih =>
    intro k i h1 h2
    simp only [numbered, List.any_cons, Bool.or_eq_true]
    by_cases hk : k = i
    · left; subst hk; simp
    · right
      apply ih
      · omega
      · simp at h2; omega

/-- adding `(a, b)` and then `(b, a)` with the same attribute to a graph that has both end nodes
    and no `a–b` edge appends exactly one edge -/
theorem addEdge_pair (G : NxG) (a b : Int) (attr : List Int) (ha : G.hasNode a = true)
    (hb : G.hasNode b = true) (hne : ∀ e ∈ G.edges, sameEdge a b e = false) :
    (G.addEdge a b attr).addEdge b a attr = { G with edges := G.edges ++ [(a, b, attr)] } := by
  have hany : G.edges.any (sameEdge a b) = false := by
    rw [List.any_eq_false]
    intro e he
    simp [hne e he]
  have h1 : G.addEdge a b attr = { G with edges := G.edges ++ [(a, b, attr)] } := by
    simp [NxG.addEdge, NxG.touch, ha, hb, hany]
  rw [h1]
  have ha' : NxG.hasNode { G with edges := G.edges ++ [(a, b, attr)] } a = true := ha
  have hb' : NxG.hasNode { G with edges := G.edges ++ [(a, b, attr)] } b = true := hb
  have hmap : G.edges.map (fun e => if sameEdge b a e then (e.1, e.2.1, attr) else e) = G.edges := by
    conv => rhs; rw [← List.map_id G.edges]
    apply List.map_congr_left
    intro e he
    have := hne e he
    rw [sameEdge_comm] at this
    simp [this]
  have hlast : sameEdge b a (a, b, attr) = true := by simp [sameEdge]
  simp [NxG.addEdge, NxG.touch, ha', hb', List.any_append, hlast, hmap]

/-- the key that tells edges of `I` apart: the unordered pair of end nodes -/
def ekey (e : Edge) : Int × Int × List Int := canonE (e.u, e.v, [])

theorem ekey_of_same {d e : Edge} (h : (d.u = e.u ∧ d.v = e.v) ∨ (d.u = e.v ∧ d.v = e.u)) :
    ekey d = ekey e := by
  simp only [ekey, canonE]
  rcases h with ⟨h1, h2⟩ | ⟨h1, h2⟩
  · rw [h1, h2]
  · rw [h1, h2]
    split <;> split <;> first | rfl | (congr 1 <;> try congr 1) <;> omega

/-- the edge `e` of `I` in `G`'s numbering -/
def mE (ef : EF) (I : ITS) (e : Edge) : Int × Int × List Int :=
  ((I.pos e.u : Int), (I.pos e.v : Int), ef e.g e.h)

theorem foldl_build (ef : EF) (I : ITS) (base : List (Int × Option String))
    (hbase : ∀ u ∈ I.ids, base.any (·.1 == (I.pos u : Int)) = true) :
    ∀ (rest done : List Edge),
      (∀ e ∈ done ++ rest, e.u ∈ I.ids ∧ e.v ∈ I.ids) →
      ((done ++ rest).map ekey).Nodup →
      rest.foldl (fun (G : NxG) e => List.foldl (fun (G : NxG) c => G.addEdge c.1.1 c.1.2 c.2) G
          [(((I.pos e.u : Int), (I.pos e.v : Int)), ef e.g e.h),
           (((I.pos e.v : Int), (I.pos e.u : Int)), ef e.g e.h)])
        ({ nodes := base, edges := done.map (mE ef I) } : NxG)
      = ({ nodes := base, edges := (done ++ rest).map (mE ef I) } : NxG) := by
  intro rest
  induction rest with
  | nil => intro done _ _; simp
  | cons e rest ih =>
    intro done hmem hnd
    have he := hmem e (by simp)
    have hstep := addEdge_pair { nodes := base, edges := done.map (mE ef I) }
      (I.pos e.u : Int) (I.pos e.v : Int) (ef e.g e.h) (hbase _ he.1) (hbase _ he.2) (by
        intro x hx
        obtain ⟨d, hd, rfl⟩ := List.mem_map.mp hx
        have hdm := hmem d (by simp [hd])
        apply Bool.eq_false_iff.mpr
        intro hs
        have hk : ekey d = ekey e := by
          apply ekey_of_same
          simp only [sameEdge, mE, Bool.or_eq_true, Bool.and_eq_true, beq_iff_eq] at hs
          rcases hs with ⟨h1, h2⟩ | ⟨h1, h2⟩
          · left
            exact ⟨pos_inj I hdm.1 (by exact_mod_cast h1), pos_inj I hdm.2 (by exact_mod_cast h2)⟩
          · right
            exact ⟨pos_inj I hdm.1 (by exact_mod_cast h1), pos_inj I hdm.2 (by exact_mod_cast h2)⟩
        rw [List.map_append, List.map_cons] at hnd
        have := (List.nodup_append.mp hnd).2.2 (ekey d) (List.mem_map.mpr ⟨d, hd, rfl⟩) (ekey e)
          List.mem_cons_self
        exact this hk)
    simp only [List.foldl_cons, List.foldl_nil]
    rw [hstep]
    have e1 : done.map (mE ef I) ++ [((I.pos e.u : Int), (I.pos e.v : Int), ef e.g e.h)]
        = (done ++ [e]).map (mE ef I) := by simp [mE]
    have := ih (done ++ [e]) (by simpa using hmem) (by simpa using hnd)
    simp only [e1]
    simpa using this

theorem cols_toTorch (nf : NF) (ef : EF) (I : ITS) :
    ((toTorchWith nf ef I).ei.map fun p => ((p.1 : Int), (p.2 : Int))).zip (toTorchWith nf ef I).ea
      = I.edges.flatMap fun e =>
          [(((I.pos e.u : Int), (I.pos e.v : Int)), ef e.g e.h),
           (((I.pos e.v : Int), (I.pos e.u : Int)), ef e.g e.h)] := by
  simp only [toTorchWith, List.map_flatMap, List.map_cons, List.map_nil]
  exact zip_flatMap_pair I.edges _ _ _ _

theorem simple_unfold {I : ITS} (h : I.simple = true) :
    I.ids.Nodup ∧ (∀ e ∈ I.edges, e.u ∈ I.ids ∧ e.v ∈ I.ids ∧ e.u ≠ e.v) ∧ (I.edges.map ekey).Nodup := by
  simp only [ITS.simple, Bool.and_eq_true, decide_eq_true_eq, List.all_eq_true, List.contains_iff_mem,
    bne_iff_ne, ne_eq] at h
  refine ⟨h.1.1, ?_, h.2⟩
  intro e he
  have := h.1.2 e he
  exact ⟨this.1.1, this.1.2, this.2⟩

/-- the conversion to tensors and back, for any transforms that invert each other on the symbols
    of `I`: the result is exactly the expected graph -/
theorem roundtrip_with (nf : NF) (ef : EF) (nft : NFT) (I : ITS) (hs : I.simple = true)
    (he : I.hasEdge = true) (hinv : ∀ n ∈ I.nodes, nft (nf n.2) = n.2) :
    fromTorchWith nft (toTorchWith nf ef I)
      = some { nodes := expectedNodes I, edges := expectedEdges ef I } := by
  obtain ⟨hnd, hedges, hkeys⟩ := simple_unfold hs
  have hne : I.edges ≠ [] := by
    simpa [ITS.hasEdge] using he
  have hlen1 : (toTorchWith nf ef I).ei.length = 2 * I.edges.length := length_flatMap_pair _ _ _
  have hlen2 : (toTorchWith nf ef I).ea.length = 2 * I.edges.length := length_flatMap_pair _ _ _
  have hpos : 0 < I.edges.length := List.length_pos_iff.mpr hne
  have hcond : ((toTorchWith nf ef I).ei.isEmpty ||
      (toTorchWith nf ef I).ei.length != (toTorchWith nf ef I).ea.length) = false := by
    rw [hlen1, hlen2]
    have : (toTorchWith nf ef I).ei ≠ [] := by
      intro h; rw [h] at hlen1; simp at hlen1; omega
    simp [this]
  unfold fromTorchWith
  rw [hcond]
  simp only [Bool.false_eq_true, ↓reduceIte, Option.some.injEq]
  unfold buildIts
  rw [cols_toTorch, List.foldl_flatMap]
  have hx : (toTorchWith nf ef I).x.map nft = I.nodes.map (·.2) := by
    simp only [toTorchWith, List.map_map]
    apply List.map_congr_left
    intro n hn
    exact hinv n hn
  rw [hx]
  have hbase : ∀ u ∈ I.ids, (numbered 0 (I.nodes.map (·.2))).any (·.1 == (I.pos u : Int)) = true := by
    intro u hu
    apply hasNode_numbered
    · omega
    · have := pos_lt I hu; simpa using this
  have := foldl_build ef I _ hbase I.edges [] (by
      intro e he; have := hedges e (by simpa using he); exact ⟨this.1, this.2.1⟩) (by simpa using hkeys)
  have hm : mE ef I = fun e => ((I.pos e.u : Int), (I.pos e.v : Int), ef e.g e.h) := rfl
  rw [hm] at this
  simpa [expectedNodes, expectedEdges] using this

/-- **C18.roundtrip**: element symbols from the table, at least one edge, any (distinct) node ids:
    the tensor form converts back to a graph that is `I` with the node order preserved — node `k`
    carries the symbol of the `k`-th node of `I` — and the bonds of `I` under id ↦ position. -/
theorem roundtrip (I : ITS) (hsym : I.elementSymbols = true) (he : I.hasEdge = true)
    (hs : I.simple = true) :
    ∃ G, fromTorch (toTorch I) = some G ∧ RoundTrip efDefault I G := by
  refine ⟨_, roundtrip_with (nfDefault sym2num) efDefault nftDefault I hs he ?_,
    rtCheck_sound _ _ _ (rtCheck_complete efDefault I)⟩
  intro n hn
  apply nftDefault_nfDefault
  simp only [ITS.elementSymbols, List.all_eq_true] at hsym
  exact hsym n hn

/-- the node features written by the model are the REFERENCE atomic numbers -/
theorem toTorch_x_reference (I : ITS) (hsym : I.elementSymbols = true) :
    xCheck 0 I (toTorch I) = true := by
  simp only [xCheck, toTorch, toTorchWith, nfOf, beq_iff_eq]
  apply List.map_congr_left
  intro n hn
  simp only [ITS.elementSymbols, List.all_eq_true] at hsym
  obtain ⟨z, hz⟩ := Option.isSome_iff_exists.mp (hsym n hn)
  have hr : refSym2num n.2 = some z := by
    have hmem := sym2num_ref n.2 z hz
    -- keys of the reference table are distinct, so lookup finds `z`
    have hall : ∀ p ∈ refTable, refSym2num p.1 = some p.2 := by decide +kernel
    exact hall (n.2, z) hmem
  simp [nfDefault, hz, hr]

/-! non-vacuity (tests): ids from 1 and shuffled/sparse ids -/
example : fromTorch (toTorch ⟨[(5, "C"), (2, "Se"), (9, "O")], [⟨9, 5, some 2, none⟩, ⟨2, 5, some 3, some 3⟩]⟩)
    = some ⟨[(0, some "C"), (1, some "Se"), (2, some "O")], [(2, 0, [2, 0]), (1, 0, [3, 3])]⟩ := by decide +kernel
example : (toTorch ⟨[(1, "C"), (2, "Se")], [⟨1, 2, some 2, some 4⟩]⟩)
    = ⟨[[6], [34]], [(0, 1), (1, 0)], [[2, 4], [2, 4]]⟩ := by decide +kernel

/-! ### batches -/

theorem toTorchWith_wf (nf : NF) (ef : EF) (I : ITS) (hE : ∀ e ∈ I.edges, e.u ∈ I.ids ∧ e.v ∈ I.ids) :
    (toTorchWith nf ef I).wf = true := by
  simp only [TData.wf, Bool.and_eq_true, List.all_eq_true, decide_eq_true_eq, beq_iff_eq]
  refine ⟨?_, ?_⟩
  · intro p hp
    simp only [toTorchWith, List.mem_flatMap, List.mem_cons, List.not_mem_nil, or_false] at hp
    obtain ⟨e, he, hp⟩ := hp
    have h1 := pos_lt I (hE e he).1
    have h2 := pos_lt I (hE e he).2
    simp only [toTorchWith, List.length_map]
    rcases hp with rfl | rfl <;> exact ⟨by assumption, by assumption⟩
  · have h1 : (toTorchWith nf ef I).ei.length = 2 * I.edges.length := length_flatMap_pair _ _ _
    have h2 : (toTorchWith nf ef I).ea.length = 2 * I.edges.length := length_flatMap_pair _ _ _
    rw [h1, h2]

/-- **C18.batch**: a list of ITS graphs converts to the concatenation-with-offsets of the tensor
    forms of its members *with the same transforms* (the first component is how the model — like
    the repaired code — is written; the correspondence check is what ties it to the code), and
    `its_from_torch` on the batch gives back, graph by graph, the expected graph of each member. -/
theorem batch (nf : NF) (ef : EF) (nft : NFT) (Is : List ITS) (hne : Is ≠ [])
    (hIs : ∀ I ∈ Is, I.simple = true ∧ I.hasEdge = true ∧ ∀ n ∈ I.nodes, nft (nf n.2) = n.2) :
    toTorchList nf ef Is = batchOf (Is.map (toTorchWith nf ef)) ∧
    fromTorchBatchWith nft (toTorchList nf ef Is).1 (toTorchList nf ef Is).2
      = some (Is.map fun I => ⟨expectedNodes I, expectedEdges ef I⟩) := by
  refine ⟨rfl, ?_⟩
  have hmem : ∀ t ∈ Is.map (toTorchWith nf ef), t.wf = true ∧ t.ei ≠ [] := by
    intro t ht
    obtain ⟨I, hI, rfl⟩ := List.mem_map.mp ht
    obtain ⟨hs, he, _⟩ := hIs I hI
    obtain ⟨_, hedges, _⟩ := simple_unfold hs
    refine ⟨toTorchWith_wf nf ef I (fun e he => ⟨(hedges e he).1, (hedges e he).2.1⟩), ?_⟩
    intro h0
    have h1 : (toTorchWith nf ef I).ei.length = 2 * I.edges.length := length_flatMap_pair _ _ _
    have : I.edges ≠ [] := by simpa [ITS.hasEdge] using he
    have := List.length_pos_iff.mpr this
    rw [h0] at h1
    simp at h1
    omega
  unfold toTorchList
  rw [batch_inverse nft _ (by simpa using hne) hmem, List.map_map]
  congr 1
  apply List.map_congr_left
  intro I hI
  obtain ⟨hs, he, hinv⟩ := hIs I hI
  have h1 := roundtrip_with nf ef nft I hs he hinv
  have h2 := fromTorchWith_wf nft (toTorchWith nf ef I)
    (hmem _ (List.mem_map.mpr ⟨I, hI, rfl⟩)).1 (hmem _ (List.mem_map.mpr ⟨I, hI, rfl⟩)).2
  rw [h2] at h1
  exact Option.some.inj h1

/-- the default transforms: every member of a batch of element-symbol graphs comes back as itself
    (the `k`-th returned graph is the expected graph of the `k`-th member, which satisfies `RoundTrip`) -/
theorem batch_roundtrip (Is : List ITS) (hne : Is ≠ [])
    (hIs : ∀ I ∈ Is, I.elementSymbols = true ∧ I.hasEdge = true ∧ I.simple = true) :
    fromTorchBatch (toTorchList (nfDefault sym2num) efDefault Is).1
        (toTorchList (nfDefault sym2num) efDefault Is).2
      = some (Is.map fun I => ⟨expectedNodes I, expectedEdges efDefault I⟩) ∧
    ∀ I ∈ Is, RoundTrip efDefault I ⟨expectedNodes I, expectedEdges efDefault I⟩ := by
  refine ⟨(batch (nfDefault sym2num) efDefault nftDefault Is hne ?_).2, ?_⟩
  · intro I hI
    obtain ⟨hsym, he, hs⟩ := hIs I hI
    refine ⟨hs, he, ?_⟩
    intro n hn
    apply nftDefault_nfDefault
    simp only [ITS.elementSymbols, List.all_eq_true] at hsym
    exact hsym n hn
  · intro I _
    exact rtCheck_sound _ _ _ (rtCheck_complete efDefault I)

/-! non-vacuity (test): three graphs, ids from 1 / sparse; offsets 0, 2, 4 -/
example :
    toTorchList (nfDefault sym2num) efDefault
      [⟨[(1, "C"), (2, "O")], [⟨1, 2, some 2, some 4⟩]⟩, ⟨[(9, "N"), (4, "C")], [⟨4, 9, some 2, none⟩]⟩,
       ⟨[(1, "S"), (2, "C")], [⟨2, 1, some 3, some 3⟩]⟩]
    = (⟨[[6], [8], [7], [6], [16], [6]], [(0, 1), (1, 0), (3, 2), (2, 3), (5, 4), (4, 5)],
        [[2, 4], [2, 4], [2, 0], [2, 0], [3, 3], [3, 3]]⟩, [0, 0, 1, 1, 2, 2]) := by decide +kernel

end C18
