import FGVerif.Proofs.C16Spec
import FGVerif.Proofs.C16Main
namespace C16

/-! ### the model meets the order-free specification (under the contract of VF2) -/

theorem nodup_same_mem_length {α : Type} [DecidableEq α] (l₁ l₂ : List α) (h1 : l₁.Nodup) (h2 : l₂.Nodup)
    (h : ∀ x, x ∈ l₁ ↔ x ∈ l₂) : l₁.Perm l₂ := by
  rw [List.perm_iff_count]
  intro a
  rw [h1.count, h2.count]
  by_cases ha : a ∈ l₁
  · simp [ha, (h a).mp ha]
  · have : a ∉ l₂ := fun hc => ha ((h a).mpr hc)
    simp [ha, this]

/-- normal form of a VF2 mapping (`[]` when `normMatch` refuses, which it does not for a monomorphism) -/
def normOf (l : MolGraph) (m : Match) : Match := (normMatch l m).getD []

theorem normOf_spec (g l : MolGraph) (m : Match) (h : IsMono g l m) : normMatch l m = some (normOf l m) := by
  obtain ⟨n', hn⟩ := normMatch_total g l m h
  simp [normOf, hn]

theorem normOf_props (g l : MolGraph) (hl : l.nodeIds.Nodup) (m : Match) (h : IsMono g l m) :
    SameMap m (normOf l m) ∧ MatchInj (normOf l m) ∧ IsMono g l (normOf l m) ∧ normOf l m ∈ monos g l := by
  have hn := normOf_spec g l m h
  have hs := normMatch_sameMap l m _ hn
  have hi := normMatch_inj l hl m _ hn
  have hm := h.of_sameMap hs hi
  exact ⟨hs, hi, hm, isMono_mem_monos g l hl _ hm (normMatch_vals l m _ hn)⟩

theorem normOf_injective (g l : MolGraph) (a b : Match) (ha : IsMono g l a) (hb : IsMono g l b)
    (h : normOf l a = normOf l b) : SameMap a b := by
  have h1 := normMatch_sameMap l a _ (normOf_spec g l a ha)
  have h2 := normMatch_sameMap l b _ (normOf_spec g l b hb)
  rw [h] at h1
  exact h1.trans h2.symm

theorem normOf_congr (g l : MolGraph) (a b : Match) (ha : IsMono g l a) (hb : IsMono g l b) (hs : SameMap a b) :
    normOf l a = normOf l b :=
  normMatch_congr l a b _ _ (normOf_spec g l a ha) (normOf_spec g l b hb) hs

/-- a monomorphism in normal form is its own normal form -/
theorem normOf_normal (g l : MolGraph) (_hl : l.nodeIds.Nodup) (x : Match) (hx : IsMono g l x)
    (hv : x.map (·.2) = l.nodeIds) : normOf l x = x := by
  have hn := normOf_spec g l x hx
  have hf := (normMatch_some l x _ hn).2.2
  generalize normOf l x = y at hf
  unfold MolGraph.nodeIds at hv
  have hinv : ∀ p ∈ x, invM x p.2 = some p.1 := fun p hp => invM_of_mem x hx.inj.vals p.1 p.2 hp
  generalize hx' : x = x0 at hv ⊢
  have hsub : ∀ p ∈ x0, p ∈ x := by intro p hp; rw [hx']; exact hp
  clear hx'
  generalize l.nodes = ns at hf hv
  induction hf generalizing x0 with
  | nil =>
    have : x0 = [] := by simpa using hv
    rw [this]
  | @cons n q ns' qs h1 _ ih =>
    cases x0 with
    | nil => simp at hv
    | cons p ps =>
      rw [List.map_cons, List.map_cons] at hv
      obtain ⟨hp, hrest⟩ := List.cons.inj hv
      rw [ih ps (fun p' hp' => hsub p' (List.mem_cons_of_mem _ hp')) hrest]
      congr 1
      have := hinv p (hsub p (by simp))
      rw [hp, h1.1] at this
      exact Prod.ext (Option.some.inj this) (by rw [h1.2, hp])

/-- the normal forms of VF2's mappings are, up to order, the enumerated monomorphisms -/
theorem norms_perm_monos (g l : MolGraph) (hg : g.nodeIds.Nodup) (hl : l.nodeIds.Nodup) (ms : List Match)
    (hc : MatchesContract g l ms) : (ms.map (normOf l)).Perm (monos g l) := by
  apply nodup_same_mem_length
  · unfold List.Nodup
    rw [List.pairwise_map]
    refine hc.once.imp_of_mem ?_
    intro a b ha hb hab heq
    exact hab (normOf_injective g l a b (hc.sound a ha) (hc.sound b hb) heq)
  · exact monos_nodup g l hg
  · intro x
    constructor
    · intro hx
      obtain ⟨m, hm, rfl⟩ := List.mem_map.mp hx
      exact (normOf_props g l hl m (hc.sound m hm)).2.2.2
    · intro hx
      obtain ⟨hmono, hv⟩ := mem_monos_isMono g l hl x hx
      obtain ⟨m', hm', hs⟩ := hc.complete x hmono
      refine List.mem_map.mpr ⟨m', hm', ?_⟩
      rw [← normOf_congr g l x m' hmono (hc.sound m' hm') hs, normOf_normal g l hl x hmono hv]

end C16
