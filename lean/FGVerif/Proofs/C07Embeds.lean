import FGVerif.Proofs.C07KeyGraph
import FGVerif.Generated.C07
import FGVerif.Proofs.C05Bridge
/-!
  C07 — the oracle `C07.embeds` (exhaustive enumeration of injective maps, `Model/C07.lean` Part 3)
  decides the declarative embedding relation `∃ f, GEmb m P H f` on well-formed simple graphs; with
  it `key_strict_graph` is stated on the Boolean answers of the oracle, and the `strict` hypothesis
  of `C07.hasse` follows for every list on which the matcher answers like the oracle.

  * `C07.embeds_sound`, `C07.embeds_complete`, `C07.embeds_iff`
  * `C07.key_strict_embeds`          `embeds m A B = true`, `embeds m B A = false` ⟹ `lexLt (key3 A) (key3 B)`
  * `C07.strict_of_matcher_exact`    `(fgCfg m).sub a b → (fgCfg m).klt a b` on such a list
  * `C07.gEmb_iff_c03`               `GEmb` is C03's `IsEmbedding` (Model/C03Spec.lean) on well-formed patterns,
                                     for mappers that cannot map to nothing
  * `C07.default_patterns_wf`        every default pattern satisfies `gwfB` and `wildClean` (kernel evaluation)
-/
namespace C07
open Graph

section
variable (m : Perm.Mapper) (P H : Graph)

/-- the check `extendEmb` makes when it puts the newer pair `x` in front of the older pair `y` -/
def StepOK (x y : Int × Int) : Prop :=
  x.2 ≠ y.2 ∧ ∀ b, P.bond? x.1 y.1 = some b → H.bond? x.2 y.2 = some b

/-- invariant of the partial assignment -/
structure Good (asg : List (Int × Int)) : Prop where
  node : ∀ x, x ∈ asg → x.2 ∈ H.nodeIds ∧ admits m (symOf P x.1) (symOf H x.2) = true
  pair : asg.Pairwise (StepOK P H)

theorem extendEmb_sound : ∀ (todo : List Int) (asg : List (Int × Int)),
    extendEmb m P H todo asg = true → Good m P H asg →
      ∃ asg', Good m P H asg' ∧ asg'.map (·.1) = todo.reverse ++ asg.map (·.1) := by
  intro todo
  induction todo with
  | nil => intro asg _ hg; exact ⟨asg, hg, by simp⟩
  | cons p todo ih =>
    intro asg h hg
    simp only [extendEmb, List.any_eq_true, Bool.and_eq_true, Bool.not_eq_true', List.all_eq_true] at h
    obtain ⟨h', hh, ⟨⟨⟨hfree, hadm⟩, hbond⟩, hrec⟩⟩ := h
    have hg' : Good m P H ((p, h') :: asg) := by
      refine ⟨?_, ?_⟩
      · intro x hx
        rcases List.mem_cons.mp hx with rfl | hx
        · exact ⟨hh, hadm⟩
        · exact hg.node x hx
      · rw [List.pairwise_cons]
        refine ⟨?_, hg.pair⟩
        intro y hy
        refine ⟨?_, ?_⟩
        · intro e
          have : (asg.any fun x => x.2 == h') = true := List.any_eq_true.mpr ⟨y, hy, by simpa using e.symm⟩
          rw [hfree] at this
          exact absurd this (by simp)
        · intro b hb
          have := hbond y hy
          simp only [hb, beq_iff_eq] at this
          exact this
    obtain ⟨asg', hga, hkeys⟩ := ih _ hrec hg'
    refine ⟨asg', hga, ?_⟩
    rw [hkeys]
    simp
end

theorem find?_snd_of_mem_nodup : ∀ (l : List (Int × Int)), (l.map (·.1)).Nodup → ∀ x, x ∈ l →
    l.find? (·.1 == x.1) = some x := find?_of_mem_nodup

/-- a successful run of the oracle yields an embedding -/
theorem embeds_sound (m : Perm.Mapper) (P H : Graph) (hP : GWF P) (hH : GWF H) (h : embeds m P H = true) :
    ∃ f, GEmb m P H f := by
  obtain ⟨asg, hg, hkeys⟩ := extendEmb_sound m P H P.nodeIds [] h ⟨fun x hx => by simp at hx, List.Pairwise.nil⟩
  simp only [List.map_nil, List.append_nil] at hkeys
  have hnd : (asg.map (·.1)).Nodup := by rw [hkeys]; exact List.nodup_reverse.mpr hP.wf.nodup
  let f : Int → Int := fun p => ((asg.find? (·.1 == p)).map (·.2)).getD 0
  have hf : ∀ x, x ∈ asg → f x.1 = x.2 := by
    intro x hx
    simp only [f, find?_snd_of_mem_nodup asg hnd x hx, Option.map_some, Option.getD_some]
  have hex : ∀ p, p ∈ P.nodeIds → ∃ x, x ∈ asg ∧ x.1 = p := by
    intro p hp
    have : p ∈ asg.map (·.1) := by rw [hkeys]; exact List.mem_reverse.mpr hp
    obtain ⟨x, hx, rfl⟩ := List.mem_map.mp this
    exact ⟨x, hx, rfl⟩
  have hdist : ∀ x, x ∈ asg → ∀ y, y ∈ asg → x ≠ y → StepOK P H x y ∨ StepOK P H y x :=
    pairwise_forall_ne (R := fun x y => StepOK P H x y ∨ StepOK P H y x) (fun _ _ h => h.symm)
      (hg.pair.imp fun h => Or.inl h)
  refine ⟨f, ⟨?_, ?_, ?_, ?_⟩⟩
  · intro p hp q hq hpq
    obtain ⟨x, hx, rfl⟩ := hex p hp
    obtain ⟨y, hy, rfl⟩ := hex q hq
    rw [hf x hx, hf y hy] at hpq
    by_cases hxy : x = y
    · rw [hxy]
    · rcases hdist x hx y hy hxy with h | h
      · exact absurd hpq h.1
      · exact absurd hpq.symm h.1
  · intro p hp
    obtain ⟨x, hx, rfl⟩ := hex p hp
    rw [hf x hx]; exact (hg.node x hx).1
  · intro p hp
    obtain ⟨x, hx, rfl⟩ := hex p hp
    rw [hf x hx]; exact (hg.node x hx).2
  · intro p hp q hq b hb
    obtain ⟨x, hx, rfl⟩ := hex p hp
    obtain ⟨y, hy, rfl⟩ := hex q hq
    rw [hf x hx, hf y hy]
    by_cases hxy : x = y
    · subst hxy
      exact absurd ((C11.bond?_isSome_iff P hP.simple _ _).mp ⟨b, hb⟩) (hP.noLoop _)
    · rcases hdist x hx y hy hxy with h | h
      · exact h.2 b hb
      · have hb' := C11.bond?_symm P hP.wf hP.simple _ _ b hb
        exact C11.bond?_symm H hH.wf hH.simple _ _ b (h.2 b hb')

theorem extendEmb_complete (m : Perm.Mapper) (P H : Graph) (f : Int → Int) (hf : GEmb m P H f) :
    ∀ (todo : List Int) (asg : List (Int × Int)), (∀ p, p ∈ todo → p ∈ P.nodeIds) → todo.Nodup →
      (∀ x, x ∈ asg → x.1 ∈ P.nodeIds ∧ x.2 = f x.1 ∧ x.1 ∉ todo) → extendEmb m P H todo asg = true := by
  intro todo
  induction todo with
  | nil => intro _ _ _ _; rfl
  | cons p todo ih =>
    intro asg hsub hnd hasg
    rw [List.nodup_cons] at hnd
    have hp : p ∈ P.nodeIds := hsub p (by simp)
    simp only [extendEmb, List.any_eq_true, Bool.and_eq_true, Bool.not_eq_true', List.all_eq_true]
    refine ⟨f p, hf.range p hp, ⟨⟨⟨?_, hf.admitted p hp⟩, ?_⟩, ?_⟩⟩
    · rw [List.any_eq_false]
      intro x hx
      obtain ⟨h1, h2, h3⟩ := hasg x hx
      simp only [beq_iff_eq]
      intro e
      rw [h2] at e
      have := hf.inj x.1 h1 p hp e
      exact h3 (by rw [this]; simp)
    · intro x hx
      obtain ⟨h1, h2, _⟩ := hasg x hx
      cases hb : P.bond? p x.1 with
      | none => rfl
      | some b =>
        simp only [beq_iff_eq]
        rw [h2]
        exact hf.bond p hp x.1 h1 b hb
    · apply ih
      · intro q hq; exact hsub q (List.mem_cons_of_mem _ hq)
      · exact hnd.2
      · intro x hx
        rcases List.mem_cons.mp hx with rfl | hx
        · exact ⟨hp, rfl, hnd.1⟩
        · obtain ⟨h1, h2, h3⟩ := hasg x hx
          exact ⟨h1, h2, fun h => h3 (List.mem_cons_of_mem _ h)⟩

/-- every embedding is found by the oracle -/
theorem embeds_complete (m : Perm.Mapper) (P H : Graph) (hP : P.nodeIds.Nodup) (f : Int → Int)
    (hf : GEmb m P H f) : embeds m P H = true :=
  extendEmb_complete m P H f hf P.nodeIds [] (fun _ h => h) hP (fun x hx => by simp at hx)

/-- **C07.embeds_iff** — the oracle of the executable specification decides the embedding relation -/
theorem embeds_iff (m : Perm.Mapper) (P H : Graph) (hP : GWF P) (hH : GWF H) :
    embeds m P H = true ↔ ∃ f, GEmb m P H f :=
  ⟨embeds_sound m P H hP hH, fun ⟨f, hf⟩ => embeds_complete m P H hP.wf.nodup f hf⟩

/-- **C07.key_strict_embeds** — `key_strict_graph` on the oracle's answers: if `A` embeds into `B`
    and `B` does not embed into `A`, the key triple strictly increases. -/
theorem key_strict_embeds (m : Perm.Mapper) (hw : m.wildcard = some "R") (A B : Graph)
    (hA : GWF A) (hB : GWF B) (cA : wildClean m A = true) (cB : wildClean m B = true)
    (h1 : embeds m A B = true) (h2 : embeds m B A = false) : lexLt (key3 A) (key3 B) = true := by
  obtain ⟨f, hf⟩ := embeds_sound m A B hA hB h1
  apply key_strict_graph m hw A B hA hB cA cB f hf
  rintro ⟨g, hg⟩
  rw [embeds_complete m B A hB.wf.nodup g hg] at h2
  exact absurd h2 (by simp)

/-- **C07.strict_of_matcher_exact** — the hypothesis `strict` of `C07.hasse` (every `is_subgroup`
    pair strictly increases `order_id()`) for the chemistry instance, on every list of well-formed
    patterns on which the matcher's answers are the true embedding order (as `default_true_order`
    shows for the default list; false in general: known finding K3). -/
theorem strict_of_matcher_exact (m : Perm.Mapper) (hw : m.wildcard = some "R") (l : List FGConfig)
    (hwf : ∀ a, a ∈ l → GWF a.pattern ∧ wildClean m a.pattern = true)
    (hex : ∀ a, a ∈ l → ∀ b, b ∈ l → Sub.mapSubgraphToGraph b.pattern a.pattern m = embeds m a.pattern b.pattern) :
    ∀ a, a ∈ l → ∀ b, b ∈ l → (fgCfg m).sub a b = true → (fgCfg m).klt a b = true := by
  intro a ha b hb hsub
  simp only [fgCfg, Cfg.ofKey, isSubgroup, Bool.and_eq_true, Bool.not_eq_true'] at hsub
  obtain ⟨⟨h1, h2⟩, _⟩ := hsub
  rw [hex a ha b hb] at h1
  rw [hex b hb a ha] at h2
  have := key_strict_embeds m hw a.pattern b.pattern (hwf a ha).1 (hwf b hb).1 (hwf a ha).2 (hwf b hb).2 h1 h2
  exact lexLt_append3 (key3 a.pattern) (key3 b.pattern) _ _ rfl rfl this

/-- **C07.gEmb_iff_c03** — the embedding notion used here is the one of the matcher properties
    C03/C04 (`C03.IsEmbedding`: injective, into the host, the mapper's single-symbol rule, every
    pattern bond on a host bond of equal label) -/
theorem gEmb_iff_c03 (m : Perm.Mapper) (hcm : m.canMapToNothing = []) (P H : Graph) (hP : GWF P) (hH : GWF H)
    (f : Int → Int) : GEmb m P H f ↔ C03.IsEmbedding m P H f := by
  have hadm : ∀ ps hs, admits m ps hs = C03.admits m ps hs := fun ps hs => C05.admits_eq_c03 m hcm ps hs
  constructor
  · intro hf
    refine ⟨fun p q hp hq h => hf.inj p hp q hq h, fun p hp => hf.range p hp, fun p hp => ?_, fun p q hp hq => ?_⟩
    · rw [← hadm]; exact hf.admitted p hp
    · obtain ⟨l, hl⟩ := (C11.bond?_isSome_iff P hP.simple p q).mpr hq
      have hb := hf.bond p hp q (hP.wf.nbrNode p q hq) l hl
      exact ⟨(C11.bond?_isSome_iff H hH.simple _ _).mp ⟨l, hb⟩, by rw [hb, hl]⟩
  · intro hf
    refine ⟨fun p hp q hq h => hf.inj p q hp hq h, fun p hp => hf.range p hp, fun p hp => ?_, fun p hp q _ b hb => ?_⟩
    · rw [hadm]; exact hf.admitted p hp
    · have hq : q ∈ P.neighbors p := (C11.bond?_isSome_iff P hP.simple p q).mp ⟨b, hb⟩
      rw [(hf.bond p q hp hq).2, hb]

/-- every default pattern (regenerated from the source) is a well-formed simple graph without a
    case variant of the wildcard -/
theorem default_patterns_wf :
    Gen.C07.configs.all (fun c => gwfB c.pattern && wildClean Gen.C07.mapper c.pattern) = true := by
  decide +kernel

/-- non-vacuity (test): carbonyl `C(=O)` properly embeds into aldehyde `RC(=O)H`; the theorem gives the
    key comparison, which agrees with the computed one -/
example : (match Gen.C07.configs.find? (·.name == "carbonyl"), Gen.C07.configs.find? (·.name == "aldehyde") with
    | some a, some b =>
      embeds Gen.C07.mapper a.pattern b.pattern && !embeds Gen.C07.mapper b.pattern a.pattern &&
      lexLt (key3 a.pattern) (key3 b.pattern) && key3 a.pattern == [2, 2, 1] && key3 b.pattern == [3, 4, 3]
    | _, _ => false) = true := by decide +kernel

/-- test: why `wildClean` is needed — with `ignore_case` a pattern `r` (not producible by the parser)
    embeds properly into `R-R`, yet its `pattern_len` is larger -/
example :
    let m : Perm.Mapper := { wildcard := some "R", ignoreCase := true }
    let A : Graph := { nodes := [(0, { symbol := some "r" })], adj := [(0, [])] }
    let B : Graph := { nodes := [(0, { symbol := some "R" }), (1, { symbol := some "R" })],
                       adj := [(0, [(1, [(0, Label.s 2)])]), (1, [(0, [(0, Label.s 2)])])] }
    embeds m A B = true ∧ embeds m B A = false ∧ lexLt (key3 A) (key3 B) = false ∧ wildClean m A = false ∧
      gwfB A = true ∧ gwfB B = true := by decide +kernel

end C07
