import FGVerif.Model.C20
/-!
  C20 — atom-map completion yields a complete injective map and keeps existing numbers.

  Property theorems (about `Model/C20.lean`, for every node list, every partial map, every offset):

  * `C20.complete_spec`      the model's output satisfies the declarative specification `Spec`
  * `C20.specCheck_sound`    the executable checker the harness runs on *implementation* outputs
                             implies `Spec`
  * `C20.specCheck_iff`      … and is implied by it (the checker is exactly the statement)
  * `C20.complete_increasing` stronger fact about the model only: new numbers increase in node order
  * corollaries `complete_length`, `complete_preserves`, `complete_fresh`, `complete_distinct`,
    `complete_least`, and for `initialize_aam`: `initialize_ok`, `initialize_refuses`,
    `initialize_keeps_existing`.
-/
namespace C20

/-! ### the declarative specification -/

/-- existing numbers are kept, position by position -/
def Preserved : List (Option Int) → List Int → Prop
  | [], [] => True
  | some a :: ns, b :: out => a = b ∧ Preserved ns out
  | none :: ns, _ :: out => Preserved ns out
  | _, _ => False

/-- "every node carries a number afterwards, existing numbers are unchanged, the new numbers are
    pairwise distinct, distinct from all existing ones, and are the smallest unused integers from `lo`".
    The statement does not say which unmapped node gets which of the new numbers; that the model (like the code)
    hands them out in node order is the separate theorem `complete_increasing` (review 3, M6). -/
structure Spec (lo : Int) (nodes : List (Option Int)) (out : List Int) : Prop where
  length : out.length = nodes.length
  preserved : Preserved nodes out
  distinct : (news nodes out).Nodup
  fresh : ∀ b ∈ news nodes out, lo ≤ b ∧ b ∉ existing nodes
  least : ∀ b ∈ news nodes out, ∀ k, lo ≤ k → k < b → k ∈ existing nodes ∨ k ∈ news nodes out

/-! ### helper lemmas -/

theorem foldl_max_ge_init (xs : List Int) (a : Int) : a ≤ xs.foldl max a := by
  induction xs generalizing a with
  | nil => simp
  | cons x xs ih => simp only [List.foldl_cons]; exact Int.le_trans (Int.le_max_left a x) (ih _)

theorem foldl_max_ge_mem (xs : List Int) (a : Int) : ∀ x ∈ xs, x ≤ xs.foldl max a := by
  induction xs generalizing a with
  | nil => simp
  | cons y ys ih =>
    intro x hx
    simp only [List.foldl_cons]
    rcases List.mem_cons.mp hx with rfl | h
    · exact Int.le_trans (Int.le_max_right a x) (foldl_max_ge_init ys _)
    · exact ih _ x h

theorem le_listMax (l : List Int) : ∀ x ∈ l, x ≤ listMax l := by
  intro x hx
  cases l with
  | nil => simp at hx
  | cons y ys =>
    simp only [listMax]
    rcases List.mem_cons.mp hx with rfl | h
    · exact foldl_max_ge_init ys x
    · exact foldl_max_ge_mem ys y x h

/-- `skipUsed` returns the least unused integer `≥ next`, provided the fuel reaches past `used` -/
theorem skipUsed_spec (used : List Int) : ∀ (fuel : Nat) (next : Int),
    (∀ u ∈ used, u < next + fuel) →
    next ≤ skipUsed used fuel next ∧ skipUsed used fuel next ∉ used ∧
    ∀ k, next ≤ k → k < skipUsed used fuel next → k ∈ used := by
  intro fuel
  induction fuel with
  | zero =>
    intro next h
    simp only [skipUsed]
    refine ⟨Int.le_refl _, ?_, ?_⟩
    · intro hm; have := h _ hm; omega
    · intro k h1 h2; omega
  | succ f ih =>
    intro next h
    simp only [skipUsed]
    split
    · rename_i hc
      have hmem : next ∈ used := by simpa using hc
      have := ih (next + 1) (by intro u hu; have := h u hu; omega)
      refine ⟨by omega, this.2.1, ?_⟩
      intro k h1 h2
      by_cases hk : k = next
      · subst hk; exact hmem
      · exact this.2.2 k (by omega) h2
    · rename_i hc
      have hmem : next ∉ used := by simpa using hc
      refine ⟨Int.le_refl _, hmem, ?_⟩
      intro k h1 h2; omega

theorem fuelFor_enough (used : List Int) (next : Int) : ∀ u ∈ used, u < next + fuelFor used next := by
  intro u hu
  have := le_listMax used u hu
  unfold fuelFor
  omega

theorem isLeast_iff (used : List Int) (lo m : Int) :
    isLeastUnusedFrom used lo m = true ↔
      lo ≤ m ∧ m ∉ used ∧ ∀ k, lo ≤ k → k < m → k ∈ used := by
  unfold isLeastUnusedFrom
  simp only [Bool.and_eq_true, decide_eq_true_eq, Bool.not_eq_true', List.all_eq_true,
    List.mem_range, List.contains_eq_mem, decide_eq_false_iff_not]
  constructor
  · rintro ⟨⟨h1, h2⟩, h3⟩
    refine ⟨h1, h2, ?_⟩
    intro k hk1 hk2
    have := h3 (k - lo).toNat (by omega)
    have e : lo + ((k - lo).toNat : Int) = k := by omega
    rw [e] at this
    exact this
  · rintro ⟨h1, h2, h3⟩
    refine ⟨⟨h1, h2⟩, ?_⟩
    intro d hd
    exact h3 _ (by omega) (by omega)

/-! ### the model's loop satisfies the executable specification -/

theorem loop_specLoop (lo : Int) : ∀ (nodes : List (Option Int)) (used : List Int) (next : Int),
    lo ≤ next → (∀ k, lo ≤ k → k < next → k ∈ used) →
    specLoop nodes (loop nodes used next) used lo = true := by
  intro nodes
  induction nodes with
  | nil => intro used next _ _; simp [loop, specLoop]
  | cons a rest ih =>
    intro used next hlo hinv
    cases a with
    | some a =>
      simp only [loop, specLoop, decide_true, Bool.true_and]
      exact ih used next hlo hinv
    | none =>
      simp only [loop, specLoop, Bool.and_eq_true]
      have hs := skipUsed_spec used (fuelFor used next) next (fuelFor_enough used next)
      refine ⟨?_, ?_⟩
      · rw [isLeast_iff]
        refine ⟨by omega, hs.2.1, ?_⟩
        intro k hk1 hk2
        by_cases h : k < next
        · exact hinv k hk1 h
        · exact hs.2.2 k (by omega) hk2
      · apply ih
        · omega
        · intro k hk1 hk2
          rw [List.mem_append]
          by_cases h : k < next
          · exact Or.inl (hinv k hk1 h)
          · exact Or.inl (hs.2.2 k (by omega) hk2)

/-- the model passes the ORDERED executable check (stronger than the statement) -/
theorem complete_specCheckOrdered (o : Offset) (nodes : List (Option Int)) :
    specCheckOrdered o nodes (completeAam o nodes) = true := by
  unfold specCheckOrdered completeAam
  exact loop_specLoop _ nodes _ _ (Int.le_refl _) (by intro k h1 h2; omega)

/-! ### the executable specification implies the declarative one -/

theorem specLoop_sound (lo : Int) : ∀ (nodes : List (Option Int)) (out used : List Int),
    specLoop nodes out used lo = true →
      out.length = nodes.length ∧ Preserved nodes out ∧
      (news nodes out).Pairwise (· < ·) ∧
      (∀ b ∈ news nodes out, lo ≤ b ∧ b ∉ used) ∧
      (∀ b ∈ news nodes out, ∀ k, lo ≤ k → k < b → k ∈ used ∨ k ∈ news nodes out) := by
  intro nodes
  induction nodes with
  | nil =>
    intro out used h
    cases out with
    | nil => simp [news, Preserved]
    | cons b out => simp [specLoop] at h
  | cons a rest ih =>
    intro out used h
    cases out with
    | nil => cases a <;> simp [specLoop] at h
    | cons b out =>
      cases a with
      | some a =>
        simp only [specLoop, Bool.and_eq_true, decide_eq_true_eq] at h
        obtain ⟨hab, hrest⟩ := h
        obtain ⟨h1, h2, h3, h4, h5⟩ := ih out used hrest
        refine ⟨by simp [h1], ⟨hab, h2⟩, by simpa [news] using h3, by simpa [news] using h4,
          by simpa [news] using h5⟩
      | none =>
        simp only [specLoop, Bool.and_eq_true] at h
        obtain ⟨hb, hrest⟩ := h
        rw [isLeast_iff] at hb
        obtain ⟨hb1, hb2, hb3⟩ := hb
        obtain ⟨h1, h2, h3, h4, h5⟩ := ih out (used ++ [b]) hrest
        have hgt : ∀ c ∈ news rest out, b < c := by
          intro c hc
          obtain ⟨hc1, hc2⟩ := h4 c hc
          have hcu : c ∉ used := fun h => hc2 (List.mem_append.mpr (Or.inl h))
          have hcb : c ≠ b := fun h => hc2 (List.mem_append.mpr (Or.inr (by simp [h])))
          by_cases hlt : c < b
          · exact absurd (hb3 c hc1 hlt) hcu
          · omega
        refine ⟨by simp [h1], h2, ?_, ?_, ?_⟩
        · simp only [news, List.pairwise_cons]
          exact ⟨hgt, h3⟩
        · intro c hc
          simp only [news, List.mem_cons] at hc
          rcases hc with rfl | hc
          · exact ⟨hb1, hb2⟩
          · obtain ⟨hc1, hc2⟩ := h4 c hc
            exact ⟨hc1, fun h => hc2 (List.mem_append.mpr (Or.inl h))⟩
        · intro c hc k hk1 hk2
          simp only [news, List.mem_cons] at hc ⊢
          rcases hc with rfl | hc
          · exact Or.inl (hb3 k hk1 hk2)
          · rcases h5 c hc k hk1 hk2 with h | h
            · rcases List.mem_append.mp h with h | h
              · exact Or.inl h
              · exact Or.inr (Or.inl (by simpa using h))
            · exact Or.inr (Or.inr h)

/-- the ordered check implies the declarative specification and, on top of it, that the new numbers increase
    in node order -/
theorem specCheckOrdered_sound (o : Offset) (nodes : List (Option Int)) (out : List Int)
    (h : specCheckOrdered o nodes out = true) :
    Spec (start o (existing nodes)) nodes out ∧ (news nodes out).Pairwise (· < ·) := by
  obtain ⟨h1, h2, h3, h4, h5⟩ := specLoop_sound _ nodes out _ h
  exact ⟨⟨h1, h2, h3.imp (fun h => Int.ne_of_lt h), h4, h5⟩, h3⟩

/-! ### the checker applied to implementation outputs is exactly the statement -/

theorem preservedB_iff : ∀ (nodes : List (Option Int)) (out : List Int),
    preservedB nodes out = true ↔ Preserved nodes out
  | [], [] => by simp [preservedB, Preserved]
  | [], _ :: _ => by simp [preservedB, Preserved]
  | some _ :: _, [] => by simp [preservedB, Preserved]
  | none :: _, [] => by simp [preservedB, Preserved]
  | some a :: ns, b :: out => by simp [preservedB, Preserved, preservedB_iff ns out]
  | none :: ns, b :: out => by simp [preservedB, Preserved, preservedB_iff ns out]

theorem preserved_length : ∀ (nodes : List (Option Int)) (out : List Int),
    Preserved nodes out → out.length = nodes.length
  | [], [], _ => rfl
  | [], _ :: _, h => by simp [Preserved] at h
  | some _ :: _, [], h => by simp [Preserved] at h
  | none :: _, [], h => by simp [Preserved] at h
  | some a :: ns, b :: out, h => by
    simp only [Preserved] at h
    simp [preserved_length ns out h.2]
  | none :: ns, b :: out, h => by
    simp only [Preserved] at h
    simp [preserved_length ns out h]

theorem gapFree_iff (ex nw : List Int) (lo b : Int) :
    gapFree ex nw lo b = true ↔ ∀ k, lo ≤ k → k < b → k ∈ ex ∨ k ∈ nw := by
  unfold gapFree
  simp only [List.all_eq_true, List.mem_range, Bool.or_eq_true, List.contains_eq_mem, decide_eq_true_eq]
  constructor
  · intro h k hk1 hk2
    have := h (k - lo).toNat (by omega)
    have e : lo + ((k - lo).toNat : Int) = k := by omega
    rw [e] at this
    exact this
  · intro h d hd
    exact h _ (by omega) (by omega)

/-- **the executable checker is the declarative specification** (sound AND complete: it neither accepts an output
    that violates the statement nor rejects one that meets it) -/
theorem specCheck_iff (o : Offset) (nodes : List (Option Int)) (out : List Int) :
    specCheck o nodes out = true ↔ Spec (start o (existing nodes)) nodes out := by
  unfold specCheck
  simp only [Bool.and_eq_true, decide_eq_true_eq, List.all_eq_true, Bool.not_eq_true',
    List.contains_eq_mem, decide_eq_false_iff_not, preservedB_iff, gapFree_iff]
  constructor
  · rintro ⟨⟨⟨h1, h2⟩, h3⟩, h4⟩
    exact ⟨preserved_length _ _ h1, h1, h2, h3, h4⟩
  · intro h
    exact ⟨⟨⟨h.preserved, h.distinct⟩, h.fresh⟩, h.least⟩

/-- **soundness of the executable checker**: whatever output (in particular the
    implementation's) passes `specCheck` satisfies the declarative specification. -/
theorem specCheck_sound (o : Offset) (nodes : List (Option Int)) (out : List Int)
    (h : specCheck o nodes out = true) : Spec (start o (existing nodes)) nodes out :=
  (specCheck_iff o nodes out).1 h

/-- **C20 main theorem**: for every node list, partial map and offset, `complete_aam` (model)
    meets the specification. -/
theorem complete_spec (o : Offset) (nodes : List (Option Int)) :
    Spec (start o (existing nodes)) nodes (completeAam o nodes) :=
  (specCheckOrdered_sound o nodes _ (complete_specCheckOrdered o nodes)).1

/-- the model passes the executable check that is applied to implementation outputs -/
theorem complete_specCheck (o : Offset) (nodes : List (Option Int)) :
    specCheck o nodes (completeAam o nodes) = true :=
  (specCheck_iff o nodes _).2 (complete_spec o nodes)

/-- the stronger fact about the MODEL, not demanded by the statement: the new numbers increase in node order -/
theorem complete_increasing (o : Offset) (nodes : List (Option Int)) :
    (news nodes (completeAam o nodes)).Pairwise (· < ·) :=
  (specCheckOrdered_sound o nodes _ (complete_specCheckOrdered o nodes)).2

/-! ### named corollaries -/

theorem complete_length (o : Offset) (nodes : List (Option Int)) :
    (completeAam o nodes).length = nodes.length := (complete_spec o nodes).length

theorem complete_preserves (o : Offset) (nodes : List (Option Int)) :
    Preserved nodes (completeAam o nodes) := (complete_spec o nodes).preserved

theorem complete_fresh (o : Offset) (nodes : List (Option Int)) :
    ∀ b ∈ news nodes (completeAam o nodes), b ∉ existing nodes :=
  fun b hb => ((complete_spec o nodes).fresh b hb).2

theorem complete_distinct (o : Offset) (nodes : List (Option Int)) :
    (news nodes (completeAam o nodes)).Nodup := (complete_spec o nodes).distinct

theorem complete_least (o : Offset) (nodes : List (Option Int)) :
    ∀ b ∈ news nodes (completeAam o nodes), ∀ k, start o (existing nodes) ≤ k → k < b →
      k ∈ existing nodes ∨ k ∈ news nodes (completeAam o nodes) :=
  (complete_spec o nodes).least

theorem foldl_min_spec (xs : List Int) (a : Int) :
    (xs.foldl min a = a ∨ xs.foldl min a ∈ xs) ∧ xs.foldl min a ≤ a ∧
      ∀ z ∈ xs, xs.foldl min a ≤ z := by
  induction xs generalizing a with
  | nil => simp
  | cons y ys ih =>
    simp only [List.foldl_cons]
    obtain ⟨h1, h2, h3⟩ := ih (min a y)
    have hm : min a y = a ∨ min a y = y := by omega
    refine ⟨?_, by omega, ?_⟩
    · rcases h1 with h | h
      · rcases hm with e | e
        · left; rw [h, e]
        · right; rw [h, e]; exact List.mem_cons_self
      · right; exact List.mem_cons_of_mem _ h
    · intro z hz
      rcases List.mem_cons.mp hz with rfl | hz
      · omega
      · exact h3 z hz

/-- the requested start for `"min"` is the smallest existing number -/
theorem start_min_is_least (nodes : List (Option Int)) (h : existing nodes ≠ []) :
    start .min (existing nodes) ∈ existing nodes ∧
      ∀ x ∈ existing nodes, start .min (existing nodes) ≤ x := by
  generalize existing nodes = l at h
  cases l with
  | nil => exact absurd rfl h
  | cons x xs =>
    simp only [start, List.isEmpty_cons, Bool.false_eq_true, ↓reduceIte, listMin]
    obtain ⟨h1, h2, h3⟩ := foldl_min_spec xs x
    constructor
    · rcases h1 with e | e
      · rw [e]; exact List.mem_cons_self
      · exact List.mem_cons_of_mem _ e
    · intro z hz
      rcases List.mem_cons.mp hz with rfl | hz
      · exact h2
      · exact h3 z hz

/-! ### initialize_aam -/

/-- on an unmapped graph every node gets `id + offset` and nothing is raised -/
theorem initialize_ok (offset : Int) (nodes : List (Int × Option Int)) (h : ∀ n ∈ nodes, n.2 = none) :
    initializeAam offset nodes = (nodes.map fun n => some (n.1 + offset), false) := by
  induction nodes with
  | nil => rfl
  | cons n rest ih =>
    obtain ⟨i, a⟩ := n
    have ha : a = none := h (i, a) (List.mem_cons_self)
    subst ha
    have := ih (fun n hn => h n (List.mem_cons_of_mem _ hn))
    simp [initializeAam, this]

/-- a graph that already has a number somewhere is refused -/
theorem initialize_refuses (offset : Int) (nodes : List (Int × Option Int))
    (h : ∃ n ∈ nodes, n.2 ≠ none) : (initializeAam offset nodes).2 = true := by
  induction nodes with
  | nil => simp at h
  | cons n rest ih =>
    obtain ⟨i, a⟩ := n
    cases a with
    | some a => simp [initializeAam]
    | none =>
      simp only [initializeAam]
      apply ih
      obtain ⟨m, hm, hne⟩ := h
      rcases List.mem_cons.mp hm with rfl | hm
      · simp at hne
      · exact ⟨m, hm, hne⟩

/-- an existing number is never overwritten, raised or not -/
theorem initialize_keeps_existing (offset : Int) (nodes : List (Int × Option Int)) :
    ∀ (i : Nat) (a : Int), (nodes.map (·.2))[i]? = some (some a) →
      (initializeAam offset nodes).1[i]? = some (some a) := by
  induction nodes with
  | nil => intro i a h; simp at h
  | cons n rest ih =>
    obtain ⟨j, b⟩ := n
    intro i a h
    cases b with
    | some b => simpa [initializeAam] using h
    | none =>
      cases i with
      | zero => simp at h
      | succ i =>
        simp only [initializeAam]
        simp only [List.map_cons, List.getElem?_cons_succ] at h ⊢
        exact ih i a h

/-! ### non-vacuity: concrete instances (tests, labelled as such) -/

example : completeAam .none [none, some 1, none, some 3, none] = [2, 1, 4, 3, 5] := by decide
example : completeAam .min [none, some 5, none, some 7, none] = [6, 5, 8, 7, 9] := by decide
example : news [none, some 5, none, some 7, none] [6, 5, 8, 7, 9] = [6, 8, 9] := by decide
example : specCheck (.int 3) [some 3, none, some 3] [3, 4, 3] = true := by decide
example : specCheck (.int 3) [some 3, none, some 3] [3, 5, 3] = false := by decide
/-- the same set of new numbers handed out in another node order meets the statement (and fails the ordered check) -/
example : specCheck .none [none, some 1, none, some 3, none] [5, 1, 4, 3, 2] = true := by decide
example : specCheckOrdered .none [none, some 1, none, some 3, none] [5, 1, 4, 3, 2] = false := by decide
/-- a skipped unused number, a repeated number, a number below the start, a missing node: all rejected -/
example : specCheck .none [none, some 1, none] [2, 1, 4] = false := by decide
example : specCheck .none [none, some 1, none] [2, 1, 2] = false := by decide
example : specCheck (.int 3) [none, none] [2, 3] = false := by decide
example : specCheck .none [none, none] [1] = false := by decide

end C20
