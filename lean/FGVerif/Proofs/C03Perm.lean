import FGVerif.Model.C03Spec
/-!
  Facts about `Perm.Mapper.permute` (Model/Permutation.lean) that the matcher proofs of C03/C04
  need, for mappers with `canMapToNothing = []`, proved from the definitions:

  * `permute_complete`  every injective, in-range, symbol-admissible assignment of all pattern
                        positions to structure positions is in the list `permute` returns;
  * `permute_sound`     every listed assignment is such an assignment;
  * `admits_eq_admit1`  the single-symbol question `permute [ps] [hs] == [[0]]` in closed form.
-/
namespace C03
open Perm

/-! ### list helpers (core Lean has no `Nodup.map_on`) -/

theorem nodup_of_map {α β} (f : α → β) {l : List α} (h : (l.map f).Nodup) : l.Nodup :=
  List.Pairwise.of_map f (fun _ _ hab heq => hab (heq ▸ rfl)) h

theorem nodup_map_on {α β} {f : α → β} {l : List α}
    (hinj : ∀ x ∈ l, ∀ y ∈ l, f x = f y → x = y) (h : l.Nodup) : (l.map f).Nodup := by
  rw [List.Nodup, List.pairwise_map]
  exact (List.Pairwise.and_mem.mp h).imp (fun ⟨hx, hy, hne⟩ heq => hne (hinj _ hx _ hy heq))

/-- positions as the Python integers the mapper returns -/
def toInts (a : List Nat) : List Int := a.map fun (si : Nat) => (si : Int)

/-! ### picks / arrangements -/

theorem picks_perm {α} : ∀ (l : List α) (p : α × List α), p ∈ picks l → l.Perm (p.1 :: p.2)
  | [], p, h => by simp [picks] at h
  | x :: xs, p, h => by
    simp only [picks, List.mem_cons, List.mem_map] at h
    rcases h with rfl | ⟨q, hq, rfl⟩
    · exact List.Perm.refl _
    · have := picks_perm xs q hq
      exact (List.Perm.cons x this).trans (List.Perm.swap _ _ _)

theorem picks_complete {α} : ∀ (l : List α) (x : α), x ∈ l → ∃ rest, (x, rest) ∈ picks l
  | [], x, h => by simp at h
  | y :: ys, x, h => by
    rcases List.mem_cons.mp h with rfl | h
    · exact ⟨ys, by simp [picks]⟩
    · obtain ⟨rest, hr⟩ := picks_complete ys x h
      exact ⟨y :: rest, by
        simp only [picks, List.mem_cons, List.mem_map]
        exact Or.inr ⟨(x, rest), hr, rfl⟩⟩

theorem arrangements_sound {α} : ∀ (k : Nat) (l l' : List α), l' ∈ arrangements k l →
    l'.length = k ∧ (∀ x ∈ l', x ∈ l) ∧ (l.Nodup → l'.Nodup)
  | 0, l, l', h => by
    simp only [arrangements, List.mem_singleton] at h
    subst h; simp
  | k + 1, l, l', h => by
    simp only [arrangements, List.mem_flatMap, List.mem_map] at h
    obtain ⟨p, hp, t, ht, rfl⟩ := h
    have hperm := picks_perm l p hp
    obtain ⟨h1, h2, h3⟩ := arrangements_sound k p.2 t ht
    refine ⟨by simp [h1], ?_, ?_⟩
    · intro x hx
      rcases List.mem_cons.mp hx with rfl | hx
      · exact hperm.mem_iff.mpr (by simp)
      · exact hperm.mem_iff.mpr (List.mem_cons_of_mem _ (h2 x hx))
    · intro hnd
      have hnd' : (p.1 :: p.2).Nodup := hperm.nodup_iff.mp hnd
      rw [List.nodup_cons] at hnd' ⊢
      exact ⟨fun hm => hnd'.1 (h2 _ hm), h3 hnd'.2⟩

theorem arrangements_complete {α} : ∀ (l' l : List α), l'.Nodup → (∀ x ∈ l', x ∈ l) →
    l' ∈ arrangements l'.length l
  | [], l, _, _ => by simp [arrangements]
  | x :: xs, l, hnd, hsub => by
    obtain ⟨rest, hr⟩ := picks_complete l x (hsub x (by simp))
    have hperm := picks_perm l _ hr
    rw [List.nodup_cons] at hnd
    have hsub' : ∀ y ∈ xs, y ∈ rest := by
      intro y hy
      have : y ∈ x :: rest := hperm.mem_iff.mp (hsub y (List.mem_cons_of_mem _ hy))
      rcases List.mem_cons.mp this with rfl | h
      · exact absurd hy hnd.1
      · exact h
    have ih := arrangements_complete xs rest hnd.2 hsub'
    simp only [List.length_cons, arrangements, List.mem_flatMap, List.mem_map]
    exact ⟨(x, rest), hr, xs, ih, rfl⟩

/-! ### dedup -/

theorem mem_dedup {α} [BEq α] [LawfulBEq α] : ∀ (l seen : List α) (x : α),
    x ∈ dedup l seen ↔ x ∈ l ∧ x ∉ seen
  | [], seen, x => by simp [dedup]
  | y :: ys, seen, x => by
    simp only [dedup]
    split
    · rename_i hc
      have hy : y ∈ seen := by simpa using hc
      rw [mem_dedup ys seen x]
      constructor
      · rintro ⟨h1, h2⟩; exact ⟨List.mem_cons_of_mem _ h1, h2⟩
      · rintro ⟨h1, h2⟩
        rcases List.mem_cons.mp h1 with rfl | h1
        · exact absurd hy h2
        · exact ⟨h1, h2⟩
    · rename_i hc
      have hy : y ∉ seen := by simpa using hc
      rw [List.mem_cons, mem_dedup ys (y :: seen) x]
      constructor
      · rintro (rfl | ⟨h1, h2⟩)
        · exact ⟨by simp, hy⟩
        · exact ⟨List.mem_cons_of_mem _ h1, fun h => h2 (List.mem_cons_of_mem _ h)⟩
      · rintro ⟨h1, h2⟩
        by_cases hxy : x = y
        · exact Or.inl hxy
        · rcases List.mem_cons.mp h1 with rfl | h1
          · exact absurd rfl hxy
          · exact Or.inr ⟨h1, by simp [hxy, h2]⟩

/-! ### generate -/

/-- the position list `a` assigns all pattern positions to distinct structure positions whose
    symbols the (already lower-cased) rule admits -/
def Assignment (w : Option String) (pat str : List String) (a : List Nat) : Prop :=
  a.length = pat.length ∧ a.Nodup ∧ (∀ i ∈ a, i < str.length) ∧
    ∀ x ∈ pat.zip a, (some x.1 == w) = true ∨ str[x.2]? = some x.1

theorem mem_indexed (str : List String) (i : Nat) (s : String) :
    (i, s) ∈ (List.range str.length).zip str ↔ str[i]? = some s := by
  rw [List.mem_iff_getElem]
  constructor
  · rintro ⟨j, hj, he⟩
    simp only [List.getElem_zip, List.getElem_range, Prod.mk.injEq] at he
    obtain ⟨rfl, rfl⟩ := he
    simp at hj
    simp [hj]
  · intro h
    obtain ⟨hi, rfl⟩ := List.getElem?_eq_some_iff.mp h
    exact ⟨i, by simp [hi], by simp⟩

theorem indexed_fst_inj (str : List String) :
    ∀ x ∈ (List.range str.length).zip str, ∀ y ∈ (List.range str.length).zip str,
      x.1 = y.1 → x = y := by
  rintro ⟨i, s⟩ hx ⟨j, t⟩ hy h
  simp only at h
  subst h
  have h1 := (mem_indexed str i s).mp hx
  have h2 := (mem_indexed str i t).mp hy
  rw [h1] at h2
  simp at h2
  simp [h2]

theorem indexed_nodup (str : List String) : ((List.range str.length).zip str).Nodup := by
  have : (((List.range str.length).zip str).map (·.1)).Nodup := by
    rw [List.map_fst_zip (by simp)]
    exact List.nodup_range
  exact nodup_of_map _ this

theorem generate_sound (w : Option String) (pat str : List String) (a : List Nat)
    (h : a ∈ generate pat str w) : Assignment w pat str a := by
  unfold generate at h
  split at h
  · simp at h
  · simp only [List.mem_filterMap] at h
    obtain ⟨arr, harr, hc⟩ := h
    split at hc
    · rename_i hall
      simp only [Option.some.injEq] at hc
      subst hc
      obtain ⟨h1, h2, h3⟩ := arrangements_sound _ _ _ harr
      have hnd := h3 (indexed_nodup str)
      refine ⟨by simp [h1], ?_, ?_, ?_⟩
      · refine nodup_map_on ?_ hnd
        intro x hx y hy hxy
        exact indexed_fst_inj str x (h2 x hx) y (h2 y hy) hxy
      · intro i hi
        simp only [List.mem_map] at hi
        obtain ⟨x, hx, rfl⟩ := hi
        have := (mem_indexed str x.1 x.2).mp (h2 x hx)
        exact (List.getElem?_eq_some_iff.mp this).1
      · intro x hx
        rw [List.zip_map_right, List.mem_map] at hx
        obtain ⟨y, hy, rfl⟩ := hx
        have hcond := List.all_eq_true.mp hall y hy
        simp only [Bool.or_eq_true, beq_iff_eq] at hcond
        rcases hcond with hcw | hce
        · left; simpa using hcw
        · right
          have hmem : y.2 ∈ arr := (List.of_mem_zip hy).2
          have := (mem_indexed str y.2.1 y.2.2).mp (h2 _ hmem)
          simp only [Prod.map_fst, Prod.map_snd, id]
          rw [this, hce]
    · simp at hc

theorem generate_complete (w : Option String) (pat str : List String) (a : List Nat)
    (hne : pat ≠ []) (h : Assignment w pat str a) : a ∈ generate pat str w := by
  obtain ⟨hlen, hnd, hrange, hadm⟩ := h
  unfold generate
  have : pat.isEmpty = false := by cases pat <;> simp_all
  simp only [this, Bool.false_eq_true, ↓reduceIte, List.mem_filterMap]
  let arr : List (Nat × String) := a.map fun i => (i, str[i]?.getD "")
  have harrlen : arr.length = pat.length := by simp [arr, hlen]
  have hmem : ∀ x ∈ arr, x ∈ (List.range str.length).zip str := by
    intro x hx
    simp only [arr, List.mem_map] at hx
    obtain ⟨i, hi, rfl⟩ := hx
    rw [mem_indexed]
    have := hrange i hi
    simp [this]
  have harrnd : arr.Nodup := by
    refine nodup_map_on ?_ hnd
    intro x _ y _ hxy
    simp only [Prod.mk.injEq] at hxy
    exact hxy.1
  refine ⟨arr, ?_, ?_⟩
  · have := arrangements_complete arr _ harrnd hmem
    rwa [harrlen] at this
  · have hall : ((pat.zip arr).all fun ps => some ps.1 == w || ps.1 == ps.2.2) = true := by
      rw [List.all_eq_true]
      intro x hx
      simp only [arr] at hx
      rw [List.zip_map_right, List.mem_map] at hx
      obtain ⟨y, hy, rfl⟩ := hx
      simp only [Prod.map_fst, Prod.map_snd, id, Bool.or_eq_true, beq_iff_eq]
      rcases hadm y hy with h1 | h2
      · left; simpa using h1
      · right; simp [h2]
    rw [if_pos hall]
    simp [arr, List.map_map, Function.comp_def]

/-! ### permute for mappers that cannot map to nothing -/

def lowerOf (m : Mapper) (s : String) : String := if m.ignoreCase then s.toLower else s

/-- the single-symbol rule in closed form: the (lower-cased) pattern symbol is the wildcard or
    equals the (lower-cased) structure symbol -/
def admit1 (m : Mapper) (ps ss : String) : Bool :=
  (some (lowerOf m ps) == m.wildcard.map (lowerOf m)) || lowerOf m ps == lowerOf m ss

theorem permute_eq (m : Mapper) (hc : m.canMapToNothing = []) (pat str : List String) :
    m.permute pat str =
      dedup ((generate (pat.map (lowerOf m)) (str.map (lowerOf m)) (m.wildcard.map (lowerOf m))).map toInts) [] := by
  unfold Mapper.permute Mapper.cmtnSorted
  simp only [hc, List.filter_nil, List.append_nil, List.map_nil, pad, List.contains_nil,
    Bool.false_eq_true, ↓reduceIte]
  rfl

theorem mem_permute (m : Mapper) (hc : m.canMapToNothing = []) (pat str : List String) (a : List Int) :
    a ∈ m.permute pat str ↔
      ∃ a' ∈ generate (pat.map (lowerOf m)) (str.map (lowerOf m)) (m.wildcard.map (lowerOf m)),
        a = toInts a' := by
  rw [permute_eq m hc, mem_dedup]
  simp only [List.mem_map, List.not_mem_nil, not_false_eq_true, and_true]
  constructor
  · rintro ⟨a', h, rfl⟩; exact ⟨a', h, rfl⟩
  · rintro ⟨a', h, rfl⟩; exact ⟨a', h, rfl⟩

/-- `a` assigns every pattern position to a distinct structure position with an admitted symbol -/
def Admissible (m : Mapper) (pat str : List String) (a : List Nat) : Prop :=
  a.length = pat.length ∧ a.Nodup ∧ (∀ i ∈ a, i < str.length) ∧
    ∀ x ∈ pat.zip a, ∃ ss, str[x.2]? = some ss ∧ admit1 m x.1 ss = true

theorem assignment_iff_admissible (m : Mapper) (pat str : List String) (a : List Nat) :
    Assignment (m.wildcard.map (lowerOf m)) (pat.map (lowerOf m)) (str.map (lowerOf m)) a ↔
      Admissible m pat str a := by
  unfold Assignment Admissible
  simp only [List.length_map]
  refine and_congr_right fun _ => and_congr_right fun _ => and_congr_right fun hr => ?_
  constructor
  · intro h x hx
    have hx' : (lowerOf m x.1, x.2) ∈ (pat.map (lowerOf m)).zip a := by
      rw [List.zip_map_left, List.mem_map]
      exact ⟨x, hx, rfl⟩
    have hi : x.2 < str.length := hr _ (List.of_mem_zip hx).2
    refine ⟨str[x.2], by simp [hi], ?_⟩
    rcases h _ hx' with h1 | h2
    · simp only [admit1, Bool.or_eq_true]; left; simpa using h1
    · simp only [admit1, Bool.or_eq_true, beq_iff_eq]; right
      simp only [List.getElem?_map, hi, List.getElem?_eq_getElem, Option.map_some, Option.some.injEq] at h2
      exact h2.symm
  · intro h x hx
    rw [List.zip_map_left, List.mem_map] at hx
    obtain ⟨y, hy, rfl⟩ := hx
    obtain ⟨ss, hss, hadm⟩ := h y hy
    simp only [admit1, Bool.or_eq_true, beq_iff_eq] at hadm
    simp only [Prod.map_fst, Prod.map_snd, id]
    rcases hadm with h1 | h2
    · left; simpa using h1
    · right; simp [List.getElem?_map, hss, h2]

/-- **completeness of `permute`** (`canMapToNothing = []`): every admissible assignment is listed -/
theorem permute_complete (m : Mapper) (hc : m.canMapToNothing = []) (pat str : List String)
    (a : List Nat) (hne : pat ≠ []) (h : Admissible m pat str a) :
    toInts a ∈ m.permute pat str := by
  rw [mem_permute m hc]
  refine ⟨a, generate_complete _ _ _ _ (by simpa using hne) ?_, rfl⟩
  exact (assignment_iff_admissible m pat str a).mpr h

/-- **soundness of `permute`** (`canMapToNothing = []`): every listed assignment is admissible
    (in particular it has no "nothing" entries) -/
theorem permute_sound (m : Mapper) (hc : m.canMapToNothing = []) (pat str : List String)
    (a : List Int) (h : a ∈ m.permute pat str) :
    ∃ a' : List Nat, a = toInts a' ∧ Admissible m pat str a' := by
  rw [mem_permute m hc] at h
  obtain ⟨a', h1, rfl⟩ := h
  exact ⟨a', rfl, (assignment_iff_admissible m pat str a').mp (generate_sound _ _ _ _ h1)⟩

/-- the question asked about the anchor pair, in closed form -/
theorem admits_eq_admit1 (m : Mapper) (hc : m.canMapToNothing = []) (ps hs : String) :
    admits m ps hs = admit1 m ps hs := by
  unfold admits
  rw [permute_eq m hc]
  by_cases h : admit1 m ps hs = true
  · rw [h]
    have : generate [lowerOf m ps] [lowerOf m hs] (m.wildcard.map (lowerOf m)) = [[0]] := by
      simp only [admit1] at h
      simp [generate, arrangements, picks, h]
    simp [this, dedup, toInts]
  · have h' : admit1 m ps hs = false := by simpa using h
    rw [h']
    have : generate [lowerOf m ps] [lowerOf m hs] (m.wildcard.map (lowerOf m)) = [] := by
      simp only [admit1] at h'
      simp [generate, arrangements, picks, h']
    simp [this, dedup]

/-! ### non-vacuity (tests on concrete inputs, labelled as such) -/

/-- test (non-vacuity of `permute_complete`): `R ↦ position 1 (O)`, `C ↦ position 0 (C)` -/
example : toInts [1, 0] ∈ ({ wildcard := some "R" } : Mapper).permute ["R", "C"] ["C", "O"] :=
  permute_complete _ rfl _ _ _ (by simp) ⟨rfl, by decide, by decide, by
    intro x hx
    simp at hx
    rcases hx with rfl | rfl <;> simp [admit1, lowerOf]⟩

/-- test (non-vacuity of `permute_sound`): the listed assignment `[1, 0]` is admissible -/
example : ∃ a', ([1, 0] : List Int) = toInts a' ∧
    Admissible ({ wildcard := some "R" } : Mapper) ["R", "C"] ["C", "O"] a' :=
  permute_sound _ rfl _ _ _ (by decide)

/-- test: the model's list on a symmetric neighbourhood (both orders are offered: backtracking) -/
example : ({ wildcard := some "R" } : Mapper).permute ["C", "C"] ["C", "O", "C"] = [[0, 2], [2, 0]] := by decide

end C03
