import FGVerif.Proofs.C07DefaultDefs
/-! C07 — kernel-checked correspondence of the matcher model with the code on rows 16…23 of the default table -/
namespace C07
open Gen.C07
theorem default_emb_rows2 : embRows ((configs.drop (2 * chunk)).take chunk) = (embImpl.drop (2 * chunk)).take chunk := by
  decide +kernel
end C07
