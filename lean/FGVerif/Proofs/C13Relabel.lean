import FGVerif.Proofs.C13Nodes
import FGVerif.Proofs.C13Edges
/-!
  C13 — `relabel_graph(g, offset)` is an order-preserving renumbering onto `offset, offset+1, …`
  that keeps attributes and bonds (for every well-formed graph, whatever its ids).
-/
namespace C13
open Graph

theorem pairwise_lt_of_le_nodup : ∀ (l : List Int), l.Pairwise (· ≤ ·) → l.Nodup → l.Pairwise (· < ·) := by
  intro l
  induction l with
  | nil => intro _ _; exact List.Pairwise.nil
  | cons x l ih =>
    intro h hn
    rw [List.pairwise_cons] at h ⊢
    rw [List.nodup_cons] at hn
    refine ⟨fun z hz => ?_, ih h.2 hn.2⟩
    have := h.1 z hz
    have hne : x ≠ z := fun e => hn.1 (e ▸ hz)
    omega

theorem sortAsc_strict (l : List Int) (hn : l.Nodup) : (sortAsc l).Pairwise (· < ·) :=
  pairwise_lt_of_le_nodup _ (sortAsc_sortedLE l) ((sortAsc_perm l).nodup_iff.mpr hn)

theorem rank_perm {S L : List Int} (h : S.Perm L) (u : Int) : rank S u = rank L u := by
  unfold rank
  rw [(h.filter _).length_eq]

/-- in a strictly ascending list the rank of the `i`-th element is `i` -/
theorem rank_sorted_getElem (S : List Int) (hs : S.Pairwise (· < ·)) : ∀ (i : Nat) (hi : i < S.length),
    rank S S[i] = (i : Int) := by
  induction S with
  | nil => intro i hi; simp at hi
  | cons x S ih =>
    intro i hi
    rw [List.pairwise_cons] at hs
    cases i with
    | zero =>
      simp only [List.getElem_cons_zero, rank, List.filter_cons, Int.lt_irrefl, decide_false, Bool.false_eq_true, if_false]
      have : S.filter (fun y => decide (y < x)) = [] := by
        apply List.filter_eq_nil_iff.mpr
        intro z hz; have := hs.1 z hz; simp; omega
      simp [this]
    | succ j =>
      have hj : j < S.length := by simpa using hi
      have hx : x < S[j] := hs.1 _ (List.getElem_mem hj)
      simp only [List.getElem_cons_succ, rank, List.filter_cons, hx, decide_true, if_true, List.length_cons]
      have := ih hs.2 j hj
      unfold rank at this
      omega

theorem mapId_relabelMapping (g : Graph) (off : Int) (hn : g.nodeIds.Nodup) (u : Int) (hu : u ∈ g.nodeIds) :
    mapId (relabelMapping g off) u = rank g.nodeIds u + off := by
  have hp := sortAsc_perm g.nodeIds
  have hs := sortAsc_strict g.nodeIds hn
  have hu' : u ∈ sortAsc g.nodeIds := hp.mem_iff.mpr hu
  obtain ⟨i, hi, rfl⟩ := List.getElem_of_mem hu'
  unfold relabelMapping
  rw [E.mapId_zipIdx (sortAsc g.nodeIds) off (hp.nodup_iff.mpr hn) 0 i hi]
  rw [← rank_perm hp, rank_sorted_getElem _ hs i hi]
  simp

/-- the renumbering is strictly monotone on the ids -/
theorem rank_lt (L : List Int) (u v : Int) (hu : u ∈ L) (h : u < v) : rank L u < rank L v := by
  unfold rank
  have hsub : L.filter (fun y => decide (y < u)) = (L.filter (fun y => decide (y < v))).filter (fun y => decide (y < u)) := by
    rw [List.filter_filter]
    congr 1; funext y
    by_cases hy : y < u
    · have : y < v := by omega
      simp [hy, this]
    · simp [hy]
  rw [hsub]
  have : ((L.filter (fun y => decide (y < v))).filter (fun y => decide (y < u))).length
      < (L.filter (fun y => decide (y < v))).length := by
    apply List.length_filter_lt_length_iff_exists.mpr
    exact ⟨u, List.mem_filter.mpr ⟨hu, by simpa using h⟩, by simp⟩
  exact Int.ofNat_lt.mpr this

theorem rank_inj (L : List Int) (u v : Int) (hu : u ∈ L) (hv : v ∈ L) (h : rank L u = rank L v) : u = v := by
  rcases Int.lt_trichotomy u v with hlt | heq | hgt
  · have := rank_lt L u v hu hlt; omega
  · exact heq
  · have := rank_lt L v u hv hgt; omega

theorem rank_nonneg (L : List Int) (u : Int) : 0 ≤ rank L u := by unfold rank; omega

theorem rank_lt_length (L : List Int) (u : Int) (hu : u ∈ L) : rank L u < L.length := by
  unfold rank
  have : (L.filter (fun y => decide (y < u))).length < L.length :=
    List.length_filter_lt_length_iff_exists.mpr ⟨u, hu, by simp⟩
  exact Int.ofNat_lt.mpr this

/-! ### an inverse of the renumbering (a non-node for numbers that are not in the image) -/

def listMax (l : List Int) : Int := l.foldl max 0

theorem le_foldl_max (l : List Int) : ∀ (a : Int), a ≤ l.foldl max a ∧ ∀ x ∈ l, x ≤ l.foldl max a := by
  induction l with
  | nil => intro a; simp
  | cons y ys ih =>
    intro a
    simp only [List.foldl_cons]
    have := ih (max a y)
    refine ⟨by omega, ?_⟩
    intro x hx
    rcases List.mem_cons.mp hx with rfl | hx
    · omega
    · exact this.2 x hx

def relabelInv (g : Graph) (off : Int) (c : Int) : Int :=
  match g.nodeIds.find? (fun u => rank g.nodeIds u + off == c) with
  | some u => u
  | none => listMax g.nodeIds + 1

theorem relabel_inverts (g : Graph) (off : Int) (hn : g.nodeIds.Nodup) :
    E.Inverts g (mapId (relabelMapping g off)) (relabelInv g off) := by
  intro u hu c
  rw [mapId_relabelMapping g off hn u hu]
  unfold relabelInv
  constructor
  · intro h
    cases hf : g.nodeIds.find? (fun u => rank g.nodeIds u + off == c) with
    | none =>
      have := List.find?_eq_none.mp hf u hu
      simp [h] at this
    | some u' =>
      have hu' := List.mem_of_find?_eq_some hf
      have hc : rank g.nodeIds u' + off = c := by simpa using List.find?_some hf
      exact rank_inj g.nodeIds u u' hu hu' (by omega)
  · intro h
    cases hf : g.nodeIds.find? (fun u => rank g.nodeIds u + off == c) with
    | none =>
      simp only [hf] at h
      have := (le_foldl_max g.nodeIds 0).2 u hu
      unfold listMax at h
      omega
    | some u' =>
      simp only [hf] at h
      have hc : rank g.nodeIds u' + off = c := by simpa using List.find?_some hf
      rw [h]; exact hc

/-- `relabel_graph(g, offset)`: same kind of graph; node `u` becomes `rank u + offset` (its position
    among the sorted ids), in `g`'s node order with `g`'s attributes; bonds are carried along; the
    result is well-formed.  `rank` is strictly monotone (`rank_lt`) and `< n` (`rank_lt_length`). -/
theorem relabel_exact (g : Graph) (off : Int) (hw : wf g = true) :
    (relabelGraph g off).multi = g.multi ∧
    (relabelGraph g off).nodes = g.nodes.map (fun p => (rank g.nodeIds p.1 + off, p.2)) ∧
    (∀ a ∈ g.nodeIds, ∀ b ∈ g.nodeIds,
      labelsBetween (relabelGraph g off) (rank g.nodeIds a + off) (rank g.nodeIds b + off) = labelsBetween g a b) ∧
    wf (relabelGraph g off) = true := by
  have w := E.WF_of_wf hw
  have hi := relabel_inverts g off w.nodup
  unfold relabelGraph
  refine ⟨relabelCopy_multi _ _, ?_, ?_, E.wf_of_WF (E.WF_relabelCopy w hi)⟩
  · rw [E.relabelCopy_nodes w]
    apply List.map_congr_left
    intro p hp
    rw [mapId_relabelMapping g off w.nodup p.1 (List.mem_map.mpr ⟨p, hp, rfl⟩)]
  · intro a ha b hb
    unfold labelsBetween
    rw [E.relabelCopy_edgeData w hi]
    have ha' := (hi a ha (rank g.nodeIds a + off)).mp (mapId_relabelMapping g off w.nodup a ha)
    have hb' := (hi b hb (rank g.nodeIds b + off)).mp (mapId_relabelMapping g off w.nodup b hb)
    rw [← ha', ← hb']

/-- declarative specification of `relabel_graph` -/
structure RelabelSpec (g : Graph) (off : Int) (out : Graph) : Prop where
  multi : out.multi = g.multi
  nodes : out.nodes = g.nodes.map (fun p => (rank g.nodeIds p.1 + off, p.2))
  labels : ∀ a ∈ g.nodeIds, ∀ b ∈ g.nodeIds,
    (labelsBetween out (rank g.nodeIds a + off) (rank g.nodeIds b + off)).Perm (labelsBetween g a b)

theorem relabel_spec (g : Graph) (off : Int) (hw : wf g = true) : RelabelSpec g off (relabelGraph g off) := by
  obtain ⟨hm, hn, hl, _⟩ := relabel_exact g off hw
  exact ⟨hm, hn, fun a ha b hb => by rw [hl a ha b hb]⟩

theorem relabelSpecCheck_sound (g : Graph) (off : Int) (out : Graph) (h : relabelSpecCheck g off out = true) :
    RelabelSpec g off out := by
  simp only [relabelSpecCheck, Bool.and_eq_true, List.all_eq_true, beq_iff_eq] at h
  obtain ⟨⟨⟨hm, hn⟩, _⟩, hall⟩ := h
  exact ⟨hm, hn, fun a ha b hb => List.isPerm_iff.mp (hall a ha b hb)⟩

/-- the model passes the executable relabel spec -/
theorem relabel_specCheck (g : Graph) (off : Int) (hw : wf g = true) :
    relabelSpecCheck g off (relabelGraph g off) = true := by
  obtain ⟨hm, hn, hl, hwf⟩ := relabel_exact g off hw
  simp only [relabelSpecCheck, Bool.and_eq_true, List.all_eq_true, beq_iff_eq]
  refine ⟨⟨⟨hm, hn⟩, ?_⟩, ?_⟩
  · have hc := closed_of_wf _ hwf
    simp only [closedB, List.all_eq_true, Bool.and_eq_true]
    intro r hr
    exact ⟨by simpa using (hasNode_iff _ _).mp (hc r hr).1,
           fun e he => by simpa using (hasNode_iff _ _).mp ((hc r hr).2 e he)⟩
  · intro a ha b hb
    rw [hl a ha b hb]
    exact List.isPerm_iff.mpr (List.Perm.refl _)

end C13
