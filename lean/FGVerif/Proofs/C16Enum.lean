import FGVerif.Proofs.C16Main
namespace C16

/-! ### the own enumerator lists every monomorphism exactly once -/

theorem forall2_nil_right {α β : Type} {R : α → β → Prop} {l : List α} : Forall2 R l [] ↔ l = [] := by
  constructor
  · intro h; cases h; rfl
  · rintro rfl; exact Forall2.nil

theorem forall2_cons_right {α β : Type} {R : α → β → Prop} {l : List α} {b : β} {bs : List β} :
    Forall2 R l (b :: bs) ↔ ∃ a as, l = a :: as ∧ R a b ∧ Forall2 R as bs := by
  constructor
  · intro h; cases h with | cons h1 h2 => exact ⟨_, _, rfl, h1, h2⟩
  · rintro ⟨a, as, rfl, h1, h2⟩; exact Forall2.cons h1 h2

/-- position by position: the rule node of the pair is the node of `l`, and the reactant node
    carries that node's symbol -/
def RelN (gnodes : List (Int × String)) (p : Int × Int) (n : Int × String) : Prop :=
  p.2 = n.1 ∧ (p.1, n.2) ∈ gnodes

theorem mem_enumInj (gnodes : List (Int × String)) :
    ∀ (lnodes : List (Int × String)) (used : List Int) (m : Match),
      m ∈ enumInj gnodes lnodes used ↔
        Forall2 (RelN gnodes) m lnodes ∧ (m.map (·.1)).Nodup ∧ ∀ p ∈ m, p.1 ∉ used := by
  intro lnodes
  induction lnodes with
  | nil =>
    intro used m
    simp only [enumInj, List.mem_singleton, forall2_nil_right]
    constructor
    · rintro rfl; simp
    · intro h; exact h.1
  | cons n rest ih =>
    intro used m
    obtain ⟨x, s⟩ := n
    simp only [enumInj, List.mem_flatMap, List.mem_filter, List.mem_map, forall2_cons_right]
    constructor
    · rintro ⟨c, ⟨hc, hcond⟩, m', hm', rfl⟩
      simp only [Bool.and_eq_true, beq_iff_eq, Bool.not_eq_true', List.contains_eq_mem,
        decide_eq_false_iff_not] at hcond
      obtain ⟨h1, h2, h3⟩ := (ih (c.1 :: used) m').mp hm'
      refine ⟨⟨(c.1, x), m', rfl, ⟨rfl, ?_⟩, h1⟩, ?_, ?_⟩
      · show (c.1, s) ∈ gnodes
        rw [← hcond.1]; exact hc
      · rw [List.map_cons, List.nodup_cons]
        refine ⟨?_, h2⟩
        intro hmem
        obtain ⟨p, hp, hpe⟩ := List.mem_map.mp hmem
        exact h3 p hp (by rw [hpe]; simp)
      · intro p hp
        rcases List.mem_cons.mp hp with rfl | hp'
        · exact hcond.2
        · intro hu; exact h3 p hp' (List.mem_cons_of_mem _ hu)
    · rintro ⟨⟨p, m', rfl, ⟨hp2, hpg⟩, hf⟩, hnd, hused⟩
      rw [List.map_cons, List.nodup_cons] at hnd
      refine ⟨(p.1, s), ⟨hpg, ?_⟩, m', ?_, ?_⟩
      · simp only [Bool.and_eq_true, beq_iff_eq, Bool.not_eq_true', List.contains_eq_mem,
          decide_eq_false_iff_not]
        exact ⟨trivial, hused p (by simp)⟩
      · refine (ih (p.1 :: used) m').mpr ⟨hf, hnd.2, ?_⟩
        intro q hq hc
        rcases List.mem_cons.mp hc with h | h
        · exact hnd.1 (List.mem_map.mpr ⟨q, hq, h⟩)
        · exact hused q (List.mem_cons_of_mem _ hq) h
      · show (p.1, x) :: m' = p :: m'
        have hp2' : p.2 = x := hp2
        rw [← hp2']

theorem enumInj_nodup (gnodes : List (Int × String)) (hg : (gnodes.map (·.1)).Nodup) :
    ∀ (lnodes : List (Int × String)) (used : List Int), (enumInj gnodes lnodes used).Nodup := by
  intro lnodes
  induction lnodes with
  | nil => intro used; simp [enumInj]
  | cons n rest ih =>
    intro used
    obtain ⟨x, s⟩ := n
    simp only [enumInj]
    unfold List.Nodup
    rw [List.pairwise_flatMap]
    constructor
    · intro c _
      rw [List.pairwise_map]
      refine (ih (c.1 :: used)).imp ?_
      intro a b hab hc
      exact hab (List.cons.inj hc).2
    · have hpw : List.Pairwise (fun (a b : Int × String) => a.1 ≠ b.1) gnodes := by
        have := hg
        unfold List.Nodup at this
        rw [List.pairwise_map] at this
        exact this
      refine (hpw.filter _).imp ?_
      intro a b hab m1 hm1 m2 hm2 heq
      obtain ⟨m1', _, rfl⟩ := List.mem_map.mp hm1
      obtain ⟨m2', _, rfl⟩ := List.mem_map.mp hm2
      have := (List.cons.inj heq).1
      exact hab (Prod.mk.inj this).1

theorem monos_nodup (g l : MolGraph) (hg : g.nodeIds.Nodup) : (monos g l).Nodup := by
  unfold monos
  exact (enumInj_nodup g.nodes hg l.nodes []).filter _

end C16
