import FGVerif.Proofs.C13EdgesA
/-!
  C13 (edge level), part B: the well-formedness invariant as a `Prop` (`WF`), derived from the
  executable `wf`, and its preservation by `addEdgeKey`, `addEdgesFrom`, `addNodesFrom`.
-/
set_option linter.unusedSimpArgs false
namespace C13.E
open Graph

/-- Prop form of `C13.wf`, phrased with the accessors `neighbors` / `edgeData` -/
structure WF (g : Graph) : Prop where
  rows : Rows g
  nodup : g.nodeIds.Nodup
  nbrNodup : ∀ u, (g.neighbors u).Nodup
  closed : ∀ u v, v ∈ g.neighbors u → v ∈ g.nodeIds
  nonempty : ∀ u v, v ∈ g.neighbors u → g.edgeData u v ≠ []
  keysNodup : ∀ u v, (keys (g.edgeData u v)).Nodup
  simple : g.multi = false → ∀ u v, g.edgeData u v ≠ [] → keys (g.edgeData u v) = [0]
  symm : ∀ u v, g.edgeData u v = g.edgeData v u

theorem mem_neighbors_of_edgeData {g : Graph} {u v : Int} (h : g.edgeData u v ≠ []) : v ∈ g.neighbors u := by
  rw [edgeData_row] at h; exact mem_ids_of_lk_ne_nil h

theorem mem_adj_of_neighbors {g : Graph} {u v : Int} (h : v ∈ g.neighbors u) : u ∈ ids g.adj := by
  rw [neighbors_eq] at h
  apply mem_ids_of_lk_ne_nil
  intro e; rw [e] at h; simp at h

theorem WF.left_mem {g : Graph} (w : WF g) {u v : Int} (h : g.edgeData u v ≠ []) : u ∈ g.nodeIds := by
  have := mem_adj_of_neighbors (mem_neighbors_of_edgeData h)
  rwa [w.rows] at this

theorem WF.right_mem {g : Graph} (w : WF g) {u v : Int} (h : g.edgeData u v ≠ []) : v ∈ g.nodeIds :=
  w.closed u v (mem_neighbors_of_edgeData h)

theorem edgeData_nil_of_not_node {g : Graph} (w : WF g) {u v : Int} (h : u ∉ g.nodeIds ∨ v ∉ g.nodeIds) :
    g.edgeData u v = [] := by
  apply Classical.byContradiction
  intro hn
  rcases h with h | h
  · exact h (w.left_mem hn)
  · exact h (w.right_mem hn)

/-! ### from the executable `wf` -/

theorem nodupB_iff (l : List Int) : nodupB l = true ↔ l.Nodup := by
  induction l with
  | nil => simp [nodupB]
  | cons x xs ih => simp [nodupB, ih]

theorem nodupNatB_iff (l : List Nat) : nodupNatB l = true ↔ l.Nodup := by
  induction l with
  | nil => simp [nodupNatB]
  | cons x xs ih => simp [nodupNatB, ih]

/-- the per-entry facts that `wf` checks -/
structure EntryOk (g : Graph) (u : Int) (e : Int × KeyDict) : Prop where
  mem : e.1 ∈ g.nodeIds
  keysNodup : (keys e.2).Nodup
  nonempty : e.2 ≠ []
  simple : g.multi = false → keys e.2 = [0]
  back : g.edgeData e.1 u = e.2

theorem wf_iff (g : Graph) : wf g = true ↔
    Rows g ∧ g.nodeIds.Nodup ∧ ∀ r ∈ g.adj, (ids r.2).Nodup ∧ ∀ e ∈ r.2, EntryOk g r.1 e := by
  unfold wf Rows
  simp only [Bool.and_eq_true, beq_iff_eq, nodupB_iff, List.all_eq_true, nodupNatB_iff,
    List.contains_eq_mem, decide_eq_true_eq, Bool.not_eq_true', Bool.or_eq_true, List.isEmpty_eq_false_iff]
  constructor
  · rintro ⟨⟨h1, h2⟩, h3⟩
    refine ⟨h1, h2, fun r hr => ⟨(h3 r hr).1, fun e he => ?_⟩⟩
    obtain ⟨⟨⟨⟨a, b⟩, c⟩, d⟩, f⟩ := (h3 r hr).2 e he
    refine ⟨a, b, c, fun hm => ?_, f⟩
    rcases d with d | d
    · rw [hm] at d; cases d
    · exact d
  · rintro ⟨h1, h2, h3⟩
    refine ⟨⟨h1, h2⟩, fun r hr => ⟨(h3 r hr).1, fun e he => ?_⟩⟩
    obtain ⟨a, b, c, d, f⟩ := (h3 r hr).2 e he
    refine ⟨⟨⟨⟨a, b⟩, c⟩, ?_⟩, f⟩
    cases hm : g.multi
    · exact Or.inr (d hm)
    · exact Or.inl rfl

theorem WF_of_wf {g : Graph} (h : wf g = true) : WF g := by
  obtain ⟨hr, hn, hall⟩ := (wf_iff g).mp h
  -- facts about the row of `u` and its entry for `v`
  have hrow : ∀ u, u ∈ ids g.adj → (ids (g.adjRow u)).Nodup ∧ ∀ e ∈ g.adjRow u, EntryOk g u e := by
    intro u hu
    have := hall _ (lk_mem hu)
    rw [adjRow_eq]; exact this
  have hent : ∀ u v, v ∈ g.neighbors u → EntryOk g u (v, g.edgeData u v) := by
    intro u v hv
    have hu := mem_adj_of_neighbors hv
    have := (hrow u hu).2 (v, lk (g.adjRow u) v) (lk_mem hv)
    rw [edgeData_row]; exact this
  have hsym : ∀ u v, v ∈ g.neighbors u → g.edgeData v u = g.edgeData u v := fun u v hv => (hent u v hv).back
  refine ⟨hr, hn, ?_, ?_, ?_, ?_, ?_, ?_⟩
  · intro u
    by_cases hu : u ∈ ids g.adj
    · exact (hrow u hu).1
    · rw [neighbors_eq, lk_eq_nil hu]; simp
  · intro u v hv; exact (hent u v hv).mem
  · intro u v hv; exact (hent u v hv).nonempty
  · intro u v
    by_cases hv : g.edgeData u v = []
    · rw [hv]; simp [keys]
    · exact (hent u v (mem_neighbors_of_edgeData hv)).keysNodup
  · intro hm u v hv
    exact (hent u v (mem_neighbors_of_edgeData hv)).simple hm
  · intro u v
    by_cases hv : g.edgeData u v = []
    · by_cases hu : g.edgeData v u = []
      · rw [hv, hu]
      · have := hsym v u (mem_neighbors_of_edgeData hu)
        rw [this] at hv; exact absurd hv hu
    · exact (hsym u v (mem_neighbors_of_edgeData hv)).symm

theorem wf_of_WF {g : Graph} (w : WF g) : wf g = true := by
  rw [wf_iff]
  refine ⟨w.rows, w.nodup, fun r hr => ?_⟩
  have hn : (ids g.adj).Nodup := by rw [w.rows]; exact w.nodup
  have hrow : g.adjRow r.1 = r.2 := by rw [adjRow_eq]; exact lk_of_mem_nodup hn hr
  have hnb : (ids r.2).Nodup := by rw [← hrow]; exact w.nbrNodup r.1
  refine ⟨hnb, fun e he => ?_⟩
  have hed : g.edgeData r.1 e.1 = e.2 := by
    rw [edgeData_row, hrow]; exact lk_of_mem_nodup hnb he
  have hmem : e.1 ∈ g.neighbors r.1 := by
    rw [neighbors_row, hrow]; exact mem_ids_of_mem he
  have hne := w.nonempty _ _ hmem
  refine ⟨w.closed _ _ hmem, ?_, ?_, ?_, ?_⟩
  · rw [← hed]; exact w.keysNodup _ _
  · rw [← hed]; exact hne
  · intro hm; rw [← hed]; exact w.simple hm _ _ hne
  · rw [w.symm, hed]

/-! ### preservation by `addEdgeKey` -/

theorem mem_addNbr {l : List Int} {v x : Int} : x ∈ addNbr l v ↔ x ∈ l ∨ x = v := by
  unfold addNbr
  by_cases h : v ∈ l
  · simp only [h, if_true]
    constructor
    · exact Or.inl
    · rintro (h' | rfl); exact h'; exact h
  · simp [h]

theorem nodup_addNbr {l : List Int} (h : l.Nodup) (v : Int) : (addNbr l v).Nodup := by
  unfold addNbr
  by_cases hv : v ∈ l
  · simp [hv, h]
  · simp only [hv, if_false]
    rw [List.nodup_append]
    refine ⟨h, by simp, ?_⟩
    intro a ha b hb
    simp at hb; subst hb
    intro e; subst e; exact hv ha

theorem WF_addEdgeKey {g : Graph} (w : WF g) {u v : Int} (hu : u ∈ g.nodeIds) (hv : v ∈ g.nodeIds)
    (k : Nat) (l : Label) (hk : g.multi = false → k = 0) : WF (addEdgeKey g u v k l) := by
  have hN := neighbors_addEdgeKey w.rows hu hv k l
  have hE := edgeData_addEdgeKey w.rows hu hv k l
  have hI := addEdgeKey_nodeIds hu hv k l
  refine ⟨addEdgeKey_rows w.rows hu hv k l, ?_, ?_, ?_, ?_, ?_, ?_, ?_⟩
  · rw [hI]; exact w.nodup
  · intro a
    rw [hN]
    by_cases ha : a = u
    · simp only [ha, if_true]; exact nodup_addNbr (w.nbrNodup _) _
    · by_cases hb : a = v
      · have ha' : ¬ v = u := hb ▸ ha
        simp only [ha', hb, if_true, if_false]; exact nodup_addNbr (w.nbrNodup _) _
      · simp only [ha, hb, if_false]; exact w.nbrNodup _
  · intro a b hb
    rw [hI]
    rw [hN] at hb
    by_cases ha : a = u
    · simp only [ha, if_true] at hb
      rcases mem_addNbr.mp hb with h | h
      · exact w.closed _ _ h
      · rw [h]; exact hv
    · by_cases hav : a = v
      · have ha' : ¬ v = u := hav ▸ ha
        simp only [ha', hav, if_true, if_false] at hb
        rcases mem_addNbr.mp hb with h | h
        · exact w.closed _ _ h
        · rw [h]; exact hu
      · simp only [ha, hav, if_false] at hb
        exact w.closed _ _ hb
  · intro a b hb
    rw [hE]
    by_cases hc : (a = u ∧ b = v) ∨ (a = v ∧ b = u)
    · simp only [hc, if_true]; exact setKey_ne_nil _ _ _
    · simp only [hc, if_false]
      apply w.nonempty
      rw [hN] at hb
      by_cases ha : a = u
      · simp only [ha, if_true] at hb
        rcases mem_addNbr.mp hb with h | h
        · rw [ha]; exact h
        · exact absurd (Or.inl ⟨ha, h⟩) hc
      · by_cases hav : a = v
        · have ha' : ¬ v = u := hav ▸ ha
          simp only [ha', hav, if_true, if_false] at hb
          rcases mem_addNbr.mp hb with h | h
          · rw [hav]; exact h
          · exact absurd (Or.inr ⟨hav, h⟩) hc
        · simp only [ha, hav, if_false] at hb
          exact hb
  · intro a b
    rw [hE]
    by_cases hc : (a = u ∧ b = v) ∨ (a = v ∧ b = u)
    · simp only [hc, if_true, keys_setKey]
      by_cases hkk : k ∈ keys (g.edgeData a b)
      · simp only [hkk, if_true]; exact w.keysNodup _ _
      · simp only [hkk, if_false]
        rw [List.nodup_append]
        refine ⟨w.keysNodup _ _, by simp, ?_⟩
        intro x hx y hy
        simp at hy; subst hy
        intro e; subst e; exact hkk hx
    · simp only [hc, if_false]; exact w.keysNodup _ _
  · intro hm a b
    rw [addEdgeKey_multi hu hv] at hm
    have hk0 := hk hm
    subst hk0
    rw [hE]
    by_cases hc : (a = u ∧ b = v) ∨ (a = v ∧ b = u)
    · simp only [hc, if_true, keys_setKey]
      intro _
      by_cases hnil : g.edgeData a b = []
      · simp [hnil, keys]
      · have := w.simple hm a b hnil
        simp [this]
    · simp only [hc, if_false]; exact w.simple hm a b
  · intro a b
    rw [hE, hE]
    have hc : ((b = u ∧ a = v) ∨ (b = v ∧ a = u)) ↔ ((a = u ∧ b = v) ∨ (a = v ∧ b = u)) := by
      constructor <;> rintro (⟨h1, h2⟩ | ⟨h1, h2⟩)
      · exact Or.inr ⟨h2, h1⟩
      · exact Or.inl ⟨h2, h1⟩
      · exact Or.inr ⟨h2, h1⟩
      · exact Or.inl ⟨h2, h1⟩
    simp only [hc, w.symm b a]


/-! ### `addEdgesFrom` -/

/-- all endpoints of the edge list lie in `S` -/
def EndsIn (S : List Int) (E : List Edge) : Prop := ∀ e ∈ E, e.1 ∈ S ∧ e.2.1 ∈ S

theorem EndsIn.tail {S : List Int} {e : Edge} {E : List Edge} (h : EndsIn S (e :: E)) : EndsIn S E :=
  fun x hx => h x (List.mem_cons_of_mem _ hx)

theorem addEdgesFrom_cons (g : Graph) (e : Edge) (E : List Edge) :
    addEdgesFrom g (e :: E) = addEdgesFrom (addEdgeKey g e.1 e.2.1 e.2.2.1 e.2.2.2) E := rfl

theorem addEdgesFrom_nodes {g : Graph} {E : List Edge} (h : EndsIn g.nodeIds E) :
    (addEdgesFrom g E).nodes = g.nodes := by
  induction E generalizing g with
  | nil => rfl
  | cons e E ih =>
    have he := h e List.mem_cons_self
    rw [addEdgesFrom_cons, ih, addEdgeKey_nodes he.1 he.2]
    rw [addEdgeKey_nodeIds he.1 he.2]; exact h.tail

theorem addEdgesFrom_nodeIds {g : Graph} {E : List Edge} (h : EndsIn g.nodeIds E) :
    (addEdgesFrom g E).nodeIds = g.nodeIds := by
  unfold Graph.nodeIds; rw [addEdgesFrom_nodes h]

theorem addEdgesFrom_multi {g : Graph} {E : List Edge} (h : EndsIn g.nodeIds E) :
    (addEdgesFrom g E).multi = g.multi := by
  induction E generalizing g with
  | nil => rfl
  | cons e E ih =>
    have he := h e List.mem_cons_self
    rw [addEdgesFrom_cons, ih, addEdgeKey_multi he.1 he.2]
    rw [addEdgeKey_nodeIds he.1 he.2]; exact h.tail

theorem addEdgesFrom_rows {g : Graph} (hr : Rows g) {E : List Edge} (h : EndsIn g.nodeIds E) :
    Rows (addEdgesFrom g E) := by
  induction E generalizing g with
  | nil => exact hr
  | cons e E ih =>
    have he := h e List.mem_cons_self
    rw [addEdgesFrom_cons]
    apply ih (addEdgeKey_rows hr he.1 he.2 _ _)
    rw [addEdgeKey_nodeIds he.1 he.2]; exact h.tail

theorem WF_addEdgesFrom {g : Graph} (w : WF g) {E : List Edge} (h : EndsIn g.nodeIds E)
    (hk : g.multi = false → ∀ e ∈ E, e.2.2.1 = 0) : WF (addEdgesFrom g E) := by
  induction E generalizing g with
  | nil => exact w
  | cons e E ih =>
    have he := h e List.mem_cons_self
    rw [addEdgesFrom_cons]
    apply ih (WF_addEdgeKey w he.1 he.2 _ _ (fun hm => hk hm e List.mem_cons_self))
    · rw [addEdgeKey_nodeIds he.1 he.2]; exact h.tail
    · rw [addEdgeKey_multi he.1 he.2]
      intro hm x hx; exact hk hm x (List.mem_cons_of_mem _ hx)

/-! ### `addNodesFrom`, transfer along equal rows -/

theorem addNodesFrom_eq (r : Graph) (ns : List (Int × NodeAttr)) (hn : (ids ns).Nodup)
    (hd : ∀ a ∈ ids ns, a ∉ r.nodeIds) :
    addNodesFrom r ns
      = { r with nodes := r.nodes ++ ns, adj := r.adj ++ ns.map fun n => (n.1, []) } := by
  induction ns generalizing r with
  | nil => simp [addNodesFrom]
  | cons n ns ih =>
    simp only [ids_cons, List.nodup_cons] at hn
    have h1 : r.hasNode n.1 = false := by
      cases e : r.hasNode n.1 with
      | false => rfl
      | true => exact absurd ((hasNode_iff r n.1).mp e) (hd n.1 (by simp))
    have h2 : addNodesFrom r (n :: ns) = addNodesFrom (r.addNode n.1 n.2) ns := rfl
    rw [h2, ih _ hn.2]
    · simp [Graph.addNode, h1]
    · intro a ha
      have hne : a ≠ n.1 := fun e => hn.1 (e ▸ ha)
      have h0 := hd a (by simp [ha])
      simp only [Graph.nodeIds] at h0
      simp [Graph.addNode, h1, Graph.nodeIds, h0, hne]

theorem lk_const_nil {β : Type} (ns : List (Int × β)) (a : Int) :
    lk (ns.map fun n => (n.1, ([] : List γ))) a = [] := by
  induction ns with
  | nil => rfl
  | cons n ns ih => simp [lk_cons, ih]

theorem lk_extend {β : Type} (adj : List (Int × List γ)) (ns : List (Int × β)) (a : Int) :
    lk (adj ++ ns.map fun n => (n.1, ([] : List γ))) a = lk adj a := by
  rw [lk_append]
  by_cases h : a ∈ ids adj
  · simp [h]
  · simp [h, lk_const_nil, lk_eq_nil h]

theorem edgeData_congr {g g' : Graph} {a : Int} (h : g'.adjRow a = g.adjRow a) (b : Int) :
    g'.edgeData a b = g.edgeData a b := by
  rw [edgeData_row, edgeData_row, h]

theorem neighbors_congr {g g' : Graph} {a : Int} (h : g'.adjRow a = g.adjRow a) :
    g'.neighbors a = g.neighbors a := by
  rw [neighbors_row, neighbors_row, h]

theorem WF_of_adjRow_eq {g g' : Graph} (w : WF g) (hr : Rows g') (hn : g'.nodeIds.Nodup)
    (hm : g'.multi = g.multi) (hsub : ∀ a ∈ g.nodeIds, a ∈ g'.nodeIds)
    (hrow : ∀ a, g'.adjRow a = g.adjRow a) : WF g' := by
  have hE : ∀ a b, g'.edgeData a b = g.edgeData a b := fun a b => edgeData_congr (hrow a) b
  have hN : ∀ a, g'.neighbors a = g.neighbors a := fun a => neighbors_congr (hrow a)
  refine ⟨hr, hn, ?_, ?_, ?_, ?_, ?_, ?_⟩
  · intro u; rw [hN]; exact w.nbrNodup u
  · intro u v h; rw [hN] at h; exact hsub _ (w.closed u v h)
  · intro u v h; rw [hN] at h; rw [hE]; exact w.nonempty u v h
  · intro u v; rw [hE]; exact w.keysNodup u v
  · intro h u v; rw [hE]; rw [hm] at h; exact w.simple h u v
  · intro u v; rw [hE, hE]; exact w.symm u v

theorem WF_of_rows_nil {g : Graph} (hr : Rows g) (hn : g.nodeIds.Nodup) (hrow : ∀ a, g.adjRow a = []) :
    WF g := by
  have hE : ∀ a b, g.edgeData a b = [] := fun a b => by rw [edgeData_row, hrow]; rfl
  have hN : ∀ a, g.neighbors a = [] := fun a => by rw [neighbors_row, hrow]; rfl
  refine ⟨hr, hn, ?_, ?_, ?_, ?_, ?_, ?_⟩
  · intro u; rw [hN]; simp
  · intro u v h; rw [hN] at h; simp at h
  · intro u v h; rw [hN] at h; simp at h
  · intro u v; rw [hE]; simp [keys]
  · intro _ u v h; exact absurd (hE u v) h
  · intro u v; rw [hE, hE]

end C13.E
