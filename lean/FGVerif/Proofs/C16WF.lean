import FGVerif.Proofs.C16Full
import FGVerif.Proofs.C16Spec
/-!
  C16 — the hypotheses of the theorems as ONE executable check (`C16.inputsWFB`, `Model/C16.lean`),
  evaluated by the driver on every request and reported as the `inputsWF` flag of the reply.

  * `C16.nodupPairsB_sound`        the Boolean "simple graph" test implies `NodupPairs`
  * `C16.inputsWFB_sound`          `inputsWFB g rc = true → InputsWF g rc`
  * `C16.specCheck_sound_checked`  `specCheck_sound` with its two `Nodup` hypotheses replaced by the flag
  * `C16.applyRule_spec_checked`   `applyRule_spec` with `InputsWF` replaced by the flag
-/
namespace C16

theorem nodupPairsB_sound {α : Type} (es : List (E α)) (h : nodupPairsB es = true) : NodupPairs es := by
  induction es with
  | nil => exact List.Pairwise.nil
  | cons e es ih =>
    simp only [nodupPairsB, Bool.and_eq_true, List.all_eq_true, Bool.not_eq_true'] at h
    exact List.Pairwise.cons (fun f hf => h.1 f hf) (ih h.2)

theorem inputsWFB_sound (g : MolGraph) (rc : ITSGraph) (h : inputsWFB g rc = true) : InputsWF g rc := by
  simp only [inputsWFB, Bool.and_eq_true, List.all_eq_true, decide_eq_true_eq, bne_iff_ne, ne_eq,
    List.contains_iff_mem, Bool.not_eq_true', Bool.and_eq_false_iff, beq_eq_false_iff_ne] at h
  obtain ⟨⟨⟨⟨⟨⟨h1, h2⟩, h3⟩, h4⟩, h5⟩, h6⟩, h7⟩ := h
  refine ⟨⟨nodupPairsB_sound _ h1, h2⟩, h3, fun e he => h4 e he, ⟨nodupPairsB_sound _ h5, ?_⟩, h7⟩
  intro e he hz
  rcases h6 e he with h' | h'
  · exact h' hz.1
  · exact h' hz.2

/-- the specification check on an implementation output, under the driver's `inputsWF` flag -/
theorem specCheck_sound_checked (wl : ITSGraph → Hash) (g : MolGraph) (rc : ITSGraph) (n : Option Nat)
    (unique conn : Bool) (results : List ITSGraph) (hw : inputsWFB g rc = true)
    (h : specCheck wl g rc n unique conn results = true) : Spec wl g rc n unique conn results :=
  specCheck_sound wl g rc n unique conn results (inputsWFB_sound g rc hw).ids (inputsWFB_sound g rc hw).ruleIds h

/-- the model meets the specification, under the driver's `inputsWF` flag and the contract of VF2 -/
theorem applyRule_spec_checked (wl : ITSGraph → Hash) (g : MolGraph) (rc : ITSGraph) (ms : List Match)
    (n : Option Nat) (unique conn : Bool) (hw : inputsWFB g rc = true)
    (hc : MatchesContract g (mkRule rc).l ms) (hwl : ∀ a b, ItsEquiv a b → wl a = wl b) :
    Spec wl g rc n unique conn (applyRule wl g (mkRule rc) ms n unique conn) :=
  applyRule_spec wl g rc ms n unique conn (inputsWFB_sound g rc hw) hc hwl

/-! ### non-vacuity (tests) -/
example : inputsWFB ⟨[(0, "C"), (1, "O"), (2, "C")], [(0, 1, 2), (0, 2, 2), (1, 2, 2)]⟩
    ⟨[(0, "C"), (1, "O"), (2, "C")], [(0, 1, (2, 0)), (1, 2, (2, 2))]⟩ = true := by decide
/-- a doubled bond, a zero order, a repeated node id, a dangling edge, a `(0,0)` rule label: each is refused -/
example : inputsWFB ⟨[(0, "C"), (1, "C")], [(0, 1, 2), (1, 0, 4)]⟩ ⟨[(0, "C")], []⟩ = false := by decide
example : inputsWFB ⟨[(0, "C"), (1, "C")], [(0, 1, 0)]⟩ ⟨[(0, "C")], []⟩ = false := by decide
example : inputsWFB ⟨[(0, "C"), (0, "C")], []⟩ ⟨[(0, "C")], []⟩ = false := by decide
example : inputsWFB ⟨[(0, "C")], [(0, 5, 2)]⟩ ⟨[(0, "C")], []⟩ = false := by decide
example : inputsWFB ⟨[(0, "C"), (1, "C")], [(0, 1, 2)]⟩ ⟨[(0, "C"), (1, "C")], [(0, 1, (0, 0))]⟩ = false := by decide

end C16
