import FGVerif.Model.C14Choice
import FGVerif.Proofs.C14Count
import FGVerif.Proofs.C14Cons
/-!
  C14 enumeration, part A (no graphs): permutation lemmas for `flatMap`, the cartesian product `prodL`, the number of
  combinations (`allChoices_length`: every configuration), and the fixpoint equation of `groupChoices` at the depth
  `allChoices` uses, for a configuration with an acyclicity certificate (`groupChoices_fix`).
  Helper lemmas live in namespace `C14.N`.
-/
namespace C14.N
open C13 C14 C14.P

/-! ### lists -/

theorem flatMap_congr' {α β : Type} {l : List α} {f g : α → List β} (h : ∀ a ∈ l, f a = g a) :
    l.flatMap f = l.flatMap g := by
  induction l with
  | nil => rfl
  | cons a l ih =>
    rw [List.flatMap_cons, List.flatMap_cons, h a List.mem_cons_self,
      ih fun b hb => h b (List.mem_cons_of_mem _ hb)]

theorem flatMap_nil_fn {α β : Type} (l : List α) : (l.flatMap fun _ => ([] : List β)) = [] := by
  induction l with
  | nil => rfl
  | cons a l ih => rw [List.flatMap_cons, ih]; rfl

theorem flatMap_singleton_fn {α β : Type} (l : List α) (f : α → β) : (l.flatMap fun a => [f a]) = l.map f := by
  induction l with
  | nil => rfl
  | cons a l ih => rw [List.flatMap_cons, ih]; rfl

theorem flatMap_append_fn_perm {α β : Type} (l : List α) (f g : α → List β) :
    (l.flatMap fun a => f a ++ g a).Perm (l.flatMap f ++ l.flatMap g) := by
  induction l with
  | nil => exact List.Perm.refl _
  | cons a l ih =>
    simp only [List.flatMap_cons, List.append_assoc]
    refine List.Perm.append_left _ ?_
    refine (List.Perm.append_left _ ih).trans ?_
    rw [← List.append_assoc, ← List.append_assoc]
    exact List.Perm.append_right _ List.perm_append_comm

theorem perm_flatMap_left {α β : Type} (l : List α) {f g : α → List β} (h : ∀ a ∈ l, (f a).Perm (g a)) :
    (l.flatMap f).Perm (l.flatMap g) := by
  induction l with
  | nil => exact List.Perm.refl _
  | cons a l ih =>
    rw [List.flatMap_cons, List.flatMap_cons]
    exact List.Perm.append (h a List.mem_cons_self) (ih fun b hb => h b (List.mem_cons_of_mem _ hb))

/-- the two nestings of a double loop give the same multiset -/
theorem perm_flatMap_swap {α β γ : Type} (l : List α) (m : List β) (h : α → β → γ) :
    (l.flatMap fun a => m.map fun b => h a b).Perm (m.flatMap fun b => l.map fun a => h a b) := by
  induction l with
  | nil =>
    simp only [List.flatMap_nil, List.map_nil]
    rw [flatMap_nil_fn]
  | cons a l ih =>
    simp only [List.flatMap_cons, List.map_cons]
    have e : (m.flatMap fun b => h a b :: l.map fun a => h a b)
        = m.flatMap fun b => [h a b] ++ l.map fun a => h a b := rfl
    rw [e]
    refine List.Perm.trans ?_ (flatMap_append_fn_perm m _ _).symm
    rw [flatMap_singleton_fn]
    exact List.Perm.append_left _ ih

theorem flatMap_zipIdx_fst {α β : Type} (l : List α) (f : α → List β) (k : Nat) :
    ((l.zipIdx k).flatMap fun p => f p.1) = l.flatMap f := by
  induction l generalizing k with
  | nil => rfl
  | cons a l ih => rw [List.zipIdx_cons, List.flatMap_cons, List.flatMap_cons, ih]

theorem length_flatMap_const {α β : Type} (l : List α) (f : α → List β) (n : Nat) (h : ∀ a, (f a).length = n) :
    (l.flatMap f).length = l.length * n := by
  induction l with
  | nil => simp
  | cons a l ih => rw [List.flatMap_cons, List.length_append, ih, h a, List.length_cons, Nat.succ_mul, Nat.add_comm]

theorem length_flatMap_sum {α β : Type} (l : List α) (f : α → List β) :
    (l.flatMap f).length = (l.map fun a => (f a).length).sum := by
  induction l with
  | nil => rfl
  | cons a l ih => rw [List.flatMap_cons, List.length_append, ih, List.map_cons, List.sum_cons]

/-! ### the cartesian product -/

theorem length_prodL {α : Type} (ls : List (List α)) : (prodL ls).length = prod (ls.map List.length) := by
  induction ls with
  | nil => rfl
  | cons xs rest ih =>
    show (xs.flatMap fun x => (prodL rest).map fun q => x :: q).length = xs.length * prod (rest.map List.length)
    rw [length_flatMap_const xs _ (prodL rest).length (fun a => List.length_map _), ih]

/-- a product over `a ++ b` is the product over `a` (outer) times the product over `b` (inner) -/
theorem prodL_append {α : Type} (a b : List (List α)) :
    prodL (a ++ b) = (prodL a).flatMap fun q => (prodL b).map fun s => q ++ s := by
  induction a with
  | nil =>
    show prodL b = ([[]] : List (List α)).flatMap fun q => (prodL b).map fun s => q ++ s
    simp
  | cons xs rest ih =>
    show (xs.flatMap fun x => (prodL (rest ++ b)).map fun q => x :: q)
      = (xs.flatMap fun x => (prodL rest).map fun q => x :: q).flatMap fun q => (prodL b).map fun s => q ++ s
    rw [ih, List.flatMap_assoc]
    apply flatMap_congr'
    intro x _
    rw [List.map_flatMap, List.flatMap_map]
    apply flatMap_congr'
    intro q _
    rw [List.map_map]
    rfl

/-! ### the number of combinations -/

theorem length_oneLabelL {α : Type} (f : String → List α) (ls : List String) :
    (oneLabelL f ls).length = oneLabel (fun l => (f l).length) ls := by
  match ls with
  | [] => rfl
  | [_] => rfl
  | _ :: _ :: _ => rfl

theorem length_groupChoices (cfg : Config) : ∀ d name,
    (groupChoices cfg d name).length = groupExp (toRef cfg) d name := by
  intro d
  induction d with
  | zero => intro name; rfl
  | succ d ih =>
    intro name
    have e : (fun l => (groupChoices cfg d l).length) = groupExp (toRef cfg) d := funext ih
    simp only [groupChoices, groupExp, toRef_find]
    cases lookup cfg name with
    | none => rfl
    | some grp =>
      simp only [Option.map_some]
      rw [length_flatMap_sum]
      have h1 : (grp.graphs.zipIdx.map fun p =>
            ((prodL ((refsOf cfg p.1.pattern).map (oneLabelL (groupChoices cfg d)))).map (Choice.node p.2)).length)
          = (grp.graphs.zipIdx.map Prod.fst).map fun pg =>
              prod ((refsOf cfg pg.pattern).map (oneLabel (groupExp (toRef cfg) d))) := by
        rw [List.map_map]
        apply List.map_congr_left
        intro p _
        simp only [Function.comp, List.length_map, length_prodL, List.map_map]
        congr 1
        apply List.map_congr_left
        intro ls _
        simp only [Function.comp, length_oneLabelL, e]
      rw [h1, List.zipIdx_map_fst, List.map_map]
      rfl

/-- **the list of all combinations has `numExp` elements** (every configuration) -/
theorem length_nodesChoices (cfg : Config) (d : Nat) (rg : RefGraph) :
    (nodesChoices cfg d rg).length = nodesExp (toRef cfg) d rg := by
  unfold nodesChoices nodesExp
  rw [length_prodL, List.map_map]
  congr 1
  apply List.map_congr_left
  intro ls _
  simp only [Function.comp, length_oneLabelL]
  congr 1
  exact funext (length_groupChoices cfg d)

/-! ### the fixpoint equation under an acyclicity certificate -/

theorem oneLabelL_congr {α : Type} (f f' : String → List α) (ls : List String) (h : ∀ l ∈ ls, f l = f' l) :
    oneLabelL f ls = oneLabelL f' ls := by
  match ls, h with
  | [], _ => rfl
  | [l], h => exact h l (List.mem_singleton.mpr rfl)
  | _ :: _ :: _, _ => rfl

theorem toRef_mem {cfg : Config} {name : String} {grp : Group} (hlk : lookup cfg name = some grp) :
    (grp.key, grp.graphs.map fun pg => refsOf cfg pg.pattern) ∈ toRef cfg :=
  List.mem_of_find?_eq_some (toRef_find_some hlk)

theorem groupChoices_stable {cfg : Config} {ranks : List (String × Nat)}
    (hac : acyclicWith ranks (toRef cfg) = true) :
    ∀ d l, rankFn ranks l + 1 ≤ d → groupChoices cfg d l = groupChoices cfg (d + 1) l := by
  intro d
  induction d with
  | zero => intro l h; omega
  | succ d ih =>
    intro l hl
    cases hlk : lookup cfg l with
    | none => simp only [groupChoices, hlk]
    | some grp =>
      have hk : grp.key = l := (lookup_mem hlk).2
      have hspec := (acyclicWith_spec hac) _ (toRef_mem hlk)
      show groupChoices cfg (d + 1) l = groupChoices cfg (d + 1 + 1) l
      simp only [groupChoices, hlk]
      apply flatMap_congr'
      intro p hp
      have hp1 : p.1 ∈ grp.graphs := by
        have := List.mem_zipIdx_iff_getElem?.mp hp
        exact List.mem_of_getElem? this
      congr 2
      apply List.map_congr_left
      intro ls hls
      apply oneLabelL_congr
      intro l' hl'
      apply ih
      have := hspec.2 (refsOf cfg p.1.pattern) (List.mem_map.mpr ⟨p.1, hp1, rfl⟩) ls hls l' hl'
      simp only [hk] at this
      omega

/-- at the depth `allChoices` uses, the choices for a node labelled `name` are: for every graph of the group,
    every combination for that graph (at the same depth) -/
theorem groupChoices_fix {cfg : Config} (hac : acyclicB (toRef cfg) = true) {name : String} {grp : Group}
    (hlk : lookup cfg name = some grp) :
    groupChoices cfg (depthOf (toRef cfg)) name
      = grp.graphs.zipIdx.flatMap fun p =>
          (nodesChoices cfg (depthOf (toRef cfg)) (refsOf cfg p.1.pattern)).map (Choice.node p.2) := by
  have hac' : acyclicWith (ranksOf (toRef cfg)) (toRef cfg) = true := hac
  have hk : grp.key = name := (lookup_mem hlk).2
  have hspec := (acyclicWith_spec hac') _ (toRef_mem hlk)
  show groupChoices cfg ((toRef cfg).length + 1) name = _
  simp only [groupChoices, hlk, nodesChoices]
  apply flatMap_congr'
  intro p hp
  have hp1 : p.1 ∈ grp.graphs := List.mem_of_getElem? (List.mem_zipIdx_iff_getElem?.mp hp)
  congr 2
  apply List.map_congr_left
  intro ls hls
  apply oneLabelL_congr
  intro l' hl'
  apply groupChoices_stable hac'
  have := hspec.2 (refsOf cfg p.1.pattern) (List.mem_map.mpr ⟨p.1, hp1, rfl⟩) ls hls l' hl'
  have h0 := hspec.1
  simp only [hk] at this h0
  omega

end C14.N

namespace C14
open C13

/-- **the list of all choice combinations of a pattern has exactly `numExp` elements** — for every configuration,
    cyclic or not: `allChoices` is the count formula with `+`/`·` read as `++`/cartesian product -/
theorem allChoices_length (cfg : Config) (g : Graph) : (allChoices cfg g).length = numExp cfg g :=
  N.length_nodesChoices cfg _ _

end C14
