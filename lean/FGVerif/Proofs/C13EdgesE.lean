import FGVerif.Proofs.C13EdgesD
/-!
  C13 (edge level), part E: fresh keys (`newEdgeKey`), the re-attachment loop as a fold of
  `addEdgeNew`, and the labels it appends.
-/
set_option linter.unusedSimpArgs false
namespace C13.E
open Graph

/-! ### `newEdgeKey` is not in use -/

theorem le_foldl_max (ks : List Nat) (a : Nat) : a ≤ ks.foldl max a := by
  induction ks generalizing a with
  | nil => simp
  | cons x xs ih => simp only [List.foldl_cons]; exact Nat.le_trans (Nat.le_max_left a x) (ih _)

theorem mem_le_foldl_max (ks : List Nat) (a : Nat) : ∀ x ∈ ks, x ≤ ks.foldl max a := by
  induction ks generalizing a with
  | nil => simp
  | cons y ys ih =>
    intro x hx
    simp only [List.foldl_cons]
    rcases List.mem_cons.mp hx with rfl | h
    · exact Nat.le_trans (Nat.le_max_right a x) (le_foldl_max ys _)
    · exact ih _ x h

theorem freshFrom_not_mem (ks : List Nat) : ∀ (fuel k : Nat), (∀ x ∈ ks, x < k + fuel) →
    freshFrom ks fuel k ∉ ks := by
  intro fuel
  induction fuel with
  | zero =>
    intro k h hm
    simp only [freshFrom] at hm
    have := h _ hm; omega
  | succ f ih =>
    intro k h
    simp only [freshFrom]
    split
    · exact ih (k + 1) (fun x hx => by have := h x hx; omega)
    · rename_i hc; simpa using hc

theorem newEdgeKey_not_mem (ks : List Nat) : newEdgeKey ks ∉ ks := by
  unfold newEdgeKey
  apply freshFrom_not_mem
  intro x hx
  have := mem_le_foldl_max ks 0 x hx
  omega

/-! ### `addEdgeNew` and its fold -/

/-- the key `add_edge(u, v)` chooses -/
def keyFor (g : Graph) (u v : Int) : Nat :=
  if g.multi then newEdgeKey (keys (g.edgeData u v)) else 0

theorem addEdgeNew_eq (g : Graph) (u v : Int) (l : Label) :
    addEdgeNew g u v l = addEdgeKey g u v (keyFor g u v) l := rfl

theorem keyFor_fresh {g : Graph} (hm : g.multi = true) (u v : Int) : keyFor g u v ∉ keys (g.edgeData u v) := by
  unfold keyFor; rw [hm]; exact newEdgeKey_not_mem _

theorem keyFor_simple {g : Graph} (hm : g.multi = false) (u v : Int) : keyFor g u v = 0 := by
  unfold keyFor; rw [hm]; rfl

abbrev Triple := Int × Int × Label

/-- `for (u, v, l) in T: g.add_edge(u, v, bond=l)` -/
def addNewFrom (g : Graph) (T : List Triple) : Graph :=
  T.foldl (fun g t => addEdgeNew g t.1 t.2.1 t.2.2) g

theorem addNewFrom_cons (g : Graph) (t : Triple) (T : List Triple) :
    addNewFrom g (t :: T) = addNewFrom (addEdgeNew g t.1 t.2.1 t.2.2) T := rfl

def EndsInT (S : List Int) (T : List Triple) : Prop := ∀ t ∈ T, t.1 ∈ S ∧ t.2.1 ∈ S

theorem EndsInT.tail {S : List Int} {t : Triple} {T : List Triple} (h : EndsInT S (t :: T)) : EndsInT S T :=
  fun x hx => h x (List.mem_cons_of_mem _ hx)

theorem WF_addEdgeNew {g : Graph} (w : WF g) {u v : Int} (hu : u ∈ g.nodeIds) (hv : v ∈ g.nodeIds) (l : Label) :
    WF (addEdgeNew g u v l) := by
  rw [addEdgeNew_eq]
  exact WF_addEdgeKey w hu hv _ l (fun hm => keyFor_simple hm u v)

theorem addEdgeNew_nodeIds {g : Graph} {u v : Int} (hu : u ∈ g.nodeIds) (hv : v ∈ g.nodeIds) (l : Label) :
    (addEdgeNew g u v l).nodeIds = g.nodeIds := by
  rw [addEdgeNew_eq]; exact addEdgeKey_nodeIds hu hv _ l

theorem addEdgeNew_nodes {g : Graph} {u v : Int} (hu : u ∈ g.nodeIds) (hv : v ∈ g.nodeIds) (l : Label) :
    (addEdgeNew g u v l).nodes = g.nodes := by
  rw [addEdgeNew_eq]; exact addEdgeKey_nodes hu hv _ l

theorem addEdgeNew_multi {g : Graph} {u v : Int} (hu : u ∈ g.nodeIds) (hv : v ∈ g.nodeIds) (l : Label) :
    (addEdgeNew g u v l).multi = g.multi := by
  rw [addEdgeNew_eq]; exact addEdgeKey_multi hu hv _ l

theorem WF_addNewFrom {g : Graph} (w : WF g) {T : List Triple} (h : EndsInT g.nodeIds T) :
    WF (addNewFrom g T) := by
  induction T generalizing g with
  | nil => exact w
  | cons t T ih =>
    have ht := h t List.mem_cons_self
    rw [addNewFrom_cons]
    apply ih (WF_addEdgeNew w ht.1 ht.2 _)
    rw [addEdgeNew_nodeIds ht.1 ht.2]; exact h.tail

theorem addNewFrom_nodes {g : Graph} {T : List Triple} (h : EndsInT g.nodeIds T) :
    (addNewFrom g T).nodes = g.nodes := by
  induction T generalizing g with
  | nil => rfl
  | cons t T ih =>
    have ht := h t List.mem_cons_self
    rw [addNewFrom_cons, ih, addEdgeNew_nodes ht.1 ht.2]
    rw [addEdgeNew_nodeIds ht.1 ht.2]; exact h.tail

theorem addNewFrom_multi {g : Graph} {T : List Triple} (h : EndsInT g.nodeIds T) :
    (addNewFrom g T).multi = g.multi := by
  induction T generalizing g with
  | nil => rfl
  | cons t T ih =>
    have ht := h t List.mem_cons_self
    rw [addNewFrom_cons, ih, addEdgeNew_multi ht.1 ht.2]
    rw [addEdgeNew_nodeIds ht.1 ht.2]; exact h.tail

/-- labels of the triples that join `a` and `b` -/
def selL (a b : Int) (T : List Triple) : List Label :=
  T.filterMap fun t => if (t.1 = a ∧ t.2.1 = b) ∨ (t.1 = b ∧ t.2.1 = a) then some t.2.2 else none

theorem selL_cons (a b : Int) (t : Triple) (T : List Triple) :
    selL a b (t :: T)
      = (if (t.1 = a ∧ t.2.1 = b) ∨ (t.1 = b ∧ t.2.1 = a) then [t.2.2] else []) ++ selL a b T := by
  unfold selL
  rw [List.filterMap_cons]
  split <;> rename_i h
  · split at h <;> simp_all
  · split at h <;> simp_all

/-- D: the labels between `a` and `b` after the loop: the old ones, then the re-attached ones.
    On a simple graph the loop must not hit an existing edge or the same pair twice. -/
theorem labels_addNewFrom {g : Graph} (w : WF g) {T : List Triple} (h : EndsInT g.nodeIds T) (a b : Int)
    (hs : g.multi = false → selL a b T ≠ [] → g.edgeData a b = [] ∧ (selL a b T).length ≤ 1) :
    labelsBetween (addNewFrom g T) a b = labelsBetween g a b ++ selL a b T := by
  induction T generalizing g with
  | nil => simp [addNewFrom, selL]
  | cons t T ih =>
    have ht := h t List.mem_cons_self
    have w' := WF_addEdgeNew w ht.1 ht.2 t.2.2
    have hE := edgeData_addEdgeKey w.rows ht.1 ht.2 (keyFor g t.1 t.2.1) t.2.2 a b
    rw [← addEdgeNew_eq] at hE
    have hc : ((a = t.1 ∧ b = t.2.1) ∨ (a = t.2.1 ∧ b = t.1)) ↔ ((t.1 = a ∧ t.2.1 = b) ∨ (t.1 = b ∧ t.2.1 = a)) := by
      constructor <;> rintro (⟨h1, h2⟩ | ⟨h1, h2⟩)
      · exact Or.inl ⟨h1.symm, h2.symm⟩
      · exact Or.inr ⟨h2.symm, h1.symm⟩
      · exact Or.inl ⟨h1.symm, h2.symm⟩
      · exact Or.inr ⟨h2.symm, h1.symm⟩
    simp only [hc] at hE
    rw [selL_cons] at hs ⊢
    rw [addNewFrom_cons]
    by_cases hm : (t.1 = a ∧ t.2.1 = b) ∨ (t.1 = b ∧ t.2.1 = a)
    · simp only [hm, if_true] at hE hs ⊢
      -- the key is fresh
      have hfresh : keyFor g t.1 t.2.1 ∉ keys (g.edgeData a b) := by
        cases hmu : g.multi with
        | true =>
          have := keyFor_fresh hmu t.1 t.2.1
          rcases hm with ⟨h1, h2⟩ | ⟨h1, h2⟩
          · rw [← h1, ← h2]; exact this
          · rw [← h1, ← h2, w.symm]; exact this
        | false =>
          have := (hs hmu (by simp)).1
          rw [this]; simp [keys]
      rw [setKey_fresh hfresh] at hE
      rw [ih w' (by rw [addEdgeNew_nodeIds ht.1 ht.2]; exact h.tail)]
      · simp [labelsBetween, hE]
      · intro hmu hne
        rw [addEdgeNew_multi ht.1 ht.2] at hmu
        have := (hs hmu (by simp)).2
        simp only [List.length_append, List.length_cons, List.length_nil] at this
        have : (selL a b T).length = 0 := by omega
        exact absurd (List.length_eq_zero_iff.mp this) hne
    · simp only [hm, if_false, List.nil_append] at hE hs ⊢
      rw [ih w' (by rw [addEdgeNew_nodeIds ht.1 ht.2]; exact h.tail)]
      · simp [labelsBetween, hE]
      · intro hmu hne
        rw [addEdgeNew_multi ht.1 ht.2] at hmu
        rw [hE]; exact hs hmu hne

/-! ### the re-attachment loop -/

/-- the `(anchor, neighbour, label)` triples the loop adds -/
def triples (off : Int) (anchors : List Nat) (L : List (Edge × Nat)) : List Triple :=
  L.map fun p => (off + ((anchorAt anchors p.2 : Nat) : Int), p.1.2.1, p.1.2.2.2)

theorem reattachLoop_eq (off : Int) (anchors : List Nat) (g : Graph) (L : List (Edge × Nat)) :
    reattachLoop off anchors g L = addNewFrom g (triples off anchors L) := by
  induction L generalizing g with
  | nil => rfl
  | cons p L ih =>
    obtain ⟨e, i⟩ := p
    simp only [reattachLoop, triples, List.map_cons, addNewFrom_cons]
    exact ih _

theorem reattach_eq (g : Graph) (x off : Int) (anchors : List Nat) :
    reattach g x off anchors = addNewFrom g (triples off anchors (g.edgesOf x).zipIdx) :=
  reattachLoop_eq off anchors g _

theorem filterMap_congr' {α β : Type} {l : List α} {f g : α → Option β} (h : ∀ x ∈ l, f x = g x) :
    l.filterMap f = l.filterMap g := by
  induction l with
  | nil => rfl
  | cons x xs ih =>
    rw [List.filterMap_cons, List.filterMap_cons, h x List.mem_cons_self,
      ih (fun y hy => h y (List.mem_cons_of_mem _ hy))]

/-- the incident bonds as `(neighbour, label)` -/
def incOf (E : List Edge) : List (Int × Label) := E.map fun e => (e.2.1, e.2.2.2)

theorem crossLabelsOf_eq (E : List Edge) (anchors : List Nat) (p j : Int) :
    crossLabelsOf (incOf E) anchors p j
      = E.zipIdx.filterMap fun q =>
          if q.1.2.1 == p && ((anchorAt anchors q.2 : Nat) : Int) == j then some q.1.2.2.2 else none := by
  unfold crossLabelsOf incOf
  rw [List.zipIdx_map, List.filterMap_map]
  rfl

theorem selL_triples (off : Int) (anchors : List Nat) (L : List (Edge × Nat)) (a b : Int) :
    selL a b (triples off anchors L)
      = L.filterMap fun q =>
          if (off + ((anchorAt anchors q.2 : Nat) : Int) = a ∧ q.1.2.1 = b)
              ∨ (off + ((anchorAt anchors q.2 : Nat) : Int) = b ∧ q.1.2.1 = a)
          then some q.1.2.2.2 else none := by
  unfold selL triples
  rw [List.filterMap_map]
  rfl

/-- a parent node `a` (below `off`) and a sub-pattern node `b` -/
theorem selL_cross (off : Int) (anchors : List Nat) (E : List Edge) (a b : Int) (ha : a < off) :
    selL a b (triples off anchors E.zipIdx) = crossLabelsOf (incOf E) anchors a (b - off) := by
  rw [selL_triples, crossLabelsOf_eq]
  apply filterMap_congr'
  intro q _
  have h1 : ¬ (off + ((anchorAt anchors q.2 : Nat) : Int) = a) := by omega
  by_cases h2 : q.1.2.1 = a
  · by_cases h3 : off + ((anchorAt anchors q.2 : Nat) : Int) = b
    · have hj : (((anchorAt anchors q.2 : Nat) : Int) == b - off) = true := by rw [beq_iff_eq]; omega
      have hp : (q.1.2.1 == a) = true := by rw [beq_iff_eq]; exact h2
      rw [if_pos (Or.inr ⟨h3, h2⟩), hp, hj]; rfl
    · have : ¬ ((anchorAt anchors q.2 : Nat) : Int) = b - off := by omega
      simp [h1, h2, h3, this]
  · simp [h1, h2]

theorem selL_swap (a b : Int) (T : List Triple) : selL a b T = selL b a T := by
  unfold selL
  apply filterMap_congr'
  intro t _
  have : ((t.1 = a ∧ t.2.1 = b) ∨ (t.1 = b ∧ t.2.1 = a)) ↔ ((t.1 = b ∧ t.2.1 = a) ∨ (t.1 = a ∧ t.2.1 = b)) :=
    Or.comm
  simp only [this]

theorem selL_below (off : Int) (anchors : List Nat) (L : List (Edge × Nat)) (a b : Int)
    (ha : a < off) (hb : b < off) : selL a b (triples off anchors L) = [] := by
  rw [selL_triples]
  apply List.filterMap_eq_nil_iff.mpr
  intro q _
  have h1 : ¬ (off + ((anchorAt anchors q.2 : Nat) : Int) = a) := by omega
  have h2 : ¬ (off + ((anchorAt anchors q.2 : Nat) : Int) = b) := by omega
  simp [h1, h2]

theorem selL_above (off : Int) (anchors : List Nat) (L : List (Edge × Nat)) (a b : Int)
    (hL : ∀ q ∈ L, q.1.2.1 < off) (ha : off ≤ a) (hb : off ≤ b) : selL a b (triples off anchors L) = [] := by
  rw [selL_triples]
  apply List.filterMap_eq_nil_iff.mpr
  intro q hq
  have := hL q hq
  have h1 : ¬ (q.1.2.1 = a) := by omega
  have h2 : ¬ (q.1.2.1 = b) := by omega
  simp [h1, h2]

end C13.E
