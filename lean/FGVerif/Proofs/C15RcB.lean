import FGVerif.Proofs.C15RcA
import FGVerif.Proofs.C14Count
import FGVerif.Proofs.C15
/-!
  C15 reaction centre, part B: the Diels-Alder centre through the expansion loop.

  * `dacycle_step`     one substitution at a node outside the cycle by a pattern without changing bonds keeps
                       `DACycle` (cycle renamed by `C13.ren`) — from `rc_step` / `labels_ren`
  * `good_step`        the same for `Good` (DA cycle + every label node left refers to a safe group)
  * `front_preserved`  the loop invariant (`Q.InvS` ∧ (`Good` ∨ `frontierB k`)) is preserved by `replace_next_node`
  * `dacycle_finish`   `aam` assignment and the `nx.Graph(multigraph)` collapse keep `DACycle`
  * `rc_shape_general` every sample of `generate` has `DAShape`, for every configuration with a safe set `S`
                       (`safeCfgB`), the C14 hypotheses, and cores that reach `Good` within `k` substitutions
                       (`frontierB`, decidable)
-/
set_option linter.unusedSimpArgs false
set_option linter.unusedVariables false
namespace C15
open C13 C14 Graph C13.E

/-! ### one substitution and the cycle -/

theorem dacycle_step {g : Graph} {x : Int} {sub : Graph} {anchors : List Nat} {c : List Int}
    (hd : inDomain g x sub anchors = true) (hc : DACycle g c) (hx : x ∉ c) (hs : noChanging sub = true) :
    DACycle (replaceNode g x sub anchors) (c.map (ren x)) := by
  obtain ⟨hw, hcont, hxn, hws, hconts⟩ := inDomain_parts hd
  have w := WF_of_wf hw
  have hnodes := (replace_exact g x sub anchors hd).nodes
  obtain ⟨px, hpx, hpx1⟩ := List.mem_map.mp ((E.hasNode_iff g x).mp hxn)
  have rx := Q.contiguous_range hcont hpx
  simp only [hpx1] at rx
  have hne : ∀ n ∈ c, n ≠ x := fun n hn e => hx (e ▸ hn)
  have hxfree : ∀ (p : Int) (l : Label), l ∈ labelsBetween g p x ∨ l ∈ labelsBetween g x p → changing l = false := by
    intro p l hl
    cases hch : changing l with
    | false => rfl
    | true =>
      exfalso
      rcases hl with hl | hl
      · exact hx (cycEdge_mem (hc.only _ _ l hl hch)).2
      · exact hx (cycEdge_mem (hc.only _ _ l hl hch)).1
  have hpair : ∀ p ∈ cycPairs c,
      labelsBetween (replaceNode g x sub anchors) (ren x p.1) (ren x p.2) = labelsBetween g p.1 p.2 := by
    intro p hp
    obtain ⟨h1, h2⟩ := mem_cycPairs hp
    exact labels_ren hd (hc.carbon _ h1).1 (hc.carbon _ h2).1 (hne _ h1) (hne _ h2)
  refine ⟨by simp [hc.len], ?_, ?_, ?_, ?_, ?_⟩
  · rw [List.pairwise_map]
    exact hc.distinct.imp_of_mem fun {a b} ha hb hab e => hab (ren_inj (hne a ha) (hne b hb) e)
  · intro n' hn'
    obtain ⟨n, hn, rfl⟩ := List.mem_map.mp hn'
    obtain ⟨hmem, hcarb⟩ := hc.carbon n hn
    obtain ⟨pn, hpn, hpn1⟩ := List.mem_map.mp hmem
    have rn := Q.contiguous_range hcont hpn
    simp only [hpn1] at rn
    constructor
    · unfold Graph.nodeIds
      rw [hnodes]
      apply List.mem_map.mpr
      refine ⟨(ren x pn.1, pn.2), ?_, by simp [hpn1]⟩
      unfold specNodes
      apply List.mem_append_left
      apply List.mem_map.mpr
      refine ⟨pn, List.mem_filter.mpr ⟨hpn, ?_⟩, rfl⟩
      simp only [hpn1, bne_iff_ne, ne_eq]
      exact hne n hn
    · intro p hp hp1
      rw [hnodes] at hp
      rcases Q.mem_specNodes hp with ⟨q, hq, hqx, rfl⟩ | ⟨q, hq, rfl⟩
      · simp only at hp1 ⊢
        exact hcarb q hq (ren_inj hqx (hne n hn) hp1)
      · exfalso
        have rq := Q.contiguous_range hconts hq
        have := ren_lt rx rn.2 (hne n hn)
        simp only at hp1
        omega
  · intro p' hp'
    rw [cycPairs_map] at hp'
    obtain ⟨p, hp, rfl⟩ := List.mem_map.mp hp'
    simp only
    rw [hpair p hp]
    exact hc.single p hp
  · have : cycleLabels (replaceNode g x sub anchors) (c.map (ren x)) = cycleLabels g c := by
      unfold cycleLabels
      rw [cycPairs_map, List.flatMap_map]
      simp only [List.flatMap_def]
      congr 1
      exact List.map_congr_left hpair
    rw [this]; exact hc.labels
  · intro a b l hl hch
    have hmem : l ∈ (labelsBetween (replaceNode g x sub anchors) a b).filter changing :=
      List.mem_filter.mpr ⟨hl, hch⟩
    rw [rc_step hd hs hxfree a b] at hmem
    split at hmem
    · obtain ⟨hl', _⟩ := List.mem_filter.mp hmem
      obtain ⟨p, hp, hcase⟩ := (cycEdge_iff c _ _).mp (hc.only _ _ l hl' hch)
      apply (cycEdge_iff _ a b).mpr
      rw [cycPairs_map]
      refine ⟨(ren x p.1, ren x p.2), List.mem_map.mpr ⟨p, hp, rfl⟩, ?_⟩
      simp only
      rcases hcase with ⟨h1, h2⟩ | ⟨h1, h2⟩
      · left; rw [h1, h2, ren_unren, ren_unren]; exact ⟨rfl, rfl⟩
      · right; rw [h1, h2, ren_unren, ren_unren]; exact ⟨rfl, rfl⟩
    · cases hmem

/-! ### safe groups -/

/-- the reaction centre of the working graph is complete: a DA cycle, and every label node refers to a group of `S` -/
def Good (cfg : Config) (S : List String) (g : Graph) : Prop :=
  (∃ c, DACycle g c) ∧ safeNodesB cfg S g = true

theorem rcGoodB_sound {cfg : Config} {S : List String} {g : Graph} (hw : wf g = true)
    (h : rcGoodB cfg S g = true) : Good cfg S g := by
  unfold rcGoodB at h
  rw [Bool.and_eq_true] at h
  exact ⟨⟨_, daCycleB_sound hw h.1⟩, h.2⟩

theorem safeNodes_at {cfg : Config} {S : List String} {g : Graph} (h : safeNodesB cfg S g = true)
    {p : Int × NodeAttr} (hp : p ∈ g.nodes) {name : String} (hl : name ∈ groupLabels cfg p.2) : name ∈ S := by
  unfold safeNodesB at h
  simp only [List.all_eq_true] at h
  simpa using h p hp name hl

theorem safeCfg_at {cfg : Config} {S : List String} (h : safeCfgB cfg S = true) {grp : Group} (hg : grp ∈ cfg)
    (hk : grp.key ∈ S) {pg : PGraph} (hp : pg ∈ grp.graphs) :
    noChanging pg.pattern = true ∧ safeNodesB cfg S pg.pattern = true := by
  unfold safeCfgB at h
  simp only [List.all_eq_true, Bool.or_eq_true, Bool.not_eq_true', Bool.and_eq_true] at h
  rcases h grp hg with h1 | h1
  · have : S.contains grp.key = true := by simpa using hk
    rw [this] at h1; cases h1
  · exact h1 pg hp

theorem lookup_key {cfg : Config} {k : String} {grp : Group} (h : lookup cfg k = some grp) : grp.key = k := by
  unfold lookup at h
  simpa using List.find?_some h

/-- a group node is not a carbon of the cycle -/
theorem group_not_in_cycle {cfg : Config} {g : Graph} {c : List Int} (hh : hashOk cfg g = true)
    (hc : DACycle g c) {x : Int} {a : NodeAttr} (hx : (x, a) ∈ g.nodes) (hg : isGroupNode cfg a = true) : x ∉ c := by
  intro hin
  have h1 := (hc.carbon x hin).2 (x, a) hx rfl
  have h2 : a.symbol = some "#" := Q.hash_at hh hx hg
  simp only at h1
  rw [h2] at h1
  simp at h1

/-- **one expansion step keeps a complete reaction centre** (any configuration with a safe set) -/
theorem good_step {cfg : Config} {S : List String} {m : Bool} {g : Graph} {x : Int} {a : NodeAttr}
    {name : String} {grp : Group} {pg : PGraph}
    (hsafe : safeCfgB cfg S = true) (hw : wf g = true) (hc : contiguous g = true)
    (hl : noLoopOnGroupNodes cfg g = true) (hh : hashOk cfg g = true) (hm : g.multi = m)
    (hx : (x, a) ∈ g.nodes) (hg : isGroupNode cfg a = true) (hname : groupLabels cfg a = [name])
    (hlk : lookup cfg name = some grp) (hpg : pg ∈ grp.graphs) (p : Q.PatOk cfg m pg)
    (hgood : Good cfg S g) : Good cfg S (replaceNode g x pg.pattern pg.anchors) := by
  obtain ⟨⟨c, hcyc⟩, hsn⟩ := hgood
  have hd := Q.inDomain_of hw hc hl hm hx hg p
  have hnameS : name ∈ S := safeNodes_at hsn hx (by rw [hname]; exact List.mem_singleton.mpr rfl)
  have hkey : grp.key ∈ S := by rw [lookup_key hlk]; exact hnameS
  obtain ⟨hnc, hsp⟩ := safeCfg_at hsafe (Q.lookup_some hlk) hkey hpg
  refine ⟨⟨_, dacycle_step hd hcyc (group_not_in_cycle hh hcyc hx hg) hnc⟩, ?_⟩
  unfold safeNodesB
  simp only [List.all_eq_true]
  intro q hq l hlq
  rw [(replace_exact g x pg.pattern pg.anchors hd).nodes] at hq
  rcases Q.mem_specNodes hq with ⟨q0, hq0, _, rfl⟩ | ⟨q0, hq0, rfl⟩
  · simpa using safeNodes_at hsn hq0 hlq
  · simpa using safeNodes_at hsp hq0 hlq

/-! ### the loop invariant -/

/-- the invariant on a (traced) working item: the C14 invariant, and the reaction centre is complete or will
    be within `k` substitutions on every branch -/
def FrontInv (cfg : Config) (S : List String) (m : Bool) (gt : Graph × Trace) : Prop :=
  Q.InvS cfg m gt ∧ (Good cfg S gt.1 ∨ ∃ k, frontierB cfg S k gt.1 = true)

theorem front_preserved {cfg : Config} {S : List String} {m : Bool} (c : Q.CfgOk cfg m)
    (hsafe : safeCfgB cfg S = true) : Q.Preserved cfg (FrontInv cfg S m) := by
  intro gt gs hinv hstep g' hg'
  obtain ⟨hS, hfront⟩ := hinv
  refine ⟨Q.InvS_preserved c gt gs hS hstep g' hg', ?_⟩
  obtain ⟨anchor, a, name, grp, hn, hl, hlk, rfl⟩ := Q.replaceNextNodeT_some hstep
  obtain ⟨sg, hsg, rfl⟩ := List.mem_map.mp hg'
  simp only
  have hp := c.pat (Q.lookup_some hlk) hsg
  obtain ⟨hx, hgn⟩ := Q.nextGroupNode_some hn
  have step_good : Good cfg S gt.1 → Good cfg S (replaceNode gt.1 anchor sg.pattern sg.anchors) :=
    fun hgood => good_step hsafe hS.wf hS.cont hS.noloop hS.hash hS.multi hx hgn hl hlk hsg hp hgood
  rcases hfront with hgood | ⟨k, hk⟩
  · exact Or.inl (step_good hgood)
  · by_cases hgb : rcGoodB cfg S gt.1 = true
    · exact Or.inl (step_good (rcGoodB_sound hS.wf hgb))
    · cases k with
      | zero => exact absurd hk hgb
      | succ k =>
        right
        refine ⟨k, ?_⟩
        unfold frontierB at hk
        have hgb' : rcGoodB cfg S gt.1 = false := by simpa using hgb
        rw [hgb', Bool.false_or] at hk
        unfold replaceNextNode at hk
        rw [hn] at hk
        simp only at hk
        rw [hl] at hk
        simp only at hk
        rw [hlk] at hk
        simp only at hk
        by_cases hnm : (grp.name != name) = true
        · rw [if_pos hnm] at hk; cases hk
        · rw [if_neg hnm] at hk
          simp only [List.all_map, List.all_eq_true, Function.comp] at hk
          exact hk sg hsg

/-- a finished working item (no label node left) that satisfies the invariant has a complete centre -/
theorem front_done {cfg : Config} {S : List String} {m : Bool} {gt : Graph × Trace}
    (h : FrontInv cfg S m gt) (hdone : noGroupLabelLeft cfg gt.1 = true) : Good cfg S gt.1 := by
  obtain ⟨hS, hfront⟩ := h
  rcases hfront with hgood | ⟨k, hk⟩
  · exact hgood
  · apply rcGoodB_sound hS.wf
    cases k with
    | zero => exact hk
    | succ k =>
      unfold frontierB at hk
      have hnone : nextGroupNode cfg gt.1 = none := by
        unfold noGroupLabelLeft at hdone
        exact Option.isNone_iff_eq_none.mp hdone
      unfold replaceNextNode at hk
      rw [hnone] at hk
      simpa using hk

/-! ### `finish`: atom-map numbers and the multigraph collapse -/

theorem setKey_labels (kd : KeyDict) (k : Nat) (lab : Label) :
    ∀ q ∈ setKey kd k lab, q.2 = lab ∨ ∃ q' ∈ kd, q'.2 = q.2 := by
  intro q hq
  unfold setKey at hq
  split at hq
  · obtain ⟨e, he, rfl⟩ := List.mem_map.mp hq
    split
    · simp only [mergeLabel]
      split
      · exact Or.inr ⟨e, he, rfl⟩
      · exact Or.inl rfl
    · exact Or.inr ⟨e, he, rfl⟩
  · rcases List.mem_append.mp hq with h | h
    · exact Or.inr ⟨q, h, rfl⟩
    · left; rw [List.mem_singleton.mp h]

/-- labels after `add_edges_from`: old ones or labels of added edges between the same names -/
theorem addEdgesFrom_labels {g : Graph} (hr : Rows g) {E : List Edge} (h : EndsIn g.nodeIds E) (a b : Int) (l : Label)
    (hl : l ∈ labelsBetween (addEdgesFrom g E) a b) :
    l ∈ labelsBetween g a b ∨ ∃ kd ∈ sel a b E, kd.2 = l := by
  induction E generalizing g with
  | nil => exact Or.inl hl
  | cons e E ih =>
    have he := h e List.mem_cons_self
    rw [addEdgesFrom_cons] at hl
    have hE : EndsIn (addEdgeKey g e.1 e.2.1 e.2.2.1 e.2.2.2).nodeIds E := by
      rw [addEdgeKey_nodeIds he.1 he.2]; exact h.tail
    rcases ih (addEdgeKey_rows hr he.1 he.2 _ _) hE hl with h1 | ⟨kd, hkd, rfl⟩
    · unfold labelsBetween at h1
      rw [edgeData_addEdgeKey hr he.1 he.2] at h1
      split at h1
      · rename_i hcond
        obtain ⟨q, hq, rfl⟩ := List.mem_map.mp h1
        rcases setKey_labels _ _ _ q hq with h2 | ⟨q', hq', h2⟩
        · right
          refine ⟨(e.2.2.1, e.2.2.2), ?_, h2.symm⟩
          rw [sel_cons]
          have hcond' : (e.1 = a ∧ e.2.1 = b) ∨ (e.1 = b ∧ e.2.1 = a) := by
            rcases hcond with ⟨x1, x2⟩ | ⟨x1, x2⟩
            · exact Or.inl ⟨x1.symm, x2.symm⟩
            · exact Or.inr ⟨x2.symm, x1.symm⟩
          simp [hcond']
        · left
          unfold labelsBetween
          exact List.mem_map.mpr ⟨q', hq', h2⟩
      · exact Or.inl h1
    · right
      refine ⟨kd, ?_, rfl⟩
      rw [sel_cons]
      exact List.mem_append_right _ hkd

/-- the collapse never invents a label: what joins two names afterwards joined them before -/
theorem collapse_labels_sub {g : Graph} (w : WF g) (a b : Int) (l : Label)
    (hl : l ∈ labelsBetween (collapse g) a b) : l ∈ labelsBetween g a b := by
  rw [I.collapse_eq] at hl
  rcases addEdgesFrom_labels (I.WF_collapseBase w.nodup).rows (I.collapse_endsIn w) a b l hl with h | ⟨kd, hkd, rfl⟩
  · unfold labelsBetween at h
    rw [I.collapseBase_edgeData] at h
    simp at h
  · unfold I.collapseEdges at hkd
    rw [I.sel_collapseEdges, sel_edges w] at hkd
    obtain ⟨kd0, hkd0, rfl⟩ := List.mem_map.mp hkd
    exact List.mem_map.mpr ⟨kd0, hkd0, rfl⟩

/-- between two names joined by exactly one bond the collapse keeps that bond -/
theorem collapse_labels_single {g : Graph} (w : WF g) (a b : Int) (h1 : (labelsBetween g a b).length = 1) :
    labelsBetween (collapse g) a b = labelsBetween g a b := by
  unfold labelsBetween at h1 ⊢
  rw [I.collapse_edgeData w a b (by simpa using Nat.le_of_eq h1), List.map_map]
  rfl

theorem dacycle_of_labels {g g' : Graph} {c : List Int} (hc : DACycle g c) (hnodes : g'.nodeIds = g.nodeIds)
    (hsym : ∀ p' ∈ g'.nodes, ∃ p ∈ g.nodes, p.1 = p'.1 ∧ p.2.symbol = p'.2.symbol)
    (hsingle : ∀ a b, (labelsBetween g a b).length = 1 → labelsBetween g' a b = labelsBetween g a b)
    (hsub : ∀ a b l, l ∈ labelsBetween g' a b → l ∈ labelsBetween g a b) : DACycle g' c := by
  have hpair : ∀ p ∈ cycPairs c, labelsBetween g' p.1 p.2 = labelsBetween g p.1 p.2 :=
    fun p hp => hsingle _ _ (hc.single p hp)
  refine ⟨hc.len, hc.distinct, ?_, ?_, ?_, fun a b l hl hch => hc.only a b l (hsub a b l hl) hch⟩
  · intro n hn
    refine ⟨by rw [hnodes]; exact (hc.carbon n hn).1, fun p' hp' e => ?_⟩
    obtain ⟨p, hp, h1, h2⟩ := hsym p' hp'
    rw [← h2]
    exact (hc.carbon n hn).2 p hp (h1.trans e)
  · intro p hp; rw [hpair p hp]; exact hc.single p hp
  · have : cycleLabels g' c = cycleLabels g c := by
      unfold cycleLabels
      simp only [List.flatMap_def]
      congr 1
      exact List.map_congr_left hpair
    rw [this]; exact hc.labels

theorem dacycle_setAam {g : Graph} {c : List Int} (hc : DACycle g c) : DACycle (setAam g) c := by
  apply dacycle_of_labels hc (I.setAam_nodeIds g)
  · intro p' hp'
    unfold setAam at hp'
    obtain ⟨p, hp, rfl⟩ := List.mem_map.mp hp'
    exact ⟨p, hp, rfl, rfl⟩
  · intro a b _; rfl
  · intro a b l hl; exact hl

/-- `finish` (atom-map numbers, then `nx.Graph(multigraph)`) keeps the Diels-Alder centre -/
theorem dacycle_finish {g : Graph} {c : List Int} (hw : wf g = true) (aam : Bool) (hc : DACycle g c) :
    DACycle (finish aam g) c := by
  have w := WF_of_wf hw
  have key : ∀ g0 : Graph, WF g0 → DACycle g0 c → DACycle (if g0.multi then collapse g0 else g0) c := by
    intro g0 w0 h0
    split
    · apply dacycle_of_labels h0
      · unfold Graph.nodeIds; rw [I.collapse_nodes w0]
      · intro p' hp'; rw [I.collapse_nodes w0] at hp'; exact ⟨p', hp', rfl, rfl⟩
      · intro a b h1; exact collapse_labels_single w0 a b h1
      · intro a b l hl; exact collapse_labels_sub w0 a b l hl
    · exact h0
  unfold finish
  cases aam
  · simp only [Bool.false_eq_true, if_false]; exact key g w hc
  · simp only [if_true]; exact key (setAam g) (I.WF_setAam w) (dacycle_setAam hc)

/-! ### the general theorem -/

/-- **the reaction centre of every sample, without enumeration** (any configuration).  Let `S` be a set of group
    names that is closed and free of changing bonds (`safeCfgB`), let the C14 hypotheses hold for the
    configuration and every core, and let every core reach a complete Diels-Alder centre within `k`
    substitutions on every branch (`frontierB`, a decidable check that evaluates only those `k` levels).  Then
    every sample `iter(Proxy)` yields has a Diels-Alder reaction centre. -/
theorem rc_shape_general (cfg : Config) (S : List String) (k : Nat) (fuel : Nat) (aam : Bool) (cores xs : List Graph)
    (hsafe : safeCfgB cfg S = true)
    (hhyp : ∀ c ∈ cores, hypothesesOk cfg c = true)
    (hfront : ∀ c ∈ cores, frontierB cfg S k c = true)
    (h : generate cfg fuel aam cores = .ok xs) : ∀ x ∈ xs, DAShape x := by
  intro x hx
  obtain ⟨core, hcore, gs, hgs, g, hg, rfl⟩ := Glue.generate_mem cfg fuel aam cores xs h x hx
  have hy := hhyp core hcore
  simp only [hypothesesOk, Bool.and_eq_true] at hy
  obtain ⟨⟨⟨⟨⟨⟨⟨h1, h2⟩, _⟩, h4⟩, h5⟩, h6⟩, h7⟩, h8⟩ := hy
  -- the traced run
  have hp := traced_projection cfg fuel core
  rw [hgs] at hp
  cases ht : buildGraphsT cfg fuel core with
  | error e => rw [ht] at hp; cases hp
  | ok ts =>
    rw [ht] at hp
    have hts : ts.map (·.1) = gs := by simpa [Except.map] using hp
    rw [← hts] at hg
    obtain ⟨gt, hgt, rfl⟩ := List.mem_map.mp hg
    have hinv := Q.buildGraphsT_preserves cfg (FrontInv cfg S core.multi)
      (front_preserved ⟨h1, h2, h5⟩ hsafe) fuel core ts
      ⟨⟨h6, h7, h8, h4, rfl, by simp⟩, Or.inr ⟨k, hfront core hcore⟩⟩ ht gt hgt
    have hdone : noGroupLabelLeft cfg gt.1 = true :=
      no_group_label_left cfg fuel core gs hgs gt.1 (by rw [← hts]; exact List.mem_map_of_mem hgt)
    obtain ⟨⟨c, hc⟩, _⟩ := front_done hinv hdone
    exact ⟨c, dacycle_finish hinv.1.wf aam hc⟩

end C15
