import FGVerif.Proofs.C14EnumA
/-!
  C14 enumeration, part B: the expansion of one combination (`expandQT`: fuel, unfolding, projection to `expandQ`),
  what one round of the loop does to the set of pending combinations (`rnnT_none_enum`, `rnnT_some_enum`), and the
  induction over `stepT` / `buildLoopT`.

  For a traced working graph `gt` let `E gt := (allChoices cfg gt.1).map (expandFrom cfg gt)` — everything that can
  still come out of `gt`.  One replacement turns `gt` into the list `gs` with `gs.flatMap E ~ E gt`
  (a choice for the first group node = an index into `gs` + a combination for the inserted graph; the product over
  the remaining group nodes is regrouped, which is where the order of the list changes); a graph without a
  group node has `E gt = [gt]`.  Hence `res ++ ws.flatMap E` is invariant (as a multiset) under the loop.
-/
namespace C14.N
open C13 C14 C14.P

/-! ### sizes and fuel -/

theorem sizeL_append (a b : List Choice) : sizeL (a ++ b) = sizeL a + sizeL b := by
  induction a with
  | nil => simp [sizeL]
  | cons c cs ih => simp only [List.cons_append, sizeL, ih, Nat.add_assoc]

theorem sizeL_cons_node (i : Nat) (subs q : List Choice) :
    sizeL (Choice.node i subs :: q) = sizeL (q ++ subs) + 1 := by
  rw [sizeL_append]
  simp only [sizeL, Choice.size]
  omega

theorem expandQT_nil (cfg : Config) (f : Nat) (gt : Graph × Trace) : expandQT cfg f gt [] = gt := by
  cases f <;> rfl

/-- any fuel above the number of substitutions gives the same expansion -/
theorem expandQT_fuel (cfg : Config) : ∀ (f : Nat) (gt : Graph × Trace) (q : List Choice), sizeL q ≤ f →
    expandQT cfg f gt q = expandQT cfg (sizeL q) gt q := by
  intro f
  induction f with
  | zero =>
    intro gt q h
    have : sizeL q = 0 := by omega
    rw [this]
  | succ f ih =>
    intro gt q h
    match q, h with
    | [], _ => rw [expandQT_nil, expandQT_nil]
    | .node i subs :: q', h =>
      rw [sizeL_cons_node] at h ⊢
      simp only [expandQT]
      cases nextGroup cfg gt.1 with
      | none => rfl
      | some xg =>
        obtain ⟨x, grp⟩ := xg
        simp only
        cases grp.graphs[i]? with
        | none => rfl
        | some sg =>
          simp only
          exact ih _ _ (by omega)

theorem expandFrom_nil (cfg : Config) (gt : Graph × Trace) : expandFrom cfg gt [] = gt := rfl

/-- consuming one choice: substitute the selected graph at the first group node, go on with the rest of the
    combination followed by the sub-choices -/
theorem expandFrom_cons {cfg : Config} {gt : Graph × Trace} {x : Int} {grp : Group} {sg : PGraph} {i : Nat}
    (hn : nextGroup cfg gt.1 = some (x, grp)) (hi : grp.graphs[i]? = some sg) (subs q : List Choice) :
    expandFrom cfg gt (Choice.node i subs :: q) = expandFrom cfg (substT gt x sg) (q ++ subs) := by
  unfold expandFrom
  rw [sizeL_cons_node]
  simp only [expandQT, hn, hi]

/-- the traced expansion is the plain one with bookkeeping -/
theorem expandQT_fst (cfg : Config) : ∀ (f : Nat) (gt : Graph × Trace) (q : List Choice),
    (expandQT cfg f gt q).1 = expandQ cfg f gt.1 q := by
  intro f
  induction f with
  | zero => intro gt q; rfl
  | succ f ih =>
    intro gt q
    match q with
    | [] => rfl
    | .node i subs :: q' =>
      simp only [expandQT, expandQ]
      cases nextGroup cfg gt.1 with
      | none => rfl
      | some xg =>
        obtain ⟨x, grp⟩ := xg
        simp only
        cases grp.graphs[i]? with
        | none => rfl
        | some sg => exact ih _ _

theorem expandT_fst (cfg : Config) (core : Graph) (cs : Combo) : (expandT cfg core cs).1 = expand cfg core cs :=
  expandQT_fst cfg _ _ _

/-! ### one replacement -/

/-- everything that can still come out of a traced working graph -/
def E (cfg : Config) (gt : Graph × Trace) : List (Graph × Trace) :=
  (allChoices cfg gt.1).map (expandFrom cfg gt)

theorem rnnT_none {cfg : Config} {gt : Graph × Trace} (h : replaceNextNodeT cfg gt = .ok none) :
    nextGroupNode cfg gt.1 = none := by
  apply rnn_none
  rw [← Q.replaceNextNodeT_proj, h]
  rfl

/-- a graph without a group node has exactly one (the empty) combination and is its own expansion -/
theorem rnnT_none_enum {cfg : Config} {gt : Graph × Trace} (h : replaceNextNodeT cfg gt = .ok none) :
    E cfg gt = [gt] := by
  unfold E allChoices nodesChoices
  rw [refs_none (rnnT_none h)]
  rfl

theorem nextGroup_of {cfg : Config} {g : Graph} {x : Int} {a : NodeAttr} {name : String} {grp : Group}
    (hn : nextGroupNode cfg g = some (x, a)) (hl : groupLabels cfg a = [name]) (hlk : lookup cfg name = some grp) :
    nextGroup cfg g = some (x, grp) := by
  simp only [nextGroup, hn, hl, hlk, Option.map_some]

/-- **one replacement splits the pending combinations**: the expansions of the graphs that replace `gt` in the
    working set are, together, the expansions of `gt` -/
theorem rnnT_some_enum {cfg : Config} (hcfg : cfgOk cfg = true) (hac : acyclicB (toRef cfg) = true)
    {gt : Graph × Trace} (hi : Inv gt.1) {gs : List (Graph × Trace)}
    (h : replaceNextNodeT cfg gt = .ok (some gs)) : (gs.flatMap (E cfg)).Perm (E cfg gt) := by
  obtain ⟨x, a, name, grp, hn, hl, hlk, hgs⟩ := Q.replaceNextNodeT_some h
  have hgs' : gs = grp.graphs.map (substT gt x) := hgs
  subst hgs'
  have hng := nextGroup_of hn hl hlk
  have hhead := refs_head hn hl
  -- the pending group nodes after the first one
  generalize ht : (refsOf cfg gt.1).tail = t at hhead
  let D := depthOf (toRef cfg)
  -- right-hand side: first group node outermost
  have hR : E cfg gt = grp.graphs.zipIdx.flatMap fun p =>
      (nodesChoices cfg D (refsOf cfg p.1.pattern)).flatMap fun s =>
        (nodesChoices cfg D t).map fun q => expandFrom cfg (substT gt x p.1) (q ++ s) := by
    unfold E allChoices
    rw [hhead]
    show ((oneLabelL (groupChoices cfg D) [name]).flatMap fun c => (nodesChoices cfg D t).map fun q => c :: q).map
        (expandFrom cfg gt) = _
    show ((groupChoices cfg D name).flatMap fun c => (nodesChoices cfg D t).map fun q => c :: q).map
        (expandFrom cfg gt) = _
    rw [groupChoices_fix hac hlk, List.flatMap_assoc, List.map_flatMap]
    apply flatMap_congr'
    intro p hp
    have hidx : grp.graphs[p.2]? = some p.1 := List.mem_zipIdx_iff_getElem?.mp hp
    rw [List.flatMap_map, List.map_flatMap]
    apply flatMap_congr'
    intro s _
    rw [List.map_map]
    apply List.map_congr_left
    intro q _
    exact expandFrom_cons hng hidx s q
  -- left-hand side: the new working graphs
  have hL : (grp.graphs.map (substT gt x)).flatMap (E cfg) = grp.graphs.flatMap fun sg =>
      (nodesChoices cfg D t).flatMap fun q =>
        (nodesChoices cfg D (refsOf cfg sg.pattern)).map fun s => expandFrom cfg (substT gt x sg) (q ++ s) := by
    rw [List.flatMap_map]
    apply flatMap_congr'
    intro sg hsg
    have hstep := refs_step' hn hl (nodeDom_of hcfg hi hn hlk hsg)
    rw [ht] at hstep
    unfold E allChoices nodesChoices
    show (prodL ((refsOf cfg (replaceNode gt.1 x sg.pattern sg.anchors)).map _)).map _ = _
    rw [hstep, List.map_append, prodL_append, List.map_flatMap]
    apply flatMap_congr'
    intro q _
    rw [List.map_map]
    rfl
  rw [hL, hR, flatMap_zipIdx_fst grp.graphs
    (fun sg => (nodesChoices cfg D (refsOf cfg sg.pattern)).flatMap fun s =>
      (nodesChoices cfg D t).map fun q => expandFrom cfg (substT gt x sg) (q ++ s)) 0]
  apply perm_flatMap_left
  intro sg _
  exact perm_flatMap_swap _ _ _

theorem rnnT_inv {cfg : Config} (hcfg : cfgOk cfg = true) : Q.Preserved cfg (fun gt => Inv gt.1) := by
  intro gt gs hi h g' hg'
  obtain ⟨x, a, name, grp, hn, hl, hlk, rfl⟩ := Q.replaceNextNodeT_some h
  rcases List.mem_map.mp hg' with ⟨sg, hsg, rfl⟩
  exact ⟨replaceNode_contiguous _ _ _ _ (nodeDom_of hcfg hi hn hlk hsg), replaceNode_closed _ _ _ _⟩

/-! ### one pass over the working set, and the loop -/

theorem stepT_enum {cfg : Config} (hcfg : cfgOk cfg = true) (hac : acyclicB (toRef cfg) = true) :
    ∀ (ws done next : List (Graph × Trace)), stepT cfg ws = .ok (done, next) → (∀ gt ∈ ws, Inv gt.1) →
      (done ++ next.flatMap (E cfg)).Perm (ws.flatMap (E cfg)) := by
  intro ws
  induction ws with
  | nil =>
    intro done next h _
    unfold stepT at h
    cases h
    exact List.Perm.refl _
  | cons g rest ih =>
    intro done next h hi
    unfold stepT at h
    cases hr : replaceNextNodeT cfg g with
    | error e => rw [hr] at h; cases h
    | ok r =>
      cases hs : stepT cfg rest with
      | error e => rw [hr, hs] at h; cases h
      | ok dn =>
        obtain ⟨d0, n0⟩ := dn
        have ih' := ih d0 n0 hs (fun gt hgt => hi gt (List.mem_cons_of_mem _ hgt))
        rw [hr, hs] at h
        rw [List.flatMap_cons]
        cases r with
        | none =>
          simp only [bind, Except.bind, pure, Except.pure] at h
          cases h
          rw [rnnT_none_enum hr]
          exact List.Perm.cons _ ih'
        | some gs =>
          simp only [bind, Except.bind, pure, Except.pure] at h
          cases h
          rw [List.flatMap_append]
          have h1 := rnnT_some_enum hcfg hac (hi g List.mem_cons_self) hr
          -- d0 ++ (A ++ B) ~ A ++ (d0 ++ B)
          refine List.Perm.trans ?_ (List.Perm.append h1 ih')
          rw [← List.append_assoc, ← List.append_assoc]
          exact List.Perm.append_right _ List.perm_append_comm

theorem buildLoopT_enum {cfg : Config} (hcfg : cfgOk cfg = true) (hac : acyclicB (toRef cfg) = true) :
    ∀ (fuel : Nat) (ws res out : List (Graph × Trace)), buildLoopT cfg fuel ws res = .ok out →
      (∀ gt ∈ ws, Inv gt.1) → out.Perm (res ++ ws.flatMap (E cfg)) := by
  intro fuel
  induction fuel with
  | zero =>
    intro ws res out h _
    unfold buildLoopT at h
    cases ws with
    | nil => simp at h; subst h; simp
    | cons g ws => simp at h
  | succ fuel ih =>
    intro ws res out h hi
    unfold buildLoopT at h
    cases ws with
    | nil => simp at h; subst h; simp
    | cons g ws =>
      simp only [List.isEmpty_cons, Bool.false_eq_true, if_false] at h
      cases hs : stepT cfg (g :: ws) with
      | error e => rw [hs] at h; cases h
      | ok dn =>
        obtain ⟨done, next⟩ := dn
        rw [hs] at h
        simp only [bind, Except.bind] at h
        have hst := Q.stepT_preserves cfg _ (rnnT_inv hcfg) (g :: ws) done next hi hs
        have h1 := ih next (res ++ done) out h hst.2
        refine h1.trans ?_
        rw [List.append_assoc]
        exact List.Perm.append_left _ (stepT_enum hcfg hac _ _ _ hs hi)

end C14.N
