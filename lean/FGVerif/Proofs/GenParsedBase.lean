import FGVerif.Proofs.C01
/-!
  GenParsed (definitions, general lemmas; tables in GenParsedC05 / GenParsedC14*.lean) — the generated *parsed* tables are what the parser MODEL makes of the generated pattern
  STRINGS.

  `Gen.C05.*` (hierarchy of the default functional-group configuration: pattern / anti-pattern graphs,
  group atoms, pattern size) and `Gen.C14.*` (shipped proxy collections: pattern strings, anchors, group
  references of the label nodes) are produced by translators that call the REAL parser of /repo.  C01
  delivers a Lean model of that parser (`C01.parse`, Model/C01.lean, theorems in Proofs/C01*.lean).  The
  obligations below re-derive every parsed item of those tables from the pattern strings
  (`Gen.defaultFgConfig` of Generated/Tables.lean, `Gen.Parsed.stuckConfig`, the strings carried in
  Generated/C14.lean) *inside Lean*.  So "the pattern graphs enter as data parsed by the real parser" is
  no separate trusted step any more: if the real parser parses a shipped pattern differently from the
  model, or a translator pairs a graph with the wrong string, an obligation here fails to build and the
  properties that consume the tables (C05, C14) report it.  If a pattern string and its graph change
  consistently (an edited `_default_fg_config` entry), the obligations still hold.

  How they are closed (no `native_decide`): kernel evaluation of `String` operations is slow (a `String` is
  a UTF-8 byte array; the model decodes node symbols to look at their case), so
  1. `…_chars` theorems (kernel evaluation, one string comparison per string): the `String` tables are the
     character-list tables of Generated/Parsed.lean under `String.ofList`;
  2. `fastRun_spec` (a general theorem, from the simulation `C01.run_sim` of Proofs/C01Sim.lean): on a
     character list, the parser model returns the graph `C01.buildGraph` builds from the events of the
     string-free cursor machine `C01.arun`; its node list is `C01.revNodes` of the events;
  3. `…_fast` theorems (`decide +kernel`): the string-free evaluation over the character-list tables;
  4. the stated obligations (`default_tree_parsed`, `da_pos_refs_parsed`, …) follow by 1–3.

  Everything is regenerated from the current source on every run; nothing here is typed in by hand.
-/
namespace GenParsed
open C01 (Str)

/-! ### decidable equality of graphs (scoped: no global instance is added) -/

def graphDecEq (a b : Graph) : Decidable (a = b) :=
  match a, b with
  | ⟨m1, n1, a1⟩, ⟨m2, n2, a2⟩ =>
    if h : m1 = m2 ∧ n1 = n2 ∧ a1 = a2 then
      isTrue (by obtain ⟨h1, h2, h3⟩ := h; subst h1 h2 h3; rfl)
    else
      isFalse (by intro e; apply h; cases e; exact ⟨rfl, rfl, rfl⟩)

scoped instance : DecidableEq Graph := graphDecEq

/-! ### what `FGConfig.__init__` (fgconfig.py) derives from a configuration entry -/

/-- row of `Gen.defaultFgConfig`: (name, pattern, group_atoms?, anti_patterns) -/
abbrev CfgRow := String × String × Option (List Nat) × List String
/-- the same with the patterns as character lists (`Gen.Parsed.defaultConfigC`) -/
abbrev CfgRowC := String × Str × Option (List Nat) × List Str
/-- row of `Gen.C05.defaultTreeNodes`: (name, pattern, group_atoms, anti_patterns, max_pattern_size, children) -/
abbrev TreeRow := String × Graph × List Int × List Graph × Int × List Nat

def CfgRowC.toS (c : CfgRowC) : CfgRow := (c.1, String.ofList c.2.1, c.2.2.1, c.2.2.2.map String.ofList)

/-- the parser `FGConfig` uses by default: `Parser()` (simple graph, no atom-atom map) -/
def fgCfg : C01.Cfg := ⟨false, false⟩
/-- the parser the proxies use by default: `Parser(use_multigraph=True)` -/
def proxyCfg : C01.Cfg := ⟨true, false⟩

/-- insert into a list sorted by node count descending, after the elements of equal count -/
def insertDesc (x : Graph) : List Graph → List Graph
  | [] => [x]
  | y :: ys => if y.numberOfNodes ≥ x.numberOfNodes then y :: insertDesc x ys else x :: y :: ys

/-- `sorted(gs, key=lambda x: x.number_of_nodes(), reverse=True)` (stable) -/
def sortDesc (gs : List Graph) : List Graph := gs.foldl (fun acc g => insertDesc g acc) []

/-- `[self.parser(p) for p in anti_pattern]`: every string parses, the graphs in order -/
def ParsedAll (cfg : C01.Cfg) : List String → List Graph → Prop
  | [], [] => True
  | s :: ss, g :: gs => C01.parse cfg s 0 = .ok g ∧ ParsedAll cfg ss gs
  | _, _ => False

/-- `self.group_atoms`: the given list, or `list(self.pattern.nodes)` -/
def groupAtomsOf (ga : Option (List Nat)) (pattern : Graph) : List Int :=
  match ga with
  | some l => l.map Int.ofNat
  | none => pattern.nodeIds

/-- `self.max_pattern_size` without `depth`: `np.max` of the node counts of pattern and anti-patterns -/
def maxPatternSize (pattern : Graph) (antis : List Graph) : Int :=
  ((pattern :: antis).map fun g => (g.numberOfNodes : Int)).foldl max 0

/-- a row of the generated hierarchy is what `FGConfig(**c)` holds, with the parser model as parser:
    the pattern graph is the parse of the pattern string; the stored anti-patterns are the parses of the
    anti-pattern strings, sorted as `FGConfig` sorts them; group atoms and pattern size as computed -/
def RowFrom (c : CfgRow) (row : TreeRow) : Prop :=
  c.1 = row.1 ∧
  C01.parse fgCfg c.2.1 0 = .ok row.2.1 ∧
  (∃ gs, ParsedAll fgCfg c.2.2.2 gs ∧ sortDesc gs = row.2.2.2.1) ∧
  row.2.2.1 = groupAtomsOf c.2.2.1 row.2.1 ∧
  row.2.2.2.2.1 = maxPatternSize row.2.1 row.2.2.2.1

/-- every row of `tree` comes from an entry of `cfg`; the entries have distinct names, the rows too, and
    there are as many rows as entries (so rows and entries correspond one to one) -/
def TreeFrom (cfg : List CfgRow) (tree : List TreeRow) : Prop :=
  (∀ row ∈ tree, ∃ c ∈ cfg, RowFrom c row) ∧
  (cfg.map (·.1)).Nodup ∧ (tree.map (·.1)).Nodup ∧ tree.length = cfg.length

/-! ### the string-free evaluation of the parser model -/

/-- lexer + abstract cursor machine (Proofs/C01Events.lean) on a character list -/
def fastRun (cs : Str) : Option C01.AState := C01.arun ⟨0, none, [], [], none, []⟩ (C01.lex cs)

/-- the graph of the events -/
def fastGraph (cfg : C01.Cfg) (cs : Str) (a : C01.AState) : Graph :=
  C01.buildGraph ((C01.lex cs).any C01.Token.isRc) cfg.aam 0 { multi := cfg.multi } a.out

def fastParse (cfg : C01.Cfg) (cs : Str) : Option Graph := (fastRun cs).map (fastGraph cfg cs)

/-- **the fast evaluation is the parser model** (on the strings on which the abstract machine runs
    through; that is all we need: every shipped pattern does) -/
theorem fastRun_spec (cfg : C01.Cfg) (cs : Str) (a : C01.AState) (h : fastRun cs = some a) :
    C01.parse cfg (String.ofList cs) 0 = .ok (fastGraph cfg cs a) ∧
    (fastGraph cfg cs a).nodes = C01.revNodes cfg.aam 0 a.out := by
  obtain ⟨st', hst', hsim⟩ :=
    C01.run_sim cfg 0 ((C01.lex cs).any C01.Token.isRc) (C01.lex cs) _ _ _
      (C01.sim_init cfg 0 ((C01.lex cs).any C01.Token.isRc)) h
  have hg : st'.g = fastGraph cfg cs a := hsim.graph
  refine ⟨?_, ?_⟩
  · simp only [C01.parse, String.toList_ofList, C01.parseTokens, hst', hg]
  · rw [← hg]; exact hsim.nodes

theorem fastParse_sound (cfg : C01.Cfg) (cs : Str) (g : Graph) (h : fastParse cfg cs = some g) :
    C01.parse cfg (String.ofList cs) 0 = .ok g := by
  unfold fastParse at h
  cases hr : fastRun cs with
  | none => simp [hr] at h
  | some a =>
    simp only [hr, Option.map_some, Option.some.injEq] at h
    rw [← h]
    exact (fastRun_spec cfg cs a hr).1

/-! ### C05, string-free -/

/-- all the parses of a list of character lists (`none` if one does not run through) -/
def fastAll (cfg : C01.Cfg) : List Str → Option (List Graph)
  | [] => some []
  | s :: ss =>
    match fastParse cfg s, fastAll cfg ss with
    | some g, some gs => some (g :: gs)
    | _, _ => none

theorem fastAll_sound (cfg : C01.Cfg) : ∀ (ss : List Str) (gs : List Graph), fastAll cfg ss = some gs →
    ParsedAll cfg (ss.map String.ofList) gs
  | [], gs, h => by cases h; trivial
  | s :: ss, gs, h => by
    unfold fastAll at h
    cases h1 : fastParse cfg s with
    | none => simp [h1] at h
    | some g =>
      cases h2 : fastAll cfg ss with
      | none => simp [h1, h2] at h
      | some gs' =>
        simp only [h1, h2, Option.some.injEq] at h
        subst h
        exact ⟨fastParse_sound cfg s g h1, fastAll_sound cfg ss gs' h2⟩

/-- `RowFrom`, string-free -/
def RowFromC (c : CfgRowC) (row : TreeRow) : Prop :=
  c.1 = row.1 ∧
  fastParse fgCfg c.2.1 = some row.2.1 ∧
  (fastAll fgCfg c.2.2.2).map sortDesc = some row.2.2.2.1 ∧
  row.2.2.1 = groupAtomsOf c.2.2.1 row.2.1 ∧
  row.2.2.2.2.1 = maxPatternSize row.2.1 row.2.2.2.1

instance (c : CfgRowC) (row : TreeRow) : Decidable (RowFromC c row) := by
  unfold RowFromC; exact inferInstance

theorem RowFromC.sound {c : CfgRowC} {row : TreeRow} (h : RowFromC c row) : RowFrom c.toS row := by
  obtain ⟨h1, h2, h3, h4, h5⟩ := h
  refine ⟨h1, fastParse_sound _ _ _ h2, ?_, h4, h5⟩
  cases ha : fastAll fgCfg c.2.2.2 with
  | none => simp [ha] at h3
  | some gs =>
    simp only [ha, Option.map_some, Option.some.injEq] at h3
    exact ⟨gs, fastAll_sound _ _ _ ha, h3⟩

def TreeFromC (cfg : List CfgRowC) (tree : List TreeRow) : Prop :=
  (∀ row ∈ tree, ∃ c ∈ cfg, RowFromC c row) ∧
  (cfg.map (·.1)).Nodup ∧ (tree.map (·.1)).Nodup ∧ tree.length = cfg.length

instance (cfg : List CfgRowC) (tree : List TreeRow) : Decidable (TreeFromC cfg tree) := by
  unfold TreeFromC; exact inferInstance

theorem TreeFromC.sound {cfg : List CfgRowC} {tree : List TreeRow} (h : TreeFromC cfg tree) :
    TreeFrom (cfg.map CfgRowC.toS) tree := by
  obtain ⟨h1, h2, h3, h4⟩ := h
  refine ⟨?_, ?_, h3, by simpa using h4⟩
  · intro row hrow
    obtain ⟨c, hc, hr⟩ := h1 row hrow
    exact ⟨c.toS, List.mem_map_of_mem hc, hr.sound⟩
  · simpa [List.map_map, Function.comp_def, CfgRowC.toS] using h2

/-! ### C14 / C15: the shipped proxy collections -/

/-- one proxy graph of a generated table: (pattern, anchors, group refs per label node) -/
abbrev ProxyGraphRow := String × List Nat × List (List String)
abbrev ProxyGraphRowC := Str × List Nat × List (List String)
/-- row of a generated group table: (key, name, graphs) -/
abbrev GroupRow := String × String × List ProxyGraphRow
abbrev GroupRowC := Str × String × List ProxyGraphRowC

def ProxyGraphRowC.toS (r : ProxyGraphRowC) : ProxyGraphRow := (String.ofList r.1, r.2)
def GroupRowC.toS (g : GroupRowC) : GroupRow := (String.ofList g.1, g.2.1, g.2.2.map ProxyGraphRowC.toS)

/-- the group references of a parsed pattern as the proxy reads them (`replace_next_node`,
    proxy.py): for every node in node order with `is_labeled`, the labels that are keys of the group
    dictionary; nodes without such a label are no group nodes -/
def refNode (keys : List String) (na : Int × NodeAttr) : Option (List String) :=
  if na.2.isLabeled = some true then
    (if ((na.2.labels.getD []).filter fun l => keys.contains l).isEmpty then none
     else some ((na.2.labels.getD []).filter fun l => keys.contains l))
  else none

def refsOfNodes (keys : List String) (nodes : List (Int × NodeAttr)) : List (List String) :=
  nodes.filterMap (refNode keys)

def refsOf (keys : List String) (g : Graph) : List (List String) := refsOfNodes keys g.nodes

/-- an anchor is a node index of the pattern (`idx_offset + anchor`); the empty pattern (group `H`:
    "attach nothing") is the one case whose anchor `[0]` has no node -/
def anchorsOk (g : Graph) (anchors : List Nat) : Bool :=
  g.nodes.isEmpty || anchors.all fun a => g.hasNode (a : Int)

/-- one proxy graph row against the parser model: the pattern parses, the listed references are exactly
    the group labels of the parse's label nodes (in node order), the anchors are node indices of the parse -/
def ProxyGraphFrom (keys : List String) (r : ProxyGraphRow) : Prop :=
  ∃ g, C01.parse ⟨true, false⟩ r.1 0 = .ok g ∧ refsOf keys g = r.2.2 ∧ anchorsOk g r.2.1 = true ∧ r.2.1 ≠ []

/-- a whole table: every graph of every group, and every core graph; the keys are the table's own keys -/
def TableFrom (groups : List GroupRow) (cores : List ProxyGraphRow) : Prop :=
  (∀ grp ∈ groups, ∀ r ∈ grp.2.2, ProxyGraphFrom (groups.map (·.1)) r) ∧
  (∀ r ∈ cores, ProxyGraphFrom (groups.map (·.1)) r)

/-! #### string-free -/

/-- the group references read off the events: label nodes in order, labels that are keys -/
def refsC (kc : List Str) : List C01.REv → List (List Str)
  | [] => []
  | .node _ (.labels ls) :: r =>
    if (ls.filter fun l => kc.contains l).isEmpty then refsC kc r
    else (ls.filter fun l => kc.contains l) :: refsC kc r
  | .node _ (.elem _) :: r => refsC kc r
  | .node _ .wild :: r => refsC kc r
  | .edge .. :: r => refsC kc r

theorem contains_ofList (kc : List Str) (l : Str) :
    (kc.map String.ofList).contains (String.ofList l) = kc.contains l := by
  induction kc with
  | nil => rfl
  | cons k ks ih =>
    have h : (String.ofList l == String.ofList k) = (l == k) := by
      rw [Bool.eq_iff_iff]; simp [String.ofList_inj]
    simp only [List.map_cons, List.contains_cons, ih, h]

theorem filter_keys_ofList (kc : List Str) (ls : List Str) :
    (ls.map String.ofList).filter (fun l => (kc.map String.ofList).contains l) =
      (ls.filter fun l => kc.contains l).map String.ofList := by
  induction ls with
  | nil => rfl
  | cons l ls ih =>
    simp only [List.map_cons, List.filter_cons, contains_ofList, ih]
    split <;> rfl

theorem refNode_elem (kc : List Str) (aam : Bool) (i : Nat) (s : Str) :
    refNode (kc.map String.ofList) ((i : Int) + 0, C01.nodeAttr aam 0 i (.elem s)) = none := by
  simp [refNode, C01.nodeAttr, C01.AtomTok.isLabeled]

theorem refNode_wild (kc : List Str) (aam : Bool) (i : Nat) :
    refNode (kc.map String.ofList) ((i : Int) + 0, C01.nodeAttr aam 0 i .wild) = none := by
  simp [refNode, C01.nodeAttr, C01.AtomTok.isLabeled]

theorem refNode_labels (kc : List Str) (aam : Bool) (i : Nat) (ls : List Str) :
    refNode (kc.map String.ofList) ((i : Int) + 0, C01.nodeAttr aam 0 i (.labels ls)) =
      if (ls.filter fun l => kc.contains l).isEmpty then none
      else some ((ls.filter fun l => kc.contains l).map String.ofList) := by
  simp only [refNode, C01.nodeAttr, C01.AtomTok.isLabeled, C01.AtomTok.labelList, Option.getD_some,
    filter_keys_ofList, if_true, List.isEmpty_map]

theorem refsOfNodes_revNodes (kc : List Str) (aam : Bool) : ∀ evs : List C01.REv,
    refsOfNodes (kc.map String.ofList) (C01.revNodes aam 0 evs) = (refsC kc evs).map (·.map String.ofList)
  | [] => rfl
  | .edge .. :: r => by
    simp only [C01.revNodes, refsC]; exact refsOfNodes_revNodes kc aam r
  | .node i (.elem s) :: r => by
    have ih := refsOfNodes_revNodes kc aam r
    unfold refsOfNodes at ih ⊢
    simp only [C01.revNodes, refsC, List.filterMap_cons, refNode_elem, ih]
  | .node i .wild :: r => by
    have ih := refsOfNodes_revNodes kc aam r
    unfold refsOfNodes at ih ⊢
    simp only [C01.revNodes, refsC, List.filterMap_cons, refNode_wild, ih]
  | .node i (.labels ls) :: r => by
    have ih := refsOfNodes_revNodes kc aam r
    unfold refsOfNodes at ih ⊢
    simp only [C01.revNodes, refsC, List.filterMap_cons, refNode_labels, ih]
    by_cases hE : (ls.filter fun l => kc.contains l).isEmpty = true
    · simp only [hE, if_true]
    · simp only [hE, if_false, List.map_cons, Bool.false_eq_true]

/-- `ProxyGraphFrom`, string-free (references compared as strings: one comparison per reference) -/
def ProxyGraphFromC (kc : List Str) (r : ProxyGraphRowC) : Prop :=
  ∃ a, fastRun r.1 = some a ∧ (refsC kc a.out).map (·.map String.ofList) = r.2.2 ∧
    anchorsOk (fastGraph proxyCfg r.1 a) r.2.1 = true ∧ r.2.1 ≠ []

instance (kc : List Str) (r : ProxyGraphRowC) : Decidable (ProxyGraphFromC kc r) :=
  match h : fastRun r.1 with
  | some a =>
    if h2 : (refsC kc a.out).map (·.map String.ofList) = r.2.2 ∧
        anchorsOk (fastGraph proxyCfg r.1 a) r.2.1 = true ∧ r.2.1 ≠ [] then isTrue ⟨a, h, h2⟩
    else isFalse (by
      rintro ⟨a', ha', h3⟩
      rw [h] at ha'
      cases ha'
      exact h2 h3)
  | none => isFalse (by
      rintro ⟨a', ha', _⟩
      rw [h] at ha'
      cases ha')

theorem ProxyGraphFromC.sound {kc : List Str} {r : ProxyGraphRowC} (h : ProxyGraphFromC kc r) :
    ProxyGraphFrom (kc.map String.ofList) r.toS := by
  obtain ⟨a, ha, h1, h2, h3⟩ := h
  obtain ⟨hp, hn⟩ := fastRun_spec proxyCfg r.1 a ha
  refine ⟨fastGraph proxyCfg r.1 a, hp, ?_, h2, h3⟩
  unfold refsOf
  rw [hn]
  exact (refsOfNodes_revNodes kc _ _).trans h1

def TableFromC (groups : List GroupRowC) (cores : List ProxyGraphRowC) : Prop :=
  (∀ grp ∈ groups, ∀ r ∈ grp.2.2, ProxyGraphFromC (groups.map (·.1)) r) ∧
  (∀ r ∈ cores, ProxyGraphFromC (groups.map (·.1)) r)

instance (groups : List GroupRowC) (cores : List ProxyGraphRowC) : Decidable (TableFromC groups cores) := by
  unfold TableFromC; exact inferInstance

theorem TableFromC.sound {groups : List GroupRowC} {cores : List ProxyGraphRowC} (h : TableFromC groups cores) :
    TableFrom (groups.map GroupRowC.toS) (cores.map ProxyGraphRowC.toS) := by
  have hk : (groups.map GroupRowC.toS).map (·.1) = (groups.map (·.1)).map String.ofList := by
    simp [List.map_map, Function.comp_def, GroupRowC.toS]
  unfold TableFrom
  rw [hk]
  refine ⟨?_, ?_⟩
  · intro grp hgrp r hr
    obtain ⟨gc, hgc, rfl⟩ := List.mem_map.mp hgrp
    obtain ⟨rc, hrc, rfl⟩ := List.mem_map.mp hr
    exact (h.1 gc hgc rc hrc).sound
  · intro r hr
    obtain ⟨rc, hrc, rfl⟩ := List.mem_map.mp hr
    exact (h.2 rc hrc).sound

/-- all pattern strings of a table -/
def patternsOf (groups : List GroupRow) (cores : List ProxyGraphRow) : List String :=
  (groups.flatMap fun grp => grp.2.2.map (·.1)) ++ cores.map (·.1)

def patternsOfC (groups : List GroupRowC) (cores : List ProxyGraphRowC) : List Str :=
  (groups.flatMap fun grp => grp.2.2.map (·.1)) ++ cores.map (·.1)

theorem patternsOf_toS (groups : List GroupRowC) (cores : List ProxyGraphRowC) :
    patternsOf (groups.map GroupRowC.toS) (cores.map ProxyGraphRowC.toS) =
      (patternsOfC groups cores).map String.ofList := by
  simp [patternsOf, patternsOfC, List.map_flatMap, List.flatMap_map, List.map_map, Function.comp_def,
    GroupRowC.toS, ProxyGraphRowC.toS]

end GenParsed
