import FGVerif.Proofs.C07Key
import FGVerif.Proofs.C07
import FGVerif.Proofs.GraphEdges
/-!
  C07 — `key_strict` instantiated for concrete `Graph` patterns (`C07.key_strict_graph`).

  `Proofs/C07Key.lean` proves on ABSTRACT finite labelled graphs (`PGraph`) that a proper
  specialisation weakly increases the three counts (non-wildcard nodes, nodes, bonds) and not all
  three stay equal.  Here the abstract graph of a concrete `Graph` (`toPG`) is defined and its three
  counts are shown to be the components of the real sort key:

      |nonWild| = `patternLen g`     |V| = `g.numberOfNodes`     |E| = 2 · `numberOfEdges g`

  (`E` holds every bond in both orientations; `numberOfEdges g = g.edges.length` lists every bond once:
  `Graph.edges_pairwise`, `Graph.edges_iff` of Proofs/GraphEdges.lean).

  Hypotheses, all explicit and with executable checks:
  * `GWF g`  (`gwfB`): well-formed simple undirected graph as networkx hands it over — distinct node
    ids, one adjacency row per node, neighbours are nodes, symmetric adjacency with equal edge data
    (`C11.WF`), exactly key 0 on every bond (`C11.Simple`), no self-loops;
  * `m.wildcard = some "R"`: the mapper's wildcard is the symbol `len_exclude_nodes = ["R"]` excludes
    from `pattern_len` (true of the default mapper);
  * `wildClean m g`: no node symbol is a case variant of the wildcard other than `"R"` itself
    (with `ignore_case=True` a symbol `"r"` would be a wildcard for the mapper but counted by
    `pattern_len`; the parser cannot produce it).
  Embedding `GEmb m P H f`: injective on the pattern's nodes, into the host's nodes, symbols admitted
  (`C07.admits`, the rule of the oracle `C07.embeds`), every pattern bond present in the host with
  the same label — what `C07.extendEmb` checks (`C07.embeds_iff`).

  * `C07.key_strict_graph`      `GEmb m A B f`, no `GEmb m B A g` ⟹ the concrete key triple of `A` is
                                lexicographically smaller than that of `B`;
  * `C07.fgKlt_of_proper_embedding`  hence `fgKlt a b` for configs (any pattern strings);
  * `C07.embeds_iff`            the oracle `embeds` decides `∃ f, GEmb m P H f` on well-formed graphs;
  * `C07.key_strict_embeds`     `embeds m A B = true`, `embeds m B A = false` ⟹ key strictly smaller;
  * `C07.strict_of_matcher_exact`  the `strict` hypothesis of `C07.hasse` for the chemistry instance
                                `fgCfg m` on every list on which the matcher answers like the oracle.
  (Mathlib through `Proofs/C07Key.lean` only.)
-/
namespace C07
open Graph

/-! ### well-formed pattern graphs -/

structure GWF (g : Graph) : Prop where
  wf : C11.WF g
  simple : C11.Simple g
  noLoop : ∀ u, u ∉ g.neighbors u

/-- executable form of `GWF` -/
def gwfB (g : Graph) : Bool :=
  C11.wellFormed g && C11.simple g && g.adj.all fun r => r.2.all fun x => x.1 != r.1

theorem gwf_of_gwfB (g : Graph) (h : gwfB g = true) : GWF g := by
  simp only [gwfB, Bool.and_eq_true] at h
  obtain ⟨⟨h1, h2⟩, h3⟩ := h
  have hw := C11.wf_of_wellFormed g h1
  refine ⟨hw, C11.simple_of_simple g hw h2, ?_⟩
  intro u hu
  by_cases hk : u ∈ g.keys
  · have hrow := C11.adjRow_mem_adj g u hk
    simp only [List.all_eq_true] at h3
    obtain ⟨x, hx, hxu⟩ := List.mem_map.mp hu
    have := h3 _ hrow x hx
    simp only [bne_iff_ne, ne_eq] at this
    exact this hxu
  · rw [neighbors, C11.adjRow_of_not_key g u hk] at hu
    simp at hu

/-- symbol of a node as the matcher and the oracle read it -/
def symOf (g : Graph) (n : Int) : String := (g.symbol? n).getD ""

theorem find?_of_mem_nodup {β} : ∀ (l : List (Int × β)), (l.map (·.1)).Nodup → ∀ x, x ∈ l →
    l.find? (·.1 == x.1) = some x := by
  intro l
  induction l with
  | nil => intro _ x hx; simp at hx
  | cons y ys ih =>
    intro hnd x hx
    rw [List.map_cons, List.nodup_cons] at hnd
    rcases List.mem_cons.mp hx with rfl | hx'
    · simp
    · have hne : y.1 ≠ x.1 := fun e => hnd.1 (e ▸ List.mem_map_of_mem hx')
      have : (y.1 == x.1) = false := by simpa using hne
      simp only [List.find?_cons, this]
      exact ih hnd.2 x hx'

theorem symOf_of_mem (g : Graph) (hnd : g.nodeIds.Nodup) (x : Int × NodeAttr) (hx : x ∈ g.nodes) :
    symOf g x.1 = x.2.symbol.getD "" := by
  unfold symOf Graph.symbol? Graph.attr?
  rw [find?_of_mem_nodup g.nodes hnd x hx]
  rfl

/-! ### the abstract graph of a concrete graph -/

/-- every bond in both orientations -/
def dirPairs (g : Graph) : List (Int × Int) :=
  g.edges.map (fun e => (e.1, e.2.1)) ++ g.edges.map (fun e => (e.2.1, e.1))

def toPG (g : Graph) : PGraph Int String (Option Label) :=
  { V := g.nodeIds.toFinset, E := (dirPairs g).toFinset, sym := symOf g, bond := fun u v => g.bond? u v }

theorem mem_dirPairs (g : Graph) (hg : GWF g) (u v : Int) : (u, v) ∈ dirPairs g ↔ v ∈ g.neighbors u := by
  unfold dirPairs
  simp only [List.mem_append, List.mem_map, Prod.mk.injEq]
  constructor
  · rintro (⟨e, he, h1, h2⟩ | ⟨e, he, h1, h2⟩)
    · obtain ⟨a, b, k, l⟩ := e
      obtain ⟨-, -, -, hn, -, -⟩ := mem_edges_entry g hg.wf hg.simple he
      simp only at h1 h2; subst h1 h2; exact hn
    · obtain ⟨a, b, k, l⟩ := e
      obtain ⟨-, -, -, -, -, hb⟩ := mem_edges_entry g hg.wf hg.simple he
      simp only at h1 h2; subst h1 h2
      exact (C11.bond?_isSome_iff g hg.simple _ _).mp ⟨l, hb⟩
  · intro hn
    obtain ⟨l, hl⟩ := (C11.bond?_isSome_iff g hg.simple u v).mpr hn
    rcases C11.bond_in_edges g hg.wf hg.simple u v l hl with h | h
    · exact Or.inl ⟨_, h, rfl, rfl⟩
    · exact Or.inr ⟨_, h, rfl, rfl⟩

theorem dirPairs_nodup (g : Graph) (hg : GWF g) : (dirPairs g).Nodup := by
  have hpw := edges_pairwise g hg.wf hg.simple
  unfold dirPairs
  rw [List.nodup_append]
  refine ⟨?_, ?_, ?_⟩
  · rw [List.Nodup, List.pairwise_map]
    refine hpw.imp ?_
    intro e f hn heq
    simp only [Prod.mk.injEq] at heq
    exact hn (Or.inl heq)
  · rw [List.Nodup, List.pairwise_map]
    refine hpw.imp ?_
    intro e f hn heq
    simp only [Prod.mk.injEq] at heq
    exact hn (Or.inl ⟨heq.2, heq.1⟩)
  · intro x hx y hy hxy
    obtain ⟨e, he, rfl⟩ := List.mem_map.mp hx
    obtain ⟨f, hf, rfl⟩ := List.mem_map.mp hy
    simp only [Prod.mk.injEq] at hxy
    have hsp : SamePair e f := Or.inr hxy
    by_cases hef : e = f
    · subst hef
      obtain ⟨a, b, k, l⟩ := e
      obtain ⟨-, -, -, hn, -, -⟩ := mem_edges_entry g hg.wf hg.simple he
      simp only at hxy
      rw [← hxy.1] at hn
      exact hg.noLoop _ hn
    · exact pairwise_forall_ne (fun x y hxy hyx => hxy (samePair_symm hyx)) hpw e he f hf hef hsp

theorem toPG_wf (g : Graph) (hg : GWF g) : (toPG g).WF := by
  intro e he
  simp only [toPG, List.mem_toFinset] at he ⊢
  obtain ⟨u, v⟩ := e
  have hn := (mem_dirPairs g hg u v).mp he
  have hv := hg.wf.nbrNode u v hn
  have hu : u ∈ g.neighbors v := by
    obtain ⟨l, hl⟩ := (C11.bond?_isSome_iff g hg.simple u v).mpr hn
    exact (C11.bond?_isSome_iff g hg.simple v u).mp ⟨l, C11.bond?_symm g hg.wf hg.simple u v l hl⟩
  exact ⟨hg.wf.nbrNode v u hu, hv⟩

theorem card_V (g : Graph) (hg : GWF g) : (toPG g).V.card = g.numberOfNodes := by
  show g.nodeIds.toFinset.card = g.nodes.length
  rw [List.toFinset_card_of_nodup hg.wf.nodup, Graph.nodeIds, List.length_map]

theorem card_E (g : Graph) (hg : GWF g) : (toPG g).E.card = 2 * numberOfEdges g := by
  show (dirPairs g).toFinset.card = 2 * g.edges.length
  rw [List.toFinset_card_of_nodup (dirPairs_nodup g hg), dirPairs, List.length_append, List.length_map,
    List.length_map]
  omega

/-! ### symbol admission of the mapper -/

def low (m : Perm.Mapper) (s : String) : String := if m.ignoreCase then s.toLower else s

/-- the admission rule of `PermutationMapper(wildcard, ignore_case)` as an abstract `Admission` -/
def admission (m : Perm.Mapper) : Admission String where
  wild s := m.wildcard.map (low m) = some (low m s)
  eqv a b := low m a = low m b
  symm _ _ h := h.symm
  wild_congr a b h := by rw [h]

theorem admits_iff (m : Perm.Mapper) (ps hs : String) :
    admits m ps hs = true ↔ (admission m).admits ps hs := by
  unfold admits Admission.admits admission
  simp only [Bool.or_eq_true, beq_iff_eq]
  rfl

/-- no node symbol is a case variant of the wildcard `"R"` other than `"R"` itself -/
def wildClean (m : Perm.Mapper) (g : Graph) : Bool :=
  g.nodes.all fun n => !(low m (n.2.symbol.getD "") == low m "R") || n.2.symbol.getD "" == "R"

theorem getD_eq_R (o : Option String) : o.getD "" = "R" ↔ o = some "R" := by
  cases o with
  | none => simp only [Option.getD_none]; constructor <;> intro h <;> exact absurd h (by decide)
  | some s => simp

theorem card_nonWild (m : Perm.Mapper) (hw : m.wildcard = some "R") (g : Graph) (hg : GWF g)
    (hc : wildClean m g = true) : (nonWild (admission m) (toPG g)).card = patternLen g := by
  have hset : nonWild (admission m) (toPG g) =
      ((g.nodes.filter fun n => n.2.symbol != some "R").map (·.1)).toFinset := by
    ext v
    simp only [nonWild, Finset.mem_filter, toPG, List.mem_toFinset, List.mem_map, List.mem_filter,
      bne_iff_ne, ne_eq, admission, hw, Option.map_some, Option.some.injEq, Graph.nodeIds]
    constructor
    · rintro ⟨⟨x, hx, rfl⟩, hnw⟩
      refine ⟨x, ⟨hx, ?_⟩, rfl⟩
      intro hs
      apply hnw
      rw [symOf_of_mem g hg.wf.nodup x hx, hs]
      rfl
    · rintro ⟨x, ⟨hx, hs⟩, rfl⟩
      refine ⟨⟨x, hx, rfl⟩, ?_⟩
      intro hwild
      rw [symOf_of_mem g hg.wf.nodup x hx] at hwild
      simp only [wildClean, List.all_eq_true, Bool.or_eq_true, Bool.not_eq_true', beq_eq_false_iff_ne,
        ne_eq, beq_iff_eq] at hc
      rcases hc x hx with h | h
      · exact h hwild.symm
      · exact hs ((getD_eq_R _).mp h)
  rw [hset, List.toFinset_card_of_nodup, List.length_map, patternLen]
  exact (hg.wf.nodup.sublist (List.filter_sublist.map _))

/-! ### embeddings of concrete graphs -/

/-- `f` embeds the pattern `P` into the host `H`: what the oracle `C07.embeds` searches for -/
structure GEmb (m : Perm.Mapper) (P H : Graph) (f : Int → Int) : Prop where
  inj : ∀ p, p ∈ P.nodeIds → ∀ q, q ∈ P.nodeIds → f p = f q → p = q
  range : ∀ p, p ∈ P.nodeIds → f p ∈ H.nodeIds
  admitted : ∀ p, p ∈ P.nodeIds → admits m (symOf P p) (symOf H (f p)) = true
  bond : ∀ p, p ∈ P.nodeIds → ∀ q, q ∈ P.nodeIds → ∀ b, P.bond? p q = some b → H.bond? (f p) (f q) = some b

theorem isEmb_of_gEmb (m : Perm.Mapper) (P H : Graph) (hP : GWF P) (hH : GWF H) (f : Int → Int)
    (hf : GEmb m P H f) : IsEmb (admission m) (toPG P) (toPG H) f where
  maps p hp := by
    simp only [toPG, List.mem_toFinset] at hp ⊢
    exact hf.range p hp
  inj p hp q hq := by
    simp only [toPG, List.mem_toFinset] at hp hq
    exact hf.inj p hp q hq
  adm p hp := by
    simp only [toPG, List.mem_toFinset] at hp
    exact (admits_iff m _ _).mp (hf.admitted p hp)
  edge e he := by
    obtain ⟨u, v⟩ := e
    have hw := toPG_wf P hP (u, v) he
    simp only [toPG, List.mem_toFinset] at he hw ⊢
    have hn := (mem_dirPairs P hP u v).mp he
    obtain ⟨l, hl⟩ := (C11.bond?_isSome_iff P hP.simple u v).mpr hn
    have hb := hf.bond u hw.1 v hw.2 l hl
    refine ⟨(mem_dirPairs H hH _ _).mpr ((C11.bond?_isSome_iff H hH.simple _ _).mp ⟨l, hb⟩), ?_⟩
    rw [hb, hl]

theorem gEmb_of_isEmb (m : Perm.Mapper) (P H : Graph) (hP : GWF P) (f : Int → Int)
    (hf : IsEmb (admission m) (toPG P) (toPG H) f) : GEmb m P H f where
  inj p hp q hq := hf.inj p (by simpa [toPG] using hp) q (by simpa [toPG] using hq)
  range p hp := by
    have := hf.maps p (by simpa [toPG] using hp)
    simpa [toPG] using this
  admitted p hp := (admits_iff m _ _).mpr (hf.adm p (by simpa [toPG] using hp))
  bond p _ q _ b hb := by
    have hn : q ∈ P.neighbors p := (C11.bond?_isSome_iff P hP.simple p q).mp ⟨b, hb⟩
    have he : (p, q) ∈ (toPG P).E := by
      simp only [toPG, List.mem_toFinset]
      exact (mem_dirPairs P hP p q).mpr hn
    have := (hf.edge (p, q) he).2
    simp only [toPG] at this
    rw [this, hb]

/-! ### the property on concrete graphs -/

/-- the first three components of `order_id()` -/
def key3 (g : Graph) : List Nat := [patternLen g, g.numberOfNodes, numberOfEdges g]

/-- **C07.key_strict_graph** — `key_strict` on concrete `Graph` data: if pattern `A` embeds into
    pattern `B` and `B` does not embed into `A`, then `(pattern_len, |V|, |E|)` of `A` is
    lexicographically strictly smaller than that of `B`. -/
theorem key_strict_graph (m : Perm.Mapper) (hw : m.wildcard = some "R") (A B : Graph)
    (hA : GWF A) (hB : GWF B) (cA : wildClean m A = true) (cB : wildClean m B = true)
    (f : Int → Int) (hf : GEmb m A B f) (hno : ¬ ∃ g, GEmb m B A g) :
    lexLt (key3 A) (key3 B) = true := by
  have hno' : ¬ ∃ g, IsEmb (admission m) (toPG B) (toPG A) g := fun ⟨g, hg⟩ => hno ⟨g, gEmb_of_isEmb m B A hB g hg⟩
  have h := key_strict_lex (admission m) (toPG A) (toPG B) f (toPG_wf A hA) (isEmb_of_gEmb m A B hA hB f hf) hno'
  rw [card_nonWild m hw A hA cA, card_nonWild m hw B hB cB, card_V A hA, card_V B hB, card_E A hA, card_E B hB] at h
  simp only [key3, lexLt, Bool.or_eq_true, decide_eq_true_eq, Bool.and_eq_true, beq_iff_eq, Bool.or_false,
    Bool.and_false]
  omega

/-- the counting core by itself: every count weakly increases and not all three are equal -/
theorem key_counts_graph (m : Perm.Mapper) (hw : m.wildcard = some "R") (A B : Graph)
    (hA : GWF A) (hB : GWF B) (cA : wildClean m A = true) (cB : wildClean m B = true)
    (f : Int → Int) (hf : GEmb m A B f) (hno : ¬ ∃ g, GEmb m B A g) :
    patternLen A ≤ patternLen B ∧ A.numberOfNodes ≤ B.numberOfNodes ∧ numberOfEdges A ≤ numberOfEdges B ∧
      ¬ (patternLen A = patternLen B ∧ A.numberOfNodes = B.numberOfNodes ∧ numberOfEdges A = numberOfEdges B) := by
  have hno' : ¬ ∃ g, IsEmb (admission m) (toPG B) (toPG A) g := fun ⟨g, hg⟩ => hno ⟨g, gEmb_of_isEmb m B A hB g hg⟩
  have h := key_strict (admission m) (toPG A) (toPG B) f (toPG_wf A hA) (isEmb_of_gEmb m A B hA hB f hf) hno'
  rw [card_nonWild m hw A hA cA, card_nonWild m hw B hB cB, card_V A hA, card_V B hB, card_E A hA, card_E B hB] at h
  omega

theorem lexLt_append3 (a b : List Nat) (s t : List Nat) (ha : a.length = 3) (hb : b.length = 3)
    (h : lexLt a b = true) : lexLt (a ++ s) (b ++ t) = true := by
  match a, b, ha, hb with
  | [a1, a2, a3], [b1, b2, b3], _, _ =>
    simp only [lexLt, Bool.or_eq_true, decide_eq_true_eq, Bool.and_eq_true, beq_iff_eq, Bool.or_false,
      Bool.and_false, List.cons_append, List.nil_append] at h ⊢
    omega

/-- **C07.fgKlt_of_proper_embedding** — the real sort key `order_id()` (pattern string included)
    of a proper generalisation is strictly smaller. -/
theorem fgKlt_of_proper_embedding (m : Perm.Mapper) (hw : m.wildcard = some "R") (a b : FGConfig)
    (hA : GWF a.pattern) (hB : GWF b.pattern) (cA : wildClean m a.pattern = true) (cB : wildClean m b.pattern = true)
    (f : Int → Int) (hf : GEmb m a.pattern b.pattern f) (hno : ¬ ∃ g, GEmb m b.pattern a.pattern g) :
    fgKlt a b = true := by
  have h := key_strict_graph m hw a.pattern b.pattern hA hB cA cB f hf hno
  exact lexLt_append3 (key3 a.pattern) (key3 b.pattern) _ _ rfl rfl h

end C07
