import FGVerif.Proofs.C13Offset
import FGVerif.Proofs.C13Relabel
/-!
  C13 for ARBITRARY parent ids, part A: the stages of `replaceNodeAt off` under the hypothesis that `off` is above
  every parent id (`E.DomI`).  Same chain as `C13EdgesG/H` (which are about ids `0..n-1` and `off = n`), with
  membership in the parent's id list instead of the interval `0 ≤ a < n`:

  compose (`DomI.G1_edgeData`, `DomI.G1_row`, `DomI.incident_order`) → re-attachment loop (`DomI.G2_labels`) →
  `removeNode` → `relabel_graph` (Proofs/C13Relabel.lean: rank among the sorted ids).
-/
set_option linter.unusedSimpArgs false

namespace C13
open Graph

/-- the incident bonds of `x` as `(neighbour, label)` in the order networkx reports them after composing with the
    sub-pattern parsed at offset `off` -/
def incOfComposeAt (off : Int) (g : Graph) (x : Int) (sub : Graph) : List (Int × Label) :=
  ((compose g (shiftGraph sub off)).edgesOf x).map fun e => (e.2.1, e.2.2.2)

end C13

namespace C13.E
open Graph

/-- the domain for arbitrary ids, in `Prop` form: a well-formed parent (distinct ids, nothing else asked of
    them) containing `x` without a self-loop, an offset above every parent id, a well-formed sub-pattern on ids
    `0..m-1` in any node order, anchors inside it, same graph kind -/
structure DomI (g : Graph) (x : Int) (sub : Graph) (anchors : List Nat) (off : Int) : Prop where
  wg : WF g
  hx : x ∈ g.nodeIds
  ws : WF sub
  cs : sub.nodeIds.Perm (upto sub.nodes.length)
  lt : ∀ a ∈ g.nodeIds, a < off
  noloop : x ∉ g.neighbors x
  anc : sub.nodes.length > 0 → ∀ i, anchorAt anchors i < sub.nodes.length
  multi : sub.multi = g.multi

variable {g : Graph} {x : Int} {sub : Graph} {anchors : List Nat} {off : Int}

/-- after the composition step -/
def G1At (off : Int) (g sub : Graph) : Graph := compose g (shiftGraph sub off)

theorem DomI.x_lt (d : DomI g x sub anchors off) : x < off := d.lt x d.hx

theorem DomI.s_mem (d : DomI g x sub anchors off) {a : Int} :
    a ∈ sub.nodeIds ↔ 0 ≤ a ∧ a < (sub.nodes.length : Int) := d.cs.mem_iff.trans mem_upto

theorem DomI.h_mem (d : DomI g x sub anchors off) {a : Int} :
    a ∈ (shiftGraph sub off).nodeIds ↔ off ≤ a ∧ a < off + (sub.nodes.length : Int) := by
  rw [shift_nodeIds, mem_map_add, d.s_mem]; omega

theorem DomI.composeOk (d : DomI g x sub anchors off) : ComposeOk g (shiftGraph sub off) := by
  refine ⟨d.wg, WF_shift d.ws _, ?_⟩
  intro a ha hg
  have := (d.h_mem.mp ha).1
  have := d.lt a hg
  omega

theorem DomI.w1 (d : DomI g x sub anchors off) : WF (G1At off g sub) := WF_compose d.composeOk d.multi

theorem DomI.G1_nodes (d : DomI g x sub anchors off) :
    (G1At off g sub).nodes = g.nodes ++ (shiftGraph sub off).nodes := compose_nodes d.composeOk

theorem DomI.G1_nodeIds (d : DomI g x sub anchors off) :
    (G1At off g sub).nodeIds = g.nodeIds ++ sub.nodeIds.map (· + off) := by
  unfold G1At; rw [compose_nodeIds d.composeOk, shift_nodeIds]

theorem DomI.G1_mem (d : DomI g x sub anchors off) {a : Int} :
    a ∈ (G1At off g sub).nodeIds ↔ a ∈ g.nodeIds ∨ (off ≤ a ∧ a < off + (sub.nodes.length : Int)) := by
  unfold G1At; rw [compose_nodeIds d.composeOk, List.mem_append, d.h_mem]

theorem DomI.G1_multi (d : DomI g x sub anchors off) : (G1At off g sub).multi = g.multi := compose_multi d.composeOk

theorem DomI.G1_edgeData (d : DomI g x sub anchors off) (a b : Int) :
    (G1At off g sub).edgeData a b = g.edgeData a b ++ sub.edgeData (a - off) (b - off) := by
  unfold G1At; rw [compose_edgeData d.composeOk, shift_edgeData]

theorem DomI.g_nil (d : DomI g x sub anchors off) {a b : Int} (h : off ≤ a ∨ off ≤ b) : g.edgeData a b = [] := by
  apply edgeData_nil_of_not_node d.wg
  rcases h with h | h
  · left; intro hm; have := d.lt a hm; omega
  · right; intro hm; have := d.lt b hm; omega

theorem DomI.s_nil (d : DomI g x sub anchors off) {a b : Int}
    (h : a < 0 ∨ (sub.nodes.length : Int) ≤ a ∨ b < 0 ∨ (sub.nodes.length : Int) ≤ b) :
    sub.edgeData a b = [] := by
  apply edgeData_nil_of_not_node d.ws
  rw [d.s_mem, d.s_mem]; omega

/-- the incident edges of `x` after the composition step -/
def incEdgesAt (off : Int) (g : Graph) (x : Int) (sub : Graph) : List Edge := (G1At off g sub).edgesOf x

theorem incEdgesAt_eq (off : Int) (g : Graph) (x : Int) (sub : Graph) :
    incEdgesAt off g x sub = expand x ((G1At off g sub).adjRow x) := rfl

theorem incOfComposeAt_eq (off : Int) (g : Graph) (x : Int) (sub : Graph) :
    incOfComposeAt off g x sub = incOf (incEdgesAt off g x sub) := rfl

/-- neighbours of `x` after the composition are parent nodes -/
theorem DomI.inc_range (d : DomI g x sub anchors off) {e : Edge} (he : e ∈ incEdgesAt off g x sub) :
    e.2.1 ∈ g.nodeIds := by
  rw [incEdgesAt_eq] at he
  obtain ⟨_, r, hr, h2, _⟩ := mem_expand he
  have hnb : e.2.1 ∈ (G1At off g sub).neighbors x := by
    rw [neighbors_row, h2]; exact mem_ids_of_mem hr
  have hne := d.w1.nonempty _ _ hnb
  rw [d.G1_edgeData] at hne
  have hs : sub.edgeData (x - off) (e.2.1 - off) = [] :=
    d.s_nil (Or.inl (by have := d.x_lt; omega))
  rw [hs, List.append_nil] at hne
  exact d.wg.right_mem hne

/-- the triples of the loop (none when the sub-pattern is empty) -/
def TTAt (off : Int) (g : Graph) (x : Int) (sub : Graph) (anchors : List Nat) : List Triple :=
  if sub.nodes.length > 0 then triples off anchors (incEdgesAt off g x sub).zipIdx else []

/-- after the re-attachment loop -/
def G2At (off : Int) (g : Graph) (x : Int) (sub : Graph) (anchors : List Nat) : Graph :=
  addNewFrom (G1At off g sub) (TTAt off g x sub anchors)

theorem replaceNodeAt_eq (off : Int) (g : Graph) (x : Int) (sub : Graph) (anchors : List Nat) :
    replaceNodeAt off g x sub anchors = relabelGraph ((G2At off g x sub anchors).removeNode x) 0 := by
  unfold replaceNodeAt G2At TTAt
  simp only [shift_nodes_length]
  by_cases hm : sub.nodes.length > 0
  · simp only [hm, if_true, reattach_eq]; rfl
  · simp only [hm, if_false]; rfl

theorem DomI.TT_ends (d : DomI g x sub anchors off) :
    EndsInT (G1At off g sub).nodeIds (TTAt off g x sub anchors) := by
  unfold TTAt
  by_cases hm : sub.nodes.length > 0
  · simp only [hm, if_true]
    intro t ht
    obtain ⟨q, hq, rfl⟩ := List.mem_map.mp ht
    have h1 := d.anc hm q.2
    have h2 := d.inc_range (List.fst_mem_of_mem_zipIdx hq)
    rw [d.G1_mem, d.G1_mem]
    constructor
    · right; constructor <;> simp only <;> omega
    · left; exact h2
  · simp only [hm, if_false]; intro t ht; simp at ht

theorem TTAt_below (off : Int) (g : Graph) (x : Int) (sub : Graph) (anchors : List Nat) {a b : Int}
    (ha : a < off) (hb : b < off) : selL a b (TTAt off g x sub anchors) = [] := by
  unfold TTAt; split
  · exact selL_below _ _ _ a b ha hb
  · rfl

theorem DomI.TT_above (d : DomI g x sub anchors off) {a b : Int}
    (ha : off ≤ a) (hb : off ≤ b) : selL a b (TTAt off g x sub anchors) = [] := by
  unfold TTAt; split
  · apply selL_above _ _ _ a b _ ha hb
    intro q hq
    exact d.lt _ (d.inc_range (List.fst_mem_of_mem_zipIdx hq))
  · rfl

theorem TTAt_cross (off : Int) (g : Graph) (x : Int) (sub : Graph) (anchors : List Nat) {a : Int} (b : Int)
    (hm : sub.nodes.length > 0) (ha : a < off) :
    selL a b (TTAt off g x sub anchors) = crossLabelsOf (incOfComposeAt off g x sub) anchors a (b - off) := by
  unfold TTAt; simp only [hm, if_true]
  rw [incOfComposeAt_eq]; exact selL_cross _ anchors _ a b ha

theorem TTAt_nil (off : Int) (g : Graph) (x : Int) (sub : Graph) (anchors : List Nat) (hm : ¬ sub.nodes.length > 0) :
    TTAt off g x sub anchors = [] := by unfold TTAt; simp [hm]

/-- on a simple graph the neighbours in the incident list are pairwise distinct -/
theorem DomI.inc_nodup (d : DomI g x sub anchors off) (hm : g.multi = false) :
    ((incOfComposeAt off g x sub).map (·.1)).Nodup := by
  rw [incOfComposeAt_eq, incEdgesAt_eq, incOf_expand_fst]
  · exact d.w1.nbrNodup x
  · intro r hr
    have hnd : (ids ((G1At off g sub).adjRow x)).Nodup := d.w1.nbrNodup x
    have hed : (G1At off g sub).edgeData x r.1 = r.2 := by
      rw [edgeData_row]; exact lk_of_mem_nodup hnd hr
    have hne : (G1At off g sub).edgeData x r.1 ≠ [] :=
      d.w1.nonempty _ _ (by rw [neighbors_row]; exact mem_ids_of_mem hr)
    have hk := d.w1.simple (by rw [d.G1_multi]; exact hm) _ _ hne
    rw [hed] at hk
    have := congrArg List.length hk
    simpa [keys] using this

theorem DomI.loop_ok (d : DomI g x sub anchors off) (a b : Int) :
    (G1At off g sub).multi = false → selL a b (TTAt off g x sub anchors) ≠ [] →
      (G1At off g sub).edgeData a b = [] ∧ (selL a b (TTAt off g x sub anchors)).length ≤ 1 := by
  intro hmu hne
  rw [d.G1_multi] at hmu
  have hm : sub.nodes.length > 0 := by
    apply Classical.byContradiction
    intro h; apply hne; rw [TTAt_nil off g x sub anchors h]; rfl
  by_cases ha : a < off
  · by_cases hb : b < off
    · exact absurd (TTAt_below off g x sub anchors ha hb) hne
    · constructor
      · rw [d.G1_edgeData, d.g_nil (Or.inr (by omega)), d.s_nil (Or.inl (by omega))]; rfl
      · rw [TTAt_cross off g x sub anchors b hm ha]
        exact crossLabelsOf_length_le_one _ _ _ _ (d.inc_nodup hmu)
  · by_cases hb : b < off
    · constructor
      · rw [d.G1_edgeData, d.g_nil (Or.inl (by omega)), d.s_nil (Or.inr (Or.inr (Or.inl (by omega))))]; rfl
      · rw [selL_swap, TTAt_cross off g x sub anchors a hm hb]
        exact crossLabelsOf_length_le_one _ _ _ _ (d.inc_nodup hmu)
    · exact absurd (d.TT_above (by omega) (by omega)) hne

/-! ### the stages -/

theorem DomI.w2 (d : DomI g x sub anchors off) : WF (G2At off g x sub anchors) := WF_addNewFrom d.w1 d.TT_ends

theorem DomI.G2_nodes (d : DomI g x sub anchors off) :
    (G2At off g x sub anchors).nodes = g.nodes ++ (shiftGraph sub off).nodes := by
  unfold G2At; rw [addNewFrom_nodes d.TT_ends]; exact d.G1_nodes

theorem DomI.G2_labels (d : DomI g x sub anchors off) (a b : Int) :
    labelsBetween (G2At off g x sub anchors) a b
      = labelsBetween g a b ++ labelsBetween sub (a - off) (b - off) ++ selL a b (TTAt off g x sub anchors) := by
  unfold G2At
  rw [labels_addNewFrom d.w1 d.TT_ends a b (d.loop_ok a b)]
  simp only [labelsBetween, d.G1_edgeData, List.map_append]

theorem DomI.w3 (d : DomI g x sub anchors off) : WF ((G2At off g x sub anchors).removeNode x) :=
  WF_removeNode d.w2 x

/-- the node list before the renumbering: the parent's other nodes in the parent's order, then the shifted
    sub-pattern's nodes -/
theorem DomI.G3_nodes (d : DomI g x sub anchors off) :
    ((G2At off g x sub anchors).removeNode x).nodes
      = g.nodes.filter (·.1 != x) ++ sub.nodes.map (fun n => (n.1 + off, n.2)) := by
  show (G2At off g x sub anchors).nodes.filter (·.1 != x) = _
  rw [d.G2_nodes, List.filter_append]
  congr 1
  apply List.filter_eq_self.mpr
  intro p hp
  have hm : p.1 ∈ (shiftGraph sub off).nodeIds := List.mem_map.mpr ⟨p, hp, rfl⟩
  have := (d.h_mem.mp hm).1
  have := d.x_lt
  simp; omega

theorem DomI.G3_nodeIds (d : DomI g x sub anchors off) :
    ((G2At off g x sub anchors).removeNode x).nodeIds = g.nodeIds.filter (· != x) ++ sub.nodeIds.map (· + off) := by
  unfold Graph.nodeIds
  rw [d.G3_nodes, List.map_append, List.map_map, List.map_map]
  congr 1
  rw [List.filter_map]
  rfl

/-- the bonds before the renumbering, between nodes other than `x` -/
theorem DomI.G3_labels (d : DomI g x sub anchors off) (a b : Int) (ha : a ≠ x) (hb : b ≠ x) :
    labelsBetween ((G2At off g x sub anchors).removeNode x) a b
      = labelsBetween g a b ++ labelsBetween sub (a - off) (b - off) ++ selL a b (TTAt off g x sub anchors) := by
  unfold labelsBetween
  rw [removeNode_edgeData]
  have := d.G2_labels a b
  unfold labelsBetween at this
  simp [ha, hb, this]

/-! ### the incident order after the composition step (T3 for arbitrary ids) -/

theorem DomI.x_not_h (d : DomI g x sub anchors off) : x ∉ (shiftGraph sub off).nodeIds := by
  intro h; have := (d.h_mem.mp h).1; have := d.x_lt; omega

/-- the row of `x` after the composition step -/
theorem DomI.G1_row (d : DomI g x sub anchors off) : (G1At off g sub).adjRow x = ne (R1 g x ++ R2 g x) := by
  have hnb : (G1At off g sub).neighbors x = ids (ne (R1 g x ++ R2 g x)) := by
    unfold G1At
    rw [compose_neighbors d.composeOk d.x_not_h, touch_edges d.wg x, dd_bl _ [] (by simpa using ids_R_nodup d.wg x)]
    simp
  have hnd : (ids (ne (R1 g x ++ R2 g x))).Nodup := (ids_R_nodup d.wg x).sublist (ids_ne_sublist _)
  apply row_ext
  · rw [← neighbors_row]; exact hnb
  · rw [← neighbors_row, hnb]; exact hnd
  · intro v hv
    rw [← neighbors_row, hnb] at hv
    obtain ⟨r, hr, rfl⟩ := mem_ids.mp hv
    rw [lk_of_mem_nodup hnd hr, ← edgeData_row, d.G1_edgeData]
    have hs : sub.edgeData (x - off) (r.1 - off) = [] :=
      d.s_nil (Or.inl (by have := d.x_lt; omega))
    rw [hs, List.append_nil]
    exact R_lookup d.wg x r (List.mem_filter.mp hr).1

/-- T3 for arbitrary ids: the incident order after the composition step is the declarative `incSpec` -/
theorem DomI.incident_order (d : DomI g x sub anchors off) : incOfComposeAt off g x sub = incSpec g x := by
  rw [incOfComposeAt_eq, incEdgesAt_eq, incOf_expand, d.G1_row, incRow_ne, incSpec_eq]

end C13.E
