import FGVerif.Proofs.C16Contract
import FGVerif.Proofs.C16Expected
import FGVerif.Proofs.C16Conn
namespace C16

/-! ### soundness of the executable specification applied to implementation outputs -/

theorem removeFirst_some {α : Type} (p : α → Bool) : ∀ (l l' : List α), removeFirst p l = some l' →
    ∃ x, x ∈ l ∧ p x = true ∧ (∀ y ∈ l', y ∈ l) ∧ (l.Nodup → l'.Nodup ∧ x ∉ l') := by
  intro l
  induction l with
  | nil => intro l' h; simp [removeFirst] at h
  | cons a as ih =>
    intro l' h
    rw [removeFirst] at h
    by_cases hp : p a = true
    · simp only [hp, if_true, Option.some.injEq] at h
      subst h
      refine ⟨a, by simp, hp, fun y hy => List.mem_cons_of_mem _ hy, fun hn => ?_⟩
      exact ⟨(List.nodup_cons.mp hn).2, (List.nodup_cons.mp hn).1⟩
    · simp only [hp, Bool.false_eq_true, if_false] at h
      cases hr : removeFirst p as with
      | none => rw [hr] at h; simp at h
      | some as' =>
        rw [hr] at h
        simp only [Option.map_some, Option.some.injEq] at h
        subst h
        obtain ⟨x, hx, hpx, hsub, hnd⟩ := ih as' hr
        refine ⟨x, List.mem_cons_of_mem _ hx, hpx, ?_, fun hn => ?_⟩
        · intro y hy
          rcases List.mem_cons.mp hy with rfl | hy'
          · simp
          · exact List.mem_cons_of_mem _ (hsub y hy')
        · have hn' := List.nodup_cons.mp hn
          obtain ⟨h1, h2⟩ := hnd hn'.2
          refine ⟨List.nodup_cons.mpr ⟨fun hc => hn'.1 (hsub a hc), h1⟩, ?_⟩
          intro hc
          rcases List.mem_cons.mp hc with rfl | hc'
          · exact hn'.1 hx
          · exact h2 hc'

theorem matchUp_sound (g : MolGraph) (rc : ITSGraph) : ∀ (results : List ITSGraph) (pool : List Match),
    matchUp g rc results pool = true →
      ∃ ms : List Match, Forall2 (fun m r => isExpectedB g rc m r = true) ms results ∧
        (pool.Nodup → ms.Nodup) ∧ ∀ m ∈ ms, m ∈ pool := by
  intro results
  induction results with
  | nil => intro pool _; exact ⟨[], Forall2.nil, fun _ => List.nodup_nil, fun m hm => by simp at hm⟩
  | cons r rs ih =>
    intro pool h
    rw [matchUp] at h
    cases hr : removeFirst (fun m => isExpectedB g rc m r) pool with
    | none => rw [hr] at h; simp at h
    | some pool' =>
      rw [hr] at h
      obtain ⟨x, hx, hpx, hsub, hnd⟩ := removeFirst_some _ pool pool' hr
      obtain ⟨ms, hf, hn, hm⟩ := ih pool' h
      refine ⟨x :: ms, Forall2.cons hpx hf, fun hp => ?_, ?_⟩
      · obtain ⟨h1, h2⟩ := hnd hp
        exact List.nodup_cons.mpr ⟨fun hc => h2 (hm x hc), hn h1⟩
      · intro m hmem
        rcases List.mem_cons.mp hmem with rfl | h'
        · exact hx
        · exact hsub m (hm m h')

theorem nodupB_sound : ∀ (hs : List Hash), nodupB hs = true → hs.Nodup := by
  intro hs
  induction hs with
  | nil => intro _; exact List.nodup_nil
  | cons h hs ih =>
    intro hb
    rw [nodupB] at hb
    simp only [Bool.and_eq_true, Bool.not_eq_true', List.contains_eq_mem, decide_eq_false_iff_not] at hb
    exact List.nodup_cons.mpr ⟨hb.1, ih hb.2⟩

/-- the embeddings (in normal form) whose prescribed ITS graph passes the `connected_only` filter -/
def pool (g : MolGraph) (rc : ITSGraph) (conn : Bool) : List Match :=
  (monos g (mkRule rc).l).filter fun m => !conn || isConnected (expectedIts g rc m)

/-- **the statement of C16 about a list of returned ITS graphs** (order-free).
    `monos g l` is the complete duplicate-free list of the monomorphisms in normal form
    (`mem_monos_isMono`, `isMono_mem_monos`, `monos_nodup`). -/
structure Spec (wl : ITSGraph → Hash) (g : MolGraph) (rc : ITSGraph) (n : Option Nat)
    (unique conn : Bool) (results : List ITSGraph) : Prop where
  /-- every result has the reactant's atoms and is the prescribed ITS graph of an embedding:
      product side = rule's product orders on the image of the centre, `g` elsewhere -/
  each : ∀ r ∈ results, ∃ m, IsMono g (mkRule rc).l m ∧ IsExpected g rc m r
  /-- reactant side = `g` -/
  reactant : ∀ r ∈ results, MolEquiv (splitIts r).1 g
  /-- `connected_only`: only connected results, drawn from the embeddings with a connected ITS -/
  connected : conn = true → ∀ r ∈ results, isConnected r = true
  /-- `unique=False`: the results belong to pairwise different embeddings … -/
  distinct : unique = false → ∃ ms : List Match, Forall2 (IsExpected g rc) ms results ∧ ms.Nodup ∧
      ∀ m ∈ ms, m ∈ pool g rc conn
  /-- … and there are `min n total` of them -/
  count : unique = false → results.length = capLen n (pool g rc conn).length
  /-- `unique=True`: no two results in one WL class … -/
  classes : unique = true → (results.map wl).Nodup
  /-- … and as many results as there are classes (up to the limit) -/
  countClasses : unique = true → results.length
      = capLen n (dedupHashes ((pool g rc conn).map fun m => wl (expectedIts g rc m)) []).length

theorem Forall2.imp {α β : Type} {R S : α → β → Prop} {as : List α} {bs : List β}
    (h : Forall2 R as bs) (hi : ∀ a b, R a b → S a b) : Forall2 S as bs := by
  induction h with
  | nil => exact Forall2.nil
  | cons h1 _ ih => exact Forall2.cons (hi _ _ h1) ih

theorem specCheck_sound (wl : ITSGraph → Hash) (g : MolGraph) (rc : ITSGraph) (n : Option Nat)
    (unique conn : Bool) (results : List ITSGraph) (hg : g.nodeIds.Nodup)
    (hl : (mkRule rc).l.nodeIds.Nodup)
    (h : specCheck wl g rc n unique conn results = true) : Spec wl g rc n unique conn results := by
  unfold specCheck specClause at h
  simp only at h
  split at h
  · simp at h
  split at h
  · simp at h
  split at h
  · simp at h
  rename_i hreact
  split at h
  · simp at h
  rename_i hprod
  split at h
  · simp at h
  rename_i hconn
  split at h
  · simp at h
  have hreact' : ∀ r ∈ results, molEquivB (splitIts r).1 g = true := by simpa using hreact
  have hprod' : ∀ r ∈ results, ∃ m ∈ monos g (mkRule rc).l, isExpectedB g rc m r = true := by
    simpa using hprod
  have heach : ∀ r ∈ results, ∃ m, IsMono g (mkRule rc).l m ∧ IsExpected g rc m r := by
    intro r hr
    obtain ⟨m, hm, he⟩ := hprod' r hr
    exact ⟨m, (mem_monos_isMono g _ hl m hm).1, isExpectedB_sound g rc m r he⟩
  have hreactant : ∀ r ∈ results, MolEquiv (splitIts r).1 g :=
    fun r hr => molEquivB_sound _ _ (hreact' r hr)
  have hconnected : conn = true → ∀ r ∈ results, isConnected r = true := by
    intro hc
    subst hc
    simpa using hconn
  cases unique with
  | false =>
    simp only [Bool.false_eq_true, if_false] at h
    split at h
    · simp at h
    rename_i hmatch
    split at h
    · simp at h
    rename_i hcount
    have hmatch' : matchUp g rc results (pool g rc conn) = true := by simpa [pool] using hmatch
    have hcount' : results.length = capLen n (pool g rc conn).length := by simpa [pool] using hcount
    obtain ⟨ms, hf, hn, hsub⟩ := matchUp_sound g rc results _ hmatch'
    refine ⟨heach, hreactant, hconnected, fun _ => ⟨ms, ?_, ?_, hsub⟩, fun _ => hcount',
      fun hc => by simp at hc, fun hc => by simp at hc⟩
    · exact hf.imp fun m r hmr => isExpectedB_sound g rc m r hmr
    · exact hn ((monos_nodup g _ hg).filter _)
  | true =>
    simp only [if_true] at h
    split at h
    · simp at h
    rename_i hnd
    split at h
    · simp at h
    rename_i hcount
    have hnd' : nodupB (results.map wl) = true := by simpa using hnd
    have hcount' : results.length
        = capLen n (dedupHashes ((pool g rc conn).map fun m => wl (expectedIts g rc m)) []).length := by
      simpa [pool] using hcount
    exact ⟨heach, hreactant, hconnected, fun hc => by simp at hc, fun hc => by simp at hc,
      fun _ => nodupB_sound _ hnd', fun _ => hcount'⟩

end C16
