import FGVerif.Proofs.C16Main
import FGVerif.Proofs.C16Spec
import FGVerif.Proofs.C16Dpo
import FGVerif.Proofs.C16Full
import FGVerif.Proofs.C16WF
/-!
  C16 — applying a rule changes exactly its reaction centre, once per embedding.

  Property theorems about `Model/C16.lean` (for every reactant graph, every reaction-centre graph,
  every list of mappings, every flag; no bound on sizes).  Lemma files: `C16Base` (edge lists,
  overlay), `C16Match` (mappings), `C16Apply` (one mapping, pointwise), `C16Sides`, `C16Loop`
  (closed form of the loop), `C16Main` (statements below marked ·), `C16Check`, `C16Expected`,
  `C16Conn`, `C16Enum`, `C16Mono`, `C16Contract`, `C16Spec`, `C16Dpo`.

  · `C16.reactant_side`       `split_its(its)[0] = g`, literally, for every result
  · `C16.product_side`        product bond between any two atoms = `expProduct` (rule's product
                              order on images of rule edges — absent when 0 —, `g`'s bond elsewhere)
  · `C16.one_per_match`       unique=False, no limit, no filter: one result per mapping, in order,
                              each the prescribed ITS graph (`IsExpected`)
    `C16.one_per_embedding`   … hence, under the ASSUMED contract of VF2 (`MatchesContract`), exactly
                              one result per label- and bond-preserving embedding
  · `C16.unique_classes`      relative to `wl`: hashes pairwise different, every class represented,
                              by its first member in mapping order
  · `C16.connected_only`      keeps exactly the connected candidates (`isConnected_iff`: = path
                              connectivity over all ITS edges)
  · `C16.limit`, `limit_prefix`, `limit_length`
  · `C16.input_untouched`     by construction
    `C16.rc_of_dpo`           labels of `toRcGraph` = `[left or 0, right or 0]`
    `C16.contractOk_sound`    the executable contract check (own enumerator) implies `MatchesContract`
    `C16.specCheck_sound`     the executable specification run on implementation outputs implies `Spec`
    `C16.applyRule_spec`      the model meets `Spec` (all clauses, order-free) under the contract of VF2
                              and for a hash that does not depend on how edges are stored
    `C16.rcSpecB_sound`       the executable statement for `to_rc_graph` implies the declarative one
    `C16.inputsWFB_sound`     the driver's `inputsWF` flag implies `InputsWF` (hence the hypotheses of the two theorems above:
                              `specCheck_sound_checked`, `applyRule_spec_checked`; file `C16WF`)
    `C16.expectedIts_isExpected`, `applyMatch_equiv_expectedIts`
-/
namespace C16

/-! ### the graphs the model builds are networkx-well-formed; `connected_only` declaratively -/

/-- **C16.connected_only**, declaratively: with `connected_only=True` every returned ITS graph is
    path-connected (all its edges count, also those whose product order is 0), and a candidate
    that is path-connected is not filtered out -/
theorem connected_only_connected (wl : ITSGraph → Hash) (g : MolGraph) (rule : Rule) (ms : List Match)
    (hg1 : g.nodeIds.Nodup) (hg2 : ∀ e ∈ g.edges, e.1 ∈ g.nodeIds ∧ e.2.1 ∈ g.nodeIds)
    (hms : ∀ m ∈ ms, ∀ p ∈ m, p.1 ∈ g.nodeIds) (n : Option Nat) (unique : Bool) :
    (∀ its ∈ applyRule wl g rule ms n unique true, Connected its) ∧
    (∀ m ∈ ms, Connected (applyMatch g rule m) →
        applyMatch g rule m ∈ applyRule wl g rule ms none false true) := by
  constructor
  · intro its h
    obtain ⟨m, hm, rfl⟩ := results_from_matches wl g rule ms n unique true its h
    exact (isConnected_iff _ (applyMatch_nodesWF g rule m hg1 hg2 (hms m hm))).mp
      (connected_only_all wl g rule ms n unique _ h)
  · intro m hm hc
    rw [connected_only]
    exact List.mem_filter.mpr ⟨List.mem_map.mpr ⟨m, hm, rfl⟩,
      (isConnected_iff _ (applyMatch_nodesWF g rule m hg1 hg2 (hms m hm))).mpr hc⟩

/-! ### the property's wording under the assumed contract of VF2 -/

/-- **C16.one_per_embedding** — if VF2 keeps its contract, `apply_rule(unique=False)` returns exactly
    one ITS graph per label- and bond-preserving embedding `φ` of the rule's left side into the
    reactant graph: some position `i` holds the graph prescribed for `φ`, and no other position
    belongs to `φ`. -/
theorem one_per_embedding (wl : ITSGraph → Hash) (g : MolGraph) (rc : ITSGraph) (ms : List Match)
    (hrc : RcWF rc) (hc : MatchesContract g (mkRule rc).l ms) :
    Forall2 (IsExpected g rc) ms (applyRule wl g (mkRule rc) ms none false false) ∧
    ∀ φ, IsMono g (mkRule rc).l φ →
      ∃ i, ∃ (h1 : i < ms.length) (h2 : i < (applyRule wl g (mkRule rc) ms none false false).length),
        SameMap φ ms[i] ∧ IsExpected g rc φ (applyRule wl g (mkRule rc) ms none false false)[i] ∧
        ∀ j (hj : j < ms.length), SameMap φ ms[j] → j = i := by
  have hinj : ∀ m ∈ ms, MatchInj m := fun m hm => (hc.sound m hm).inj
  refine ⟨one_per_match wl g rc ms hrc hinj, ?_⟩
  intro φ hφ
  obtain ⟨m', hm', hs⟩ := hc.complete φ hφ
  obtain ⟨i, hi, hget⟩ := List.getElem_of_mem hm'
  have hlen : (applyRule wl g (mkRule rc) ms none false false).length = ms.length := by
    rw [one_per_match_eq, List.length_map]
  refine ⟨i, hi, by rw [hlen]; exact hi, by rw [hget]; exact hs, ?_, ?_⟩
  · have : (applyRule wl g (mkRule rc) ms none false false)[i]'(by rw [hlen]; exact hi)
        = applyMatch g (mkRule rc) ms[i] := by
      simp [one_per_match_eq]
    rw [this, hget]
    exact (applyMatch_isExpected g rc m' (hinj m' hm') hrc).of_sameMap (hinj m' hm') hφ.inj hs.symm
  · intro j hj hsj
    have hpw := List.pairwise_iff_getElem.mp hc.once
    have hij : SameMap ms[i] ms[j] := by rw [hget]; exact hs.symm.trans hsj
    rcases Nat.lt_trichotomy i j with h | h | h
    · exact absurd hij (hpw i j hi hj h)
    · exact h.symm
    · exact absurd hij.symm (hpw j i hj hi h)

/-! ### non-vacuity (tests): the two witnesses of defect F10, and the hypotheses are satisfiable -/

/-- the epoxide `C1OC1` -/
def epoxide : MolGraph := ⟨[(0, "C"), (1, "O"), (2, "C")], [(0, 1, 2), (0, 2, 2), (1, 2, 2)]⟩
/-- the rule `C<1,0>OC`: break the first C–O bond, keep the second -/
def ringOpening : ITSGraph := ⟨[(0, "C"), (1, "O"), (2, "C")], [(0, 1, (2, 0)), (1, 2, (2, 2))]⟩
/-- the two embeddings of `C-O-C` into the epoxide, as VF2 yields them -/
def epoxideMatches : List Match := [[(0, 0), (1, 1), (2, 2)], [(2, 0), (1, 1), (0, 2)]]

/-- F10, second half: the ring's C–C bond, which the rule does not mention, is kept `[1, 1]`;
    the broken C–O bond is `[1, 0]`, the other one `[1, 1]` -/
example : (applyRule (fun _ => "") epoxide (mkRule ringOpening) epoxideMatches none false false).map
    (fun its => (its.label? 0 2, its.label? 0 1, its.label? 1 2))
    = [(some (2, 2), some (2, 0), some (2, 2)), (some (2, 2), some (2, 2), some (2, 0))] := by decide

example : MatchesContract epoxide (mkRule ringOpening).l epoxideMatches :=
  contractOk_sound _ _ (by decide) _ (by decide)

example : RcWF ringOpening := ⟨by unfold NodupPairs; decide, by decide⟩
example : MolWF epoxide := ⟨by unfold NodupPairs; decide, by decide⟩

/-- the hypotheses of `applyRule_spec` hold on the witness, so the theorem speaks about it -/
example : InputsWF epoxide ringOpening :=
  ⟨⟨by unfold NodupPairs; decide, by decide⟩, by decide, by decide,
   ⟨by unfold NodupPairs; decide, by decide⟩, by decide⟩

example : Spec (fun _ => "") epoxide ringOpening none false false
    (applyRule (fun _ => "") epoxide (mkRule ringOpening) epoxideMatches none false false) :=
  applyRule_spec _ _ _ _ _ _ _
    ⟨⟨by unfold NodupPairs; decide, by decide⟩, by decide, by decide,
     ⟨by unfold NodupPairs; decide, by decide⟩, by decide⟩
    (contractOk_sound _ _ (by decide) _ (by decide)) (fun _ _ _ => rfl)

/-- the executable specification accepts the model's output on the witness and rejects the
    output of the unrepaired code (`else: h_bond = 0`: the C–C bond `[1, 0]`) -/
example : specCheck (fun _ => "") epoxide ringOpening none false false
    (applyRule (fun _ => "") epoxide (mkRule ringOpening) epoxideMatches none false false) = true := by decide
example : specClause (fun _ => "") epoxide ringOpening none false false
    [⟨epoxide.nodes, [(0, 1, (2, 0)), (0, 2, (2, 0)), (1, 2, (2, 2))]⟩,
     ⟨epoxide.nodes, [(0, 1, (2, 2)), (0, 2, (2, 0)), (1, 2, (2, 0))]⟩] = some "product_side" := by decide

/-- the specification's own enumeration finds the same two embeddings -/
example : monos epoxide (mkRule ringOpening).l = [[(0, 0), (1, 1), (2, 2)], [(2, 0), (1, 1), (0, 2)]] := by decide

/-- butane `CCCC` and the rule `C<1,2>C` -/
def butane : MolGraph := ⟨[(0, "C"), (1, "C"), (2, "C"), (3, "C")], [(0, 1, 2), (1, 2, 2), (2, 3, 2)]⟩
def toDouble : ITSGraph := ⟨[(0, "C"), (1, "C")], [(0, 1, (2, 4))]⟩
def butaneMatches : List Match :=
  [[(0, 0), (1, 1)], [(1, 0), (0, 1)], [(1, 0), (2, 1)], [(2, 0), (1, 1)], [(2, 0), (3, 1)], [(3, 0), (2, 1)]]

/-- F10, first half: the limit is honoured -/
example : (applyRule (fun _ => "") butane (mkRule toDouble) butaneMatches (some 1) false false).length = 1 := by decide
example : (applyRule (fun _ => "") butane (mkRule toDouble) butaneMatches none false false).length = 6 := by decide
example : (applyRule (fun _ => "") butane (mkRule toDouble) butaneMatches (some 0) false false) = [] := by decide
/-- with a hash that identifies all results, `unique` keeps one; the result for the first mapping -/
example : (applyRule (fun _ => "h") butane (mkRule toDouble) butaneMatches none true false).map (·.label? 0 1)
    = [some (2, 4)] := by decide
example : contractOk butane (mkRule toDouble).l butaneMatches = true := by decide
/-- … and the six results the unrepaired code returned for `n = 1` -/
example : specClause (fun _ => "") butane toDouble (some 1) false false
    (applyRule (fun _ => "") butane (mkRule toDouble) butaneMatches none false false)
      = some "one_per_match:count" := by decide

/-- connectivity: two molecules joined only by a forming bond give a connected ITS graph -/
example : isConnected ⟨[(0, "C"), (1, "C"), (2, "O")], [(0, 1, (2, 2)), (1, 2, (0, 2))]⟩ = true := by decide
example : isConnected ⟨[(0, "C"), (1, "C"), (2, "O")], [(0, 1, (2, 2))]⟩ = false := by decide

/-- `to_rc_graph`: L = {0-1}, R = {0-1 double, 1-2}: labels `[1,2]` and `[0,1]` -/
example : (match toRcGraph ⟨[(0, "C"), (1, "C")], [(0, 1, 2)]⟩ ⟨[(0, "C"), (1, "C"), (2, "O")], []⟩
      ⟨[(0, "C"), (1, "C"), (2, "O")], [(1, 0, 4), (1, 2, 2)]⟩ with
    | .ok o => some (lookupE o.edges 0 1, lookupE o.edges 2 1, lookupE o.edges 0 2)
    | .error _ => none) = some (some (2, 4), some (0, 2), none) := by decide
example : toRcGraph ⟨[(5, "C")], []⟩ ⟨[(0, "C")], []⟩ ⟨[], []⟩ = .error .valueError :=
  rc_of_dpo_refuses _ _ _ rfl ⟨(5, "C"), by simp, by simp⟩

end C16
