import FGVerif.Proofs.C17Inv
/-!
  C17 — labels are distances in the induced subgraph; two reachable states with the same vertex
  set are the same sequence; every connected set containing the anchor is reached.
-/
namespace C17

/-! ### labels are induced distances -/

/-- the label of `u ∈ U` is the length of a walk from the anchor to `u` inside `U`
    (follow the first-neighbour pointers) -/
theorem label_walk {adj U C D} (h : Inv adj U C D) :
    ∀ (d u : Nat), u ∈ U → dget D u = some d → Walk (nbrs adj) U 0 u d := by
  intro d
  induction d with
  | zero =>
    intro u hu hd
    rcases h.subC u hu with e | e
    · subst e; exact .refl hu
    · obtain ⟨_, _, _, d', _, _, _, _, hdc⟩ := h.label u e
      rw [hd] at hdc; cases hdc
  | succ d ih =>
    intro u hu hd
    rcases h.subC u hu with e | e
    · subst e; rw [h.d0] at hd; cases hd
    · obtain ⟨U1, p, U2, d', hU, hadj, _, hdp, hdc⟩ := h.label u e
      rw [hd] at hdc
      have : d = d' := by cases hdc; rfl
      subst this
      have hpU : p ∈ U := by rw [hU]; simp
      exact .step (ih p hpU hdp) hadj hu

/-- no walk inside `U` is shorter than the label -/
theorem label_le_walk {adj U C D} (h : Inv adj U C D) :
    ∀ (a u k : Nat), Walk (nbrs adj) U a u k → a = 0 → ∀ d, dget D u = some d → d ≤ k := by
  intro a u k hw
  induction hw with
  | refl _ =>
    intro ha d hd
    subst ha
    rw [h.d0] at hd; cases hd; exact Nat.le_refl _
  | @step w u k hw hadj hu ih =>
    intro ha d hd
    rcases h.subC u hu with e | e
    · subst e; rw [h.d0] at hd; cases hd; exact Nat.zero_le _
    · obtain ⟨U1, p, U2, dp, hU, _, hfirst, hdp, hdc⟩ := h.label u e
      rw [hd] at hdc
      have hd' : d = dp + 1 := by cases hdc; rfl
      have hwU : w ∈ U := hw.end_mem
      obtain ⟨dw, hdw⟩ := h.hasLabel w hwU
      have hle := ih ha dw hdw
      have hpw : dp ≤ dw := by
        rw [hU] at hwU
        rcases List.mem_append.mp hwU with e1 | e1
        · exact absurd hadj (hfirst w e1)
        · rcases List.mem_cons.mp e1 with e2 | e2
          · subst e2; rw [hdp] at hdw; cases hdw; exact Nat.le_refl _
          · have hs := h.sorted
            rw [hU, List.pairwise_append, List.pairwise_cons] at hs
            exact (hs.2.1.1 w e2).le hdp hdw
      omega

/-- **labels are distances in the induced subgraph**: in every reachable state, `D[u]` for
    `u ∈ U` is the distance from the anchor to `u` in `G[U]` -/
theorem inv_labels_are_distances {adj U C D} (h : Inv adj U C D) :
    ∀ u ∈ U, ∃ d, dget D u = some d ∧ IsDist (nbrs adj) U 0 u d := by
  intro u hu
  obtain ⟨d, hd⟩ := h.hasLabel u hu
  exact ⟨d, hd, label_walk h d u hu hd, fun k hk => label_le_walk h 0 u k hk rfl d hd⟩

/-- the induced subgraph on a yielded list is connected -/
theorem inv_connected {adj U C D} (h : Inv adj U C D) : ConnectedFrom (nbrs adj) 0 U := by
  refine ⟨h.zero_mem, fun v hv => ?_⟩
  obtain ⟨d, hd, hdist⟩ := inv_labels_are_distances h v hv
  exact ⟨d, hdist.1⟩

/-! ### uniqueness -/

/-- two reachable states with the same vertex set have the same sequence: both are the
    `(distance in G[S], id)`-sorted listing of `S` -/
theorem inv_unique {adj U₁ C₁ D₁ U₂ C₂ D₂} (h₁ : Inv adj U₁ C₁ D₁) (h₂ : Inv adj U₂ C₂ D₂)
    (hs : SameSet U₁ U₂) : U₁ = U₂ := by
  have hlab : ∀ u ∈ U₂, dget D₁ u = dget D₂ u := by
    intro u hu
    obtain ⟨d₁, hd₁, hi₁⟩ := inv_labels_are_distances h₁ u ((hs u).2 hu)
    obtain ⟨d₂, hd₂, hi₂⟩ := inv_labels_are_distances h₂ u hu
    have := (hi₁.sameSet hs).unique hi₂
    rw [hd₁, hd₂, this]
  have hsorted₂ : U₂.Pairwise (KeyLt D₁) :=
    h₂.sorted.imp_of_mem fun {a b} ha hb hab => hab.congr (hlab a ha) (hlab b hb)
  exact sorted_unique (fun a b => KeyLt.asymm) U₁ U₂ h₁.sorted hsorted₂ hs

/-! ### completeness -/

theorem exists_min_key (f : Nat → Nat) : ∀ (l : List Nat), l ≠ [] →
    ∃ v ∈ l, ∀ s ∈ l, s = v ∨ f v < f s ∨ (f v = f s ∧ v < s) := by
  intro l
  induction l with
  | nil => intro h; exact absurd rfl h
  | cons x xs ih =>
    intro _
    by_cases hxs : xs = []
    · subst hxs
      exact ⟨x, by simp, by intro s hs; left; simpa using hs⟩
    · obtain ⟨v, hv, hmin⟩ := ih hxs
      by_cases hlt : f x < f v ∨ (f x = f v ∧ x < v)
      · refine ⟨x, by simp, ?_⟩
        intro s hs
        rcases List.mem_cons.mp hs with e | e
        · left; exact e
        · rcases hmin s e with e1 | e1
          · subst e1; right; exact hlt
          · right; omega
      · refine ⟨v, List.mem_cons_of_mem _ hv, ?_⟩
        intro s hs
        rcases List.mem_cons.mp hs with e | e
        · subst e
          by_cases hsv : s = v
          · left; exact hsv
          · right; omega
        · exact hmin s e

theorem filter_step_length (S U : List Nat) (v : Nat) (hvS : v ∈ S) (hvU : v ∉ U) :
    (S.filter fun s => !(U ++ [v]).contains s).length < (S.filter fun s => !U.contains s).length := by
  have : (S.filter fun s => !(U ++ [v]).contains s) =
      (S.filter fun s => !U.contains s).filter (fun s => s != v) := by
    rw [List.filter_filter]
    apply List.filter_congr
    intro s _
    by_cases h1 : s ∈ U <;> by_cases h2 : s = v <;> simp [h1, h2]
  rw [this, List.length_filter_lt_length_iff_exists]
  exact ⟨v, by simp [List.mem_filter, hvS, hvU], by simp⟩

/-- from a state whose `U` is an initial segment of the `(distance in G[S], id)`-sorted listing
    of a connected set `S`, with the right labels, the set `S` is eventually yielded -/
theorem complete_aux {adj} (hwf : WF adj) (S : List Nat) (dist : Nat → Nat)
    (hdist : ∀ s ∈ S, IsDist (nbrs adj) S 0 s (dist s)) :
    ∀ (m fuel : Nat) (U C : List Nat) (D : List Dist) (P : List (Option Int)),
      Inv adj U C D → adj.length + 1 ≤ fuel + U.length →
      (∀ u ∈ U, u ∈ S) → (∀ u ∈ U, dget D u = some (dist u)) →
      (∀ u ∈ U, ∀ s ∈ S, s ∉ U → dist u < dist s ∨ (dist u = dist s ∧ u < s)) →
      (S.filter fun s => !U.contains s).length ≤ m →
      ∃ Y, Ev.yield Y ∈ enumerateCIS adj fuel U C D P ∧ SameSet Y S := by
  intro m
  induction m with
  | zero =>
    intro fuel U C D P h hf hUS _ _ hm
    have hlen := h.length_le hwf
    obtain ⟨fuel', rfl⟩ : ∃ f, fuel = f + 1 := ⟨fuel - 1, by omega⟩
    refine ⟨U, by rw [enumerateCIS_succ]; exact List.mem_cons_self, fun x => ⟨hUS x, fun hx => ?_⟩⟩
    have hnil : (S.filter fun s => !U.contains s) = [] := List.length_eq_zero_iff.mp (by omega)
    rw [List.filter_eq_nil_iff] at hnil
    have := hnil x hx
    simpa using this
  | succ m ih =>
    intro fuel U C D P h hf hUS hlab hseg hm
    have hlen := h.length_le hwf
    obtain ⟨fuel', rfl⟩ : ∃ f, fuel = f + 1 := ⟨fuel - 1, by omega⟩
    by_cases hall : ∀ s ∈ S, s ∈ U
    · exact ⟨U, by rw [enumerateCIS_succ]; exact List.mem_cons_self, fun x => ⟨hUS x, hall x⟩⟩
    · -- the next vertex: the `(dist, id)`-minimum of `S \ U`
      have hne : (S.filter fun s => !U.contains s) ≠ [] := by
        intro hnil
        rw [List.filter_eq_nil_iff] at hnil
        apply hall
        intro s hs
        have := hnil s hs
        simpa using this
      obtain ⟨v, hv, hmin⟩ := exists_min_key dist _ hne
      have hvS : v ∈ S := (List.mem_filter.mp hv).1
      have hvU : v ∉ U := by have := (List.mem_filter.mp hv).2; simpa using this
      have hmin' : ∀ s ∈ S, s ∉ U → s = v ∨ dist v < dist s ∨ (dist v = dist s ∧ v < s) := by
        intro s hs hsU
        exact hmin s (List.mem_filter.mpr ⟨hs, by simpa using hsU⟩)
      have h0U := h.zero_mem
      have hv0 : v ≠ 0 := fun e => hvU (e ▸ h0U)
      have hd := hdist v hvS
      have hdpos : dist v ≠ 0 := by
        intro e
        have := hd.1
        rw [e] at this
        exact hv0 this.zero_eq
      obtain ⟨k, hk⟩ : ∃ k, dist v = k + 1 := ⟨dist v - 1, by omega⟩
      have hwalk := hd.1
      rw [hk] at hwalk
      obtain ⟨w, hw, hadjw, _⟩ := hwalk.succ_inv
      have hwS : w ∈ S := hw.end_mem
      have hdw : dist w ≤ k := (hdist w hwS).2 k hw
      have hwU : w ∈ U := by
        apply Classical.byContradiction
        intro hn
        rcases hmin' w hwS hn with e | e
        · subst e; omega
        · omega
      have hvC : v ∈ C := (h.memC v).2 ⟨hv0, w, hwU, hadjw⟩
      obtain ⟨U1, p, U2, dp, hU, hadjp, hfirst, hdp, hdv⟩ := h.label v hvC
      have hpU : p ∈ U := by rw [hU]; simp
      have hdp' : dp = dist p := by
        have := hlab p hpU; rw [hdp] at this; cases this; rfl
      have hupper : dist v ≤ dist p + 1 :=
        hd.2 _ (.step (hdist p (hUS p hpU)).1 hadjp hvS)
      have hlower : dp ≤ dist w := by
        have hwU' := hwU
        rw [hU] at hwU'
        rcases List.mem_append.mp hwU' with e1 | e1
        · exact absurd hadjw (hfirst w e1)
        · rcases List.mem_cons.mp e1 with e2 | e2
          · subst e2; omega
          · have hs := h.sorted
            rw [hU, List.pairwise_append, List.pairwise_cons] at hs
            exact (hs.2.1.1 w e2).le hdp (hlab w hwU)
      have hDv : dget D v = some (dist v) := by
        rw [hdv]; congr 1; omega
      -- `v` passes `is_valid_extension`
      obtain ⟨T, hT⟩ := h.head
      have hneU : U ≠ [] := by rw [hT]; simp
      obtain ⟨x, hx⟩ : ∃ x, U.getLast? = some x := ⟨U.getLast hneU, List.getLast?_eq_some_getLast hneU⟩
      have hxU : x ∈ U := List.mem_of_getLast? hx
      have hval : isValidExtension U v D = true :=
        (isValid_iff T U hT x v D hx (dist v) (dist x) hDv (hlab x hxU)).2
          ⟨dist x, dist v, hlab x hxU, hDv, hseg x hxU v hvS hvU⟩
      obtain ⟨D', hD', hInv, hsame⟩ := h.step hwf hvC hvU hval
      have hrec := ih fuel' (U ++ [v]) (C ++ newCands adj U C v) D'
        (relabelP v (newCands adj U C v) P) hInv (by simp; omega)
        (by
          intro u hu
          rcases List.mem_append.mp hu with e | e
          · exact hUS u e
          · have : u = v := by simpa using e
            subst this; exact hvS)
        (by
          intro u hu
          rcases List.mem_append.mp hu with e | e
          · rw [hsame u ((h.subC u e).elim Or.inr Or.inl)]; exact hlab u e
          · have : u = v := by simpa using e
            subst this
            rw [hsame u (Or.inl hvC)]; exact hDv)
        (by
          intro u hu s hs hsU
          have hsU' : s ∉ U := fun e => hsU (List.mem_append_left _ e)
          have hsv : s ≠ v := fun e => hsU (by simp [e])
          rcases List.mem_append.mp hu with e | e
          · exact hseg u e s hs hsU'
          · have : u = v := by simpa using e
            subst this
            rcases hmin' s hs hsU' with e1 | e1
            · exact absurd e1 hsv
            · exact e1)
        (by have := filter_step_length S U v hvS hvU; omega)
      obtain ⟨Y, hY, hYS⟩ := hrec
      exact ⟨Y, (mem_enum_succ hwf h fuel' P _).2
        (Or.inr ⟨v, hvC, hvU, hval, D', hD', hInv, hsame, hY⟩), hYS⟩

/-- **completeness**: every connected vertex set containing the anchor is yielded -/
theorem complete_from {adj : List (List Nat)} (hwf : WF adj) (hpos : 0 < adj.length) (S : List Nat)
    (hc : ConnectedFrom (nbrs adj) 0 S) :
    ∃ Y, Ev.yield Y ∈ enumerateFrom adj 0 ∧ SameSet Y S := by
  classical
  let dist : Nat → Nat := fun s =>
    if hs : Reach (nbrs adj) S 0 s then Classical.choose hs.exists_isDist else 0
  have hdist : ∀ s ∈ S, IsDist (nbrs adj) S 0 s (dist s) := by
    intro s hs
    have hr := hc.2 s hs
    simp only [dist, hr, dite_true]
    exact Classical.choose_spec hr.exists_isDist
  have hd0 : dist 0 = 0 := by
    have := (hdist 0 hc.1).2 0 (.refl hc.1)
    omega
  have hinit := Inv.initial hwf hpos
  unfold enumerateFrom
  apply complete_aux hwf S dist hdist S.length adj.length [0] _ _ _ hinit (by simp)
  · intro u hu
    have : u = 0 := by simpa using hu
    subst this; exact hc.1
  · intro u hu
    have : u = 0 := by simpa using hu
    subst this; rw [hd0]; exact hinit.d0
  · intro u hu s hs hsU
    have : u = 0 := by simpa using hu
    subst this
    have hs0 : s ≠ 0 := by simpa using hsU
    left
    rw [hd0]
    apply Nat.pos_of_ne_zero
    intro e
    have := (hdist s hs).1
    rw [e] at this
    exact hs0 this.zero_eq
  · exact List.length_filter_le _ _

end C17
