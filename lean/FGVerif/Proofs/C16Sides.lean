import FGVerif.Proofs.C16Apply
namespace C16

/-- well-formed reactant graph: no pair of atoms joined twice, every bond has a non-zero order -/
structure MolWF (g : MolGraph) : Prop where
  nodup : NodupPairs g.edges
  nonzero : ∀ e ∈ g.edges, e.2.2 ≠ 0

/-! ### reactant side: literally `g` -/

theorem leftEdges_firstLoop_aux (rule : Rule) (m : Match) (es : List (E Int)) (h : ∀ e ∈ es, e.2.2 ≠ 0) :
    leftEdges (es.map fun e => (e.1, e.2.1, (e.2.2, hBond rule m e.1 e.2.1 e.2.2))) = es := by
  induction es with
  | nil => rfl
  | cons e es ih =>
    rw [List.map_cons, leftEdges_cons]
    have h0 : e.2.2 ≠ 0 := h e (by simp)
    simp only [h0, if_false]
    rw [ih (fun e he => h e (List.mem_cons_of_mem _ he))]

theorem leftEdges_firstLoop (g : MolGraph) (rule : Rule) (m : Match) (h : ∀ e ∈ g.edges, e.2.2 ≠ 0) :
    leftEdges (firstLoop g rule m) = g.edges := leftEdges_firstLoop_aux rule m g.edges h

theorem leftEdges_append (as bs : List (E (Int × Int))) : leftEdges (as ++ bs) = leftEdges as ++ leftEdges bs := by
  unfold leftEdges; rw [List.filterMap_append]

theorem leftEdges_map_setRight (es : List (E (Int × Int))) (a b d : Int) :
    leftEdges (es.map (setRight a b d)) = leftEdges es := by
  induction es with
  | nil => rfl
  | cons e es ih =>
    rw [List.map_cons, leftEdges_cons, leftEdges_cons, ih]
    unfold setRight
    split <;> rfl

theorem leftEdges_overlayEdge (es : List (E (Int × Int))) (a b d : Int) :
    leftEdges (overlayEdge es a b d) = leftEdges es := by
  unfold overlayEdge
  split
  · exact leftEdges_map_setRight es a b d
  · rw [leftEdges_append]; simp [leftEdges]

theorem leftEdges_overlay (m : Match) (es : List (E (Int × Int))) (re : E Int) :
    leftEdges (overlay m es re) = leftEdges es := by
  unfold overlay
  cases invM m re.1 <;> cases invM m re.2.1 <;> simp only [leftEdges_overlayEdge]

theorem leftEdges_foldl_overlay (m : Match) (rs : List (E Int)) (es : List (E (Int × Int))) :
    leftEdges (rs.foldl (overlay m) es) = leftEdges es := by
  induction rs generalizing es with
  | nil => rfl
  | cons re rs ih => rw [List.foldl_cons, ih, leftEdges_overlay]

/-- `split_its(its)[0]` is the reactant graph itself — for every mapping and rule -/
theorem applyMatch_reactant (g : MolGraph) (rule : Rule) (m : Match) (h : ∀ e ∈ g.edges, e.2.2 ≠ 0) :
    (splitIts (applyMatch g rule m)).1 = g := by
  unfold splitIts applyMatch
  simp only
  rw [leftEdges_foldl_overlay, leftEdges_firstLoop g rule m h]

/-! ### the edge list of the result joins no pair twice -/

theorem nodupPairs_map_setRight (es : List (E (Int × Int))) (a b d : Int) (hn : NodupPairs es) :
    NodupPairs (es.map (setRight a b d)) := by
  unfold NodupPairs at *
  rw [List.pairwise_map]
  refine hn.imp ?_
  intro e f h
  rw [setRight_fst, setRight_snd, setRight_fst, setRight_snd]; exact h

theorem nodupPairs_overlayEdge (es : List (E (Int × Int))) (a b d : Int) (hn : NodupPairs es) :
    NodupPairs (overlayEdge es a b d) := by
  unfold overlayEdge
  split
  · exact nodupPairs_map_setRight es a b d hn
  · rename_i hany
    unfold NodupPairs at *
    rw [List.pairwise_append]
    refine ⟨hn, List.pairwise_singleton _ _, ?_⟩
    intro e he f hf
    rw [List.mem_singleton] at hf; subst hf
    cases hc : hit e.1 e.2.1 a b with
    | false => rfl
    | true => exact absurd (List.any_eq_true.mpr ⟨e, he, hc⟩) hany

theorem nodupPairs_firstLoop (g : MolGraph) (rule : Rule) (m : Match) (hn : NodupPairs g.edges) :
    NodupPairs (firstLoop g rule m) := by
  unfold firstLoop NodupPairs at *
  rw [List.pairwise_map]
  exact hn

theorem nodupPairs_applyMatch (g : MolGraph) (rule : Rule) (m : Match) (hn : NodupPairs g.edges) :
    NodupPairs (applyMatch g rule m).edges := by
  unfold applyMatch
  simp only
  rw [foldl_overlay_eq]
  generalize images m rule.r.edges = ts
  have h0 := nodupPairs_firstLoop g rule m hn
  generalize firstLoop g rule m = es at h0
  induction ts generalizing es with
  | nil => exact h0
  | cons t ts ih => rw [List.foldl_cons]; exact ih _ (nodupPairs_overlayEdge es _ _ _ h0)

/-! ### product side -/

/-- the bond the property prescribes between `u` and `v` on the product side: the rule's product
    order where a rule edge lies over the two atoms (no bond when it is 0), `g`'s bond elsewhere -/
def expProduct (g : MolGraph) (rc : ITSGraph) (m : Match) (u v : Int) : Option Int :=
  match rcLabelAt rc m u v with
  | some lr => if lr.2 = 0 then none else some lr.2
  | none => g.bond? u v

theorem bond_nonzero (g : MolGraph) (h : ∀ e ∈ g.edges, e.2.2 ≠ 0) (u v b : Int) (hb : g.bond? u v = some b) :
    b ≠ 0 := by
  obtain ⟨e, he, _, rfl⟩ := lookupE_some_mem _ _ _ _ hb
  exact h e he

/-- product side of any graph that carries the prescribed labels -/
theorem product_of_isExpected (g : MolGraph) (rc : ITSGraph) (m : Match) (its : ITSGraph)
    (hg : ∀ e ∈ g.edges, e.2.2 ≠ 0) (hn : NodupPairs its.edges) (h : IsExpected g rc m its) (u v : Int) :
    (splitIts its).2.bond? u v = expProduct g rc m u v := by
  unfold splitIts MolGraph.bond?
  simp only
  rw [lookupE_rightEdges _ hn]
  have := h.labels u v
  unfold ITSGraph.label? at this
  rw [this]
  unfold expLabel expProduct
  cases hb : g.bond? u v with
  | none =>
    cases hr : rcLabelAt rc m u v with
    | none => simp [MolGraph.bond?] at hb ⊢
    | some lr => by_cases h0 : lr.2 = 0 <;> simp [h0]
  | some b =>
    have hb0 := bond_nonzero g hg u v b hb
    cases hr : rcLabelAt rc m u v with
    | none => simp [hb0]
    | some lr => by_cases h0 : lr.2 = 0 <;> simp [h0]

/-- reactant side of any graph that carries the prescribed labels -/
theorem reactant_of_isExpected (g : MolGraph) (rc : ITSGraph) (m : Match) (its : ITSGraph)
    (hg : ∀ e ∈ g.edges, e.2.2 ≠ 0) (hn : NodupPairs its.edges) (h : IsExpected g rc m its) (u v : Int) :
    (splitIts its).1.bond? u v = g.bond? u v := by
  unfold splitIts MolGraph.bond?
  simp only
  rw [lookupE_leftEdges _ hn]
  have := h.labels u v
  unfold ITSGraph.label? at this
  rw [this]
  unfold expLabel
  cases hb : g.bond? u v with
  | none =>
    have hb' : lookupE g.edges u v = none := hb
    cases hr : rcLabelAt rc m u v with
    | none => simp [hb']
    | some lr => by_cases h0 : lr.2 = 0 <;> simp [h0, hb']
  | some b =>
    have hb0 := bond_nonzero g hg u v b hb
    have hb' : lookupE g.edges u v = some b := hb
    cases hr : rcLabelAt rc m u v <;> simp [hb0, hb']

end C16
