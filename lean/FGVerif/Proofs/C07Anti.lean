import FGVerif.Proofs.C07
import FGVerif.Generated.C07Anti
/-!
  C07 — the anti-pattern clause ("… and B is not excluded by one of A's anti-patterns") on lists where
  the veto is EFFECTIVE.

  The default list's three anti-patterns exclude no listed group (`Gen.C07.antiImpl` has no `true`
  entry), so `Proofs/C07Default.lean` never compares the veto branch of the model with the code on a
  `true` case.  `Generated/C07Anti.lean` (regenerated on every run from /repo's working tree and
  corpus/C07/lists.json) carries the corpus lists WITH anti-patterns, e.g. parent `CO` with
  anti-pattern `COC` and entries `COC`, `COCC`; parent `C=O` with anti-pattern `OC=O` and esters/acids,
  together with the answers of the REAL `is_subgroup` / matcher / `order_id`.  All by kernel
  evaluation (`decide +kernel`):

  * `C07.anti_sub_eq`        the model's `isSubgroupE` (both-directions assertion and veto branch
                             included) reproduces the real `is_subgroup` on every ordered pair of every list;
  * `C07.anti_emb_eq`, `anti_anti_eq`, `anti_keys_eq`  matcher model / key model = the code's answers;
  * `C07.anti_true_emb`, `anti_true_anti`   the matcher's answers are the TRUE embeddings (enumeration
                             of injective maps), so the relation is the specificity order with the veto;
  * `C07.anti_veto_effective` on these lists the veto really removes would-be descendants (pairs with
                             "embeds, not conversely, anti-pattern found": at least one per list);
  * `C07.hasseHyps_of_hypsOk` the executable check `hypsOk` (irreflexive, key-increasing, transitive)
                             implies the hypotheses of `C07.hasse`;
  * `C07.anti_hasse`         hence for every list on which the vetoed relation is still a strict order
                             (`antiHypsOk k`; the two corpus lists on which it is not are carried only for
                             `anti_sub_eq`), every permutation and every set-iteration order give the Hasse
                             diagram of "embeds, not conversely, not vetoed";
  * `C07.anti_domain_nonempty`  such lists with an effective veto exist in the table (non-vacuity).
-/
namespace C07

/-- answer of the model's `is_subgroup` in the code's encoding: 0 False, 1 True, 2 AssertionError -/
def subCode (m : Perm.Mapper) (a b : FGConfig) : Nat :=
  match isSubgroupE m a b with
  | some false => 0
  | some true => 1
  | none => 2

/-- table of a function on ordered pairs of positions of a list -/
def pairTab {β} (l : List FGConfig) (f : Nat → FGConfig → Nat → FGConfig → β) : List (List β) :=
  l.zipIdx.map fun ai => l.zipIdx.map fun bj => f ai.2 ai.1 bj.2 bj.1

def antiSubModel : List (List (List Nat)) :=
  Gen.C07Anti.lists.map fun l => pairTab l fun i a j b => if i == j then 0 else subCode Gen.C07Anti.mapper a b

/-- **C07.anti_sub_eq** — on the corpus lists with effective anti-patterns the model's `is_subgroup`
    (veto branch included) answers exactly as the code does. -/
theorem anti_sub_eq : antiSubModel = Gen.C07Anti.subImpl := by decide +kernel

theorem anti_emb_eq :
    (Gen.C07Anti.lists.map fun l => pairTab l fun _ a _ b =>
      Sub.mapSubgraphToGraph b.pattern a.pattern Gen.C07Anti.mapper) = Gen.C07Anti.embImpl := by decide +kernel

theorem anti_anti_eq :
    (Gen.C07Anti.lists.map fun l => pairTab l fun _ a _ b =>
      a.antiPatterns.any fun ap => Sub.mapSubgraphToGraph b.pattern ap Gen.C07Anti.mapper) = Gen.C07Anti.antiImpl := by
  decide +kernel

theorem anti_keys_eq : (Gen.C07Anti.lists.map fun l => l.map FGConfig.key) = Gen.C07Anti.keysImpl := by decide +kernel

/-- the matcher's answers on these lists are the true embeddings (exhaustive enumeration) -/
theorem anti_true_emb :
    (Gen.C07Anti.lists.map fun l => pairTab l fun _ a _ b => embeds Gen.C07Anti.mapper a.pattern b.pattern)
      = Gen.C07Anti.embImpl := by decide +kernel

theorem anti_true_anti :
    (Gen.C07Anti.lists.map fun l => pairTab l fun _ a _ b =>
      a.antiPatterns.any fun ap => embeds Gen.C07Anti.mapper ap b.pattern) = Gen.C07Anti.antiImpl := by decide +kernel

def tab3 {β} [Inhabited β] (t : List (List (List β))) (k i j : Nat) : β :=
  (((t[k]?).bind (·[i]?)).bind (·[j]?)).getD default

def antiLen (k : Nat) : Nat := ((Gen.C07Anti.lists[k]?).map List.length).getD 0

/-- pairs (i, j) of list `k` on which the veto removes a would-be descendant: pattern i embeds into
    pattern j, not conversely, and an anti-pattern of i is found in j (the code's tables) -/
def vetoPairs (k : Nat) : List (Nat × Nat) :=
  (List.range (antiLen k)).flatMap fun i => (List.range (antiLen k)).filterMap fun j =>
    if i != j && tab3 Gen.C07Anti.embImpl k i j && !tab3 Gen.C07Anti.embImpl k j i && tab3 Gen.C07Anti.antiImpl k i j
    then some (i, j) else none

/-- **C07.anti_veto_effective** — every list of the table has a pair that only the veto removes, and
    on each such pair the code's `is_subgroup` answers False although the pattern embeds. -/
theorem anti_veto_effective :
    (List.range Gen.C07Anti.lists.length).all (fun k =>
      !(vetoPairs k).isEmpty && (vetoPairs k).all fun p => tab3 Gen.C07Anti.subImpl k p.1 p.2 == 0) = true := by
  decide +kernel

/-- the hierarchy of list `k` over positions: `sub` = the code's `is_subgroup` table (which is the
    model's, `anti_sub_eq`), key = the code's `order_id` (the model's, `anti_keys_eq`) -/
def antiCfg (k : Nat) : Cfg Nat :=
  Cfg.ofKey (fun i j => tab3 Gen.C07Anti.subImpl k i j == 1) (fun i => tab3' k i) lexLt
where tab3' (k i : Nat) : List Nat := (((Gen.C07Anti.keysImpl[k]?).bind (·[i]?))).getD []

def antiHypsOk (k : Nat) : Bool := hypsOk (antiLen k) (antiCfg k).sub (antiCfg k).klt

/-- the executable hypothesis check implies the hypotheses of `hasse` (for key-given configurations) -/
theorem hasseHyps_of_hypsOk (n : Nat) (sub : Nat → Nat → Bool) (key : Nat → List Nat)
    (h : hypsOk n sub (Cfg.ofKey sub key lexLt).klt = true) :
    HasseHyps (Cfg.ofKey sub key lexLt) (List.range n) where
  nodup := List.nodup_range
  key := keyOrder_ofKey _ _
  trans := by
    intro a ha b hb d hd hab hbd
    simp only [hypsOk, List.all_eq_true, List.mem_range, Bool.and_eq_true, Bool.or_eq_true,
      Bool.not_eq_true'] at h
    have h3 := ((h a (List.mem_range.mp ha)).2 b (List.mem_range.mp hb)).2 d (List.mem_range.mp hd)
    simp only [Cfg.ofKey] at hab hbd ⊢
    rcases h3 with h3 | h3
    · rw [hab, hbd] at h3; simp at h3
    · exact h3
  strict := by
    intro a ha b hb hab
    simp only [hypsOk, List.all_eq_true, List.mem_range, Bool.and_eq_true, Bool.or_eq_true,
      Bool.not_eq_true'] at h
    have h2 := ((h a (List.mem_range.mp ha)).2 b (List.mem_range.mp hb)).1
    simp only [Cfg.ofKey] at hab ⊢
    rcases h2 with h2 | h2
    · rw [hab] at h2; simp at h2
    · exact h2

/-- **C07.anti_hasse** — for every list of the table on which "embeds, not conversely, not vetoed" is a
    strict order increasing the key, every permutation of the list under every set-iteration order
    yields exactly its Hasse diagram: links = covering pairs, roots = minimal entries, ancestors = the
    relation, nobody its own ancestor. -/
theorem anti_hasse (k : Nat) (hk : antiHypsOk k = true) (env : Env) (henv : env.Valid) (l : List Nat)
    (hp : l.Perm (List.range (antiLen k))) :
    (∀ a b, (buildTree (antiCfg k) env l).Link a b ↔ Covers (antiCfg k).sub l a b) ∧
    (∀ a, (buildTree (antiCfg k) env l).IsRoot a ↔ Minimal (antiCfg k).sub l a) ∧
    (∀ a b, (buildTree (antiCfg k) env l).Anc a b ↔ (a ∈ l ∧ b ∈ l ∧ (antiCfg k).sub a b = true)) ∧
    (∀ a, ¬ (buildTree (antiCfg k) env l).Anc a a) := by
  have hy : HasseHyps (antiCfg k) (List.range (antiLen k)) := hasseHyps_of_hypsOk _ _ _ hk
  obtain ⟨h1, h2, h3, h4, _, _⟩ := hasse (antiCfg k) env henv l (hy.perm hp.symm)
  exact ⟨h1, h2, h3, h4⟩

/-- **C07.anti_domain_nonempty** (non-vacuity of `anti_hasse`) — the table contains lists that satisfy
    `antiHypsOk` AND have a pair removed by the veto AND whose Hasse diagram differs from the one of the
    same list without the veto (so deleting the veto from the code changes the observable hierarchy). -/
theorem anti_domain_nonempty :
    ((List.range Gen.C07Anti.lists.length).filter fun k =>
      antiHypsOk k && !(vetoPairs k).isEmpty &&
      (sortPairsN (coverPairs (antiLen k) (antiCfg k).sub) !=
        sortPairsN (coverPairs (antiLen k) fun i j =>
          i != j && tab3 Gen.C07Anti.embImpl k i j && !tab3 Gen.C07Anti.embImpl k j i))).length ≥ 3 := by
  decide +kernel

/-- test (non-vacuity of `anti_hasse` on concrete data): for every in-domain list of the table, the tree the
    model builds from the REVERSED list under a scrambled set order passes the executable specification
    (links = covering pairs, roots = minimal entries of the vetoed relation, acyclic) -/
example : (List.range Gen.C07Anti.lists.length).all (fun k =>
    !antiHypsOk k ||
    (let t := buildTree (antiCfg k) (Env.ofSeed 2) (List.range (antiLen k)).reverse
     let idx := fun (i : Nat) => (t.items[i]?).getD 0
     specCheck (antiLen k) (antiCfg k).sub (t.st.links.map fun p => (idx p.1, idx p.2)) (t.st.roots.map idx))) = true := by
  decide +kernel

end C07
