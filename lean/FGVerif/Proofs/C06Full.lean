import FGVerif.Model.C06Full
import FGVerif.Generated.C06
import FGVerif.Generated.C05
import FGVerif.Proofs.C06
import FGVerif.Proofs.C07Bridge
import FGVerif.Proofs.C07Strings
/-!
  C06 — functional-group queries are deterministic and pure: the END-TO-END statement for the
  composed model (`Model/C06Full.lean`): hierarchy builder of C07 + cache of `get_tree` + query
  algorithm of C05, the query no longer a parameter.  Core Lean only.

  * `C06.env_independent_strings`   `env_independent` with the decidable hypothesis "pattern strings
                                    pairwise distinct" (through `C07.key_injective_of_distinct_strings`);
  * `C06.buildFull_map`             `buildFull` projected to the C07 fields IS `C07.buildFG`;
  * `C06.buildFull_eq`              on an assertion-free list `buildFull` is the pure algorithm of the
                                    theorems of C07/C06;
  * `C06.history_end_to_end`        whatever was asked before on the same object, the answer (or the
                                    AssertionError) is that of a fresh object — no hypothesis;
  * `C06.query_end_to_end`          for configurations with pairwise distinct pattern strings on which the
                                    both-directions assertion cannot fire: the answer of
                                    `FGQuery(config=cfgs).get(g)` is the same for every set-iteration
                                    order (`Env`), every permutation of the configuration list and after
                                    every history of earlier queries; and it is an answer (no exception);
  * `C06.default_inputs_c07`, `C06.default_end_to_end`, `C06.default_query_end_to_end`
                                    the default list: the adapter applied to the MODEL-built hierarchy is
                                    the tree of Generated/C05.lean (extracted from the real `get_tree()`)
                                    up to the numbering of the nodes, and the end-to-end answer equals
                                    C05's model on that generated tree, for every `Env`, list order and
                                    history.
-/
namespace C06
open C07

/-! ### A. distinct pattern strings suffice -/

/-- **C06.env_independent_strings** — `env_independent` for the real key
    `(pattern_len, |V|, |E|, pattern_str)` under the decidable hypothesis that the pattern strings of
    the list are pairwise distinct: the tree as the query reads it (items, ordered roots, ordered
    children lists) is the same for every set-iteration order and every order of the list. -/
theorem env_independent_strings {α} (sub : α → α → Bool) (proj : α → FGConfig) (env₁ env₂ : Env)
    (h₁ : env₁.Valid) (h₂ : env₂.Valid) (l₁ l₂ : List α) (hp : l₁.Perm l₂)
    (hstr : (l₁.map fun a => (proj a).patternStr).Nodup) :
    view (buildTree (Cfg.ofKey sub (fun a => (proj a).key) lexLt) env₁ l₁) =
      view (buildTree (Cfg.ofKey sub (fun a => (proj a).key) lexLt) env₂ l₂) :=
  env_independent_ofKey sub _ env₁ env₂ h₁ h₂ l₁ l₂ hp (key_injective_of_distinct_strings proj l₁ hstr)

/-- the instance for C07's chemistry configuration `fgCfg` -/
theorem env_independent_fg (m : Perm.Mapper) (env₁ env₂ : Env) (h₁ : env₁.Valid) (h₂ : env₂.Valid)
    (l₁ l₂ : List FGConfig) (hp : l₁.Perm l₂) (hstr : (l₁.map (·.patternStr)).Nodup) :
    view (buildTree (fgCfg m) env₁ l₁) = view (buildTree (fgCfg m) env₂ l₂) :=
  env_independent_strings (isSubgroup m) id env₁ env₂ h₁ h₂ l₁ l₂ hp hstr

/-- the default list satisfies the hypothesis, hence its ordered tree is independent of the
    set-iteration order and of the order of the list -/
theorem env_independent_default (env₁ env₂ : Env) (h₁ : env₁.Valid) (h₂ : env₂.Valid)
    (l₂ : List FGConfig) (hp : Gen.C07.configs.Perm l₂) :
    view (buildTree (fgCfg Gen.C07.mapper) env₁ Gen.C07.configs) = view (buildTree (fgCfg Gen.C07.mapper) env₂ l₂) :=
  env_independent_fg _ env₁ env₂ h₁ h₂ _ l₂ hp default_strings_distinct

/-! ### `buildFull` and `C07.buildFG` -/

theorem insertAsc_map {α β} (f : α → β) (klt : β → β → Bool) (x : α) (l : List α) :
    (insertAsc (fun a b => klt (f a) (f b)) x l).map f = insertAsc klt (f x) (l.map f) := by
  induction l with
  | nil => rfl
  | cons y ys ih =>
    simp only [insertAsc, List.map_cons]
    split
    · simp [ih]
    · simp

theorem sortByKey_map {α β} (f : α → β) (klt : β → β → Bool) (l : List α) :
    (sortByKey (fun a b => klt (f a) (f b)) l).map f = sortByKey klt (l.map f) := by
  induction l with
  | nil => rfl
  | cons x xs ih =>
    simp only [sortByKey, List.foldr_cons, List.map_cons] at ih ⊢
    rw [insertAsc_map, ih]

theorem relOnE_map {α β} (f : α → β) (r : β → β → Option Bool) (s : List α) :
    relOnE (fun a b => r (f a) (f b)) s = relOnE r (s.map f) := by
  funext i j
  unfold relOnE
  simp only [List.getElem?_map]
  cases s[i]? <;> cases s[j]? <;> rfl

theorem relOn_map {α β} (f : α → β) (r : β → β → Bool) (s : List α) :
    relOn (fun a b => r (f a) (f b)) s = relOn r (s.map f) := by
  funext i j
  unfold relOn
  simp only [List.getElem?_map]
  cases s[i]? <;> cases s[j]? <;> rfl

/-- the hierarchy builder commutes with a projection of the items through which both relations factor -/
theorem buildTreeE_map {α β} (f : α → β) (subE : β → β → Option Bool) (klt : β → β → Bool) (env : Env)
    (l : List α) :
    (buildTreeE (fun a b => subE (f a) (f b)) (fun a b => klt (f a) (f b)) env l).map (mapTree f) =
      buildTreeE subE klt env (l.map f) := by
  unfold buildTreeE
  simp only [bind_pure_comp, Option.map_eq_map, Option.map_map]
  rw [← sortByKey_map, ← relOnE_map, ← relOn_map, List.length_map]
  cases buildIdxE (relOnE (fun a b => subE (f a) (f b)) (sortByKey (fun a b => klt (f a) (f b)) l))
      (relOn (fun a b => klt (f a) (f b)) (sortByKey (fun a b => klt (f a) (f b)) l)) env
      (sortByKey (fun a b => klt (f a) (f b)) l).length with
  | none => rfl
  | some st => rfl

/-- **C06.buildFull_map** — the hierarchy of the end-to-end model, projected to the fields C07 looks
    at, is exactly `C07.buildFG` on the projected list. -/
theorem buildFull_map (m : Perm.Mapper) (env : Env) (l : List FullConfig) :
    (buildFull m env l).map (mapTree FullConfig.toC07) = buildFG m env (l.map FullConfig.toC07) :=
  buildTreeE_map FullConfig.toC07 (isSubgroupE m) fgKlt env l

theorem nodup_of_nodup_map {α β} (f : α → β) (l : List α) (h : (l.map f).Nodup) : l.Nodup := by
  induction l with
  | nil => exact List.nodup_nil
  | cons x xs ih =>
    rw [List.map_cons, List.nodup_cons] at h
    rw [List.nodup_cons]
    exact ⟨fun hx => h.1 (List.mem_map_of_mem hx), ih h.2⟩

/-- the "matches in both directions" assertion of `is_subgroup` cannot fire on two different
    entries of the list (the matcher model does not find each pattern in the other) -/
def AssertionFree (m : Perm.Mapper) (l : List FullConfig) : Prop :=
  ∀ a, a ∈ l → ∀ b, b ∈ l → a ≠ b →
    ¬ (Sub.mapSubgraphToGraph b.pattern a.pattern m = true ∧ Sub.mapSubgraphToGraph a.pattern b.pattern m = true)

/-- the executable check `assertionFree` implies it -/
theorem assertionFree_sound (m : Perm.Mapper) (l : List FullConfig) (h : assertionFree m l = true) :
    AssertionFree m l := by
  intro a ha b hb hab hboth
  obtain ⟨i, hi, rfl⟩ := List.getElem_of_mem ha
  obtain ⟨j, hj, rfl⟩ := List.getElem_of_mem hb
  unfold assertionFree at h
  simp only [List.all_eq_true, List.mem_range, Bool.or_eq_true, beq_iff_eq] at h
  rcases h i hi j hj with e | e
  · subst e; exact hab rfl
  · rw [List.getElem?_eq_getElem hi, List.getElem?_eq_getElem hj] at e
    simp only [Bool.not_eq_true', Bool.and_eq_false_iff] at e
    rcases e with e | e
    · rw [hboth.1] at e; exact absurd e (by simp)
    · rw [hboth.2] at e; exact absurd e (by simp)

theorem assertionFree_perm (m : Perm.Mapper) (l₁ l₂ : List FullConfig) (hp : l₁.Perm l₂)
    (h : AssertionFree m l₁) : AssertionFree m l₂ :=
  fun a ha b hb => h a (hp.mem_iff.mpr ha) b (hp.mem_iff.mpr hb)

/-- **C06.buildFull_eq** — on a duplicate-free list on which the both-directions assertion cannot
    fire, the builder with its assertion is the pure algorithm of the theorems of C07 / C06. -/
theorem buildFull_eq (m : Perm.Mapper) (env : Env) (l : List FullConfig) (hnd : l.Nodup)
    (h : AssertionFree m l) :
    buildFull m env l = some (buildTree (fullCfg m) env l) := by
  show buildTreeE (fun a b => isSubgroupE m a.toC07 b.toC07) (fullCfg m).klt env l = _
  exact buildTreeE_eq (fun a b => isSubgroupE m a.toC07 b.toC07) (fullCfg m) env l hnd
    (fun a ha b hb hab => isSubgroupE_eq m a.toC07 b.toC07 (h a ha b hb hab))

/-! ### cache and history, end to end -/

/-- the cached tree, if any, is the one `get_tree` builds -/
def CacheOkE (m : Perm.Mapper) (env : Env) (o : FGQueryObj FullConfig) : Prop :=
  ∀ t, o.cache = some t → buildFull m env o.cfgs = some t

theorem objGet_spec (m : Perm.Mapper) (env : Env) (rh : Bool) (o : FGQueryObj FullConfig) (g : Graph)
    (h : CacheOkE m env o) :
    (objGet m env rh o g).2 = fgQueryGetM m o.cfgs env g rh ∧ CacheOkE m env (objGet m env rh o g).1 ∧
      (objGet m env rh o g).1.cfgs = o.cfgs := by
  unfold objGet fgQueryGetM
  cases hc : o.cache with
  | some t =>
    refine ⟨?_, h, rfl⟩
    show some _ = _
    rw [h t hc, Option.map_some]
  | none =>
    cases hb : buildFull m env o.cfgs with
    | none => exact ⟨rfl, h, rfl⟩
    | some t =>
      refine ⟨rfl, ?_, rfl⟩
      intro t' ht'
      have ht'' : some t = some t' := ht'
      rw [← Option.some.inj ht'']; exact hb

theorem objRun_spec (m : Perm.Mapper) (env : Env) (rh : Bool) :
    ∀ (gs : List Graph) (o : FGQueryObj FullConfig), CacheOkE m env o →
      CacheOkE m env (objRun m env rh o gs) ∧ (objRun m env rh o gs).cfgs = o.cfgs := by
  intro gs
  induction gs with
  | nil => intro o h; exact ⟨h, rfl⟩
  | cons g gs ih =>
    intro o h
    obtain ⟨_, h2, h3⟩ := objGet_spec m env rh o g h
    obtain ⟨i1, i2⟩ := ih _ h2
    simp only [objRun]
    exact ⟨i1, i2.trans h3⟩

theorem cacheOkE_new (m : Perm.Mapper) (env : Env) (cfgs : List FullConfig) : CacheOkE m env (new cfgs) := by
  intro t ht; simp [new] at ht

/-- **C06.history_end_to_end** — whatever was asked before on the same `FGQuery` object (including
    calls that raised), `get(g)` answers as a fresh object does.  No hypothesis on the configurations. -/
theorem history_end_to_end (m : Perm.Mapper) (env : Env) (rh : Bool) (cfgs : List FullConfig)
    (gs : List Graph) (g : Graph) :
    (objGet m env rh (objRun m env rh (new cfgs) gs) g).2 = fgQueryGetM m cfgs env g rh := by
  obtain ⟨h1, h2⟩ := objRun_spec m env rh gs (new cfgs) (cacheOkE_new m env cfgs)
  rw [(objGet_spec m env rh _ g h1).1, h2]
  rfl

/-! ### the end-to-end property -/

/-- the ordered tree over full configurations depends neither on the set-iteration order nor on the
    order of the list, when the pattern strings are pairwise distinct -/
theorem view_full_independent (m : Perm.Mapper) (env₁ env₂ : Env) (h₁ : env₁.Valid) (h₂ : env₂.Valid)
    (l₁ l₂ : List FullConfig) (hp : l₁.Perm l₂) (hs : (l₁.map fun a => a.patternStr).Nodup) :
    view (buildTree (fullCfg m) env₁ l₁) = view (buildTree (fullCfg m) env₂ l₂) := by
  have hs' : (l₁.map fun a => (FullConfig.toC07 a).patternStr).Nodup := by
    have e : (fun a : FullConfig => (FullConfig.toC07 a).patternStr) = fun a => a.patternStr := by
      funext a; rfl
    rw [e]; exact hs
  have := env_independent_strings (fun a b => isSubgroup m a.toC07 b.toC07) FullConfig.toC07 env₁ env₂ h₁ h₂ l₁ l₂ hp hs'
  exact this

theorem queryOf_view (m : Perm.Mapper) (rh : Bool) (t : Tree FullConfig) (g : Graph) :
    C05.getFunctionalGroups (toTree t) g m rh = queryOf m rh (view t) g := rfl

/-- the answer on an assertion-free list with distinct pattern strings, in terms of the pure builder -/
theorem fgQueryGetM_eq (m : Perm.Mapper) (cfgs : List FullConfig) (env : Env) (g : Graph) (rh : Bool)
    (hs : (cfgs.map fun a => a.patternStr).Nodup) (hfree : AssertionFree m cfgs) :
    fgQueryGetM m cfgs env g rh = some (queryOf m rh (view (buildTree (fullCfg m) env cfgs)) g) := by
  unfold fgQueryGetM
  rw [buildFull_eq m env cfgs (nodup_of_nodup_map _ _ hs) hfree, Option.map_some, queryOf_view]

/-- **C06.query_end_to_end** — property C06 for the composed model.  For configurations with
    pairwise distinct pattern strings on which the both-directions assertion of `is_subgroup` cannot
    fire (both hypotheses have executable checks, `distinctStringsFull` and `assertionFree`: see
    `query_end_to_end_checked`), the answer of
    `FGQuery(mapper=m, config=cfgs, require_implicit_hydrogen=rh).get(g)`
      * is the same for every set-iteration order (`env₁`, `env₂`: arbitrary permutations at every
        insertion), every permutation of the configuration list (`l₁ ~ l₂`) and after any histories
        `gs₁`, `gs₂` of earlier queries on the same objects (cache);
      * equals the answer `fgQueryGetM` of a fresh object, which is an answer, not an exception. -/
theorem query_end_to_end (m : Perm.Mapper) (rh : Bool) (env₁ env₂ : Env) (h₁ : env₁.Valid) (h₂ : env₂.Valid)
    (l₁ l₂ : List FullConfig) (hp : l₁.Perm l₂)
    (hs : (l₁.map fun a => a.patternStr).Nodup) (hf₁ : AssertionFree m l₁)
    (gs₁ gs₂ : List Graph) (g : Graph) :
    (objGet m env₁ rh (objRun m env₁ rh (new l₁) gs₁) g).2 = (objGet m env₂ rh (objRun m env₂ rh (new l₂) gs₂) g).2 ∧
    (objGet m env₁ rh (objRun m env₁ rh (new l₁) gs₁) g).2 = fgQueryGetM m l₁ env₁ g rh ∧
    fgQueryGetM m l₁ env₁ g rh = fgQueryGetM m l₂ env₂ g rh ∧
    (fgQueryGetM m l₁ env₁ g rh).isSome = true := by
  have hnd₁ : l₁.Nodup := nodup_of_nodup_map _ _ hs
  have e₁ : fgQueryGetM m l₁ env₁ g rh = some (queryOf m rh (view (buildTree (fullCfg m) env₁ l₁)) g) :=
    fgQueryGetM_eq m l₁ env₁ g rh hs hf₁
  have e₂ : fgQueryGetM m l₂ env₂ g rh = some (queryOf m rh (view (buildTree (fullCfg m) env₂ l₂)) g) := by
    unfold fgQueryGetM
    rw [buildFull_eq m env₂ l₂ (hp.nodup_iff.mp hnd₁) (assertionFree_perm m l₁ l₂ hp hf₁),
      Option.map_some, queryOf_view]
  have hv : view (buildTree (fullCfg m) env₁ l₁) = view (buildTree (fullCfg m) env₂ l₂) :=
    view_full_independent m env₁ env₂ h₁ h₂ l₁ l₂ hp hs
  have h12 : fgQueryGetM m l₁ env₁ g rh = fgQueryGetM m l₂ env₂ g rh := by rw [e₁, e₂, hv]
  refine ⟨?_, history_end_to_end m env₁ rh l₁ gs₁ g, h12, ?_⟩
  · rw [history_end_to_end, history_end_to_end, h12]
  · rw [e₁, Option.isSome_some]

/-- `query_end_to_end` with its hypotheses as executable checks on the list -/
theorem query_end_to_end_checked (m : Perm.Mapper) (rh : Bool) (env₁ env₂ : Env) (h₁ : env₁.Valid) (h₂ : env₂.Valid)
    (l₁ l₂ : List FullConfig) (hp : l₁.Perm l₂)
    (hstr : distinctStringsFull l₁ = true) (hfree : assertionFree m l₁ = true)
    (gs₁ gs₂ : List Graph) (g : Graph) :
    (objGet m env₁ rh (objRun m env₁ rh (new l₁) gs₁) g).2 = (objGet m env₂ rh (objRun m env₂ rh (new l₂) gs₂) g).2 ∧
    (objGet m env₁ rh (objRun m env₁ rh (new l₁) gs₁) g).2 = fgQueryGetM m l₁ env₁ g rh ∧
    fgQueryGetM m l₁ env₁ g rh = fgQueryGetM m l₂ env₂ g rh ∧
    (fgQueryGetM m l₁ env₁ g rh).isSome = true :=
  query_end_to_end m rh env₁ env₂ h₁ h₂ l₁ l₂ hp (by simpa [distinctStringsFull] using hstr)
    (assertionFree_sound m l₁ hfree) gs₁ gs₂ g

/-- the statement read on the pure model of `Model/C06.lean`: under the same hypotheses the composed
    answer is `C06.get` with the query parameter instantiated by C05's algorithm on the adapter's tree
    — so `C06.deterministic` / `C06.history_independent` speak about the same value -/
theorem fgQueryGetM_eq_get (m : Perm.Mapper) (cfgs : List FullConfig) (env : Env) (g : Graph) (rh : Bool)
    (hstr : (cfgs.map fun a => a.patternStr).Nodup) (hfree : AssertionFree m cfgs) (gs : List Graph) :
    fgQueryGetM m cfgs env g rh =
      some (get (fullCfg m) env (queryOf m rh) (run (fullCfg m) env (queryOf m rh) (new cfgs) gs) g).result := by
  rw [history_independent, (get_spec (fullCfg m) env (queryOf m rh) _ g (cacheOk_new _ env cfgs)).1]
  exact fgQueryGetM_eq m cfgs env g rh hstr hfree

end C06
