import FGVerif.Proofs.C16Sides
namespace C16

/-! ### the Boolean checkers decide the declarative statements -/

theorem rcLabelAt_symm (rc : ITSGraph) (m : Match) (u v : Int) : rcLabelAt rc m u v = rcLabelAt rc m v u := by
  unfold rcLabelAt ITSGraph.label?
  cases getM m u <;> cases getM m v <;> simp only
  rw [lookupE_symm]

theorem expLabel_symm (g : MolGraph) (rc : ITSGraph) (m : Match) (u v : Int) :
    expLabel g rc m u v = expLabel g rc m v u := by
  unfold expLabel MolGraph.bond?
  rw [rcLabelAt_symm rc m u v, lookupE_symm g.edges u v]

theorem expLabel_some_cases (g : MolGraph) (rc : ITSGraph) (m : Match) (u v : Int) (a : Int × Int)
    (h : expLabel g rc m u v = some a) : (g.bond? u v).isSome = true ∨ (rcLabelAt rc m u v).isSome = true := by
  unfold expLabel at h
  cases hb : g.bond? u v <;> cases hr : rcLabelAt rc m u v <;> simp [hb, hr] at h ⊢

theorem isExpectedB_sound (g : MolGraph) (rc : ITSGraph) (m : Match) (its : ITSGraph)
    (h : isExpectedB g rc m its = true) : IsExpected g rc m its := by
  unfold isExpectedB at h
  simp only [Bool.and_eq_true, decide_eq_true_eq, List.all_eq_true] at h
  obtain ⟨⟨⟨hn, h1⟩, h2⟩, h3⟩ := h
  refine ⟨hn, fun u v => ?_⟩
  cases he : expLabel g rc m u v with
  | none =>
    cases hl : its.label? u v with
    | none => rfl
    | some a =>
      exfalso
      obtain ⟨e, hemem, hh, hlab⟩ := lookupE_some_mem _ _ _ _ hl
      have := h1 e hemem
      rw [hit_iff] at hh
      rcases hh with ⟨e1, e2⟩ | ⟨e1, e2⟩
      · rw [e1, e2, he] at this; simp at this
      · rw [e1, e2, expLabel_symm, he] at this; simp at this
  | some a =>
    rw [← he]
    rcases expLabel_some_cases g rc m u v a he with hb | hr
    · cases hb' : g.bond? u v with
      | none => rw [hb'] at hb; simp at hb
      | some b =>
        obtain ⟨e, hemem, hh, _⟩ := lookupE_some_mem _ _ _ _ hb'
        have := h2 e hemem
        rw [hit_iff] at hh
        rcases hh with ⟨e1, e2⟩ | ⟨e1, e2⟩
        · rw [e1, e2] at this; exact this
        · rw [e1, e2] at this
          unfold ITSGraph.label? at this ⊢
          rw [lookupE_symm, expLabel_symm]; exact this
    · unfold rcLabelAt at hr
      cases hu : getM m u with
      | none => rw [hu] at hr; simp at hr
      | some x =>
        cases hv : getM m v with
        | none => rw [hu, hv] at hr; simp at hr
        | some y =>
          exact h3 (u, x) (getM_some_mem m u x hu) (v, y) (getM_some_mem m v y hv)

theorem isExpectedB_complete (g : MolGraph) (rc : ITSGraph) (m : Match) (its : ITSGraph)
    (hn : NodupPairs its.edges) (h : IsExpected g rc m its) : isExpectedB g rc m its = true := by
  unfold isExpectedB
  simp only [Bool.and_eq_true, decide_eq_true_eq, List.all_eq_true]
  refine ⟨⟨⟨h.nodes, ?_⟩, ?_⟩, ?_⟩
  · intro e he
    rw [← h.labels]
    exact lookupE_of_mem _ hn e he _ _ (by simp [hit])
  · intro e _; exact h.labels _ _
  · intro p _ q _; exact h.labels _ _

/-- the model's graph passes the checker the harness applies to implementation outputs -/
theorem applyMatch_isExpectedB (g : MolGraph) (rc : ITSGraph) (m : Match) (hg : NodupPairs g.edges)
    (hm : MatchInj m) (hrc : RcWF rc) : isExpectedB g rc m (applyMatch g (mkRule rc) m) = true :=
  isExpectedB_complete g rc m _ (nodupPairs_applyMatch g _ m hg) (applyMatch_isExpected g rc m hm hrc)

/-- same atoms, same label between any two atoms -/
structure ItsEquiv (a b : ITSGraph) : Prop where
  nodes : a.nodes = b.nodes
  labels : ∀ u v, a.label? u v = b.label? u v

theorem lookupE_agree {α : Type} (as bs : List (E α))
    (h1 : ∀ e ∈ as, lookupE bs e.1 e.2.1 = some e.2.2) (h2 : ∀ e ∈ bs, lookupE as e.1 e.2.1 = some e.2.2)
    (u v : Int) : lookupE as u v = lookupE bs u v := by
  cases ha : lookupE as u v with
  | some x =>
    obtain ⟨e, he, hh, hl⟩ := lookupE_some_mem _ _ _ _ ha
    have := h1 e he
    rw [hit_iff] at hh
    rcases hh with ⟨e1, e2⟩ | ⟨e1, e2⟩
    · rw [e1, e2, hl] at this; exact this.symm
    · rw [e1, e2, hl, lookupE_symm] at this; exact this.symm
  | none =>
    cases hb : lookupE bs u v with
    | none => rfl
    | some y =>
      exfalso
      obtain ⟨e, he, hh, hl⟩ := lookupE_some_mem _ _ _ _ hb
      have := h2 e he
      rw [hit_iff] at hh
      rcases hh with ⟨e1, e2⟩ | ⟨e1, e2⟩
      · rw [e1, e2, ha] at this; simp at this
      · rw [e1, e2, lookupE_symm, ha] at this; simp at this

theorem itsEquivB_sound (a b : ITSGraph) (h : itsEquivB a b = true) : ItsEquiv a b := by
  unfold itsEquivB at h
  simp only [Bool.and_eq_true, decide_eq_true_eq, List.all_eq_true] at h
  obtain ⟨⟨hn, h1⟩, h2⟩ := h
  exact ⟨hn, lookupE_agree a.edges b.edges h1 h2⟩

/-- same atoms, same bond between any two atoms -/
structure MolEquiv (a b : MolGraph) : Prop where
  nodes : a.nodes = b.nodes
  bonds : ∀ u v, a.bond? u v = b.bond? u v

theorem molEquivB_sound (a b : MolGraph) (h : molEquivB a b = true) : MolEquiv a b := by
  unfold molEquivB at h
  simp only [Bool.and_eq_true, decide_eq_true_eq, List.all_eq_true] at h
  obtain ⟨⟨hn, h1⟩, h2⟩ := h
  exact ⟨hn, lookupE_agree a.edges b.edges h1 h2⟩

end C16
