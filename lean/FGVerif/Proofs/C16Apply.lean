import FGVerif.Proofs.C16Match
namespace C16

/-! ### lookups in the two halves of `split_its` -/

theorem mem_rightEdges (es : List (E (Int × Int))) (t : E Int) :
    t ∈ rightEdges es ↔ ∃ e ∈ es, e.2.2.2 ≠ 0 ∧ t = (e.1, e.2.1, e.2.2.2) := by
  unfold rightEdges
  rw [List.mem_filterMap]
  constructor
  · rintro ⟨e, he, h⟩
    by_cases h0 : e.2.2.2 = 0
    · simp [h0] at h
    · simp [h0] at h; exact ⟨e, he, h0, h.symm⟩
  · rintro ⟨e, he, h0, rfl⟩
    exact ⟨e, he, by simp [h0]⟩

theorem mem_leftEdges (es : List (E (Int × Int))) (t : E Int) :
    t ∈ leftEdges es ↔ ∃ e ∈ es, e.2.2.1 ≠ 0 ∧ t = (e.1, e.2.1, e.2.2.1) := by
  unfold leftEdges
  rw [List.mem_filterMap]
  constructor
  · rintro ⟨e, he, h⟩
    by_cases h0 : e.2.2.1 = 0
    · simp [h0] at h
    · simp [h0] at h; exact ⟨e, he, h0, h.symm⟩
  · rintro ⟨e, he, h0, rfl⟩
    exact ⟨e, he, by simp [h0]⟩

theorem rightEdges_cons (e : E (Int × Int)) (es : List (E (Int × Int))) :
    rightEdges (e :: es) = if e.2.2.2 = 0 then rightEdges es else (e.1, e.2.1, e.2.2.2) :: rightEdges es := by
  unfold rightEdges; rw [List.filterMap_cons]; split <;> simp_all

theorem leftEdges_cons (e : E (Int × Int)) (es : List (E (Int × Int))) :
    leftEdges (e :: es) = if e.2.2.1 = 0 then leftEdges es else (e.1, e.2.1, e.2.2.1) :: leftEdges es := by
  unfold leftEdges; rw [List.filterMap_cons]; split <;> simp_all

theorem lookupE_rightEdges (es : List (E (Int × Int))) (hn : NodupPairs es) (x y : Int) :
    lookupE (rightEdges es) x y = (lookupE es x y).bind fun lr => if lr.2 = 0 then none else some lr.2 := by
  induction es with
  | nil => rfl
  | cons e es ih =>
    have hn' := List.pairwise_cons.mp hn
    rw [rightEdges_cons, lookupE_cons]
    by_cases hh : hit e.1 e.2.1 x y = true
    · simp only [hh, if_true, Option.bind_some]
      have hnone : lookupE (rightEdges es) x y = none := by
        rw [lookupE_eq_none]
        intro t ht
        obtain ⟨f, hf, _, rfl⟩ := (mem_rightEdges es t).mp ht
        have := hn'.1 f hf
        rw [hit_false_iff] at *; rw [hit_iff] at hh; simp only; omega
      by_cases h0 : e.2.2.2 = 0
      · simp [h0, hnone]
      · simp [h0, lookupE_cons, hh]
    · simp only [hh]
      by_cases h0 : e.2.2.2 = 0
      · simp [h0, ih hn'.2]
      · simp [h0, lookupE_cons, hh, ih hn'.2]

theorem lookupE_leftEdges (es : List (E (Int × Int))) (hn : NodupPairs es) (x y : Int) :
    lookupE (leftEdges es) x y = (lookupE es x y).bind fun lr => if lr.1 = 0 then none else some lr.1 := by
  induction es with
  | nil => rfl
  | cons e es ih =>
    have hn' := List.pairwise_cons.mp hn
    rw [leftEdges_cons, lookupE_cons]
    by_cases hh : hit e.1 e.2.1 x y = true
    · simp only [hh, if_true, Option.bind_some]
      have hnone : lookupE (leftEdges es) x y = none := by
        rw [lookupE_eq_none]
        intro t ht
        obtain ⟨f, hf, _, rfl⟩ := (mem_leftEdges es t).mp ht
        have := hn'.1 f hf
        rw [hit_false_iff] at *; rw [hit_iff] at hh; simp only; omega
      by_cases h0 : e.2.2.1 = 0
      · simp [h0, hnone]
      · simp [h0, lookupE_cons, hh]
    · simp only [hh]
      by_cases h0 : e.2.2.1 = 0
      · simp [h0, ih hn'.2]
      · simp [h0, lookupE_cons, hh, ih hn'.2]

theorem nodupPairs_rightEdges (es : List (E (Int × Int))) (hn : NodupPairs es) : NodupPairs (rightEdges es) := by
  induction es with
  | nil => exact List.Pairwise.nil
  | cons e es ih =>
    have hn' := List.pairwise_cons.mp hn
    rw [rightEdges_cons]
    split
    · exact ih hn'.2
    · refine List.pairwise_cons.mpr ⟨?_, ih hn'.2⟩
      intro t ht
      obtain ⟨f, hf, _, rfl⟩ := (mem_rightEdges es t).mp ht
      exact hn'.1 f hf

theorem hBond_symm (rule : Rule) (m : Match) (u v b : Int) : hBond rule m u v b = hBond rule m v u b := by
  unfold hBond MolGraph.hasEdge MolGraph.bond?
  cases getM m u <;> cases getM m v <;> simp only
  rename_i x y
  rw [lookupE_symm rule.r.edges x y, lookupE_symm rule.l.edges x y]

theorem lookupE_firstLoop (g : MolGraph) (rule : Rule) (m : Match) (u v : Int) :
    lookupE (firstLoop g rule m) u v = (g.bond? u v).map fun b => (b, hBond rule m u v b) := by
  unfold firstLoop MolGraph.bond?
  induction g.edges with
  | nil => rfl
  | cons e es ih =>
    rw [List.map_cons, lookupE_cons, lookupE_cons, ih]
    by_cases hh : hit e.1 e.2.1 u v = true
    · simp only [hh, if_true, Option.map_some]
      rw [hit_iff] at hh
      rcases hh with ⟨e1, e2⟩ | ⟨e1, e2⟩
      · rw [e1, e2]
      · rw [e1, e2, hBond_symm]
    · simp [hh]


/-! ### the ITS graph of one mapping, pointwise -/

/-- well-formed reaction-centre graph: no pair of nodes joined twice, no `[0, 0]` label -/
structure RcWF (rc : ITSGraph) : Prop where
  nodup : NodupPairs rc.edges
  nonzero : ∀ e ∈ rc.edges, ¬ (e.2.2.1 = 0 ∧ e.2.2.2 = 0)

/-- the declarative statement for one mapping: `its` has `g`'s atoms and between any two atoms
    exactly the prescribed label -/
structure IsExpected (g : MolGraph) (rc : ITSGraph) (m : Match) (its : ITSGraph) : Prop where
  nodes : its.nodes = g.nodes
  labels : ∀ u v, its.label? u v = expLabel g rc m u v

theorem applyMatch_label (g : MolGraph) (rc : ITSGraph) (m : Match) (hm : MatchInj m) (hrc : RcWF rc)
    (u v : Int) : (applyMatch g (mkRule rc) m).label? u v = expLabel g rc m u v := by
  unfold applyMatch ITSGraph.label?
  simp only
  rw [foldl_overlay_eq, lookupE_foldl_overlayEdge, lookupE_firstLoop]
  have hr : (mkRule rc).r.edges = rightEdges rc.edges := rfl
  rw [hr, lastHit_images m hm _ (nodupPairs_rightEdges _ hrc.nodup)]
  unfold expLabel rcLabelAt ITSGraph.label? hBond MolGraph.hasEdge MolGraph.bond?
  simp only [mkRule, splitIts]
  cases hu : getM m u with
  | none => cases hg : lookupE g.edges u v <;> simp
  | some x =>
    cases hv : getM m v with
    | none => cases hg : lookupE g.edges u v <;> simp
    | some y =>
      simp only [lookupE_rightEdges _ hrc.nodup, lookupE_leftEdges _ hrc.nodup]
      cases hr : lookupE rc.edges x y with
      | none => cases hg : lookupE g.edges u v <;> simp
      | some lr =>
        obtain ⟨e, he, _, hlab⟩ := lookupE_some_mem _ _ _ _ hr
        have hnz := hrc.nonzero e he
        rw [hlab] at hnz
        by_cases h0 : lr.2 = 0
        · have h1 : lr.1 ≠ 0 := fun h => hnz ⟨h, h0⟩
          cases hg : lookupE g.edges u v <;> simp [h0, h1]
        · cases hg : lookupE g.edges u v <;> simp [h0]

theorem applyMatch_isExpected (g : MolGraph) (rc : ITSGraph) (m : Match) (hm : MatchInj m) (hrc : RcWF rc) :
    IsExpected g rc m (applyMatch g (mkRule rc) m) :=
  ⟨rfl, applyMatch_label g rc m hm hrc⟩

end C16
