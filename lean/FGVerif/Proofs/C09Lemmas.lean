import FGVerif.Model.C09
/-!
  Helper lemmas for C09/C10: association lists, `find?` under uniqueness, the Boolean
  `pairwiseB` against `List.Pairwise`.
-/
namespace C09

/-! ### generic list facts -/

theorem pairwiseB_iff {α} (r : α → α → Bool) (l : List α) :
    pairwiseB r l = true ↔ l.Pairwise (fun x y => r x y = true) := by
  induction l with
  | nil => simp [pairwiseB]
  | cons x xs ih => simp [pairwiseB, List.pairwise_cons, ih, List.all_eq_true]

/-- in a pairwise-`R`-unrelated list two members related by a symmetric `P` are equal -/
theorem eq_of_pairwise_not {α} {P : α → α → Prop} (hsymm : ∀ x y, P x y → P y x) {l : List α}
    (hp : l.Pairwise (fun x y => ¬ P x y)) {x y : α} (hx : x ∈ l) (hy : y ∈ l) (h : P x y) : x = y := by
  induction l with
  | nil => cases hx
  | cons z zs ih =>
    rw [List.pairwise_cons] at hp
    rcases List.mem_cons.mp hx with rfl | hx'
    · rcases List.mem_cons.mp hy with rfl | hy'
      · rfl
      · exact absurd h (hp.1 _ hy')
    · rcases List.mem_cons.mp hy with rfl | hy'
      · exact absurd (hsymm _ _ h) (hp.1 _ hx')
      · exact ih hp.2 hx' hy'

theorem mem_of_lookup {l : List (Int × Int)} {k v : Int} (h : l.lookup k = some v) : (k, v) ∈ l := by
  induction l with
  | nil => simp [List.lookup] at h
  | cons p ps ih =>
    obtain ⟨k', v'⟩ := p
    rw [List.lookup_cons] at h
    by_cases hk : k = k'
    · subst hk; simp at h; subst h; exact List.mem_cons_self
    · have : (k == k') = false := by simpa using hk
      rw [this] at h
      exact List.mem_cons_of_mem _ (ih h)

theorem lookup_of_mem {l : List (Int × Int)} (hd : l.Pairwise (fun p q => p.1 ≠ q.1)) {k v : Int}
    (h : (k, v) ∈ l) : l.lookup k = some v := by
  induction l with
  | nil => cases h
  | cons p ps ih =>
    obtain ⟨k', v'⟩ := p
    rw [List.pairwise_cons] at hd
    rw [List.lookup_cons]
    rcases List.mem_cons.mp h with heq | h'
    · cases heq; simp
    · have hne : k' ≠ k := hd.1 _ h'
      have : (k == k') = false := by simpa using (Ne.symm hne)
      rw [this]; exact ih hd.2 h'

theorem lookup_iff {l : List (Int × Int)} (hd : l.Pairwise (fun p q => p.1 ≠ q.1)) {k v : Int} :
    l.lookup k = some v ↔ (k, v) ∈ l := ⟨mem_of_lookup, lookup_of_mem hd⟩

theorem lookup_none_iff {l : List (Int × Int)} {k : Int} :
    l.lookup k = none ↔ ∀ v, (k, v) ∉ l := by
  induction l with
  | nil => simp [List.lookup]
  | cons p ps ih =>
    obtain ⟨k', v'⟩ := p
    rw [List.lookup_cons]
    by_cases hk : k = k'
    · subst hk
      simp only [BEq.rfl, reduceCtorEq, false_iff]
      intro h; exact h v' List.mem_cons_self
    · have : (k == k') = false := by simpa using hk
      rw [this]; simp [ih, hk]

/-- `find?` returns the unique member satisfying the predicate -/
theorem find?_unique {α} {p : α → Bool} {l : List α} {x : α} (hx : x ∈ l) (hpx : p x = true)
    (huniq : ∀ y ∈ l, p y = true → y = x) : l.find? p = some x := by
  cases h : l.find? p with
  | none => exact absurd hpx (List.find?_eq_none.mp h x hx)
  | some y => rw [huniq y (List.mem_of_find?_eq_some h) (List.find?_some h)]

theorem find?_congr {α} {p q : α → Bool} {l : List α} (h : ∀ x ∈ l, p x = q x) :
    l.find? p = l.find? q := by
  induction l with
  | nil => rfl
  | cons x xs ih =>
    rw [List.find?_cons, List.find?_cons, h x List.mem_cons_self,
      ih fun y hy => h y (List.mem_cons_of_mem _ hy)]

theorem any_congr' {α} {p q : α → Bool} {l : List α} (h : ∀ x ∈ l, p x = q x) :
    l.any p = l.any q := by
  induction l with
  | nil => rfl
  | cons x xs ih =>
    rw [List.any_cons, List.any_cons, h x List.mem_cons_self,
      ih fun y hy => h y (List.mem_cons_of_mem _ hy)]

theorem samePair_symm (u v a b : Int) : samePair u v a b = samePair a b u v := by
  rw [Bool.eq_iff_iff]
  simp only [samePair, Bool.or_eq_true, Bool.and_eq_true, beq_iff_eq]
  omega

theorem samePair_swap (u v a b : Int) : samePair u v a b = samePair u v b a := by
  unfold samePair; exact Bool.or_comm _ _

theorem samePair_iff {u v a b : Int} :
    samePair u v a b = true ↔ (u = a ∧ v = b) ∨ (u = b ∧ v = a) := by
  simp [samePair]

end C09
