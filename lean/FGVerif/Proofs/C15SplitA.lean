import FGVerif.Model.C15
import FGVerif.Proofs.C13Nodes
import FGVerif.Proofs.C13EdgesD
/-!
  C15 (split / superposition), part A: node level of `copyGraph`, `setRcEdge`, `splitIts`;
  `setBond` / `removeEdge` at the level of `edgeData` / `neighbors`, and preservation of `WF`.
  Helper lemmas live in namespace `C15.P`.
-/
set_option linter.unusedSimpArgs false
namespace C15.P
open Graph C13 C13.E

/-! ### node level -/

theorem setBond_nodes (g : Graph) (u v : Int) (l : Label) : (setBond g u v l).nodes = g.nodes := rfl
theorem setBond_multi (g : Graph) (u v : Int) (l : Label) : (setBond g u v l).multi = g.multi := rfl
theorem removeEdge_nodes (g : Graph) (u v : Int) : (g.removeEdge u v).nodes = g.nodes := rfl
theorem removeEdge_multi (g : Graph) (u v : Int) : (g.removeEdge u v).multi = g.multi := rfl

theorem setRcEdge_nodes (g : Graph) (u v o : Int) : (setRcEdge g u v o).nodes = g.nodes := by
  unfold setRcEdge; split <;> rfl

theorem setRcEdge_multi (g : Graph) (u v o : Int) : (setRcEdge g u v o).multi = g.multi := by
  unfold setRcEdge; split <;> rfl

/-- one step of the loop of `split_its` -/
def splitStep (gh : Graph × Graph) (e : Edge) : Graph × Graph :=
  match e.2.2.2 with
  | .p a b => (setRcEdge gh.1 e.1 e.2.1 a, setRcEdge gh.2 e.1 e.2.1 b)
  | _ => gh

/-- the loop of `split_its` over an arbitrary edge list -/
def splitFold (gh : Graph × Graph) (E : List Edge) : Graph × Graph := E.foldl splitStep gh

theorem splitIts_eq (x : Graph) : splitIts x = splitFold (copyGraph x, copyGraph x) x.edges := rfl

theorem splitFold_cons (gh : Graph × Graph) (e : Edge) (E : List Edge) :
    splitFold gh (e :: E) = splitFold (splitStep gh e) E := rfl

theorem splitStep_nodes (gh : Graph × Graph) (e : Edge) :
    (splitStep gh e).1.nodes = gh.1.nodes ∧ (splitStep gh e).2.nodes = gh.2.nodes := by
  unfold splitStep
  split
  · exact ⟨setRcEdge_nodes _ _ _ _, setRcEdge_nodes _ _ _ _⟩
  · exact ⟨rfl, rfl⟩

theorem splitFold_nodes (E : List Edge) : ∀ gh : Graph × Graph,
    (splitFold gh E).1.nodes = gh.1.nodes ∧ (splitFold gh E).2.nodes = gh.2.nodes := by
  induction E with
  | nil => intro gh; exact ⟨rfl, rfl⟩
  | cons e E ih =>
    intro gh
    rw [splitFold_cons]
    have h1 := ih (splitStep gh e)
    have h2 := splitStep_nodes gh e
    exact ⟨h1.1.trans h2.1, h1.2.trans h2.2⟩

/-- `graph.copy()` keeps the node list (ids pairwise distinct, adjacency mentions only nodes) -/
theorem copyGraph_nodes (x : Graph) (hc : C13.Closed x) (hnd : x.nodeIds.Nodup) : (copyGraph x).nodes = x.nodes := by
  have h1 : (addNodesFrom ({ multi := x.multi } : Graph) x.nodes).nodes = x.nodes := by
    rw [C13.addNodesFrom_nodes _ _ hnd]; · simp
    · intro n _; simp [Graph.hasNode]
  unfold copyGraph
  rw [C13.addEdgesFrom_nodes, h1]
  intro e he
  rw [C13.hasNode_of_nodes_eq h1, C13.hasNode_of_nodes_eq h1]
  exact C13.edges_mem_closed x hc e he

theorem reaction_nodes (x : Graph) (hc : C13.Closed x) (hnd : x.nodeIds.Nodup) :
    (reaction x).1.nodes = x.nodes ∧ (reaction x).2.nodes = x.nodes := by
  have h := splitFold_nodes x.edges (copyGraph x, copyGraph x)
  have hn := copyGraph_nodes x hc hnd
  exact ⟨h.1.trans hn, h.2.trans hn⟩

variable {γ : Type}

/-! ### association lists: two-key update -/

theorem ids_map_fst {β : Type} (l : List (Int × β)) (F : Int × β → Int × β) (h : ∀ r, (F r).1 = r.1) :
    ids (l.map F) = ids l := by
  induction l with
  | nil => rfl
  | cons x l ih => simp only [List.map_cons, ids_cons, ih, h]

theorem ids_map_upd2 (l : List (Int × List γ)) (u v : Int) (f g : List γ → List γ) :
    ids (l.map fun r => if r.1 == u then (r.1, f r.2) else if r.1 == v then (r.1, g r.2) else r) = ids l := by
  apply ids_map_fst
  intro r
  split
  · rfl
  · split <;> rfl

theorem lk_map_upd2 (l : List (Int × List γ)) (u v : Int) (f g : List γ → List γ)
    (hf : f [] = []) (hg : g [] = []) (a : Int) :
    lk (l.map fun r => if r.1 == u then (r.1, f r.2) else if r.1 == v then (r.1, g r.2) else r) a
      = if a = u then f (lk l a) else if a = v then g (lk l a) else lk l a := by
  induction l with
  | nil => by_cases h1 : a = u <;> by_cases h2 : a = v <;> simp [h1, h2, hf, hg]
  | cons x l ih =>
    simp only [List.map_cons, lk_cons, ih]
    by_cases h : x.1 = u <;> by_cases h2 : x.1 = v <;> by_cases h3 : x.1 = a <;> grind


/-! ### `setBond` -/

/-- every key of the dict gets the label `l` -/
def relab (l : Label) (kd : KeyDict) : KeyDict := kd.map fun e => (e.1, l)

/-- the entry of neighbour `w` gets the label `l` -/
def updNbr (l : Label) (row : Row) (w : Int) : Row :=
  row.map fun e => if e.1 == w then (e.1, relab l e.2) else e

@[simp] theorem relab_nil (l : Label) : relab l [] = [] := rfl
@[simp] theorem updNbr_nil (l : Label) (w : Int) : updNbr l [] w = [] := rfl

theorem keys_relab (l : Label) (kd : KeyDict) : keys (relab l kd) = keys kd := by
  simp [keys, relab, Function.comp_def]

theorem relab_eq_nil {l : Label} {kd : KeyDict} : relab l kd = [] ↔ kd = [] := by
  simp [relab]

theorem ids_updNbr (l : Label) (row : Row) (w : Int) : ids (updNbr l row w) = ids row :=
  ids_map_upd row w (relab l)

theorem lk_updNbr (l : Label) (row : Row) (w b : Int) :
    lk (updNbr l row w) b = if b = w then relab l (lk row b) else lk row b := by
  unfold updNbr
  rw [lk_map_upd row w (relab l) b]
  by_cases hb : b = w
  · subst hb
    by_cases hm : b ∈ ids row
    · simp [hm]
    · simp [hm, lk_eq_nil hm]
  · simp [hb]

theorem setBond_adj (g : Graph) (u v : Int) (l : Label) :
    (setBond g u v l).adj = g.adj.map fun r =>
      if r.1 == u then (r.1, updNbr l r.2 v) else if r.1 == v then (r.1, updNbr l r.2 u) else r := rfl

theorem setBond_adj_ids (g : Graph) (u v : Int) (l : Label) : ids (setBond g u v l).adj = ids g.adj := by
  rw [setBond_adj]; exact ids_map_upd2 g.adj u v (fun row => updNbr l row v) (fun row => updNbr l row u)

theorem setBond_adjRow (g : Graph) (u v : Int) (l : Label) (a : Int) :
    (setBond g u v l).adjRow a
      = if a = u then updNbr l (g.adjRow a) v else if a = v then updNbr l (g.adjRow a) u else g.adjRow a := by
  simp only [adjRow_eq, setBond_adj]
  exact lk_map_upd2 g.adj u v (fun row => updNbr l row v) (fun row => updNbr l row u) rfl rfl a

theorem setBond_neighbors (g : Graph) (u v : Int) (l : Label) (a : Int) :
    (setBond g u v l).neighbors a = g.neighbors a := by
  simp only [neighbors_row, setBond_adjRow]
  by_cases h1 : a = u
  · subst h1; simp [ids_updNbr]
  · by_cases h2 : a = v
    · subst h2; simp [h1, ids_updNbr]
    · simp [h1, h2]

theorem setBond_edgeData (g : Graph) (u v : Int) (l : Label) (a b : Int) :
    (setBond g u v l).edgeData a b
      = if (a = u ∧ b = v) ∨ (a = v ∧ b = u) then relab l (g.edgeData a b) else g.edgeData a b := by
  simp only [edgeData_row, setBond_adjRow]
  by_cases h1 : a = u
  · subst h1
    simp only [if_true, lk_updNbr, true_and]
    by_cases h3 : b = v
    · simp [h3]
    · by_cases h2 : a = v
      · subst h2; simp [h3]
      · simp [h3, h2]
  · simp only [h1, if_false, false_and, false_or]
    by_cases h2 : a = v
    · subst h2; simp only [if_true, lk_updNbr, true_and]
    · simp [h2]


theorem WF_setBond {g : Graph} (w : WF g) (u v : Int) (l : Label) : WF (setBond g u v l) := by
  refine ⟨?_, ?_, ?_, ?_, ?_, ?_, ?_, ?_⟩
  · show ids (setBond g u v l).adj = g.nodeIds
    rw [setBond_adj_ids]; exact w.rows
  · exact w.nodup
  · intro a; rw [setBond_neighbors]; exact w.nbrNodup a
  · intro a b hb; rw [setBond_neighbors] at hb; exact w.closed a b hb
  · intro a b hb
    rw [setBond_neighbors] at hb
    rw [setBond_edgeData]
    split
    · intro h; exact w.nonempty a b hb (relab_eq_nil.mp h)
    · exact w.nonempty a b hb
  · intro a b
    rw [setBond_edgeData]
    split
    · rw [keys_relab]; exact w.keysNodup a b
    · exact w.keysNodup a b
  · intro hm a b
    rw [setBond_edgeData]
    split
    · intro h; rw [keys_relab]; exact w.simple hm a b (fun e => h (relab_eq_nil.mpr e))
    · exact w.simple hm a b
  · intro a b
    rw [setBond_edgeData, setBond_edgeData, w.symm a b]
    have : ((a = u ∧ b = v) ∨ (a = v ∧ b = u)) ↔ ((b = u ∧ a = v) ∨ (b = v ∧ a = u)) := by
      constructor <;> rintro (⟨h1, h2⟩ | ⟨h1, h2⟩) <;> simp [h1, h2]
    simp only [this]

/-! ### `removeEdge` -/

theorem removeEdge_adj (g : Graph) (u v : Int) :
    (g.removeEdge u v).adj = g.adj.map fun r =>
      if r.1 == u then (r.1, r.2.filter (·.1 != v)) else if r.1 == v then (r.1, r.2.filter (·.1 != u)) else r := rfl

theorem removeEdge_adj_ids (g : Graph) (u v : Int) : ids (g.removeEdge u v).adj = ids g.adj := by
  rw [removeEdge_adj]
  exact ids_map_upd2 g.adj u v (fun row : Row => row.filter (·.1 != v)) (fun row : Row => row.filter (·.1 != u))

theorem removeEdge_adjRow (g : Graph) (u v a : Int) :
    (g.removeEdge u v).adjRow a
      = if a = u then (g.adjRow a).filter (·.1 != v)
        else if a = v then (g.adjRow a).filter (·.1 != u) else g.adjRow a := by
  simp only [adjRow_eq, removeEdge_adj]
  exact lk_map_upd2 g.adj u v (fun row : Row => row.filter (·.1 != v)) (fun row : Row => row.filter (·.1 != u))
    rfl rfl a

theorem removeEdge_neighbors (g : Graph) (u v a : Int) :
    (g.removeEdge u v).neighbors a
      = if a = u then (g.neighbors a).filter (· != v)
        else if a = v then (g.neighbors a).filter (· != u) else g.neighbors a := by
  simp only [neighbors_row, removeEdge_adjRow]
  by_cases h1 : a = u
  · simp only [h1, if_true]; exact ids_filter (g.adjRow u) (· != v)
  · by_cases h2 : a = v
    · subst h2
      simp only [h1, if_true, if_false]; exact ids_filter (g.adjRow a) (· != u)
    · simp [h1, h2]

theorem removeEdge_edgeData (g : Graph) (u v a b : Int) :
    (g.removeEdge u v).edgeData a b
      = if (a = u ∧ b = v) ∨ (a = v ∧ b = u) then [] else g.edgeData a b := by
  simp only [edgeData_row, removeEdge_adjRow]
  have e1 := lk_filter (g.adjRow a) (fun i => i != v) b
  have e2 := lk_filter (g.adjRow a) (fun i => i != u) b
  by_cases h1 : a = u
  · simp only [h1, if_true, true_and] at e1 ⊢
    rw [e1]
    by_cases h3 : b = v
    · simp [h3]
    · by_cases h2 : u = v
      · subst h2; simp [h3]
      · simp [h3, h2]
  · simp only [h1, if_false, false_and, false_or]
    by_cases h2 : a = v
    · simp only [h2, if_true, true_and] at e2 ⊢
      rw [e2]
      by_cases h4 : b = u <;> simp [h4]
    · simp [h2]

theorem mem_removeEdge_neighbors {g : Graph} {u v a b : Int} (h : b ∈ (g.removeEdge u v).neighbors a) :
    b ∈ g.neighbors a ∧ ¬ ((a = u ∧ b = v) ∨ (a = v ∧ b = u)) := by
  rw [removeEdge_neighbors] at h
  by_cases h1 : a = u
  · simp only [h1, if_true, List.mem_filter, bne_iff_ne, ne_eq] at h
    refine ⟨h1 ▸ h.1, ?_⟩
    rintro (⟨_, h3⟩ | ⟨h2, h3⟩)
    · exact h.2 h3
    · rw [h1] at h2; rw [h3, h2] at h; exact h.2 rfl
  · simp only [h1, if_false] at h
    by_cases h2 : a = v
    · simp only [h2, if_true, List.mem_filter, bne_iff_ne, ne_eq] at h
      refine ⟨h2 ▸ h.1, ?_⟩
      rintro (⟨h3, _⟩ | ⟨_, h3⟩)
      · exact h1 h3
      · exact h.2 h3
    · simp only [h2, if_false] at h
      exact ⟨h, by simp [h1, h2]⟩

theorem removeEdge_neighbors_sublist (g : Graph) (u v a : Int) :
    ((g.removeEdge u v).neighbors a).Sublist (g.neighbors a) := by
  rw [removeEdge_neighbors]
  split
  · exact List.filter_sublist
  · split
    · exact List.filter_sublist
    · exact List.Sublist.refl _

theorem WF_removeEdge {g : Graph} (w : WF g) (u v : Int) : WF (g.removeEdge u v) := by
  refine ⟨?_, ?_, ?_, ?_, ?_, ?_, ?_, ?_⟩
  · show ids (g.removeEdge u v).adj = g.nodeIds
    rw [removeEdge_adj_ids]; exact w.rows
  · exact w.nodup
  · intro a; exact (w.nbrNodup a).sublist (removeEdge_neighbors_sublist g u v a)
  · intro a b hb; exact w.closed a b (mem_removeEdge_neighbors hb).1
  · intro a b hb
    have := mem_removeEdge_neighbors hb
    rw [removeEdge_edgeData, if_neg this.2]
    exact w.nonempty a b this.1
  · intro a b
    rw [removeEdge_edgeData]
    split
    · simp [keys]
    · exact w.keysNodup a b
  · intro hm a b
    rw [removeEdge_edgeData]
    split
    · intro h; exact absurd rfl h
    · exact w.simple hm a b
  · intro a b
    rw [removeEdge_edgeData, removeEdge_edgeData, w.symm a b]
    have : ((a = u ∧ b = v) ∨ (a = v ∧ b = u)) ↔ ((b = u ∧ a = v) ∨ (b = v ∧ a = u)) := by
      constructor <;> rintro (⟨h1, h2⟩ | ⟨h1, h2⟩) <;> simp [h1, h2]
    simp only [this]


/-! ### `setRcEdge` -/

/-- what `_set_rc_edge(·, u, v, o)` does to the key dict of the pair: order 0 removes the bond -/
def rcData (o : Int) (kd : KeyDict) : KeyDict := if o = 0 then [] else relab (.s o) kd

theorem setRcEdge_edgeData (g : Graph) (u v o : Int) (a b : Int) :
    (setRcEdge g u v o).edgeData a b
      = if (a = u ∧ b = v) ∨ (a = v ∧ b = u) then rcData o (g.edgeData a b) else g.edgeData a b := by
  unfold setRcEdge rcData
  by_cases ho : o = 0
  · simp only [ho, beq_self_eq_true, if_true]; exact removeEdge_edgeData g u v a b
  · have : (o == 0) = false := by simpa using ho
    simp only [this, ho, Bool.false_eq_true, if_false]; exact setBond_edgeData g u v (.s o) a b

theorem WF_setRcEdge {g : Graph} (w : WF g) (u v o : Int) : WF (setRcEdge g u v o) := by
  unfold setRcEdge
  split
  · exact WF_removeEdge w u v
  · exact WF_setBond w u v _

end C15.P
