import FGVerif.Model.C15Rc
import FGVerif.Generated.Parsed
/-!
  C15 reaction centre: the generated Diels-Alder configuration as a `C14.Config`.

  `Gen.Parsed.daPosC` / `daNegC` / `daPosCoresC` / `daNegCoresC` are the effective group dictionaries and core
  graphs of `DielsAlderProxy(neg_sample=False/True)` (keys, names, pattern strings as character lists, anchors)
  and `Gen.Parsed.proxyPatternsC` lists, for every pattern string, the graph the REAL parser makes of it — all
  regenerated from /repo's working tree on every run (harness/gen_tables_parsed.py; `GenParsed.proxy_patterns_parsed`
  proves that the parser model `C01.parse` returns exactly these graphs, `GenParsed.da_pos_chars` / `da_neg_chars`
  that the character tables are the string tables `Gen.C14.*`).  The configuration below puts them together; nothing
  is typed in by hand.
-/
namespace C15
open C13 C14

/-- the parsed graph of a pattern string (the empty graph if the table does not list it) -/
def graphOfChars (cs : List Char) : Graph :=
  match Gen.Parsed.proxyPatternsC.find? (·.1 == cs) with
  | some p => p.2
  | none => {}

def cfgOfC (t : List (List Char × String × List (List Char × List Nat × List (List String)))) : Config :=
  t.map fun g => { key := String.ofList g.1, name := g.2.1, graphs := g.2.2.map fun r => ⟨graphOfChars r.1, r.2.1⟩ }

def coresOfC (t : List (List Char × List Nat × List (List String))) : List Graph := t.map fun r => graphOfChars r.1

/-- `DielsAlderProxy(neg_sample=False)`: groups and core graphs -/
def daCfgPos : Config := cfgOfC Gen.Parsed.daPosC
def daCoresPos : List Graph := coresOfC Gen.Parsed.daPosCoresC
/-- `DielsAlderProxy(neg_sample=True)` -/
def daCfgNeg : Config := cfgOfC Gen.Parsed.daNegC
def daCoresNeg : List Graph := coresOfC Gen.Parsed.daNegCoresC

/-- number of substitutions after which the reaction centre of every shipped core is complete on every branch
    (`{diene}` → `{s-cis_diene}` / `{s-trans_diene}` → diene graph, `{dienophile}` → dienophile graph) -/
def daDepth : Nat := 3

end C15
