import FGVerif.Proofs.C15SplitB
/-!
  C15 (split / superposition), part C: the superposition `getIts` as two folds of `addEdgeKey` over
  renamed edge lists, and the key dict of every pair of the result.

  * `addIfNew_edgeData`  "add the bond unless the pair is bonded": the first enumerated bond of a pair wins
  * `getIts_edgeData`    for well-formed simple graphs `g`, `h` on the same nodes the ITS bond between
    the map numbers of `a` and `b` is `(e_G, e_H or 0)` when `g` bonds the pair, `(0, e_H)` when only
    `h` does, and absent otherwise
-/
set_option linter.unusedSimpArgs false
namespace C15.P
open Graph C13 C13.E

/-! ### `add_edge` unless the edge exists -/

/-- `for e in E: if not r.has_edge(e): r.add_edge(e)` -/
def addIfNew (r : Graph) (E : List Edge) : Graph :=
  E.foldl (fun r e => if r.hasEdge e.1 e.2.1 then r else addEdgeKey r e.1 e.2.1 e.2.2.1 e.2.2.2) r

theorem addIfNew_cons (r : Graph) (e : Edge) (E : List Edge) :
    addIfNew r (e :: E)
      = addIfNew (if r.hasEdge e.1 e.2.1 then r else addEdgeKey r e.1 e.2.1 e.2.2.1 e.2.2.2) E := rfl

theorem hasEdge_iff_edgeData {g : Graph} (w : WF g) (u v : Int) : g.hasEdge u v = true ↔ g.edgeData u v ≠ [] := by
  rw [hasEdge_iff]
  exact ⟨w.nonempty u v, mem_neighbors_of_edgeData⟩

theorem hasEdge_false_iff {g : Graph} (w : WF g) (u v : Int) : g.hasEdge u v = false ↔ g.edgeData u v = [] := by
  have := hasEdge_iff_edgeData w u v
  cases h : g.hasEdge u v
  · simp only [true_iff]
    exact Classical.byContradiction fun hn => by rw [this.mpr hn] at h; cases h
  · simp only [Bool.true_eq_false, false_iff]; exact this.mp h

/-- one step of `addIfNew` keeps the invariants -/
theorem addIfNew_step {r : Graph} (w : WF r) (hm : r.multi = false) {e : Edge}
    (hu : e.1 ∈ r.nodeIds) (hv : e.2.1 ∈ r.nodeIds) (hk : e.2.2.1 = 0) :
    let r' := if r.hasEdge e.1 e.2.1 then r else addEdgeKey r e.1 e.2.1 e.2.2.1 e.2.2.2
    WF r' ∧ r'.multi = false ∧ r'.nodes = r.nodes := by
  intro r'
  show WF (if r.hasEdge e.1 e.2.1 then r else addEdgeKey r e.1 e.2.1 e.2.2.1 e.2.2.2) ∧
    (if r.hasEdge e.1 e.2.1 then r else addEdgeKey r e.1 e.2.1 e.2.2.1 e.2.2.2).multi = false ∧
    (if r.hasEdge e.1 e.2.1 then r else addEdgeKey r e.1 e.2.1 e.2.2.1 e.2.2.2).nodes = r.nodes
  split
  · exact ⟨w, hm, rfl⟩
  · exact ⟨WF_addEdgeKey w hu hv _ _ (fun _ => hk), by rw [E.addEdgeKey_multi hu hv]; exact hm,
      E.addEdgeKey_nodes hu hv _ _⟩

theorem addIfNew_inv {E : List Edge} : ∀ {r : Graph}, WF r → r.multi = false → EndsIn r.nodeIds E →
    (∀ e ∈ E, e.2.2.1 = 0) →
    WF (addIfNew r E) ∧ (addIfNew r E).multi = false ∧ (addIfNew r E).nodes = r.nodes := by
  induction E with
  | nil => intro r w hm _ _; exact ⟨w, hm, rfl⟩
  | cons e E ih =>
    intro r w hm h hk
    have he := h e List.mem_cons_self
    have hs := addIfNew_step w hm he.1 he.2 (hk e List.mem_cons_self)
    rw [addIfNew_cons]
    have hn : ∀ {r' : Graph}, r'.nodes = r.nodes → EndsIn r'.nodeIds E := by
      intro r' hr'; unfold Graph.nodeIds; rw [hr']; exact h.tail
    have := ih hs.1 hs.2.1 (hn hs.2.2) (fun e' he' => hk e' (List.mem_cons_of_mem _ he'))
    exact ⟨this.1, this.2.1, this.2.2.trans hs.2.2⟩

/-- the first bond of a pair wins; an existing bond is kept -/
theorem addIfNew_edgeData {E : List Edge} (a b : Int) : ∀ {r : Graph}, WF r → r.multi = false →
    EndsIn r.nodeIds E → (∀ e ∈ E, e.2.2.1 = 0) →
    (addIfNew r E).edgeData a b = if r.edgeData a b = [] then (sel a b E).take 1 else r.edgeData a b := by
  induction E with
  | nil => intro r _ _ _ _; simp [addIfNew]
  | cons e E ih =>
    intro r w hm h hk
    have he := h e List.mem_cons_self
    have hk0 := hk e List.mem_cons_self
    have hs := addIfNew_step w hm he.1 he.2 hk0
    have hn : ∀ {r' : Graph}, r'.nodes = r.nodes → EndsIn r'.nodeIds E := by
      intro r' hr'; unfold Graph.nodeIds; rw [hr']; exact h.tail
    rw [addIfNew_cons, ih hs.1 hs.2.1 (hn hs.2.2) (fun e' he' => hk e' (List.mem_cons_of_mem _ he')), sel_cons]
    have hc : ((a = e.1 ∧ b = e.2.1) ∨ (a = e.2.1 ∧ b = e.1)) ↔ ((e.1 = a ∧ e.2.1 = b) ∨ (e.1 = b ∧ e.2.1 = a)) := by
      constructor <;> rintro (⟨h1, h2⟩ | ⟨h1, h2⟩)
      · exact Or.inl ⟨h1.symm, h2.symm⟩
      · exact Or.inr ⟨h2.symm, h1.symm⟩
      · exact Or.inl ⟨h1.symm, h2.symm⟩
      · exact Or.inr ⟨h2.symm, h1.symm⟩
    by_cases hm' : (e.1 = a ∧ e.2.1 = b) ∨ (e.1 = b ∧ e.2.1 = a)
    · -- the bond joins the pair
      have hab : r.edgeData e.1 e.2.1 = r.edgeData a b := by
        rcases hm' with ⟨h1, h2⟩ | ⟨h1, h2⟩
        · rw [h1, h2]
        · rw [h1, h2, w.symm]
      cases hh : r.hasEdge e.1 e.2.1
      · have hnil : r.edgeData a b = [] := hab ▸ (hasEdge_false_iff w _ _).mp hh
        simp only [Bool.false_eq_true, if_false, edgeData_addEdgeKey w.rows he.1 he.2, hc, hm', if_true, hnil,
          setKey_fresh (k := e.2.2.1) (kd := []) (by simp [keys])]
        simp
      · have hne : r.edgeData a b ≠ [] := hab ▸ (hasEdge_iff_edgeData w _ _).mp hh
        simp [hne]
    · have : (if r.hasEdge e.1 e.2.1 then r else addEdgeKey r e.1 e.2.1 e.2.2.1 e.2.2.2).edgeData a b
          = r.edgeData a b := by
        split
        · rfl
        · rw [edgeData_addEdgeKey w.rows he.1 he.2]; simp only [hc, hm', if_false]
      rw [this]; simp [hm']


/-! ### lists of edges: filters and renamings under `sel` -/

theorem foldl_unless {α β : Type} (c : α → Bool) (f : β → α → β) (l : List α) : ∀ (init : β),
    l.foldl (fun r e => if c e then r else f r e) init = (l.filter fun e => !c e).foldl f init := by
  induction l with
  | nil => intro init; rfl
  | cons x l ih =>
    intro init
    cases hx : c x
    · simp only [List.foldl_cons, hx, Bool.false_eq_true, if_false, List.filter_cons, Bool.not_false, if_true]
      exact ih _
    · simp only [List.foldl_cons, hx, if_true, List.filter_cons, Bool.not_true, Bool.false_eq_true, if_false]
      exact ih _

/-- a filter on the end points that does not depend on the direction -/
theorem sel_filter (p : Int → Int → Bool) (hp : ∀ u v, p u v = p v u) (E : List Edge) (a b : Int) :
    sel a b (E.filter fun e => p e.1 e.2.1) = if p a b then sel a b E else [] := by
  induction E with
  | nil => simp
  | cons e E ih =>
    by_cases hm : (e.1 = a ∧ e.2.1 = b) ∨ (e.1 = b ∧ e.2.1 = a)
    · have hpe : p e.1 e.2.1 = p a b := by
        rcases hm with ⟨h1, h2⟩ | ⟨h1, h2⟩
        · rw [h1, h2]
        · rw [h1, h2, hp]
      cases hpab : p a b
      · rw [hpab] at hpe
        simp only [List.filter_cons, hpe, Bool.false_eq_true, if_false, ih, hpab]
      · rw [hpab] at hpe
        simp only [List.filter_cons, hpe, if_true, sel_cons, ih, hpab]
    · cases hpe : p e.1 e.2.1
      · simp only [List.filter_cons, hpe, Bool.false_eq_true, if_false, ih, sel_cons, hm, List.nil_append]
      · simp only [List.filter_cons, hpe, if_true, ih, sel_cons, hm, if_false, List.nil_append]

/-- shifting the end points by one, key 0, and a new label that depends on the pair only through `G` -/
theorem sel_shift_map (E : List Edge) (F : Edge → Label) (G : Nat × Label → Nat × Label) (a b : Int)
    (h : ∀ e ∈ E, ((e.1 = a ∧ e.2.1 = b) ∨ (e.1 = b ∧ e.2.1 = a)) → (0, F e) = G (e.2.2.1, e.2.2.2)) :
    sel (a + 1) (b + 1) (E.map fun e => (e.1 + 1, e.2.1 + 1, 0, F e)) = (sel a b E).map G := by
  induction E with
  | nil => simp
  | cons e E ih =>
    rw [List.map_cons, sel_cons, sel_cons, ih (fun e' he' => h e' (List.mem_cons_of_mem _ he'))]
    have hc : ((e.1 + 1 = a + 1 ∧ e.2.1 + 1 = b + 1) ∨ (e.1 + 1 = b + 1 ∧ e.2.1 + 1 = a + 1))
        ↔ ((e.1 = a ∧ e.2.1 = b) ∨ (e.1 = b ∧ e.2.1 = a)) := by omega
    by_cases hm : (e.1 = a ∧ e.2.1 = b) ∨ (e.1 = b ∧ e.2.1 = a)
    · have := h e List.mem_cons_self hm
      simp only [hc, hm, if_true, List.map_append, List.map_cons, List.map_nil, this]
    · simp only [hc, hm, if_false, List.nil_append]


/-! ### `getIts` as two folds over renamed edge lists -/

/-- the ITS node of a node of the reactant graph -/
def liftNode (p : Int × NodeAttr) : Int × NodeAttr :=
  (p.1 + 1, { symbol := p.2.symbol, aam := some (p.1 + 1) })

/-- the ITS graph before any bond is added -/
def itsBase (g : Graph) : Graph :=
  { multi := false, nodes := g.nodes.map liftNode, adj := (g.nodes.map liftNode).map fun n => (n.1, []) }

/-- the order of the first bond of a key dict (0 when there is none) -/
def ordAt (kd : KeyDict) : Int := orderOf ((kd.head?.map (·.2)).getD .nil)

/-- product order `get_its` reads for the pair `u`, `v` -/
def hOrd (h : Graph) (u v : Int) : Int :=
  if h.hasEdge u v then orderOf ((h.bond? u v).getD .nil) else 0

/-- ITS bond of a reactant bond -/
def T1 (h : Graph) (e : Edge) : Edge := (e.1 + 1, e.2.1 + 1, 0, .p (orderOf e.2.2.2) (hOrd h e.1 e.2.1))
/-- ITS bond of a product bond the reactant lacks -/
def T2 (e : Edge) : Edge := (e.1 + 1, e.2.1 + 1, 0, .p 0 (orderOf e.2.2.2))

theorem getIts_eq (g h : Graph) :
    getIts g h = addEdgesFrom (addIfNew (itsBase g) (g.edges.map (T1 h)))
      ((h.edges.filter fun e => !g.hasEdge e.1 e.2.1).map T2) := by
  unfold getIts addEdgesFrom addIfNew
  rw [List.foldl_map, List.foldl_map, ← foldl_unless]
  rfl

theorem hOrd_eq (h : Graph) (u v : Int) : hOrd h u v = ordAt (h.edgeData u v) := by
  unfold hOrd ordAt Graph.bond?
  cases hh : h.hasEdge u v
  · have : h.edgeData u v = [] := by
      refine Classical.byContradiction fun hn => ?_
      have := (hasEdge_iff h u v).mpr (mem_neighbors_of_edgeData hn)
      rw [hh] at this; cases this
    simp [this, orderOf]
  · simp


theorem itsBase_nodeIds (g : Graph) : (itsBase g).nodeIds = g.nodeIds.map (· + 1) := by
  simp [itsBase, Graph.nodeIds, liftNode, Function.comp_def]

theorem itsBase_adjRow (g : Graph) (a : Int) : (itsBase g).adjRow a = [] := by
  rw [adjRow_eq]; exact lk_const_nil (g.nodes.map liftNode) a

theorem itsBase_edgeData (g : Graph) (a b : Int) : (itsBase g).edgeData a b = [] := by
  rw [edgeData_row, itsBase_adjRow]; rfl

theorem WF_itsBase {g : Graph} (hn : g.nodeIds.Nodup) : WF (itsBase g) := by
  refine WF_of_rows_nil ?_ ?_ (itsBase_adjRow g)
  · show ids ((g.nodes.map liftNode).map fun n => (n.1, ([] : Row))) = ids (g.nodes.map liftNode)
    simp [ids, Function.comp_def]
  · rw [itsBase_nodeIds]; exact nodup_map_add hn 1

/-- ITS label of a reactant bond when the product order of the pair is `oh` -/
def G1 (oh : Int) (kl : Nat × Label) : Nat × Label := (0, .p (orderOf kl.2) oh)
/-- ITS label of a product bond the reactant lacks -/
def G2 (kl : Nat × Label) : Nat × Label := (0, .p 0 (orderOf kl.2))

theorem endsIn_T1 {g : Graph} (wg : WF g) (h : Graph) : EndsIn (itsBase g).nodeIds (g.edges.map (T1 h)) := by
  intro e' he'
  rcases List.mem_map.mp he' with ⟨e, he, rfl⟩
  have := edges_endsIn wg e he
  rw [itsBase_nodeIds]
  exact ⟨List.mem_map.mpr ⟨e.1, this.1, rfl⟩, List.mem_map.mpr ⟨e.2.1, this.2, rfl⟩⟩

theorem sel_T1 {g h : Graph} (wg : WF g) (wh : WF h) (a b : Int) :
    sel (a + 1) (b + 1) (g.edges.map (T1 h)) = (g.edgeData a b).map (G1 (ordAt (h.edgeData a b))) := by
  rw [← sel_edges wg a b]
  apply sel_shift_map g.edges (fun e => Label.p (orderOf e.2.2.2) (hOrd h e.1 e.2.1))
  intro e _ hm
  have : hOrd h e.1 e.2.1 = ordAt (h.edgeData a b) := by
    rw [hOrd_eq]
    rcases hm with ⟨h1, h2⟩ | ⟨h1, h2⟩
    · rw [h1, h2]
    · rw [h1, h2, wh.symm]
  simp only [G1, this]

theorem sel_T2 {g h : Graph} (wg : WF g) (wh : WF h) (a b : Int) :
    sel (a + 1) (b + 1) ((h.edges.filter fun e => !g.hasEdge e.1 e.2.1).map T2)
      = if g.edgeData a b = [] then (h.edgeData a b).map G2 else [] := by
  have h1 := sel_shift_map (h.edges.filter fun e => !g.hasEdge e.1 e.2.1) (fun e => Label.p 0 (orderOf e.2.2.2)) G2 a b
    (fun e _ _ => rfl)
  have hp : ∀ u v, (!g.hasEdge u v) = (!g.hasEdge v u) := by
    intro u v
    cases h1 : g.hasEdge u v
    · have := (hasEdge_false_iff wg u v).mp h1
      rw [wg.symm] at this
      rw [(hasEdge_false_iff wg v u).mpr this]
    · have := (hasEdge_iff_edgeData wg u v).mp h1
      rw [wg.symm] at this
      rw [(hasEdge_iff_edgeData wg v u).mpr this]
  have h2 := sel_filter (fun u v => !g.hasEdge u v) hp h.edges a b
  show sel (a + 1) (b + 1) ((h.edges.filter fun e => !g.hasEdge e.1 e.2.1).map
      fun e => (e.1 + 1, e.2.1 + 1, 0, Label.p 0 (orderOf e.2.2.2))) = _
  rw [h1, h2, sel_edges wh a b]
  by_cases hg : g.edgeData a b = []
  · simp [hg, (hasEdge_false_iff wg a b).mpr hg]
  · simp [hg, (hasEdge_iff_edgeData wg a b).mpr hg]


/-- what `get_its` needs of the two graphs: well-formed simple graphs on the same nodes -/
structure ItsOk (g h : Graph) : Prop where
  wg : WF g
  wh : WF h
  nodes : h.nodes = g.nodes
  simple : h.multi = false

/-- after the first loop (the reactant's bonds) -/
def its1 (g h : Graph) : Graph := addIfNew (itsBase g) (g.edges.map (T1 h))

theorem its1_inv {g h : Graph} (o : ItsOk g h) :
    WF (its1 g h) ∧ (its1 g h).multi = false ∧ (its1 g h).nodes = g.nodes.map liftNode :=
  addIfNew_inv (WF_itsBase o.wg.nodup) rfl (endsIn_T1 o.wg h)
    (fun e' he' => by rcases List.mem_map.mp he' with ⟨e, _, rfl⟩; rfl)

theorem its1_edgeData {g h : Graph} (o : ItsOk g h) (a b : Int) :
    (its1 g h).edgeData (a + 1) (b + 1) = ((g.edgeData a b).map (G1 (ordAt (h.edgeData a b)))).take 1 := by
  unfold its1
  rw [addIfNew_edgeData _ _ (WF_itsBase o.wg.nodup) rfl (endsIn_T1 o.wg h)
    (fun e' he' => by rcases List.mem_map.mp he' with ⟨e, _, rfl⟩; rfl)]
  rw [itsBase_edgeData, sel_T1 o.wg o.wh]
  simp

theorem endsIn_T2 {g h : Graph} (o : ItsOk g h) :
    EndsIn (its1 g h).nodeIds ((h.edges.filter fun e => !g.hasEdge e.1 e.2.1).map T2) := by
  intro e' he'
  rcases List.mem_map.mp he' with ⟨e, he, rfl⟩
  have := edges_endsIn o.wh e (List.mem_filter.mp he).1
  have hids : (its1 g h).nodeIds = g.nodeIds.map (· + 1) := by
    unfold Graph.nodeIds; rw [(its1_inv o).2.2]; simp [liftNode, Function.comp_def]
  have hn : h.nodeIds = g.nodeIds := by unfold Graph.nodeIds; rw [o.nodes]
  rw [hids, ← hn]
  exact ⟨List.mem_map.mpr ⟨e.1, this.1, rfl⟩, List.mem_map.mpr ⟨e.2.1, this.2, rfl⟩⟩

theorem getIts_eq' (g h : Graph) :
    getIts g h = addEdgesFrom (its1 g h) ((h.edges.filter fun e => !g.hasEdge e.1 e.2.1).map T2) := getIts_eq g h

theorem WF_getIts {g h : Graph} (o : ItsOk g h) : WF (getIts g h) := by
  rw [getIts_eq']
  exact WF_addEdgesFrom (its1_inv o).1 (endsIn_T2 o)
    (fun _ e' he' => by rcases List.mem_map.mp he' with ⟨e, _, rfl⟩; rfl)

theorem getIts_nodes {g h : Graph} (o : ItsOk g h) : (getIts g h).nodes = g.nodes.map liftNode := by
  rw [getIts_eq', E.addEdgesFrom_nodes (endsIn_T2 o)]; exact (its1_inv o).2.2

/-- the bond of the ITS between the map numbers of `a` and `b` -/
theorem getIts_edgeData {g h : Graph} (o : ItsOk g h) (a b : Int) :
    (getIts g h).edgeData (a + 1) (b + 1)
      = if g.edgeData a b = [] then (h.edgeData a b).map G2
        else ((g.edgeData a b).map (G1 (ordAt (h.edgeData a b)))).take 1 := by
  rw [getIts_eq']
  have hsel := sel_T2 o.wg o.wh a b
  have h1 := its1_edgeData o a b
  rw [edgeData_addEdgesFrom (its1_inv o).1.rows (endsIn_T2 o), h1, hsel]
  · by_cases hg : g.edgeData a b = []
    · simp [hg]
    · simp [hg]
  · rw [h1, hsel]
    by_cases hg : g.edgeData a b = []
    · simp only [hg, List.map_nil, List.take_nil, List.nil_append, if_true]
      rcases simple_edgeData o.wh o.simple a b with hh | ⟨l, hh⟩
      · simp [hh, keys]
      · simp [hh, keys]
    · simp only [hg, if_false, List.append_nil]
      cases hd : g.edgeData a b with
      | nil => exact absurd hd hg
      | cons x xs => simp [keys]

end C15.P
