import FGVerif.Proofs.C16Enum
namespace C16

/-! ### monomorphisms, declaratively -/

/-- two mappings are the same function (same set of pairs) -/
def SameMap (a b : Match) : Prop := ∀ p, p ∈ a ↔ p ∈ b

/-- `m` (reactant node ↦ rule node) is a label- and bond-preserving monomorphism of `l` into `g`:
    an injective function, defined exactly onto the nodes of `l`, atoms carry the symbols of the
    rule nodes, every edge of `l` lies over a bond of `g` with the same order -/
structure IsMono (g l : MolGraph) (m : Match) : Prop where
  inj : MatchInj m
  dom : ∀ x, x ∈ m.map (·.2) ↔ x ∈ l.nodeIds
  sym : ∀ p ∈ m, ∃ s, (p.1, s) ∈ g.nodes ∧ (p.2, s) ∈ l.nodes
  bond : ∀ e ∈ l.edges, ∃ u v, (u, e.1) ∈ m ∧ (v, e.2.1) ∈ m ∧ g.bond? u v = some e.2.2

theorem IsMono.of_sameMap {g l : MolGraph} {a b : Match} (h : IsMono g l a) (hs : SameMap a b) (hb : MatchInj b) :
    IsMono g l b := by
  refine ⟨hb, ?_, ?_, ?_⟩
  · intro x
    rw [← h.dom x]
    simp only [List.mem_map]
    constructor
    · rintro ⟨p, hp, rfl⟩; exact ⟨p, (hs p).mpr hp, rfl⟩
    · rintro ⟨p, hp, rfl⟩; exact ⟨p, (hs p).mp hp, rfl⟩
  · intro p hp; exact h.sym p ((hs p).mpr hp)
  · intro e he
    obtain ⟨u, v, h1, h2, h3⟩ := h.bond e he
    exact ⟨u, v, (hs _).mp h1, (hs _).mp h2, h3⟩

theorem forall2_mem_left {α β : Type} {R : α → β → Prop} {as : List α} {bs : List β} (h : Forall2 R as bs) :
    ∀ a ∈ as, ∃ b ∈ bs, R a b := by
  induction h with
  | nil => intro a ha; simp at ha
  | cons h1 _ ih =>
    intro a ha
    rcases List.mem_cons.mp ha with rfl | hm
    · exact ⟨_, by simp, h1⟩
    · obtain ⟨b, hb, hr⟩ := ih a hm; exact ⟨b, List.mem_cons_of_mem _ hb, hr⟩

theorem forall2_mem_right {α β : Type} {R : α → β → Prop} {as : List α} {bs : List β} (h : Forall2 R as bs) :
    ∀ b ∈ bs, ∃ a ∈ as, R a b := by
  induction h with
  | nil => intro b hb; simp at hb
  | cons h1 _ ih =>
    intro b hb
    rcases List.mem_cons.mp hb with rfl | hm
    · exact ⟨_, by simp, h1⟩
    · obtain ⟨a, ha, hr⟩ := ih b hm; exact ⟨a, List.mem_cons_of_mem _ ha, hr⟩

theorem relN_vals (gnodes : List (Int × String)) {m : Match} {lnodes : List (Int × String)}
    (h : Forall2 (RelN gnodes) m lnodes) : m.map (·.2) = lnodes.map (·.1) := by
  induction h with
  | nil => rfl
  | cons h1 _ ih => simp [ih, h1.1]

theorem ids_unique (L : List (Int × String)) (hn : (L.map (·.1)).Nodup) (a : Int) (s s' : String)
    (h1 : (a, s) ∈ L) (h2 : (a, s') ∈ L) : s = s' := by
  induction L with
  | nil => simp at h1
  | cons n L ih =>
    rw [List.map_cons, List.nodup_cons] at hn
    rcases List.mem_cons.mp h1 with e1 | m1 <;> rcases List.mem_cons.mp h2 with e2 | m2
    · rw [← e1] at e2; exact (Prod.mk.inj e2).2.symm
    · exfalso; apply hn.1; rw [← e1]; exact List.mem_map.mpr ⟨(a, s'), m2, rfl⟩
    · exfalso; apply hn.1; rw [← e2]; exact List.mem_map.mpr ⟨(a, s), m1, rfl⟩
    · exact ih hn.2 m1 m2

theorem relN_of (gnodes L : List (Int × String)) (hL : (L.map (·.1)).Nodup) :
    ∀ (lnodes : List (Int × String)) (m : Match), (∀ n ∈ lnodes, n ∈ L) →
      m.map (·.2) = lnodes.map (·.1) → (∀ p ∈ m, ∃ s, (p.1, s) ∈ gnodes ∧ (p.2, s) ∈ L) →
      Forall2 (RelN gnodes) m lnodes := by
  intro lnodes
  induction lnodes with
  | nil =>
    intro m _ hv _
    have : m = [] := by simpa using hv
    subst this; exact Forall2.nil
  | cons n rest ih =>
    intro m hsub hv hsym
    cases m with
    | nil => simp at hv
    | cons p m' =>
      rw [List.map_cons, List.map_cons] at hv
      obtain ⟨hp, hrest⟩ := List.cons.inj hv
      refine Forall2.cons ⟨hp, ?_⟩ (ih m' (fun n' hn' => hsub n' (List.mem_cons_of_mem _ hn')) hrest
        (fun q hq => hsym q (List.mem_cons_of_mem _ hq)))
      obtain ⟨s, hs1, hs2⟩ := hsym p (by simp)
      have hn : (n.1, n.2) ∈ L := hsub n (by simp)
      rw [hp] at hs2
      have := ids_unique L hL n.1 s n.2 hs2 hn
      rw [← this]; exact hs1

theorem mem_monos_isMono (g l : MolGraph) (hl : l.nodeIds.Nodup) (m : Match) (h : m ∈ monos g l) :
    IsMono g l m ∧ m.map (·.2) = l.nodeIds := by
  unfold monos at h
  obtain ⟨henum, hb⟩ := List.mem_filter.mp h
  obtain ⟨hf, hk, _⟩ := (mem_enumInj g.nodes l.nodes [] m).mp henum
  have hv : m.map (·.2) = l.nodeIds := relN_vals g.nodes hf
  have hinj : MatchInj m := ⟨hk, by rw [hv]; exact hl⟩
  refine ⟨⟨hinj, fun x => by rw [hv], ?_, ?_⟩, hv⟩
  · intro p hp
    obtain ⟨n, hn, h1, h2⟩ := forall2_mem_left hf p hp
    refine ⟨n.2, h2, ?_⟩
    rw [h1]; exact hn
  · intro e he
    unfold bondsOk at hb
    have := List.all_eq_true.mp hb e he
    cases h1 : invM m e.1 with
    | none => simp [h1] at this
    | some u =>
      cases h2 : invM m e.2.1 with
      | none => simp [h1, h2] at this
      | some v =>
        simp only [h1, h2, beq_iff_eq] at this
        exact ⟨u, v, invM_some_mem m u e.1 h1, invM_some_mem m v e.2.1 h2, this⟩

theorem isMono_mem_monos (g l : MolGraph) (hl : l.nodeIds.Nodup) (m : Match) (h : IsMono g l m)
    (hv : m.map (·.2) = l.nodeIds) : m ∈ monos g l := by
  unfold monos
  refine List.mem_filter.mpr ⟨(mem_enumInj g.nodes l.nodes [] m).mpr ⟨?_, h.inj.keys, fun _ _ => by simp⟩, ?_⟩
  · exact relN_of g.nodes l.nodes hl l.nodes m (fun _ hn => hn) hv h.sym
  · unfold bondsOk
    rw [List.all_eq_true]
    intro e he
    obtain ⟨u, v, h1, h2, h3⟩ := h.bond e he
    rw [invM_of_mem m h.inj.vals u e.1 h1, invM_of_mem m h.inj.vals v e.2.1 h2]
    simp [h3]

end C16
