import FGVerif.Proofs.C14EnumB
/-!
  C14 — "exactly one graph per combination of choices", at full strength.

  `Model/C14Choice.lean` defines, without the working-set loop, the choice combinations of a pattern (`Choice`,
  `allChoices cfg pattern`: cartesian product over the group nodes / concatenation over the graphs of a group, the
  count formula read on lists) and the expansion of the pattern under one combination (`expand`).  Theorems here, for
  every configuration with well-formed patterns (`cfgOk`) and an acyclicity certificate (`acyclicB`), every core with
  ids `0..n-1` and a closed adjacency, every fuel:

  * `C14.allChoices_length`        `(allChoices cfg p).length = numExp cfg p` (part A; no hypothesis at all)
  * `C14.enumeration_exact`        `buildGraphs cfg fuel core = .ok res → res ~ (allChoices cfg core).map (expand cfg core)`:
                                   the results of `build_graphs` are, as a multiset of graphs (equality of graphs: ids, node
                                   order, adjacency order), exactly the expansions of the combinations — every combination
                                   once, nothing else.  (Two combinations may expand to equal graphs; then that graph occurs
                                   once per combination.)
  * `C14.enumeration_exact_traced` the same for the traced loop `buildGraphsT` and the traced expansion `expandT`
  * `C14.enumeration_mem`          `g ∈ res ↔ ∃ cs ∈ allChoices cfg core, expand cfg core cs = g`
  * `C14.enumeration_total`        `generate cfg fuel aam cores = .ok out →
                                     out ~ cores.flatMap fun c => (allChoices cfg c).map fun cs => finish aam (expand cfg c cs)`
                                   (`iter(Proxy)`, unique core sampler: every core once)
  * `C14.count_of_enumeration`, `C14.total_of_enumeration`   `count` / `total` re-derived as corollaries (consistency)

  What is NOT proved: the ORDER of the results.  `build_graphs` returns them level-synchronously (all combinations
  with `k` substitutions before those with `k+1`, within a level in working-set order); `allChoices` is in
  lexicographic product order.  The statement is therefore a permutation (`List.Perm`), which is all the property
  ("one graph per combination", "the multiset of results") speaks of; the harness compares enumerations as sorted
  lists accordingly.
-/
namespace C14
open C13

/-- **exact enumeration, traced**: the traced results of `build_graphs` are exactly the traced expansions of all
    choice combinations of the core -/
theorem enumeration_exact_traced (cfg : Config) (fuel : Nat) (core : Graph) (ts : List (Graph × Trace))
    (hcfg : cfgOk cfg = true) (hac : acyclicB (toRef cfg) = true)
    (hcore : closedB core = true ∧ contiguous core = true)
    (h : buildGraphsT cfg fuel core = .ok ts) :
    ts.Perm ((allChoices cfg core).map (expandT cfg core)) := by
  unfold buildGraphsT at h
  have := N.buildLoopT_enum hcfg hac fuel _ [] ts h (fun gt hgt => by
    rw [List.mem_singleton.mp hgt]; exact P.inv_of_core hcore)
  simp only [List.flatMap_cons, List.flatMap_nil, List.append_nil, List.nil_append, N.E] at this
  exact this

/-- **exact enumeration**: `build_graphs(core)` returns, up to the order of the list, exactly
    `(allChoices cfg core).map (expand cfg core)` — one graph per choice combination and nothing else -/
theorem enumeration_exact (cfg : Config) (fuel : Nat) (core : Graph) (res : List Graph)
    (hcfg : cfgOk cfg = true) (hac : acyclicB (toRef cfg) = true)
    (hcore : closedB core = true ∧ contiguous core = true)
    (h : buildGraphs cfg fuel core = .ok res) :
    res.Perm ((allChoices cfg core).map (expand cfg core)) := by
  have hp := traced_projection cfg fuel core
  rw [h] at hp
  cases ht : buildGraphsT cfg fuel core with
  | error e => rw [ht] at hp; cases hp
  | ok ts =>
    rw [ht] at hp
    have hres : ts.map (·.1) = res := by simpa [Except.map] using hp
    have := (enumeration_exact_traced cfg fuel core ts hcfg hac hcore ht).map (·.1)
    rw [hres, List.map_map] at this
    refine this.trans (List.Perm.of_eq ?_)
    apply List.map_congr_left
    intro cs _
    exact N.expandT_fst cfg core cs

/-- every result is the expansion of a combination and the expansion of every combination is a result -/
theorem enumeration_mem (cfg : Config) (fuel : Nat) (core : Graph) (res : List Graph)
    (hcfg : cfgOk cfg = true) (hac : acyclicB (toRef cfg) = true)
    (hcore : closedB core = true ∧ contiguous core = true)
    (h : buildGraphs cfg fuel core = .ok res) (g : Graph) :
    g ∈ res ↔ ∃ cs ∈ allChoices cfg core, expand cfg core cs = g := by
  rw [(enumeration_exact cfg fuel core res hcfg hac hcore h).mem_iff, List.mem_map]

/-- `count`, re-derived from the exact enumeration -/
theorem count_of_enumeration (cfg : Config) (fuel : Nat) (core : Graph) (res : List Graph)
    (hcfg : cfgOk cfg = true) (hac : acyclicB (toRef cfg) = true)
    (hcore : closedB core = true ∧ contiguous core = true)
    (h : buildGraphs cfg fuel core = .ok res) : res.length = numExp cfg core := by
  rw [(enumeration_exact cfg fuel core res hcfg hac hcore h).length_eq, List.length_map, allChoices_length]

/-- all samples of `iter(Proxy)`, declaratively: for every core graph (once, in order) the finished expansion of every
    choice combination -/
def allSamples (cfg : Config) (enableAam : Bool) (cores : List Graph) : List Graph :=
  cores.flatMap fun c => (allChoices cfg c).map fun cs => finish enableAam (expand cfg c cs)

/-- **exact enumeration of `iter(Proxy)`** (unique core sampler): the samples are, up to order, exactly the finished
    expansions of all choice combinations of all core graphs -/
theorem enumeration_total (cfg : Config) (fuel : Nat) (aam : Bool) (cores : List Graph) (out : List Graph)
    (hcfg : cfgOk cfg = true) (hac : acyclicB (toRef cfg) = true)
    (hcores : ∀ c ∈ cores, closedB c = true ∧ contiguous c = true)
    (h : generate cfg fuel aam cores = .ok out) : out.Perm (allSamples cfg aam cores) := by
  induction cores generalizing out with
  | nil =>
    simp only [generate] at h
    injection h with h
    subst h
    exact List.Perm.refl _
  | cons core rest ih =>
    simp only [generate, bind, Except.bind] at h
    cases hb : buildGraphs cfg fuel core with
    | error e => rw [hb] at h; cases h
    | ok gs =>
      rw [hb] at h
      cases hg : generate cfg fuel aam rest with
      | error e => rw [hg] at h; cases h
      | ok more =>
        rw [hg] at h
        simp only [pure, Except.pure] at h
        injection h with h
        subst h
        have h1 := (enumeration_exact cfg fuel core gs hcfg hac (hcores core List.mem_cons_self) hb).map (finish aam)
        have h2 := ih more (fun c hc => hcores c (List.mem_cons_of_mem _ hc)) hg
        rw [List.map_map] at h1
        unfold allSamples
        rw [List.flatMap_cons]
        exact List.Perm.append h1 h2

theorem allSamples_length (cfg : Config) (aam : Bool) (cores : List Graph) :
    (allSamples cfg aam cores).length = totalExp cfg cores := by
  induction cores with
  | nil => rfl
  | cons c rest ih =>
    unfold allSamples at ih ⊢
    rw [List.flatMap_cons, List.length_append, ih, List.length_map, allChoices_length]
    simp only [totalExp, totalExpRef, graphsExp, List.map_cons, List.sum_cons]
    rfl

/-- `total`, re-derived from the exact enumeration -/
theorem total_of_enumeration (cfg : Config) (fuel : Nat) (aam : Bool) (cores : List Graph) (out : List Graph)
    (hcfg : cfgOk cfg = true) (hac : acyclicB (toRef cfg) = true)
    (hcores : ∀ c ∈ cores, closedB c = true ∧ contiguous c = true)
    (h : generate cfg fuel aam cores = .ok out) : out.length = totalExp cfg cores := by
  rw [(enumeration_total cfg fuel aam cores out hcfg hac hcores h).length_eq, allSamples_length]

/-! ### non-vacuity (tests on concrete inputs; labelled as tests) -/
section Examples

private def atom (s : String) : PGraph :=
  { pattern := { nodes := [(0, { symbol := some s })], adj := [(0, [])] }, anchors := [0] }

private def lbl (l : String) : NodeAttr := { symbol := some "#", labels := some [l], isLabeled := some true }

/-- nested groups: `a` is `C-{b}` or `N`, `b` is `O` or `S`; core `{a}-{b}` -/
private def cfg2 : Config :=
  [{ key := "a", name := "a", graphs :=
      [{ pattern := { nodes := [(0, { symbol := some "C" }), (1, lbl "b")],
                      adj := [(0, [(1, [(0, .s 2)])]), (1, [(0, [(0, .s 2)])])] }, anchors := [0] },
       atom "N"] },
   { key := "b", name := "b", graphs := [atom "O", atom "S"] }]

private def core2 : Graph :=
  { nodes := [(0, lbl "a"), (1, lbl "b")],
    adj := [(0, [(1, [(0, .s 2)])]), (1, [(0, [(0, .s 2)])])] }

private def shape : Choice → List Nat
  | .node i subs => i :: (subs.map fun _ => 99)

/-- six combinations: `{a}` → (graph 0, then `{b}` → O | S) | graph 1, times `{b}` → O | S -/
example : (allChoices cfg2 core2).length = 6 ∧ numExp cfg2 core2 = 6 ∧
    (allChoices cfg2 core2).map (fun cs => cs.map shape)
      = [[[0, 99], [0]], [[0, 99], [1]], [[0, 99], [0]], [[0, 99], [1]], [[1], [0]], [[1], [1]]] := by decide

/-- the expansions, in `allChoices` order … -/
example : (allChoices cfg2 core2).map (fun cs => symbolsOf (expand cfg2 core2 cs))
    = [["C", "O", "O"], ["C", "S", "O"], ["C", "O", "S"], ["C", "S", "S"], ["N", "O"], ["N", "S"]] := by decide

/-- … and what the loop returns (level-synchronous order: the two-substitution results first) -/
example : (buildGraphs cfg2 10 core2).toOption.map (·.map symbolsOf)
    = some [["N", "O"], ["N", "S"], ["C", "O", "O"], ["C", "O", "S"], ["C", "S", "O"], ["C", "S", "S"]] := by decide

/-! the order of the substitutions is observable (why `expand` fixes it): core `{a}-{b}-S`, `a = [C]`,
    `b = [N-O with anchors [0, 1]]`.  First `{a}` then `{b}` (the order of `expand` and of the real code): the bond of
    `{b}` to the new `C` has moved to the END of `{b}`'s adjacency row, so `S` (now the first incident bond) goes to
    anchor 0 = `N`, `C` to anchor 1 = `O`.  First `{b}` then `{a}`: `C-N`, `S-O`. -/

private def no2 : PGraph :=
  { pattern := { nodes := [(0, { symbol := some "N" }), (1, { symbol := some "O" })],
                 adj := [(0, [(1, [(0, .s 2)])]), (1, [(0, [(0, .s 2)])])] }, anchors := [0, 1] }

private def cfg4 : Config :=
  [{ key := "a", name := "a", graphs := [atom "C"] }, { key := "b", name := "b", graphs := [no2] }]

private def core4 : Graph :=
  { nodes := [(0, lbl "a"), (1, lbl "b"), (2, { symbol := some "S" })],
    adj := [(0, [(1, [(0, .s 2)])]), (1, [(0, [(0, .s 2)]), (2, [(0, .s 2)])]), (2, [(1, [(0, .s 2)])])] }

/-- symbols of the neighbours of the nodes with symbol `s` -/
private def nbrSyms (g : Graph) (s : String) : List String :=
  (g.nodes.filter fun p => p.2.symbol == some s).flatMap fun p => (g.neighbors p.1).map fun v => (g.symbol? v).getD ""

example : cfgOk cfg4 = true ∧ acyclicB (toRef cfg4) = true ∧ closedB core4 = true ∧ contiguous core4 = true ∧
    (allChoices cfg4 core4).length = 1 := by decide

/-- **the order of independent substitutions matters**: the same choices substituted in the other order give a
    graph that is not isomorphic to the one the enumeration contains -/
theorem substitution_order_matters :
    (allChoices cfg4 core4).map (fun cs => nbrSyms (expand cfg4 core4 cs) "S") = [["N"]] ∧
    (buildGraphs cfg4 10 core4).toOption.map (·.map fun g => nbrSyms g "S") = some [["N"]] ∧
    nbrSyms (replaceNode (replaceNode core4 1 no2.pattern no2.anchors) 0 (atom "C").pattern (atom "C").anchors) "S"
      = ["O"] := by decide

end Examples

end C14
