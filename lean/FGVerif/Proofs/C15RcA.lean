import FGVerif.Model.C15Rc
import FGVerif.Proofs.C14Iter
/-!
  C15 reaction centre, part A: the declarative statement `DACycle` / `DAShape`, soundness of the executable
  check `daCycleB`, and the GENERAL one-substitution lemma `rc_step`: replacing a node none of whose bonds
  changes by a pattern none of whose bonds changes leaves the changing bonds where they were, under the
  renaming `C13.ren` of the surviving nodes (a statement about `C13.replaceNode`, any graph, any pattern).
-/
set_option linter.unusedSimpArgs false
set_option linter.unusedVariables false
namespace C15
open C13 C14 Graph C13.E

/-! ### the statement -/

/-- `c` is the reaction centre of `g`, and it is a Diels-Alder centre: six distinct carbons; consecutive ones
    (cyclically) are joined by exactly one bond; the six labels are two forming bonds `(0,1)`, one `(1,2)` and
    three bonds dropping by one order (`(2,1)` three times, or twice and one `(3,2)`); and no other pair of
    names carries a changing label.  Orders are doubled. -/
structure DACycle (g : Graph) (c : List Int) : Prop where
  len : c.length = 6
  distinct : c.Pairwise (· ≠ ·)
  carbon : ∀ n ∈ c, n ∈ g.nodeIds ∧ ∀ p ∈ g.nodes, p.1 = n → p.2.symbol = some "C"
  single : ∀ p ∈ cycPairs c, (labelsBetween g p.1 p.2).length = 1
  labels : daLabels (cycleLabels g c) = true
  only : ∀ (a b : Int) (l : Label), l ∈ labelsBetween g a b → changing l = true → cycEdge c a b = true

/-- the reaction centre of `g` is a single six-membered carbon cycle with the Diels-Alder labels -/
def DAShape (g : Graph) : Prop := ∃ c, DACycle g c

/-! ### small facts -/

theorem pairwiseNe_iff (l : List Int) : pairwiseNe l = true ↔ l.Pairwise (· ≠ ·) := by
  induction l with
  | nil => simp [pairwiseNe]
  | cons x xs ih =>
    simp only [pairwiseNe, Bool.and_eq_true, Bool.not_eq_true', ih, List.pairwise_cons]
    constructor
    · rintro ⟨h1, h2⟩
      refine ⟨fun y hy e => ?_, h2⟩
      subst e
      have : xs.contains x = true := by simpa using hy
      rw [this] at h1; cases h1
    · rintro ⟨h1, h2⟩
      refine ⟨?_, h2⟩
      cases hc : xs.contains x with
      | false => rfl
      | true => exact absurd rfl (h1 x (by simpa using hc))

theorem cycEdge_iff (c : List Int) (a b : Int) :
    cycEdge c a b = true ↔ ∃ p ∈ cycPairs c, (p.1 = a ∧ p.2 = b) ∨ (p.1 = b ∧ p.2 = a) := by
  simp [cycEdge, List.any_eq_true]

theorem cycPairs_map (f : Int → Int) (c : List Int) :
    cycPairs (c.map f) = (cycPairs c).map fun p => (f p.1, f p.2) := by
  unfold cycPairs
  rw [← List.map_drop, ← List.map_take, ← List.map_append, List.zip_map]
  rfl

theorem mem_cycPairs {c : List Int} {p : Int × Int} (h : p ∈ cycPairs c) : p.1 ∈ c ∧ p.2 ∈ c := by
  unfold cycPairs at h
  have h2 := List.of_mem_zip h
  refine ⟨h2.1, ?_⟩
  rcases List.mem_append.mp h2.2 with h3 | h3
  · exact List.mem_of_mem_drop h3
  · exact List.mem_of_mem_take h3

theorem cycEdge_mem {c : List Int} {a b : Int} (h : cycEdge c a b = true) : a ∈ c ∧ b ∈ c := by
  obtain ⟨p, hp, h1 | h1⟩ := (cycEdge_iff c a b).mp h
  · rw [← h1.1, ← h1.2]; exact mem_cycPairs hp
  · rw [← h1.1, ← h1.2]; exact (mem_cycPairs hp).symm

/-- a label between two names sits in some adjacency entry -/
theorem noChanging_labels {g : Graph} (h : noChanging g = true) (a b : Int) (l : Label)
    (hl : l ∈ labelsBetween g a b) : changing l = false := by
  unfold noChanging at h
  simp only [List.all_eq_true, Bool.not_eq_true'] at h
  unfold labelsBetween Graph.edgeData Graph.adjRow at hl
  cases hf : g.adj.find? (·.1 == a) with
  | none => rw [hf] at hl; simp at hl
  | some r =>
    rw [hf] at hl
    simp only at hl
    cases hf2 : r.2.find? (·.1 == b) with
    | none => rw [hf2] at hl; simp at hl
    | some e =>
      rw [hf2] at hl
      obtain ⟨kd, hkd, rfl⟩ := List.mem_map.mp hl
      exact h r (List.mem_of_find?_eq_some hf) e (List.mem_of_find?_eq_some hf2) kd hkd

theorem labels_mem_nodes {g : Graph} (w : WF g) {a b : Int} {l : Label} (hl : l ∈ labelsBetween g a b) :
    a ∈ g.nodeIds ∧ b ∈ g.nodeIds := by
  have hne : g.edgeData a b ≠ [] := by
    intro e; unfold labelsBetween at hl; rw [e] at hl; simp at hl
  exact ⟨w.left_mem hne, w.right_mem hne⟩

/-- soundness of the executable check -/
theorem daCycleB_sound {g : Graph} {c : List Int} (hw : wf g = true) (h : daCycleB g c = true) : DACycle g c := by
  have w := WF_of_wf hw
  unfold daCycleB at h
  simp only [Bool.and_eq_true, beq_iff_eq, List.all_eq_true] at h
  obtain ⟨⟨⟨⟨⟨h1, h2⟩, h3⟩, h4⟩, h5⟩, h6⟩ := h
  refine ⟨h1, (pairwiseNe_iff c).mp h2, ?_, h4, h5, ?_⟩
  · intro n hn
    have := h3 n hn
    unfold isCarbonAt at this
    simp only [Bool.and_eq_true, List.all_eq_true, Bool.or_eq_true, bne_iff_ne, ne_eq, beq_iff_eq,
      List.contains_iff_mem] at this
    refine ⟨by simpa using this.1, fun p hp e => ?_⟩
    rcases this.2 p hp with h7 | h7
    · exact absurd e h7
    · exact h7
  · intro a b l hl hch
    obtain ⟨ha, hb⟩ := labels_mem_nodes w hl
    have := h6 a ha b hb l hl
    rw [hch] at this
    simpa using this

/-! ### the incident list of the replaced node -/

theorem incSpec_label {g : Graph} (w : WF g) {x p : Int} {l : Label} (h : (p, l) ∈ incSpec g x) :
    l ∈ labelsBetween g p x ∨ l ∈ labelsBetween g x p := by
  unfold incSpec at h
  rcases List.mem_append.mp h with h | h
  · obtain ⟨m, _, hm⟩ := List.mem_flatMap.mp h
    obtain ⟨kd, hkd, e⟩ := List.mem_map.mp hm
    left
    cases e
    exact List.mem_map.mpr ⟨kd, hkd, rfl⟩
  · obtain ⟨r, hr, hm⟩ := List.mem_flatMap.mp h
    obtain ⟨kd, hkd, e⟩ := List.mem_map.mp hm
    right
    cases e
    have hr' : r ∈ g.adjRow x := (List.mem_filter.mp hr).1
    have : g.edgeData x r.1 = r.2 := by
      rw [edgeData_row]; exact lk_of_mem_nodup (w.nbrNodup x) hr'
    unfold labelsBetween
    rw [this]
    exact List.mem_map.mpr ⟨kd, hkd, rfl⟩

theorem crossLabels_label {g : Graph} (w : WF g) {x : Int} {anchors : List Nat} {p j : Int} {l : Label}
    (h : l ∈ crossLabels g x anchors p j) : l ∈ labelsBetween g p x ∨ l ∈ labelsBetween g x p := by
  unfold crossLabels crossLabelsOf at h
  obtain ⟨e, he, hc⟩ := List.mem_filterMap.mp h
  split at hc
  · rename_i hcond
    simp only [Bool.and_eq_true, beq_iff_eq] at hcond
    cases hc
    have hmem : e.1 ∈ incSpec g x := by
      have := List.mem_zipIdx he
      rcases e with ⟨e1, e2⟩
      simp only at this ⊢
      rw [this.2.2]
      exact List.getElem_mem _
    apply incSpec_label w (x := x)
    rw [← hcond.1]
    exact hmem
  · cases hc

/-! ### arithmetic of the renaming -/

theorem ren_unren (x a : Int) : ren x (unren x a) = a := by
  unfold ren unren
  by_cases h : a < x
  · simp [h]
  · simp only [h, if_false]; split <;> omega

theorem unren_ne (x a : Int) : unren x a ≠ x := by
  unfold unren; split <;> omega

theorem ren_inj {x u v : Int} (hu : u ≠ x) (hv : v ≠ x) (h : ren x u = ren x v) : u = v := by
  have := congrArg (unren x) h
  rwa [Q.unren_ren hu, Q.unren_ren hv] at this

theorem ren_lt {x u n : Int} (hx : 0 ≤ x ∧ x < n) (hu : u < n) (hne : u ≠ x) : ren x u < n - 1 := by
  unfold ren; split <;> omega

/-! ### the general one-substitution lemma -/

/-- what `inDomain` says, unpacked -/
theorem inDomain_parts {g : Graph} {x : Int} {sub : Graph} {anchors : List Nat} (hd : inDomain g x sub anchors = true) :
    wf g = true ∧ contiguous g = true ∧ g.hasNode x = true ∧ wf sub = true ∧ contiguous sub = true := by
  simp only [inDomain, Bool.and_eq_true] at hd
  exact ⟨hd.1.1.1.1.1.1.1, hd.1.1.1.1.1.1.2, hd.1.1.1.1.1.2, hd.1.1.1.2, hd.1.1.2⟩

/-- **one substitution leaves the reaction centre alone (any graph, any pattern).**  If no bond of the
    replaced node `x` changes and no bond of the inserted pattern changes, the changing bonds of the result are
    exactly the changing bonds of the parent under the renaming of the surviving nodes: between two surviving
    nodes the same labels as before, and no changing label anywhere else. -/
theorem rc_step {g : Graph} {x : Int} {sub : Graph} {anchors : List Nat}
    (hd : inDomain g x sub anchors = true) (hs : noChanging sub = true)
    (hx : ∀ (p : Int) (l : Label), l ∈ labelsBetween g p x ∨ l ∈ labelsBetween g x p → changing l = false)
    (a b : Int) :
    (labelsBetween (replaceNode g x sub anchors) a b).filter changing
      = if a < (g.nodes.length : Int) - 1 ∧ b < (g.nodes.length : Int) - 1
        then (labelsBetween g (unren x a) (unren x b)).filter changing else [] := by
  obtain ⟨hw, _, _, _, _⟩ := inDomain_parts hd
  have w := WF_of_wf hw
  rw [replace_labels g x sub anchors hd a b]
  unfold specLabels
  simp only
  have none_of : ∀ (L : List Label), (∀ l ∈ L, changing l = false) → L.filter changing = [] := by
    intro L hL
    apply List.filter_eq_nil_iff.mpr
    intro l hl; rw [hL l hl]; simp
  split
  · rfl
  · split
    · exact none_of _ fun l hl => noChanging_labels hs _ _ l hl
    · split
      · rfl
      · split
        · exact none_of _ fun l hl => hx _ l (crossLabels_label w hl)
        · exact none_of _ fun l hl => hx _ l (crossLabels_label w hl)

/-- between two surviving nodes the labels are the parent's -/
theorem labels_ren {g : Graph} {x : Int} {sub : Graph} {anchors : List Nat}
    (hd : inDomain g x sub anchors = true) {u v : Int} (hu : u ∈ g.nodeIds) (hv : v ∈ g.nodeIds)
    (hux : u ≠ x) (hvx : v ≠ x) :
    labelsBetween (replaceNode g x sub anchors) (ren x u) (ren x v) = labelsBetween g u v := by
  obtain ⟨_, hc, hxn, _, _⟩ := inDomain_parts hd
  obtain ⟨pu, hpu, rfl⟩ := List.mem_map.mp hu
  obtain ⟨pv, hpv, rfl⟩ := List.mem_map.mp hv
  obtain ⟨px, hpx, hpx1⟩ := List.mem_map.mp ((E.hasNode_iff g x).mp hxn)
  have rx := Q.contiguous_range hc hpx
  simp only [hpx1] at rx
  have ru := Q.contiguous_range hc hpu
  have rv := Q.contiguous_range hc hpv
  rw [replace_labels g x sub anchors hd]
  unfold specLabels
  simp only [ren_lt rx ru.2 hux, ren_lt rx rv.2 hvx, and_self, if_true, Q.unren_ren hux, Q.unren_ren hvx]

end C15
