import FGVerif.Proofs.C14CountC
/-!
  C14 — proxy expansion is exhaustive and conservative: counting, invariants, termination.

  Theorems about `Model/C14.lean` (`buildGraphs` = `build_graphs`, `generate` = `Proxy.__generate`):

  * `C14.no_group_label_left`  no result carries a configured group label (any configuration, any fuel)
  * `C14.contiguous_ids`       every result has ids `0..n-1` in order and a closed adjacency
  * `C14.count`                `|build_graphs(core)| = numExp cfg core` (product over the group nodes of
                               the sum over the group's graphs, recursively) for an acyclic configuration
  * `C14.total`                `|list(Proxy)|` = sum of that over the core graphs
  * `C14.terminates`           fuel `fuelBound cfg core` suffices and more fuel changes nothing

  The lemmas are in `C14CountA` (reference level: stability of the depth-bounded recursion under the
  acyclicity certificate), `C14CountB` (what one `replaceNode` does to the group nodes; on top of
  `C13Nodes`), `C14CountC` (step / loop inductions).  No Mathlib.
-/
namespace C14
open C13 C14.P

/-- every result is free of configured group labels -/
theorem no_group_label_left (cfg : Config) (fuel : Nat) (core : Graph) (res : List Graph)
    (h : buildGraphs cfg fuel core = .ok res) : ∀ g ∈ res, noGroupLabelLeft cfg g = true := by
  refine buildLoop_inv (cfg := cfg) (fun _ => True) (fun g => noGroupLabelLeft cfg g = true) ?_
    fuel [core] [] res h (fun _ _ => trivial) (fun g hg => by cases hg)
  intro ws done next hs _
  refine ⟨fun g hg => ?_, fun _ _ => trivial⟩
  unfold noGroupLabelLeft
  rw [(step_done hs g hg).2]
  rfl

/-- every result has ids 0..n-1 in order (and a closed adjacency) -/
theorem contiguous_ids (cfg : Config) (fuel : Nat) (core : Graph) (res : List Graph)
    (hcfg : cfgOk cfg = true) (hcore : closedB core = true ∧ contiguous core = true)
    (h : buildGraphs cfg fuel core = .ok res) : ∀ g ∈ res, contiguous g = true ∧ closedB g = true := by
  have key : ∀ g ∈ res, Inv g := by
    refine buildLoop_inv (cfg := cfg) Inv Inv ?_ fuel [core] [] res h ?_ (fun g hg => by cases hg)
    · intro ws done next hs hi
      exact ⟨fun g hg => hi g (step_done hs g hg).1, step_inv hcfg hs hi⟩
    · intro g hg
      rw [List.mem_singleton.mp hg]
      exact inv_of_core hcore
  intro g hg
  exact ⟨(key g hg).1, closedB_of_closed g (key g hg).2⟩

/-- the number of results is the sum-of-products formula -/
theorem count (cfg : Config) (fuel : Nat) (core : Graph) (res : List Graph)
    (hcfg : cfgOk cfg = true) (hac : acyclicB (toRef cfg) = true)
    (hcore : closedB core = true ∧ contiguous core = true)
    (h : buildGraphs cfg fuel core = .ok res) : res.length = numExp cfg core := by
  have := buildLoop_count hcfg hac fuel [core] [] res h (fun g hg => by
    rw [List.mem_singleton.mp hg]; exact inv_of_core hcore)
  simpa using this

/-- iter(Proxy): one result per combination over all core graphs -/
theorem total (cfg : Config) (fuel : Nat) (aam : Bool) (cores : List Graph) (out : List Graph)
    (hcfg : cfgOk cfg = true) (hac : acyclicB (toRef cfg) = true)
    (hcores : ∀ c ∈ cores, closedB c = true ∧ contiguous c = true)
    (h : generate cfg fuel aam cores = .ok out) : out.length = totalExp cfg cores := by
  induction cores generalizing out with
  | nil =>
    simp only [generate] at h
    injection h with h
    subst h
    rfl
  | cons core rest ih =>
    simp only [generate, bind, Except.bind] at h
    cases hb : buildGraphs cfg fuel core with
    | error e => rw [hb] at h; cases h
    | ok gs =>
      rw [hb] at h
      cases hg : generate cfg fuel aam rest with
      | error e => rw [hg] at h; cases h
      | ok more =>
        rw [hg] at h
        simp only [pure, Except.pure] at h
        injection h with h
        subst h
        have h1 := count cfg fuel core gs hcfg hac (hcores core List.mem_cons_self) hb
        have h2 := ih more (fun c hc => hcores c (List.mem_cons_of_mem _ hc)) hg
        rw [List.length_append, List.length_map, h1, h2]
        simp only [totalExp, totalExpRef, graphsExp, List.map_cons, List.sum_cons]
        rfl

/-- explicit fuel bound: one round per replacement on the heaviest path — the weight of the core's
    group nodes (`P.weight l = 1 + max over the graphs of group l of the sum of the weights of the
    graph's group nodes`, computed with depth `rc.length + 1`) — plus the final round that moves the
    finished graphs to the result -/
def fuelBound (cfg : Config) (core : Graph) : Nat := P.W cfg core + 1

/-- termination: for an acyclic configuration an explicit fuel bound suffices, and above it the
    result does not depend on the fuel -/
theorem terminates (cfg : Config) (core : Graph) (hcfg : cfgOk cfg = true) (hac : acyclicB (toRef cfg) = true)
    (hcore : closedB core = true ∧ contiguous core = true) (fuel : Nat) (hf : fuelBound cfg core ≤ fuel) :
    buildGraphs cfg fuel core ≠ .error .fuel ∧
      buildGraphs cfg fuel core = buildGraphs cfg (fuelBound cfg core) core := by
  have hb : buildLoop cfg (fuelBound cfg core) [core] [] ≠ .error .fuel := by
    apply buildLoop_enough hcfg hac
    · intro g hg; rw [List.mem_singleton.mp hg]; exact inv_of_core hcore
    · intro g hg; rw [List.mem_singleton.mp hg]; exact Nat.lt_succ_self _
  have he : buildGraphs cfg fuel core = buildGraphs cfg (fuelBound cfg core) core := by
    have := buildLoop_mono_add (fuelBound cfg core) [core] [] hb (fuel - fuelBound cfg core)
    rw [Nat.add_sub_cancel' hf] at this
    exact this
  exact ⟨by rw [he]; exact hb, he⟩

/-- corollary: with enough fuel an acyclic configuration never reports `fuel`, so `count` applies to
    whatever `build_graphs` returns -/
theorem count_at_bound (cfg : Config) (core : Graph) (res : List Graph)
    (hcfg : cfgOk cfg = true) (hac : acyclicB (toRef cfg) = true)
    (hcore : closedB core = true ∧ contiguous core = true)
    (h : buildGraphs cfg (fuelBound cfg core) core = .ok res) (fuel : Nat) (hf : fuelBound cfg core ≤ fuel) :
    buildGraphs cfg fuel core = .ok res ∧ res.length = numExp cfg core :=
  ⟨((terminates cfg core hcfg hac hcore fuel hf).2).trans h, count cfg _ core res hcfg hac hcore h⟩

/-! ### non-vacuity: the hypotheses hold and the conclusions are the expected numbers on concrete
    configurations -/
section Examples

/-- single-atom pattern `s` -/
private def atom (s : String) : PGraph :=
  { pattern := { nodes := [(0, { symbol := some s })], adj := [(0, [])] }, anchors := [0] }

private def lbl (l : String) : NodeAttr := { symbol := some "#", labels := some [l], isLabeled := some true }

/-- `groups = {"g": ["C", "O", "N"]}` -/
private def cfg1 : Config := [{ key := "g", name := "g", graphs := [atom "C", atom "O", atom "N"] }]

/-- core `{g}={g}` -/
private def core1 : Graph :=
  { nodes := [(0, lbl "g"), (1, lbl "g")],
    adj := [(0, [(1, [(0, .s 2)])]), (1, [(0, [(0, .s 2)])])] }

example : cfgOk cfg1 = true ∧ acyclicB (toRef cfg1) = true ∧ closedB core1 = true ∧ contiguous core1 = true := by
  decide

example : (buildGraphs cfg1 10 core1).toOption.map (·.length) = some 9 ∧ numExp cfg1 core1 = 9 := by decide

example : (buildGraphs cfg1 10 core1).toOption.map (·.map symbolsOf)
    = some [["C", "C"], ["C", "O"], ["C", "N"], ["O", "C"], ["O", "O"], ["O", "N"], ["N", "C"], ["N", "O"], ["N", "N"]] := by
  decide

/-- the fuel bound is attained: 3 rounds are needed and 2 are not enough -/
example : fuelBound cfg1 core1 = 3 ∧
    (match buildGraphs cfg1 2 core1 with | .error .fuel => true | _ => false) = true ∧
    (buildGraphs cfg1 3 core1).toOption.map (·.length) = some 9 := by decide

/-- nested groups: `a` is `C-{b}` or `N`, `b` is `O` or `S`; core `{a}-{b}`: (2 + 1) · 2 = 6 -/
private def cfg2 : Config :=
  [{ key := "a", name := "a", graphs :=
      [{ pattern := { nodes := [(0, { symbol := some "C" }), (1, lbl "b")],
                      adj := [(0, [(1, [(0, .s 2)])]), (1, [(0, [(0, .s 2)])])] }, anchors := [0] },
       atom "N"] },
   { key := "b", name := "b", graphs := [atom "O", atom "S"] }]

private def core2 : Graph :=
  { nodes := [(0, lbl "a"), (1, lbl "b")],
    adj := [(0, [(1, [(0, .s 2)])]), (1, [(0, [(0, .s 2)])])] }

example : cfgOk cfg2 = true ∧ acyclicB (toRef cfg2) = true ∧ closedB core2 = true ∧ contiguous core2 = true := by
  decide

/-- second core `{b}` -/
private def core3 : Graph := { nodes := [(0, lbl "b")], adj := [(0, [])] }

example : (buildGraphs cfg2 (fuelBound cfg2 core2) core2).toOption.map (·.length) = some 6 ∧
    numExp cfg2 core2 = 6 ∧ fuelBound cfg2 core2 = 4 ∧
    (match buildGraphs cfg2 3 core2 with | .error .fuel => true | _ => false) = true := by decide

example : (generate cfg2 10 true [core2, core3]).toOption.map (·.length) = some 8 ∧
    totalExp cfg2 [core2, core3] = 8 := by decide

/-- a cyclic configuration is rejected by `acyclicB` (and the model runs out of any fuel) -/
private def cfg3 : Config :=
  [{ key := "a", name := "a", graphs := [{ pattern := { nodes := [(0, lbl "a")], adj := [(0, [])] }, anchors := [0] }] }]

example : cfgOk cfg3 = true ∧ acyclicB (toRef cfg3) = false := by decide

end Examples

end C14
