import FGVerif.Proofs.GenParsedBase
import FGVerif.Generated.C05
import FGVerif.Generated.Parsed
/-!
  GenParsed, C05 part: the generated default hierarchy (and the K4 witness hierarchy) against the parser
  model.  See Proofs/GenParsedBase.lean for the definitions and the method.
-/
namespace GenParsed
open C01 (Str)

/-! ### C05: the default hierarchy -/

/-- `_default_fg_config` as emitted for C05/C07 is the character-list table under `String.ofList` -/
theorem default_config_chars : Gen.defaultFgConfig = Gen.Parsed.defaultConfigC.map CfgRowC.toS := by
  decide +kernel

theorem stuck_config_chars : Gen.Parsed.stuckConfig = Gen.Parsed.stuckConfigC.map CfgRowC.toS := by
  decide +kernel

theorem default_tree_fast : TreeFromC Gen.Parsed.defaultConfigC Gen.C05.defaultTreeNodes := by
  decide +kernel

theorem stuck_tree_fast : TreeFromC Gen.Parsed.stuckConfigC Gen.C05.stuckTreeNodes := by
  decide +kernel

/-- **C05 tables.**  EVERY pattern graph, every anti-pattern list (in the stored order), the group atoms
    and the pattern size of the generated default hierarchy are what the parser model makes of the strings
    of `_default_fg_config` (`Gen.defaultFgConfig`), group by group. -/
theorem default_tree_parsed : TreeFrom Gen.defaultFgConfig Gen.C05.defaultTreeNodes := by
  rw [default_config_chars]; exact default_tree_fast.sound

/-- the same for the user configuration of finding K4 (`Gen.C05.stuckTreeNodes`) -/
theorem stuck_tree_parsed : TreeFrom Gen.Parsed.stuckConfig Gen.C05.stuckTreeNodes := by
  rw [stuck_config_chars]; exact stuck_tree_fast.sound

/-- pattern-only reading of `default_tree_parsed`, in the form of the task statement -/
theorem default_patterns_parsed :
    ∀ row ∈ Gen.C05.defaultTreeNodes, ∃ c ∈ Gen.defaultFgConfig,
      c.1 = row.1 ∧ C01.parse ⟨false, false⟩ c.2.1 0 = .ok row.2.1 := by
  intro row hrow
  obtain ⟨c, hc, h1, h2, _⟩ := default_tree_parsed.1 row hrow
  exact ⟨c, hc, h1, h2⟩

/-- anti-pattern reading of `default_tree_parsed`: the stored anti-pattern graphs of a group are the
    parses of the anti-pattern strings of the same group, sorted by size (descending, stable) -/
theorem default_antipatterns_parsed :
    ∀ row ∈ Gen.C05.defaultTreeNodes, ∃ c ∈ Gen.defaultFgConfig,
      c.1 = row.1 ∧ ∃ gs, ParsedAll ⟨false, false⟩ c.2.2.2 gs ∧ sortDesc gs = row.2.2.2.1 := by
  intro row hrow
  obtain ⟨c, hc, h1, _, h3, _⟩ := default_tree_parsed.1 row hrow
  exact ⟨c, hc, h1, h3⟩

/-- test (non-vacuity): the tables are not empty (no sizes are fixed here: the tables are regenerated from
    the source, a consistent edit of `_default_fg_config` must not break the build) -/
example : Gen.C05.defaultTreeNodes ≠ [] ∧ Gen.C05.stuckTreeNodes ≠ [] := by
  refine ⟨?_, ?_⟩ <;> exact fun h => nomatch h

/-- test: `sortDesc` is Python's stable descending sort on a list with ties -/
example : (sortDesc [⟨false, [(0, {})], []⟩, ⟨false, [(5, {}), (6, {})], []⟩, ⟨false, [(1, {})], []⟩,
      ⟨false, [(7, {}), (8, {})], []⟩]).map (·.nodeIds) = [[5, 6], [7, 8], [0], [1]] := by decide

/-- test: the fast evaluation and the model agree by direct evaluation of both on one pattern -/
example : (match C01.parse fgCfg "RC(=O)H" 0 with | .ok g => some g | .error _ => none) =
    fastParse fgCfg ['R', 'C', '(', '=', 'O', ')', 'H'] := by decide +kernel

end GenParsed
