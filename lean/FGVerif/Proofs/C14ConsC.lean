import FGVerif.Proofs.C14ConsB
/-!
  C14 conservation, part C: bond labels as a multiset, independent of the order of `Graph.edges`.

  * `perm_of_selL`  two lists of `(u, v, label)` triples whose labels agree between every pair of end
    points (`C13.E.selL`, as multisets) carry the same multiset of labels.  Proof by counting the
    normalised triples `(min u v, max u v, label)`.
  * `selL_tri_edges`  for a well-formed graph the labels selected from `Graph.edges` between `a` and `b`
    are `labelsBetween g a b` (from `C13.E.sel_edges`).
  * `selL` of appended / renamed / filtered triple lists.
-/
set_option linter.unusedSimpArgs false
namespace C14.Q
open C13 C14 C13.E

/-- an edge without its key -/
def tri (es : List Edge) : List Triple := es.map fun e => (e.1, e.2.1, e.2.2.2)

/-- the label of a triple -/
def lbl (t : Triple) : Label := t.2.2

theorem tri_lbl (es : List Edge) : (tri es).map lbl = es.map (·.2.2.2) := by
  simp [tri, lbl, Function.comp_def]

theorem selL_nil (a b : Int) : selL a b [] = [] := rfl

theorem selL_append (a b : Int) (T1 T2 : List Triple) : selL a b (T1 ++ T2) = selL a b T1 ++ selL a b T2 := by
  unfold selL; exact List.filterMap_append

theorem selL_tri (a b : Int) (es : List Edge) : selL a b (tri es) = (sel a b es).map (·.2) := by
  induction es with
  | nil => rfl
  | cons e es ih =>
    have : tri (e :: es) = (e.1, e.2.1, e.2.2.2) :: tri es := rfl
    rw [this, selL_cons, sel_cons, ih]
    by_cases h : (e.1 = a ∧ e.2.1 = b) ∨ (e.1 = b ∧ e.2.1 = a) <;> simp [h]

/-- the labels enumerated by `Graph.edges` between `a` and `b` -/
theorem selL_tri_edges {g : Graph} (w : WF g) (a b : Int) : selL a b (tri g.edges) = labelsBetween g a b := by
  rw [selL_tri, sel_edges w]; rfl

/-! ### counting normalised triples -/

/-- end points in ascending order -/
def nl (t : Triple) : Triple := (min t.1 t.2.1, max t.1 t.2.1, t.2.2)

theorem nl_eq_iff (t : Triple) (a b : Int) (l : Label) :
    nl t = (a, b, l) ↔ a ≤ b ∧ ((t.1 = a ∧ t.2.1 = b) ∨ (t.1 = b ∧ t.2.1 = a)) ∧ t.2.2 = l := by
  unfold nl
  simp only [Prod.mk.injEq]
  constructor
  · rintro ⟨h1, h2, h3⟩
    exact ⟨by omega, by omega, h3⟩
  · rintro ⟨h1, h2, h3⟩
    exact ⟨by omega, by omega, h3⟩

theorem count_nl (T : List Triple) (a b : Int) (l : Label) :
    List.count (a, b, l) (T.map nl) = if a ≤ b then List.count l (selL a b T) else 0 := by
  induction T with
  | nil => simp [selL_nil]
  | cons t T ih =>
    rw [List.map_cons, List.count_cons, ih, selL_cons, List.count_append]
    have hiff := nl_eq_iff t a b l
    by_cases hab : a ≤ b
    · simp only [hab, if_true]
      by_cases hm : (t.1 = a ∧ t.2.1 = b) ∨ (t.1 = b ∧ t.2.1 = a)
      · by_cases hl : t.2.2 = l
        · have : nl t = (a, b, l) := hiff.mpr ⟨hab, hm, hl⟩
          simp [hm, hl, this, Nat.add_comm]
        · have : ¬ nl t = (a, b, l) := fun e => hl (hiff.mp e).2.2
          simp [hm, hl, this]
      · have : ¬ nl t = (a, b, l) := fun e => hm (hiff.mp e).2.1
        simp [hm, this]
    · have : ¬ nl t = (a, b, l) := fun e => hab (hiff.mp e).1
      simp [hab, this]

/-- lists of triples that agree between every pair of end points carry the same labels -/
theorem perm_of_selL {T1 T2 : List Triple} (h : ∀ a b, (selL a b T1).Perm (selL a b T2)) :
    (T1.map lbl).Perm (T2.map lbl) := by
  have hp : (T1.map nl).Perm (T2.map nl) := by
    apply List.perm_iff_count.mpr
    rintro ⟨a, b, l⟩
    rw [count_nl, count_nl]
    split
    · exact (h a b).count_eq l
    · rfl
  have := hp.map lbl
  rw [List.map_map, List.map_map] at this
  exact this

/-! ### `selL` of renamed and filtered lists -/

theorem selL_map (ρ inv : Int → Int) (T : List Triple)
    (h : ∀ t ∈ T, ∀ c, (ρ t.1 = c ↔ t.1 = inv c) ∧ (ρ t.2.1 = c ↔ t.2.1 = inv c)) (a b : Int) :
    selL a b (T.map fun t => (ρ t.1, ρ t.2.1, t.2.2)) = selL (inv a) (inv b) T := by
  induction T with
  | nil => rfl
  | cons t T ih =>
    rw [List.map_cons, selL_cons, selL_cons, ih (fun x hx => h x (List.mem_cons_of_mem _ hx))]
    have ht := h t List.mem_cons_self
    simp only [(ht a).1, (ht a).2, (ht b).1, (ht b).2]

/-- not an end point of the triple -/
def notx (x : Int) (t : Triple) : Bool := t.1 != x && t.2.1 != x

theorem selL_filter_notx (x : Int) (T : List Triple) (a b : Int) :
    selL a b (T.filter (notx x)) = if a = x ∨ b = x then [] else selL a b T := by
  induction T with
  | nil => simp [selL_nil]
  | cons t T ih =>
    rw [List.filter_cons]
    by_cases hn : notx x t = true
    · rw [if_pos hn, selL_cons, selL_cons, ih]
      simp only [notx, Bool.and_eq_true, bne_iff_ne, ne_eq] at hn
      by_cases hx : a = x ∨ b = x
      · have : ¬ ((t.1 = a ∧ t.2.1 = b) ∨ (t.1 = b ∧ t.2.1 = a)) := by
          rintro (⟨h1, h2⟩ | ⟨h1, h2⟩) <;> rcases hx with hx | hx <;> omega
        simp [hx, this]
      · simp [hx]
    · rw [if_neg hn, selL_cons, ih]
      simp only [notx, Bool.and_eq_true, bne_iff_ne, ne_eq] at hn
      by_cases hx : a = x ∨ b = x
      · simp [hx]
      · have : ¬ ((t.1 = a ∧ t.2.1 = b) ∨ (t.1 = b ∧ t.2.1 = a)) := by
          rintro (⟨h1, h2⟩ | ⟨h1, h2⟩) <;> omega
        simp [hx, this]

theorem selL_filter_x (x : Int) (T : List Triple) (a b : Int) :
    selL a b (T.filter fun t => !notx x t) = if a = x ∨ b = x then selL a b T else [] := by
  induction T with
  | nil => simp [selL_nil]
  | cons t T ih =>
    rw [List.filter_cons]
    by_cases hn : notx x t = true
    · have hn' : ¬ ((!notx x t) = true) := by simp [hn]
      rw [if_neg hn', selL_cons, ih]
      simp only [notx, Bool.and_eq_true, bne_iff_ne, ne_eq] at hn
      by_cases hx : a = x ∨ b = x
      · have : ¬ ((t.1 = a ∧ t.2.1 = b) ∨ (t.1 = b ∧ t.2.1 = a)) := by
          rintro (⟨h1, h2⟩ | ⟨h1, h2⟩) <;> rcases hx with hx | hx <;> omega
        simp [hx, this]
      · simp [hx]
    · have hn' : (!notx x t) = true := by simpa using hn
      rw [if_pos hn', selL_cons, selL_cons, ih]
      simp only [notx, Bool.and_eq_true, bne_iff_ne, ne_eq] at hn
      by_cases hx : a = x ∨ b = x
      · simp [hx]
      · have : ¬ ((t.1 = a ∧ t.2.1 = b) ∨ (t.1 = b ∧ t.2.1 = a)) := by
          rintro (⟨h1, h2⟩ | ⟨h1, h2⟩) <;> omega
        simp [hx, this]

/-- the labels of a triple list split into those that touch `x` and the others -/
theorem lbl_split (x : Int) (T : List Triple) :
    (T.map lbl).Perm ((T.filter (notx x)).map lbl ++ (T.filter fun t => !notx x t).map lbl) := by
  rw [← List.map_append]
  exact (List.filter_append_perm (notx x) T).symm.map lbl

end C14.Q
