import FGVerif.Proofs.C14CountB
/-!
  C14 counting, part C: one replacement preserves the expected count (`rnn_count`), keeps the
  invariant (`rnn_inv`) and lowers the weight (`rnn_weight`); the same for one pass of the loop
  (`step_*`) and for the whole loop (`buildLoop_*`).
-/
namespace C14.P
open C13 C14

theorem numExp_def (cfg : Config) (g : Graph) :
    numExp cfg g = prod ((refsOf cfg g).map (oneLabel (groupExp (toRef cfg) (depthOf (toRef cfg))))) := rfl

/-- weight of a working graph: the number of loop rounds its expansion can still take -/
def W (cfg : Config) (g : Graph) : Nat := refWeight (toRef cfg) (refsOf cfg g)

theorem refs_head {cfg : Config} {g : Graph} {x : Int} {a : NodeAttr} {name : String}
    (hn : nextGroupNode cfg g = some (x, a)) (hl : groupLabels cfg a = [name]) :
    refsOf cfg g = [name] :: (refsOf cfg g).tail := by
  obtain ⟨pre, post, hs, hpre⟩ := next_split hn
  rw [refsOf_eq, hs, refsL_append, refsL_nil_of_no_group cfg pre hpre, refsL_cons_group cfg x a post name hl]
  rfl

theorem refs_step' {cfg : Config} {g : Graph} {x : Int} {a : NodeAttr} {name : String} {sub : Graph}
    {anchors : List Nat} (hn : nextGroupNode cfg g = some (x, a)) (hl : groupLabels cfg a = [name])
    (hd : NodeDom g x sub anchors) :
    refsOf cfg (replaceNode g x sub anchors) = (refsOf cfg g).tail ++ refsOf cfg sub := by
  obtain ⟨t, h1, h2⟩ := refs_step hn hl hd
  rw [h2, h1]
  rfl

theorem toRef_find_some {cfg : Config} {name : String} {grp : Group} (hlk : lookup cfg name = some grp) :
    (toRef cfg).find? (·.1 == name) = some (grp.key, grp.graphs.map fun pg => refsOf cfg pg.pattern) := by
  rw [toRef_find, hlk]
  rfl

/-! ### one replacement -/

theorem rnn_none_count {cfg : Config} {g : Graph} (h : replaceNextNode cfg g = .ok none) : numExp cfg g = 1 := by
  rw [numExp_def, refs_none (rnn_none h)]
  rfl

theorem rnn_inv {cfg : Config} (hcfg : cfgOk cfg = true) {g : Graph} (hi : Inv g) {gs : List Graph}
    (h : replaceNextNode cfg g = .ok (some gs)) : ∀ g' ∈ gs, Inv g' := by
  obtain ⟨x, a, name, grp, hn, hl, hlk, rfl⟩ := rnn_some h
  intro g' hg'
  rcases List.mem_map.mp hg' with ⟨sg, hsg, rfl⟩
  exact ⟨replaceNode_contiguous _ _ _ _ (nodeDom_of hcfg hi hn hlk hsg), replaceNode_closed _ _ _ _⟩

theorem rnn_count {cfg : Config} (hcfg : cfgOk cfg = true) (hac : acyclicB (toRef cfg) = true)
    {g : Graph} (hi : Inv g) {gs : List Graph} (h : replaceNextNode cfg g = .ok (some gs)) :
    (gs.map (numExp cfg)).sum = numExp cfg g := by
  obtain ⟨x, a, name, grp, hn, hl, hlk, rfl⟩ := rnn_some h
  have hhead := refs_head hn hl
  have hfix := groupExp_fix (hac : acyclicWith (ranksOf (toRef cfg)) (toRef cfg) = true) (toRef_find_some hlk)
  rw [List.map_map] at hfix
  rw [List.map_map, numExp_def cfg g, hhead, List.map_cons, prod]
  show _ = groupExp (toRef cfg) (depthOf (toRef cfg)) name * _
  rw [hfix, Nat.mul_comm, ← sum_map_mul_left]
  apply sum_map_congr
  intro sg hsg
  have hstep := refs_step' hn hl (nodeDom_of hcfg hi hn hlk hsg)
  simp only [Function.comp, numExp_def, hstep, List.map_append, prod_append]

theorem rnn_weight {cfg : Config} (hcfg : cfgOk cfg = true) (hac : acyclicB (toRef cfg) = true)
    {g : Graph} (hi : Inv g) {gs : List Graph} (h : replaceNextNode cfg g = .ok (some gs)) :
    ∀ g' ∈ gs, W cfg g' < W cfg g := by
  obtain ⟨x, a, name, grp, hn, hl, hlk, rfl⟩ := rnn_some h
  intro g' hg'
  rcases List.mem_map.mp hg' with ⟨sg, hsg, rfl⟩
  have hhead := refs_head hn hl
  have hstep := refs_step' hn hl (nodeDom_of hcfg hi hn hlk hsg)
  have hlt := refWeight_lt_weight (hac : acyclicWith (ranksOf (toRef cfg)) (toRef cfg) = true)
    (toRef_find_some hlk) (refsOf cfg sg.pattern) (List.mem_map.mpr ⟨sg, hsg, rfl⟩)
  have e1 : W cfg g = weight (toRef cfg) name + refWeight (toRef cfg) (refsOf cfg g).tail := by
    unfold W
    rw [hhead]
    rfl
  have e2 : W cfg (replaceNode g x sg.pattern sg.anchors)
      = refWeight (toRef cfg) (refsOf cfg g).tail + refWeight (toRef cfg) (refsOf cfg sg.pattern) := by
    unfold W
    rw [hstep]
    unfold refWeight
    rw [List.map_append, sumL_append]
  omega

/-! ### one pass over the working set -/

theorem step_mem {cfg : Config} : ∀ (ws done next : List Graph), step cfg ws = .ok (done, next) →
    (∀ g ∈ done, g ∈ ws ∧ replaceNextNode cfg g = .ok none) ∧
    (∀ g' ∈ next, ∃ g ∈ ws, ∃ gs, replaceNextNode cfg g = .ok (some gs) ∧ g' ∈ gs) := by
  intro ws
  induction ws with
  | nil =>
    intro done next h
    rw [step_nil] at h
    injection h with h
    injection h with h1 h2
    subst h1; subst h2
    exact ⟨fun g hg => (by cases hg), fun g hg => (by cases hg)⟩
  | cons g rest ih =>
    intro done next h
    obtain ⟨done', next', hs, hcase⟩ := step_cons h
    obtain ⟨ihd, ihn⟩ := ih done' next' hs
    rcases hcase with ⟨hr, rfl, rfl⟩ | ⟨gs, hr, rfl, rfl⟩
    · refine ⟨fun g' hg' => ?_, fun g' hg' => ?_⟩
      · rcases List.mem_cons.mp hg' with rfl | hg'
        · exact ⟨List.mem_cons_self, hr⟩
        · exact ⟨List.mem_cons_of_mem _ (ihd g' hg').1, (ihd g' hg').2⟩
      · obtain ⟨g0, hg0, gs, h1, h2⟩ := ihn g' hg'
        exact ⟨g0, List.mem_cons_of_mem _ hg0, gs, h1, h2⟩
    · refine ⟨fun g' hg' => ⟨List.mem_cons_of_mem _ (ihd g' hg').1, (ihd g' hg').2⟩, fun g' hg' => ?_⟩
      rcases List.mem_append.mp hg' with hg' | hg'
      · exact ⟨g, List.mem_cons_self, gs, hr, hg'⟩
      · obtain ⟨g0, hg0, gs', h1, h2⟩ := ihn g' hg'
        exact ⟨g0, List.mem_cons_of_mem _ hg0, gs', h1, h2⟩

theorem step_done {cfg : Config} {ws done next : List Graph} (h : step cfg ws = .ok (done, next)) :
    ∀ g ∈ done, g ∈ ws ∧ nextGroupNode cfg g = none :=
  fun g hg => ⟨((step_mem ws done next h).1 g hg).1, rnn_none ((step_mem ws done next h).1 g hg).2⟩

theorem step_inv {cfg : Config} (hcfg : cfgOk cfg = true) {ws done next : List Graph}
    (h : step cfg ws = .ok (done, next)) (hi : ∀ g ∈ ws, Inv g) : ∀ g ∈ next, Inv g := by
  intro g' hg'
  obtain ⟨g, hg, gs, hr, hmem⟩ := (step_mem ws done next h).2 g' hg'
  exact rnn_inv hcfg (hi g hg) hr g' hmem

theorem step_weight {cfg : Config} (hcfg : cfgOk cfg = true) (hac : acyclicB (toRef cfg) = true)
    {ws done next : List Graph} (h : step cfg ws = .ok (done, next)) (hi : ∀ g ∈ ws, Inv g) :
    ∀ g' ∈ next, ∃ g ∈ ws, W cfg g' < W cfg g := by
  intro g' hg'
  obtain ⟨g, hg, gs, hr, hmem⟩ := (step_mem ws done next h).2 g' hg'
  exact ⟨g, hg, rnn_weight hcfg hac (hi g hg) hr g' hmem⟩

theorem step_count {cfg : Config} (hcfg : cfgOk cfg = true) (hac : acyclicB (toRef cfg) = true) :
    ∀ (ws done next : List Graph), step cfg ws = .ok (done, next) → (∀ g ∈ ws, Inv g) →
      done.length + (next.map (numExp cfg)).sum = (ws.map (numExp cfg)).sum := by
  intro ws
  induction ws with
  | nil =>
    intro done next h _
    rw [step_nil] at h
    injection h with h
    injection h with h1 h2
    subst h1; subst h2
    rfl
  | cons g rest ih =>
    intro done next h hi
    obtain ⟨done', next', hs, hcase⟩ := step_cons h
    have ih' := ih done' next' hs (fun g' hg' => hi g' (List.mem_cons_of_mem _ hg'))
    rcases hcase with ⟨hr, rfl, rfl⟩ | ⟨gs, hr, rfl, rfl⟩
    · rw [List.map_cons, List.sum_cons, rnn_none_count hr, List.length_cons]
      omega
    · rw [List.map_cons, List.sum_cons, List.map_append, List.sum_append_nat,
        rnn_count hcfg hac (hi g List.mem_cons_self) hr]
      omega

/-! ### the loop -/

theorem buildLoop_nil (cfg : Config) (f : Nat) (res : List Graph) : buildLoop cfg f [] res = .ok res := by
  cases f <;> rfl

theorem buildLoop_zero_cons (cfg : Config) (g : Graph) (ws res : List Graph) :
    buildLoop cfg 0 (g :: ws) res = .error .fuel := rfl

theorem buildLoop_succ_err {cfg : Config} {g : Graph} {ws : List Graph} {e : Err} (f : Nat) (res : List Graph)
    (h : step cfg (g :: ws) = .error e) : buildLoop cfg (f + 1) (g :: ws) res = .error e := by
  simp only [buildLoop, bind, Except.bind, h, List.isEmpty_cons, Bool.false_eq_true, if_false]

theorem buildLoop_succ_ok {cfg : Config} {g : Graph} {ws done next : List Graph} (f : Nat) (res : List Graph)
    (h : step cfg (g :: ws) = .ok (done, next)) :
    buildLoop cfg (f + 1) (g :: ws) res = buildLoop cfg f next (res ++ done) := by
  simp only [buildLoop, bind, Except.bind, h, List.isEmpty_cons, Bool.false_eq_true, if_false]

/-- generic invariant transfer: `I` holds on the working set, `Q` on the results -/
theorem buildLoop_inv {cfg : Config} (I Q : Graph → Prop)
    (hstep : ∀ ws done next, step cfg ws = .ok (done, next) → (∀ g ∈ ws, I g) →
      (∀ g ∈ done, Q g) ∧ (∀ g ∈ next, I g)) :
    ∀ (f : Nat) (ws res out : List Graph), buildLoop cfg f ws res = .ok out →
      (∀ g ∈ ws, I g) → (∀ g ∈ res, Q g) → ∀ g ∈ out, Q g := by
  intro f
  induction f with
  | zero =>
    intro ws res out h _ hq
    cases ws with
    | nil => rw [buildLoop_nil] at h; injection h with h; subst h; exact hq
    | cons g ws => rw [buildLoop_zero_cons] at h; cases h
  | succ f ih =>
    intro ws res out h hi hq
    cases ws with
    | nil => rw [buildLoop_nil] at h; injection h with h; subst h; exact hq
    | cons g ws =>
      cases hs : step cfg (g :: ws) with
      | error e => rw [buildLoop_succ_err f res hs] at h; cases h
      | ok dn =>
        obtain ⟨done, next⟩ := dn
        rw [buildLoop_succ_ok f res hs] at h
        obtain ⟨hd, hn⟩ := hstep _ _ _ hs hi
        apply ih next (res ++ done) out h hn
        intro g' hg'
        rcases List.mem_append.mp hg' with h1 | h1
        · exact hq g' h1
        · exact hd g' h1

theorem buildLoop_count {cfg : Config} (hcfg : cfgOk cfg = true) (hac : acyclicB (toRef cfg) = true) :
    ∀ (f : Nat) (ws res out : List Graph), buildLoop cfg f ws res = .ok out → (∀ g ∈ ws, Inv g) →
      out.length = res.length + (ws.map (numExp cfg)).sum := by
  intro f
  induction f with
  | zero =>
    intro ws res out h _
    cases ws with
    | nil => rw [buildLoop_nil] at h; injection h with h; subst h; rfl
    | cons g ws => rw [buildLoop_zero_cons] at h; cases h
  | succ f ih =>
    intro ws res out h hi
    cases ws with
    | nil => rw [buildLoop_nil] at h; injection h with h; subst h; rfl
    | cons g ws =>
      cases hs : step cfg (g :: ws) with
      | error e => rw [buildLoop_succ_err f res hs] at h; cases h
      | ok dn =>
        obtain ⟨done, next⟩ := dn
        rw [buildLoop_succ_ok f res hs] at h
        have h1 := ih next (res ++ done) out h (step_inv hcfg hs hi)
        have h2 := step_count hcfg hac _ _ _ hs hi
        rw [List.length_append] at h1
        omega

/-! ### fuel -/

/-- more fuel does not change a result that did not run out of fuel -/
theorem buildLoop_mono {cfg : Config} : ∀ (f : Nat) (ws res : List Graph),
    buildLoop cfg f ws res ≠ .error .fuel → buildLoop cfg (f + 1) ws res = buildLoop cfg f ws res := by
  intro f
  induction f with
  | zero =>
    intro ws res h
    cases ws with
    | nil => rw [buildLoop_nil, buildLoop_nil]
    | cons g ws => exact absurd (buildLoop_zero_cons cfg g ws res) h
  | succ f ih =>
    intro ws res h
    cases ws with
    | nil => rw [buildLoop_nil, buildLoop_nil]
    | cons g ws =>
      cases hs : step cfg (g :: ws) with
      | error e => rw [buildLoop_succ_err _ res hs, buildLoop_succ_err _ res hs]
      | ok dn =>
        obtain ⟨done, next⟩ := dn
        rw [buildLoop_succ_ok _ res hs] at h ⊢
        rw [buildLoop_succ_ok _ res hs]
        exact ih next (res ++ done) h

theorem buildLoop_mono_add {cfg : Config} (f : Nat) (ws res : List Graph)
    (h : buildLoop cfg f ws res ≠ .error .fuel) : ∀ k, buildLoop cfg (f + k) ws res = buildLoop cfg f ws res := by
  intro k
  induction k with
  | zero => rfl
  | succ k ih =>
    rw [← Nat.add_assoc, buildLoop_mono (f + k) ws res (by rw [ih]; exact h), ih]

/-- fuel above the weight of every working graph suffices -/
theorem buildLoop_enough {cfg : Config} (hcfg : cfgOk cfg = true) (hac : acyclicB (toRef cfg) = true) :
    ∀ (f : Nat) (ws res : List Graph), (∀ g ∈ ws, Inv g) → (∀ g ∈ ws, W cfg g < f) →
      buildLoop cfg f ws res ≠ .error .fuel := by
  intro f
  induction f with
  | zero =>
    intro ws res _ hw
    cases ws with
    | nil => rw [buildLoop_nil]; intro h; cases h
    | cons g ws => exact absurd (hw g List.mem_cons_self) (Nat.not_lt_zero _)
  | succ f ih =>
    intro ws res hi hw
    cases ws with
    | nil => rw [buildLoop_nil]; intro h; cases h
    | cons g ws =>
      cases hs : step cfg (g :: ws) with
      | error e =>
        rw [buildLoop_succ_err _ res hs]
        intro h
        injection h with h
        exact step_not_fuel cfg (g :: ws) (hs.trans (by rw [h]))
      | ok dn =>
        obtain ⟨done, next⟩ := dn
        rw [buildLoop_succ_ok _ res hs]
        apply ih next (res ++ done) (step_inv hcfg hs hi)
        intro g' hg'
        obtain ⟨g0, hg0, hlt⟩ := step_weight hcfg hac hs hi g' hg'
        have := hw g0 hg0
        omega

end C14.P
