import FGVerif.Proofs.C16Base
namespace C16

/-! ### `isConnected` is path connectivity -/

/-- `b` is reached from `a` along edges of the list -/
inductive Reach {α : Type} (es : List (E α)) : Int → Int → Prop
  | refl (a : Int) : Reach es a a
  | step {a b c : Int} : Reach es a b → adjacent es b c = true → Reach es a c

/-- the ITS graph (all its edges, whatever their orders) is connected: it has a node and any node
    is reached from any other -/
def Connected (its : ITSGraph) : Prop :=
  its.nodeIds ≠ [] ∧ ∀ a ∈ its.nodeIds, ∀ b ∈ its.nodeIds, Reach its.edges a b

theorem adjacent_symm {α : Type} (es : List (E α)) (a b : Int) : adjacent es a b = adjacent es b a := by
  unfold adjacent
  congr 1; funext e; exact hit_symm _ _ _ _

theorem Reach.trans {α : Type} {es : List (E α)} {a b c : Int} (h1 : Reach es a b) (h2 : Reach es b c) :
    Reach es a c := by
  induction h2 with
  | refl => exact h1
  | step _ hadj ih => exact Reach.step ih hadj

theorem Reach.symm {α : Type} {es : List (E α)} {a b : Int} (h : Reach es a b) : Reach es b a := by
  induction h with
  | refl => exact Reach.refl _
  | step _ hadj ih =>
    exact Reach.trans (Reach.step (Reach.refl _) (by rw [adjacent_symm]; exact hadj)) ih

theorem filter_not_length_lt {α : Type} (p : α → Bool) (l : List α) (h : ∃ x ∈ l, p x = true) :
    (l.filter fun x => !p x).length < l.length := by
  induction l with
  | nil => obtain ⟨x, hx, _⟩ := h; simp at hx
  | cons a l ih =>
    rw [List.filter_cons]
    by_cases hp : p a = true
    · simp only [hp, Bool.not_true, Bool.false_eq_true, if_false, List.length_cons]
      have := List.length_filter_le (fun x => !p x) l
      omega
    · simp only [hp, Bool.not_false, if_true, List.length_cons]
      obtain ⟨x, hx, hpx⟩ := h
      rcases List.mem_cons.mp hx with rfl | hm
      · exact absurd hpx hp
      · have := ih ⟨x, hm, hpx⟩
        omega

structure GrowSpec {α : Type} (es : List (E α)) (s : Int) (seen rest : List Int) (r : List Int × List Int) : Prop where
  reach : ∀ x ∈ r.1, Reach es s x
  union : ∀ x, (x ∈ r.1 ∨ x ∈ r.2) ↔ (x ∈ seen ∨ x ∈ rest)
  closed : ∀ n ∈ r.2, ∀ t ∈ r.1, adjacent es t n = false
  sub : ∀ x ∈ r.2, x ∈ rest
  sup : ∀ x ∈ seen, x ∈ r.1

theorem grow_spec {α : Type} (es : List (E α)) (s : Int) :
    ∀ (fuel : Nat) (seen rest : List Int), rest.length ≤ fuel → (∀ x ∈ seen, Reach es s x) →
      GrowSpec es s seen rest (grow es fuel seen rest) := by
  intro fuel
  induction fuel with
  | zero =>
    intro seen rest hlen hreach
    have : rest = [] := List.eq_nil_of_length_eq_zero (by omega)
    subst this
    exact ⟨hreach, fun x => Iff.rfl, fun n hn => by simp [grow] at hn, fun x hx => by simp [grow] at hx,
      fun x hx => hx⟩
  | succ fuel ih =>
    intro seen rest hlen hreach
    rw [grow]
    by_cases hne : (rest.filter fun n => seen.any fun s => adjacent es s n).isEmpty = true
    · simp only [hne, if_true]
      refine ⟨hreach, fun x => Iff.rfl, ?_, fun x hx => hx, fun x hx => hx⟩
      intro n hn t ht
      cases hc : adjacent es t n with
      | false => rfl
      | true =>
        exfalso
        rw [List.isEmpty_iff] at hne
        have : n ∈ rest.filter fun n => seen.any fun s => adjacent es s n :=
          List.mem_filter.mpr ⟨hn, List.any_eq_true.mpr ⟨t, ht, hc⟩⟩
        rw [hne] at this; simp at this
    · simp only [hne, Bool.false_eq_true, if_false]
      have hex : ∃ x ∈ rest, (seen.any fun s => adjacent es s x) = true := by
        cases hf : rest.filter fun n => seen.any fun s => adjacent es s n with
        | nil => rw [hf] at hne; simp at hne
        | cons x xs =>
          have : x ∈ rest.filter fun n => seen.any fun s => adjacent es s n := by rw [hf]; simp
          exact ⟨x, (List.mem_filter.mp this).1, (List.mem_filter.mp this).2⟩
      have hlt := filter_not_length_lt (fun n => seen.any fun s => adjacent es s n) rest hex
      have hreach' : ∀ x ∈ seen ++ rest.filter (fun n => seen.any fun s => adjacent es s n), Reach es s x := by
        intro x hx
        rcases List.mem_append.mp hx with h | h
        · exact hreach x h
        · obtain ⟨t, ht, hadj⟩ := List.any_eq_true.mp (List.mem_filter.mp h).2
          exact Reach.step (hreach t ht) hadj
      have := ih (seen ++ rest.filter (fun n => seen.any fun s => adjacent es s n))
        (rest.filter fun n => !(seen.any fun s => adjacent es s n)) (by omega) hreach'
      refine ⟨this.reach, ?_, this.closed, ?_, ?_⟩
      · intro x
        rw [this.union x, List.mem_append, List.mem_filter, List.mem_filter]
        constructor
        · rintro ((h | h) | h)
          · exact Or.inl h
          · exact Or.inr h.1
          · exact Or.inr h.1
        · rintro (h | h)
          · exact Or.inl (Or.inl h)
          · by_cases hp : (seen.any fun s => adjacent es s x) = true
            · exact Or.inl (Or.inr ⟨h, hp⟩)
            · exact Or.inr ⟨h, by simpa using hp⟩
      · intro x hx; exact (List.mem_filter.mp (this.sub x hx)).1
      · intro x hx; exact this.sup x (List.mem_append.mpr (Or.inl hx))

/-- hypotheses every networkx graph satisfies: node ids are distinct, edges join nodes -/
structure NodesWF (its : ITSGraph) : Prop where
  nodup : its.nodeIds.Nodup
  ends : ∀ e ∈ its.edges, e.1 ∈ its.nodeIds ∧ e.2.1 ∈ its.nodeIds

theorem isConnected_iff (its : ITSGraph) (hw : NodesWF its) : isConnected its = true ↔ Connected its := by
  unfold isConnected Connected
  cases hn : its.nodeIds with
  | nil => simp
  | cons s rest =>
    simp only
    have hnd : (s :: rest).Nodup := hn ▸ hw.nodup
    have hs : s ∉ rest := (List.nodup_cons.mp hnd).1
    have sp := grow_spec its.edges s rest.length [s] rest (Nat.le_refl _)
      (fun x hx => by rw [List.mem_singleton] at hx; subst hx; exact Reach.refl _)
    constructor
    · intro h
      refine ⟨by simp, ?_⟩
      have hempty : (grow its.edges rest.length [s] rest).2 = [] := List.isEmpty_iff.mp h
      have hall : ∀ x ∈ s :: rest, Reach its.edges s x := by
        intro x hx
        have : x ∈ [s] ∨ x ∈ rest := by
          rcases List.mem_cons.mp hx with rfl | h
          · left; simp
          · right; exact h
        rcases (sp.union x).mpr this with h1 | h2
        · exact sp.reach x h1
        · rw [hempty] at h2; simp at h2
      intro a ha b hb
      exact (hall a ha).symm.trans (hall b hb)
    · rintro ⟨_, hconn⟩
      rw [List.isEmpty_iff]
      -- everything reached from `s` lies in the first component and not in the second
      have key : ∀ x, Reach its.edges s x →
          x ∈ (grow its.edges rest.length [s] rest).1 ∧ x ∉ (grow its.edges rest.length [s] rest).2 := by
        intro x hx
        induction hx with
        | refl => exact ⟨sp.sup s (by simp), fun h => hs (sp.sub s h)⟩
        | step _ hadj ih =>
          rename_i b c _
          have hc : c ∈ s :: rest := by
            unfold adjacent at hadj
            obtain ⟨e, he, hh⟩ := List.any_eq_true.mp hadj
            have := hw.ends e he
            rw [hn] at this
            rw [hit_iff] at hh
            rcases hh with ⟨_, e2⟩ | ⟨e1, _⟩
            · rw [← e2]; exact this.2
            · rw [← e1]; exact this.1
          have hc' : c ∈ [s] ∨ c ∈ rest := by
            rcases List.mem_cons.mp hc with rfl | h
            · left; simp
            · right; exact h
          have hnot : c ∉ (grow its.edges rest.length [s] rest).2 := by
            intro h2
            have := sp.closed c h2 b ih.1
            rw [this] at hadj; exact absurd hadj (by simp)
          rcases (sp.union c).mpr hc' with h1 | h2
          · exact ⟨h1, hnot⟩
          · exact absurd h2 hnot
      cases hr : (grow its.edges rest.length [s] rest).2 with
      | nil => rfl
      | cons n ns =>
        exfalso
        have hn2 : n ∈ (grow its.edges rest.length [s] rest).2 := by rw [hr]; simp
        have hnrest := sp.sub n hn2
        have := key n (hconn s (by simp) n (List.mem_cons_of_mem _ hnrest))
        exact this.2 hn2

end C16
