import FGVerif.Proofs.GenParsedC05
import FGVerif.Proofs.GenParsedC14Pos
import FGVerif.Proofs.GenParsedC14Neg
import FGVerif.Proofs.GenParsedC14Common
import FGVerif.Proofs.GenParsedC14Patterns
/-!
  GenParsed — umbrella: all table obligations that tie the generated parsed tables to the parser model
  (definitions and method: Proofs/GenParsedBase.lean; C05: GenParsedC05.lean; C14: GenParsedC14*.lean, split
  so that lake checks the tables in parallel) + the statement that model and real parser agree on every
  shipped proxy pattern.
-/
namespace GenParsed
open C01 (Str)

/-- **model = real parser on every shipped proxy pattern.**  For every pattern string of the generated
    proxy tables, `Gen.Parsed.proxyPatternsC` (emitted by harness/gen_tables_parsed.py from
    `Parser(use_multigraph=True).parse`) lists the graph the REAL parser makes of it, and the parser
    model returns exactly that graph. -/
theorem proxy_patterns_parsed :
    ∀ s ∈ patternsOf Gen.C14.daPos Gen.C14.daPosCores ++ patternsOf Gen.C14.daNeg Gen.C14.daNegCores ++
        patternsOf Gen.C14.common [],
      ∃ sg ∈ Gen.Parsed.proxyPatternsC, s = String.ofList sg.1 ∧ C01.parse ⟨true, false⟩ s 0 = .ok sg.2 := by
  intro s hs
  have hnil : ([] : List ProxyGraphRow) = ([] : List ProxyGraphRowC).map ProxyGraphRowC.toS := rfl
  rw [da_pos_chars.1, da_pos_chars.2, da_neg_chars.1, da_neg_chars.2, common_chars, hnil,
    patternsOf_toS, patternsOf_toS, patternsOf_toS, ← List.map_append, ← List.map_append] at hs
  obtain ⟨cs, hcs, rfl⟩ := List.mem_map.mp hs
  obtain ⟨sg, hsg, hsg1⟩ := List.mem_map.mp (proxy_patterns_cover_fast.1 cs hcs)
  refine ⟨sg, hsg, by rw [hsg1], ?_⟩
  rw [← hsg1]
  exact fastParse_sound _ _ _ (proxy_patterns_fast sg hsg)

/-- test (non-vacuity): the tables the obligations range over are not empty (no sizes are fixed here: the
    tables are regenerated from the source, a consistent edit of a collection must not break the build) -/
example : Gen.Parsed.proxyPatternsC ≠ [] ∧ Gen.C14.daPos ≠ [] ∧ Gen.C14.daPosCores ≠ [] ∧ Gen.C14.daNeg ≠ [] ∧
    Gen.C14.common ≠ [] := by
  refine ⟨?_, ?_, ?_, ?_, ?_⟩ <;> exact fun h => nomatch h

/-- test: the intermolecular core has its two group nodes, in node order -/
example : ProxyGraphFromC [['d'], ['x'], ['e']]
    (['{', 'd', '}', '1', '<', '0', ',', '1', '>', '{', 'e', ',', 'y', '}', '<', '0', ',', '1', '>', '1'],
      [0, 1], [["d"], ["e"]]) := by decide +kernel

/-- test: a wrong reference list is refuted -/
example : ¬ ProxyGraphFromC [['d'], ['e']]
    (['{', 'd', '}', '1', '<', '0', ',', '1', '>', '{', 'e', '}', '<', '0', ',', '1', '>', '1'],
      [0], [["e"], ["d"]]) := by decide +kernel

end GenParsed
