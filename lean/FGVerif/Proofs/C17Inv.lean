import FGVerif.Proofs.C17Basic
/-!
  C17 — the invariant of `enumerateCIS` and what follows from it directly:
  every yielded list is reached in a state satisfying `Inv`, the `assert` never fails, fuel
  `= number of vertices` suffices, yielded sequences are pairwise distinct.
-/
namespace C17

/-- `v` is a neighbour of `u` in the relabelled graph -/
def Adj (adj : List (List Nat)) (u v : Nat) : Prop := v ∈ nbrs adj u

/-- simple graph on the vertices `0 … adj.length-1` -/
structure WF (adj : List (List Nat)) : Prop where
  lt : ∀ u v, Adj adj u v → v < adj.length
  symm : ∀ u v, Adj adj u v → Adj adj v u
  irrefl : ∀ u, ¬ Adj adj u u
  nodup : ∀ u, (nbrs adj u).Nodup

theorem nbrs_ge (adj : List (List Nat)) (u : Nat) (h : adj.length ≤ u) : nbrs adj u = [] := by
  simp [nbrs, List.getD_eq_getElem?_getD, List.getElem?_eq_none h]

/-- the decidable predicate the driver evaluates on real inputs implies `WF` -/
theorem wellFormed_WF (adj : List (List Nat)) (h : wellFormed adj = true) : WF adj := by
  simp only [wellFormed, List.all_eq_true, List.mem_range, Bool.and_eq_true, decide_eq_true_eq,
    bne_iff_ne, ne_eq, List.contains_eq_mem] at h
  have hlt : ∀ u v, Adj adj u v → u < adj.length := by
    intro u v huv
    apply Classical.byContradiction
    intro hn
    have : nbrs adj u = [] := nbrs_ge adj u (by omega)
    simp [Adj, this] at huv
  refine ⟨?_, ?_, ?_, ?_⟩
  · intro u v huv
    exact ((h u (hlt u v huv)).2 v huv).1.1
  · intro u v huv
    exact ((h u (hlt u v huv)).2 v huv).2
  · intro u huu
    exact ((h u (hlt u u huu)).2 u huu).1.2 rfl
  · intro u
    by_cases hu : u < adj.length
    · exact (h u hu).1
    · rw [nbrs_ge adj u (by omega)]; exact List.nodup_nil

/-! ### the distance array -/

theorem dget_set_ne (D : List Dist) (u w : Nat) (x : Dist) (h : u ≠ w) :
    dget (D.set u x) w = dget D w := by
  simp [dget, List.getD_eq_getElem?_getD, h]

theorem dget_set_eq (D : List Dist) (u : Nat) (x : Dist) (h : u < D.length) :
    dget (D.set u x) u = x := by
  simp [dget, List.getD_eq_getElem?_getD, h]

theorem dget_lt (D : List Dist) (u d : Nat) (h : dget D u = some d) : u < D.length := by
  apply Classical.byContradiction
  intro hn
  simp [dget, List.getD_eq_getElem?_getD, List.getElem?_eq_none (Nat.le_of_not_lt hn)] at h

/-- the relabelling loop never trips the `assert` when the new candidates are unlabelled, and it
    changes exactly their labels -/
theorem relabelD_spec (dv : Dist) : ∀ (L : List Nat) (D : List Dist), L.Nodup →
    (∀ u ∈ L, dget D u = none) →
    ∃ D', relabelD dv L D = some D' ∧ D'.length = D.length ∧
      (∀ w ∈ L, w < D.length → dget D' w = dsucc dv) ∧ (∀ w, w ∉ L → dget D' w = dget D w) := by
  intro L
  induction L with
  | nil => intro D _ _; exact ⟨D, rfl, rfl, by simp, by simp⟩
  | cons u rest ih =>
    intro D hnd hnone
    rw [List.nodup_cons] at hnd
    have hu : dget D u = none := hnone u List.mem_cons_self
    have hrest : ∀ w ∈ rest, dget (D.set u (dsucc dv)) w = none := by
      intro w hw
      have hne : u ≠ w := fun e => hnd.1 (e ▸ hw)
      rw [dget_set_ne _ _ _ _ hne]
      exact hnone w (List.mem_cons_of_mem _ hw)
    obtain ⟨D', h1, h2, h3, h4⟩ := ih (D.set u (dsucc dv)) hnd.2 hrest
    refine ⟨D', ?_, ?_, ?_, ?_⟩
    · simp only [relabelD, hu]
      have : dle (dsucc dv) none = true := by cases dsucc dv <;> rfl
      simp [this, h1]
    · simpa using h2
    · intro w hw hlt
      rcases List.mem_cons.mp hw with e | e
      · subst e
        rw [h4 w hnd.1]
        exact dget_set_eq D w _ hlt
      · exact h3 w e (by simpa using hlt)
    · intro w hw
      have hwu : u ≠ w := fun e => hw (e ▸ List.mem_cons_self)
      have hwr : w ∉ rest := fun e => hw (List.mem_cons_of_mem _ e)
      rw [h4 w hwr, dget_set_ne _ _ _ _ hwu]

/-! ### the order `(D, id)` -/

/-- `(D[a], a) < (D[b], b)` lexicographically, both labels finite -/
def KeyLt (D : List Dist) (a b : Nat) : Prop :=
  ∃ x y, dget D a = some x ∧ dget D b = some y ∧ (x < y ∨ (x = y ∧ a < b))

theorem KeyLt.asymm {D a b} (h1 : KeyLt D a b) (h2 : KeyLt D b a) : False := by
  obtain ⟨x, y, hx, hy, h⟩ := h1
  obtain ⟨y', x', hy', hx', h'⟩ := h2
  rw [hx] at hx'; rw [hy] at hy'
  cases hx'; cases hy'
  omega

theorem KeyLt.trans {D a b c} (h1 : KeyLt D a b) (h2 : KeyLt D b c) : KeyLt D a c := by
  obtain ⟨x, y, hx, hy, h⟩ := h1
  obtain ⟨y', z, hy', hz, h'⟩ := h2
  rw [hy] at hy'; cases hy'
  exact ⟨x, z, hx, hz, by omega⟩

theorem KeyLt.congr {D D' a b} (ha : dget D' a = dget D a) (hb : dget D' b = dget D b)
    (h : KeyLt D a b) : KeyLt D' a b := by
  obtain ⟨x, y, hx, hy, h⟩ := h
  exact ⟨x, y, by rw [ha, hx], by rw [hb, hy], h⟩

theorem KeyLt.le {D a b x y} (h : KeyLt D a b) (hx : dget D a = some x) (hy : dget D b = some y) :
    x ≤ y := by
  obtain ⟨x', y', hx', hy', h⟩ := h
  rw [hx] at hx'; rw [hy] at hy'; cases hx'; cases hy'; omega

/-- `is_valid_extension` is the comparison `(D[x], x) < (D[v], v)` with the last added vertex -/
theorem isValid_iff (T : List Nat) (U : List Nat) (hU : U = 0 :: T) (x v : Nat) (D : List Dist)
    (hx : U.getLast? = some x) (a b : Nat) (hv : dget D v = some a) (hb : dget D x = some b) :
    isValidExtension U v D = true ↔ KeyLt D x v := by
  have hlast : U.getLastD 0 = x := by simp [hx]
  have hhead : U.headD 0 = 0 := by simp [hU]
  simp only [isValidExtension, isExistingExtension, hlast, hhead, hv, hb, dgt, Nat.not_lt_zero,
    if_false]
  constructor
  · intro h
    refine ⟨b, a, hb, hv, ?_⟩
    by_cases hab : a > b
    · left; exact hab
    · simp only [hab, decide_false, Bool.false_eq_true, if_false, Bool.not_not, Bool.and_eq_true,
        beq_iff_eq, decide_eq_true_eq, Option.some.injEq] at h
      right; exact ⟨h.1.symm, h.2⟩
  · intro h
    obtain ⟨b', a', hb', ha', h⟩ := h
    rw [hb] at hb'; rw [hv] at ha'; cases hb'; cases ha'
    by_cases hab : a > b
    · simp [hab]
    · have : a = b ∧ x < v := by omega
      simp [this.1, this.2]

/-! ### the invariant -/

/-- the state `(U, C, D)` of a call of `enumerateCIS` on a simple graph with anchor `0` -/
structure Inv (adj : List (List Nat)) (U C : List Nat) (D : List Dist) : Prop where
  len : D.length = adj.length
  head : ∃ T, U = 0 :: T
  nodupU : U.Nodup
  nodupC : C.Nodup
  /-- `C` is exactly the set of vertices (other than the anchor) adjacent to `U` -/
  memC : ∀ c, c ∈ C ↔ c ≠ 0 ∧ ∃ u ∈ U, Adj adj u c
  subC : ∀ u ∈ U, u = 0 ∨ u ∈ C
  d0 : dget D 0 = some 0
  dnone : ∀ c, c ∉ C → c ≠ 0 → dget D c = none
  /-- the label of a candidate is one more than the label of its first neighbour in `U` -/
  label : ∀ c ∈ C, ∃ U1 p U2 d, U = U1 ++ p :: U2 ∧ Adj adj p c ∧ (∀ u ∈ U1, ¬ Adj adj u c) ∧
    dget D p = some d ∧ dget D c = some (d + 1)
  /-- `U` is strictly increasing in `(D, id)` -/
  sorted : U.Pairwise (KeyLt D)

theorem Inv.zero_mem {adj U C D} (h : Inv adj U C D) : 0 ∈ U := by
  obtain ⟨T, hT⟩ := h.head; simp [hT]

theorem Inv.n_pos {adj U C D} (h : Inv adj U C D) : 0 < adj.length := by
  rw [← h.len]; exact dget_lt D 0 0 h.d0

theorem Inv.hasLabel {adj U C D} (h : Inv adj U C D) : ∀ u ∈ U, ∃ d, dget D u = some d := by
  intro u hu
  rcases h.subC u hu with e | e
  · subst e; exact ⟨0, h.d0⟩
  · obtain ⟨_, _, _, d, _, _, _, _, hd⟩ := h.label u e
    exact ⟨d + 1, hd⟩

theorem Inv.mem_lt {adj U C D} (hwf : WF adj) (h : Inv adj U C D) : ∀ u ∈ U, u < adj.length := by
  intro u hu
  rcases h.subC u hu with e | e
  · subst e; exact h.n_pos
  · obtain ⟨_, w, _, hadj⟩ := (h.memC u).1 e
    exact hwf.lt w u hadj

theorem Inv.length_le {adj U C D} (hwf : WF adj) (h : Inv adj U C D) : U.length ≤ adj.length := by
  have := List.Nodup.length_le_of_subset h.nodupU (l₂ := List.range adj.length)
    (fun x hx => List.mem_range.mpr (h.mem_lt hwf x hx))
  simpa using this

theorem mem_newCands (adj : List (List Nat)) (U C : List Nat) (v u : Nat) :
    u ∈ newCands adj U C v ↔ Adj adj v u ∧ u ∉ C ∧ u ∉ U := by
  simp [newCands, Adj, List.mem_filter]

theorem last_max {α} {R : α → α → Prop} {U : List α} {x : α} (h : U.Pairwise R)
    (hx : U.getLast? = some x) : ∀ a ∈ U, a = x ∨ R a x := by
  obtain ⟨ys, rfl⟩ := List.getLast?_eq_some_iff.mp hx
  rw [List.pairwise_append] at h
  intro a ha
  rcases List.mem_append.mp ha with e | e
  · right; exact h.2.2 a e x (by simp)
  · left; simpa using e

/-- the initial state of `_node_induced_connected_subgraphs(G, 0)` -/
theorem initD_spec (n : Nat) : ∀ (C : List Nat) (D : List Dist), D.length = n → (∀ c ∈ C, c < n) →
    (C.foldl (fun D c => D.set c (some 1)) D).length = n ∧
    ∀ w, dget (C.foldl (fun D c => D.set c (some 1)) D) w = if w ∈ C then some 1 else dget D w := by
  intro C
  induction C with
  | nil => intro D h _; exact ⟨h, by simp⟩
  | cons c rest ih =>
    intro D hlen hlt
    have hc : c < n := hlt c List.mem_cons_self
    obtain ⟨h1, h2⟩ := ih (D.set c (some 1)) (by simpa using hlen)
      (fun x hx => hlt x (List.mem_cons_of_mem _ hx))
    refine ⟨by simpa using h1, ?_⟩
    intro w
    simp only [List.foldl_cons, h2 w, List.mem_cons]
    by_cases hw : w ∈ rest
    · simp [hw]
    · by_cases hwc : w = c
      · subst hwc; simp [hw, dget_set_eq D w _ (by omega)]
      · have : c ≠ w := fun e => hwc e.symm
        simp [hw, hwc, dget_set_ne D c w _ this]

theorem Inv.initial {adj : List (List Nat)} (hwf : WF adj) (hpos : 0 < adj.length) :
    Inv adj [0] (nbrs adj 0) (initD adj.length 0 (nbrs adj 0)) := by
  have hlt : ∀ c ∈ nbrs adj 0, c < adj.length := fun c hc => hwf.lt 0 c hc
  have hbase : ((List.replicate adj.length (none : Dist)).set 0 (some 0)).length = adj.length := by simp
  obtain ⟨h1, h2⟩ := initD_spec adj.length (nbrs adj 0) _ hbase hlt
  have h0 : 0 ∉ nbrs adj 0 := hwf.irrefl 0
  have hb0 : dget ((List.replicate adj.length (none : Dist)).set 0 (some 0)) 0 = some 0 :=
    dget_set_eq _ 0 _ (by simpa using hpos)
  have hbw : ∀ w, w ≠ 0 → dget ((List.replicate adj.length (none : Dist)).set 0 (some 0)) w = none := by
    intro w hw
    rw [dget_set_ne _ _ _ _ (fun e => hw e.symm)]
    simp only [dget, List.getD_eq_getElem?_getD, List.getElem?_replicate]
    split <;> rfl
  refine ⟨h1, ⟨[], rfl⟩, by simp, hwf.nodup 0, ?_, by simp, ?_, ?_, ?_, by simp⟩
  · intro c
    constructor
    · intro hc
      exact ⟨fun e => h0 (e ▸ hc), 0, by simp, hc⟩
    · rintro ⟨_, u, hu, hadj⟩
      have : u = 0 := by simpa using hu
      subst this; exact hadj
  · show dget (initD adj.length 0 (nbrs adj 0)) 0 = some 0
    unfold initD
    rw [h2 0]; simp [h0, hb0]
  · intro c hc hc0
    show dget (initD adj.length 0 (nbrs adj 0)) c = none
    unfold initD
    rw [h2 c]; simp [hc, hbw c hc0]
  · intro c hc
    refine ⟨[], 0, [], 0, rfl, hc, by simp, ?_, ?_⟩
    · show dget (initD adj.length 0 (nbrs adj 0)) 0 = some 0
      unfold initD
      rw [h2 0]; simp [h0, hb0]
    · show dget (initD adj.length 0 (nbrs adj 0)) c = some 1
      unfold initD
      rw [h2 c]; simp [hc]

/-- **one extension step preserves the invariant, and its `assert`s hold** -/
theorem Inv.step {adj U C D} (hwf : WF adj) (h : Inv adj U C D) {v : Nat} (hvC : v ∈ C)
    (hvU : v ∉ U) (hval : isValidExtension U v D = true) :
    ∃ D', relabelD (dget D v) (newCands adj U C v) D = some D' ∧
      Inv adj (U ++ [v]) (C ++ newCands adj U C v) D' ∧
      (∀ w, w ∈ C ∨ w = 0 → dget D' w = dget D w) := by
  have h0U := h.zero_mem
  have hN : ∀ u, u ∈ newCands adj U C v ↔ Adj adj v u ∧ u ∉ C ∧ u ∉ U := mem_newCands adj U C v
  have hNnd : (newCands adj U C v).Nodup := (hwf.nodup v).filter _
  have hNnone : ∀ u ∈ newCands adj U C v, dget D u = none := by
    intro u hu
    obtain ⟨_, huC, huU⟩ := (hN u).1 hu
    exact h.dnone u huC (fun e => huU (e ▸ h0U))
  obtain ⟨D', hD1, hD2, hD3, hD4⟩ := relabelD_spec (dget D v) _ D hNnd hNnone
  obtain ⟨V1, pv, V2, dv, hUv, hadjv, hfirstv, hdpv, hdv⟩ := h.label v hvC
  have hsame : ∀ w, w ∈ C ∨ w = 0 → dget D' w = dget D w := by
    intro w hw
    apply hD4
    intro hwN
    obtain ⟨_, hwC, hwU⟩ := (hN w).1 hwN
    rcases hw with e | e
    · exact hwC e
    · exact hwU (e ▸ h0U)
  have hsameU : ∀ w ∈ U, dget D' w = dget D w := fun w hw =>
    hsame w ((h.subC w hw).elim Or.inr Or.inl)
  have hnew : ∀ w ∈ newCands adj U C v, dget D' w = some (dv + 2) := by
    intro w hw
    have hlt : w < D.length := by rw [h.len]; exact hwf.lt v w ((hN w).1 hw).1
    rw [hD3 w hw hlt, hdv]; rfl
  obtain ⟨T, hT⟩ := h.head
  refine ⟨D', hD1, ⟨by rw [hD2, h.len], ⟨T ++ [v], by rw [hT]; rfl⟩, ?_, ?_, ?_, ?_, ?_, ?_, ?_, ?_⟩, hsame⟩
  · -- nodupU
    rw [List.nodup_append]
    refine ⟨h.nodupU, by simp, ?_⟩
    intro a ha b hb hab
    have : b = v := by simpa using hb
    subst this; subst hab; exact hvU ha
  · -- nodupC
    rw [List.nodup_append]
    refine ⟨h.nodupC, hNnd, ?_⟩
    intro a ha b hb hab
    subst hab
    exact ((hN a).1 hb).2.1 ha
  · -- memC
    intro c
    constructor
    · intro hc
      rcases List.mem_append.mp hc with e | e
      · obtain ⟨hc0, u, hu, hadj⟩ := (h.memC c).1 e
        exact ⟨hc0, u, List.mem_append_left _ hu, hadj⟩
      · obtain ⟨hadj, _, hcU⟩ := (hN c).1 e
        exact ⟨fun e0 => hcU (e0 ▸ h0U), v, by simp, hadj⟩
    · rintro ⟨hc0, u, hu, hadj⟩
      rcases List.mem_append.mp hu with e | e
      · exact List.mem_append_left _ ((h.memC c).2 ⟨hc0, u, e, hadj⟩)
      · have : u = v := by simpa using e
        subst this
        by_cases hcC : c ∈ C
        · exact List.mem_append_left _ hcC
        · apply List.mem_append_right
          refine (hN c).2 ⟨hadj, hcC, ?_⟩
          intro hcU
          rcases h.subC c hcU with e0 | e0
          · exact hc0 e0
          · exact hcC e0
  · -- subC
    intro u hu
    rcases List.mem_append.mp hu with e | e
    · rcases h.subC u e with e0 | e0
      · exact Or.inl e0
      · exact Or.inr (List.mem_append_left _ e0)
    · have : u = v := by simpa using e
      subst this; exact Or.inr (List.mem_append_left _ hvC)
  · -- d0
    rw [hsame 0 (Or.inr rfl)]; exact h.d0
  · -- dnone
    intro c hc hc0
    have hcC : c ∉ C := fun e => hc (List.mem_append_left _ e)
    have hcN : c ∉ newCands adj U C v := fun e => hc (List.mem_append_right _ e)
    rw [hD4 c hcN]; exact h.dnone c hcC hc0
  · -- label
    intro c hc
    rcases List.mem_append.mp hc with e | e
    · obtain ⟨U1, p, U2, d, hU, hadj, hfirst, hdp, hdc⟩ := h.label c e
      have hpU : p ∈ U := by rw [hU]; simp
      refine ⟨U1, p, U2 ++ [v], d, by rw [hU]; simp, hadj, hfirst, ?_, ?_⟩
      · rw [hsameU p hpU]; exact hdp
      · rw [hsame c (Or.inl e)]; exact hdc
    · obtain ⟨hadj, hcC, hcU⟩ := (hN c).1 e
      have hc0 : c ≠ 0 := fun e0 => hcU (e0 ▸ h0U)
      refine ⟨U, v, [], dv + 1, rfl, hadj, ?_, ?_, hnew c e⟩
      · intro u hu hadju
        exact hcC ((h.memC c).2 ⟨hc0, u, hu, hadju⟩)
      · rw [hsame v (Or.inl hvC)]; exact hdv
  · -- sorted
    rw [List.pairwise_append]
    refine ⟨?_, by simp, ?_⟩
    · exact h.sorted.imp_of_mem fun {a b} ha hb hab => hab.congr (hsameU a ha) (hsameU b hb)
    · intro a ha b hb
      have : b = v := by simpa using hb
      subst this
      have hne : U ≠ [] := by rw [hT]; simp
      obtain ⟨x, hx⟩ : ∃ x, U.getLast? = some x := ⟨U.getLast hne, List.getLast?_eq_some_getLast hne⟩
      have hxU : x ∈ U := List.mem_of_getLast? hx
      obtain ⟨dx, hdx⟩ := h.hasLabel x hxU
      have hkey : KeyLt D x b := (isValid_iff T U hT x b D hx (dv + 1) dx hdv hdx).1 hval
      have hab : KeyLt D a b := by
        rcases last_max h.sorted hx a ha with e | e
        · subst e; exact hkey
        · exact e.trans hkey
      exact hab.congr (hsameU a ha) (hsame b (Or.inl hvC))

/-! ### unfolding the generator -/

/-- the body of the `for v in C` loop -/
def childEvs (adj : List (List Nat)) (fuel : Nat) (U C : List Nat) (D : List Dist)
    (P : List (Option Int)) (v : Nat) : List Ev :=
  if U.contains v then []
  else if isValidExtension U v D then
    match relabelD (dget D v) (newCands adj U C v) D with
    | none => [.assertFail]
    | some D' => enumerateCIS adj fuel (U ++ [v]) (C ++ newCands adj U C v) D'
        (relabelP v (newCands adj U C v) P)
  else []

theorem flatMap_congr' {α β} {f g : α → List β} : ∀ (l : List α), (∀ x ∈ l, f x = g x) →
    l.flatMap f = l.flatMap g := by
  intro l
  induction l with
  | nil => intro _; rfl
  | cons x xs ih =>
    intro h
    simp only [List.flatMap_cons]
    rw [h x List.mem_cons_self, ih (fun y hy => h y (List.mem_cons_of_mem _ hy))]

theorem enumerateCIS_succ (adj : List (List Nat)) (fuel : Nat) (U C : List Nat) (D : List Dist)
    (P : List (Option Int)) :
    enumerateCIS adj (fuel + 1) U C D P = .yield U :: C.flatMap (childEvs adj fuel U C D P) := rfl

/-- under the invariant an event of a call is its own yield or an event of the recursive call
    for a valid extension `v ∈ C \ U`, whose state again satisfies the invariant -/
theorem mem_enum_succ {adj U C D} (hwf : WF adj) (h : Inv adj U C D) (fuel : Nat)
    (P : List (Option Int)) (e : Ev) :
    e ∈ enumerateCIS adj (fuel + 1) U C D P ↔
      e = .yield U ∨ ∃ v ∈ C, v ∉ U ∧ isValidExtension U v D = true ∧
        ∃ D', relabelD (dget D v) (newCands adj U C v) D = some D' ∧
          Inv adj (U ++ [v]) (C ++ newCands adj U C v) D' ∧
          (∀ w, w ∈ C ∨ w = 0 → dget D' w = dget D w) ∧
          e ∈ enumerateCIS adj fuel (U ++ [v]) (C ++ newCands adj U C v) D'
            (relabelP v (newCands adj U C v) P) := by
  rw [enumerateCIS_succ, List.mem_cons, List.mem_flatMap]
  constructor
  · rintro (h1 | ⟨v, hvC, hv⟩)
    · exact Or.inl h1
    · right
      unfold childEvs at hv
      by_cases hvU : v ∈ U
      · simp [hvU] at hv
      · by_cases hval : isValidExtension U v D = true
        · obtain ⟨D', hD', hInv, hsame⟩ := h.step hwf hvC hvU hval
          simp only [List.contains_eq_mem, hvU, decide_false, Bool.false_eq_true, if_false, hval,
            if_true, hD'] at hv
          exact ⟨v, hvC, hvU, hval, D', hD', hInv, hsame, hv⟩
        · simp [hvU, hval] at hv
  · rintro (h1 | ⟨v, hvC, hvU, hval, D', hD', _, _, he⟩)
    · exact Or.inl h1
    · right
      refine ⟨v, hvC, ?_⟩
      unfold childEvs
      simp only [List.contains_eq_mem, hvU, decide_false, Bool.false_eq_true, if_false, hval,
        if_true, hD']
      exact he

theorem mem_yields (evs : List Ev) (Y : List Nat) : Y ∈ yields evs ↔ Ev.yield Y ∈ evs := by
  induction evs with
  | nil => simp [yields]
  | cons e rest ih =>
    cases e with
    | yield U => simp [yields, ih]
    | assertFail => simp [yields, ih]
    | outOfFuel => simp [yields, ih]

theorem yields_append (a b : List Ev) : yields (a ++ b) = yields a ++ yields b := by
  induction a with
  | nil => rfl
  | cons e rest ih => cases e <;> simp [yields, ih]

theorem yields_flatMap {α} (f : α → List Ev) (l : List α) :
    yields (l.flatMap f) = l.flatMap fun x => yields (f x) := by
  induction l with
  | nil => rfl
  | cons x xs ih => simp [List.flatMap_cons, yields_append, ih]

/-- when no failure event occurs, `collect` returns exactly the yields -/
theorem collect_ok (evs : List Ev) (h1 : Ev.assertFail ∉ evs) (h2 : Ev.outOfFuel ∉ evs) :
    collect evs = .ok (yields evs) := by
  induction evs with
  | nil => rfl
  | cons e rest ih =>
    cases e with
    | yield U =>
      have := ih (fun h => h1 (List.mem_cons_of_mem _ h)) (fun h => h2 (List.mem_cons_of_mem _ h))
      simp [collect, yields, this]
    | assertFail => exact absurd List.mem_cons_self h1
    | outOfFuel => exact absurd List.mem_cons_self h2

/-! ### consequences of the invariant for every event -/

/-- every yielded list is the `U` of a state satisfying the invariant -/
theorem yields_inv {adj} (hwf : WF adj) : ∀ (fuel : Nat) (U C : List Nat) (D : List Dist)
    (P : List (Option Int)), Inv adj U C D →
    ∀ Y, Ev.yield Y ∈ enumerateCIS adj fuel U C D P → ∃ C' D', Inv adj Y C' D' := by
  intro fuel
  induction fuel with
  | zero => intro U C D P _ Y hY; simp [enumerateCIS] at hY
  | succ fuel ih =>
    intro U C D P h Y hY
    rcases (mem_enum_succ hwf h fuel P _).1 hY with e | ⟨v, _, _, _, D', _, hInv, _, he⟩
    · cases e; exact ⟨C, D, h⟩
    · exact ih _ _ _ _ hInv Y he

/-- the `assert` never fails -/
theorem no_assertFail {adj} (hwf : WF adj) : ∀ (fuel : Nat) (U C : List Nat) (D : List Dist)
    (P : List (Option Int)), Inv adj U C D → Ev.assertFail ∉ enumerateCIS adj fuel U C D P := by
  intro fuel
  induction fuel with
  | zero => intro U C D P _ h; simp [enumerateCIS] at h
  | succ fuel ih =>
    intro U C D P h hmem
    rcases (mem_enum_succ hwf h fuel P _).1 hmem with e | ⟨v, _, _, _, D', _, hInv, _, he⟩
    · cases e
    · exact ih _ _ _ _ hInv he

/-- the recursion depth is bounded by the number of vertices not yet in `U` -/
theorem no_outOfFuel {adj} (hwf : WF adj) : ∀ (fuel : Nat) (U C : List Nat) (D : List Dist)
    (P : List (Option Int)), Inv adj U C D → adj.length + 1 ≤ fuel + U.length →
    Ev.outOfFuel ∉ enumerateCIS adj fuel U C D P := by
  intro fuel
  induction fuel with
  | zero =>
    intro U C D P h hf _
    have := h.length_le hwf
    omega
  | succ fuel ih =>
    intro U C D P h hf hmem
    rcases (mem_enum_succ hwf h fuel P _).1 hmem with e | ⟨v, _, _, _, D', _, hInv, _, he⟩
    · cases e
    · exact ih _ _ _ _ hInv (by simp; omega) he

/-- more fuel than needed changes nothing: the events are the same for every sufficient fuel -/
theorem fuel_irrelevant {adj} (hwf : WF adj) : ∀ (fuel fuel' : Nat) (U C : List Nat) (D : List Dist)
    (P : List (Option Int)), Inv adj U C D → adj.length + 1 ≤ fuel + U.length →
    adj.length + 1 ≤ fuel' + U.length →
    enumerateCIS adj fuel U C D P = enumerateCIS adj fuel' U C D P := by
  intro fuel
  induction fuel with
  | zero => intro fuel' U C D P h hf _; have := h.length_le hwf; omega
  | succ fuel ih =>
    intro fuel' U C D P h hf hf'
    cases fuel' with
    | zero => have := h.length_le hwf; omega
    | succ fuel' =>
      rw [enumerateCIS_succ, enumerateCIS_succ]
      congr 1
      apply flatMap_congr'
      intro v hvC
      unfold childEvs
      by_cases hvU : v ∈ U
      · simp [hvU]
      · by_cases hval : isValidExtension U v D = true
        · obtain ⟨D', hD', hInv, _⟩ := h.step hwf hvC hvU hval
          simp only [List.contains_eq_mem, hvU, decide_false, Bool.false_eq_true, if_false, hval,
            if_true, hD']
          exact ih fuel' _ _ _ _ hInv (by simp; omega) (by simp; omega)
        · simp [hvU, hval]

/-- every yield of a call starts with the call's `U` -/
theorem yields_prefix {adj} : ∀ (fuel : Nat) (U C : List Nat) (D : List Dist)
    (P : List (Option Int)), ∀ Y, Ev.yield Y ∈ enumerateCIS adj fuel U C D P → U <+: Y := by
  intro fuel
  induction fuel with
  | zero => intro U C D P Y hY; simp [enumerateCIS] at hY
  | succ fuel ih =>
    intro U C D P Y hY
    rw [enumerateCIS_succ, List.mem_cons, List.mem_flatMap] at hY
    rcases hY with e | ⟨v, _, hv⟩
    · cases e; exact List.prefix_refl _
    · unfold childEvs at hv
      split at hv
      · simp at hv
      · split at hv
        · split at hv
          · simp at hv
          · have := ih _ _ _ _ Y hv
            exact (List.prefix_append U [v]).trans this
        · simp at hv

/-- the yielded sequences of a call are pairwise distinct -/
theorem yields_distinct {adj} (hwf : WF adj) : ∀ (fuel : Nat) (U C : List Nat) (D : List Dist)
    (P : List (Option Int)), Inv adj U C D →
    (yields (enumerateCIS adj fuel U C D P)).Pairwise (· ≠ ·) := by
  intro fuel
  induction fuel with
  | zero => intro U C D P _; simp [enumerateCIS, yields]
  | succ fuel ih =>
    intro U C D P h
    rw [enumerateCIS_succ]
    simp only [yields, yields_flatMap]
    rw [List.pairwise_cons, List.pairwise_flatMap]
    have hchild : ∀ v ∈ C, ∀ Y ∈ yields (childEvs adj fuel U C D P v), (U ++ [v]) <+: Y := by
      intro v _ Y hY
      rw [mem_yields] at hY
      unfold childEvs at hY
      split at hY
      · simp at hY
      · split at hY
        · split at hY
          · simp at hY
          · exact yields_prefix _ _ _ _ _ Y hY
        · simp at hY
    refine ⟨?_, ?_, ?_⟩
    · intro Y hY
      rw [List.mem_flatMap] at hY
      obtain ⟨v, hvC, hY⟩ := hY
      have hp := hchild v hvC Y hY
      intro e
      subst e
      have := hp.length_le
      simp at this
      omega
    · intro v hvC
      unfold childEvs
      by_cases hvU : v ∈ U
      · simp [hvU, yields]
      · by_cases hval : isValidExtension U v D = true
        · obtain ⟨D', hD', hInv, _⟩ := h.step hwf hvC hvU hval
          simp only [List.contains_eq_mem, hvU, decide_false, Bool.false_eq_true, if_false, hval,
            if_true, hD']
          exact ih _ _ _ _ hInv
        · simp [hvU, hval, yields]
    · apply h.nodupC.imp_of_mem
      intro v v' hv hv' hne Y hY Y' hY' e
      subst e
      have h1 := hchild v hv Y hY
      have h2 := hchild v' hv' Y hY'
      have := List.prefix_of_prefix_length_le h1 h2 (by simp)
      have := this.eq_of_length (by simp)
      simp at this
      exact hne this

end C17
