import FGVerif.Proofs.C11Reach
/-!
  C11 — reaction centre and radius pruning are exact.

  Property theorems (about `Model/C11.lean`):

  * `C11.unreachable_exact`  for every graph with pairwise distinct node ids (any ids), every start
      list and every `r ≥ 0`: `v` is reported unreachable  ↔  `v` is a node and no start node has
      shortest-path distance `≤ r` to `v`
  * `C11.unreachable_iff_not_within`  the same with the breadth-first reading
  * `C11.unreachable_dist`   the same with an explicit distance: every distance from a start node exceeds `r`
  * `C11.start_nodes_never_unreachable`
  * `C11.specUnreachable_sound`  the checker the driver applies to implementation outputs implies the spec
-/
namespace C11
open Reach

/-! ### graphs as vertex predicate + adjacency count -/

/-- the vertices of a graph -/
def GV (g : Graph) : Int → Prop := fun v => v ∈ g.nodeIds

/-- a walk with `k` bonds in `g` -/
abbrev GWalk (g : Graph) : Nat → Int → Int → Prop := Walk (GV g) (adjCount g)

/-- the shortest-path distance from `s` to `v` in `g` is at most `r` -/
abbrev GDistLe (g : Graph) (s v : Int) (r : Nat) : Prop := DistLe (GV g) (adjCount g) s v r

/-- `d` is the shortest-path distance from `s` to `v` in `g` -/
abbrev GIsDist (g : Graph) (s v : Int) (d : Nat) : Prop := IsDist (GV g) (adjCount g) s v d

/-- breadth-first: `v` is within `r` steps of the start list `S` -/
abbrev GWithin (g : Graph) (S : List Int) (r : Nat) (v : Int) : Prop :=
  Within (GV g) (adjCount g) (fun s => s ∈ S) r v

/-- **specification of `get_unreachable_nodes`** (no reference to matrices): the reported nodes are
    exactly the nodes whose distance from every start node exceeds `r` -/
def UnreachableSpec (g : Graph) (S : List Int) (r : Nat) (out : List Int) : Prop :=
  ∀ v, v ∈ out ↔ v ∈ g.nodeIds ∧ ∀ s, s ∈ S → ¬ GDistLe g s v r

/-! ### the sorted node list and its index maps -/

theorem insertSorted_perm (x : Int) (l : List Int) : (insertSorted x l).Perm (x :: l) := by
  induction l with
  | nil => exact List.Perm.refl _
  | cons y ys ih =>
    simp only [insertSorted]
    split
    · exact List.Perm.refl _
    · exact ((List.Perm.cons y ih).trans (List.Perm.swap x y ys))

theorem sortedIds_perm (g : Graph) : (sortedIds g).Perm g.nodeIds := by
  unfold sortedIds
  induction g.nodeIds with
  | nil => exact List.Perm.refl _
  | cons x l ih => exact (insertSorted_perm x _).trans (List.Perm.cons x ih)

/-- the node list the matrix is indexed by is ascending -/
theorem insertSorted_sorted (x : Int) (l : List Int) (h : l.Pairwise (· ≤ ·)) :
    (insertSorted x l).Pairwise (· ≤ ·) := by
  induction l with
  | nil => simp [insertSorted]
  | cons y ys ih =>
    simp only [insertSorted]
    have hy := List.pairwise_cons.mp h
    split
    · rename_i hxy
      refine List.pairwise_cons.mpr ⟨?_, h⟩
      intro z hz
      rcases List.mem_cons.mp hz with rfl | hz
      · exact hxy
      · exact Int.le_trans hxy (hy.1 z hz)
    · rename_i hxy
      refine List.pairwise_cons.mpr ⟨?_, ih hy.2⟩
      intro z hz
      rcases List.mem_cons.mp ((insertSorted_perm x ys).mem_iff.mp hz) with rfl | hz
      · omega
      · exact hy.1 z hz

theorem sortedIds_sorted (g : Graph) : (sortedIds g).Pairwise (· ≤ ·) := by
  unfold sortedIds
  induction g.nodeIds with
  | nil => exact List.Pairwise.nil
  | cons x l ih => exact insertSorted_sorted x _ ih

theorem mem_sortedIds (g : Graph) (x : Int) : x ∈ sortedIds g ↔ x ∈ g.nodeIds := (sortedIds_perm g).mem_iff

theorem nodup_sortedIds (g : Graph) (h : g.nodeIds.Nodup) : (sortedIds g).Nodup :=
  (sortedIds_perm g).nodup_iff.mpr h

theorem getD_of_lt (nl : List Int) {i : Nat} (hi : i < nl.length) : nl.getD i 0 = nl[i] := by
  simp [List.getD_eq_getElem?_getD, hi]

theorem getD_mem (nl : List Int) {i : Nat} (hi : i < nl.length) : nl.getD i 0 ∈ nl := by
  rw [getD_of_lt nl hi]; exact List.getElem_mem hi

theorem getD_idxOf (nl : List Int) {s : Int} (h : s ∈ nl) : nl.getD (nl.idxOf s) 0 = s := by
  have hlt : nl.idxOf s < nl.length := List.idxOf_lt_length_iff.mpr h
  rw [getD_of_lt nl hlt]; exact List.getElem_idxOf hlt

theorem idxOf_getD (nl : List Int) (hnd : nl.Nodup) {i : Nat} (hi : i < nl.length) :
    nl.idxOf (nl.getD i 0) = i := by
  rw [getD_of_lt nl hi]; exact hnd.idxOf_getElem i hi

/-- the function the adjacency matrix tabulates -/
def aFun (g : Graph) (nl : List Int) (i j : Nat) : Nat := adjCount g (nl.getD i 0) (nl.getD j 0)

theorem adjMatrix_represents (g : Graph) (nl : List Int) : Represents nl.length (adjMatrix g nl) (aFun g nl) :=
  represents_tab _ _

/-- an index walk is a walk in the graph -/
theorem iwalk_to_gwalk (g : Graph) (nl : List Int) (hmem : ∀ x, x ∈ nl ↔ x ∈ g.nodeIds) {k i j : Nat}
    (w : IWalk nl.length (aFun g nl) k i j) : GWalk g k (nl.getD i 0) (nl.getD j 0) :=
  Walk.map (fun i => nl.getD i 0) (fun _ ha => (hmem _).mp (getD_mem nl ha)) (fun _ _ _ _ h => h) w

/-- a walk in the graph is an index walk -/
theorem gwalk_to_iwalk (g : Graph) (nl : List Int) (hmem : ∀ x, x ∈ nl ↔ x ∈ g.nodeIds) {k : Nat} {s v : Int}
    (w : GWalk g k s v) : IWalk nl.length (aFun g nl) k (nl.idxOf s) (nl.idxOf v) :=
  Walk.map (fun x => nl.idxOf x) (fun _ ha => List.idxOf_lt_length_iff.mpr ((hmem _).mpr ha))
    (fun a b ha hb h => by
      simp only [aFun, getD_idxOf nl ((hmem a).mpr ha), getD_idxOf nl ((hmem b).mpr hb)]; exact h) w

theorem colSum_eq_zero_iff (S : Mat) (idx : List Nat) (j : Nat) :
    colSum S idx j = 0 ↔ ∀ i, i ∈ idx → entry S i j = 0 := by
  simp only [colSum, list_sum_eq_zero_iff, List.mem_map]
  constructor
  · intro h i hi; exact h _ ⟨i, hi, rfl⟩
  · rintro h x ⟨i, hi, rfl⟩; exact h i hi

/-- the row of a start node `s` vanishes in column `j` iff `s` has no walk of length `≤ r` to the
    `j`-th node -/
theorem entry_zero_iff (g : Graph) (hnd : g.nodeIds.Nodup) (r : Nat) (s : Int) {j : Nat}
    (hj : j < (sortedIds g).length) :
    entry (powSumMat (sortedIds g).length (adjMatrix g (sortedIds g)) r) ((sortedIds g).idxOf s) j = 0 ↔
      ¬ GDistLe g s ((sortedIds g).getD j 0) r := by
  have hmem := mem_sortedIds g
  have hnd' := nodup_sortedIds g hnd
  by_cases hs : s ∈ g.nodeIds
  · have hi : (sortedIds g).idxOf s < (sortedIds g).length := List.idxOf_lt_length_iff.mpr ((hmem s).mpr hs)
    rw [powSumMat_entry (adjMatrix_represents g _) r hi hj]
    constructor
    · rintro h0 ⟨k, hk, w⟩
      have w' := gwalk_to_iwalk g _ hmem w
      rw [idxOf_getD _ hnd' hj] at w'
      have := (powsum_pos_iff_walk _ _ r hi hj).mpr ⟨k, hk, w'⟩
      omega
    · intro hno
      by_cases hp : 0 < powsum (sortedIds g).length (aFun g (sortedIds g)) r ((sortedIds g).idxOf s) j
      · obtain ⟨k, hk, w⟩ := (powsum_pos_iff_walk _ _ r hi hj).mp hp
        have w' := iwalk_to_gwalk g _ hmem w
        rw [getD_idxOf _ ((hmem s).mpr hs)] at w'
        exact absurd ⟨k, hk, w'⟩ hno
      · omega
  · have hi : (sortedIds g).length ≤ (sortedIds g).idxOf s := by
      rw [List.idxOf_eq_length (fun h => hs ((hmem s).mp h))]; exact Nat.le_refl _
    rw [powSumMat_entry_oob _ _ r j hi]
    constructor
    · rintro - ⟨k, _, w⟩; exact hs w.left_mem
    · intro _; rfl

/-- **C11.unreachable_exact** — for any node ids (pairwise distinct, as in every networkx graph), any
    start list and any radius `r ≥ 0`: the model of `get_unreachable_nodes` reports `v` iff `v` is a
    node and no start node reaches `v` by a walk of at most `r` bonds (shortest-path distance `> r`). -/
theorem unreachable_exact (g : Graph) (hnd : g.nodeIds.Nodup) (S : List Int) (r : Nat) :
    UnreachableSpec g S r (getUnreachable g S r) := by
  intro v
  have hmem := mem_sortedIds g
  simp only [getUnreachable, List.mem_map, List.mem_filter, List.mem_range, beq_iff_eq]
  constructor
  · rintro ⟨j, ⟨hj, h0⟩, rfl⟩
    refine ⟨(hmem _).mp (getD_mem _ hj), fun s hs => ?_⟩
    have := (colSum_eq_zero_iff _ _ j).mp h0 _ (List.mem_map.mpr ⟨s, hs, rfl⟩)
    exact (entry_zero_iff g hnd r s hj).mp this
  · rintro ⟨hv, hno⟩
    have hj : (sortedIds g).idxOf v < (sortedIds g).length := List.idxOf_lt_length_iff.mpr ((hmem v).mpr hv)
    refine ⟨(sortedIds g).idxOf v, ⟨hj, ?_⟩, getD_idxOf _ ((hmem v).mpr hv)⟩
    rw [colSum_eq_zero_iff]
    intro i hi
    obtain ⟨s, hs, rfl⟩ := List.mem_map.mp hi
    rw [entry_zero_iff g hnd r s hj, getD_idxOf _ ((hmem v).mpr hv)]
    exact hno s hs

/-- the breadth-first reading: reported ↔ node that is not within `r` steps of the start list -/
theorem unreachable_iff_not_within (g : Graph) (hnd : g.nodeIds.Nodup) (S : List Int) (r : Nat) (v : Int) :
    v ∈ getUnreachable g S r ↔ v ∈ g.nodeIds ∧ ¬ GWithin g S r v := by
  rw [unreachable_exact g hnd S r v]
  unfold GWithin
  rw [within_iff_distLe]
  constructor
  · rintro ⟨hv, h⟩; exact ⟨hv, fun ⟨s, hs, hd⟩ => h s hs hd⟩
  · rintro ⟨hv, h⟩; exact ⟨hv, fun s hs hd => h ⟨s, hs, hd⟩⟩

/-- the reading with an explicit distance: every shortest-path distance from a start node to a
    reported node exceeds `r` (and nodes with that property are reported) -/
theorem unreachable_dist (g : Graph) (hnd : g.nodeIds.Nodup) (S : List Int) (r : Nat) (v : Int) :
    v ∈ getUnreachable g S r ↔ v ∈ g.nodeIds ∧ ∀ s, s ∈ S → ∀ d, GIsDist g s v d → r < d := by
  rw [unreachable_exact g hnd S r v]
  constructor
  · rintro ⟨hv, h⟩; exact ⟨hv, fun s hs => not_distLe_iff_dist_gt.mp (h s hs)⟩
  · rintro ⟨hv, h⟩; exact ⟨hv, fun s hs => not_distLe_iff_dist_gt.mpr (h s hs)⟩

/-- **C11.start_nodes_never_unreachable** — a start node is at distance 0, for every `r ≥ 0` -/
theorem start_nodes_never_unreachable (g : Graph) (hnd : g.nodeIds.Nodup) (S : List Int) (r : Nat)
    (s : Int) (hs : s ∈ S) : s ∉ getUnreachable g S r := by
  intro h
  obtain ⟨hv, hno⟩ := (unreachable_exact g hnd S r s).mp h
  exact hno s hs (DistLe.refl hv r)

/-- the reported list has no duplicates and is a sub-list of the sorted node list -/
theorem unreachable_nodup (g : Graph) (hnd : g.nodeIds.Nodup) (S : List Int) (r : Nat) :
    (getUnreachable g S r).Nodup := by
  have hnd' := nodup_sortedIds g hnd
  simp only [getUnreachable]
  rw [List.Nodup, List.pairwise_map]
  refine List.Pairwise.imp_of_mem ?_ (List.nodup_range.filter _)
  intro i j hi hj hne hij
  apply hne
  have hi' := List.mem_range.mp (List.mem_filter.mp hi).1
  have hj' := List.mem_range.mp (List.mem_filter.mp hj).1
  have := congrArg (sortedIds g).idxOf hij
  rwa [idxOf_getD _ hnd' hi', idxOf_getD _ hnd' hj'] at this

/-! ### the executable breadth-first specification -/

theorem hasBond_iff (g : Graph) (u v : Int) : hasBond g u v = true ↔ 0 < adjCount g u v := by
  simp [hasBond]

/-- `withinList` computes the breadth-first layers -/
theorem mem_withinList (g : Graph) (S : List Int) (r : Nat) (v : Int) :
    v ∈ withinList g S r ↔ GWithin g S r v := by
  induction r generalizing v with
  | zero => simp [withinList, GWithin, Within, GV, and_comm]
  | succ r ih =>
    simp only [withinList, List.mem_filter, Bool.or_eq_true, List.contains_eq_mem, decide_eq_true_eq,
      List.any_eq_true, hasBond_iff, GWithin, Within]
    constructor
    · rintro ⟨hv, h | ⟨u, hu, ha⟩⟩
      · exact .inl ((ih v).mp h)
      · exact .inr ⟨hv, u, (ih u).mp hu, ha⟩
    · rintro (h | ⟨hv, u, hu, ha⟩)
      · exact ⟨Within.mem h, .inl ((ih v).mpr h)⟩
      · exact ⟨hv, .inr ⟨u, (ih u).mpr hu, ha⟩⟩

/-- **C11.specUnreachable_sound** — what the driver checks on an implementation output implies the
    specification -/
theorem specUnreachable_sound (g : Graph) (S : List Int) (r : Nat) (out : List Int)
    (h : specUnreachable g S r out = true) : UnreachableSpec g S r out := by
  simp only [specUnreachable, Bool.and_eq_true, List.all_eq_true, List.contains_eq_mem, decide_eq_true_eq,
    Bool.not_eq_true', decide_eq_false_iff_not, Bool.or_eq_true] at h
  obtain ⟨h1, h2⟩ := h
  intro v
  have key : (∀ s, s ∈ S → ¬ GDistLe g s v r) ↔ ¬ GWithin g S r v := by
    unfold GWithin
    rw [within_iff_distLe]
    constructor
    · rintro h ⟨s, hs, hd⟩; exact h s hs hd
    · intro h s hs hd; exact h ⟨s, hs, hd⟩
  rw [key, ← mem_withinList]
  constructor
  · intro hv; exact h1 v hv
  · rintro ⟨hv, hn⟩
    rcases h2 v hv with h | h
    · exact absurd h hn
    · exact h

/-- the model passes its own checker (so the checker is not vacuous) -/
theorem specUnreachable_model (g : Graph) (hnd : g.nodeIds.Nodup) (S : List Int) (r : Nat) :
    specUnreachable g S r (getUnreachable g S r) = true := by
  simp only [specUnreachable, Bool.and_eq_true, List.all_eq_true, List.contains_eq_mem, decide_eq_true_eq,
    Bool.not_eq_true', decide_eq_false_iff_not, Bool.or_eq_true]
  constructor
  · intro v hv
    have := (unreachable_iff_not_within g hnd S r v).mp hv
    exact ⟨this.1, fun h => this.2 ((mem_withinList g S r v).mp h)⟩
  · intro v hv
    by_cases h : v ∈ withinList g S r
    · exact .inl h
    · exact .inr ((unreachable_iff_not_within g hnd S r v).mpr ⟨hv, fun h' => h ((mem_withinList g S r v).mpr h')⟩)

end C11
