import FGVerif.Proofs.C16Base
namespace C16

/-! ### mappings -/

/-- a mapping is a dict (no key twice) and injective (no value twice) -/
structure MatchInj (m : Match) : Prop where
  keys : (m.map (·.1)).Nodup
  vals : (m.map (·.2)).Nodup

theorem getM_cons (p : Int × Int) (m : Match) (u : Int) :
    getM (p :: m) u = if p.1 = u then some p.2 else getM m u := by
  simp only [getM, List.find?_cons]
  by_cases h : p.1 = u
  · simp [h]
  · have : (p.1 == u) = false := by simpa using h
    simp [this, h]

theorem invM_cons (p : Int × Int) (m : Match) (x : Int) :
    invM (p :: m) x = if p.2 = x then some p.1 else invM m x := by
  simp only [invM, List.find?_cons]
  by_cases h : p.2 = x
  · simp [h]
  · have : (p.2 == x) = false := by simpa using h
    simp [this, h]

theorem getM_some_mem (m : Match) (u x : Int) (h : getM m u = some x) : (u, x) ∈ m := by
  induction m with
  | nil => simp [getM] at h
  | cons p m ih =>
    rw [getM_cons] at h
    by_cases hp : p.1 = u
    · simp [hp] at h; subst hp; subst h; simp
    · simp [hp] at h; exact List.mem_cons_of_mem _ (ih h)

theorem invM_some_mem (m : Match) (u x : Int) (h : invM m x = some u) : (u, x) ∈ m := by
  induction m with
  | nil => simp [invM] at h
  | cons p m ih =>
    rw [invM_cons] at h
    by_cases hp : p.2 = x
    · simp [hp] at h; subst hp; subst h; simp
    · simp [hp] at h; exact List.mem_cons_of_mem _ (ih h)

theorem getM_of_mem (m : Match) (hk : (m.map (·.1)).Nodup) (u x : Int) (h : (u, x) ∈ m) :
    getM m u = some x := by
  induction m with
  | nil => simp at h
  | cons p m ih =>
    rw [getM_cons]
    rw [List.map_cons, List.nodup_cons] at hk
    rcases List.mem_cons.mp h with rfl | hm
    · simp
    · have : p.1 ≠ u := by
        intro hc; apply hk.1; rw [hc]; exact List.mem_map.mpr ⟨(u, x), hm, rfl⟩
      simp [this, ih hk.2 hm]

theorem invM_of_mem (m : Match) (hv : (m.map (·.2)).Nodup) (u x : Int) (h : (u, x) ∈ m) :
    invM m x = some u := by
  induction m with
  | nil => simp at h
  | cons p m ih =>
    rw [invM_cons]
    rw [List.map_cons, List.nodup_cons] at hv
    rcases List.mem_cons.mp h with rfl | hm
    · simp
    · have : p.2 ≠ x := by
        intro hc; apply hv.1; rw [hc]; exact List.mem_map.mpr ⟨(u, x), hm, rfl⟩
      simp [this, ih hv.2 hm]

theorem getM_iff_invM (m : Match) (hm : MatchInj m) (u x : Int) : getM m u = some x ↔ invM m x = some u :=
  ⟨fun h => invM_of_mem m hm.vals u x (getM_some_mem m u x h),
   fun h => getM_of_mem m hm.keys u x (invM_some_mem m u x h)⟩

/-! ### `lastHit` -/

theorem lastHit_some (ts : List (E Int)) (u v d : Int) (h : lastHit ts u v = some d) :
    ∃ t ∈ ts, hit t.1 t.2.1 u v = true ∧ t.2.2 = d := by
  induction ts with
  | nil => simp [lastHit] at h
  | cons t ts ih =>
    rw [lastHit] at h
    cases hl : lastHit ts u v with
    | some d' =>
      rw [hl] at h; simp at h; subst h
      obtain ⟨t', ht', h1, h2⟩ := ih hl
      exact ⟨t', List.mem_cons_of_mem _ ht', h1, h2⟩
    | none =>
      rw [hl] at h
      by_cases hh : hit t.1 t.2.1 u v = true
      · simp [hh] at h; exact ⟨t, by simp, hh, h⟩
      · simp [hh] at h

theorem lastHit_isSome (ts : List (E Int)) (u v : Int) (t : E Int) (ht : t ∈ ts)
    (hh : hit t.1 t.2.1 u v = true) : (lastHit ts u v).isSome = true := by
  induction ts with
  | nil => simp at ht
  | cons t' ts ih =>
    rw [lastHit]
    rcases List.mem_cons.mp ht with rfl | hm
    · cases lastHit ts u v <;> simp [hh]
    · have := ih hm
      cases hl : lastHit ts u v with
      | some d => simp
      | none => rw [hl] at this; simp at this

/-! ### the second loop as a fold over the images of `rule.r`'s edges -/

def imageOf (m : Match) (re : E Int) : Option (E Int) :=
  match invM m re.1, invM m re.2.1 with
  | some u, some v => some (u, v, re.2.2)
  | _, _ => none

def images (m : Match) (rs : List (E Int)) : List (E Int) := rs.filterMap (imageOf m)

theorem foldl_overlay_eq (m : Match) (rs : List (E Int)) (es : List (E (Int × Int))) :
    rs.foldl (overlay m) es
      = (images m rs).foldl (fun es t => overlayEdge es t.1 t.2.1 t.2.2) es := by
  induction rs generalizing es with
  | nil => rfl
  | cons re rs ih =>
    rw [List.foldl_cons, ih]
    show _ = List.foldl _ es (List.filterMap (imageOf m) (re :: rs))
    rw [List.filterMap_cons]
    have hov : overlay m es re
        = match imageOf m re with
          | some t => overlayEdge es t.1 t.2.1 t.2.2
          | none => es := by
      unfold overlay imageOf; cases invM m re.1 <;> cases invM m re.2.1 <;> rfl
    rw [hov]
    cases imageOf m re <;> rfl

theorem mem_images (m : Match) (rs : List (E Int)) (t : E Int) :
    t ∈ images m rs ↔ ∃ re ∈ rs, invM m re.1 = some t.1 ∧ invM m re.2.1 = some t.2.1 ∧ re.2.2 = t.2.2 := by
  unfold images
  rw [List.mem_filterMap]
  constructor
  · rintro ⟨re, hre, h⟩
    refine ⟨re, hre, ?_⟩
    unfold imageOf at h
    cases h1 : invM m re.1 <;> cases h2 : invM m re.2.1 <;> simp [h1, h2] at h
    subst h; simp
  · rintro ⟨re, hre, h1, h2, h3⟩
    refine ⟨re, hre, ?_⟩
    unfold imageOf
    simp [h1, h2, h3]

/-- the rule-side view of `lastHit` over the images: the order of the `rs` edge between the
    rule nodes that `u` and `v` are mapped to -/
theorem lastHit_images (m : Match) (hm : MatchInj m) (rs : List (E Int)) (hn : NodupPairs rs) (u v : Int) :
    lastHit (images m rs) u v
      = match getM m u, getM m v with
        | some x, some y => lookupE rs x y
        | _, _ => none := by
  cases hl : lastHit (images m rs) u v with
  | some d =>
    obtain ⟨t, ht, hh, hd⟩ := lastHit_some _ _ _ _ hl
    obtain ⟨re, hre, h1, h2, h3⟩ := (mem_images m rs t).mp ht
    have g1 := (getM_iff_invM m hm t.1 re.1).mpr h1
    have g2 := (getM_iff_invM m hm t.2.1 re.2.1).mpr h2
    rw [hit_iff] at hh
    rcases hh with ⟨e1, e2⟩ | ⟨e1, e2⟩
    · rw [← e1, ← e2, g1, g2]
      simp only
      rw [lookupE_of_mem rs hn re hre re.1 re.2.1 (by simp [hit]), h3, hd]
    · rw [← e1, ← e2, g1, g2]
      simp only
      rw [lookupE_of_mem rs hn re hre re.2.1 re.1 (by simp [hit]), h3, hd]
  | none =>
    cases hu : getM m u with
    | none => rfl
    | some x =>
      cases hv : getM m v with
      | none => rfl
      | some y =>
        simp only
        cases hr : lookupE rs x y with
        | none => rfl
        | some d =>
          exfalso
          obtain ⟨re, hre, hh, _⟩ := lookupE_some_mem rs x y d hr
          have i1 := (getM_iff_invM m hm u x).mp hu
          have i2 := (getM_iff_invM m hm v y).mp hv
          rw [hit_iff] at hh
          rcases hh with ⟨e1, e2⟩ | ⟨e1, e2⟩
          · have : (u, v, re.2.2) ∈ images m rs :=
              (mem_images m rs _).mpr ⟨re, hre, by simpa [e1] using i1, by simpa [e2] using i2, rfl⟩
            have := lastHit_isSome _ u v _ this (by simp [hit])
            rw [hl] at this; simp at this
          · have : (v, u, re.2.2) ∈ images m rs :=
              (mem_images m rs _).mpr ⟨re, hre, by simpa [e1] using i2, by simpa [e2] using i1, rfl⟩
            have := lastHit_isSome _ u v _ this (by simp [hit])
            rw [hl] at this; simp at this

end C16
