import FGVerif.Proofs.C15RcB
import FGVerif.Proofs.C15RcPos
import FGVerif.Proofs.C15RcNeg
/-!
  C15 — the Diels-Alder reaction-centre clause as a THEOREM about the model, without enumerating the samples.

  * `C15.rc_step`            (Proofs/C15RcA.lean) GENERAL, one substitution (`C13.replaceNode`), any graph and any
                             pattern: if no bond of the replaced node changes and no bond of the inserted pattern
                             changes, then between two surviving nodes the result has the parent's labels
                             (`labels_ren`) and the changing labels of the result between any two names are the
                             parent's under the renaming `C13.ren` — nothing changing anywhere else
  * `C15.dacycle_step`, `C15.good_step`, `C15.front_preserved`, `C15.dacycle_finish`  (Proofs/C15RcB.lean) the
                             Diels-Alder centre through one expansion step, through the loop, through `finish`
  * `C15.rc_shape_general`   ANY configuration: a closed set `S` of groups without changing bonds (`safeCfgB`), the
                             C14 hypotheses (`hypothesesOk`), and cores whose centre is complete after `k`
                             substitutions on every branch (`frontierB`) ⟹ every sample of `generate` has `DAShape`
  * `C15.da_rc_shape_thm`    the generated configuration of the shipped `DielsAlderProxy`, both modes: every sample has
                             `DAShape` — the side conditions are discharged by `decide +kernel` over the group tables and
                             the first three substitution levels of the two core graphs (93 / 79 graphs), not over the
                             10 470 / 12 875 samples (`da_rc_shape_all`: and there are exactly that many)

  `DAShape x` (Proofs/C15RcA.lean, `DACycle`): six distinct carbons, cyclically consecutive ones joined by exactly one
  bond, label multiset `{(0,1)², (1,2), (2,1)³}` or `{(0,1)², (1,2), (2,1)², (3,2)}` (doubled in the model), and no
  changing label between any other two names of `x`.  Executable form: `daCycleB x (findCycle x)` (`daCycleB_sound`);
  the driver applies it to every implementation sample next to `daCentreOk`.

  NOT lifted (stays the labelled exhaustive test `daCentreOk`): the explicit-valence bound on both sides.  The valence
  of an atom of a sample is not a function of its own pattern: an anchor atom inherits the bonds of the label node it
  replaces (recursively, through single-label patterns such as `{alkyl}` → `{methyl}` → `C`), the k-th inherited bond
  goes to `anchor[min k …]`, a neighbouring label node replaced by the empty pattern `H` DROPS a bond, and `valenceOf`
  is not additive (aromatic bonds count as in a Kekulé structure).  A per-group bound would need the inherited-bond
  multiset per anchor along every reference chain; not done here.
-/
set_option linter.unusedSimpArgs false
namespace C15
open C13 C14 Graph

/-- the generated Diels-Alder configuration by mode (`neg = DielsAlderProxy(neg_sample=…)`) -/
def daCfg (neg : Bool) : Config := if neg then daCfgNeg else daCfgPos
def daCores (neg : Bool) : List Graph := if neg then daCoresNeg else daCoresPos

/-- **Diels-Alder reaction centre, every sample, both modes** — a theorem about the model on the generated
    configuration; no sample is enumerated. -/
theorem da_rc_shape_thm (neg : Bool) (fuel : Nat) (aam : Bool) (xs : List Graph)
    (h : generate (daCfg neg) fuel aam (daCores neg) = .ok xs) : ∀ x ∈ xs, DAShape x := by
  cases neg
  · exact rc_shape_general daCfgPos (safeSet daCfgPos) daDepth fuel aam daCoresPos xs da_pos_safe
      (fun c hc => List.all_eq_true.mp da_pos_hyp c hc) (fun c hc => List.all_eq_true.mp da_pos_front c hc) h
  · exact rc_shape_general daCfgNeg (safeSet daCfgNeg) daDepth fuel aam daCoresNeg xs da_neg_safe
      (fun c hc => List.all_eq_true.mp da_neg_hyp c hc) (fun c hc => List.all_eq_true.mp da_neg_front c hc) h

private theorem cores_ok {cfg : Config} {cores : List Graph} (hh : cores.all (hypothesesOk cfg) = true)
    (hc : cores.all closedB = true) :
    ∀ c ∈ cores, cfgOk cfg = true ∧ acyclicB (toRef cfg) = true ∧ closedB c = true ∧ contiguous c = true := by
  intro c hcm
  have hy := List.all_eq_true.mp hh c hcm
  simp only [hypothesesOk, Bool.and_eq_true] at hy
  exact ⟨hy.1.1.1.1.1.1.1, hy.1.1.1.1.1.2, List.all_eq_true.mp hc c hcm, hy.1.2⟩

/-- … and the samples the theorem speaks about are exactly the documented 10 470 / 12 875 -/
theorem da_rc_shape_all (neg : Bool) (fuel : Nat) (aam : Bool) (xs : List Graph)
    (h : generate (daCfg neg) fuel aam (daCores neg) = .ok xs) :
    xs.length = (if neg then 12875 else 10470) ∧ ∀ x ∈ xs, DAShape x := by
  refine ⟨?_, da_rc_shape_thm neg fuel aam xs h⟩
  cases neg
  · have hk := cores_ok da_pos_hyp da_pos_closed
    have hne : daCoresPos ≠ [] := by decide
    obtain ⟨c0, hc0⟩ := List.exists_mem_of_ne_nil _ hne
    rw [total daCfgPos fuel aam daCoresPos xs (hk c0 hc0).1 (hk c0 hc0).2.1 (fun c hc => (hk c hc).2.2) h]
    exact da_pos_total
  · have hk := cores_ok da_neg_hyp da_neg_closed
    have hne : daCoresNeg ≠ [] := by decide
    obtain ⟨c0, hc0⟩ := List.exists_mem_of_ne_nil _ hne
    rw [total daCfgNeg fuel aam daCoresNeg xs (hk c0 hc0).1 (hk c0 hc0).2.1 (fun c hc => (hk c hc).2.2) h]
    exact da_neg_total

/-! ### tests (non-vacuity on concrete inputs; these are tests, not part of the proofs) -/
section Tests

private def mkG (nodes : List (Int × NodeAttr)) (es : List Edge) : Graph :=
  addEdgesFrom { multi := true, nodes := nodes, adj := nodes.map fun n => (n.1, []) } es
private def atom (i : Int) (s : String) : Int × NodeAttr := (i, { symbol := some s, labels := some [], isLabeled := some false })
private def lab (i : Int) (l : String) : Int × NodeAttr := (i, { symbol := some "#", labels := some [l], isLabeled := some true })

/-- `{d}1<0,1>{e}<0,1>1` -/
private def coreT : Graph := mkG [lab 0 "d", lab 1 "e"] [(0, 1, 0, .p 0 2), (0, 1, 1, .p 0 2)]
/-- `C<2,1>C<1,2>C<2,1>C` -/
private def dieneT : Graph := mkG [atom 0 "C", atom 1 "C", atom 2 "C", atom 3 "C"]
  [(0, 1, 0, .p 4 2), (1, 2, 0, .p 2 4), (2, 3, 0, .p 4 2)]
/-- `C<2,1>C{r}` and `C<3,2>C` -/
private def eneT : Graph := mkG [atom 0 "C", atom 1 "C", lab 2 "r"] [(0, 1, 0, .p 4 2), (1, 2, 0, .s 2)]
private def yneT : Graph := mkG [atom 0 "C", atom 1 "C"] [(0, 1, 0, .p 6 4)]
/-- `CO`, `N` -/
private def coT : Graph := mkG [atom 0 "C", atom 1 "O"] [(0, 1, 0, .s 2)]
private def nT : Graph := mkG [atom 0 "N"] []
/-- a dienophile that is not one: `C<2,1>N` -/
private def badT : Graph := mkG [atom 0 "C", atom 1 "N"] [(0, 1, 0, .p 4 2)]

private def cfgT : Config := [
  { key := "d", name := "d", graphs := [⟨dieneT, [0, 3]⟩] },
  { key := "e", name := "e", graphs := [⟨eneT, [0, 1]⟩, ⟨yneT, [0, 1]⟩] },
  { key := "r", name := "r", graphs := [⟨coT, [0]⟩, ⟨nT, [0]⟩] }]
private def cfgBad : Config := [
  { key := "d", name := "d", graphs := [⟨dieneT, [0, 3]⟩] },
  { key := "e", name := "e", graphs := [⟨eneT, [0, 1]⟩, ⟨badT, [0, 1]⟩] },
  { key := "r", name := "r", graphs := [⟨coT, [0]⟩, ⟨nT, [0]⟩] }]

private def okOr {α : Type} (d : α) : Except Err α → α
  | .ok a => a
  | .error _ => d

-- the safe set is computed: only `r`
example : safeSet cfgT = ["r"] := by decide +kernel
-- the hypotheses of `rc_shape_general` hold for the test configuration (depth 2: `d`, then `e`) …
example : safeCfgB cfgT ["r"] = true ∧ hypothesesOk cfgT coreT = true ∧ frontierB cfgT ["r"] 2 coreT = true := by
  decide +kernel
-- … not with depth 1, and not at all when a dienophile graph has a nitrogen in the centre
example : frontierB cfgT ["r"] 1 coreT = false ∧ frontierB cfgBad ["r"] 5 coreT = false := by decide +kernel
-- `generate` runs and yields three samples; the theorem applies to them
example : (okOr [] (generate cfgT 10 true [coreT])).length = 3 := by decide +kernel
example : ∀ xs, generate cfgT 10 true [coreT] = .ok xs → ∀ x ∈ xs, DAShape x :=
  fun xs h => rc_shape_general cfgT ["r"] 2 10 true [coreT] xs (by decide +kernel)
    (by decide +kernel) (by decide +kernel) h
-- the executable form on the three samples: all pass, with the alkyne multiset on the last one
example : (okOr [] (generate cfgT 10 true [coreT])).map (fun x => daCycleB x (findCycle x)) = [true, true, true] := by
  decide +kernel
-- a sample whose centre is broken is rejected by the executable form: one cycle atom is not a carbon / one more
-- changing bond outside the cycle
example : daCycleB (mkG [atom 0 "C", atom 1 "C", atom 2 "C", atom 3 "C", atom 4 "C", atom 5 "N"]
    [(0, 1, 0, .p 4 2), (1, 2, 0, .p 2 4), (2, 3, 0, .p 4 2), (3, 4, 0, .p 0 2), (4, 5, 0, .p 4 2), (5, 0, 0, .p 0 2)])
    [0, 1, 2, 3, 4, 5] = false := by decide +kernel
example : daCycleB (mkG [atom 0 "C", atom 1 "C", atom 2 "C", atom 3 "C", atom 4 "C", atom 5 "C", atom 6 "C"]
    [(0, 1, 0, .p 4 2), (1, 2, 0, .p 2 4), (2, 3, 0, .p 4 2), (3, 4, 0, .p 0 2), (4, 5, 0, .p 4 2), (5, 0, 0, .p 0 2),
     (5, 6, 0, .p 2 4)])
    [0, 1, 2, 3, 4, 5] = false := by decide +kernel
-- the general one-substitution lemma on a concrete input: replacing `{r}` of `C<2,1>C{r}` by `CO`
example : (labelsBetween (replaceNode eneT 2 coT [0]) 0 1).filter changing = [.p 4 2]
    ∧ (labelsBetween (replaceNode eneT 2 coT [0]) 1 2).filter changing = [] := by decide +kernel
-- shipped tables: one concrete sample of the intermolecular core (`{diene}` → `{s-cis_diene}`, `{dienophile}` →
-- `C<3,2>C`, `{s-cis_diene}` → `C<2,1>C<1,2>C<2,1>C`) passes the executable form
example : (match buildPath daCfgPos 10 (daCoresPos.getD 1 {}) [0, 4, 3] with
    | .ok x => daCycleB (finish true x) (findCycle (finish true x))
    | .error _ => false) = true := by decide +kernel

end Tests

end C15
